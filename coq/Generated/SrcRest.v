(* GENERATED from the Go sources of /repo by /verif/tools/gen_model — do not edit. *)
From Coq Require Import String.
From OtpV Require Import Prelude Sha GoSem Rfc4648 Errors Decoder Otp Ocra Utils Suite Url.
Open Scope N_scope.

From OtpV Require Import Rest RestSem Src.
Definition err_text (e : err) : bytes := match render e with Some t => t | None => s2b "?" end.

(* struct Server not translated: type outside the translated fragment: *github.com/valyala/fasthttp.Server *)
Record t_errResp := mk_errResp { errResp_Code : bytes; errResp_Message : bytes; errResp_Details : unit }.
Definition zero_errResp : t_errResp := mk_errResp [] [] tt.
Definition set_errResp_Code (r : t_errResp) (v : bytes) : t_errResp := mk_errResp v (errResp_Message r) (errResp_Details r).
Definition set_errResp_Message (r : t_errResp) (v : bytes) : t_errResp := mk_errResp (errResp_Code r) v (errResp_Details r).
Definition set_errResp_Details (r : t_errResp) (v : unit) : t_errResp := mk_errResp (errResp_Code r) (errResp_Message r) v.
Definition decode_errResp (f : list (bytes * jv)) : option t_errResp :=
  match dec_string (field "code" f),
        dec_string (field "message" f) with
  | Some a0, Some a1 => Some (mk_errResp a0 a1 tt)
  | _, _ => None
  end.
Definition unmarshal_errResp (b : body) : t_errResp * option bytes :=
  match body_fields b with
  | Some f => match decode_errResp f with Some r => (r, None) | None => (zero_errResp, Some []) end
  | None => (zero_errResp, Some [])
  end.
Definition marshal_errResp (r : t_errResp) : jout := OObj ([(s2b "code", OStr (errResp_Code r))] ++ [(s2b "message", OStr (errResp_Message r))]).

Record t_generateRandomSecretResp := mk_generateRandomSecretResp { generateRandomSecretResp_Secret : bytes; generateRandomSecretResp_Algorithm : bytes }.
Definition zero_generateRandomSecretResp : t_generateRandomSecretResp := mk_generateRandomSecretResp [] [].
Definition set_generateRandomSecretResp_Secret (r : t_generateRandomSecretResp) (v : bytes) : t_generateRandomSecretResp := mk_generateRandomSecretResp v (generateRandomSecretResp_Algorithm r).
Definition set_generateRandomSecretResp_Algorithm (r : t_generateRandomSecretResp) (v : bytes) : t_generateRandomSecretResp := mk_generateRandomSecretResp (generateRandomSecretResp_Secret r) v.
Definition decode_generateRandomSecretResp (f : list (bytes * jv)) : option t_generateRandomSecretResp :=
  match dec_string (field "secret" f),
        dec_string (field "algorithm" f) with
  | Some a0, Some a1 => Some (mk_generateRandomSecretResp a0 a1)
  | _, _ => None
  end.
Definition unmarshal_generateRandomSecretResp (b : body) : t_generateRandomSecretResp * option bytes :=
  match body_fields b with
  | Some f => match decode_generateRandomSecretResp f with Some r => (r, None) | None => (zero_generateRandomSecretResp, Some []) end
  | None => (zero_generateRandomSecretResp, Some [])
  end.
Definition marshal_generateRandomSecretResp (r : t_generateRandomSecretResp) : jout := OObj ([(s2b "secret", OStr (generateRandomSecretResp_Secret r))] ++ [(s2b "algorithm", OStr (generateRandomSecretResp_Algorithm r))]).

Record t_homeResp := mk_homeResp { homeResp_App : bytes; homeResp_Description : bytes; homeResp_Docs : bytes; homeResp_Status : bytes }.
Definition zero_homeResp : t_homeResp := mk_homeResp [] [] [] [].
Definition set_homeResp_App (r : t_homeResp) (v : bytes) : t_homeResp := mk_homeResp v (homeResp_Description r) (homeResp_Docs r) (homeResp_Status r).
Definition set_homeResp_Description (r : t_homeResp) (v : bytes) : t_homeResp := mk_homeResp (homeResp_App r) v (homeResp_Docs r) (homeResp_Status r).
Definition set_homeResp_Docs (r : t_homeResp) (v : bytes) : t_homeResp := mk_homeResp (homeResp_App r) (homeResp_Description r) v (homeResp_Status r).
Definition set_homeResp_Status (r : t_homeResp) (v : bytes) : t_homeResp := mk_homeResp (homeResp_App r) (homeResp_Description r) (homeResp_Docs r) v.
Definition decode_homeResp (f : list (bytes * jv)) : option t_homeResp :=
  match dec_string (field "app" f),
        dec_string (field "description" f),
        dec_string (field "docs" f),
        dec_string (field "status" f) with
  | Some a0, Some a1, Some a2, Some a3 => Some (mk_homeResp a0 a1 a2 a3)
  | _, _, _, _ => None
  end.
Definition unmarshal_homeResp (b : body) : t_homeResp * option bytes :=
  match body_fields b with
  | Some f => match decode_homeResp f with Some r => (r, None) | None => (zero_homeResp, Some []) end
  | None => (zero_homeResp, Some [])
  end.
Definition marshal_homeResp (r : t_homeResp) : jout := OObj ([(s2b "app", OStr (homeResp_App r))] ++ [(s2b "description", OStr (homeResp_Description r))] ++ [(s2b "docs", OStr (homeResp_Docs r))] ++ [(s2b "status", OStr (homeResp_Status r))]).

Record t_listOCRASuiteResp := mk_listOCRASuiteResp { listOCRASuiteResp_Suites : (list bytes) }.
Definition zero_listOCRASuiteResp : t_listOCRASuiteResp := mk_listOCRASuiteResp [].
Definition set_listOCRASuiteResp_Suites (r : t_listOCRASuiteResp) (v : (list bytes)) : t_listOCRASuiteResp := mk_listOCRASuiteResp v.
Definition marshal_listOCRASuiteResp (r : t_listOCRASuiteResp) : jout := OObj ([(s2b "suites", OList (map OStr (listOCRASuiteResp_Suites r)))]).

Record t_suiteConfig := mk_suiteConfig { suiteConfig_HashFunction : bytes; suiteConfig_CodeDigits : Z; suiteConfig_ChallengeFormat : Z; suiteConfig_IncludeCounter : bool; suiteConfig_IncludeChallenge : bool; suiteConfig_IncludePassword : bool; suiteConfig_IncludeSession : bool; suiteConfig_IncludeTimestamp : bool; suiteConfig_PasswordHash : Z; suiteConfig_Timestep : Z }.
Definition zero_suiteConfig : t_suiteConfig := mk_suiteConfig [] 0%Z 0%Z false false false false false 0%Z 0%Z.
Definition set_suiteConfig_HashFunction (r : t_suiteConfig) (v : bytes) : t_suiteConfig := mk_suiteConfig v (suiteConfig_CodeDigits r) (suiteConfig_ChallengeFormat r) (suiteConfig_IncludeCounter r) (suiteConfig_IncludeChallenge r) (suiteConfig_IncludePassword r) (suiteConfig_IncludeSession r) (suiteConfig_IncludeTimestamp r) (suiteConfig_PasswordHash r) (suiteConfig_Timestep r).
Definition set_suiteConfig_CodeDigits (r : t_suiteConfig) (v : Z) : t_suiteConfig := mk_suiteConfig (suiteConfig_HashFunction r) v (suiteConfig_ChallengeFormat r) (suiteConfig_IncludeCounter r) (suiteConfig_IncludeChallenge r) (suiteConfig_IncludePassword r) (suiteConfig_IncludeSession r) (suiteConfig_IncludeTimestamp r) (suiteConfig_PasswordHash r) (suiteConfig_Timestep r).
Definition set_suiteConfig_ChallengeFormat (r : t_suiteConfig) (v : Z) : t_suiteConfig := mk_suiteConfig (suiteConfig_HashFunction r) (suiteConfig_CodeDigits r) v (suiteConfig_IncludeCounter r) (suiteConfig_IncludeChallenge r) (suiteConfig_IncludePassword r) (suiteConfig_IncludeSession r) (suiteConfig_IncludeTimestamp r) (suiteConfig_PasswordHash r) (suiteConfig_Timestep r).
Definition set_suiteConfig_IncludeCounter (r : t_suiteConfig) (v : bool) : t_suiteConfig := mk_suiteConfig (suiteConfig_HashFunction r) (suiteConfig_CodeDigits r) (suiteConfig_ChallengeFormat r) v (suiteConfig_IncludeChallenge r) (suiteConfig_IncludePassword r) (suiteConfig_IncludeSession r) (suiteConfig_IncludeTimestamp r) (suiteConfig_PasswordHash r) (suiteConfig_Timestep r).
Definition set_suiteConfig_IncludeChallenge (r : t_suiteConfig) (v : bool) : t_suiteConfig := mk_suiteConfig (suiteConfig_HashFunction r) (suiteConfig_CodeDigits r) (suiteConfig_ChallengeFormat r) (suiteConfig_IncludeCounter r) v (suiteConfig_IncludePassword r) (suiteConfig_IncludeSession r) (suiteConfig_IncludeTimestamp r) (suiteConfig_PasswordHash r) (suiteConfig_Timestep r).
Definition set_suiteConfig_IncludePassword (r : t_suiteConfig) (v : bool) : t_suiteConfig := mk_suiteConfig (suiteConfig_HashFunction r) (suiteConfig_CodeDigits r) (suiteConfig_ChallengeFormat r) (suiteConfig_IncludeCounter r) (suiteConfig_IncludeChallenge r) v (suiteConfig_IncludeSession r) (suiteConfig_IncludeTimestamp r) (suiteConfig_PasswordHash r) (suiteConfig_Timestep r).
Definition set_suiteConfig_IncludeSession (r : t_suiteConfig) (v : bool) : t_suiteConfig := mk_suiteConfig (suiteConfig_HashFunction r) (suiteConfig_CodeDigits r) (suiteConfig_ChallengeFormat r) (suiteConfig_IncludeCounter r) (suiteConfig_IncludeChallenge r) (suiteConfig_IncludePassword r) v (suiteConfig_IncludeTimestamp r) (suiteConfig_PasswordHash r) (suiteConfig_Timestep r).
Definition set_suiteConfig_IncludeTimestamp (r : t_suiteConfig) (v : bool) : t_suiteConfig := mk_suiteConfig (suiteConfig_HashFunction r) (suiteConfig_CodeDigits r) (suiteConfig_ChallengeFormat r) (suiteConfig_IncludeCounter r) (suiteConfig_IncludeChallenge r) (suiteConfig_IncludePassword r) (suiteConfig_IncludeSession r) v (suiteConfig_PasswordHash r) (suiteConfig_Timestep r).
Definition set_suiteConfig_PasswordHash (r : t_suiteConfig) (v : Z) : t_suiteConfig := mk_suiteConfig (suiteConfig_HashFunction r) (suiteConfig_CodeDigits r) (suiteConfig_ChallengeFormat r) (suiteConfig_IncludeCounter r) (suiteConfig_IncludeChallenge r) (suiteConfig_IncludePassword r) (suiteConfig_IncludeSession r) (suiteConfig_IncludeTimestamp r) v (suiteConfig_Timestep r).
Definition set_suiteConfig_Timestep (r : t_suiteConfig) (v : Z) : t_suiteConfig := mk_suiteConfig (suiteConfig_HashFunction r) (suiteConfig_CodeDigits r) (suiteConfig_ChallengeFormat r) (suiteConfig_IncludeCounter r) (suiteConfig_IncludeChallenge r) (suiteConfig_IncludePassword r) (suiteConfig_IncludeSession r) (suiteConfig_IncludeTimestamp r) (suiteConfig_PasswordHash r) v.
Definition decode_suiteConfig (f : list (bytes * jv)) : option t_suiteConfig :=
  match dec_string (field "hash_function" f),
        dec_int64 (field "code_digits" f),
        dec_int64 (field "challenge_format" f),
        dec_bool (field "include_counter" f),
        dec_bool (field "include_challenge" f),
        dec_bool (field "include_password" f),
        dec_bool (field "include_session" f),
        dec_bool (field "include_timestamp" f),
        dec_int64 (field "password_hash" f),
        dec_int64 (field "timestep" f) with
  | Some a0, Some a1, Some a2, Some a3, Some a4, Some a5, Some a6, Some a7, Some a8, Some a9 => Some (mk_suiteConfig a0 a1 a2 a3 a4 a5 a6 a7 a8 a9)
  | _, _, _, _, _, _, _, _, _, _ => None
  end.
Definition unmarshal_suiteConfig (b : body) : t_suiteConfig * option bytes :=
  match body_fields b with
  | Some f => match decode_suiteConfig f with Some r => (r, None) | None => (zero_suiteConfig, Some []) end
  | None => (zero_suiteConfig, Some [])
  end.
Definition marshal_suiteConfig (r : t_suiteConfig) : jout := OObj ([(s2b "hash_function", OStr (suiteConfig_HashFunction r))] ++ [(s2b "code_digits", OInt (suiteConfig_CodeDigits r))] ++ [(s2b "challenge_format", OInt (suiteConfig_ChallengeFormat r))] ++ [(s2b "include_counter", OBool (suiteConfig_IncludeCounter r))] ++ [(s2b "include_challenge", OBool (suiteConfig_IncludeChallenge r))] ++ [(s2b "include_password", OBool (suiteConfig_IncludePassword r))] ++ [(s2b "include_session", OBool (suiteConfig_IncludeSession r))] ++ [(s2b "include_timestamp", OBool (suiteConfig_IncludeTimestamp r))] ++ omit_int "password_hash" (suiteConfig_PasswordHash r) ++ omit_int "timestep" (suiteConfig_Timestep r)).

Record t_ocraInput := mk_ocraInput { ocraInput_CounterHex : bytes; ocraInput_ChallengeHex : bytes; ocraInput_PasswordHex : bytes; ocraInput_SessionInfoHex : bytes; ocraInput_TimestampHex : bytes }.
Definition zero_ocraInput : t_ocraInput := mk_ocraInput [] [] [] [] [].
Definition set_ocraInput_CounterHex (r : t_ocraInput) (v : bytes) : t_ocraInput := mk_ocraInput v (ocraInput_ChallengeHex r) (ocraInput_PasswordHex r) (ocraInput_SessionInfoHex r) (ocraInput_TimestampHex r).
Definition set_ocraInput_ChallengeHex (r : t_ocraInput) (v : bytes) : t_ocraInput := mk_ocraInput (ocraInput_CounterHex r) v (ocraInput_PasswordHex r) (ocraInput_SessionInfoHex r) (ocraInput_TimestampHex r).
Definition set_ocraInput_PasswordHex (r : t_ocraInput) (v : bytes) : t_ocraInput := mk_ocraInput (ocraInput_CounterHex r) (ocraInput_ChallengeHex r) v (ocraInput_SessionInfoHex r) (ocraInput_TimestampHex r).
Definition set_ocraInput_SessionInfoHex (r : t_ocraInput) (v : bytes) : t_ocraInput := mk_ocraInput (ocraInput_CounterHex r) (ocraInput_ChallengeHex r) (ocraInput_PasswordHex r) v (ocraInput_TimestampHex r).
Definition set_ocraInput_TimestampHex (r : t_ocraInput) (v : bytes) : t_ocraInput := mk_ocraInput (ocraInput_CounterHex r) (ocraInput_ChallengeHex r) (ocraInput_PasswordHex r) (ocraInput_SessionInfoHex r) v.
Definition decode_ocraInput (f : list (bytes * jv)) : option t_ocraInput :=
  match dec_string (field "counter_hex" f),
        dec_string (field "challenge_hex" f),
        dec_string (field "password_hex" f),
        dec_string (field "session_info_hex" f),
        dec_string (field "timestamp_hex" f) with
  | Some a0, Some a1, Some a2, Some a3, Some a4 => Some (mk_ocraInput a0 a1 a2 a3 a4)
  | _, _, _, _, _ => None
  end.
Definition unmarshal_ocraInput (b : body) : t_ocraInput * option bytes :=
  match body_fields b with
  | Some f => match decode_ocraInput f with Some r => (r, None) | None => (zero_ocraInput, Some []) end
  | None => (zero_ocraInput, Some [])
  end.
Definition marshal_ocraInput (r : t_ocraInput) : jout := OObj (omit_str "counter_hex" (ocraInput_CounterHex r) ++ omit_str "challenge_hex" (ocraInput_ChallengeHex r) ++ omit_str "password_hex" (ocraInput_PasswordHex r) ++ omit_str "session_info_hex" (ocraInput_SessionInfoHex r) ++ omit_str "timestamp_hex" (ocraInput_TimestampHex r)).

Record t_ocraGenerateReq := mk_ocraGenerateReq { ocraGenerateReq_Secret : bytes; ocraGenerateReq_RawSuite : bytes; ocraGenerateReq_Suite : (option t_suiteConfig); ocraGenerateReq_Input : (option t_ocraInput) }.
Definition zero_ocraGenerateReq : t_ocraGenerateReq := mk_ocraGenerateReq [] [] None None.
Definition set_ocraGenerateReq_Secret (r : t_ocraGenerateReq) (v : bytes) : t_ocraGenerateReq := mk_ocraGenerateReq v (ocraGenerateReq_RawSuite r) (ocraGenerateReq_Suite r) (ocraGenerateReq_Input r).
Definition set_ocraGenerateReq_RawSuite (r : t_ocraGenerateReq) (v : bytes) : t_ocraGenerateReq := mk_ocraGenerateReq (ocraGenerateReq_Secret r) v (ocraGenerateReq_Suite r) (ocraGenerateReq_Input r).
Definition set_ocraGenerateReq_Suite (r : t_ocraGenerateReq) (v : (option t_suiteConfig)) : t_ocraGenerateReq := mk_ocraGenerateReq (ocraGenerateReq_Secret r) (ocraGenerateReq_RawSuite r) v (ocraGenerateReq_Input r).
Definition set_ocraGenerateReq_Input (r : t_ocraGenerateReq) (v : (option t_ocraInput)) : t_ocraGenerateReq := mk_ocraGenerateReq (ocraGenerateReq_Secret r) (ocraGenerateReq_RawSuite r) (ocraGenerateReq_Suite r) v.
Definition decode_ocraGenerateReq (f : list (bytes * jv)) : option t_ocraGenerateReq :=
  match dec_string (field "secret" f),
        dec_string (field "raw_suite" f),
        dec_ptr decode_suiteConfig (field "suite" f),
        dec_ptr decode_ocraInput (field "input" f) with
  | Some a0, Some a1, Some a2, Some a3 => Some (mk_ocraGenerateReq a0 a1 a2 a3)
  | _, _, _, _ => None
  end.
Definition unmarshal_ocraGenerateReq (b : body) : t_ocraGenerateReq * option bytes :=
  match body_fields b with
  | Some f => match decode_ocraGenerateReq f with Some r => (r, None) | None => (zero_ocraGenerateReq, Some []) end
  | None => (zero_ocraGenerateReq, Some [])
  end.
Definition marshal_ocraGenerateReq (r : t_ocraGenerateReq) : jout := OObj ([(s2b "secret", OStr (ocraGenerateReq_Secret r))] ++ omit_str "raw_suite" (ocraGenerateReq_RawSuite r) ++ (match (ocraGenerateReq_Suite r) with Some x => [(s2b "suite", marshal_suiteConfig x)] | None => [] end) ++ (match (ocraGenerateReq_Input r) with Some x => [(s2b "input", marshal_ocraInput x)] | None => [(s2b "input", ONull)] end)).

Record t_ocraValidateReq := mk_ocraValidateReq { ocraValidateReq_Secret : bytes; ocraValidateReq_Code : bytes; ocraValidateReq_RawSuite : bytes; ocraValidateReq_Suite : (option t_suiteConfig); ocraValidateReq_Input : (option t_ocraInput) }.
Definition zero_ocraValidateReq : t_ocraValidateReq := mk_ocraValidateReq [] [] [] None None.
Definition set_ocraValidateReq_Secret (r : t_ocraValidateReq) (v : bytes) : t_ocraValidateReq := mk_ocraValidateReq v (ocraValidateReq_Code r) (ocraValidateReq_RawSuite r) (ocraValidateReq_Suite r) (ocraValidateReq_Input r).
Definition set_ocraValidateReq_Code (r : t_ocraValidateReq) (v : bytes) : t_ocraValidateReq := mk_ocraValidateReq (ocraValidateReq_Secret r) v (ocraValidateReq_RawSuite r) (ocraValidateReq_Suite r) (ocraValidateReq_Input r).
Definition set_ocraValidateReq_RawSuite (r : t_ocraValidateReq) (v : bytes) : t_ocraValidateReq := mk_ocraValidateReq (ocraValidateReq_Secret r) (ocraValidateReq_Code r) v (ocraValidateReq_Suite r) (ocraValidateReq_Input r).
Definition set_ocraValidateReq_Suite (r : t_ocraValidateReq) (v : (option t_suiteConfig)) : t_ocraValidateReq := mk_ocraValidateReq (ocraValidateReq_Secret r) (ocraValidateReq_Code r) (ocraValidateReq_RawSuite r) v (ocraValidateReq_Input r).
Definition set_ocraValidateReq_Input (r : t_ocraValidateReq) (v : (option t_ocraInput)) : t_ocraValidateReq := mk_ocraValidateReq (ocraValidateReq_Secret r) (ocraValidateReq_Code r) (ocraValidateReq_RawSuite r) (ocraValidateReq_Suite r) v.
Definition decode_ocraValidateReq (f : list (bytes * jv)) : option t_ocraValidateReq :=
  match dec_string (field "secret" f),
        dec_string (field "code" f),
        dec_string (field "raw_suite" f),
        dec_ptr decode_suiteConfig (field "suite" f),
        dec_ptr decode_ocraInput (field "input" f) with
  | Some a0, Some a1, Some a2, Some a3, Some a4 => Some (mk_ocraValidateReq a0 a1 a2 a3 a4)
  | _, _, _, _, _ => None
  end.
Definition unmarshal_ocraValidateReq (b : body) : t_ocraValidateReq * option bytes :=
  match body_fields b with
  | Some f => match decode_ocraValidateReq f with Some r => (r, None) | None => (zero_ocraValidateReq, Some []) end
  | None => (zero_ocraValidateReq, Some [])
  end.
Definition marshal_ocraValidateReq (r : t_ocraValidateReq) : jout := OObj ([(s2b "secret", OStr (ocraValidateReq_Secret r))] ++ [(s2b "code", OStr (ocraValidateReq_Code r))] ++ omit_str "raw_suite" (ocraValidateReq_RawSuite r) ++ (match (ocraValidateReq_Suite r) with Some x => [(s2b "suite", marshal_suiteConfig x)] | None => [] end) ++ (match (ocraValidateReq_Input r) with Some x => [(s2b "input", marshal_ocraInput x)] | None => [(s2b "input", ONull)] end)).

Record t_otpGenerateReq := mk_otpGenerateReq { otpGenerateReq_Secret : bytes; otpGenerateReq_Timestamp : Z; otpGenerateReq_Counter : N; otpGenerateReq_Digits : bytes; otpGenerateReq_Period : N; otpGenerateReq_Algorithm : bytes }.
Definition zero_otpGenerateReq : t_otpGenerateReq := mk_otpGenerateReq [] 0%Z 0%N [] 0%N [].
Definition set_otpGenerateReq_Secret (r : t_otpGenerateReq) (v : bytes) : t_otpGenerateReq := mk_otpGenerateReq v (otpGenerateReq_Timestamp r) (otpGenerateReq_Counter r) (otpGenerateReq_Digits r) (otpGenerateReq_Period r) (otpGenerateReq_Algorithm r).
Definition set_otpGenerateReq_Timestamp (r : t_otpGenerateReq) (v : Z) : t_otpGenerateReq := mk_otpGenerateReq (otpGenerateReq_Secret r) v (otpGenerateReq_Counter r) (otpGenerateReq_Digits r) (otpGenerateReq_Period r) (otpGenerateReq_Algorithm r).
Definition set_otpGenerateReq_Counter (r : t_otpGenerateReq) (v : N) : t_otpGenerateReq := mk_otpGenerateReq (otpGenerateReq_Secret r) (otpGenerateReq_Timestamp r) v (otpGenerateReq_Digits r) (otpGenerateReq_Period r) (otpGenerateReq_Algorithm r).
Definition set_otpGenerateReq_Digits (r : t_otpGenerateReq) (v : bytes) : t_otpGenerateReq := mk_otpGenerateReq (otpGenerateReq_Secret r) (otpGenerateReq_Timestamp r) (otpGenerateReq_Counter r) v (otpGenerateReq_Period r) (otpGenerateReq_Algorithm r).
Definition set_otpGenerateReq_Period (r : t_otpGenerateReq) (v : N) : t_otpGenerateReq := mk_otpGenerateReq (otpGenerateReq_Secret r) (otpGenerateReq_Timestamp r) (otpGenerateReq_Counter r) (otpGenerateReq_Digits r) v (otpGenerateReq_Algorithm r).
Definition set_otpGenerateReq_Algorithm (r : t_otpGenerateReq) (v : bytes) : t_otpGenerateReq := mk_otpGenerateReq (otpGenerateReq_Secret r) (otpGenerateReq_Timestamp r) (otpGenerateReq_Counter r) (otpGenerateReq_Digits r) (otpGenerateReq_Period r) v.
Definition decode_otpGenerateReq (f : list (bytes * jv)) : option t_otpGenerateReq :=
  match dec_string (field "secret" f),
        dec_int64 (field "timestamp" f),
        dec_uint64 (field "counter" f),
        dec_string (field "digits" f),
        dec_uint64 (field "period" f),
        dec_string (field "algorithm" f) with
  | Some a0, Some a1, Some a2, Some a3, Some a4, Some a5 => Some (mk_otpGenerateReq a0 a1 a2 a3 a4 a5)
  | _, _, _, _, _, _ => None
  end.
Definition unmarshal_otpGenerateReq (b : body) : t_otpGenerateReq * option bytes :=
  match body_fields b with
  | Some f => match decode_otpGenerateReq f with Some r => (r, None) | None => (zero_otpGenerateReq, Some []) end
  | None => (zero_otpGenerateReq, Some [])
  end.
Definition marshal_otpGenerateReq (r : t_otpGenerateReq) : jout := OObj ([(s2b "secret", OStr (otpGenerateReq_Secret r))] ++ omit_int "timestamp" (otpGenerateReq_Timestamp r) ++ omit_int "counter" (Z.of_N (otpGenerateReq_Counter r)) ++ omit_str "digits" (otpGenerateReq_Digits r) ++ omit_int "period" (Z.of_N (otpGenerateReq_Period r)) ++ omit_str "algorithm" (otpGenerateReq_Algorithm r)).

Record t_otpGenerateResp := mk_otpGenerateResp { otpGenerateResp_Code : bytes; otpGenerateResp_TimeStamp : Z; otpGenerateResp_Counter : N; otpGenerateResp_Suite : bytes }.
Definition zero_otpGenerateResp : t_otpGenerateResp := mk_otpGenerateResp [] 0%Z 0%N [].
Definition set_otpGenerateResp_Code (r : t_otpGenerateResp) (v : bytes) : t_otpGenerateResp := mk_otpGenerateResp v (otpGenerateResp_TimeStamp r) (otpGenerateResp_Counter r) (otpGenerateResp_Suite r).
Definition set_otpGenerateResp_TimeStamp (r : t_otpGenerateResp) (v : Z) : t_otpGenerateResp := mk_otpGenerateResp (otpGenerateResp_Code r) v (otpGenerateResp_Counter r) (otpGenerateResp_Suite r).
Definition set_otpGenerateResp_Counter (r : t_otpGenerateResp) (v : N) : t_otpGenerateResp := mk_otpGenerateResp (otpGenerateResp_Code r) (otpGenerateResp_TimeStamp r) v (otpGenerateResp_Suite r).
Definition set_otpGenerateResp_Suite (r : t_otpGenerateResp) (v : bytes) : t_otpGenerateResp := mk_otpGenerateResp (otpGenerateResp_Code r) (otpGenerateResp_TimeStamp r) (otpGenerateResp_Counter r) v.
Definition decode_otpGenerateResp (f : list (bytes * jv)) : option t_otpGenerateResp :=
  match dec_string (field "code" f),
        dec_int64 (field "timestamp" f),
        dec_uint64 (field "counter" f),
        dec_string (field "suite" f) with
  | Some a0, Some a1, Some a2, Some a3 => Some (mk_otpGenerateResp a0 a1 a2 a3)
  | _, _, _, _ => None
  end.
Definition unmarshal_otpGenerateResp (b : body) : t_otpGenerateResp * option bytes :=
  match body_fields b with
  | Some f => match decode_otpGenerateResp f with Some r => (r, None) | None => (zero_otpGenerateResp, Some []) end
  | None => (zero_otpGenerateResp, Some [])
  end.
Definition marshal_otpGenerateResp (r : t_otpGenerateResp) : jout := OObj ([(s2b "code", OStr (otpGenerateResp_Code r))] ++ omit_int "timestamp" (otpGenerateResp_TimeStamp r) ++ omit_int "counter" (Z.of_N (otpGenerateResp_Counter r)) ++ omit_str "suite" (otpGenerateResp_Suite r)).

Record t_otpURLGenerateReq := mk_otpURLGenerateReq { otpURLGenerateReq_Type : bytes; otpURLGenerateReq_Secret : bytes; otpURLGenerateReq_Issuer : bytes; otpURLGenerateReq_AccountName : bytes; otpURLGenerateReq_Period : N; otpURLGenerateReq_Digits : bytes; otpURLGenerateReq_Algorithm : bytes }.
Definition zero_otpURLGenerateReq : t_otpURLGenerateReq := mk_otpURLGenerateReq [] [] [] [] 0%N [] [].
Definition set_otpURLGenerateReq_Type (r : t_otpURLGenerateReq) (v : bytes) : t_otpURLGenerateReq := mk_otpURLGenerateReq v (otpURLGenerateReq_Secret r) (otpURLGenerateReq_Issuer r) (otpURLGenerateReq_AccountName r) (otpURLGenerateReq_Period r) (otpURLGenerateReq_Digits r) (otpURLGenerateReq_Algorithm r).
Definition set_otpURLGenerateReq_Secret (r : t_otpURLGenerateReq) (v : bytes) : t_otpURLGenerateReq := mk_otpURLGenerateReq (otpURLGenerateReq_Type r) v (otpURLGenerateReq_Issuer r) (otpURLGenerateReq_AccountName r) (otpURLGenerateReq_Period r) (otpURLGenerateReq_Digits r) (otpURLGenerateReq_Algorithm r).
Definition set_otpURLGenerateReq_Issuer (r : t_otpURLGenerateReq) (v : bytes) : t_otpURLGenerateReq := mk_otpURLGenerateReq (otpURLGenerateReq_Type r) (otpURLGenerateReq_Secret r) v (otpURLGenerateReq_AccountName r) (otpURLGenerateReq_Period r) (otpURLGenerateReq_Digits r) (otpURLGenerateReq_Algorithm r).
Definition set_otpURLGenerateReq_AccountName (r : t_otpURLGenerateReq) (v : bytes) : t_otpURLGenerateReq := mk_otpURLGenerateReq (otpURLGenerateReq_Type r) (otpURLGenerateReq_Secret r) (otpURLGenerateReq_Issuer r) v (otpURLGenerateReq_Period r) (otpURLGenerateReq_Digits r) (otpURLGenerateReq_Algorithm r).
Definition set_otpURLGenerateReq_Period (r : t_otpURLGenerateReq) (v : N) : t_otpURLGenerateReq := mk_otpURLGenerateReq (otpURLGenerateReq_Type r) (otpURLGenerateReq_Secret r) (otpURLGenerateReq_Issuer r) (otpURLGenerateReq_AccountName r) v (otpURLGenerateReq_Digits r) (otpURLGenerateReq_Algorithm r).
Definition set_otpURLGenerateReq_Digits (r : t_otpURLGenerateReq) (v : bytes) : t_otpURLGenerateReq := mk_otpURLGenerateReq (otpURLGenerateReq_Type r) (otpURLGenerateReq_Secret r) (otpURLGenerateReq_Issuer r) (otpURLGenerateReq_AccountName r) (otpURLGenerateReq_Period r) v (otpURLGenerateReq_Algorithm r).
Definition set_otpURLGenerateReq_Algorithm (r : t_otpURLGenerateReq) (v : bytes) : t_otpURLGenerateReq := mk_otpURLGenerateReq (otpURLGenerateReq_Type r) (otpURLGenerateReq_Secret r) (otpURLGenerateReq_Issuer r) (otpURLGenerateReq_AccountName r) (otpURLGenerateReq_Period r) (otpURLGenerateReq_Digits r) v.
Definition decode_otpURLGenerateReq (f : list (bytes * jv)) : option t_otpURLGenerateReq :=
  match dec_string (field "type" f),
        dec_string (field "secret" f),
        dec_string (field "issuer" f),
        dec_string (field "account_name" f),
        dec_uint64 (field "period" f),
        dec_string (field "digits" f),
        dec_string (field "algorithm" f) with
  | Some a0, Some a1, Some a2, Some a3, Some a4, Some a5, Some a6 => Some (mk_otpURLGenerateReq a0 a1 a2 a3 a4 a5 a6)
  | _, _, _, _, _, _, _ => None
  end.
Definition unmarshal_otpURLGenerateReq (b : body) : t_otpURLGenerateReq * option bytes :=
  match body_fields b with
  | Some f => match decode_otpURLGenerateReq f with Some r => (r, None) | None => (zero_otpURLGenerateReq, Some []) end
  | None => (zero_otpURLGenerateReq, Some [])
  end.
Definition marshal_otpURLGenerateReq (r : t_otpURLGenerateReq) : jout := OObj ([(s2b "type", OStr (otpURLGenerateReq_Type r))] ++ [(s2b "secret", OStr (otpURLGenerateReq_Secret r))] ++ [(s2b "issuer", OStr (otpURLGenerateReq_Issuer r))] ++ [(s2b "account_name", OStr (otpURLGenerateReq_AccountName r))] ++ omit_int "period" (Z.of_N (otpURLGenerateReq_Period r)) ++ omit_str "digits" (otpURLGenerateReq_Digits r) ++ omit_str "algorithm" (otpURLGenerateReq_Algorithm r)).

Record t_otpURLGenerateResp := mk_otpURLGenerateResp { otpURLGenerateResp_URL : bytes }.
Definition zero_otpURLGenerateResp : t_otpURLGenerateResp := mk_otpURLGenerateResp [].
Definition set_otpURLGenerateResp_URL (r : t_otpURLGenerateResp) (v : bytes) : t_otpURLGenerateResp := mk_otpURLGenerateResp v.
Definition decode_otpURLGenerateResp (f : list (bytes * jv)) : option t_otpURLGenerateResp :=
  match dec_string (field "url" f) with
  | Some a0 => Some (mk_otpURLGenerateResp a0)
  | _ => None
  end.
Definition unmarshal_otpURLGenerateResp (b : body) : t_otpURLGenerateResp * option bytes :=
  match body_fields b with
  | Some f => match decode_otpURLGenerateResp f with Some r => (r, None) | None => (zero_otpURLGenerateResp, Some []) end
  | None => (zero_otpURLGenerateResp, Some [])
  end.
Definition marshal_otpURLGenerateResp (r : t_otpURLGenerateResp) : jout := OObj ([(s2b "url", OStr (otpURLGenerateResp_URL r))]).

Record t_otpValidateReq := mk_otpValidateReq { otpValidateReq_Secret : bytes; otpValidateReq_Timestamp : Z; otpValidateReq_Counter : N; otpValidateReq_Code : bytes; otpValidateReq_Digits : bytes; otpValidateReq_Period : N; otpValidateReq_Skew : N; otpValidateReq_Algorithm : bytes }.
Definition zero_otpValidateReq : t_otpValidateReq := mk_otpValidateReq [] 0%Z 0%N [] [] 0%N 0%N [].
Definition set_otpValidateReq_Secret (r : t_otpValidateReq) (v : bytes) : t_otpValidateReq := mk_otpValidateReq v (otpValidateReq_Timestamp r) (otpValidateReq_Counter r) (otpValidateReq_Code r) (otpValidateReq_Digits r) (otpValidateReq_Period r) (otpValidateReq_Skew r) (otpValidateReq_Algorithm r).
Definition set_otpValidateReq_Timestamp (r : t_otpValidateReq) (v : Z) : t_otpValidateReq := mk_otpValidateReq (otpValidateReq_Secret r) v (otpValidateReq_Counter r) (otpValidateReq_Code r) (otpValidateReq_Digits r) (otpValidateReq_Period r) (otpValidateReq_Skew r) (otpValidateReq_Algorithm r).
Definition set_otpValidateReq_Counter (r : t_otpValidateReq) (v : N) : t_otpValidateReq := mk_otpValidateReq (otpValidateReq_Secret r) (otpValidateReq_Timestamp r) v (otpValidateReq_Code r) (otpValidateReq_Digits r) (otpValidateReq_Period r) (otpValidateReq_Skew r) (otpValidateReq_Algorithm r).
Definition set_otpValidateReq_Code (r : t_otpValidateReq) (v : bytes) : t_otpValidateReq := mk_otpValidateReq (otpValidateReq_Secret r) (otpValidateReq_Timestamp r) (otpValidateReq_Counter r) v (otpValidateReq_Digits r) (otpValidateReq_Period r) (otpValidateReq_Skew r) (otpValidateReq_Algorithm r).
Definition set_otpValidateReq_Digits (r : t_otpValidateReq) (v : bytes) : t_otpValidateReq := mk_otpValidateReq (otpValidateReq_Secret r) (otpValidateReq_Timestamp r) (otpValidateReq_Counter r) (otpValidateReq_Code r) v (otpValidateReq_Period r) (otpValidateReq_Skew r) (otpValidateReq_Algorithm r).
Definition set_otpValidateReq_Period (r : t_otpValidateReq) (v : N) : t_otpValidateReq := mk_otpValidateReq (otpValidateReq_Secret r) (otpValidateReq_Timestamp r) (otpValidateReq_Counter r) (otpValidateReq_Code r) (otpValidateReq_Digits r) v (otpValidateReq_Skew r) (otpValidateReq_Algorithm r).
Definition set_otpValidateReq_Skew (r : t_otpValidateReq) (v : N) : t_otpValidateReq := mk_otpValidateReq (otpValidateReq_Secret r) (otpValidateReq_Timestamp r) (otpValidateReq_Counter r) (otpValidateReq_Code r) (otpValidateReq_Digits r) (otpValidateReq_Period r) v (otpValidateReq_Algorithm r).
Definition set_otpValidateReq_Algorithm (r : t_otpValidateReq) (v : bytes) : t_otpValidateReq := mk_otpValidateReq (otpValidateReq_Secret r) (otpValidateReq_Timestamp r) (otpValidateReq_Counter r) (otpValidateReq_Code r) (otpValidateReq_Digits r) (otpValidateReq_Period r) (otpValidateReq_Skew r) v.
Definition decode_otpValidateReq (f : list (bytes * jv)) : option t_otpValidateReq :=
  match dec_string (field "secret" f),
        dec_int64 (field "timestamp" f),
        dec_uint64 (field "counter" f),
        dec_string (field "code" f),
        dec_string (field "digits" f),
        dec_uint64 (field "period" f),
        dec_uint64 (field "skew" f),
        dec_string (field "algorithm" f) with
  | Some a0, Some a1, Some a2, Some a3, Some a4, Some a5, Some a6, Some a7 => Some (mk_otpValidateReq a0 a1 a2 a3 a4 a5 a6 a7)
  | _, _, _, _, _, _, _, _ => None
  end.
Definition unmarshal_otpValidateReq (b : body) : t_otpValidateReq * option bytes :=
  match body_fields b with
  | Some f => match decode_otpValidateReq f with Some r => (r, None) | None => (zero_otpValidateReq, Some []) end
  | None => (zero_otpValidateReq, Some [])
  end.
Definition marshal_otpValidateReq (r : t_otpValidateReq) : jout := OObj ([(s2b "secret", OStr (otpValidateReq_Secret r))] ++ omit_int "timestamp" (otpValidateReq_Timestamp r) ++ omit_int "counter" (Z.of_N (otpValidateReq_Counter r)) ++ [(s2b "code", OStr (otpValidateReq_Code r))] ++ omit_str "digits" (otpValidateReq_Digits r) ++ omit_int "period" (Z.of_N (otpValidateReq_Period r)) ++ omit_int "skew" (Z.of_N (otpValidateReq_Skew r)) ++ omit_str "algorithm" (otpValidateReq_Algorithm r)).

Record t_otpValidateResp := mk_otpValidateResp { otpValidateResp_Valid : bool }.
Definition zero_otpValidateResp : t_otpValidateResp := mk_otpValidateResp false.
Definition set_otpValidateResp_Valid (r : t_otpValidateResp) (v : bool) : t_otpValidateResp := mk_otpValidateResp v.
Definition decode_otpValidateResp (f : list (bytes * jv)) : option t_otpValidateResp :=
  match dec_bool (field "valid" f) with
  | Some a0 => Some (mk_otpValidateResp a0)
  | _ => None
  end.
Definition unmarshal_otpValidateResp (b : body) : t_otpValidateResp * option bytes :=
  match body_fields b with
  | Some f => match decode_otpValidateResp f with Some r => (r, None) | None => (zero_otpValidateResp, Some []) end
  | None => (zero_otpValidateResp, Some [])
  end.
Definition marshal_otpValidateResp (r : t_otpValidateResp) : jout := OObj ([(s2b "valid", OBool (otpValidateResp_Valid r))]).

Record t_suiteConfigReq := mk_suiteConfigReq { suiteConfigReq_RawSuite : bytes }.
Definition zero_suiteConfigReq : t_suiteConfigReq := mk_suiteConfigReq [].
Definition set_suiteConfigReq_RawSuite (r : t_suiteConfigReq) (v : bytes) : t_suiteConfigReq := mk_suiteConfigReq v.
Definition decode_suiteConfigReq (f : list (bytes * jv)) : option t_suiteConfigReq :=
  match dec_string (field "raw_suite" f) with
  | Some a0 => Some (mk_suiteConfigReq a0)
  | _ => None
  end.
Definition unmarshal_suiteConfigReq (b : body) : t_suiteConfigReq * option bytes :=
  match body_fields b with
  | Some f => match decode_suiteConfigReq f with Some r => (r, None) | None => (zero_suiteConfigReq, Some []) end
  | None => (zero_suiteConfigReq, Some [])
  end.
Definition marshal_suiteConfigReq (r : t_suiteConfigReq) : jout := OObj ([(s2b "raw_suite", OStr (suiteConfigReq_RawSuite r))]).

Record t_suiteConfigResp := mk_suiteConfigResp { suiteConfigResp_Raw : bytes; suiteConfigResp_Config : t_suiteConfig }.
Definition zero_suiteConfigResp : t_suiteConfigResp := mk_suiteConfigResp [] zero_suiteConfig.
Definition set_suiteConfigResp_Raw (r : t_suiteConfigResp) (v : bytes) : t_suiteConfigResp := mk_suiteConfigResp v (suiteConfigResp_Config r).
Definition set_suiteConfigResp_Config (r : t_suiteConfigResp) (v : t_suiteConfig) : t_suiteConfigResp := mk_suiteConfigResp (suiteConfigResp_Raw r) v.
Definition marshal_suiteConfigResp (r : t_suiteConfigResp) : jout := OObj ([(s2b "raw", OStr (suiteConfigResp_Raw r))] ++ [(s2b "config", marshal_suiteConfig (suiteConfigResp_Config r))]).

Definition writeError (ctx : rctx) (statusCode : Z) (msg : bytes) (details : unit) : res rctx :=
  let resp := (mk_errResp (status_text statusCode) msg details) in
  let ctx := (ctx_set_status ctx statusCode) in
  let ctx := (ctx_set_ctype ctx (s2b "application/json")) in
  let ctx := ctx_set_body ctx (marshal_errResp resp) in
  Val ctx.

Definition otpGenerateReq_validate (t : t_otpGenerateReq) : res (option bytes) :=
  if (beqb (trim_space (otpGenerateReq_Secret t)) []) then (Val (Some (s2b "missing required field: secret")))
  else
  Val None.

Definition otpValidateReq_validate (t : t_otpValidateReq) : res (option bytes) :=
  if (beqb (trim_space (otpValidateReq_Secret t)) []) then (Val (Some (s2b "missing required field: secret")))
  else
  if (beqb (trim_space (otpValidateReq_Code t)) []) then (Val (Some (s2b "missing required field: code")))
  else
  Val None.

Definition otpURLGenerateReq_validate (t : t_otpURLGenerateReq) : res (option bytes) :=
  if (beqb (trim_space (otpURLGenerateReq_Type t)) []) then (Val (Some (s2b "missing required field: type (totp or hotp)")))
  else
  if (beqb (trim_space (otpURLGenerateReq_Secret t)) []) then (Val (Some (s2b "missing required field: secret")))
  else
  if (beqb (trim_space (otpURLGenerateReq_Issuer t)) []) then (Val (Some (s2b "missing required field: issuer")))
  else
  if (beqb (trim_space (otpURLGenerateReq_AccountName t)) []) then (Val (Some (s2b "missing required field: account_name")))
  else
  Val None.

Definition ocraGenerateReq_validate (t : t_ocraGenerateReq) : res (option bytes) :=
  if (beqb (trim_space (ocraGenerateReq_Secret t)) []) then (Val (Some (s2b "missing required field: secret")))
  else
  if ((beqb (trim_space (ocraGenerateReq_RawSuite t)) []) && (negb (is_some (ocraGenerateReq_Suite t)))) then (Val (Some (s2b "missing required field: raw_suite or suite")))
  else
  do t2 <- (if (negb (beqb (trim_space (ocraGenerateReq_RawSuite t)) [])) then (do t1 <- Src.IsKnownSuite (ocraGenerateReq_RawSuite t);
  Val (negb t1)) else Val false);
  if t2 then (Val (Some ((s2b "unknown suite: ") ++ (ocraGenerateReq_RawSuite t))))
  else
  if (negb (is_some (ocraGenerateReq_Input t))) then (Val (Some (s2b "missing required field: input")))
  else
  Val None.

Definition ocraValidateReq_validate (t : t_ocraValidateReq) : res (option bytes) :=
  if (beqb (trim_space (ocraValidateReq_Secret t)) []) then (Val (Some (s2b "missing required field: secret")))
  else
  if (beqb (trim_space (ocraValidateReq_Code t)) []) then (Val (Some (s2b "missing required field: code")))
  else
  if ((beqb (trim_space (ocraValidateReq_RawSuite t)) []) && (negb (is_some (ocraValidateReq_Suite t)))) then (Val (Some (s2b "missing required field: raw_suite or suite")))
  else
  do t2 <- (if (negb (beqb (trim_space (ocraValidateReq_RawSuite t)) [])) then (do t1 <- Src.IsKnownSuite (ocraValidateReq_RawSuite t);
  Val (negb t1)) else Val false);
  if t2 then (Val (Some ((s2b "unknown suite: ") ++ (ocraValidateReq_RawSuite t))))
  else
  if (negb (is_some (ocraValidateReq_Input t))) then (Val (Some (s2b "missing required field: input")))
  else
  Val None.

Definition suiteConfigReq_validate (t : t_suiteConfigReq) : res (option bytes) :=
  if (beqb (trim_space (suiteConfigReq_RawSuite t)) []) then (Val (Some (s2b "missing required field: raw_suite")))
  else
  do t1 <- Src.IsKnownSuite (suiteConfigReq_RawSuite t);
  if (negb t1) then (Val (Some ((s2b "unknown suite: ") ++ (suiteConfigReq_RawSuite t))))
  else
  Val None.

Definition totpGeneration (fuel0 : nat) (junk_rfc4226BufPool : bytes) (ctx : rctx) : res rctx :=
  if (negb (ctx_is_post ctx)) then (do t1 <- writeError ctx 405%Z (s2b "method not allowed") tt;
  let '(ctx) := t1 in
  Val ctx)
  else
  let req : t_otpGenerateReq := zero_otpGenerateReq in
  let '(req, t2) := unmarshal_otpGenerateReq (ctx_body ctx) in
  let err_ := t2 in
  if (is_some err_) then (do t3 <- writeError ctx 400%Z (s2b "failed to decode body") tt;
  let '(ctx) := t3 in
  Val ctx)
  else
  do t4 <- otpGenerateReq_validate req;
  let err__2 := t4 in
  if (is_some err__2) then (do t5 <- deref err__2;
  do t6 <- writeError ctx 400%Z t5 tt;
  let '(ctx) := t6 in
  Val ctx)
  else
  do t7 <- Src.AlgorithmFromStr (otpGenerateReq_Algorithm req);
  let algo := t7 in
  do t8 <- Src.DigitsFromStr (otpGenerateReq_Digits req);
  let digits := t8 in
  let kj1 := fun (req : t_otpGenerateReq) =>
  let t : Z := 0%Z in
  let kj2 := fun (t : Z) =>
  do t9 <- Src.GenerateTOTP fuel0 junk_rfc4226BufPool (trim_space (otpGenerateReq_Secret req)) t (Some (mkParam digits (otpGenerateReq_Period req) 0%N algo));
  let t10 := (fst t9, option_map err_text (snd t9)) in
  let '(code, err__3) := t10 in
  if (is_some err__3) then (do t11 <- writeError ctx 500%Z (s2b "totp generation failed") tt;
  let '(ctx) := t11 in
  Val ctx)
  else
  let resp := (mk_otpGenerateResp code t 0%N []) in
  let '(data, err__3) := ((marshal_otpGenerateResp resp), @None bytes) in
  if (is_some err__3) then (do t12 <- writeError ctx 500%Z (s2b "failed to marshal response") tt;
  let '(ctx) := t12 in
  Val ctx)
  else
  let ctx := (ctx_set_ctype ctx (s2b "application/json")) in
  let ctx := (ctx_set_status ctx 200%Z) in
  let ctx := (ctx_set_body ctx data) in
  Val ctx in
  if (Z.ltb 0%Z (otpGenerateReq_Timestamp req)) then (let t := (otpGenerateReq_Timestamp req) in
  kj2 t)
  else (let t := (cx_now ctx) in
  kj2 t) in
  if (N.eqb (otpGenerateReq_Period req) 0%N) then (let req := set_otpGenerateReq_Period req 30%N in
  kj1 req)
  else (kj1 req).

Definition totpValidation (fuel0 : nat) (junk_rfc4226BufPool : bytes) (ctx : rctx) : res rctx :=
  if (negb (ctx_is_post ctx)) then (do t1 <- writeError ctx 405%Z (s2b "method not allowed") tt;
  let '(ctx) := t1 in
  Val ctx)
  else
  let req : t_otpValidateReq := zero_otpValidateReq in
  let '(req, t2) := unmarshal_otpValidateReq (ctx_body ctx) in
  let err_ := t2 in
  if (is_some err_) then (do t3 <- writeError ctx 400%Z (s2b "failed to decode body") tt;
  let '(ctx) := t3 in
  Val ctx)
  else
  do t4 <- otpValidateReq_validate req;
  let err__2 := t4 in
  if (is_some err__2) then (do t5 <- deref err__2;
  do t6 <- writeError ctx 400%Z t5 tt;
  let '(ctx) := t6 in
  Val ctx)
  else
  do t7 <- Src.AlgorithmFromStr (otpValidateReq_Algorithm req);
  let algo := t7 in
  do t8 <- Src.DigitsFromStr (otpValidateReq_Digits req);
  let digits := t8 in
  let t : Z := 0%Z in
  let kj1 := fun (t : Z) =>
  do t9 <- Src.ValidateTOTP fuel0 junk_rfc4226BufPool (trim_space (otpValidateReq_Secret req)) (otpValidateReq_Code req) t (Some (mkParam digits (otpValidateReq_Period req) (otpValidateReq_Skew req) algo));
  let t10 := (fst t9, option_map err_text (snd t9)) in
  let '(ok, _) := t10 in
  let resp := (mk_otpValidateResp ok) in
  let '(data, err__3) := ((marshal_otpValidateResp resp), @None bytes) in
  if (is_some err__3) then (do t11 <- writeError ctx 500%Z (s2b "failed to marshal response") tt;
  let '(ctx) := t11 in
  Val ctx)
  else
  let ctx := (ctx_set_ctype ctx (s2b "application/json")) in
  let ctx := (ctx_set_status ctx 200%Z) in
  let ctx := (ctx_set_body ctx data) in
  Val ctx in
  if (Z.ltb 0%Z (otpValidateReq_Timestamp req)) then (let t := (otpValidateReq_Timestamp req) in
  kj1 t)
  else (let t := (cx_now ctx) in
  kj1 t).

Definition hotpGeneration (fuel0 : nat) (junk_rfc4226BufPool : bytes) (ctx : rctx) : res rctx :=
  if (negb (ctx_is_post ctx)) then (do t1 <- writeError ctx 405%Z (s2b "method not allowed") tt;
  let '(ctx) := t1 in
  Val ctx)
  else
  let req : t_otpGenerateReq := zero_otpGenerateReq in
  let '(req, t2) := unmarshal_otpGenerateReq (ctx_body ctx) in
  let err_ := t2 in
  if (is_some err_) then (do t3 <- writeError ctx 400%Z (s2b "failed to decode body") tt;
  let '(ctx) := t3 in
  Val ctx)
  else
  do t4 <- otpGenerateReq_validate req;
  let err__2 := t4 in
  if (is_some err__2) then (do t5 <- deref err__2;
  do t6 <- writeError ctx 400%Z t5 tt;
  let '(ctx) := t6 in
  Val ctx)
  else
  do t7 <- Src.AlgorithmFromStr (otpGenerateReq_Algorithm req);
  let algo := t7 in
  do t8 <- Src.DigitsFromStr (otpGenerateReq_Digits req);
  let digits := t8 in
  do t9 <- Src.GenerateHOTP fuel0 junk_rfc4226BufPool (otpGenerateReq_Secret req) (otpGenerateReq_Counter req) (Some (mkParam digits 0%N 0%N algo));
  let t10 := (fst t9, option_map err_text (snd t9)) in
  let '(code, err__3) := t10 in
  if (is_some err__3) then (do t11 <- writeError ctx 500%Z (s2b "hotp generation failed") tt;
  let '(ctx) := t11 in
  Val ctx)
  else
  let resp := (mk_otpGenerateResp code 0%Z (otpGenerateReq_Counter req) []) in
  let '(data, err__3) := ((marshal_otpGenerateResp resp), @None bytes) in
  if (is_some err__3) then (do t12 <- writeError ctx 500%Z (s2b "failed to marshal response") tt;
  let '(ctx) := t12 in
  Val ctx)
  else
  let ctx := (ctx_set_ctype ctx (s2b "application/json")) in
  let ctx := (ctx_set_status ctx 200%Z) in
  let ctx := (ctx_set_body ctx data) in
  Val ctx.

Definition hotpValidation (fuel0 : nat) (junk_rfc4226BufPool : bytes) (ctx : rctx) : res rctx :=
  if (negb (ctx_is_post ctx)) then (do t1 <- writeError ctx 405%Z (s2b "method not allowed") tt;
  let '(ctx) := t1 in
  Val ctx)
  else
  let req : t_otpValidateReq := zero_otpValidateReq in
  let '(req, t2) := unmarshal_otpValidateReq (ctx_body ctx) in
  let err_ := t2 in
  if (is_some err_) then (do t3 <- writeError ctx 400%Z (s2b "failed to decode body") tt;
  let '(ctx) := t3 in
  Val ctx)
  else
  do t4 <- otpValidateReq_validate req;
  let err__2 := t4 in
  if (is_some err__2) then (do t5 <- deref err__2;
  do t6 <- writeError ctx 400%Z t5 tt;
  let '(ctx) := t6 in
  Val ctx)
  else
  do t7 <- Src.AlgorithmFromStr (otpValidateReq_Algorithm req);
  let algo := t7 in
  do t8 <- Src.DigitsFromStr (otpValidateReq_Digits req);
  let digits := t8 in
  do t9 <- Src.ValidateHOTP fuel0 junk_rfc4226BufPool (otpValidateReq_Secret req) (otpValidateReq_Code req) (otpValidateReq_Counter req) (Some (mkParam digits 0%N (otpValidateReq_Skew req) algo));
  let t10 := (fst t9, option_map err_text (snd t9)) in
  let '(ok, _) := t10 in
  let resp := (mk_otpValidateResp ok) in
  let '(data, err__3) := ((marshal_otpValidateResp resp), @None bytes) in
  if (is_some err__3) then (do t11 <- writeError ctx 500%Z (s2b "failed to marshal response") tt;
  let '(ctx) := t11 in
  Val ctx)
  else
  let ctx := (ctx_set_ctype ctx (s2b "application/json")) in
  let ctx := (ctx_set_status ctx 200%Z) in
  let ctx := (ctx_set_body ctx data) in
  Val ctx.

Definition otpURLGeneration (fuel0 : nat) (ctx : rctx) : res rctx :=
  if (negb (ctx_is_post ctx)) then (do t1 <- writeError ctx 405%Z (s2b "method not allowed") tt;
  let '(ctx) := t1 in
  Val ctx)
  else
  let req : t_otpURLGenerateReq := zero_otpURLGenerateReq in
  let '(req, t2) := unmarshal_otpURLGenerateReq (ctx_body ctx) in
  let err_ := t2 in
  if (is_some err_) then (do t3 <- writeError ctx 400%Z (s2b "failed to decode body") tt;
  let '(ctx) := t3 in
  Val ctx)
  else
  do t4 <- otpURLGenerateReq_validate req;
  let err__2 := t4 in
  if (is_some err__2) then (do t5 <- deref err__2;
  do t6 <- writeError ctx 400%Z t5 tt;
  let '(ctx) := t6 in
  Val ctx)
  else
  do t7 <- Src.AlgorithmFromStr (otpURLGenerateReq_Algorithm req);
  let algo := t7 in
  do t8 <- Src.DigitsFromStr (otpURLGenerateReq_Digits req);
  let digits := t8 in
  let resp : t_otpURLGenerateResp := zero_otpURLGenerateResp in
  let t9 := (otpURLGenerateReq_Type req) in
  let kj1 := fun (resp : t_otpURLGenerateResp) =>
  let '(data, err__3) := ((marshal_otpURLGenerateResp resp), @None bytes) in
  if (is_some err__3) then (do t10 <- writeError ctx 500%Z (s2b "failed to marshal response") tt;
  let '(ctx) := t10 in
  Val ctx)
  else
  let ctx := (ctx_set_ctype ctx (s2b "application/json")) in
  let ctx := (ctx_set_status ctx 200%Z) in
  let ctx := (ctx_set_body ctx data) in
  Val ctx in
  if ((beqb t9 (s2b "totp"))) then (do t11 <- Src.GenerateTOTPURL fuel0 (mkUrlParam (otpURLGenerateReq_Issuer req) (otpURLGenerateReq_AccountName req) (otpURLGenerateReq_Period req) (otpURLGenerateReq_Secret req) digits algo);
  let t12 := (fst t11, option_map err_text (snd t11)) in
  let '(url, err__4) := t12 in
  if (is_some err__4) then (do t13 <- writeError ctx 500%Z (s2b "otp generation failed") tt;
  let '(ctx) := t13 in
  Val ctx)
  else
  do t14 <- deref url;
  let resp := set_otpURLGenerateResp_URL resp (url_string t14) in
  kj1 resp)
  else if ((beqb t9 (s2b "hotp"))) then (do t15 <- Src.GenerateHOTPURL fuel0 (mkUrlParam (otpURLGenerateReq_Issuer req) (otpURLGenerateReq_AccountName req) (otpURLGenerateReq_Period req) (otpURLGenerateReq_Secret req) digits algo);
  let t16 := (fst t15, option_map err_text (snd t15)) in
  let '(url_2, err__5) := t16 in
  if (is_some err__5) then (do t17 <- writeError ctx 500%Z (s2b "otp generation failed") tt;
  let '(ctx) := t17 in
  Val ctx)
  else
  do t18 <- deref url_2;
  let resp := set_otpURLGenerateResp_URL resp (url_string t18) in
  kj1 resp)
  else (do t19 <- writeError ctx 400%Z (s2b "invalid otp type") tt;
  let '(ctx) := t19 in
  Val ctx).

Definition generateRandomSecret (junk_rand : bytes) (ctx : rctx) : res rctx :=
  if (negb (ctx_is_get ctx)) then (do t1 <- writeError ctx 405%Z (s2b "method not allowed") tt;
  let '(ctx) := t1 in
  Val ctx)
  else
  do t2 <- Src.AlgorithmFromStr (ctx_query_alg ctx);
  let algo := t2 in
  do t3 <- Src.RandomSecret junk_rand algo;
  let t4 := (fst t3, option_map err_text (snd t3)) in
  let '(secret, err_) := t4 in
  if (is_some err_) then (do t5 <- writeError ctx 500%Z (s2b "failed to generate secret") tt;
  let '(ctx) := t5 in
  Val ctx)
  else
  do t6 <- Src.Algorithm_String algo;
  let resp := (mk_generateRandomSecretResp secret t6) in
  let '(data, err_) := ((marshal_generateRandomSecretResp resp), @None bytes) in
  if (is_some err_) then (do t7 <- writeError ctx 500%Z (s2b "failed to marshal response") tt;
  let '(ctx) := t7 in
  Val ctx)
  else
  let ctx := (ctx_set_ctype ctx (s2b "application/json")) in
  let ctx := (ctx_set_status ctx 200%Z) in
  let ctx := (ctx_set_body ctx data) in
  Val ctx.

Definition ocraGeneration (fuel0 : nat) (junk_rfc6287BufPool : bytes) (ctx : rctx) : res rctx :=
  if (negb (ctx_is_post ctx)) then (do t1 <- writeError ctx 405%Z (s2b "method not allowed") tt;
  let '(ctx) := t1 in
  Val ctx)
  else
  let req : t_ocraGenerateReq := zero_ocraGenerateReq in
  let '(req, t2) := unmarshal_ocraGenerateReq (ctx_body ctx) in
  let err_ := t2 in
  if (is_some err_) then (do t3 <- writeError ctx 400%Z (s2b "failed to decode body") tt;
  let '(ctx) := t3 in
  Val ctx)
  else
  do t4 <- ocraGenerateReq_validate req;
  let err__2 := t4 in
  if (is_some err__2) then (do t5 <- deref err__2;
  do t6 <- writeError ctx 400%Z t5 tt;
  let '(ctx) := t6 in
  Val ctx)
  else
  let suite : (option suite_cfg) := None in
  let kj1 := fun (suite : (option suite_cfg)) =>
  let kj2 := fun (suite : (option suite_cfg)) =>
  do t7 <- deref (ocraGenerateReq_Input req);
  do t8 <- deref (ocraGenerateReq_Input req);
  do t9 <- deref (ocraGenerateReq_Input req);
  do t10 <- deref (ocraGenerateReq_Input req);
  do t11 <- deref (ocraGenerateReq_Input req);
  do t12 <- Src.HexInputToOCRA (ocraInput_CounterHex t7) (ocraInput_ChallengeHex t8) (ocraInput_PasswordHex t9) (ocraInput_SessionInfoHex t10) (ocraInput_TimestampHex t11);
  let t13 := (fst t12, option_map err_text (snd t12)) in
  let '(input, err__3) := t13 in
  if (is_some err__3) then (do t14 <- writeError ctx 400%Z (s2b "failed to parse ocra input") tt;
  let '(ctx) := t14 in
  Val ctx)
  else
  do t15 <- Src.GenerateOCRA fuel0 junk_rfc6287BufPool (ocraGenerateReq_Secret req) suite input;
  let t16 := (fst t15, option_map err_text (snd t15)) in
  let '(code, err__3) := t16 in
  if (is_some err__3) then (do t17 <- writeError ctx 500%Z (s2b "failed to generate ocra code") tt;
  let '(ctx) := t17 in
  Val ctx)
  else
  do t18 <- deref suite;
  do t19 <- Src.SuiteConfig_String t18;
  let resp := (mk_otpGenerateResp code 0%Z 0%N t19) in
  let '(data, err__3) := ((marshal_otpGenerateResp resp), @None bytes) in
  if (is_some err__3) then (do t20 <- writeError ctx 500%Z (s2b "failed to marshal response") tt;
  let '(ctx) := t20 in
  Val ctx)
  else
  let ctx := (ctx_set_ctype ctx (s2b "application/json")) in
  let ctx := (ctx_set_status ctx 200%Z) in
  let ctx := (ctx_set_body ctx data) in
  Val ctx in
  if (negb (beqb (ocraGenerateReq_RawSuite req) [])) then (do t21 <- Src.MustRawSuite fuel0 (ocraGenerateReq_RawSuite req);
  let suite := (Some t21) in
  kj2 suite)
  else (kj2 suite) in
  if (is_some (ocraGenerateReq_Suite req)) then (do t22 <- deref (ocraGenerateReq_Suite req);
  do t23 <- Src.AlgorithmFromStr (suiteConfig_HashFunction t22);
  do t24 <- deref (ocraGenerateReq_Suite req);
  do t25 <- deref (ocraGenerateReq_Suite req);
  do t26 <- deref (ocraGenerateReq_Suite req);
  do t27 <- deref (ocraGenerateReq_Suite req);
  do t28 <- deref (ocraGenerateReq_Suite req);
  do t29 <- deref (ocraGenerateReq_Suite req);
  do t30 <- deref (ocraGenerateReq_Suite req);
  do t31 <- deref (ocraGenerateReq_Suite req);
  do t32 <- deref (ocraGenerateReq_Suite req);
  do t33 <- Src.NewSuite (mkSuite [] t23 (suiteConfig_CodeDigits t24) (suiteConfig_ChallengeFormat t25) (suiteConfig_IncludeCounter t26) (suiteConfig_IncludeChallenge t27) (suiteConfig_IncludePassword t28) (suiteConfig_IncludeSession t29) (suiteConfig_IncludeTimestamp t30) (suiteConfig_PasswordHash t31) (suiteConfig_Timestep t32));
  let t34 := (fst t33, option_map err_text (snd t33)) in
  let '(s, err__4) := t34 in
  if (is_some err__4) then (do t35 <- writeError ctx 400%Z (s2b "failed to create suite") tt;
  let '(ctx) := t35 in
  Val ctx)
  else
  let suite := s in
  kj1 suite)
  else (kj1 suite).

Definition ocraValidation (fuel0 : nat) (junk_rfc6287BufPool : bytes) (ctx : rctx) : res rctx :=
  if (negb (ctx_is_post ctx)) then (do t1 <- writeError ctx 405%Z (s2b "method not allowed") tt;
  let '(ctx) := t1 in
  Val ctx)
  else
  let req : t_ocraValidateReq := zero_ocraValidateReq in
  let '(req, t2) := unmarshal_ocraValidateReq (ctx_body ctx) in
  let err_ := t2 in
  if (is_some err_) then (do t3 <- writeError ctx 400%Z (s2b "failed to decode body") tt;
  let '(ctx) := t3 in
  Val ctx)
  else
  do t4 <- ocraValidateReq_validate req;
  let err__2 := t4 in
  if (is_some err__2) then (do t5 <- deref err__2;
  do t6 <- writeError ctx 400%Z t5 tt;
  let '(ctx) := t6 in
  Val ctx)
  else
  let suite : (option suite_cfg) := None in
  let kj1 := fun (suite : (option suite_cfg)) =>
  let kj2 := fun (suite : (option suite_cfg)) =>
  do t7 <- deref (ocraValidateReq_Input req);
  do t8 <- deref (ocraValidateReq_Input req);
  do t9 <- deref (ocraValidateReq_Input req);
  do t10 <- deref (ocraValidateReq_Input req);
  do t11 <- deref (ocraValidateReq_Input req);
  do t12 <- Src.HexInputToOCRA (ocraInput_CounterHex t7) (ocraInput_ChallengeHex t8) (ocraInput_PasswordHex t9) (ocraInput_SessionInfoHex t10) (ocraInput_TimestampHex t11);
  let t13 := (fst t12, option_map err_text (snd t12)) in
  let '(input, err__3) := t13 in
  if (is_some err__3) then (do t14 <- writeError ctx 400%Z (s2b "failed to parse ocra input") tt;
  let '(ctx) := t14 in
  Val ctx)
  else
  do t15 <- Src.ValidateOCRA fuel0 junk_rfc6287BufPool (ocraValidateReq_Secret req) (ocraValidateReq_Code req) suite input;
  let t16 := (fst t15, option_map err_text (snd t15)) in
  let '(ok, _) := t16 in
  let resp := (mk_otpValidateResp ok) in
  let '(data, err__3) := ((marshal_otpValidateResp resp), @None bytes) in
  if (is_some err__3) then (do t17 <- writeError ctx 500%Z (s2b "failed to marshal response") tt;
  let '(ctx) := t17 in
  Val ctx)
  else
  let ctx := (ctx_set_ctype ctx (s2b "application/json")) in
  let ctx := (ctx_set_status ctx 200%Z) in
  let ctx := (ctx_set_body ctx data) in
  Val ctx in
  if (negb (beqb (ocraValidateReq_RawSuite req) [])) then (do t18 <- Src.MustRawSuite fuel0 (ocraValidateReq_RawSuite req);
  let suite := (Some t18) in
  kj2 suite)
  else (kj2 suite) in
  if (is_some (ocraValidateReq_Suite req)) then (do t19 <- deref (ocraValidateReq_Suite req);
  do t20 <- Src.AlgorithmFromStr (suiteConfig_HashFunction t19);
  do t21 <- deref (ocraValidateReq_Suite req);
  do t22 <- deref (ocraValidateReq_Suite req);
  do t23 <- deref (ocraValidateReq_Suite req);
  do t24 <- deref (ocraValidateReq_Suite req);
  do t25 <- deref (ocraValidateReq_Suite req);
  do t26 <- deref (ocraValidateReq_Suite req);
  do t27 <- deref (ocraValidateReq_Suite req);
  do t28 <- deref (ocraValidateReq_Suite req);
  do t29 <- deref (ocraValidateReq_Suite req);
  do t30 <- Src.NewSuite (mkSuite [] t20 (suiteConfig_CodeDigits t21) (suiteConfig_ChallengeFormat t22) (suiteConfig_IncludeCounter t23) (suiteConfig_IncludeChallenge t24) (suiteConfig_IncludePassword t25) (suiteConfig_IncludeSession t26) (suiteConfig_IncludeTimestamp t27) (suiteConfig_PasswordHash t28) (suiteConfig_Timestep t29));
  let t31 := (fst t30, option_map err_text (snd t30)) in
  let '(s, err__4) := t31 in
  if (is_some err__4) then (do t32 <- writeError ctx 400%Z (s2b "failed to create suite") tt;
  let '(ctx) := t32 in
  Val ctx)
  else
  let suite := s in
  kj1 suite)
  else (kj1 suite).

Definition listOCRASuites (fuel0 : nat) (ctx : rctx) : res rctx :=
  if (negb (ctx_is_get ctx)) then (do t1 <- writeError ctx 405%Z (s2b "method not allowed") tt;
  let '(ctx) := t1 in
  Val ctx)
  else
  do t2 <- Src.ListSuites fuel0;
  let resp := (mk_listOCRASuiteResp t2) in
  let '(data, err_) := ((marshal_listOCRASuiteResp resp), @None bytes) in
  if (is_some err_) then (do t3 <- writeError ctx 500%Z (s2b "failed to marshal response") tt;
  let '(ctx) := t3 in
  Val ctx)
  else
  let ctx := (ctx_set_ctype ctx (s2b "application/json")) in
  let ctx := (ctx_set_status ctx 200%Z) in
  let ctx := (ctx_set_body ctx data) in
  Val ctx.

Definition ocraSuiteConfig (ctx : rctx) : res rctx :=
  if (negb (ctx_is_post ctx)) then (do t1 <- writeError ctx 405%Z (s2b "method not allowed") tt;
  let '(ctx) := t1 in
  Val ctx)
  else
  let req : t_suiteConfigReq := zero_suiteConfigReq in
  let '(req, t2) := unmarshal_suiteConfigReq (ctx_body ctx) in
  let err_ := t2 in
  if (is_some err_) then (do t3 <- writeError ctx 400%Z (s2b "failed to decode body") tt;
  let '(ctx) := t3 in
  Val ctx)
  else
  do t4 <- suiteConfigReq_validate req;
  let err__2 := t4 in
  if (is_some err__2) then (do t5 <- deref err__2;
  do t6 <- writeError ctx 400%Z t5 tt;
  let '(ctx) := t6 in
  Val ctx)
  else
  do t7 <- Src.SuiteConfigFromRaws (suiteConfigReq_RawSuite req);
  let cfg := t7 in
  do t8 <- Src.Algorithm_String (sc_hash cfg);
  let resp := (mk_suiteConfigResp (suiteConfigReq_RawSuite req) (mk_suiteConfig t8 (sc_digits cfg) (sc_challenge cfg) (sc_c cfg) (sc_q cfg) (sc_p cfg) (sc_s cfg) (sc_t cfg) (sc_pwhash cfg) (sc_timestep cfg))) in
  let '(data, err__3) := ((marshal_suiteConfigResp resp), @None bytes) in
  if (is_some err__3) then (do t9 <- writeError ctx 500%Z (s2b "failed to marshal response") tt;
  let '(ctx) := t9 in
  Val ctx)
  else
  let ctx := (ctx_set_ctype ctx (s2b "application/json")) in
  let ctx := (ctx_set_status ctx 200%Z) in
  let ctx := (ctx_set_body ctx data) in
  Val ctx.

Definition home (ctx : rctx) : res rctx :=
  if (negb (ctx_is_get ctx)) then (do t1 <- writeError ctx 405%Z (s2b "method not allowed") tt;
  let '(ctx) := t1 in
  Val ctx)
  else
  let resp := (mk_homeResp (s2b "otp-api") (s2b "otp-api is a high-performance, minimalistic API server for generating and validating OTP codes (TOTP, HOTP, and OCRA) using the Ja7ad/otp Go library. It offers RESTful endpoints for secure authentication workflows, QR code URL generation, and dynamic OCRA suite handling.") (s2b "/docs") (s2b "ok")) in
  let '(data, err_) := ((marshal_homeResp resp), @None bytes) in
  if (is_some err_) then (do t2 <- writeError ctx 500%Z (s2b "failed to marshal response") tt;
  let '(ctx) := t2 in
  Val ctx)
  else
  let ctx := (ctx_set_ctype ctx (s2b "application/json")) in
  let ctx := (ctx_set_status ctx 200%Z) in
  let ctx := (ctx_set_body ctx data) in
  Val ctx.

Definition routers (fuel0 : nat) (junk_rand : bytes) (junk_rfc4226BufPool : bytes) (junk_rfc6287BufPool : bytes) (ctx : rctx) : res rctx :=
  let path := (ctx_path ctx) in
  if (beqb path (s2b "/docs")) then (let ctx := (ctx_redirect ctx (s2b "/docs/index.html") 302%Z) in
  Val ctx)
  else
  if (is_prefix (s2b "/docs/") path) then (let ctx := ctx_other ctx in
  Val ctx)
  else
  let t1 := path in
  if ((beqb t1 (s2b "/totp/generate"))) then (do t2 <- totpGeneration fuel0 junk_rfc4226BufPool ctx;
  let ctx := t2 in
  Val ctx)
  else if ((beqb t1 (s2b "/totp/validate"))) then (do t3 <- totpValidation fuel0 junk_rfc4226BufPool ctx;
  let ctx := t3 in
  Val ctx)
  else if ((beqb t1 (s2b "/hotp/generate"))) then (do t4 <- hotpGeneration fuel0 junk_rfc4226BufPool ctx;
  let ctx := t4 in
  Val ctx)
  else if ((beqb t1 (s2b "/hotp/validate"))) then (do t5 <- hotpValidation fuel0 junk_rfc4226BufPool ctx;
  let ctx := t5 in
  Val ctx)
  else if ((beqb t1 (s2b "/ocra/generate"))) then (do t6 <- ocraGeneration fuel0 junk_rfc6287BufPool ctx;
  let ctx := t6 in
  Val ctx)
  else if ((beqb t1 (s2b "/ocra/validate"))) then (do t7 <- ocraValidation fuel0 junk_rfc6287BufPool ctx;
  let ctx := t7 in
  Val ctx)
  else if ((beqb t1 (s2b "/ocra/suites"))) then (do t8 <- listOCRASuites fuel0 ctx;
  let ctx := t8 in
  Val ctx)
  else if ((beqb t1 (s2b "/ocra/suite"))) then (do t9 <- ocraSuiteConfig ctx;
  let ctx := t9 in
  Val ctx)
  else if ((beqb t1 (s2b "/otp/url"))) then (do t10 <- otpURLGeneration fuel0 ctx;
  let ctx := t10 in
  Val ctx)
  else if ((beqb t1 (s2b "/otp/secret"))) then (do t11 <- generateRandomSecret junk_rand ctx;
  let ctx := t11 in
  Val ctx)
  else if ((beqb t1 (s2b "/"))) then (do t12 <- home ctx;
  let ctx := t12 in
  Val ctx)
  else (let ctx := (ctx_set_status ctx 404%Z) in
  let ctx := (ctx_set_body_string ctx (s2b "404 - Not Found")) in
  Val ctx).

