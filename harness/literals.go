package main

import (
	"encoding/json"
	"math/big"
	"os"
	"sort"
	"strconv"
)

// Integer literals of the repository's sources (harvested by tools/gen_model into the file named by VERIF_LITERALS)
// join the boundary tables of the generators, with their neighbours: behaviour keyed on a particular value that is
// written in the code is then exercised, not only the values the generators' authors thought of.
// wrapAliases: n with n*c = k*2^64 + (a small number) for the multipliers c a unit conversion uses; an overflow check
// that looks at the wrong product lets exactly these through
var wrapAliases = func() []uint64 {
	var out []uint64
	two64 := new(big.Int).Lsh(big.NewInt(1), 64)
	for _, c := range []int64{60, 3600, 24, 1000} {
		for k := int64(1); k <= 40 && k < c; k++ {
			n := new(big.Int).Mul(two64, big.NewInt(k))
			n.Add(n, big.NewInt(c-1))
			n.Div(n, big.NewInt(c)) // ceil(k*2^64 / c)
			for d := int64(0); d <= 2; d++ {
				m := new(big.Int).Add(n, big.NewInt(d))
				if m.IsUint64() {
					out = append(out, m.Uint64())
				}
			}
		}
	}
	return out
}()

var periodChoices = []uint64{0, 1, 2, 29, 30, 31, 60, 3600, 1 << 31, 1 << 32}

func init() {
	path := os.Getenv("VERIF_LITERALS")
	if path == "" {
		return
	}
	raw, err := os.ReadFile(path)
	if err != nil {
		return
	}
	var rep struct {
		Literals []string `json:"literals"`
	}
	if json.Unmarshal(raw, &rep) != nil {
		return
	}
	seen := map[uint64]bool{}
	for _, v := range boundaryCounters {
		seen[v] = true
	}
	var add []uint64
	for _, l := range rep.Literals {
		v, err := strconv.ParseUint(l, 10, 64)
		if err != nil || v < 12 {
			continue
		}
		for _, x := range []uint64{v - 1, v, v + 1} {
			if !seen[x] {
				seen[x] = true
				add = append(add, x)
			}
		}
	}
	sort.Slice(add, func(i, j int) bool { return add[i] < add[j] })
	if len(add) > 400 {
		add = add[:400]
	}
	boundaryCounters = append(boundaryCounters, add...)
	for _, x := range add {
		if x < 1<<40 {
			periodChoices = append(periodChoices, x)
		}
	}
}
