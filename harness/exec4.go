package main

import (
	"sort"
	"strings"

	"github.com/ja7ad/otp"
)

// suite results are rendered as text: cfg:<fmtSuite>
func suiteOut(s otp.Suite, err error) string {
	if err != nil {
		return errOut(err)
	}
	c := s.Config()
	if s.String() != c.Raw {
		return "bad:String()-differs-from-Config().Raw"
	}
	if e := s.Validate(); e != nil {
		return "bad:returned-suite-does-not-validate"
	}
	return "cfg:" + fmtSuite(c)
}

func run4(f []string) (string, bool) {
	switch f[0] {
	case "nraw":
		return suiteOut(otp.NewRawSuite(string(unhx(f[1])))), true
	case "praw": // the parser alone (hook), also for registered names
		c, err := hkParseRawSuite(string(unhx(f[1])))
		if err != nil {
			return errOut(err), true
		}
		return "cfg:" + fmtSuite(c), true
	case "nsuite":
		return suiteOut(otp.NewSuite(parseSuite(f[1]))), true
	case "known":
		if otp.IsKnownSuite(string(unhx(f[1]))) {
			return "ok:n1", true
		}
		return "ok:n0", true
	case "fromraws":
		return "cfg:" + fmtSuite(otp.SuiteConfigFromRaws(string(unhx(f[1])))), true
	case "listsuites", "listsuites_after_edit":
		if f[0] == "listsuites_after_edit" { // a caller edits the list it was given: the next caller must not see that
			got := otp.ListSuites()
			for i := range got {
				got[i] = "edited-by-a-caller"
			}
			if len(got) > 3 {
				got = append(got[:1], got[3:]...)
			}
			_ = got
		}
		// the advertised list must agree with the registry (hook), the known-suite test and lookup
		names := otp.ListSuites()
		sort.Strings(names)
		reg := hkKnownSuites()
		if len(reg) != len(names) {
			return "bad:list-and-registry-differ-in-size", true
		}
		for _, n := range names {
			if _, ok := reg[n]; !ok || !otp.IsKnownSuite(n) {
				return "bad:listed-name-not-known", true
			}
		}
		return "ok:" + strings.Join(names, ","), true
	}
	return run5(f)
}
