(** generateOTPURL, GenerateTOTPURL, GenerateHOTPURL, ParseOTPAuthURL and Algorithm.String as translated from the Go
    source (Generated/Src.v) compute what the hand-written model (Model/Url.v) computes.  net/url (URL as a record,
    Values as an association list, Query / Get / Set / Encode, PathEscape), strings.ToLower / TrimPrefix / SplitN and
    strconv.Atoi are the transcribed library functions. *)
From Coq Require Import ZifyN ZifyNat ZifyBool String.
From OtpV Require Import Prelude Sha Tables GoSem Errors Decoder Derive Otp Ocra Utils Suite Url Src SrcLift.
Open Scope N_scope.
Ltac Zify.zify_post_hook ::= Z.div_mod_to_equations.

Definition lift_url (o : outcome url) : res (option url * option err) :=
  match o with Ok u => Val (Some u, None) | Err e => Val (None, Some e) | Panic => Pnc end.
Definition lift_up (o : outcome urlparam) : res (option urlparam * option err) :=
  match o with Ok u => Val (Some u, None) | Err e => Val (None, Some e) | Panic => Pnc end.

Lemma src_Algorithm_String_eq a : Src.Algorithm_String a = Val (Url.alg_string a).
Proof.
  unfold Src.Algorithm_String. f_equal.
  assert (Ha : a = 0 \/ a = 1 \/ a = 2 \/ 3 <= a) by lia.
  destruct Ha as [->|[->|[->|Hge]]]; try reflexivity.
  unfold Src.assoc_str, Src.g_algoStrMap. cbn [find fst snd].
  destruct (N.eqb 0 a) eqn:E0; [lia|]. destruct (N.eqb 1 a) eqn:E1; [lia|]. destruct (N.eqb 2 a) eqn:E2; [lia|].
  destruct a as [|p]; [lia|]. destruct p as [[p|p|]|[p|p|]|]; try lia; reflexivity.
Qed.

Lemma beqb_nil' s : beqb s [] = negb (nonempty s).
Proof. destruct s; reflexivity. Qed.

Lemma src_url_loop : forall extra fuel q kx,
  Src.generateOTPURL_loop1 extra fuel q kx = kx (fold_left (fun acc kv => values_set (fst kv) (snd kv) acc) extra q).
Proof.
  induction extra as [|[k v] rest IH]; intros fuel q kx; [reflexivity|].
  cbn [Src.generateOTPURL_loop1 fold_left fst snd]. apply IH.
Qed.

Lemma src_generateOTPURL_eq fuel kind p extra :
  Src.generateOTPURL fuel kind p extra = lift_url (Url.generate_otp_url kind p extra).
Proof.
  destruct p as [iss acc per sec dg al].
  unfold Src.generateOTPURL, Url.generate_otp_url. cbn [up_issuer up_account up_period up_secret up_digits up_alg].
  rewrite !beqb_nil'.
  destruct (negb (nonempty iss)); [reflexivity|]. destruct (negb (nonempty acc)); [reflexivity|].
  cbv zeta.
  assert (Hk : forall dg' al', al' = al ->
    (if negb (nonempty (up_secret (mkUrlParam iss acc per sec dg' al'))) then Val (None, Some (ESent ErrSecretRequired))
     else do t1 <- Src.Algorithm_String (up_alg (mkUrlParam iss acc per sec dg' al'));
          Src.generateOTPURL_loop1 extra fuel
            (values_set (s2b "digits") (dec_of_N (up_digits (mkUrlParam iss acc per sec dg' al')))
              (values_set (s2b "algorithm") t1
                (values_set (s2b "issuer") (up_issuer (mkUrlParam iss acc per sec dg' al'))
                  (values_set (s2b "secret") (up_secret (mkUrlParam iss acc per sec dg' al')) []))))
            (fun query => Val (Some (mkUrl (s2b "otpauth") [] false kind
                 (s2b "/" ++ up_issuer (mkUrlParam iss acc per sec dg' al') ++ [58] ++ up_account (mkUrlParam iss acc per sec dg' al'))
                 (s2b "/" ++ escape (up_issuer (mkUrlParam iss acc per sec dg' al') ++ [58] ++ up_account (mkUrlParam iss acc per sec dg' al')) MPathSegment)
                 false (values_encode query) []), None)))
    = lift_url (if negb (nonempty sec) then Err (ESent ErrSecretRequired)
                else Ok (mkUrl (s2b "otpauth") [] false kind (47 :: iss ++ [58] ++ acc) (47 :: escape (iss ++ [58] ++ acc) MPathSegment) false
                     (values_encode (fold_left (fun acc0 kv => values_set (fst kv) (snd kv) acc0) extra
                        (values_set (s2b "digits") (dec_of_N dg')
                          (values_set (s2b "algorithm") (alg_string al)
                            (values_set (s2b "issuer") iss (values_set (s2b "secret") sec [])))))) []))).
  { intros dg' al' ->. cbn [up_issuer up_account up_period up_secret up_digits up_alg].
    destruct (negb (nonempty sec)); [reflexivity|].
    rewrite src_Algorithm_String_eq. cbn [rbind]. rewrite src_url_loop. reflexivity. }
  change (N.eqb dg 0) with (dg =? 0).
  destruct (dg =? 0) eqn:Ed; cbn [up_alg up_digits];
    (destruct (N.eqb al 0) eqn:Ea; [apply Hk; lia|apply Hk; reflexivity]).
Qed.

Lemma src_GenerateTOTPURL_eq fuel p : Src.GenerateTOTPURL fuel p = lift_url (Url.generate_totp_url p).
Proof.
  destruct p as [iss acc per sec dg al].
  unfold Src.GenerateTOTPURL, Url.generate_totp_url, totp_url_zero_period. cbn [up_period]. cbv zeta.
  change (N.eqb per 0) with (per =? 0).
  destruct (per =? 0); rewrite src_generateOTPURL_eq; reflexivity.
Qed.

Lemma src_GenerateHOTPURL_eq fuel p : Src.GenerateHOTPURL fuel p = lift_url (Url.generate_hotp_url p).
Proof. unfold Src.GenerateHOTPURL, Url.generate_hotp_url. apply src_generateOTPURL_eq. Qed.

(** ---------- ParseOTPAuthURL ---------- *)
Lemma atoi_range s z : atoi s = Some z -> (- 9223372036854775808 <= z < 9223372036854775808)%Z.
Proof.
  unfold atoi. set (x := match s with 45 :: t => (true, t) | 43 :: t => (false, t) | _ => (false, s) end).
  destruct x as [neg ds]. destruct ds as [|d ds']; [discriminate|].
  destruct (forallb is_dec_digit (d :: ds')); [|discriminate]. cbv zeta. unfold two63.
  destruct neg.
  - destruct (dec_val (d :: ds') <=? 9223372036854775808) eqn:E; [|discriminate]. intros H. inversion H. lia.
  - destruct (dec_val (d :: ds') <? 9223372036854775808) eqn:E; [|discriminate]. intros H. inversion H. lia.
Qed.

Lemma trim_slash p : Src.trim_prefix_go (s2b "/") p = strip_slash p.
Proof.
  unfold Src.trim_prefix_go, strip_slash. destruct p as [|c t]; [reflexivity|].
  change (s2b "/"%string) with [47]. cbn [is_prefix length skipn].
  destruct (N.eqb_spec 47 c) as [<-|Hn]; [reflexivity|].
  cbn [andb]. destruct c as [|q]; [reflexivity|]. do 6 (destruct q as [q|q|]; try reflexivity). congruence.
Qed.

Lemma src_ParseOTPAuthURL_eq u : (forall u', u = Some u' -> all_ascii (u_host u') = true) ->
  Src.ParseOTPAuthURL u = lift_up (Url.parse_otpauth_url u).
Proof.
  intros Hasc. unfold Src.ParseOTPAuthURL, Url.parse_otpauth_url.
  destruct u as [u|]; [|reflexivity]. cbn [is_some negb deref rbind].
  specialize (Hasc u eq_refl). unfold Suite.beq. change Otp.bytes_eqb with GoSem.beqb.
  destruct (negb (beqb (u_scheme u) (s2b "otpauth"))); [reflexivity|].
  cbv zeta.
  destruct (negb (beqb (to_lower (u_host u)) (s2b "totp")) && negb (beqb (to_lower (u_host u)) (s2b "hotp"))).
  { rewrite Hasc. reflexivity. }
  rewrite trim_slash. unfold Src.splitn2_go.
  destruct (cut1 58 (strip_slash (u_path u))) as [[issuer account] found].
  destruct found; cbn [negb]; [|reflexivity].
  change (zlen [issuer; account] =? 2)%Z with true. cbn [negb].
  replace (Src.idxS [issuer; account] 0) with (Val issuer) by reflexivity.
  replace (Src.idxS [issuer; account] 1) with (Val account) by reflexivity. cbn [rbind].
  set (query := parse_query (u_rawquery u)).
  rewrite !beqb_nil'.
  set (digits_str := query_get (s2b "digits") query). set (alg_str := query_get (s2b "algorithm") query).
  set (period_str := query_get (s2b "period") query). set (secret := query_get (s2b "secret") query).
  (* the three optional parameters, innermost first *)
  assert (Hper : forall dg al,
    (if negb (negb (nonempty period_str))
     then do t10 <- Val (Src.atoi_go period_str);
          let '(p, err_) := t10 in
          if negb (is_some err_) && Z.leb 0 p
          then do t11 <- deref (Some (mkUrlParam issuer account 30 secret dg al));
               Val (Some (mkUrlParam (up_issuer t11) (up_account t11) (of_int64 p) (up_secret t11) (up_digits t11) (up_alg t11)), @None err)
          else Val (None, Some (EFmt T_url_period [] [period_str]))
     else Val (Some (mkUrlParam issuer account 30 secret dg al), None))
    = lift_up (match (match period_str with
                      | [] => Some 30
                      | _ => match atoi period_str with Some p => if (0 <=? p)%Z then Some (Z.to_N p) else None | None => None end
                      end) with
               | None => Err (EFmt T_url_period [] [period_str])
               | Some period => Ok (mkUrlParam issuer account period secret dg al)
               end)).
  { intros dg al. destruct period_str as [|c0 ps]; [reflexivity|]. cbn [nonempty negb].
    unfold Src.atoi_go. destruct (atoi (c0 :: ps)) as [p|] eqn:Ea; cbn [rbind is_some negb andb]; [|reflexivity].
    pose proof (atoi_range _ _ Ea) as Hr.
    change (Z.leb 0 p) with (0 <=? p)%Z. destruct (0 <=? p)%Z eqn:Ep; [|reflexivity].
    cbn [deref rbind up_issuer up_account up_secret up_digits up_alg lift_up].
    unfold of_int64, two64. rewrite Z.mod_small by lia. reflexivity. }
  (* digits *)
  destruct digits_str as [|d0 dstr].
  - cbn [nonempty negb]. 
    destruct alg_str as [|a0 astr].
    + cbn [nonempty negb]. apply Hper.
    + cbn [nonempty negb]. cbv zeta.
      destruct (beqb (to_upper_u (a0 :: astr)) (s2b "SHA1")); [cbn [deref rbind up_issuer up_account up_period up_secret up_digits]; apply Hper|].
      destruct (beqb (to_upper_u (a0 :: astr)) (s2b "SHA256")); [cbn [deref rbind up_issuer up_account up_period up_secret up_digits]; apply Hper|].
      destruct (beqb (to_upper_u (a0 :: astr)) (s2b "SHA512")); [cbn [deref rbind up_issuer up_account up_period up_secret up_digits]; apply Hper|].
      reflexivity.
  - cbn [nonempty negb]. unfold Src.atoi_go at 1.
    destruct (atoi (d0 :: dstr)) as [d|] eqn:Ed; cbn [rbind is_some negb andb]; [|reflexivity].
    change (Z.leb 0 d) with (0 <=? d)%Z. change (Z.leb d 255) with (d <=? 255)%Z.
    destruct ((0 <=? d)%Z && (d <=? 255)%Z) eqn:Er; [|reflexivity].
    cbn [deref rbind up_issuer up_account up_period up_secret up_digits up_alg].
    assert (Hdg : of_int 8 d = Z.to_N d).
    { unfold of_int. change (2 ^ Z.of_N 8)%Z with 256%Z. rewrite Z.mod_small by lia. reflexivity. }
    rewrite Hdg.
    destruct alg_str as [|a0 astr].
    + cbn [nonempty negb]. apply Hper.
    + cbn [nonempty negb]. cbv zeta.
      destruct (beqb (to_upper_u (a0 :: astr)) (s2b "SHA1")); [cbn [deref rbind up_issuer up_account up_period up_secret up_digits]; apply Hper|].
      destruct (beqb (to_upper_u (a0 :: astr)) (s2b "SHA256")); [cbn [deref rbind up_issuer up_account up_period up_secret up_digits]; apply Hper|].
      destruct (beqb (to_upper_u (a0 :: astr)) (s2b "SHA512")); [cbn [deref rbind up_issuer up_account up_period up_secret up_digits]; apply Hper|].
      reflexivity.
Qed.
