(** Extraction of the executable model to OCaml.  Only ExtrOcamlBasic is used: its directives
    map bool, option, unit, list, prod, sumbool and sumor to the OCaml built-ins; N, Z,
    positive and nat stay the extracted inductive types (2^64 does not fit an OCaml int).
    There is no Extract Constant directive. *)
From Coq Require Extraction ExtrOcamlBasic.
From OtpV Require Import Runner.
Extraction Language OCaml.
Extraction "Extract/runner/model.ml" run_case.
