(* GENERATED from the Go sources of /repo by /verif/tools/gen_model — do not edit. *)
From Coq Require Import String.
From OtpV Require Import Prelude Sha GoSem Rfc4648 Errors Decoder Otp Ocra Utils Suite Url.
Open Scope N_scope.

Definition atoi_go (s : bytes) : Z * option err := match atoi s with Some v => (v, None) | None => (0%Z, Some (EStd 11 [])) end.
Definition lookup_go (raw : bytes) : suite_cfg * bool := match lookup raw known_suites with Some c => (c, true) | None => (zero_cfg, false) end.
Definition idxS (l : list bytes) (i : Z) : res bytes := if (i <? 0)%Z then Pnc else match nth_error l (Z.to_nat i) with Some b => Val b | None => Pnc end.
Definition parse_uint_go (s : bytes) : N * option err := match parse_uint64 s with Some v => (v, None) | None => (0, Some (EStd 1 [s])) end.
Definition hex_decode_go (s : bytes) : bytes * option err := match hex_decode s with Some b => (b, None) | None => ([], Some (EStd 2 [])) end.
(* new(big.Int).SetString(s, 10): optional sign, decimal digits; big.Int.Text(16): lower-case hexadecimal, '-' for negatives *)
Definition big_parse10 (s : bytes) : Z * bool :=
  let '(neg, ds) := match s with 45 :: t => (true, t) | 43 :: t => (false, t) | _ => (false, s) end in
  match ds with [] => (0%Z, false) | _ => if forallb is_dec_digit ds then ((if neg then - Z.of_N (dec_val ds) else Z.of_N (dec_val ds))%Z, true) else (0%Z, false) end.
Definition lower_ascii (c : N) : N := if (65 <=? c) && (c <=? 90) then c + 32 else c.
Definition big_text16 (z : Z) : bytes := if (z <? 0)%Z then 45 :: map lower_ascii (hex_text (Z.to_N (- z))) else map lower_ascii (hex_text (Z.to_N z)).
(* crypto/rand.Read(buf) fills the whole buffer from the source (oracle parameter) and never reports an error *)
Definition rand_fill (buf src : bytes) : bytes := firstn (length buf) src ++ skipn (length src) buf.
Definition assoc_str (l : list (N * bytes)) (k : N) : bytes := match find (fun kv => N.eqb (fst kv) k) l with Some kv => snd kv | None => [] end.
Definition trim_prefix_go (p s : bytes) : bytes := if is_prefix p s then skipn (length p) s else s.
Definition splitn2_go (sep : N) (s : bytes) : list bytes := let '(a, b, found) := cut1 sep s in if found then [a; b] else [s].
Definition b32_decode_go (s : bytes) : bytes * option err :=
  let '(bs, o) := b32_decode_string s in (bs, match o with Some off => Some (EBase32 off) | None => None end).

Definition hmacPools : list alg := [SHA1; SHA256; SHA512].
Definition g_mod10 : list N := [0; 10; 100; 1000; 10000; 100000; 1000000; 10000000; 100000000; 1000000000; 10000000000].
Definition g_DefaultHOTPParam : option param := Some (mkParam 6 0 2 0).
Definition g_algoStrMap : list (N * bytes) := [(0%N, (s2b "SHA1")); (1%N, (s2b "SHA256")); (2%N, (s2b "SHA512"))].
Definition g_DefaultTOTPParam : option param := Some (mkParam 6 30 0 0).

Definition Digits_Int (d : N) : res Z :=
  Val (Z.of_N d).

Definition truncate (sum_ : bytes) (mod_ : N) : res N :=
  do t1 <- idx sum_ (wrap_int64 (Z.sub (zlen sum_) 1%Z));
  let offset := (N.land t1 15%N) in
  do t2 <- idx sum_ (Z.of_N offset);
  do t3 <- idx sum_ (Z.of_N (wrap8 (N.add offset 1%N)));
  do t4 <- idx sum_ (Z.of_N (wrap8 (N.add offset 2%N)));
  do t5 <- idx sum_ (Z.of_N (wrap8 (N.add offset 3%N)));
  let bin := (N.lor (N.lor (N.lor (wrap32 (N.shiftl t2 24%N)) (wrap32 (N.shiftl t3 16%N))) (wrap32 (N.shiftl t4 8%N))) t5) in
  let code := (N.land bin 2147483647%N) in
  do t6 <- umod code mod_;
  Val (wrap32 t6).

Fixpoint pow10Wasm_loop1 (fuel : nat) (fuel0 : nat)  (n : Z) (result : N) (i : Z) (kx : N -> Z -> res N) {struct fuel} : res N :=
  match fuel with O => OutOfFuel | S fuel =>
  if (Z.ltb i n) then (let result := (wrap64 (N.mul result 10%N)) in
  let i := (wrap_int64 (Z.add i 1%Z)) in
  pow10Wasm_loop1 fuel fuel0  n result i kx)
  else kx result i
  end.

Definition pow10Wasm (fuel0 : nat) (n : Z) : res N :=
  let result : N := 1%N in
  let i := 0%Z in
  pow10Wasm_loop1 fuel0 fuel0 n result i (fun (result : N) (i : Z) =>
  Val result).

Fixpoint DeriveRFC4226Wasm_loop1 (fuel : nat) (fuel0 : nat)   (padding : bytes) (i : Z) (kx : bytes -> Z -> res (bytes * (option err))) {struct fuel} : res (bytes * (option err)) :=
  match fuel with O => OutOfFuel | S fuel =>
  if (Z.ltb i (zlen padding)) then (do padding <- set_idx padding i 48%N;
  let i := (wrap_int64 (Z.add i 1%Z)) in
  DeriveRFC4226Wasm_loop1 fuel fuel0  padding i kx)
  else kx padding i
  end.

Definition DeriveRFC4226Wasm (fuel0 : nat) (secret : bytes) (counter : N) (digits : Z) (algo : N) : res (bytes * (option err)) :=
  let h : (option alg) := None in
  let t1 := algo in
  let kj1 := fun (h : (option alg)) =>
  if ((Z.ltb digits 1%Z) || (Z.ltb 10%Z digits)) then (Val ([], (Some (ESent ErrInvalidCodeLength))))
  else
  let buf : bytes := (repeat 0%N 8) in
  do t2 <- put_uint64 buf counter;
  let buf := t2 in
  do t3 <- deref h;
  let mac := (hmac_new t3 secret) in
  let mac := (hash_write mac buf) in
  let sum_ := (hash_sum mac []) in
  let mod_ : N := 0%N in
  let kj2 := fun (mod_ : N) =>
  do t4 <- truncate sum_ mod_;
  let code := t4 in
  let s := (dec_of_N code) in
  let kj3 := fun (s : bytes) =>
  Val (s, None) in
  if (Z.ltb (zlen s) digits) then (do t5 <- make_bytes (wrap_int64 (Z.sub digits (zlen s)));
  let padding := t5 in
  let i := 0%Z in
  DeriveRFC4226Wasm_loop1 fuel0 fuel0 padding i (fun (padding : bytes) (i : Z) =>
  let s := (padding ++ s) in
  kj3 s))
  else (kj3 s) in
  if ((Z.leb 1%Z digits) && (Z.leb digits 9%Z)) then (do t6 <- idxN g_mod10 digits;
  let mod_ := t6 in
  kj2 mod_)
  else (do t7 <- pow10Wasm fuel0 digits;
  let mod_ := t7 in
  kj2 mod_) in
  if ((N.eqb t1 0%N)) then (let h := (Some SHA1) in
  kj1 h)
  else if ((N.eqb t1 1%N)) then (let h := (Some SHA256) in
  kj1 h)
  else if ((N.eqb t1 2%N)) then (let h := (Some SHA512) in
  kj1 h)
  else (Val ([], (Some (ESent ErrUnsupportedAlgorithm)))).

Definition ValidateOTPWasm (fuel0 : nat) (code : bytes) (secret : bytes) (counter : N) (digits : N) (algo : N) : res (bool * (option err)) :=
  do t1 <- Digits_Int digits;
  let digitInt := t1 in
  if (negb (Z.eqb (zlen code) digitInt)) then (Val (false, (Some (ESent ErrInvalidCodeLength))))
  else
  do t2 <- DeriveRFC4226Wasm fuel0 secret counter digitInt algo;
  let '(excepted, err_) := t2 in
  if (is_some err_) then (Val (false, err_))
  else
  if (Z.eqb (ct_compare code excepted) 1%Z) then (Val (true, None))
  else
  Val (false, (Some (ESent ErrInvalidCode))).

