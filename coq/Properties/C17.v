(** C17 — OCRA input helpers encode as documented; numeric questions follow RFC 6287. *)
From Coq Require Import String.
From OtpV Require Import Prelude Errors Rfc4226 Rfc6287 Sha Decoder Derive Otp Ocra Utils DeriveProofs OcraProofs UtilsProofs.
Open Scope N_scope.

(** 64-bit values become the 8-byte big-endian counter *)
Theorem C17_to8 : forall v, to8 v = be64 v /\ length (to8 v) = 8%nat /\ (v < 2 ^ 64 -> of_be (to8 v) = v).
Proof.
  intros v. rewrite to8_be64. repeat split. intros H. apply of_be_be64. exact H.
Qed.
Print Assumptions C17_to8.

(** decimal strings (leading zeros allowed) become the same 8 bytes; both aliases *)
Theorem C17_decimal : forall s,
  s <> [] -> all_digits s -> dec_value s < 2 ^ 64 -> parse_decimal_be8 s = Ok (be64 (dec_value s)).
Proof. exact parse_decimal_be8_ok. Qed.
Print Assumptions C17_decimal.

(** malformed text is rejected: empty, any non-digit (signs included), values >= 2^64 *)
Theorem C17_decimal_reject : forall s,
  (s = [] \/ ~ all_digits s \/ 2 ^ 64 <= dec_value s) -> exists e, parse_decimal_be8 s = Err e.
Proof. exact parse_decimal_be8_reject. Qed.
Print Assumptions C17_decimal_reject.

(** hex strings become left-padded fixed-width text *)
Theorem C17_left_pad : forall s n,
  (0 <= n)%Z ->
  exists r, left_pad_hex s n = Ok r /\ zlen r = n /\
            (if (n <=? zlen s)%Z then r = skipn (length s - Z.to_nat n) s
             else r = repeat 48 (Z.to_nat n - length s) ++ s).
Proof. exact left_pad_hex_spec. Qed.
Print Assumptions C17_left_pad.

(** hex strings become left-padded fixed-width bytes (MustHexPadLeft; refusing by panic is its documented contract) *)
Theorem C17_must_hex_pad_left : forall s size,
  (0 <= size < 2 ^ 62)%Z ->
  must_hex_pad_left s size =
    (let padded := if (2 * size <=? zlen s)%Z then skipn (length s - Z.to_nat (2 * size)) s
                   else repeat 48 (Z.to_nat (2 * size) - length s) ++ s in
     match hex_decode padded with Some b => Ok b | None => Panic end)
  /\ forall b, must_hex_pad_left s size = Ok b -> Z.of_nat (length b) = size.
Proof. exact must_hex_pad_left_spec. Qed.
Print Assumptions C17_must_hex_pad_left.

(** hex timestamps become 8 bytes *)
Theorem C17_hex_timestamp : forall ts,
  (length ts <= 16)%nat ->
  parse_hex_timestamp ts = match hex_decode (repeat 48 (16 - length ts) ++ ts) with
                           | Some b => Ok b | None => Err (EStd 2 []) end
  /\ forall b, parse_hex_timestamp ts = Ok b -> length b = 8%nat.
Proof. exact parse_hex_timestamp_spec. Qed.
Print Assumptions C17_hex_timestamp.

(** hex request fields become the corresponding byte fields, empty text the empty field; the
    call fails exactly when some non-empty field is not valid hex *)
Theorem C17_hex_fields : forall c q p s t c' q' p' s' t',
  hex_field T_hex_counter c = Ok c' -> hex_field T_hex_challenge q = Ok q' -> hex_field T_hex_password p = Ok p' ->
  hex_field T_hex_session s = Ok s' -> hex_field T_hex_timestamp t = Ok t' ->
  hex_input_to_ocra c q p s t = Ok (mkInput c' q' p' s' t').
Proof. exact hex_input_to_ocra_ok. Qed.
Print Assumptions C17_hex_fields.

Theorem C17_hex_fields_error : forall c q p s t,
  (exists e, hex_input_to_ocra c q p s t = Err e) <->
  (hex_field T_hex_counter c = Err (EStd T_hex_counter []) \/ hex_field T_hex_challenge q = Err (EStd T_hex_challenge []) \/
   hex_field T_hex_password p = Err (EStd T_hex_password []) \/ hex_field T_hex_session s = Err (EStd T_hex_session []) \/
   hex_field T_hex_timestamp t = Err (EStd T_hex_timestamp [])).
Proof. exact hex_input_to_ocra_first_error. Qed.
Print Assumptions C17_hex_fields_error.

(** a decimal question is converted as RFC 6287 prescribes: decimal -> upper-case hexadecimal
    text, right-padded with '0' to 256 characters = 128 bytes *)
Theorem C17_question : forall q,
  q <> [] -> all_digits q ->
  parse_decimal_challenge q = match rfc6287_question (dec_value q) with Some b => Ok b | None => Err (EStd 2 []) end.
Proof. exact parse_decimal_challenge_spec. Qed.
Print Assumptions C17_question.

(** end to end: an OCRA code computed from a numeric question through the helper is the RFC
    6287 value for that question *)
Theorem C17_e2e : forall secret key cfg q qb a,
  decode_secret secret = Ok key -> usable cfg -> sc_hash cfg = N_of_alg a ->
  sc_c cfg = false -> sc_q cfg = true -> sc_p cfg = false -> sc_s cfg = false -> sc_t cfg = false ->
  (chal_min (sc_challenge cfg) <= 128)%Z ->
  q <> [] -> all_digits q -> rfc6287_question (dec_value q) = Some qb -> length qb = 128%nat ->
  obind (parse_decimal_challenge q) (fun ch => generate_ocra secret cfg (mkInput [] ch [] [] []))
  = Ok (ocra_value hmac a key (sc_raw cfg) None (Some qb) None None None (Z.to_nat (sc_digits cfg))).
Proof.
  intros secret key cfg q qb a Hk Hu Hh Hc Hq Hp Hs Ht Hmin Hne Hd Hqb Hl.
  rewrite parse_decimal_challenge_spec by assumption. rewrite Hqb. cbn [obind].
  rewrite (generate_ocra_value hmac hmac_length hmac_wf secret key cfg _ a Hk Hu); [|
    unfold admissible, zlen; cbn [oi_counter oi_challenge oi_password oi_session oi_timestamp];
    rewrite Hc, Hq, Hp, Hs, Ht, Hl; repeat split; intros; try discriminate; lia | exact Hh].
  cbn [oi_counter oi_challenge oi_password oi_session oi_timestamp]. rewrite Hc, Hq, Hp, Hs, Ht. reflexivity.
Qed.
Print Assumptions C17_e2e.

(** non-vacuity: RFC 6287 appendix C: question "11111111" -> hex "A98AC7" padded; code 243178
    for OCRA-1:HOTP-SHA1-6:QN08 with key "12345678901234567890" *)
Example C17_rfc_vector :
  obind (parse_decimal_challenge (s2b "11111111"%string)) (fun ch =>
    generate_ocra (s2b "GEZDGNBVGY3TQOJQGEZDGNBVGY3TQOJQ"%string)
      (mkSuite (s2b "OCRA-1:HOTP-SHA1-6:QN08"%string) 0 6 1 false true false false false 0 0)
      (mkInput [] ch [] [] [])) = Ok (s2b "243178"%string) /\
  parse_decimal_be8 (s2b "0018446744073709551615"%string) = Ok (repeat 255 8) /\
  is_err (parse_decimal_be8 (s2b "18446744073709551616"%string)) = true /\
  is_err (parse_decimal_be8 (s2b "+5"%string)) = true.
Proof. vm_compute. repeat split. Qed.
