module gentables

go 1.23
