package main

import (
	"crypto/hmac"
	"crypto/sha1"
	"crypto/sha256"
	"crypto/sha512"
	"fmt"
	"hash"
	"os"
	"strings"
	"time"

	"github.com/ja7ad/otp"
)

func parseParam(s string) *otp.Param {
	if s == "-" {
		return nil
	}
	f := strings.Split(s, ",")
	return &otp.Param{Digits: otp.Digits(u64(f[0])), Period: uint(u64(f[1])), Skew: uint(u64(f[2])), Algorithm: otp.Algorithm(u64(f[3]))}
}

func fmtParam(p *otp.Param) string {
	if p == nil {
		return "-"
	}
	return fmt.Sprintf("%d,%d,%d,%d", p.Digits, p.Period, p.Skew, p.Algorithm)
}

// suite: raw,hash,digits,chal,c,q,p,s,t,pw,step
func parseSuite(s string) otp.SuiteConfig {
	f := strings.Split(s, ",")
	b := func(x string) bool { return x == "1" }
	return otp.SuiteConfig{Raw: string(unhx(f[0])), Hash: otp.Algorithm(u64(f[1])), Digits: int(i64(f[2])),
		Challenge: otp.ChallengeFormat(i64(f[3])), IncludeCounter: b(f[4]), IncludeChallenge: b(f[5]), IncludePassword: b(f[6]),
		IncludeSession: b(f[7]), IncludeTimestamp: b(f[8]), PasswordHash: otp.PasswordHashAlgorithm(i64(f[9])), TimeStep: int(i64(f[10]))}
}
func b01(b bool) string {
	if b {
		return "1"
	}
	return "0"
}
func fmtSuite(c otp.SuiteConfig) string {
	return fmt.Sprintf("%s,%d,%d,%d,%s,%s,%s,%s,%s,%d,%d", hxs(c.Raw), c.Hash, c.Digits, c.Challenge, b01(c.IncludeCounter),
		b01(c.IncludeChallenge), b01(c.IncludePassword), b01(c.IncludeSession), b01(c.IncludeTimestamp), c.PasswordHash, c.TimeStep)
}

// input: counter,challenge,password,session,timestamp (hex each)
func parseInput(s string) otp.OCRAInput {
	f := strings.Split(s, ",")
	return otp.OCRAInput{Counter: unhx(f[0]), Challenge: unhx(f[1]), Password: unhx(f[2]), SessionInfo: unhx(f[3]), Timestamp: unhx(f[4])}
}
func fmtInput(in otp.OCRAInput) string {
	return strings.Join([]string{hx(in.Counter), hx(in.Challenge), hx(in.Password), hx(in.SessionInfo), hx(in.Timestamp)}, ",")
}

// time: sec,nsec,zoneOffsetSeconds,mono(0/1)
func parseTime(s string) time.Time {
	f := strings.Split(s, ",")
	sec, nsec, zone, mono := i64(f[0]), i64(f[1]), i64(f[2]), f[3] == "1"
	t := time.Unix(sec, nsec)
	if mono {
		// a Time carrying a monotonic reading: derive it from time.Now() by Add (keeps the reading)
		base := time.Now()
		d := t.Sub(base)
		t2 := base.Add(d)
		if t2.Unix() == t.Unix() { // only if the wall clock target is reachable by a Duration
			t = t2
		}
	}
	if zone != 0 {
		t = t.In(time.FixedZone("Z", int(zone)))
	}
	return t
}

func goHash(a uint64) func() hash.Hash {
	switch a {
	case 0:
		return sha1.New
	case 1:
		return sha256.New
	default:
		return sha512.New
	}
}

// run executes one case line against the implementation and returns the canonical outcome.
func run(line string) (out string) {
	defer func() {
		if r := recover(); r != nil {
			if r == "unavailable" { // a stage-level case, and the harness was built without the repository's hooks
				out = "unavailable"
				return
			}
			if os.Getenv("HARNESS_DEBUG") != "" {
				fmt.Fprintln(os.Stderr, "panic:", r)
			}
			out = "panic"
		}
	}()
	if msg, bad := heldChanged(); bad {
		return msg
	}
	f := strings.Split(line, " ")
	switch f[0] {
	case "decode":
		return bytesOrErr(otp.DecodeSecret(string(unhx(f[1]))))
	case "ghotp":
		return strOrErr(otp.GenerateHOTP(string(unhx(f[1])), u64(f[2]), parseParam(f[3])))
	case "vhotp":
		return verdict(otp.ValidateHOTP(string(unhx(f[1])), string(unhx(f[2])), u64(f[3]), parseParam(f[4])))
	case "gtotp":
		return strOrErr(otp.GenerateTOTP(string(unhx(f[1])), parseTime(f[2]), parseParam(f[3])))
	case "vtotp":
		return verdict(otp.ValidateTOTP(string(unhx(f[1])), string(unhx(f[2])), parseTime(f[3]), parseParam(f[4])))
	case "gocra":
		return strOrErr(otp.GenerateOCRA(string(unhx(f[1])), parseSuite(f[2]), parseInput(f[3])))
	case "gocra_raw": // same, but through the RawSuite wrapper type
		return strOrErr(otp.GenerateOCRA(string(unhx(f[1])), otp.RawSuite{SuiteConfig: parseSuite(f[2])}, parseInput(f[3])))
	case "vocra":
		return verdict(otp.ValidateOCRA(string(unhx(f[1])), string(unhx(f[2])), parseSuite(f[3]), parseInput(f[4])))
	case "d4226":
		return strOrErr(hkDerive4226(unhx(f[1]), u64(f[2]), int(i64(f[3])), otp.Algorithm(u64(f[4]))))
	case "d6287":
		return strOrErr(hkDerive6287(unhx(f[1]), parseSuite(f[2]), parseInput(f[3])))
	case "trunc":
		return okNum(uint64(hkTruncate(unhx(f[1]), u64(f[2]))))
	case "short":
		return okStr(hkShortDigit(uint32(u64(f[1])), int(i64(f[2]))))
	case "long":
		return okStr(hkLongDigit(uint32(u64(f[1])), int(i64(f[2]))))
	case "fmtdec":
		return okStr(hkFormatDecimal(uint32(u64(f[1])), int(i64(f[2]))))
	case "padb":
		return okBytes(hkPadBytes(unhx(f[1]), int(i64(f[2]))))
	case "mod10":
		return okNum(hkMod10()[i64(f[1])])
	case "hmac": // Go's crypto/hmac, to validate the model's executable HMAC
		m := hmac.New(goHash(u64(f[1])), unhx(f[2]))
		m.Write(unhx(f[3]))
		return okBytes(m.Sum(nil))
	case "svalidate":
		if e := parseSuite(f[1]).Validate(); e != nil {
			return errOut(e)
		}
		return "ok:"
	case "ivalidate":
		if e := parseInput(f[2]).Validate(parseSuite(f[1])); e != nil {
			return errOut(e)
		}
		return "ok:"
	}
	if out, ok := run2(f); ok {
		return out
	}
	return "unknown-op"
}
