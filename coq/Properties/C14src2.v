(** C14 over the Go source, entry points: generation succeeds exactly for a decodable secret, a usable suite and an
    admissible input (kept apart from C14src.v, which needs only the translated validators). *)
From OtpV Require Import Prelude Sha GoSem Tables Decoder Derive Otp Ocra Rfc6287 Errors OcraProofs Src SrcLift SrcTop SrcEqDecode SrcEqOtp SrcEqOcraV SrcEqOcra C14.
Open Scope N_scope.

Theorem C14src_entry : forall fuel junk jm secret cfg i, runs fuel junk secret -> small_input i ->
  (0 <= sc_challenge cfg <= 6)%Z /\ (sc_p cfg = true -> 1 <= sc_pwhash cfg <= 3)%Z ->
  ((exists code, Src.GenerateOCRA fuel jm secret (Some cfg) i = Val (code, None))
   <-> (exists key, Src.DecodeSecret fuel secret = Val (key, None)) /\ usable cfg /\ admissible cfg i).
Proof.
  intros fuel junk jm secret cfg i (Hf & Hfs & Hs & Hj) Hi Hr.
  rewrite src_GenerateOCRA_eq by (assumption || lia).
  pose proof (C14_entry secret cfg i Hr) as [H1 H2].
  split.
  - intros [code Hc]. destruct (generate_ocra secret cfg i) as [c|e|] eqn:E; cbn [lift_oc] in Hc; try discriminate.
    destruct (H1 (ex_intro _ c eq_refl)) as ([key Hk] & Hu & Ha).
    split; [exists key; apply src_decode_ok; assumption|split; assumption].
  - intros ([key Hk] & Hu & Ha). apply src_decode_ok in Hk; [|assumption|assumption].
    destruct (H2 (conj (ex_intro _ key Hk) (conj Hu Ha))) as [code Hc]. exists code. rewrite Hc. reflexivity.
Qed.
Print Assumptions C14src_entry.
