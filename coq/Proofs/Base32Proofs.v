(** C07: decoding inverts RFC 4648 base32 encoding for every spelling; rejection clauses. *)
From Coq Require Import ZifyN ZifyNat ZifyBool.
From OtpV Require Import Prelude Rfc4648 Decoder.
Open Scope N_scope.

(** ---------------- finite sweeps over bit lists ---------------- *)
Fixpoint all_lists (n : nat) : list (list bool) :=
  match n with
  | O => [[]]
  | S k => map (cons true) (all_lists k) ++ map (cons false) (all_lists k)
  end.

Lemma in_all_lists l : In l (all_lists (length l)).
Proof.
  induction l as [|b l IH]; [left; reflexivity|]. cbn [length all_lists]. apply in_or_app.
  destruct b; [left|right]; apply in_map; exact IH.
Qed.

Lemma sweep (n : nat) (chk : list bool -> bool) :
  forallb chk (all_lists n) = true -> forall l, length l = n -> chk l = true.
Proof. intros H l Hl. rewrite forallb_forall in H. apply H. rewrite <- Hl. apply in_all_lists. Qed.

(** the five output bytes of [pack], each as a function of the 10 or 15 bits it reads *)
Definition chk0 (l : list bool) : bool :=
  N.lor (shl8 (of_bits (firstn 5 l)) 3) (N.shiftr (of_bits (skipn 5 l)) 2) =? of_bits (firstn 8 l).
Definition chk1 (l : list bool) : bool :=
  N.lor (N.lor (shl8 (of_bits (firstn 5 l)) 6) (shl8 (of_bits (firstn 5 (skipn 5 l))) 1)) (N.shiftr (of_bits (skipn 10 l)) 4)
  =? of_bits (firstn 8 (skipn 3 l)).
Definition chk2 (l : list bool) : bool :=
  N.lor (shl8 (of_bits (firstn 5 l)) 4) (N.shiftr (of_bits (skipn 5 l)) 1) =? of_bits (firstn 8 (skipn 1 l)).
Definition chk3 (l : list bool) : bool :=
  N.lor (N.lor (shl8 (of_bits (firstn 5 l)) 7) (shl8 (of_bits (firstn 5 (skipn 5 l))) 2)) (N.shiftr (of_bits (skipn 10 l)) 3)
  =? of_bits (firstn 8 (skipn 4 l)).
Definition chk4 (l : list bool) : bool :=
  N.lor (shl8 (of_bits (firstn 5 l)) 5) (of_bits (skipn 5 l)) =? of_bits (skipn 2 l).

Lemma byte0 l : length l = 10%nat -> chk0 l = true.  Proof. apply sweep. vm_compute. reflexivity. Qed.
Lemma byte1 l : length l = 15%nat -> chk1 l = true.  Proof. apply sweep. vm_compute. reflexivity. Qed.
Lemma byte2 l : length l = 10%nat -> chk2 l = true.  Proof. apply sweep. vm_compute. reflexivity. Qed.
Lemma byte3 l : length l = 15%nat -> chk3 l = true.  Proof. apply sweep. vm_compute. reflexivity. Qed.
Lemma byte4 l : length l = 10%nat -> chk4 l = true.  Proof. apply sweep. vm_compute. reflexivity. Qed.

(** packing eight quintets = regrouping the same 40 bits into five octets *)
Lemma pack_regroup
  x0 x1 x2 x3 x4 x5 x6 x7 x8 x9 x10 x11 x12 x13 x14 x15 x16 x17 x18 x19
  x20 x21 x22 x23 x24 x25 x26 x27 x28 x29 x30 x31 x32 x33 x34 x35 x36 x37 x38 x39 :
  pack (map of_bits (quintets [x0;x1;x2;x3;x4;x5;x6;x7;x8;x9;x10;x11;x12;x13;x14;x15;x16;x17;x18;x19;
                               x20;x21;x22;x23;x24;x25;x26;x27;x28;x29;x30;x31;x32;x33;x34;x35;x36;x37;x38;x39]))
  = [of_bits [x0;x1;x2;x3;x4;x5;x6;x7]; of_bits [x8;x9;x10;x11;x12;x13;x14;x15];
     of_bits [x16;x17;x18;x19;x20;x21;x22;x23]; of_bits [x24;x25;x26;x27;x28;x29;x30;x31];
     of_bits [x32;x33;x34;x35;x36;x37;x38;x39]].
Proof.
  cbn [quintets map]. unfold pack. cbn [nth].
  pose proof (byte0 [x0;x1;x2;x3;x4;x5;x6;x7;x8;x9] eq_refl) as H0.
  pose proof (byte1 [x5;x6;x7;x8;x9;x10;x11;x12;x13;x14;x15;x16;x17;x18;x19] eq_refl) as H1.
  pose proof (byte2 [x15;x16;x17;x18;x19;x20;x21;x22;x23;x24] eq_refl) as H2.
  pose proof (byte3 [x20;x21;x22;x23;x24;x25;x26;x27;x28;x29;x30;x31;x32;x33;x34] eq_refl) as H3.
  pose proof (byte4 [x30;x31;x32;x33;x34;x35;x36;x37;x38;x39] eq_refl) as H4.
  unfold chk0, chk1, chk2, chk3, chk4 in *. cbn [firstn skipn] in *.
  apply N.eqb_eq in H0, H1, H2, H3, H4. rewrite H0, H1, H2, H3, H4. reflexivity.
Qed.

(** ---------------- bytes and their bits ---------------- *)
Lemma to_bits_length k n : length (to_bits k n) = k.
Proof. induction k as [|k IH]; simpl; [reflexivity|]. rewrite IH. reflexivity. Qed.

Lemma lt_256_in a : a < 256 -> In a (map N.of_nat (seq 0 256)).
Proof. intros H. apply in_map_iff. exists (N.to_nat a). split; [lia|]. apply in_seq. lia. Qed.

Lemma of_bits_to_bits8 a : a < 256 -> of_bits (to_bits 8 a) = a.
Proof.
  intros H. apply lt_256_in in H.
  assert (forallb (fun a => of_bits (to_bits 8 a) =? a) (map N.of_nat (seq 0 256)) = true) as Hall
    by (vm_compute; reflexivity).
  rewrite forallb_forall in Hall. apply N.eqb_eq. apply Hall. exact H.
Qed.

(** destructure [to_bits 8 a] into its eight elements *)
Lemma to_bits8_shape a : exists a0 a1 a2 a3 a4 a5 a6 a7, to_bits 8 a = [a0; a1; a2; a3; a4; a5; a6; a7].
Proof. do 8 eexists. reflexivity. Qed.

Definition quint (g : bytes) : list N := map of_bits (quintets (flat_map (to_bits 8) g)).

Ltac bits_of a E :=
  let a0 := fresh a "0" in let a1 := fresh a "1" in let a2 := fresh a "2" in let a3 := fresh a "3" in
  let a4 := fresh a "4" in let a5 := fresh a "5" in let a6 := fresh a "6" in let a7 := fresh a "7" in
  destruct (to_bits8_shape a) as (a0 & a1 & a2 & a3 & a4 & a5 & a6 & a7 & E).

Lemma of_bits_false5 : of_bits [false; false; false; false; false] = 0.
Proof. reflexivity. Qed.

(** a full 5-byte group *)
Lemma pack_quint5 a b c d e :
  a < 256 -> b < 256 -> c < 256 -> d < 256 -> e < 256 ->
  pack (quint [a; b; c; d; e]) = [a; b; c; d; e].
Proof.
  intros Ha Hb Hc Hd He. unfold quint. cbn [flat_map]. rewrite app_nil_r.
  bits_of a Ea. bits_of b Eb. bits_of c Ec. bits_of d Ed. bits_of e Ee.
  rewrite Ea, Eb, Ec, Ed, Ee. cbn [app]. rewrite pack_regroup.
  rewrite <- Ea, <- Eb, <- Ec, <- Ed, <- Ee. rewrite !of_bits_to_bits8 by assumption. reflexivity.
Qed.

(** [pack] reads its argument through [nth _ _ 0]: trailing zero quintets may be dropped *)
Lemma pack_ext l l' : (forall i, nth i l 0 = nth i l' 0) -> pack l = pack l'.
Proof. intros H. unfold pack. rewrite !H. reflexivity. Qed.

Lemma quint_partial_ext g : (length g < 5)%nat ->
  forall i, nth i (quint g) 0 = nth i (quint (g ++ repeat 0 (5 - length g))) 0.
Proof.
  intros Hl i. unfold quint.
  destruct g as [|a [|b [|c [|d [|e t]]]]]; cbn [length] in Hl; try lia; cbn [length Nat.sub repeat app flat_map];
    rewrite ?app_nil_r.
  - (* [] : all quintets of five zero bytes are 0 *)
    destruct i as [|[|[|[|[|[|[|[|i]]]]]]]]; try reflexivity. destruct i; reflexivity.
  - bits_of a Ea. rewrite Ea. cbn [app quintets firstn map].
    destruct i as [|[|[|[|[|[|[|[|i]]]]]]]]; try reflexivity. destruct i; reflexivity.
  - bits_of a Ea. bits_of b Eb. rewrite Ea, Eb. cbn [app quintets firstn map].
    destruct i as [|[|[|[|[|[|[|[|i]]]]]]]]; try reflexivity. destruct i; reflexivity.
  - bits_of a Ea. bits_of b Eb. bits_of c Ec. rewrite Ea, Eb, Ec. cbn [app quintets firstn map].
    destruct i as [|[|[|[|[|[|[|[|i]]]]]]]]; try reflexivity. destruct i; reflexivity.
  - bits_of a Ea. bits_of b Eb. bits_of c Ec. bits_of d Ed. rewrite Ea, Eb, Ec, Ed. cbn [app quintets firstn map].
    destruct i as [|[|[|[|[|[|[|[|i]]]]]]]]; try reflexivity. destruct i; reflexivity.
Qed.

(** a final group of 1..4 bytes: the first [length g] bytes of the packed quantum are [g] *)
Lemma pack_quint_partial g :
  wfb g -> (length g < 5)%nat -> firstn (length g) (pack (quint g)) = g.
Proof.
  intros Hwf Hl. rewrite (pack_ext _ _ (quint_partial_ext g Hl)). unfold wfb in Hwf.
  destruct g as [|a [|b [|c [|d [|e t]]]]]; cbn [length] in Hl; try lia; cbn [length Nat.sub repeat app];
    repeat match goal with H : Forall _ (_ :: _) |- _ => apply Forall_cons_iff in H; destruct H end;
    rewrite pack_quint5 by (assumption || reflexivity); reflexivity.
Qed.

(** number of characters encoding a group *)
Lemma quint_length g : (length g <= 5)%nat ->
  length (quint g) = match length g with 0 => 0 | 1 => 2 | 2 => 4 | 3 => 5 | 4 => 7 | _ => 8 end%nat.
Proof.
  intros Hl. unfold quint.
  destruct g as [|a [|b [|c [|d [|e [|f t]]]]]]; cbn [length] in Hl; try lia; cbn [flat_map length]; rewrite ?app_nil_r;
  repeat match goal with |- context [to_bits 8 ?x] =>
    let E := fresh "E" in destruct (to_bits8_shape x) as (? & ? & ? & ? & ? & ? & ? & ? & E); rewrite E; clear E end;
  reflexivity.
Qed.

(** ---------------- characters ---------------- *)
Definition char_ok (l : list bool) : bool :=
  let v := of_bits l in let c := b32_char v in
  (decode_map c =? v) && negb (c =? 61) && negb (v =? 255) && (upper_ascii c =? c) && in_alphabet_ci c
  && negb ((c =? 13) || (c =? 10)) && (v <? 32) && negb (ascii_space c) && (c <? 128).

Lemma char_facts l : length l = 5%nat -> char_ok l = true.
Proof. apply sweep. vm_compute. reflexivity. Qed.

Lemma quintets_len5 l : Forall (fun q => length q = 5%nat) (quintets l).
Proof.
  assert (forall n l, (length l <= n)%nat -> Forall (fun q => length q = 5%nat) (quintets l)) as H.
  { induction n as [|n IH]; intros l0 Hl.
    - destruct l0; [constructor|simpl in Hl; lia].
    - destruct l0 as [|a [|b [|c [|d [|e t]]]]]; cbn [quintets]; try (repeat constructor).
      apply IH. simpl in Hl. lia. }
  apply (H (length l)). lia.
Qed.

(** decoded value of an alphabet character and the facts the decoder tests *)
Record good_char (c v : N) : Prop := {
  gc_map : decode_map c = v; gc_noteq : (c =? 61) = false; gc_not255 : (v =? 255) = false;
  gc_upper : upper_ascii c = c; gc_alpha : in_alphabet_ci c = true;
  gc_nonl : ((c =? 13) || (c =? 10)) = false; gc_lt : v < 32;
  gc_nospace : ascii_space c = false; gc_ascii : c < 128 }.

Lemma good_char_of_bits q : length q = 5%nat -> good_char (b32_char (of_bits q)) (of_bits q).
Proof.
  intros H. pose proof (char_facts q H) as C. unfold char_ok in C. cbv zeta in C.
  repeat (apply andb_true_iff in C; destruct C as [C ?]).
  constructor;
    repeat match goal with
           | H : negb _ = true |- _ => apply negb_true_iff in H
           | H : (_ =? _) = true |- _ => apply N.eqb_eq in H
           | H : (_ <? _) = true |- _ => apply N.ltb_lt in H
           end; auto.
Qed.

(** ---------------- one quantum ---------------- *)
Lemma quantum_step k j dbuf c v src olen :
  good_char c v ->
  quantum (S k) j dbuf (c :: src) olen = quantum k (S j) (dbuf ++ [v]) src olen.
Proof.
  intros G. cbn [quantum]. rewrite (gc_noteq _ _ G). cbn [andb].
  rewrite (gc_map _ _ G), (gc_not255 _ _ G). reflexivity.
Qed.

Lemma quantum_full c0 c1 c2 c3 c4 c5 c6 c7 v0 v1 v2 v3 v4 v5 v6 v7 rest olen :
  good_char c0 v0 -> good_char c1 v1 -> good_char c2 v2 -> good_char c3 v3 ->
  good_char c4 v4 -> good_char c5 v5 -> good_char c6 v6 -> good_char c7 v7 ->
  quantum 8 0 [] (c0 :: c1 :: c2 :: c3 :: c4 :: c5 :: c6 :: c7 :: rest) olen
  = QOk [v0; v1; v2; v3; v4; v5; v6; v7] 8 false rest.
Proof.
  intros G0 G1 G2 G3 G4 G5 G6 G7.
  rewrite (quantum_step _ _ _ _ _ _ _ G0), (quantum_step _ _ _ _ _ _ _ G1), (quantum_step _ _ _ _ _ _ _ G2),
          (quantum_step _ _ _ _ _ _ _ G3), (quantum_step _ _ _ _ _ _ _ G4), (quantum_step _ _ _ _ _ _ _ G5),
          (quantum_step _ _ _ _ _ _ _ G6), (quantum_step _ _ _ _ _ _ _ G7).
  reflexivity.
Qed.

(** the quantum that ends in padding: [m] data characters then exactly [8 - m] '=' *)
Lemma quantum_padded cs vs olen :
  Forall2 good_char cs vs -> In (length cs) [2; 4; 5; 7]%nat ->
  quantum 8 0 [] (cs ++ repeat 61 (8 - length cs)) olen = QOk vs (length cs) true (repeat 61 (7 - length cs)).
Proof.
  intros HF Hin.
  destruct cs as [|c0 [|c1 [|c2 [|c3 [|c4 [|c5 [|c6 [|c7 t]]]]]]]]; cbn [length] in *;
    repeat (destruct Hin as [Hin|Hin]; try discriminate Hin); try contradiction;
    repeat match goal with H : Forall2 _ (_ :: _) _ |- _ => inversion H; subst; clear H end;
    match goal with H : Forall2 _ [] _ |- _ => inversion H; subst; clear H end;
    cbn [app Nat.sub repeat];
    repeat (erewrite quantum_step by eassumption); cbn [app]; reflexivity.
Qed.

(** ---------------- the decoding loop on canonical text ---------------- *)
Ltac Zify.zify_post_hook ::= Z.div_mod_to_equations.

Lemma encode_group_quint g : encode_group g = map b32_char (quint g).
Proof. unfold encode_group, quint. rewrite map_map. reflexivity. Qed.

Lemma encode_group_good g : Forall2 good_char (encode_group g) (quint g).
Proof.
  rewrite encode_group_quint. unfold quint.
  pose proof (quintets_len5 (flat_map (to_bits 8) g)) as H.
  induction H as [|q l Hq _ IH]; cbn [map]; constructor; [apply good_char_of_bits; exact Hq|exact IH].
Qed.

Lemma encode_group_length g : length (encode_group g) = length (quint g).
Proof. rewrite encode_group_quint. apply map_length. Qed.

Lemma b32_nopad_cons5 a b c d e t :
  b32_nopad (a :: b :: c :: d :: e :: t) = encode_group [a; b; c; d; e] ++ b32_nopad t.
Proof. reflexivity. Qed.

Lemma b32_padded_cons5 a b c d e t :
  b32_padded (a :: b :: c :: d :: e :: t) = encode_group [a; b; c; d; e] ++ b32_padded t.
Proof.
  unfold b32_padded, b32_npad. rewrite b32_nopad_cons5, app_length, encode_group_length, quint_length by (simpl; lia).
  cbn [length]. rewrite <- app_assoc. f_equal. f_equal.
  replace (8 + length (b32_nopad t))%nat with (length (b32_nopad t) + 1 * 8)%nat by lia.
  rewrite Nat.mod_add by discriminate. reflexivity.
Qed.

Lemma b32_padded_partial g : (0 < length g < 5)%nat ->
  b32_padded g = encode_group g ++ repeat 61 (8 - length (encode_group g)) /\ In (length (encode_group g)) [2; 4; 5; 7]%nat.
Proof.
  intros Hl. unfold b32_padded, b32_npad.
  assert (b32_nopad g = encode_group g) as ->.
  { unfold b32_nopad. destruct g as [|a [|b [|c [|d [|e t]]]]]; cbn [length] in Hl; try lia; cbn [groups5 flat_map]; apply app_nil_r. }
  rewrite encode_group_length, quint_length by lia.
  destruct g as [|a [|b [|c [|d [|e t]]]]]; cbn [length] in *; try lia; (split; [reflexivity|]); cbn [In]; auto 6.
Qed.

Lemma decode_loop_nil fuel olen acc : decode_loop fuel [] olen acc = (acc, None).
Proof. destruct fuel; reflexivity. Qed.

Theorem decode_loop_canonical n : forall bs fuel olen acc,
  (length bs <= n)%nat -> wfb bs -> (length (groups5 bs) <= fuel)%nat ->
  decode_loop fuel (b32_padded bs) olen acc = (acc ++ bs, None).
Proof.
  induction n as [|n IH]; intros bs fuel olen acc Hn Hwf Hf.
  - destruct bs; [|simpl in Hn; lia]. cbn. rewrite decode_loop_nil, app_nil_r. reflexivity.
  - destruct bs as [|a [|b [|c [|d [|e t]]]]].
    + cbn. rewrite decode_loop_nil, app_nil_r. reflexivity.
    + (* 1 byte *)
      destruct fuel as [|f]; [cbn in Hf; lia|].
      destruct (b32_padded_partial [a]) as [E Hin]; [simpl; lia|]. rewrite E.
      cbn [decode_loop]. pose proof (encode_group_good [a]) as G.
      destruct (encode_group [a]) as [|c0 cs] eqn:Ec; [cbn [length In] in Hin; lia|].
      rewrite (quantum_padded _ _ olen G Hin). cbn [app].
      assert (length (c0 :: cs) = length (quint [a])) as -> by (rewrite <- Ec; apply encode_group_length).
      rewrite quint_length by (simpl; lia). cbn [length nbytes].
      change 1%nat with (length [a]) at 1. rewrite pack_quint_partial by (try assumption; simpl; lia). reflexivity.
    + destruct fuel as [|f]; [cbn in Hf; lia|].
      destruct (b32_padded_partial [a; b]) as [E Hin]; [simpl; lia|]. rewrite E.
      cbn [decode_loop]. pose proof (encode_group_good [a; b]) as G.
      destruct (encode_group [a; b]) as [|c0 cs] eqn:Ec; [cbn [length In] in Hin; lia|].
      rewrite (quantum_padded _ _ olen G Hin). cbn [app].
      assert (length (c0 :: cs) = length (quint [a; b])) as -> by (rewrite <- Ec; apply encode_group_length).
      rewrite quint_length by (simpl; lia). cbn [length nbytes].
      change 2%nat with (length [a; b]) at 1. rewrite pack_quint_partial by (try assumption; simpl; lia). reflexivity.
    + destruct fuel as [|f]; [cbn in Hf; lia|].
      destruct (b32_padded_partial [a; b; c]) as [E Hin]; [simpl; lia|]. rewrite E.
      cbn [decode_loop]. pose proof (encode_group_good [a; b; c]) as G.
      destruct (encode_group [a; b; c]) as [|c0 cs] eqn:Ec; [cbn [length In] in Hin; lia|].
      rewrite (quantum_padded _ _ olen G Hin). cbn [app].
      assert (length (c0 :: cs) = length (quint [a; b; c])) as -> by (rewrite <- Ec; apply encode_group_length).
      rewrite quint_length by (simpl; lia). cbn [length nbytes].
      change 3%nat with (length [a; b; c]) at 1. rewrite pack_quint_partial by (try assumption; simpl; lia). reflexivity.
    + destruct fuel as [|f]; [cbn in Hf; lia|].
      destruct (b32_padded_partial [a; b; c; d]) as [E Hin]; [simpl; lia|]. rewrite E.
      cbn [decode_loop]. pose proof (encode_group_good [a; b; c; d]) as G.
      destruct (encode_group [a; b; c; d]) as [|c0 cs] eqn:Ec; [cbn [length In] in Hin; lia|].
      rewrite (quantum_padded _ _ olen G Hin). cbn [app].
      assert (length (c0 :: cs) = length (quint [a; b; c; d])) as -> by (rewrite <- Ec; apply encode_group_length).
      rewrite quint_length by (simpl; lia). cbn [length nbytes].
      change 4%nat with (length [a; b; c; d]) at 1. rewrite pack_quint_partial by (try assumption; simpl; lia). reflexivity.
    + (* a full group, then the rest *)
      destruct fuel as [|f]; [cbn in Hf; lia|].
      rewrite b32_padded_cons5. pose proof (encode_group_good [a; b; c; d; e]) as G.
      pose proof (encode_group_length [a; b; c; d; e]) as L. rewrite quint_length in L by (simpl; lia). cbn [length] in L.
      destruct (encode_group [a; b; c; d; e]) as [|c0 [|c1 [|c2 [|c3 [|c4 [|c5 [|c6 [|c7 [|c8 cs]]]]]]]]]; try discriminate L.
      destruct (quint [a; b; c; d; e]) as [|v0 [|v1 [|v2 [|v3 [|v4 [|v5 [|v6 [|v7 [|v8 vs]]]]]]]]] eqn:Eq;
        try (exfalso; repeat match goal with H : Forall2 _ _ _ |- _ => inversion H; subst; clear H end; fail).
      repeat match goal with H : Forall2 _ (_ :: _) (_ :: _) |- _ => inversion H; subst; clear H end.
      cbn [app decode_loop].
      erewrite quantum_full by eassumption.
      rewrite <- Eq. cbn [nbytes]. unfold wfb in Hwf.
      repeat match goal with H : Forall _ (_ :: _) |- _ => apply Forall_cons_iff in H; destruct H end.
      rewrite pack_quint5 by assumption. cbn [firstn].
      rewrite IH; [rewrite <- app_assoc; reflexivity| cbn [length] in Hn; lia | assumption | cbn [groups5 length] in Hf; lia].
Qed.

(** ---------------- shape of canonical text ---------------- *)
Definition text_char (c : N) : Prop := (exists v, good_char c v) \/ c = 61.

Lemma b32_nopad_good bs : Forall (fun c => exists v, good_char c v) (b32_nopad bs).
Proof.
  unfold b32_nopad. induction (groups5 bs) as [|g gs IH]; cbn [flat_map]; [constructor|].
  apply Forall_app. split; [|exact IH].
  pose proof (encode_group_good g) as G. induction G; constructor; [eexists; eassumption|assumption].
Qed.

Lemma b32_padded_length bs : length (b32_padded bs) = (8 * length (groups5 bs))%nat.
Proof.
  assert (forall n bs, (length bs <= n)%nat -> length (b32_padded bs) = (8 * length (groups5 bs))%nat) as H.
  { induction n as [|n IH]; intros bs0 Hn.
    - destruct bs0; [reflexivity|simpl in Hn; lia].
    - destruct bs0 as [|a [|b [|c [|d [|e t]]]]]; try reflexivity.
      + rewrite b32_padded_cons5, app_length, encode_group_length, quint_length by (simpl; lia).
        cbn [groups5 length]. rewrite IH by (cbn [length] in Hn; lia). lia. }
  apply (H (length bs)). lia.
Qed.

Lemma strip_newlines_id s : Forall (fun c => ((c =? 13) || (c =? 10)) = false) s -> strip_newlines s = s.
Proof.
  intros H. unfold strip_newlines. induction H as [|c s Hc _ IH]; cbn [filter]; [reflexivity|].
  rewrite Hc. cbn [negb]. rewrite IH. reflexivity.
Qed.

Lemma b32_padded_clean bs : Forall (fun c => ((c =? 13) || (c =? 10)) = false) (b32_padded bs).
Proof.
  unfold b32_padded. apply Forall_app. split.
  - eapply Forall_impl; [|apply b32_nopad_good]. intros c [v G]. exact (gc_nonl _ _ G).
  - apply Forall_forall. intros c Hc. apply repeat_spec in Hc. subst. reflexivity.
Qed.

(** decoding the canonical padded text of [bs] gives back [bs] *)
Theorem b32_decode_canonical bs : wfb bs -> b32_decode_string (b32_padded bs) = (bs, None).
Proof.
  intros Hwf. unfold b32_decode_string. rewrite strip_newlines_id by apply b32_padded_clean.
  rewrite (decode_loop_canonical (length bs)); [reflexivity|lia|exact Hwf|].
  rewrite b32_padded_length. lia.
Qed.

(** ---------------- white space ---------------- *)
Definition ws (c : N) : Prop := ascii_space c = true.

Lemma space_prefix_len_ascii c t : ascii_space c = false -> c < 128 -> space_prefix_len (c :: t) = O.
Proof.
  intros Hs Hc. unfold space_prefix_len. rewrite Hs.
  assert (forall x, 128 <= x -> (x =? c) = false) as Hne by (intros x Hx; apply N.eqb_neq; lia).
  cbn [uni_spaces find is_prefix]. rewrite !Hne by lia. reflexivity.
Qed.

Lemma space_suffix_len_ascii c t : ascii_space c = false -> c < 128 -> space_suffix_len (c :: t) = O.
Proof.
  intros Hs Hc. unfold space_suffix_len. rewrite Hs.
  assert (forall x, 128 <= x -> (x =? c) = false) as Hne by (intros x Hx; apply N.eqb_neq; lia).
  cbn [uni_spaces find is_prefix rev app]. rewrite !Hne by lia. reflexivity.
Qed.

Lemma trim_left_fuel_stop fuel s : space_prefix_len s = O -> trim_left_fuel fuel s = s.
Proof. intros H. destruct fuel; cbn [trim_left_fuel]; [reflexivity|]. rewrite H. reflexivity. Qed.

Lemma trim_right_fuel_stop fuel s : space_suffix_len s = O -> trim_right_fuel fuel s = s.
Proof. intros H. destruct fuel; cbn [trim_right_fuel]; [reflexivity|]. rewrite H. reflexivity. Qed.

Lemma trim_left_fuel_ws w : forall fuel t, Forall ws w -> (length w <= fuel)%nat ->
  trim_left_fuel fuel (w ++ t) = trim_left_fuel (fuel - length w) t.
Proof.
  induction w as [|c w IH]; intros fuel t Hw Hf; cbn [app length].
  - rewrite Nat.sub_0_r. reflexivity.
  - destruct fuel as [|f]; [cbn [length] in Hf; lia|]. cbn [trim_left_fuel].
    apply Forall_cons_iff in Hw. destruct Hw as [Hc Hw]. unfold ws in Hc.
    unfold space_prefix_len. rewrite Hc. cbn [skipn]. rewrite IH by (try assumption; cbn [length] in Hf; lia).
    reflexivity.
Qed.

Lemma trim_right_fuel_ws w : forall fuel t, Forall ws w -> (length w <= fuel)%nat ->
  trim_right_fuel fuel (w ++ t) = trim_right_fuel (fuel - length w) t.
Proof.
  induction w as [|c w IH]; intros fuel t Hw Hf; cbn [app length].
  - rewrite Nat.sub_0_r. reflexivity.
  - destruct fuel as [|f]; [cbn [length] in Hf; lia|]. cbn [trim_right_fuel].
    apply Forall_cons_iff in Hw. destruct Hw as [Hc Hw]. unfold ws in Hc.
    unfold space_suffix_len. rewrite Hc. cbn [skipn]. rewrite IH by (try assumption; cbn [length] in Hf; lia).
    reflexivity.
Qed.

Definition plain (c : N) : Prop := ascii_space c = false /\ c < 128.

(** trimming removes surrounding white space from a text whose own ends are plain characters *)
Lemma trim_space_spec w1 core w2 :
  Forall ws w1 -> Forall ws w2 -> Forall plain core -> trim_space (w1 ++ core ++ w2) = core.
Proof.
  intros H1 H2 Hc. unfold trim_space.
  destruct core as [|c core'].
  { (* nothing but white space *)
    cbn [app]. assert (trim_left (w1 ++ w2) = []) as ->; [|reflexivity].
    unfold trim_left. rewrite <- (app_nil_r (w1 ++ w2)) at 2.
    rewrite trim_left_fuel_ws by (try (apply Forall_app; split; assumption); lia).
    apply trim_left_fuel_stop. reflexivity. }
  set (core := c :: core') in *.
  assert (trim_left (w1 ++ core ++ w2) = core ++ w2) as ->.
  { unfold trim_left. rewrite trim_left_fuel_ws by (try assumption; rewrite app_length; lia).
    apply Forall_cons_iff in Hc. destruct Hc as [[Hs Hl] _]. apply trim_left_fuel_stop.
    unfold core. cbn [app]. apply space_prefix_len_ascii; assumption. }
  unfold trim_right. rewrite !frev_rev. rewrite rev_app_distr.
  rewrite trim_right_fuel_ws by (try (apply Forall_rev; assumption); rewrite rev_length, app_length; lia).
  rewrite trim_right_fuel_stop; [apply rev_involutive|].
  destruct (rev core) as [|z r] eqn:Er; [reflexivity|].
  assert (In z core) as Hin by (apply in_rev; rewrite Er; left; reflexivity).
  rewrite Forall_forall in Hc. destruct (Hc z Hin) as [Hs Hl]. apply space_suffix_len_ascii; assumption.
Qed.

(** ---------------- letter case ---------------- *)
Lemma upper_preimage c x v : upper_ascii c = x -> good_char x v \/ x = 61 ->
  in_alphabet_ci c = true /\ plain c.
Proof.
  intros Hu Hx.
  assert (in_alphabet_ci x = true /\ upper_ascii x = x /\ ascii_space x = false /\ x < 128) as (Ha & Hup & Hsp & Hlt).
  { destruct Hx as [G| ->]; [|repeat split; reflexivity].
    repeat split; [exact (gc_alpha _ _ G)|exact (gc_upper _ _ G)|exact (gc_nospace _ _ G)|exact (gc_ascii _ _ G)]. }
  unfold plain. unfold upper_ascii, in_alphabet_ci, ascii_space in *.
  destruct ((97 <=? c) && (c <=? 122)) eqn:E; subst x; repeat split; lia.
Qed.

Lemma first_bad_none s i : Forall (fun c => in_alphabet_ci c = true) s -> first_bad i s = None.
Proof. intros H. revert i. induction H as [|c s Hc _ IH]; intros i; cbn [first_bad]; [reflexivity|]. rewrite Hc. apply IH. Qed.

Lemma to_upper_app a b : to_upper (a ++ b) = to_upper a ++ to_upper b.
Proof. apply map_app. Qed.

Lemma to_upper_repeat_eq n : to_upper (repeat 61 n) = repeat 61 n.
Proof. unfold to_upper. induction n; cbn [repeat map]; [reflexivity|]. rewrite IHn. reflexivity. Qed.

(** ---------------- the spelling relation and the round trip ---------------- *)
(** [s] spells the base32 text of [bs]: surrounded by ASCII white space, any letter case,
    with [k] of the canonical '=' present (0 = unpadded, b32_npad = canonical, in between =
    partially padded) *)
Definition spelling (bs s : bytes) : Prop :=
  exists w1 core w2 k,
    s = w1 ++ core ++ w2 /\ Forall ws w1 /\ Forall ws w2 /\ (k <= b32_npad bs)%nat /\
    to_upper core = b32_nopad bs ++ repeat 61 k.

Lemma core_chars bs core k :
  to_upper core = b32_nopad bs ++ repeat 61 k ->
  Forall (fun c => in_alphabet_ci c = true) core /\ Forall plain core.
Proof.
  intros H.
  assert (Forall (fun x => (exists v, good_char x v) \/ x = 61) (to_upper core)) as Hx.
  { rewrite H. apply Forall_app. split.
    - eapply Forall_impl; [|apply b32_nopad_good]. intros c Hc. left. exact Hc.
    - apply Forall_forall. intros c Hc. apply repeat_spec in Hc. right. exact Hc. }
  clear H. unfold to_upper in Hx. induction core as [|c core IH]; [split; constructor|].
  cbn [map] in Hx. apply Forall_cons_iff in Hx. destruct Hx as [Hc Hx]. destruct (IH Hx) as [I1 I2].
  assert (in_alphabet_ci c = true /\ plain c) as [A P].
  { destruct Hc as [[v G]|E]; [apply (upper_preimage c _ v eq_refl); left; exact G
                               |apply (upper_preimage c _ 0 eq_refl); right; exact E]. }
  split; constructor; assumption.
Qed.

Theorem decode_secret_roundtrip bs s : wfb bs -> spelling bs s -> decode_secret s = Ok bs.
Proof.
  intros Hwf (w1 & core & w2 & k & -> & H1 & H2 & Hk & Hup).
  destruct (core_chars bs core k Hup) as [Halpha Hplain].
  unfold decode_secret. rewrite trim_space_spec by assumption.
  rewrite first_bad_none by exact Halpha.
  assert (length core = (length (b32_nopad bs) + k)%nat) as Hlen.
  { rewrite <- (map_length upper_ascii core). fold (to_upper core). rewrite Hup, app_length, repeat_length. reflexivity. }
  set (n := Nat.modulo (length core) 8).
  assert (to_upper (if Nat.eqb n 0 then core else core ++ repeat 61 (8 - n)) = b32_padded bs) as ->.
  { unfold b32_padded. unfold b32_npad in *. subst n. rewrite Hlen.
    set (L := length (b32_nopad bs)) in *.
    destruct (Nat.eqb ((L + k) mod 8) 0) eqn:E.
    - apply Nat.eqb_eq in E. rewrite Hup. f_equal. f_equal. lia.
    - apply Nat.eqb_neq in E. rewrite to_upper_app, to_upper_repeat_eq, Hup, <- app_assoc, <- repeat_app.
      f_equal. f_equal. lia. }
  rewrite b32_decode_canonical by exact Hwf. reflexivity.
Qed.

(** ---------------- rejection ---------------- *)
(** a character outside A-Z a-z 2-7 = anywhere in the trimmed text is rejected *)
Theorem decode_secret_reject_char s :
  Exists (fun c => in_alphabet_ci c = false) (trim_space s) -> exists e, decode_secret s = Err e.
Proof.
  intros H. unfold decode_secret.
  assert (forall t i, Exists (fun c => in_alphabet_ci c = false) t -> exists j, first_bad i t = Some j) as Hfb.
  { induction t as [|c t IH]; intros i Hex; [inversion Hex|]. cbn [first_bad].
    destruct (in_alphabet_ci c) eqn:E; [|eexists; reflexivity].
    apply IH. inversion Hex; subst; [congruence|assumption]. }
  destruct (Hfb _ 0%Z H) as [j ->]. eexists. reflexivity.
Qed.

(** whatever is accepted consists of alphabet characters only (after trimming) *)
Theorem decode_secret_accepts_alphabet s bs :
  decode_secret s = Ok bs -> Forall (fun c => in_alphabet_ci c = true) (trim_space s).
Proof.
  unfold decode_secret. intros H.
  assert (forall t i, first_bad i t = None -> Forall (fun c => in_alphabet_ci c = true) t) as Hfb.
  { induction t as [|c t IH]; intros i Hn; [constructor|]. cbn [first_bad] in Hn.
    destruct (in_alphabet_ci c) eqn:E; [|discriminate]. constructor; [exact E|eapply IH; exact Hn]. }
  destruct (first_bad 0%Z (trim_space s)) eqn:E; [discriminate|]. eapply Hfb. exact E.
Qed.

(** ---------------- impossible lengths ---------------- *)
Definition data_char (c : N) : Prop := in_alphabet_ci c = true /\ c <> 61.

Lemma data_char_good c : data_char c -> good_char (upper_ascii c) (decode_map (upper_ascii c)).
Proof.
  intros [Ha Hne]. unfold in_alphabet_ci in Ha.
  constructor; unfold upper_ascii, decode_map, in_alphabet_ci, ascii_space in *;
    destruct ((97 <=? c) && (c <=? 122)) eqn:E1;
    repeat match goal with |- context [if ?b then _ else _] => let E := fresh "E" in destruct b eqn:E end;
    try reflexivity; try lia.
Qed.

Lemma quantum_bad_tail cs vs olen :
  Forall2 good_char cs vs -> In (length cs) [1; 3; 6]%nat ->
  exists off, quantum 8 0 [] (cs ++ repeat 61 (8 - length cs)) olen = QErr off.
Proof.
  intros HF Hin.
  destruct cs as [|c0 [|c1 [|c2 [|c3 [|c4 [|c5 [|c6 t]]]]]]]; cbn [length In] in Hin;
    try (exfalso; lia);
    repeat match goal with H : Forall2 _ (_ :: _) _ |- _ => inversion H; subst; clear H end;
    match goal with H : Forall2 _ [] _ |- _ => inversion H; subst; clear H end;
    cbn [length app Nat.sub repeat];
    repeat (erewrite quantum_step by eassumption); eexists; reflexivity.
Qed.

Lemma decode_loop_bad_tail q : forall cs vs fuel olen acc,
  Forall2 good_char cs vs -> (length cs = 8 * q + length cs mod 8)%nat -> In (length cs mod 8)%nat [1; 3; 6]%nat ->
  (q < fuel)%nat ->
  exists bs off, decode_loop fuel (cs ++ repeat 61 (8 - length cs mod 8)) olen acc = (bs, Some off).
Proof.
  induction q as [|q IH]; intros cs vs fuel olen acc HF Hlen Hin Hfuel.
  - destruct fuel as [|f]; [lia|]. cbn [decode_loop].
    assert (length cs mod 8 = length cs)%nat as E by lia. rewrite E in *.
    destruct (quantum_bad_tail cs vs olen HF Hin) as [off Hq]. rewrite Hq.
    destruct (cs ++ repeat 61 (8 - length cs)) eqn:Es; [|eexists; eexists; reflexivity].
    exfalso. destruct cs; [cbn [length In] in Hin; lia|discriminate].
  - destruct fuel as [|f]; [lia|].
    destruct cs as [|c0 [|c1 [|c2 [|c3 [|c4 [|c5 [|c6 [|c7 cs']]]]]]]]; cbn [length] in Hlen; try lia.
    repeat match goal with H : Forall2 _ (_ :: _) _ |- _ => inversion H; subst; clear H end.
    assert (length (c0 :: c1 :: c2 :: c3 :: c4 :: c5 :: c6 :: c7 :: cs') mod 8 = length cs' mod 8)%nat as Em.
    { cbn [length]. replace (S (S (S (S (S (S (S (S (length cs'))))))))) with (length cs' + 1 * 8)%nat by lia.
      apply Nat.mod_add. discriminate. }
    rewrite Em in *. cbn [app decode_loop]. erewrite quantum_full by eassumption.
    cbv iota beta zeta.
    eapply IH; [eassumption| lia | exact Hin | lia].
Qed.

Lemma data_chars_good t : Forall data_char t ->
  Forall2 good_char (to_upper t) (map (fun c => decode_map (upper_ascii c)) t).
Proof.
  intros Hd. unfold to_upper. induction Hd as [|c t' Hc _ IH]; cbn [map]; constructor;
    [apply data_char_good; exact Hc|exact IH].
Qed.

Lemma good_chars_clean cs vs : Forall2 good_char cs vs -> Forall (fun c => ((c =? 13) || (c =? 10)) = false) cs.
Proof. intros HF. induction HF as [|x v xs vsx G _ IH]; constructor; [exact (gc_nonl _ _ G)|exact IH]. Qed.

(** text made of data characters only (no '=') whose length is 1, 3 or 6 modulo 8 is rejected *)
Theorem decode_secret_reject_length s :
  Forall data_char (trim_space s) -> In (length (trim_space s) mod 8)%nat [1; 3; 6]%nat ->
  exists e, decode_secret s = Err e.
Proof.
  intros Hd Hin. unfold decode_secret. set (t := trim_space s) in *.
  rewrite first_bad_none by (eapply Forall_impl; [|exact Hd]; intros c [Hc _]; exact Hc).
  assert (Nat.eqb (length t mod 8) 0 = false) as -> by (apply Nat.eqb_neq; cbn [In] in Hin; lia).
  rewrite to_upper_app, to_upper_repeat_eq.
  assert (Forall2 good_char (to_upper t) (map (fun c => decode_map (upper_ascii c)) t)) as HF.
  { apply data_chars_good. exact Hd. }
  unfold b32_decode_string.
  rewrite strip_newlines_id.
  2:{ apply Forall_app. split.
      - eapply good_chars_clean. exact HF.
      - apply Forall_forall. intros c Hc. apply repeat_spec in Hc. subst. reflexivity. }
  assert (length (to_upper t) = length t) as Hl by apply map_length.
  rewrite <- Hl in *.
  destruct (decode_loop_bad_tail (length (to_upper t) / 8) (to_upper t) _
              (length (to_upper t ++ repeat 61 (8 - length (to_upper t) mod 8))) (zlen (to_upper t ++ repeat 61 (8 - length (to_upper t) mod 8))) [] HF)
    as (bs & off & ->); [| exact Hin | | eexists; reflexivity].
  - pose proof (Nat.div_mod (length (to_upper t)) 8). lia.
  - rewrite app_length, repeat_length. pose proof (Nat.div_mod (length (to_upper t)) 8).
    cbn [In] in Hin. lia.
Qed.
