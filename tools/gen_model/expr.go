package main

import (
	"fmt"
	"go/ast"
	"go/constant"
	"go/token"
	"go/types"
	"strings"
)

// error templates of the library's fmt.Errorf / errors.New call sites -> tags of Model/Errors.v
var errTemplates = map[string]string{
	"expected 8-byte counter, got %d":                         "EFmt T_counter_len",
	"challenge too short: expected at least %d bytes, got %d": "EFmt T_chal_short",
	"challenge too long: must not exceed 128 bytes, got %d":   "EFmt T_chal_long",
	"password required but not provided":                      "EFmt T_pw_missing",
	"PSHA1 password must be 20 bytes, got %d":                 "EFmt T_pw_sha1",
	"PSHA256 password must be 32 bytes, got %d":               "EFmt T_pw_sha256",
	"PSHA512 password must be 64 bytes, got %d":               "EFmt T_pw_sha512",
	"session info too long: max 128 bytes, got %d":            "EFmt T_sess_long",
	"expected 8-byte timestamp, got %d":                       "EFmt T_ts_len",
	"invalid digit length: %d":                                "EFmt T_digit_len",
	"unsupported hash algorithm: %v":                          "EFmt T_bad_hash",
	"password input enabled but no password hash specified":   "EFmt T_pw_nohash",
	"timestamp input enabled but invalid time step: %d":       "EFmt T_bad_step",
	"challenge input required but no challenge format set":    "EFmt T_no_format",
	// the suite parser
	"invalid OCRA suite format: %q":                     "EFmt T_suite_format",
	"unsupported OCRA version: %q":                      "EFmt T_suite_version",
	"unknown or unsupported crypto in %q":               "EFmt T_suite_crypto",
	"invalid crypto format: %q":                         "EFmt T_crypto_format",
	"unsupported hash %q":                               "EFmt T_suite_hash",
	"invalid digit spec %q":                             "EFmt T_suite_digits",
	"unsupported numeric challenge spec %q":             "EFmt T_numeric_spec",
	"unknown password hash type %q":                     "EFmt T_pw_type",
	"invalid time spec %q: %w":                          "EFmt T_time_spec",
	"unknown data input token %q":                       "EFmt T_unknown_token",
	"nil URL provided":                                  "EFmt T_url_nil",
	"invalid URL scheme: %s":                            "EFmt T_url_scheme",
	"unsupported OTP type: %s":                          "EFmt T_url_type",
	"invalid label format, expected Issuer:AccountName": "EFmt T_url_label",
	"invalid digits value: %s":                          "EFmt T_url_digits",
	"unsupported algorithm: %s":                         "EFmt T_url_alg",
	"invalid period value: %s":                          "EFmt T_url_period",
	"invalid decimal %q":                                "EFmt T_invalid_decimal",
	"failed to decode counter: %w":                      "EStd T_hex_counter",
	"failed to decode challenge: %w":                    "EStd T_hex_challenge",
	"failed to decode password: %w":                     "EStd T_hex_password",
	"failed to decode session info: %w":                 "EStd T_hex_session",
	"failed to decode timestamp: %w":                    "EStd T_hex_timestamp",
	"failed to generate random secret: %w":              "EStd T_random",
	// errors whose text the model does not render (class only): the arguments are dropped
	"too short time spec":    "EStd 10",
	"unknown time unit %q":   "EStd 12",
	"time step out of range": "EStd 13",
}

func (fc *fctx) tmp() string {
	fc.ntmp++
	return fmt.Sprintf("t%d", fc.ntmp)
}

// bind pushes a panicking computation and returns the name of its value
func (fc *fctx) bind(code string) string {
	if fc.noBind > 0 {
		fc.t.fail(fc.cur, "an operation that can panic on the right of && or ||")
	}
	n := fc.tmp()
	fc.pre = append(fc.pre, fmt.Sprintf("do %s <- %s;", n, code))
	return n
}

func (fc *fctx) typeOf(e ast.Expr) types.Type {
	if tv, ok := fc.t.info.Types[e]; ok {
		return tv.Type
	}
	if id, ok := e.(*ast.Ident); ok {
		if o := fc.t.info.ObjectOf(id); o != nil {
			return o.Type()
		}
	}
	fc.t.fail(e, "expression without a type")
	return nil
}

func (fc *fctx) kind(e ast.Expr) kind { return fc.t.kindOf(fc.typeOf(e)) }

func lit(k kind, v constant.Value, n ast.Node, t *tr) string {
	switch k {
	case kJsType:
		// syscall/js: TypeUndefined, TypeNull, TypeBoolean, TypeNumber, TypeString, TypeSymbol, TypeObject, TypeFunction
		names := []string{"undefined", "null", "boolean", "number", "string", "symbol", "object", "function"}
		if i, ok := constant.Int64Val(constant.ToInt(v)); ok && i >= 0 && int(i) < len(names) {
			return "(s2b \"" + names[i] + "\")"
		}
		t.fail(n, "js.Type constant")
	case kU8, kU32, kU64:
		return constant.ToInt(v).ExactString() + "%N"
	case kI64, kI32:
		s := constant.ToInt(v).ExactString()
		if strings.HasPrefix(s, "-") {
			return "(" + s + ")%Z"
		}
		return s + "%Z"
	case kBool:
		if constant.BoolVal(v) {
			return "true"
		}
		return "false"
	case kBytes:
		s := constant.StringVal(v)
		if s == "" {
			return "[]"
		}
		for _, c := range []byte(s) {
			if c < 32 || c > 126 || c == '"' {
				var bs []string
				for _, c := range []byte(s) {
					bs = append(bs, fmt.Sprintf("%d", c))
				}
				return "[" + strings.Join(bs, "; ") + "]"
			}
		}
		return "(s2b \"" + s + "\")"
	}
	t.fail(n, "constant of a type outside the fragment")
	return ""
}

// expr translates an expression to a pure term; operations that can panic are bound first (fc.pre)
func (fc *fctx) expr(e ast.Expr) string {
	t := fc.t
	fc.cur = e
	if tv, ok := t.info.Types[e]; ok && tv.Value != nil {
		return lit(t.kindOf(tv.Type), tv.Value, e, t)
	}
	switch e := e.(type) {
	case *ast.ParenExpr:
		return fc.expr(e.X)
	case *ast.Ident:
		return fc.ident(e)
	case *ast.BasicLit:
		t.fail(e, "literal without a constant value")
	case *ast.UnaryExpr:
		return fc.unary(e)
	case *ast.BinaryExpr:
		return fc.binary(e)
	case *ast.CallExpr:
		return fc.call(e, 1)
	case *ast.IndexExpr:
		return fc.index(e)
	case *ast.SliceExpr:
		return fc.sliceExpr(e)
	case *ast.SelectorExpr:
		return fc.selector(e)
	case *ast.StarExpr:
		// *p
		k := fc.kind(e.X)
		if k == kParamPtr {
			return fc.bind("deref " + fc.expr(e.X))
		}
		if k == kBytes {
			return fc.expr(e.X) // *(*[]byte), *(*[8]byte): value semantics
		}
		t.fail(e, "dereference of %s", fc.typeOf(e.X))
	case *ast.FuncLit:
		return fc.funcLit(e)
	case *ast.CompositeLit:
		return fc.composite(e)
	case *ast.TypeAssertExpr:
		// s.(RawSuite) / s.(SuiteConfig) on the interface Suite: both implementations are their configuration (the
		// dynamic type is not modelled); on a nil interface the assertion panics
		if fc.kind(e.X) == kSuiteI && e.Type != nil && fc.t.kindOf(fc.typeOf(e)) == kSuite {
			return fc.bind("deref " + fc.expr(e.X))
		}
		t.fail(e, "type assertion outside the pool idiom")
	}
	t.fail(e, "expression form %T", e)
	return ""
}

func (fc *fctx) ident(e *ast.Ident) string {
	t := fc.t
	obj := t.info.ObjectOf(e)
	switch o := obj.(type) {
	case *types.Nil:
		return "None"
	case *types.Var:
		if o.Parent() == t.pkg.Types.Scope() {
			return fc.global(e, o)
		}
		return fc.varName(o)
	case *types.Const:
		return lit(t.kindOf(o.Type()), o.Val(), e, t)
	}
	if e.Name == "nil" {
		return "None"
	}
	t.fail(e, "identifier %s", e.Name)
	return ""
}

// package-level variables
func (fc *fctx) global(n ast.Node, o *types.Var) string {
	name := o.Name()
	if strings.HasPrefix(name, "Err") && fc.t.kindOf(o.Type()) == kErr {
		return "(Some (ESent " + name + "))"
	}
	if g, ok := fc.t.globalNames[name]; ok {
		return g
	}
	fc.t.fail(n, "package variable %s", name)
	return ""
}

func (fc *fctx) unary(e *ast.UnaryExpr) string {
	k := fc.kind(e)
	switch e.Op {
	case token.NOT:
		return "(negb " + fc.expr(e.X) + ")"
	case token.SUB:
		if k == kI64 {
			return "(wrap_int64 (Z.opp " + fc.expr(e.X) + "))"
		}
		if isUnsigned(k) {
			return fmt.Sprintf("(usub %d%%N 0%%N %s)", bitsOf(k), fc.expr(e.X))
		}
	case token.AND:
		// &x: &def (a Param copy), &hmacPools[i]
		if fc.t.kindOf(fc.typeOf(e)) == kParamPtr {
			return "(Some " + fc.expr(e.X) + ")"
		}
		if k := fc.t.kindOf(fc.typeOf(e)); k == kUParamPtr || k == kURLPtr {
			if cl, ok := e.X.(*ast.CompositeLit); ok {
				return "(Some " + fc.composite(cl) + ")"
			}
		}
		if fc.t.kindOf(fc.typeOf(e)) == kSuitePtr {
			return fc.expr(e.X) // passed to an in/out parameter: the callee returns the new value
		}
		if fc.t.kindOf(fc.typeOf(e)) == kPoolEntry {
			if ix, ok := e.X.(*ast.IndexExpr); ok {
				if id, ok := ix.X.(*ast.Ident); ok && id.Name == "hmacPools" {
					return fc.bind("pool_at hmacPools " + fc.toZ(ix.Index))
				}
			}
		}
	}
	fc.t.fail(e, "unary %s on %s", e.Op, fc.typeOf(e.X))
	return ""
}

// toZ: an integer expression as a mathematical integer (for indexes, lengths, error arguments)
func (fc *fctx) toZ(e ast.Expr) string {
	k := fc.kind(e)
	s := fc.expr(e)
	if isUnsigned(k) {
		return "(Z.of_N " + s + ")"
	}
	if k == kI64 || k == kI32 {
		return s
	}
	fc.t.fail(e, "integer expected")
	return ""
}

func wrapU(k kind, s string) string {
	switch k {
	case kU8:
		return "(wrap8 " + s + ")"
	case kU32:
		return "(wrap32 " + s + ")"
	}
	return "(wrap64 " + s + ")"
}

func (fc *fctx) binary(e *ast.BinaryExpr) string {
	t := fc.t
	switch e.Op {
	case token.LAND, token.LOR:
		a := fc.expr(e.X)
		saved := fc.pre
		fc.pre = nil
		b := fc.expr(e.Y)
		preB := fc.pre
		fc.pre = saved
		if len(preB) > 0 {
			// the right operand can panic (or calls a translated function): it runs only when the left one lets it
			if fc.noBind > 0 {
				fc.t.fail(e, "an operation that can panic on the right of && or ||")
			}
			rhs := "(" + strings.Join(preB, "\n  ") + "\n  Val " + b + ")"
			if e.Op == token.LAND {
				return fc.bind("(if " + a + " then " + rhs + " else Val false)")
			}
			return fc.bind("(if " + a + " then Val true else " + rhs + ")")
		}
		if e.Op == token.LAND {
			return "(" + a + " && " + b + ")"
		}
		return "(" + a + " || " + b + ")"
	}
	kx := fc.kind(e.X)
	// comparisons
	switch e.Op {
	case token.EQL, token.NEQ, token.LSS, token.LEQ, token.GTR, token.GEQ:
		return fc.compare(e, kx)
	}
	k := fc.kind(e)
	if !isInt(k) {
		if k == kBytes && e.Op == token.ADD {
			return "(" + fc.expr(e.X) + " ++ " + fc.expr(e.Y) + ")"
		}
		t.fail(e, "operator %s on %s", e.Op, fc.typeOf(e))
	}
	a := fc.expr(e.X)
	var b string
	if e.Op == token.SHL || e.Op == token.SHR {
		// shift count: any unsigned type or a non-negative constant
		if tv, ok := t.info.Types[e.Y]; ok && tv.Value != nil {
			b = constant.ToInt(tv.Value).ExactString()
			if strings.HasPrefix(b, "-") {
				t.fail(e, "negative shift count")
			}
			if isUnsigned(k) {
				b += "%N"
			} else {
				b += "%Z"
			}
		} else if isUnsigned(fc.kind(e.Y)) {
			b = fc.expr(e.Y)
			if !isUnsigned(k) {
				b = "(Z.of_N " + b + ")"
			}
		} else {
			t.fail(e, "signed variable shift count")
		}
	} else {
		b = fc.expr(e.Y)
	}
	if isUnsigned(k) {
		switch e.Op {
		case token.ADD:
			return wrapU(k, "(N.add "+a+" "+b+")")
		case token.SUB:
			return fmt.Sprintf("(usub %d%%N %s %s)", bitsOf(k), a, b)
		case token.MUL:
			return wrapU(k, "(N.mul "+a+" "+b+")")
		case token.QUO, token.REM:
			op, fn := "N.div", "udiv"
			if e.Op == token.REM {
				op, fn = "N.modulo", "umod"
			}
			if tv, ok := t.info.Types[e.Y]; ok && tv.Value != nil && constant.Sign(tv.Value) != 0 {
				return "(" + op + " " + a + " " + b + ")"
			}
			return fc.bind(fn + " " + a + " " + b)
		case token.AND:
			return "(N.land " + a + " " + b + ")"
		case token.OR:
			return "(N.lor " + a + " " + b + ")"
		case token.XOR:
			return "(N.lxor " + a + " " + b + ")"
		case token.SHL:
			return wrapU(k, "(N.shiftl "+a+" "+b+")")
		case token.SHR:
			return "(N.shiftr " + a + " " + b + ")"
		}
	} else if k == kI64 {
		switch e.Op {
		case token.ADD:
			return "(wrap_int64 (Z.add " + a + " " + b + "))"
		case token.SUB:
			return "(wrap_int64 (Z.sub " + a + " " + b + "))"
		case token.MUL:
			return "(wrap_int64 (Z.mul " + a + " " + b + "))"
		case token.QUO, token.REM:
			if tv, ok := t.info.Types[e.Y]; ok && tv.Value != nil && constant.Sign(tv.Value) > 0 {
				// a positive constant divisor: no panic, no overflow
				if e.Op == token.QUO {
					return "(Z.quot " + a + " " + b + ")"
				}
				return "(Z.rem " + a + " " + b + ")"
			}
			if e.Op == token.QUO {
				return fc.bind("sdiv " + a + " " + b)
			}
			return fc.bind("smod " + a + " " + b)
		}
	}
	t.fail(e, "operator %s on %s", e.Op, fc.typeOf(e))
	return ""
}

func (fc *fctx) compare(e *ast.BinaryExpr, kx kind) string {
	t := fc.t
	// comparisons with nil
	isNil := func(x ast.Expr) bool {
		id, ok := x.(*ast.Ident)
		if !ok {
			return false
		}
		_, isn := t.info.ObjectOf(id).(*types.Nil)
		return isn
	}
	if isNil(e.Y) || isNil(e.X) {
		x := e.X
		if isNil(e.X) {
			x = e.Y
		}
		k := fc.kind(x)
		var s string
		switch k {
		case kErr, kParamPtr, kURLPtr, kUParamPtr, kSuiteI, kLocalPtr:
			s = "(is_some " + fc.expr(x) + ")"
		default:
			t.fail(e, "comparison of %s with nil", fc.typeOf(x))
		}
		if e.Op == token.EQL {
			return "(negb " + s + ")"
		}
		if e.Op == token.NEQ {
			return s
		}
		t.fail(e, "ordering against nil")
	}
	a, b := fc.expr(e.X), fc.expr(e.Y)
	pre := "N"
	switch {
	case isUnsigned(kx):
	case kx == kI64 || kx == kI32:
		pre = "Z"
	case kx == kBytes:
		if _, isArr := fc.typeOf(e.X).Underlying().(*types.Basic); !isArr {
			t.fail(e, "comparison of non-string byte sequences")
		}
		switch e.Op {
		case token.EQL:
			return "(beqb " + a + " " + b + ")"
		case token.NEQ:
			return "(negb (beqb " + a + " " + b + "))"
		}
		t.fail(e, "string ordering")
	case kx == kJsType:
		switch e.Op {
		case token.EQL:
			return "(beqb " + a + " " + b + ")"
		case token.NEQ:
			return "(negb (beqb " + a + " " + b + "))"
		}
	case kx == kBool:
		switch e.Op {
		case token.EQL:
			return "(Bool.eqb " + a + " " + b + ")"
		case token.NEQ:
			return "(negb (Bool.eqb " + a + " " + b + "))"
		}
	default:
		t.fail(e, "comparison on %s", fc.typeOf(e.X))
	}
	switch e.Op {
	case token.EQL:
		return "(" + pre + ".eqb " + a + " " + b + ")"
	case token.NEQ:
		return "(negb (" + pre + ".eqb " + a + " " + b + "))"
	case token.LSS:
		return "(" + pre + ".ltb " + a + " " + b + ")"
	case token.LEQ:
		return "(" + pre + ".leb " + a + " " + b + ")"
	case token.GTR:
		return "(" + pre + ".ltb " + b + " " + a + ")"
	case token.GEQ:
		return "(" + pre + ".leb " + b + " " + a + ")"
	}
	t.fail(e, "comparison %s", e.Op)
	return ""
}

// conversion T(x) between integer kinds
func (fc *fctx) convert(n ast.Node, to kind, x ast.Expr) string {
	from := fc.kind(x)
	s := fc.expr(x)
	switch {
	case from == to:
		return s
	case isUnsigned(from) && isUnsigned(to):
		if bitsOf(to) >= bitsOf(from) {
			return s
		}
		return wrapU(to, s)
	case isUnsigned(from) && to == kI64:
		if bitsOf(from) < 64 {
			return "(Z.of_N " + s + ")"
		}
		return "(to_int64 " + s + ")"
	case from == kI64 && to == kU64:
		return "(of_int64 " + s + ")"
	case from == kI64 && isUnsigned(to):
		return fmt.Sprintf("(of_int %d%%N %s)", bitsOf(to), s)
	case from == kI32 && to == kI64:
		return s
	}
	fc.t.fail(n, "conversion from %s", fc.typeOf(x))
	return ""
}

func (fc *fctx) index(e *ast.IndexExpr) string {
	t := fc.t
	// table[i] for a package-level array of constants
	if id, ok := e.X.(*ast.Ident); ok {
		if v, ok := t.info.ObjectOf(id).(*types.Var); ok && v.Parent() == t.pkg.Types.Scope() {
			if g, ok := t.globalNames[id.Name]; ok && t.globalTables[id.Name] {
				return fc.bind("idxN " + g + " " + fc.toZ(e.Index))
			}
			if g, ok := t.globalNames[id.Name]; ok && t.globalAssoc[id.Name] {
				return "(assoc_str " + g + " " + fc.expr(e.Index) + ")"
			}
			if id.Name == "knownSuites" {
				return "(fst (lookup_go " + fc.expr(e.Index) + "))"
			}
			t.fail(e, "index into package variable %s", id.Name)
		}
	}
	if fc.kind(e.X) == kStrList {
		return fc.bind("idxS " + fc.expr(e.X) + " " + fc.toZ(e.Index))
	}
	if fc.kind(e.X) == kJsList {
		return fc.bind("idxJ " + fc.expr(e.X) + " " + fc.toZ(e.Index))
	}
	if fc.kind(e.X) == kPairs {
		return "(query_get " + fc.expr(e.Index) + " " + fc.expr(e.X) + ")" // a missing key reads as ""
	}
	if fc.kind(e.X) != kBytes {
		t.fail(e, "index into %s", fc.typeOf(e.X))
	}
	x := fc.expr(e.X)
	return fc.bind("idx " + x + " " + fc.toZ(e.Index))
}

func (fc *fctx) sliceExpr(e *ast.SliceExpr) string {
	if fc.kind(e.X) != kBytes || e.Slice3 {
		fc.t.fail(e, "slice expression on %s", fc.typeOf(e.X))
	}
	x := fc.expr(e.X)
	if e.Low == nil && e.High == nil {
		return x
	}
	lo := "0%Z"
	if e.Low != nil {
		lo = fc.toZ(e.Low)
	}
	hi := "(zlen " + x + ")"
	if e.High != nil {
		hi = fc.toZ(e.High)
	}
	return fc.bind("slice " + x + " " + lo + " " + hi)
}

func (fc *fctx) selector(e *ast.SelectorExpr) string {
	t := fc.t
	if fc.kind(e) == kHashCtor {
		switch exprText(e) {
		case "sha1.New":
			return "(Some SHA1)"
		case "sha256.New":
			return "(Some SHA256)"
		case "sha512.New":
			return "(Some SHA512)"
		}
		t.fail(e, "hash constructor %s", exprText(e))
	}
	sel := t.info.Selections[e]
	if sel == nil || sel.Kind() != types.FieldVal {
		t.fail(e, "selector %s", e.Sel.Name)
	}
	// the struct the field belongs to (through embedding and pointers)
	recv := sel.Recv()
	x := fc.expr(e.X)
	if ln, _ := t.localStruct(derefT(recv)); ln != nil {
		if _, ptr := recv.(*types.Pointer); ptr {
			byValue := false
			if id, ok := e.X.(*ast.Ident); ok {
				if v, ok := t.info.ObjectOf(id).(*types.Var); ok && fc.recvVals[v] {
					byValue = true
				}
			}
			if !byValue {
				x = fc.bind("deref " + x) // a nil pointer: the field access panics
			}
		}
		if len(sel.Index()) != 1 {
			t.fail(e, "promoted field")
		}
		return "(" + ln.Obj().Name() + "_" + e.Sel.Name + " " + x + ")"
	}
	if p, ok := recv.(*types.Pointer); ok {
		recv = p.Elem()
		if t.kindOf(sel.Recv()) == kParamPtr {
			x = fc.bind("deref " + x)
		} else if k := t.kindOf(sel.Recv()); k == kURLPtr || k == kUParamPtr {
			x = fc.bind("deref " + x)
		} else if t.kindOf(sel.Recv()) == kSuitePtr {
			// an in/out parameter: always the address of a caller's variable
		} else {
			t.fail(e, "field through pointer to %s", recv)
		}
	}
	named, _ := recv.(*types.Named)
	if named == nil {
		t.fail(e, "field of unnamed struct")
	}
	sname := named.Obj().Name()
	if sname == "RawSuite" {
		if e.Sel.Name == "SuiteConfig" {
			return x // RawSuite is its embedded SuiteConfig
		}
		sname = "SuiteConfig"
	}
	if sname == "URL" && named.Obj().Pkg() != nil && named.Obj().Pkg().Path() == "net/url" {
		for _, f := range urlFields {
			pf := strings.Split(f, ":")
			if pf[0] == e.Sel.Name && pf[0] != "User" {
				return "(" + pf[1] + " " + x + ")"
			}
		}
		t.fail(e, "field %s of url.URL", e.Sel.Name)
	}
	if _, ok := fieldProj[sname]; !ok {
		t.fail(e, "field of %s", sname)
	}
	return "(" + t.proj(e, sname, e.Sel.Name) + " " + x + ")"
}

func (fc *fctx) composite(e *ast.CompositeLit) string {
	t := fc.t
	ty := fc.typeOf(e)
	if len(e.Elts) == 0 {
		return t.zero(e, ty)
	}
	if fc.kind(e) == kDetails {
		return "tt"
	}
	if ln, st := t.localStruct(ty); ln != nil {
		vals := map[string]string{}
		for _, el := range e.Elts {
			kv, ok := el.(*ast.KeyValueExpr)
			if !ok {
				t.fail(e, "positional struct literal")
			}
			vals[kv.Key.(*ast.Ident).Name] = fc.expr(kv.Value)
		}
		var parts []string
		for i := 0; i < st.NumFields(); i++ {
			if v, ok := vals[st.Field(i).Name()]; ok {
				parts = append(parts, v)
			} else {
				parts = append(parts, t.zero(e, st.Field(i).Type()))
			}
		}
		return "(mk_" + ln.Obj().Name() + " " + strings.Join(parts, " ") + ")"
	}
	if named, ok := ty.(*types.Named); ok {
		ctor := map[string]string{"Param": "mkParam", "SuiteConfig": "mkSuite", "OCRAInput": "mkInput"}[named.Obj().Name()]
		st, isSt := named.Underlying().(*types.Struct)
		if ctor != "" && isSt && named.Obj().Pkg() != nil && named.Obj().Pkg().Path() == libPath {
			vals := map[string]string{}
			for _, el := range e.Elts {
				kv, ok := el.(*ast.KeyValueExpr)
				if !ok {
					t.fail(e, "positional struct literal")
				}
				vals[kv.Key.(*ast.Ident).Name] = fc.expr(kv.Value)
			}
			var parts []string
			for _, f := range fieldProj[named.Obj().Name()] {
				name := strings.Split(f, ":")[0]
				if v, ok := vals[name]; ok {
					parts = append(parts, v)
					delete(vals, name)
					continue
				}
				for i := 0; i < st.NumFields(); i++ {
					if st.Field(i).Name() == name {
						parts = append(parts, t.zero(e, st.Field(i).Type()))
					}
				}
			}
			if len(vals) != 0 {
				t.fail(e, "%s literal with a field the model does not have", named.Obj().Name())
			}
			return "(" + ctor + " " + strings.Join(parts, " ") + ")"
		}
	}
	if fc.kind(e) == kPairs {
		var items []string
		for _, el := range e.Elts {
			kv, ok := el.(*ast.KeyValueExpr)
			if !ok {
				t.fail(e, "map literal element")
			}
			items = append(items, "("+fc.expr(kv.Key)+", "+fc.expr(kv.Value)+")")
		}
		return "[" + strings.Join(items, "; ") + "]"
	}
	if named, ok := ty.(*types.Named); ok && (named.Obj().Name() == "URLParam" || named.Obj().Name() == "URL") {
		vals := map[string]string{}
		for _, el := range e.Elts {
			kv, ok := el.(*ast.KeyValueExpr)
			if !ok {
				t.fail(e, "positional struct literal")
			}
			vals[kv.Key.(*ast.Ident).Name] = fc.expr(kv.Value)
		}
		var parts []string
		if named.Obj().Name() == "URLParam" {
			st := named.Underlying().(*types.Struct)
			for _, f := range fieldProj["URLParam"] {
				name := strings.Split(f, ":")[0]
				if v, ok := vals[name]; ok {
					parts = append(parts, v)
					delete(vals, name)
				} else {
					for i := 0; i < st.NumFields(); i++ {
						if st.Field(i).Name() == name {
							parts = append(parts, t.zero(e, st.Field(i).Type()))
						}
					}
				}
			}
			if len(vals) != 0 {
				t.fail(e, "URLParam literal with a field the model does not have")
			}
			return "(mkUrlParam " + strings.Join(parts, " ") + ")"
		}
		for _, f := range urlFields {
			pf := strings.Split(f, ":")
			if v, ok := vals[pf[0]]; ok {
				parts = append(parts, v)
				delete(vals, pf[0])
			} else {
				parts = append(parts, pf[2])
			}
		}
		if len(vals) != 0 {
			t.fail(e, "url.URL literal with a field the model does not have")
		}
		return "(mkUrl " + strings.Join(parts, " ") + ")"
	}
	if named, ok := ty.(*types.Named); ok && named.Obj().Name() == "RawSuite" && len(e.Elts) == 1 {
		if kv, ok := e.Elts[0].(*ast.KeyValueExpr); ok {
			return fc.expr(kv.Value)
		}
	}
	t.fail(e, "composite literal of %s", ty)
	return ""
}

func (fc *fctx) funcLit(e *ast.FuncLit) string {
	if e.Type.Params != nil && len(e.Type.Params.List) != 0 {
		fc.t.fail(e, "function literal with parameters")
	}
	sig := fc.typeOf(e).(*types.Signature)
	sub := *fc
	sub.pre = nil
	sub.resT = fc.t.tupleType(e, sig.Results())
	sub.sig = sig
	body := sub.block(e.Body.List, konts{next: "Pnc"})
	fc.ntmp, fc.needsFuel = sub.ntmp, fc.needsFuel || sub.needsFuel
	fc.loops = sub.loops
	for p := range sub.pools {
		fc.pools[p] = true
	}
	return "(fun _ : unit => " + body + ")"
}
