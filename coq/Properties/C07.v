(** C07 — every spelling of a base32 secret decodes to exactly the same key bytes. *)
From Coq Require Import String.
From OtpV Require Import Prelude Sha Rfc4648 Decoder Derive Otp Ocra Errors Base32Proofs.
Open Scope N_scope.

(** [spelling bs s]: s = white space ++ core ++ white space, where upper-casing [core] gives the
    RFC 4648 text of [bs] followed by k '=' with 0 <= k <= canonical padding (unpadded,
    partially padded, canonical), i.e. any letter case of any padding amount *)
Theorem C07_roundtrip : forall bs s, wfb bs -> spelling bs s -> decode_secret s = Ok bs.
Proof. exact decode_secret_roundtrip. Qed.
Print Assumptions C07_roundtrip.

(** the decoder's packing of 8 quintets is the regrouping of the same 40 bits into 5 octets *)
Theorem C07_canonical : forall bs, wfb bs -> b32_decode_string (b32_padded bs) = (bs, None).
Proof. exact b32_decode_canonical. Qed.
Print Assumptions C07_canonical.

(** hence every generation and validation entry point sees the same key for all spellings *)
Theorem C07_entrypoints : forall bs s1 s2, wfb bs -> spelling bs s1 -> spelling bs s2 ->
  (forall c p, generate_hotp s1 c p = generate_hotp s2 c p) /\
  (forall code c p, validate_hotp s1 code c p = validate_hotp s2 code c p) /\
  (forall t p, generate_totp s1 t p = generate_totp s2 t p) /\
  (forall code t p, validate_totp s1 code t p = validate_totp s2 code t p) /\
  (forall cfg i, generate_ocra s1 cfg i = generate_ocra s2 cfg i) /\
  (forall code cfg i, validate_ocra s1 code cfg i = validate_ocra s2 code cfg i).
Proof.
  intros bs s1 s2 Hwf H1 H2.
  pose proof (decode_secret_roundtrip bs s1 Hwf H1) as E1.
  pose proof (decode_secret_roundtrip bs s2 Hwf H2) as E2.
  unfold generate_hotp, validate_hotp, generate_totp, validate_totp, generate_ocra, validate_ocra,
         generate_hotp_with, validate_hotp_with, generate_totp_with, validate_totp_with,
         generate_ocra_with, validate_ocra_with.
  rewrite E1, E2. repeat split.
Qed.
Print Assumptions C07_entrypoints.

(** text containing a character outside A-Z a-z 2-7 = (after trimming) is rejected *)
Theorem C07_reject_char : forall s,
  Exists (fun c => in_alphabet_ci c = false) (trim_space s) -> exists e, decode_secret s = Err e.
Proof. exact decode_secret_reject_char. Qed.
Print Assumptions C07_reject_char.

Theorem C07_accepts_only_alphabet : forall s bs,
  decode_secret s = Ok bs -> Forall (fun c => in_alphabet_ci c = true) (trim_space s).
Proof. exact decode_secret_accepts_alphabet. Qed.
Print Assumptions C07_accepts_only_alphabet.

(** text of an impossible length — 1, 3 or 6 data characters modulo 8 — is rejected *)
Theorem C07_reject_length : forall s,
  Forall data_char (trim_space s) -> In (length (trim_space s) mod 8)%nat [1; 3; 6]%nat ->
  exists e, decode_secret s = Err e.
Proof. exact decode_secret_reject_length. Qed.
Print Assumptions C07_reject_length.

(** non-vacuity: RFC 4648 test vectors in several spellings; the rejected classes, including
    padding in the middle and the two texts the pinned tree accepted *)
Example C07_vectors :
  decode_secret (s2b "MZXW6YTBOI======"%string) = Ok (s2b "foobar"%string) /\
  decode_secret (s2b "  mzxw6ytboi"%string ++ [10]) = Ok (s2b "foobar"%string) /\
  decode_secret (s2b "MzXw6yTbOi=="%string) = Ok (s2b "foobar"%string) /\
  spelling (s2b "foobar"%string) (s2b "  mzxw6ytboi=="%string ++ [9; 10]) /\
  is_err (decode_secret (s2b "MZXW6===MZXW6==="%string)) = true /\
  is_err (decode_secret (s2b "MZXW6YTBO"%string)) = true /\
  is_err (decode_secret (s2b "MZXW6YT1"%string)) = true /\
  is_err (decode_secret [197; 191; 197; 191; 197; 191; 197; 191; 197; 191; 197; 191; 197; 191; 197; 191]) = true /\
  is_err (decode_secret (s2b "MZXW6"%string ++ [10] ++ s2b "YTB"%string)) = true.
Proof.
  repeat split; try (vm_compute; reflexivity).
  exists (s2b "  "%string), (s2b "mzxw6ytboi=="%string), [9; 10], 2%nat.
  vm_compute. repeat split; repeat constructor.
Qed.
