(** Side conditions under which the functions translated from the Go source are run (enough fuel for
    every loop; Go-sized slices; the pooled counter buffer has its 8 bytes, whatever they are), and the
    decoder seen from the source side. *)
From Coq Require Import ZifyN ZifyNat ZifyBool.
From OtpV Require Import Prelude Sha GoSem Errors Decoder Derive Otp Ocra Suite LeakProofs SrcLift.
Open Scope N_scope.

Definition runs (fuel : nat) (junk secret : bytes) : Prop :=
  (22 <= fuel)%nat /\ (length secret < fuel)%nat /\ small secret /\ length junk = 8%nat.

Lemma lift_v_true o : lift_v o = Val (true, None) <-> fst o = Ok (true, None).
Proof.
  unfold lift_v. destruct (fst o) as [[b e]|e|]; split; intros H; try discriminate; inversion H; reflexivity.
Qed.

Definition returns {A} (r : res A) : Prop := exists a, r = Val a.

Lemma lift_oc_returns o : o <> Panic -> returns (lift_oc o).
Proof. intros H. destruct o as [a|e|]; [eexists; reflexivity|eexists; reflexivity|congruence]. Qed.
Lemma lift_v_returns o : fst o <> Panic -> returns (lift_v o).
Proof. intros H. unfold lift_v. destruct (fst o) as [a|e|]; [eexists; reflexivity|eexists; reflexivity|congruence]. Qed.


Definition verdict_ok (r : res (bool * option err)) : Prop :=
  r = Val (true, None) \/ exists e, r = Val (false, Some e) /\ textless e.

Lemma lift_v_verdict o : (exists k, o = (Ok (true, None), k) \/ exists e, o = (Ok (false, Some e), k)) ->
  (forall e k, o = (Ok (false, Some e), k) -> textless e) -> verdict_ok (lift_v o).
Proof.
  intros [k [H|[e H]]] Ht; subst o; [left; reflexivity|right]. exists e. split; [reflexivity|]. eapply Ht. reflexivity.
Qed.


(** strings.ToUpper on ASCII text is the byte-wise ASCII upper-casing *)
Lemma to_upper_u_ascii s : Forall (fun c => c < 128) s -> to_upper_u s = to_upper s.
Proof.
  induction s as [|c t IH]; intros H; [reflexivity|].
  apply Forall_cons_iff in H. destruct H as [Hc Ht]. specialize (IH Ht).
  unfold to_upper. cbn [map]. fold (to_upper t). rewrite <- IH.
  destruct t as [|d t'].
  - destruct c as [|p]; [reflexivity|]. do 8 (destruct p as [p|p|]; try reflexivity; try lia).
  - destruct c as [|p]; [reflexivity|]. do 8 (destruct p as [p|p|]; try reflexivity; try lia).
Qed.

