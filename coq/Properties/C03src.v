(** C03 over the Go source (Generated/Src.v: ValidateHOTP, validateRFC4226, validate as translated from
    hotp.go / validate.go). *)
From Coq Require Import String.
From OtpV Require Import Prelude Sha GoSem Tables Decoder Derive Otp Rfc4226 Errors Src SrcLift SrcTop SrcEqDecode SrcEqValidate SrcEqHotp C03.
Open Scope N_scope.

Theorem C03src_iff : forall fuel junk secret key code c d per s a,
  runs fuel junk secret -> Src.DecodeSecret fuel secret = Val (key, None) -> 1 <= d <= 10 -> s <= 10 -> c + s < 2 ^ 64 ->
  (Src.ValidateHOTP fuel junk secret code c (Some (mkParam d per s (N_of_alg a))) = Val (true, None)
   <-> exists c', c - s <= c' <= c + s /\ code = hotp_value hmac a key c' (N.to_nat d)).
Proof.
  intros fuel junk secret key code c d per s a (Hf & Hfs & Hs & Hj) Hk Hd Hsk Hc.
  apply src_decode_ok in Hk; [|assumption|assumption].
  rewrite src_ValidateHOTP_eq by (assumption || lia). rewrite lift_v_true.
  apply (C03_iff secret key); assumption.
Qed.
Print Assumptions C03src_iff.

Theorem C03src_refuse : forall fuel junk secret code c d per s algo, runs fuel junk secret -> 10 < s ->
  Src.ValidateHOTP fuel junk secret code c (Some (mkParam d per s algo)) = Val (false, Some (ESent ErrInvalidSkew)).
Proof.
  intros fuel junk secret code c d per s algo (Hf & Hfs & Hs & Hj) Hsk.
  rewrite src_ValidateHOTP_eq by (assumption || lia). rewrite C03_refuse by exact Hsk. reflexivity.
Qed.
Print Assumptions C03src_refuse.

Theorem C03src_nil_param : forall fuel junk secret code c, runs fuel junk secret ->
  Src.ValidateHOTP fuel junk secret code c None = Src.ValidateHOTP fuel junk secret code c (Some (mkParam 6 0 2 0)).
Proof.
  intros fuel junk secret code c (Hf & Hfs & Hs & Hj).
  rewrite !src_ValidateHOTP_eq by (assumption || lia). rewrite C03_nil_param. reflexivity.
Qed.
Print Assumptions C03src_nil_param.

(** the verdict is (true, nil) or (false, error): never (true, error), (false, nil), a panic, or a loop that
    outlives 22 units of fuel *)
Theorem C03src_verdict : forall fuel junk secret code c p, runs fuel junk secret ->
  Src.ValidateHOTP fuel junk secret code c p = Val (true, None)
  \/ exists e, Src.ValidateHOTP fuel junk secret code c p = Val (false, Some e).
Proof.
  intros fuel junk secret code c p (Hf & Hfs & Hs & Hj).
  rewrite src_ValidateHOTP_eq by (assumption || lia).
  destruct (C03_verdict secret code c p) as [k [H|[e H]]]; rewrite H; [left|right; exists e]; reflexivity.
Qed.
Print Assumptions C03src_verdict.

Example C03src_high_counter :
  let secret := s2b "GEZDGNBVGY3TQOJQGEZDGNBVGY3TQOJQ"%string in
  let c := 9223372036854775813 in
  forall code4, Src.GenerateHOTP 40 (repeat 1 8) secret (c - 1) None = Val (code4, None) ->
  Src.ValidateHOTP 40 (repeat 2 8) secret code4 c (Some (mkParam 6 0 1 0)) = Val (true, None).
Proof. vm_compute. intros code4 H4. inversion H4; subst. reflexivity. Qed.
