(** RFC 4226 (HOTP) as a user reads it: HMAC of the 8-byte big-endian counter, dynamic
    truncation to a 31-bit number, reduction modulo 10^digits, left padding with '0'.
    Written with arithmetic (div / mod / powers), not with the shifts, masks, tables and
    loops of the implementation. *)
From OtpV Require Import Prelude Sha.
Open Scope N_scope.

(** 8-byte big-endian representation of a counter (< 2^64) *)
Definition be64 (c : N) : bytes :=
  map (fun i => (c / 256 ^ N.of_nat i) mod 256) [7; 6; 5; 4; 3; 2; 1; 0]%nat.

(** value of a big-endian byte string *)
Definition of_be (l : bytes) : N := fold_left (fun acc b => acc * 256 + b) l 0.

(** RFC 4226 5.3 dynamic truncation: offset = low 4 bits of the last byte, the 4 bytes at
    that offset as a big-endian number, top bit dropped *)
Definition dt31 (h : bytes) : N :=
  let off := N.to_nat (last h 0 mod 16) in
  let b i := nth (off + i) h 0 in
  (b 0%nat * 2 ^ 24 + b 1%nat * 2 ^ 16 + b 2%nat * 2 ^ 8 + b 3%nat) mod 2 ^ 31.

(** decimal representation of [n mod 10^d], exactly [d] characters, '0'-padded on the left *)
Fixpoint pad_dec (d : nat) (n : N) : bytes :=
  match d with
  | O => []
  | S d' => pad_dec d' (n / 10) ++ [48 + n mod 10]
  end.

(** the relational reading of "the decimal code": exactly [d] ASCII digits whose value is [n] *)
Definition is_digit (c : N) : Prop := 48 <= c <= 57.
Definition dec_value (s : bytes) : N := fold_left (fun acc c => acc * 10 + (c - 48)) s 0.
Definition is_code (d : nat) (n : N) (s : bytes) : Prop :=
  length s = d /\ Forall is_digit s /\ dec_value s = n.

Section WithHmac.
  Variable hm : alg -> bytes -> bytes -> bytes.
  (** the HOTP value for key, counter, digits, hash *)
  Definition hotp_number (a : alg) (key : bytes) (c : N) (d : nat) : N :=
    dt31 (hm a key (be64 c)) mod 10 ^ N.of_nat d.
  Definition hotp_value (a : alg) (key : bytes) (c : N) (d : nat) : bytes :=
    pad_dec d (hotp_number a key c d).
End WithHmac.
