package main

// run2: operations added after the first batch (utils, suites, urls, random) — see exec_more.go
func run2(f []string) (string, bool) { return "", false }
