(** C01 over the Go source: the theorems of C01.v restated for the definition that tools/gen_model
    translates from hotp.go / derive_rfc4226.go / derive.go / decoder.go on every run (Generated/Src.v). *)
From Coq Require Import String.
From OtpV Require Import Prelude Sha GoSem Decoder Derive Otp Rfc4226 Errors Src SrcLift SrcTop SrcEqDecode SrcEqValidate SrcEqHotp C01.
Open Scope N_scope.

Theorem C01src_value : forall fuel junk secret key c d per sk a,
  runs fuel junk secret -> Src.DecodeSecret fuel secret = Val (key, None) -> 1 <= d <= 10 ->
  Src.GenerateHOTP fuel junk secret c (Some (mkParam d per sk (N_of_alg a)))
  = Val (hotp_value hmac a key c (N.to_nat d), None).
Proof.
  intros fuel junk secret key c d per sk a (Hf & Hfs & Hs & Hj) Hk Hd.
  apply src_decode_ok in Hk; [|assumption|assumption].
  rewrite src_GenerateHOTP_eq by (assumption || lia). rewrite (C01_value _ key) by assumption. reflexivity.
Qed.
Print Assumptions C01src_value.

Theorem C01src_unsupported : forall fuel junk secret key c d per sk algo,
  runs fuel junk secret -> Src.DecodeSecret fuel secret = Val (key, None) -> d < 256 -> algo < 256 ->
  (d = 0 \/ 10 < d \/ 3 <= algo) ->
  exists e, Src.GenerateHOTP fuel junk secret c (Some (mkParam d per sk algo)) = Val ([], Some e).
Proof.
  intros fuel junk secret key c d per sk algo (Hf & Hfs & Hs & Hj) Hk Hd Ha Hbad.
  apply src_decode_ok in Hk; [|assumption|assumption].
  destruct (C01_unsupported secret key c d per sk algo Hk Hd Ha Hbad) as [e He].
  exists e. rewrite src_GenerateHOTP_eq by (assumption || lia). rewrite He. reflexivity.
Qed.
Print Assumptions C01src_unsupported.

Theorem C01src_nil_param : forall fuel junk secret c, runs fuel junk secret ->
  Src.GenerateHOTP fuel junk secret c None = Src.GenerateHOTP fuel junk secret c (Some (mkParam 6 0 2 0)).
Proof.
  intros fuel junk secret c (Hf & Hfs & Hs & Hj).
  rewrite !src_GenerateHOTP_eq by (assumption || lia). rewrite C01_nil_param. reflexivity.
Qed.
Print Assumptions C01src_nil_param.

(** the result does not depend on what the pooled counter buffer held *)
Theorem C01src_pool_independent : forall fuel junk junk' secret c p,
  runs fuel junk secret -> length junk' = 8%nat ->
  Src.GenerateHOTP fuel junk secret c p = Src.GenerateHOTP fuel junk' secret c p.
Proof.
  intros fuel junk junk' secret c p (Hf & Hfs & Hs & Hj) Hj'.
  rewrite !src_GenerateHOTP_eq by (assumption || lia). reflexivity.
Qed.
Print Assumptions C01src_pool_independent.

(** the modulus table read from derive.go by this translator holds the powers of ten *)
Theorem C01src_mod10_table : forall d, (1 <= d <= 10)%nat -> nth_error Src.g_mod10 d = Some (10 ^ N.of_nat d).
Proof. exact C01_mod10_table. Qed.
Print Assumptions C01src_mod10_table.

Example C01src_rfc_vector :
  Src.GenerateHOTP 40 (repeat 255 8) (s2b "GEZDGNBVGY3TQOJQGEZDGNBVGY3TQOJQ"%string) 0 None = Val (s2b "755224"%string, None) /\
  Src.GenerateHOTP 40 (repeat 0 8) (s2b "GEZDGNBVGY3TQOJQGEZDGNBVGY3TQOJQ"%string) 0 (Some (mkParam 10 0 0 0)) = Val (s2b "1284755224"%string, None) /\
  runs 40 (repeat 255 8) (s2b "GEZDGNBVGY3TQOJQGEZDGNBVGY3TQOJQ"%string).
Proof.
  split; [vm_compute; reflexivity|]. split; [vm_compute; reflexivity|].
  unfold runs, small, zlen. cbn. repeat split; lia.
Qed.
