(** Proofs about the suite registry and the suite-string parser (C15). *)
From Coq Require Import String ZifyN ZifyNat ZifyBool.
From OtpV Require Import Prelude Sha Tables Registry Errors Decoder Derive Otp Ocra Utils Suite Rfc4226 SuiteName OcraProofs UtilsProofs.
Open Scope N_scope.
Ltac Zify.zify_post_hook ::= Z.to_euclidean_division_equations.

(** ---------- strings.Split ---------- *)
Lemma split_aux_nosep sep s cur : Forall (fun c => c <> sep) s -> split_aux sep s cur = [rev cur ++ s].
Proof.
  revert cur. induction s as [|c t IH]; intros cur H; cbn [split_aux]; rewrite ?frev_rev.
  - rewrite app_nil_r. reflexivity.
  - apply Forall_cons_iff in H. destruct H as [Hc Ht].
    destruct (N.eqb_spec c sep); [contradiction|].
    rewrite IH by exact Ht. cbn [rev]. rewrite <- app_assoc. reflexivity.
Qed.

Lemma split_aux_app sep a b cur :
  Forall (fun c => c <> sep) a -> split_aux sep (a ++ sep :: b) cur = (rev cur ++ a) :: split_aux sep b [].
Proof.
  revert cur. induction a as [|c t IH]; intros cur H; cbn [split_aux app]; rewrite ?frev_rev.
  - rewrite N.eqb_refl, app_nil_r. reflexivity.
  - apply Forall_cons_iff in H. destruct H as [Hc Ht].
    destruct (N.eqb_spec c sep); [contradiction|].
    rewrite IH by exact Ht. cbn [rev]. rewrite <- app_assoc. reflexivity.
Qed.

Lemma split_nosep sep s : Forall (fun c => c <> sep) s -> split sep s = [s].
Proof. intros H. unfold split. rewrite split_aux_nosep by exact H. reflexivity. Qed.

Lemma split_app sep a b : Forall (fun c => c <> sep) a -> split sep (a ++ sep :: b) = a :: split sep b.
Proof. intros H. unfold split. rewrite split_aux_app by exact H. reflexivity. Qed.

Lemma split_join sep l :
  l <> [] -> Forall (fun t => Forall (fun c => c <> sep) t) l -> split sep (join sep l) = l.
Proof.
  induction l as [|x t IH]; intros Hne H; [congruence|].
  apply Forall_cons_iff in H. destruct H as [Hx Ht].
  destruct t as [|y t'].
  - cbn [join]. apply split_nosep. exact Hx.
  - change (join sep (x :: y :: t')) with (x ++ sep :: join sep (y :: t')).
    rewrite split_app by exact Hx. f_equal. apply IH; [discriminate|exact Ht].
Qed.

Lemma split_length_ge1 sep s cur : (1 <= length (split_aux sep s cur))%nat.
Proof. revert cur. induction s as [|c t IH]; intros cur; cbn [split_aux]; [simpl; lia|]. destruct (c =? sep); [simpl; lia|apply IH]. Qed.

(** number of parts = number of separators + 1 *)
Lemma split_aux_length sep s cur : length (split_aux sep s cur) = S (length (filter (fun c => c =? sep) s)).
Proof.
  revert cur. induction s as [|c t IH]; intros cur; cbn [split_aux filter]; [reflexivity|].
  destruct (c =? sep); cbn [length]; rewrite IH; reflexivity.
Qed.
Lemma split_length sep s : length (split sep s) = S (length (filter (fun c => c =? sep) s)).
Proof. apply split_aux_length. Qed.

(** ---------- ToUpper on text that is already upper case ---------- *)
Definition upper_safe (c : N) : Prop := c < 97.
Lemma to_upper_u_safe s : Forall upper_safe s -> to_upper_u s = s.
Proof.
  induction s as [|c t IH]; intros H; [reflexivity|].
  apply Forall_cons_iff in H. destruct H as [Hc Ht]. unfold upper_safe in Hc.
  specialize (IH Ht).
  assert (upper_ascii c = c) as Hu.
  { unfold upper_ascii. destruct ((97 <=? c) && (c <=? 122)) eqn:E; [lia|reflexivity]. }
  destruct t as [|d t'].
  - cbn [to_upper_u]. destruct c as [|p]; [reflexivity|].
    do 8 (destruct p as [p|p|]; try (cbn; rewrite ?Hu; reflexivity); try lia).
  - assert (c <> 197 /\ c <> 196) as [H1 H2] by lia.
    transitivity (upper_ascii c :: to_upper_u (d :: t')); [|rewrite Hu, IH; reflexivity].
    destruct c as [|p]; [reflexivity|].
    do 8 (destruct p as [p|p|]; try reflexivity; try lia).
Qed.

(** ---------- decimal numerals: FormatUint / Atoi ---------- *)
Definition digits_only (s : bytes) : Prop := Forall (fun c => 48 <= c <= 57) s.

Lemma dec_val_snoc s d : dec_val (s ++ [d]) = dec_val s * 10 + (d - 48).
Proof. unfold dec_val. rewrite fold_left_app. reflexivity. Qed.

Lemma dec_digits_fuel_spec fuel : forall n acc,
  n < 2 ^ N.of_nat fuel -> (1 <= fuel)%nat ->
  exists ds, dec_digits_fuel fuel n acc = ds ++ acc /\ ds <> [] /\ digits_only ds /\ dec_val ds = n.
Proof.
  induction fuel as [|f IH]; intros n acc Hn Hf; [lia|].
  cbn [dec_digits_fuel].
  destruct (N.eqb_spec (n / 10) 0) as [E|E].
  - exists [48 + n mod 10]. repeat split.
    + discriminate.
    + constructor; [lia|constructor].
    + unfold dec_val. cbn [fold_left]. lia.
  - assert (n / 10 < 2 ^ N.of_nat f) as Hlt.
    { rewrite Nat2N.inj_succ, N.pow_succ_r' in Hn. lia. }
    assert (1 <= f)%nat as Hf1.
    { destruct f; [|lia]. cbn in Hlt. lia. }
    destruct (IH (n / 10) ((48 + n mod 10) :: acc) Hlt Hf1) as [ds [E1 [E2 [E3 E4]]]].
    exists (ds ++ [48 + n mod 10]). repeat split.
    + rewrite E1, <- app_assoc. reflexivity.
    + destruct ds; discriminate.
    + apply Forall_app. split; [exact E3|constructor; [lia|constructor]].
    + rewrite dec_val_snoc, E4. lia.
Qed.

Lemma dec_of_N_spec n : dec_of_N n <> [] /\ digits_only (dec_of_N n) /\ dec_val (dec_of_N n) = n.
Proof.
  unfold dec_of_N.
  destruct (dec_digits_fuel_spec (S (N.to_nat (N.log2 n))) n []) as [ds [E1 [E2 [E3 E4]]]].
  - rewrite Nat2N.inj_succ, N2Nat.id. destruct n as [|p]; [cbn; lia|].
    apply N.log2_spec. lia.
  - lia.
  - rewrite E1, app_nil_r. auto.
Qed.

Lemma digits_only_forallb s : digits_only s -> forallb is_dec_digit s = true.
Proof.
  intros H. apply forallb_forall. intros x Hx. unfold digits_only in H. rewrite Forall_forall in H.
  specialize (H x Hx). unfold is_dec_digit. lia.
Qed.

Lemma atoi_unsigned c t : c <> 45 -> c <> 43 ->
  atoi (c :: t) = if forallb is_dec_digit (c :: t) then
                    (if dec_val (c :: t) <? two63 then Some (Z.of_N (dec_val (c :: t))) else None)
                  else None.
Proof.
  intros H1 H2. unfold atoi.
  destruct c as [|p]; [reflexivity|].
  do 6 (destruct p as [p|p|]; try reflexivity); congruence.
Qed.

Lemma atoi_digits s : s <> [] -> digits_only s ->
  atoi s = if dec_val s <? two63 then Some (Z.of_N (dec_val s)) else None.
Proof.
  intros Hne Hd. destruct s as [|c t]; [congruence|].
  pose proof (digits_only_forallb _ Hd) as Hall.
  unfold digits_only in Hd. apply Forall_cons_iff in Hd. destruct Hd as [Hc _].
  rewrite atoi_unsigned by lia. rewrite Hall. reflexivity.
Qed.

Lemma atoi_dec_of_N n : atoi (dec_of_N n) = if n <? two63 then Some (Z.of_N n) else None.
Proof.
  destruct (dec_of_N_spec n) as [H1 [H2 H3]]. rewrite atoi_digits by assumption. rewrite H3. reflexivity.
Qed.

Lemma digits_no_sep sep s : digits_only s -> (sep < 48 \/ 57 < sep) -> Forall (fun c => c <> sep) s.
Proof.
  intros H Hs. unfold digits_only in H. rewrite Forall_forall in *. intros x Hx. specialize (H x Hx). lia.
Qed.
Lemma digits_upper_safe s : digits_only s -> Forall upper_safe s.
Proof. unfold digits_only, upper_safe. intros H. rewrite Forall_forall in *. intros x Hx. specialize (H x Hx). lia. Qed.

(** ---------- the parser on printed names ---------- *)
Ltac norm_s2b := repeat match goal with |- context [s2b ?s] => let v := eval vm_compute in (s2b s) in change (s2b s) with v end.

Lemma alg_name_safe h : Forall upper_safe (alg_name h) /\ Forall (fun c => c <> 45) (alg_name h) /\ Forall (fun c => c <> 58) (alg_name h).
Proof. destruct h; vm_compute; repeat split; repeat constructor; try discriminate. Qed.

Lemma parse_crypto_print raw h d :
  parse_crypto raw (s2b "HOTP-" ++ alg_name h ++ [45] ++ dec_of_N d)
  = if d <? two63 then Ok (d_hash h, Z.of_N d) else Err (EFmt T_suite_digits [] [dec_of_N d]).
Proof.
  destruct (dec_of_N_spec d) as [Hne [Hd Hv]].
  unfold parse_crypto.
  rewrite to_upper_u_safe.
  2:{ apply Forall_app; split; [norm_s2b; repeat constructor|].
      apply Forall_app; split; [apply alg_name_safe|]. apply Forall_app; split; [repeat constructor|apply digits_upper_safe; exact Hd]. }
  assert (is_prefix S_HOTP_SHA (s2b "HOTP-" ++ alg_name h ++ [45] ++ dec_of_N d) = true) as Hp by (destruct h; reflexivity).
  rewrite Hp. cbn [negb].
  replace (Nat.ltb (length (s2b "HOTP-" ++ alg_name h ++ [45] ++ dec_of_N d)) 5) with false
    by (symmetry; apply Nat.ltb_ge; rewrite app_length; norm_s2b; cbn [length]; lia).
  replace (skipn 5 (s2b "HOTP-" ++ alg_name h ++ [45] ++ dec_of_N d)) with (alg_name h ++ 45 :: dec_of_N d) by reflexivity.
  rewrite split_app by apply alg_name_safe.
  rewrite split_nosep by (apply digits_no_sep; [exact Hd|lia]).
  rewrite to_upper_u_safe by apply alg_name_safe.
  rewrite atoi_dec_of_N.
  destruct h; destruct (d <? two63); reflexivity.
Qed.

Definition set_c (cfg : suite_cfg) := mkSuite (sc_raw cfg) (sc_hash cfg) (sc_digits cfg) (sc_challenge cfg) true (sc_q cfg) (sc_p cfg) (sc_s cfg) (sc_t cfg) (sc_pwhash cfg) (sc_timestep cfg).
Definition set_q (cfg : suite_cfg) (ch : Z) := mkSuite (sc_raw cfg) (sc_hash cfg) (sc_digits cfg) ch (sc_c cfg) true (sc_p cfg) (sc_s cfg) (sc_t cfg) (sc_pwhash cfg) (sc_timestep cfg).
Definition set_p (cfg : suite_cfg) (pw : Z) := mkSuite (sc_raw cfg) (sc_hash cfg) (sc_digits cfg) (sc_challenge cfg) (sc_c cfg) (sc_q cfg) true (sc_s cfg) (sc_t cfg) pw (sc_timestep cfg).
Definition set_s (cfg : suite_cfg) := mkSuite (sc_raw cfg) (sc_hash cfg) (sc_digits cfg) (sc_challenge cfg) (sc_c cfg) (sc_q cfg) (sc_p cfg) true (sc_t cfg) (sc_pwhash cfg) (sc_timestep cfg).
Definition set_t (cfg : suite_cfg) (secs : Z) := mkSuite (sc_raw cfg) (sc_hash cfg) (sc_digits cfg) (sc_challenge cfg) (sc_c cfg) (sc_q cfg) (sc_p cfg) (sc_s cfg) true (sc_pwhash cfg) secs.

Lemma tok_C cfg : parse_token cfg (s2b "C") = Ok (set_c cfg).
Proof. reflexivity. Qed.

(** the parser records a format for numeric questions only *)
Definition parsed_challenge (cfg : suite_cfg) (q : qkind * bool) : Z :=
  match q with (QNum, false) => 1%Z | (QNum, true) => 2%Z | _ => sc_challenge cfg end.
Lemma tok_Q cfg q : parse_token cfg (q_token q) = Ok (set_q cfg (parsed_challenge cfg q)).
Proof. destruct q as [[| |] []]; reflexivity. Qed.

Lemma tok_P cfg h : parse_token cfg (s2b "P" ++ alg_name h) = Ok (set_p cfg (d_pwhash (Some h))).
Proof. destruct h; reflexivity. Qed.

Lemma pad_dec_digits k n : digits_only (pad_dec k n) /\ length (pad_dec k n) = k.
Proof.
  revert n. induction k as [|k IH]; intros n; cbn [pad_dec]; [split; [constructor|reflexivity]|].
  destruct (IH (n / 10)) as [H1 H2]. split.
  - apply Forall_app. split; [exact H1|constructor; [lia|constructor]].
  - rewrite app_length, H2. simpl. lia.
Qed.

Lemma tok_S cfg (s : option N) :
  parse_token cfg (match s with None => s2b "S" | Some n => s2b "S" ++ pad_dec 3 n end) = Ok (set_s cfg).
Proof.
  destruct s as [n|]; [|reflexivity].
  unfold parse_token. rewrite to_upper_u_safe.
  2:{ apply Forall_app; split; [norm_s2b; repeat constructor|apply digits_upper_safe, pad_dec_digits]. }
  reflexivity.
Qed.

Lemma firstn_app_exact {A} (a b : list A) : firstn (length a) (a ++ b) = a.
Proof. rewrite firstn_app, Nat.sub_diag, firstn_all. cbn [firstn]. apply app_nil_r. Qed.

Lemma mul_check v m : (0 <= v < Z.of_N two63)%Z -> (m = 1 \/ m = 60 \/ m = 3600)%Z ->
  (Z.quot (mul_int v m) m =? v)%Z = (v * m <? Z.of_N two63)%Z /\ ((v * m < Z.of_N two63)%Z -> mul_int v m = (v * m)%Z).
Proof.
  intros Hv Hm. unfold mul_int, wrap_int64, to_int64, of_int64, two63, two64 in *.
  change (Z.of_N 9223372036854775808) with 9223372036854775808%Z in *.
  change (Z.of_N 18446744073709551616) with 18446744073709551616%Z in *.
  assert (forall x, (0 <= x)%Z -> Z.of_N (Z.to_N x) = x) as Hz by (intros; lia).
  split.
  - destruct (Z.ltb_spec (v * m) 9223372036854775808%Z) as [Hlt|Hge].
    + rewrite Z.mod_small by lia.
      destruct (N.ltb_spec (Z.to_N (v * m)) 9223372036854775808); [|lia].
      rewrite Hz by lia. apply Z.eqb_eq. destruct Hm as [-> | [-> | ->]]; lia.
    + apply Z.eqb_neq. intros Hq.
      destruct (N.ltb_spec (Z.to_N ((v * m) mod 18446744073709551616)) 9223372036854775808) as [Hs|Hs];
        rewrite Hz in Hq by (apply Z.mod_pos_bound; lia); destruct Hm as [-> | [-> | ->]]; lia.
  - intros Hlt. rewrite Z.mod_small by lia.
    destruct (N.ltb_spec (Z.to_N (v * m)) 9223372036854775808); [|lia]. apply Hz. lia.
Qed.

Lemma gran_ok n m : n < two63 -> (m = 1 \/ m = 60 \/ m = 3600) ->
  (Z.quot (mul_int (Z.of_N n) (Z.of_N m)) (Z.of_N m) =? Z.of_N n)%Z = (n * m <? two63) /\
  (n * m < two63 -> mul_int (Z.of_N n) (Z.of_N m) = Z.of_N (n * m)).
Proof.
  intros Hn Hm.
  destruct (mul_check (Z.of_N n) (Z.of_N m)) as [E1 E2]; [unfold two63 in *; lia|lia|].
  split.
  - rewrite E1. unfold two63. destruct (Z.ltb_spec (Z.of_N n * Z.of_N m) (Z.of_N 9223372036854775808));
      destruct (N.ltb_spec (n * m) 9223372036854775808); try reflexivity; lia.
  - intros H. rewrite E2; [lia|]. unfold two63 in *. lia.
Qed.

Definition unit_char (u : tunit) : N := match u with USec => 83 | UMin => 77 | UHour => 72 | UBare => 0 end.
Lemma tok_T cfg n u : u <> UBare ->
  parse_token cfg (s2b "T" ++ dec_of_N n ++ [unit_char u])
  = if (n * unit_seconds u <? two63) then Ok (set_t cfg (Z.of_N (n * unit_seconds u)))
    else Err (EFmt T_time_spec [] [s2b "T" ++ dec_of_N n ++ [unit_char u]]).
Proof.
  intros Hub.
  destruct (dec_of_N_spec n) as [Hne [Hd Hv]].
  unfold parse_token. rewrite to_upper_u_safe.
  2:{ apply Forall_app; split; [norm_s2b; repeat constructor|]. apply Forall_app; split; [apply digits_upper_safe; exact Hd|].
      destruct u; try congruence; repeat constructor. }
  change (s2b "T" ++ dec_of_N n ++ [unit_char u]) with (84 :: (dec_of_N n ++ [unit_char u])).
  replace (beq (84 :: dec_of_N n ++ [unit_char u]) (s2b "C")) with false by reflexivity.
  replace (is_prefix (s2b "QN") (84 :: dec_of_N n ++ [unit_char u])) with false by reflexivity.
  replace (is_prefix (s2b "QA") (84 :: dec_of_N n ++ [unit_char u])) with false by reflexivity.
  replace (is_prefix (s2b "QH") (84 :: dec_of_N n ++ [unit_char u])) with false by reflexivity.
  replace (is_prefix (s2b "PSHA") (84 :: dec_of_N n ++ [unit_char u])) with false by reflexivity.
  replace (is_prefix (s2b "T") (84 :: dec_of_N n ++ [unit_char u])) with true by reflexivity.
  cbv beta iota.
  unfold parse_time_gran.
  assert (length (dec_of_N n) <> 0)%nat as Hl by (destruct (dec_of_N n); [congruence|discriminate]).
  replace (Nat.ltb (length (dec_of_N n ++ [unit_char u])) 2) with false
    by (symmetry; apply Nat.ltb_ge; rewrite app_length; cbn [length]; lia).
  replace (length (dec_of_N n ++ [unit_char u]) - 1)%nat with (length (dec_of_N n)) by (rewrite app_length; cbn [length]; lia).
  rewrite firstn_app_exact, last_last, atoi_dec_of_N.
  destruct (N.ltb_spec n two63) as [Hn|Hn].
  - replace (if unit_char u =? 83 then 1%Z else if unit_char u =? 77 then 60%Z else if unit_char u =? 72 then 3600%Z else 0%Z)
      with (Z.of_N (unit_seconds u)) by (destruct u; try congruence; reflexivity).
    replace (Z.of_N (unit_seconds u) =? 0)%Z with false by (destruct u; reflexivity).
    cbv beta iota zeta.
    destruct (gran_ok n (unit_seconds u) Hn ltac:(destruct u; cbn; auto)) as [E1 E2].
    rewrite E1. destruct (N.ltb_spec (n * unit_seconds u) two63) as [H|H]; [rewrite E2 by exact H|]; reflexivity.
  - replace (n * unit_seconds u <? two63) with false; [reflexivity|].
    symmetry. apply N.ltb_ge. unfold two63 in *. destruct u; cbn [unit_seconds]; lia.
Qed.

(** a bare "T<n>" (no unit letter) is not something the parser accepts *)
Lemma atoi_digits_result s : digits_only s -> atoi s = None \/ exists v, atoi s = Some v.
Proof. intros _. destruct (atoi s); [right; eexists; reflexivity|left; reflexivity]. Qed.

Lemma last_digit s d : s <> [] -> digits_only s -> 48 <= last s d <= 57.
Proof.
  intros Hne H. destruct (exists_last Hne) as [l [x E]]. subst s. rewrite last_last.
  unfold digits_only in H. apply Forall_app in H. destruct H as [_ H]. apply Forall_cons_iff in H. apply H.
Qed.

Lemma tok_T_bare cfg n : parse_token cfg (s2b "T" ++ dec_of_N n) = Err (EFmt T_time_spec [] [s2b "T" ++ dec_of_N n]).
Proof.
  destruct (dec_of_N_spec n) as [Hne [Hd Hv]].
  unfold parse_token. rewrite to_upper_u_safe.
  2:{ apply Forall_app; split; [norm_s2b; repeat constructor|apply digits_upper_safe; exact Hd]. }
  change (s2b "T" ++ dec_of_N n) with (84 :: dec_of_N n).
  replace (beq (84 :: dec_of_N n) (s2b "C")) with false by reflexivity.
  replace (is_prefix (s2b "QN") (84 :: dec_of_N n)) with false by reflexivity.
  replace (is_prefix (s2b "QA") (84 :: dec_of_N n)) with false by reflexivity.
  replace (is_prefix (s2b "QH") (84 :: dec_of_N n)) with false by reflexivity.
  replace (is_prefix (s2b "PSHA") (84 :: dec_of_N n)) with false by reflexivity.
  replace (is_prefix (s2b "T") (84 :: dec_of_N n)) with true by reflexivity.
  cbv beta iota. unfold parse_time_gran.
  destruct (Nat.ltb (length (dec_of_N n)) 2); [reflexivity|].
  destruct (atoi _); [|eexists; reflexivity].
  pose proof (last_digit (dec_of_N n) 0 Hne Hd) as Hl.
  replace (last (dec_of_N n) 0 =? 83) with false by (symmetry; apply N.eqb_neq; lia).
  replace (last (dec_of_N n) 0 =? 77) with false by (symmetry; apply N.eqb_neq; lia).
  replace (last (dec_of_N n) 0 =? 72) with false by (symmetry; apply N.eqb_neq; lia).
  reflexivity.
Qed.

Lemma parse_tokens_app cfg l1 l2 :
  parse_tokens cfg (l1 ++ l2) = obind (parse_tokens cfg l1) (fun c => parse_tokens c l2).
Proof.
  revert cfg. induction l1 as [|t l IH]; intros cfg; [reflexivity|].
  cbn [app parse_tokens]. destruct (parse_token cfg t) as [c| |]; cbn [obind]; [apply IH|reflexivity|reflexivity].
Qed.

(** the configuration the token loop builds for a printed name *)
Definition after_c (a : sast) (cfg : suite_cfg) := if a_c a then set_c cfg else cfg.
Definition after_q (a : sast) (cfg : suite_cfg) := match a_q a with Some q => set_q cfg (parsed_challenge cfg q) | None => cfg end.
Definition after_p (a : sast) (cfg : suite_cfg) := match a_p a with Some h => set_p cfg (d_pwhash (Some h)) | None => cfg end.
Definition after_s (a : sast) (cfg : suite_cfg) := match a_s a with Some _ => set_s cfg | None => cfg end.
Definition lettered (u : tunit) : bool := match u with UBare => false | _ => true end.
Definition t_fits (a : sast) : bool := match a_t a with Some (n, u) => lettered u && (n * unit_seconds u <? two63) | None => true end.
Definition after_t (a : sast) (cfg : suite_cfg) := match a_t a with Some (n, u) => set_t cfg (Z.of_N (n * unit_seconds u)) | None => cfg end.

Lemma tunit_case u : u = UBare \/ u <> UBare.
Proof. destruct u; [right|right|right|left]; congruence. Qed.
Lemma unit_suffix_char u : u <> UBare -> unit_suffix u = [unit_char u].
Proof. destruct u; intros H; try reflexivity; congruence. Qed.

Lemma parse_tokens_print a cfg :
  exists e, parse_tokens cfg (tokens a)
            = if t_fits a then Ok (after_t a (after_s a (after_p a (after_q a (after_c a cfg))))) else Err e.
Proof.
  unfold tokens, after_c, after_q, after_p, after_s, after_t, t_fits.
  rewrite parse_tokens_app.
  destruct (a_c a); cbn [parse_tokens obind]; rewrite ?tok_C; cbn [obind];
  (rewrite parse_tokens_app;
   destruct (a_q a) as [q|]; cbn [parse_tokens obind]; rewrite ?tok_Q; cbn [obind];
   (rewrite parse_tokens_app;
    destruct (a_p a) as [h|]; cbn [parse_tokens obind]; rewrite ?tok_P; cbn [obind];
    (rewrite parse_tokens_app;
     destruct (a_s a) as [s|]; cbn [parse_tokens obind];
     [ pose proof (fun c => tok_S c s) as HS; destruct s as [n|]; cbv beta iota in HS; cbn [parse_tokens obind]; rewrite HS; cbn [obind] | ];
     (destruct (a_t a) as [[tn u]|]; cbn [parse_tokens obind];
      [ destruct (tunit_case u) as [Hu|Hu];
        [ subst u; cbn [unit_suffix lettered andb]; rewrite app_nil_r; rewrite tok_T_bare; eexists; reflexivity
        | rewrite (unit_suffix_char u Hu), tok_T by exact Hu; replace (lettered u) with true by (destruct u; try reflexivity; congruence);
          cbn [andb]; destruct (tn * unit_seconds u <? two63); cbn [obind]; first [exists (ESent ErrInvalidCode); reflexivity | eexists; reflexivity] ]
      | exists (ESent ErrInvalidCode); reflexivity ])))).
Qed.

Lemma tokens_nosep a : Forall (fun t => Forall (fun c => c <> 45) t) (tokens a) /\ Forall (fun t => Forall (fun c => c <> 58) t) (tokens a).
Proof.
  unfold tokens.
  assert (forall sep, sep = 45 \/ sep = 58 -> Forall (fun t => Forall (fun c => c <> sep) t)
    ((if a_c a then [s2b "C"] else []) ++
     match a_q a with Some q => [q_token q] | None => [] end ++
     match a_p a with Some h => [s2b "P" ++ alg_name h] | None => [] end ++
     match a_s a with Some None => [s2b "S"] | Some (Some n) => [s2b "S" ++ pad_dec 3 n] | None => [] end ++
     match a_t a with Some (n, u) => [s2b "T" ++ dec_of_N n ++ unit_suffix u] | None => [] end)) as H.
  { intros sep Hsep. repeat (apply Forall_app; split).
    - destruct (a_c a); repeat constructor; destruct Hsep; subst; discriminate.
    - destruct (a_q a) as [[[| |] []]|]; repeat constructor; destruct Hsep; subst; discriminate.
    - destruct (a_p a) as [[| |]|]; repeat constructor; destruct Hsep; subst; discriminate.
    - destruct (a_s a) as [[n|]|]; [| |constructor].
      + constructor; [|constructor]. change (s2b "S" ++ pad_dec 3 n) with (83 :: pad_dec 3 n).
        constructor; [destruct Hsep; subst; discriminate|].
        apply digits_no_sep; [apply pad_dec_digits|destruct Hsep; subst; lia].
      + repeat constructor; destruct Hsep; subst; discriminate.
    - destruct (a_t a) as [[n u]|]; [|constructor].
      constructor; [|constructor]. change (s2b "T" ++ dec_of_N n ++ unit_suffix u) with (84 :: (dec_of_N n ++ unit_suffix u)).
      constructor; [destruct Hsep; subst; discriminate|].
      apply Forall_app. split; [apply digits_no_sep; [apply dec_of_N_spec|destruct Hsep; subst; lia]|].
      destruct u; repeat constructor; destruct Hsep; subst; discriminate. }
  split; apply H; auto.
Qed.

Lemma join_nosep sep sep' l : sep <> sep' -> Forall (fun t => Forall (fun c => c <> sep') t) l -> Forall (fun c => c <> sep') (join sep l).
Proof.
  intros Hs. induction l as [|x t IH]; intros H; [constructor|].
  apply Forall_cons_iff in H. destruct H as [Hx Ht].
  destruct t as [|y t']; [exact Hx|].
  change (join sep (x :: y :: t')) with (x ++ sep :: join sep (y :: t')).
  apply Forall_app. split; [exact Hx|]. constructor; [exact Hs|apply IH; exact Ht].
Qed.

Definition cfg0 (a : sast) : suite_cfg := mkSuite [] (d_hash (a_hash a)) (Z.of_N (a_digits a)) 0 false false false false false 0 0.
Definition parsed_cfg (a : sast) : suite_cfg :=
  with_raw (after_t a (after_s a (after_p a (after_q a (after_c a (cfg0 a)))))) (print_name a).

(** what parseRawSuite computes on any printed name *)
Definition has_tokens (a : sast) : bool := match tokens a with [] => false | _ => true end.

Theorem parse_raw_print a :
  exists e, parse_raw_suite (print_name a) =
    if (a_digits a <? two63) && t_fits a && has_tokens a then
      match suite_validate (parsed_cfg a) with Some e' => Err e' | None => Ok (parsed_cfg a) end
    else Err e.
Proof.
  unfold parse_raw_suite, print_name.
  destruct (dec_of_N_spec (a_digits a)) as [Hdn [Hdd Hdv]].
  destruct (tokens_nosep a) as [T45 T58].
  set (crypto := s2b "HOTP-" ++ alg_name (a_hash a) ++ [45] ++ dec_of_N (a_digits a)).
  replace (s2b "OCRA-1:HOTP-" ++ alg_name (a_hash a) ++ [45] ++ dec_of_N (a_digits a) ++ [58] ++ join 45 (tokens a))
    with (s2b "OCRA-1" ++ 58 :: (crypto ++ 58 :: join 45 (tokens a)))
    by (unfold crypto; rewrite <- !app_assoc; reflexivity).
  set (raw := s2b "OCRA-1" ++ _).
  unfold raw at 1.
  rewrite split_app by (norm_s2b; repeat constructor; discriminate).
  rewrite split_app.
  2:{ unfold crypto. apply Forall_app; split; [norm_s2b; repeat constructor; discriminate|].
      apply Forall_app; split; [apply alg_name_safe|]. apply Forall_app; split; [repeat constructor; discriminate|].
      apply digits_no_sep; [exact Hdd|lia]. }
  rewrite split_nosep by (apply join_nosep; [discriminate|exact T58]).
  replace (beq (s2b "OCRA-1") S_OCRA1) with true by reflexivity. cbn [negb].
  unfold crypto at 1. rewrite parse_crypto_print.
  destruct (a_digits a <? two63); cbn [andb obind]; [|eexists; reflexivity].
  unfold has_tokens. destruct (tokens a) as [|tk0 tks] eqn:Etok.
  { rewrite andb_false_r. cbn. eexists; reflexivity. }
  rewrite andb_true_r. rewrite <- Etok in *.
  rewrite split_join by (try assumption; rewrite Etok; discriminate).
  cbn [fst snd].
  destruct (parse_tokens_print a (cfg0 a)) as [e He]. unfold cfg0 in He. rewrite He.
  destruct (t_fits a); cbn [obind]; [|exists e; reflexivity].
  exists e. unfold parsed_cfg, cfg0.
  replace (print_name a) with raw; [reflexivity|].
  unfold raw, crypto, print_name. rewrite Etok. rewrite <- !app_assoc. reflexivity.
Qed.

(** ---------- fidelity: an accepted printed name denotes what it says ---------- *)
Definition cfg_of_denote (a : sast) (raw : bytes) : suite_cfg :=
  let '(h, d, ch, c, q, p, s, t, pw, ts) := denote a in mkSuite raw h d ch c q p s t pw ts.

Definition numeric_or_no_question (a : sast) : Prop :=
  match a_q a with Some (QAlpha, _) | Some (QHex, _) => False | _ => True end.

Lemma parsed_cfg_denote a : numeric_or_no_question a -> parsed_cfg a = cfg_of_denote a (print_name a).
Proof.
  unfold numeric_or_no_question, parsed_cfg, cfg_of_denote, denote, with_raw, after_t, after_s, after_p, after_q, after_c, cfg0.
  destruct a as [h d c q p s t]. cbn [a_hash a_digits a_c a_q a_p a_s a_t].
  intros Hq.
  destruct c; destruct q as [[[| |] []]|]; try contradiction; destruct p as [[| |]|]; destruct s as [s|]; destruct t as [[n u]|]; reflexivity.
Qed.

Lemma parsed_cfg_alpha_invalid a : ~ numeric_or_no_question a -> suite_validate (parsed_cfg a) <> None.
Proof.
  intros Hq Hv. apply suite_validate_iff in Hv. destruct Hv as [_ [_ [_ [_ Hch]]]].
  apply Hq. unfold numeric_or_no_question.
  unfold parsed_cfg, with_raw, after_t, after_s, after_p, after_q, after_c, cfg0 in Hch.
  destruct a as [h d c q p s t]. cbn [a_hash a_digits a_c a_q a_p a_s a_t] in *.
  destruct q as [[[| |] ten]|]; try exact I; exfalso; apply Hch;
    destruct c; destruct p as [[| |]|]; destruct s as [s|]; destruct t as [[n u]|]; reflexivity.
Qed.

Theorem parse_print_faithful a c :
  parse_raw_suite (print_name a) = Ok c -> c = cfg_of_denote a (print_name a) /\ numeric_or_no_question a.
Proof.
  intros H. destruct (parse_raw_print a) as [e He]. rewrite He in H.
  destruct ((a_digits a <? two63) && t_fits a && has_tokens a); [|discriminate].
  destruct (suite_validate (parsed_cfg a)) eqn:Ev; [discriminate|].
  inversion H; subst c.
  assert (numeric_or_no_question a) as Hq.
  { destruct (a_q a) as [[[| |] ten]|] eqn:Eq; unfold numeric_or_no_question; rewrite Eq; try exact I;
      exfalso; apply (parsed_cfg_alpha_invalid a); try exact Ev; unfold numeric_or_no_question; rewrite Eq; auto. }
  split; [apply parsed_cfg_denote; exact Hq|exact Hq].
Qed.

(** completeness: every name of the scheme with 4..10 digits, a numeric (or no) question, at
    least one data-input token and a positive time step that fits an int is accepted *)
Definition representable (a : sast) : Prop :=
  4 <= a_digits a <= 10 /\ numeric_or_no_question a /\ has_tokens a = true /\
  match a_t a with Some (n, u) => u <> UBare /\ 1 <= n /\ n * unit_seconds u < two63 | None => True end.

Theorem parse_print_complete a : representable a -> parse_raw_suite (print_name a) = Ok (cfg_of_denote a (print_name a)).
Proof.
  intros [Hd [Hq [Ht Htime]]].
  destruct (parse_raw_print a) as [e He]. rewrite He.
  replace (a_digits a <? two63) with true by (symmetry; apply N.ltb_lt; unfold two63; lia).
  replace (t_fits a) with true
    by (unfold t_fits; destruct (a_t a) as [[n u]|]; [|reflexivity]; destruct Htime as [Hu [_ Hf]];
        symmetry; apply andb_true_iff; split; [destruct u; try reflexivity; congruence|apply N.ltb_lt; exact Hf]).
  rewrite Ht. cbn [andb].
  rewrite parsed_cfg_denote by exact Hq.
  assert (suite_validate (cfg_of_denote a (print_name a)) = None) as Hv.
  { apply suite_validate_iff. unfold usable, cfg_of_denote, denote.
    cbn [sc_digits sc_hash sc_p sc_pwhash sc_t sc_timestep sc_q sc_challenge].
    repeat split; try lia.
    - destruct (a_hash a); reflexivity.
    - destruct (a_p a) as [[| |]|]; cbn; intros; congruence.
    - destruct (a_t a) as [[n u]|]; cbn; intros; [|discriminate]. destruct u; cbn [unit_seconds]; lia.
    - unfold numeric_or_no_question in Hq. destruct (a_q a) as [[[| |] []]|]; cbn; intros; try discriminate; contradiction. }
  rewrite Hv. reflexivity.
Qed.

(** a name outside 4..10 digits, or with an alphanumeric / hexadecimal question, is rejected by
    the parser (not approximated) *)
Theorem parse_print_reject a :
  (a_digits a < 4 \/ 10 < a_digits a \/ ~ numeric_or_no_question a) -> exists e, parse_raw_suite (print_name a) = Err e.
Proof.
  intros H. destruct (parse_raw_suite (print_name a)) as [c|e|] eqn:E.
  - exfalso. destruct (parse_print_faithful a c E) as [Hc Hq].
    destruct (parse_raw_print a) as [e He]. rewrite He in E.
    destruct ((a_digits a <? two63) && t_fits a && has_tokens a); [|discriminate].
    destruct (suite_validate (parsed_cfg a)) eqn:Ev; [discriminate|].
    apply suite_validate_iff in Ev. destruct Ev as [Hd _].
    rewrite parsed_cfg_denote in Hd by exact Hq. unfold cfg_of_denote, denote in Hd. cbn [sc_digits] in Hd.
    destruct H as [H|[H|H]]; [lia|lia|contradiction].
  - eexists; reflexivity.
  - exfalso. destruct (parse_raw_print a) as [e He]. rewrite He in E.
    destruct ((a_digits a <? two63) && t_fits a && has_tokens a); [|discriminate].
    destruct (suite_validate (parsed_cfg a)); discriminate.
Qed.

(** ---------- structural rejection and the reported name ---------- *)
Theorem parse_reports_name raw c : parse_raw_suite raw = Ok c -> sc_raw c = raw.
Proof.
  unfold parse_raw_suite. destruct (split 58 raw) as [|v [|cr [|di [|x l]]]]; try discriminate.
  destruct (negb (beq v S_OCRA1)); [discriminate|].
  destruct (parse_crypto raw cr) as [hd| |]; cbn [obind]; try discriminate.
  destruct (parse_tokens _ _) as [cfg| |]; cbn [obind]; try discriminate.
  destruct (suite_validate _); [discriminate|]. intros H. inversion H. reflexivity.
Qed.

Theorem parse_accepts_usable raw c : parse_raw_suite raw = Ok c -> usable c.
Proof.
  unfold parse_raw_suite. destruct (split 58 raw) as [|v [|cr [|di [|x l]]]]; try discriminate.
  destruct (negb (beq v S_OCRA1)); [discriminate|].
  destruct (parse_crypto raw cr) as [hd| |]; cbn [obind]; try discriminate.
  destruct (parse_tokens _ _) as [cfg| |]; cbn [obind]; try discriminate.
  destruct (suite_validate _) eqn:Ev; [discriminate|]. intros H. inversion H. subst c. apply suite_validate_iff. exact Ev.
Qed.

Definition count_colons (s : bytes) : nat := length (filter (fun c => c =? 58) s).

Theorem parse_reject_parts raw : count_colons raw <> 2%nat -> exists e, parse_raw_suite raw = Err e.
Proof.
  intros H. unfold parse_raw_suite.
  pose proof (split_length 58 raw) as Hl. fold (count_colons raw) in Hl.
  destruct (split 58 raw) as [|v [|cr [|di [|x l]]]]; try (eexists; reflexivity).
  cbn [length] in Hl. lia.
Qed.

Lemma beq_eq a b : beq a b = true -> a = b.
Proof.
  unfold beq. revert b. induction a as [|x a IH]; intros [|y b]; cbn [bytes_eqb]; try discriminate; [reflexivity|].
  intros H. apply andb_true_iff in H. destruct H as [H1 H2]. apply N.eqb_eq in H1. subst. f_equal. apply IH. exact H2.
Qed.

Theorem parse_reject_version v rest :
  Forall (fun c => c <> 58) v -> v <> s2b "OCRA-1" -> exists e, parse_raw_suite (v ++ 58 :: rest) = Err e.
Proof.
  intros Hv Hne. unfold parse_raw_suite. rewrite split_app by exact Hv.
  destruct (split 58 rest) as [|cr [|di [|x l]]]; try (eexists; reflexivity).
  destruct (beq v S_OCRA1) eqn:E; [apply beq_eq in E; contradiction|].
  cbn [negb]. eexists; reflexivity.
Qed.

(** ---------- the registry (finite facts about the regenerated table) ---------- *)
Definition denotation_of (c : suite_cfg) : denotation :=
  (sc_hash c, sc_digits c, sc_challenge c, sc_c c, sc_q c, sc_p c, sc_s c, sc_t c, sc_pwhash c, sc_timestep c).
Definition den_eqb (x y : denotation) : bool :=
  let '(h, d, ch, c, q, p, s, t, pw, ts) := x in
  let '(h', d', ch', c', q', p', s', t', pw', ts') := y in
  (h =? h') && (d =? d')%Z && (ch =? ch')%Z && Bool.eqb c c' && Bool.eqb q q' && Bool.eqb p p' && Bool.eqb s s' && Bool.eqb t t'
  && (pw =? pw')%Z && (ts =? ts')%Z.
Lemma den_eqb_eq x y : den_eqb x y = true -> x = y.
Proof.
  destruct x as [[[[[[[[[h d] ch] c] q] p] s] t] pw] ts]. destruct y as [[[[[[[[[h' d'] ch'] c'] q'] p'] s'] t'] pw'] ts'].
  unfold den_eqb. rewrite !andb_true_iff. intros [[[[[[[[[H1 H2] H3] H4] H5] H6] H7] H8] H9] H10].
  apply N.eqb_eq in H1. apply Z.eqb_eq in H2, H3, H9, H10. apply Bool.eqb_prop in H4, H5, H6, H7, H8. subst. reflexivity.
Qed.

(** every advertised name reads, under the naming scheme, as an abstract name that prints back to
    it and denotes exactly the registered configuration *)
Definition entry_ok (e : bytes * suite_cfg) : bool :=
  match read_name (fst e) with
  | Some a => beqb (print_name a) (fst e) && den_eqb (denote a) (denotation_of (snd e)) && beqb (sc_raw (snd e)) []
  | None => false
  end.

Lemma beqb_eq a b : beqb a b = true -> a = b.
Proof.
  revert b. induction a as [|x a IH]; intros [|y b]; cbn [beqb]; try discriminate; [reflexivity|].
  intros H. apply andb_true_iff in H. destruct H as [H1 H2]. apply N.eqb_eq in H1. subst. f_equal. apply IH. exact H2.
Qed.

Lemma registry_entries_ok : forallb entry_ok known_suites = true.
Proof. vm_compute. reflexivity. Qed.

Theorem registry_faithful name cfg :
  In (name, cfg) known_suites ->
  exists a, read_name name = Some a /\ print_name a = name /\ denote a = denotation_of cfg /\ sc_raw cfg = [].
Proof.
  intros H. pose proof registry_entries_ok as R. rewrite forallb_forall in R. specialize (R _ H).
  unfold entry_ok in R. cbn [fst snd] in R. destruct (read_name name) as [a|]; [|discriminate].
  rewrite !andb_true_iff in R. destruct R as [[R1 R2] R3].
  exists a. repeat split; [apply beqb_eq; exact R1|apply den_eqb_eq; exact R2|apply beqb_eq; exact R3].
Qed.

Fixpoint nodupb (l : list bytes) : bool :=
  match l with [] => true | x :: t => negb (existsb (beq x) t) && nodupb t end.
Lemma registry_names_distinct : nodupb list_suites = true.
Proof. vm_compute. reflexivity. Qed.
Lemma registry_size : length known_suites = 45%nat.
Proof. vm_compute. reflexivity. Qed.

Lemma beq_refl a : beq a a = true.
Proof. unfold beq. induction a as [|x a IH]; cbn [bytes_eqb]; [reflexivity|]. rewrite N.eqb_refl, IH. reflexivity. Qed.

Lemma lookup_in raw l c : lookup raw l = Some c -> In (raw, c) l.
Proof.
  induction l as [|[n c'] t IH]; cbn [lookup]; [discriminate|].
  destruct (beq n raw) eqn:E; [intros H; inversion H; subst; apply beq_eq in E; subst; left; reflexivity|intros H; right; apply IH; exact H].
Qed.
Lemma lookup_none raw l : lookup raw l = None -> ~ In raw (map fst l).
Proof.
  induction l as [|[n c'] t IH]; cbn [lookup map fst]; [intros _ []|].
  destruct (beq n raw) eqn:E; [discriminate|]. intros H [H1|H1]; [subst; rewrite beq_refl in E; discriminate|apply IH; assumption].
Qed.

(** the advertised list, the known-suite test and lookup by name agree *)
Theorem registry_views_agree raw :
  (is_known_suite raw = true <-> In raw list_suites) /\
  (is_known_suite raw = true -> exists c, In (raw, c) known_suites /\ suite_config_from_raws raw = c) /\
  (is_known_suite raw = false -> suite_config_from_raws raw = zero_cfg).
Proof.
  unfold is_known_suite, suite_config_from_raws, list_suites.
  destruct (lookup raw known_suites) as [c|] eqn:E.
  - repeat split; try discriminate.
    + intros _. apply lookup_in in E. apply in_map_iff. exists (raw, c). split; [reflexivity|exact E].
    + intros _. exists c. split; [apply lookup_in; exact E|reflexivity].
  - repeat split; try discriminate; try reflexivity.
    intros H. exfalso. apply (lookup_none _ _ E). exact H.
Qed.

(** every advertised name can be instantiated, and instantiation returns the registered
    configuration under that name *)
Definition cfg_eqb (x y : suite_cfg) : bool := beqb (sc_raw x) (sc_raw y) && den_eqb (denotation_of x) (denotation_of y).
Lemma cfg_eqb_eq x y : cfg_eqb x y = true -> x = y.
Proof.
  unfold cfg_eqb. rewrite andb_true_iff. intros [H1 H2]. apply beqb_eq in H1. apply den_eqb_eq in H2.
  destruct x, y. unfold denotation_of in H2. cbn in *. inversion H2. subst. reflexivity.
Qed.
Definition instantiates (e : bytes * suite_cfg) : bool :=
  match new_raw_suite (fst e) with Ok c => cfg_eqb c (with_raw (snd e) (fst e)) | _ => false end.
Lemma registry_instantiates : forallb instantiates known_suites = true.
Proof. vm_compute. reflexivity. Qed.

Theorem registered_name_instantiates name cfg :
  In (name, cfg) known_suites -> new_raw_suite name = Ok (with_raw cfg name).
Proof.
  intros H. pose proof registry_instantiates as R. rewrite forallb_forall in R. specialize (R _ H).
  unfold instantiates in R. cbn [fst snd] in R. destruct (new_raw_suite name) as [c| |]; try discriminate.
  apply cfg_eqb_eq in R. subst. reflexivity.
Qed.

(** NewRawSuite on any string: the reported name is the string, the result is usable *)
Theorem new_raw_suite_reports_name raw c : new_raw_suite raw = Ok c -> sc_raw c = raw /\ usable c.
Proof.
  unfold new_raw_suite. destruct (lookup raw known_suites) as [k|].
  - destruct (suite_validate (with_raw k raw)) eqn:Ev; [discriminate|]. intros H. inversion H. subst c.
    split; [reflexivity|apply suite_validate_iff; exact Ev].
  - intros H. split; [apply parse_reports_name; exact H|apply (parse_accepts_usable raw); exact H].
Qed.

(** NewRawSuite on a name of the scheme: a registered name gives the registered configuration,
    which is what the name says (registry_faithful); any other accepted name gives exactly
    what the name says *)
Theorem new_raw_suite_print a c :
  new_raw_suite (print_name a) = Ok c ->
  (exists k, In (print_name a, k) known_suites /\ c = with_raw k (print_name a)) \/
  (is_known_suite (print_name a) = false /\ c = cfg_of_denote a (print_name a)).
Proof.
  unfold new_raw_suite, is_known_suite. destruct (lookup (print_name a) known_suites) as [k|] eqn:E.
  - destruct (suite_validate _); [discriminate|]. intros H. inversion H. left. exists k. split; [apply lookup_in; exact E|reflexivity].
  - intros H. right. split; [reflexivity|]. apply parse_print_faithful. exact H.
Qed.
