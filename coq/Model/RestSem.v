(** What the translated REST handlers (Generated/SrcRest.v) are written over: the request context of fasthttp as a
    value (the request as the model's [request], the instant of the call, and the response being built), JSON values
    as encoding/json would print them (a tree, not text), http.StatusText.  The decoders of request bodies are the
    model's (Rest.v: [dec_string] ... — encoding/json's acceptance rule per Go field type); which decoder reads which
    key into which field is generated from the struct tags of dto.go. *)
From Coq Require Import String.
From OtpV Require Import Prelude GoSem Errors Rest.
Open Scope N_scope.

(** a JSON value as json.Marshal builds it *)
Inductive jout :=
| OStr (s : bytes) | OInt (z : Z) | OBool (b : bool) | ONull
| OList (l : list jout)
| OObj (fields : list (bytes * jout)).

Inductive outbody := BNone | BJson (j : jout) | BText (t : bytes) | BRedirect (loc : bytes) | BOther.

Record rctx := mkCtx { cx_req : request; cx_now : Z; cx_status : Z; cx_ctype : bytes; cx_out : outbody }.

Definition ctx_is_post (c : rctx) : bool := is_post (cx_req c).
Definition ctx_is_get (c : rctx) : bool := is_get (cx_req c).
Definition ctx_body (c : rctx) : body := r_body (cx_req c).
Definition ctx_path (c : rctx) : bytes := r_path (cx_req c).
Definition ctx_query_alg (c : rctx) : bytes := r_query_alg (cx_req c).
Definition ctx_set_status (c : rctx) (s : Z) : rctx := mkCtx (cx_req c) (cx_now c) s (cx_ctype c) (cx_out c).
Definition ctx_set_ctype (c : rctx) (t : bytes) : rctx := mkCtx (cx_req c) (cx_now c) (cx_status c) t (cx_out c).
Definition ctx_set_out (c : rctx) (o : outbody) : rctx := mkCtx (cx_req c) (cx_now c) (cx_status c) (cx_ctype c) o.
Definition ctx_set_body (c : rctx) (j : jout) : rctx := ctx_set_out c (BJson j).
Definition ctx_set_body_string (c : rctx) (t : bytes) : rctx := ctx_set_out c (BText t).
(** RequestCtx.Redirect(uri, code): the status and a Location header *)
Definition ctx_redirect (c : rctx) (loc : bytes) (s : Z) : rctx := ctx_set_out (ctx_set_status c s) (BRedirect loc).
(** the swagger handler of another package serves the documentation pages (200) *)
Definition ctx_other (c : rctx) : rctx := ctx_set_out (ctx_set_status c 200%Z) BOther.

(** net/http.StatusText for the codes the handlers use; "" for a code it does not know *)
Definition status_text (s : Z) : bytes :=
  if (s =? 200)%Z then s2b "OK"
  else if (s =? 302)%Z then s2b "Found"
  else if (s =? 400)%Z then s2b "Bad Request"
  else if (s =? 404)%Z then s2b "Not Found"
  else if (s =? 405)%Z then s2b "Method Not Allowed"
  else if (s =? 500)%Z then s2b "Internal Server Error"
  else [].

(** omitempty *)
Definition omit_str (k : string) (v : bytes) : list (bytes * jout) := match v with [] => [] | _ => [(s2b k, OStr v)] end.
Definition omit_int (k : string) (v : Z) : list (bytes * jout) := if (v =? 0)%Z then [] else [(s2b k, OInt v)].
Definition omit_bool (k : string) (v : bool) : list (bytes * jout) := if v then [(s2b k, OBool true)] else [].
Definition omit_list (k : string) (v : list bytes) : list (bytes * jout) := match v with [] => [] | _ => [(s2b k, OList (map OStr v))] end.

(** decoding a pointer-to-struct field: nil when absent or null *)
Definition dec_ptr {A} (dec : list (bytes * jv) -> option A) (v : option jv) : option (option A) :=
  match dec_obj v with
  | None => None
  | Some None => Some None
  | Some (Some f) => match dec f with Some a => Some (Some a) | None => None end
  end.
Definition dec_int (v : option jv) : option Z := dec_int64 v.
