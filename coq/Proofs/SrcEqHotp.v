(** hotp.go as translated from the Go source
    (Generated/Src.v) compute what the hand-written model computes. *)
From Coq Require Import ZifyN ZifyNat ZifyBool String.
From OtpV Require Import Prelude Sha Tables GoSem Errors Decoder Derive Otp Suite Src SrcLift SrcEqDecode SrcEqDerive SrcEqValidate.
Open Scope N_scope.
Ltac Zify.zify_post_hook ::= Z.div_mod_to_equations.

(** ---------- GenerateHOTP, ValidateHOTP ---------- *)
Lemma src_GenerateHOTP_eq fuel junk secret counter p :
  (11 <= fuel)%nat -> (length secret < fuel)%nat -> small secret -> length junk = 8%nat ->
  Src.GenerateHOTP fuel junk secret counter p = lift_oc (Otp.generate_hotp secret counter p).
Proof.
  intros Hf Hfs Hs Hj. unfold Src.GenerateHOTP, Otp.generate_hotp, Otp.generate_hotp_with.
  rewrite default_hotp_eq.
  assert (Hk : forall q, (do t1 <- Src.DecodeSecret fuel secret;
      let '(secretBuf, err_) := t1 in
      if is_some err_ then Val ([], err_)
      else do t2 <- deref (Some q); do t3 <- Src.Digits_Int (p_digits t2); do t4 <- deref (Some q);
           Src.deriveRFC4226 fuel junk secretBuf counter t3 (p_alg t4))
    = lift_oc (obind (decode_secret secret) (fun key => derive_rfc4226_with hmac key counter (Z.of_N (p_digits q)) (p_alg q)))).
  { intros q. pose proof (decode_cases fuel secret Hs Hfs) as Hd.
    destruct (decode_secret secret) as [key|e|].
    - rewrite Hd. cbn [rbind is_some deref obind]. unfold Src.Digits_Int. cbn [rbind].
      apply src_deriveRFC4226_eq; assumption.
    - destruct Hd as [b Hd]. rewrite Hd. reflexivity.
    - rewrite Hd. reflexivity. }
  destruct p as [q|]; cbn [is_some negb deref rbind]; apply Hk.
Qed.

Lemma src_ValidateHOTP_loop junk code key counter p fuel0 :
  (11 <= fuel0)%nat -> length junk = 8%nat ->
  forall n i fuel cost skew, (n < fuel)%nat -> (i + Z.of_nat n = skew + 1)%Z -> (-100 <= i)%Z -> (skew <= 100)%Z ->
  Src.ValidateHOTP_loop1 fuel fuel0 junk skew counter code key (Some p) i (fun _ => fail_code)
  = lift_v (hotp_loop hmac (zseq i n) code key counter (p_digits p) (p_alg p) cost).
Proof.
  intros Hf0 Hj. induction n as [|n IH]; intros i fuel cost skew Hf Hi Hlo Hhi.
  - destruct fuel as [|fuel]; [lia|]. cbn [Src.ValidateHOTP_loop1 zseq seq map hotp_loop].
    destruct (Z.leb i skew) eqn:E; [lia|]. reflexivity.
  - destruct fuel as [|fuel]; [lia|]. rewrite zseq_S. cbn [Src.ValidateHOTP_loop1 hotp_loop].
    destruct (Z.leb i skew) eqn:E; [|lia].
    rewrite !wrap_int64_small by lia. cbn [deref rbind].
    change (Z.ltb i 0) with (i <? 0)%Z.
    change (N.ltb counter (of_int64 (- i))) with (counter <? of_int64 (- i)).
    assert (Hrec : forall cost', Src.ValidateHOTP_loop1 fuel fuel0 junk skew counter code key (Some p) (i + 1) (fun _ => fail_code)
                   = lift_v (hotp_loop hmac (zseq (i + 1) n) code key counter (p_digits p) (p_alg p) cost')).
    { intros cost'. apply IH; lia. }
    assert (Hstep : forall c,
      (do t6 <- Src.validateRFC4226 fuel0 junk code key c (p_digits p) (p_alg p);
       let '(valid, err_2) := t6 in
       if negb (is_some err_2) && valid then Val (true, None)
       else Src.ValidateHOTP_loop1 fuel fuel0 junk skew counter code key (Some p) (i + 1) (fun _ => fail_code))
      = lift_v (match validate_rfc4226 hmac code key c (p_digits p) (p_alg p) with
                | (Ok (true, None), k) => (Ok (true, None), (cost + k)%nat)
                | (Ok _, k) => hotp_loop hmac (zseq (i + 1) n) code key counter (p_digits p) (p_alg p) (cost + k)
                | (o, k) => (o, (cost + k)%nat)
                end)).
    { intros c. rewrite src_validateRFC4226_eq by assumption.
      pose proof (validate_no_err code (Z.of_N (p_digits p)) (fun _ => derive_rfc4226_with hmac key c (Z.of_N (p_digits p)) (p_alg p))) as Hne.
      unfold validate_rfc4226 in *.
      destruct (Otp.validate code (Z.of_N (p_digits p)) (fun _ => derive_rfc4226_with hmac key c (Z.of_N (p_digits p)) (p_alg p))) as [o k].
      cbn [fst] in Hne. unfold lift_v at 1. cbn [fst].
      destruct o as [[b oe]|e|]; [|exfalso; apply (Hne e); reflexivity|reflexivity].
      cbn [rbind]. destruct b, oe as [e|]; cbn [is_some negb andb]; try reflexivity; apply Hrec. }
    destruct (i <? 0)%Z eqn:Eneg.
    + destruct (counter <? of_int64 (- i)) eqn:Eu; cbn [andb].
      * apply Hrec.
      * rewrite usub64_sub64. apply Hstep.
    + cbn [andb]. apply Hstep.
Qed.

Lemma src_ValidateHOTP_eq fuel junk secret code counter p :
  (22 <= fuel)%nat -> (length secret < fuel)%nat -> small secret -> length junk = 8%nat ->
  Src.ValidateHOTP fuel junk secret code counter p = lift_v (Otp.validate_hotp secret code counter p).
Proof.
  intros Hf Hfs Hs Hj. unfold Src.ValidateHOTP, Otp.validate_hotp, Otp.validate_hotp_with.
  rewrite default_hotp_eq.
  assert (Hk : forall q,
    (do t1 <- deref (Some q);
     if N.ltb 10 (p_skew t1) then Val (false, Some (ESent ErrInvalidSkew))
     else do t2 <- deref (Some q);
          let skew_ := to_int64 (p_skew t2) in
          do t3 <- Src.DecodeSecret fuel secret;
          let '(secretBuf, err_) := t3 in
          if is_some err_ then Val (false, err_)
          else let i := wrap_int64 (Z.opp skew_) in
               Src.ValidateHOTP_loop1 fuel fuel junk skew_ counter code secretBuf (Some q) i
                 (fun _ : Z => Val (false, Some (ESent ErrInvalidCode))))
    = lift_v (if skew_refused hotp_max_skew (p_skew q) then (Ok (false, Some (ESent ErrInvalidSkew)), O)
              else match decode_secret secret with
                   | Panic => (Panic, O)
                   | Err e => (Ok (false, Some e), O)
                   | Ok key => hotp_loop hmac (offsets (p_skew q)) code key counter (p_digits q) (p_alg q) O
                   end)).
  { intros q. cbn [deref rbind]. unfold skew_refused, hotp_max_skew.
    change (N.ltb 10 (p_skew q)) with (10 <? p_skew q).
    destruct (10 <? p_skew q) eqn:Esk; [reflexivity|].
    assert (Hsk : to_int64 (p_skew q) = Z.of_N (p_skew q)).
    { unfold to_int64, two63. destruct (p_skew q <? 9223372036854775808) eqn:E; [reflexivity|lia]. }
    rewrite Hsk.
    pose proof (decode_cases fuel secret Hs Hfs) as Hd.
    destruct (decode_secret secret) as [key|e|].
    - rewrite Hd. cbn [rbind is_some].
      rewrite wrap_int64_small by lia. rewrite offsets_zseq.
      apply (src_ValidateHOTP_loop junk code key counter q fuel); lia.
    - destruct Hd as [b Hd]. rewrite Hd. reflexivity.
    - rewrite Hd. reflexivity. }
  destruct p as [q|]; cbn [is_some negb]; [apply Hk|].
  cbn [deref rbind]. apply (Hk default_hotp_param).
Qed.

