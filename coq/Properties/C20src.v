(** C20 over the Go source, library part: the js/wasm build's own derivation and validation
    (derive_rfc4226_wasm.go, validate_wasm.go, translated with GOOS=js GOARCH=wasm into Generated/SrcWasm.v) return what
    the native build's (derive_rfc4226.go, validate.go, translated into Generated/Src.v) return — a statement between
    two translations of the source.  The binding itself (wasm/main.go, otp-js) is tied by the correspondence only. *)
From OtpV Require Import Prelude Sha GoSem Tables Errors Decoder Derive Otp Wasm WasmProofs Src SrcWasm SrcLift SrcEqDerive SrcEqValidate SrcEqWasm.
Open Scope N_scope.

Theorem C20src_derive : forall fuel junk secret counter digits algo, (12 <= fuel)%nat -> length junk = 8%nat ->
  SrcWasm.DeriveRFC4226Wasm fuel secret counter digits algo = Src.deriveRFC4226 fuel junk secret counter digits algo.
Proof.
  intros fuel junk secret counter digits algo Hf Hj.
  rewrite srcw_DeriveRFC4226Wasm_eq by exact Hf. rewrite src_deriveRFC4226_eq by (assumption || lia).
  rewrite (derive_wasm_native hmac hmac_length hmac_wf). reflexivity.
Qed.
Print Assumptions C20src_derive.

Theorem C20src_validate : forall fuel junk code secret counter digits algo, (12 <= fuel)%nat -> length junk = 8%nat ->
  SrcWasm.ValidateOTPWasm fuel code secret counter digits algo = Src.validateRFC4226 fuel junk code secret counter digits algo.
Proof.
  intros fuel junk code secret counter digits algo Hf Hj.
  rewrite srcw_ValidateOTPWasm_eq by exact Hf. rewrite src_validateRFC4226_eq by (assumption || lia).
  rewrite (validate_wasm_native hmac hmac_length hmac_wf). unfold lift_v, lift_vd. reflexivity.
Qed.
Print Assumptions C20src_validate.

(** the ten-digit modulus the js/wasm build computes for itself is the native table's entry *)
Theorem C20src_pow10 : forall fuel, (11 <= fuel)%nat -> SrcWasm.pow10Wasm fuel 10 = idxN Src.g_mod10 10%Z.
Proof. intros fuel Hf. rewrite srcw_pow10Wasm_eq by lia. reflexivity. Qed.
Print Assumptions C20src_pow10.

Example C20src_vector :
  SrcWasm.DeriveRFC4226Wasm 20 [49;50;51;52;53;54;55;56;57;48;49;50;51;52;53;54;55;56;57;48] 0 10 0 = Val ([49;50;56;52;55;53;53;50;50;52], None).
Proof. vm_compute. reflexivity. Qed.
