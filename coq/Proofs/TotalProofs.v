(** Totality: no exported operation of the model has the outcome [Panic] (C10).  [Panic] is an
    explicit outcome of every partial primitive of the model (index, slice, division, make with
    a negative length), so each statement below is a real obligation. *)
From Coq Require Import String ZifyN ZifyNat ZifyBool.
From OtpV Require Import Prelude Sha Tables Errors Decoder Derive Otp Ocra Utils Random Suite Url
     DeriveProofs OtpProofs OcraProofs UtilsProofs SuiteProofs.
Open Scope N_scope.

Section WithHmac.
  Variable hm : alg -> bytes -> bytes -> bytes.
  Hypothesis hm_length : forall a k m, length (hm a k m) = hlen a.
  Hypothesis hm_wf : forall a k m, wfb (hm a k m).

  Theorem generate_hotp_total secret c p : generate_hotp_with hm secret c p <> Panic.
  Proof.
    unfold generate_hotp_with. pose proof (decode_secret_no_panic secret) as Hd.
    destruct (decode_secret secret) as [key|e|]; cbn [obind]; [|discriminate|congruence].
    apply (derive_rfc4226_total hm hm_length hm_wf).
  Qed.

  Lemma time_counter_total unix per : per <> 0 -> time_counter unix per <> Panic.
  Proof. intros H. unfold time_counter. destruct (N.eqb_spec per 0); [contradiction|discriminate]. Qed.

  Lemma eff_period_gen_nonzero per : eff_period totp_gen_zero_period per <> 0.
  Proof. change totp_gen_zero_period with (Some 30). unfold eff_period. destruct (N.eqb_spec per 0); [discriminate|assumption]. Qed.

  Theorem generate_totp_total secret unix p : generate_totp_with hm secret unix p <> Panic.
  Proof.
    unfold generate_totp_with. pose proof (decode_secret_no_panic secret) as Hd.
    destruct (decode_secret secret) as [key|e|]; cbn [obind]; [|discriminate|congruence].
    set (pp := match p with Some p0 => p0 | None => default_totp_param end).
    pose proof (time_counter_total unix _ (eff_period_gen_nonzero (p_period pp))) as Ht.
    destruct (time_counter unix (eff_period totp_gen_zero_period (p_period pp))) as [c|e|]; cbn [obind]; [|discriminate|congruence].
    apply (derive_rfc4226_total hm hm_length hm_wf).
  Qed.

  Theorem validate_hotp_total secret code c p : fst (validate_hotp_with hm secret code c p) <> Panic.
  Proof.
    destruct (validate_hotp_verdict hm hm_length hm_wf secret code c p) as [k [H|[e H]]]; rewrite H; discriminate.
  Qed.
  Theorem validate_totp_total secret code unix p : fst (validate_totp_with hm secret code unix p) <> Panic.
  Proof.
    destruct (validate_totp_verdict hm hm_length hm_wf secret code unix p) as [k [H|[e H]]]; rewrite H; discriminate.
  Qed.
  Theorem validate_ocra_total secret code cfg i : fst (validate_ocra_with hm secret code cfg i) <> Panic.
  Proof.
    destruct (validate_ocra_verdict hm hm_length hm_wf secret code cfg i) as [k [H|[e H]]]; rewrite H; discriminate.
  Qed.
End WithHmac.

(** ---- input helpers ---- *)
Theorem parse_decimal_be8_total s : parse_decimal_be8 s <> Panic.
Proof. unfold parse_decimal_be8. destruct (parse_uint64 s); discriminate. Qed.
Theorem left_pad_hex_total s n : left_pad_hex s n <> Panic.
Proof. unfold left_pad_hex. destruct (n <=? 0)%Z; [discriminate|]. destruct (n <=? zlen s)%Z; discriminate. Qed.
Theorem parse_hex_timestamp_total ts : parse_hex_timestamp ts <> Panic.
Proof. unfold parse_hex_timestamp. destruct (hex_decode _); discriminate. Qed.
Theorem parse_decimal_challenge_total s : parse_decimal_challenge s <> Panic.
Proof.
  unfold parse_decimal_challenge.
  destruct (match s with 45 :: t => (true, t) | 43 :: t => (false, t) | _ => (false, s) end) as [neg ds].
  destruct ds as [|d ds']; [discriminate|].
  destruct (forallb is_dec_digit (d :: ds')); [|discriminate].
  destruct (neg && negb (dec_val (d :: ds') =? 0)); [discriminate|].
  destruct (hex_decode _); discriminate.
Qed.
Lemma hex_field_total tag s : hex_field tag s <> Panic.
Proof. unfold hex_field. destruct s; [discriminate|]. destruct (hex_decode _); discriminate. Qed.
Theorem hex_input_to_ocra_total c q p s t : hex_input_to_ocra c q p s t <> Panic.
Proof.
  unfold hex_input_to_ocra.
  pose proof (hex_field_total T_hex_counter c). destruct (hex_field T_hex_counter c); cbn [obind]; try discriminate; try congruence.
  pose proof (hex_field_total T_hex_challenge q). destruct (hex_field T_hex_challenge q); cbn [obind]; try discriminate; try congruence.
  pose proof (hex_field_total T_hex_password p). destruct (hex_field T_hex_password p); cbn [obind]; try discriminate; try congruence.
  pose proof (hex_field_total T_hex_session s). destruct (hex_field T_hex_session s); cbn [obind]; try discriminate; try congruence.
  pose proof (hex_field_total T_hex_timestamp t). destruct (hex_field T_hex_timestamp t); cbn [obind]; try discriminate; try congruence.
Qed.

(** ---- random secrets ---- *)
Theorem random_secret_total algo s pos : fst (random_secret algo s pos) <> Panic.
Proof. unfold random_secret. destruct (secret_size algo); discriminate. Qed.

(** ---- suites ---- *)
Lemma to_upper_u_length_ge s : (length (to_upper_u s) <= length s)%nat.
Proof.
  assert (forall n s, (length s <= n)%nat -> (length (to_upper_u s) <= length s)%nat) as H.
  { induction n as [|n IH]; intros l Hl; [destruct l; [simpl; lia|simpl in Hl; lia]|].
    destruct l as [|c t]; [simpl; lia|].
    assert (to_upper_u (c :: t) = upper_ascii c :: to_upper_u t \/
            (exists t', t = 191 :: t' /\ c = 197 /\ to_upper_u (c :: t) = 83 :: to_upper_u t') \/
            (exists t', t = 177 :: t' /\ c = 196 /\ to_upper_u (c :: t) = 73 :: to_upper_u t')) as Hc.
    { destruct t as [|d t'].
      - left. destruct c as [|p]; [reflexivity|]. do 8 (destruct p as [p|p|]; try reflexivity).
      - destruct (N.eqb_spec c 197) as [->|H197]; [destruct (N.eqb_spec d 191) as [->|H191]|].
        + right. left. exists t'. auto.
        + left. destruct d as [|p]; [reflexivity|]. do 8 (destruct p as [p|p|]; try reflexivity). congruence.
        + destruct (N.eqb_spec c 196) as [->|H196]; [destruct (N.eqb_spec d 177) as [->|H177]|].
          * right. right. exists t'. auto.
          * left. destruct d as [|p]; [reflexivity|]. do 8 (destruct p as [p|p|]; try reflexivity). congruence.
          * left. destruct c as [|p]; [reflexivity|]. do 8 (destruct p as [p|p|]; try reflexivity); congruence. }
    simpl in Hl.
    destruct Hc as [E|[[t' [-> [-> E]]]|[t' [-> [-> E]]]]]; rewrite E; cbn [length].
    - specialize (IH t ltac:(lia)). lia.
    - simpl in Hl. specialize (IH t' ltac:(lia)). lia.
    - simpl in Hl. specialize (IH t' ltac:(lia)). lia. }
  apply (H (length s)). lia.
Qed.

Lemma is_prefix_length p s : is_prefix p s = true -> (length p <= length s)%nat.
Proof.
  revert s. induction p as [|a p IH]; intros s H; [simpl; lia|].
  destruct s as [|b s]; [discriminate|]. cbn [is_prefix] in H. apply andb_true_iff in H. destruct H as [_ H].
  specialize (IH s H). simpl. lia.
Qed.

Theorem parse_crypto_total raw crypto : parse_crypto raw crypto <> Panic.
Proof.
  unfold parse_crypto.
  destruct (is_prefix S_HOTP_SHA (to_upper_u crypto)) eqn:E; cbn [negb]; [|discriminate].
  apply is_prefix_length in E. pose proof (to_upper_u_length_ge crypto) as L.
  change (length S_HOTP_SHA) with 8%nat in E.
  destruct (Nat.ltb_spec (length crypto) 5); [lia|].
  destruct (split 45 (skipn 5 crypto)) as [|h [|d [|x l]]]; try discriminate.
  destruct (if beq (to_upper_u h) (s2b "SHA1") then _ else _); [|discriminate].
  destruct (atoi d); discriminate.
Qed.

Theorem parse_time_gran_total g : parse_time_gran g <> Panic.
Proof.
  unfold parse_time_gran. destruct (Nat.ltb (length g) 2); [discriminate|].
  destruct (atoi _); [|discriminate]. cbv zeta.
  destruct (_ =? 0)%Z; [discriminate|]. destruct (_ =? _)%Z; discriminate.
Qed.

Theorem parse_token_total cfg tok : parse_token cfg tok <> Panic.
Proof.
  unfold parse_token.
  destruct (beq (to_upper_u tok) (s2b "C")); [discriminate|].
  destruct (is_prefix (s2b "QN") (to_upper_u tok)).
  { destruct (Nat.eqb _ 4); [|discriminate]. destruct (beq _ (s2b "08")); [discriminate|]. destruct (beq _ (s2b "10")); discriminate. }
  destruct (is_prefix (s2b "QA") (to_upper_u tok)); [discriminate|].
  destruct (is_prefix (s2b "QH") (to_upper_u tok)); [discriminate|].
  destruct (is_prefix (s2b "PSHA") (to_upper_u tok)).
  { destruct (beq _ (s2b "PSHA1")); [discriminate|]. destruct (beq _ (s2b "PSHA256")); [discriminate|]. destruct (beq _ (s2b "PSHA512")); discriminate. }
  destruct (is_prefix (s2b "T") (to_upper_u tok)) eqn:ET.
  { destruct tok as [|c gran]; [discriminate ET|].
    pose proof (parse_time_gran_total gran). destruct (parse_time_gran gran); try discriminate; congruence. }
  destruct (is_prefix (s2b "S") (to_upper_u tok)); discriminate.
Qed.

Theorem parse_tokens_total toks : forall cfg, parse_tokens cfg toks <> Panic.
Proof.
  induction toks as [|t l IH]; intros cfg; cbn [parse_tokens]; [discriminate|].
  pose proof (parse_token_total cfg t). destruct (parse_token cfg t); cbn [obind]; [apply IH|discriminate|congruence].
Qed.

Theorem parse_raw_suite_total raw : parse_raw_suite raw <> Panic.
Proof.
  unfold parse_raw_suite. destruct (split 58 raw) as [|v [|cr [|di [|x l]]]]; try discriminate.
  destruct (negb (beq v S_OCRA1)); [discriminate|].
  pose proof (parse_crypto_total raw cr). destruct (parse_crypto raw cr) as [hd|e|]; cbn [obind]; [|discriminate|congruence].
  match goal with |- obind (parse_tokens ?c ?l) _ <> _ => pose proof (parse_tokens_total l c); destruct (parse_tokens c l) end;
    cbn [obind]; [|discriminate|congruence].
  destruct (suite_validate _); discriminate.
Qed.

Theorem new_raw_suite_total raw : new_raw_suite raw <> Panic.
Proof.
  unfold new_raw_suite. destruct (lookup raw known_suites); [destruct (suite_validate _); discriminate|apply parse_raw_suite_total].
Qed.
Theorem new_suite_total cfg : new_suite cfg <> Panic.
Proof. unfold new_suite. destruct (suite_validate cfg); discriminate. Qed.

(** ---- provisioning URLs ---- *)
Theorem generate_otp_url_total kind p extra : generate_otp_url kind p extra <> Panic.
Proof.
  unfold generate_otp_url. destruct (negb (nonempty (up_issuer p))); [discriminate|].
  destruct (negb (nonempty (up_account p))); [discriminate|]. destruct (negb (nonempty (up_secret p))); discriminate.
Qed.
Theorem parse_otpauth_url_total u : parse_otpauth_url u <> Panic.
Proof.
  unfold parse_otpauth_url, strip_slash. destruct u as [u|]; [|discriminate].
  destruct (negb (beq (u_scheme u) (s2b "otpauth"))); [discriminate|].
  destruct (negb _ && negb _); [destruct (all_ascii _); discriminate|].
  destruct (cut1 58 _) as [[issuer account] found]. destruct (negb found); [discriminate|]. cbv zeta.
  destruct (match query_get (s2b "digits") _ with [] => Some 6 | _ => _ end); [|discriminate].
  destruct (match query_get (s2b "algorithm") _ with [] => Some 0 | _ => _ end); [|discriminate].
  destruct (match query_get (s2b "period") _ with [] => Some 30 | _ => _ end); discriminate.
Qed.
