package main

import (
	"fmt"
	"go/ast"
	"go/constant"
	"go/types"
	"os"
	"strings"
)

// qualified name of the called function: "pkg.Func", "(pkg.Type).Method", or "" for local function values
func (fc *fctx) callee(e *ast.CallExpr) (string, types.Object) {
	t := fc.t
	switch f := e.Fun.(type) {
	case *ast.Ident:
		obj := t.info.ObjectOf(f)
		if obj == nil {
			return "", nil
		}
		if obj.Pkg() == nil {
			return "builtin." + f.Name, obj
		}
		if obj.Parent() == t.pkg.Types.Scope() {
			return "self." + f.Name, obj
		}
		return "", obj
	case *ast.SelectorExpr:
		if sel := t.info.Selections[f]; sel != nil {
			recv := sel.Recv()
			if p, ok := recv.(*types.Pointer); ok {
				recv = p.Elem()
			}
			if sel.Kind() == types.FieldVal {
				if n, ok := recv.(*types.Named); ok {
					return "field." + n.Obj().Name() + "." + f.Sel.Name, sel.Obj()
				}
				return "", sel.Obj()
			}
			if n, ok := recv.(*types.Named); ok {
				pk := ""
				if n.Obj().Pkg() != nil {
					pk = n.Obj().Pkg().Name()
				}
				return "(" + pk + "." + n.Obj().Name() + ")." + f.Sel.Name, sel.Obj()
			}
			return "", sel.Obj()
		}
		// package-qualified
		if id, ok := f.X.(*ast.Ident); ok {
			if pn, ok := t.info.ObjectOf(id).(*types.PkgName); ok {
				return pn.Imported().Name() + "." + f.Sel.Name, t.info.ObjectOf(f.Sel)
			}
		}
	}
	return "", nil
}

// callLocal emits a call of a translated function of the package
func (fc *fctx) callLocal(n ast.Node, q string, args []string) string {
	fi, ok := fc.t.done[q]
	if !ok {
		if why, bad := fc.t.failed[q]; bad {
			fc.t.fail(n, "calls %s, which is not translated (%s)", q, why)
		}
		fc.t.fail(n, "calls %s, which is not in the translated set", q)
	}
	var a []string
	a = append(a, fi.name)
	if fi.needsFuel {
		fc.needsFuel = true
		a = append(a, "fuel0")
	}
	for _, p := range fi.pools {
		fc.pools[p] = true
		a = append(a, p)
	}
	a = append(a, args...)
	return strings.Join(a, " ")
}

func (fc *fctx) args(e *ast.CallExpr) []string {
	var a []string
	sig, _ := fc.t.info.TypeOf(e.Fun).(*types.Signature)
	for i, x := range e.Args {
		if sig != nil && i < sig.Params().Len() && fc.t.kindOf(sig.Params().At(i).Type()) == kDetails {
			a = append(a, "tt") // the details of an error answer are not modelled (nor evaluated)
			continue
		}
		v := fc.expr(x)
		if sig != nil && i < sig.Params().Len() && fc.t.kindOf(sig.Params().At(i).Type()) == kSuiteI && fc.kind(x) == kSuite {
			v = "(Some " + v + ")" // a value stored in the interface
		}
		if sig != nil && i < sig.Params().Len() && fc.t.kindOf(sig.Params().At(i).Type()) == kDetails {
			v = "tt" // the details of an error answer are not modelled
		}
		a = append(a, v)
	}
	return a
}

// call translates a call in expression position and returns the name bound to its result
func (fc *fctx) call(e *ast.CallExpr, nres int) string {
	t := fc.t
	// conversions
	if tv, ok := t.info.Types[e.Fun]; ok && tv.IsType() {
		to := t.kindOf(tv.Type)
		x := e.Args[0]
		if n, ok := tv.Type.(*types.Named); ok && n.Obj().Name() == "CorruptInputError" {
			return "(Some (EBase32 " + fc.toZ(x) + "))"
		}
		if isInt(to) {
			if tv2, ok := t.info.Types[x]; ok && tv2.Value != nil {
				// constant converted: the checker has the value of the whole expression
				if tv3, ok := t.info.Types[e]; ok && tv3.Value != nil {
					return lit(to, tv3.Value, e, t)
				}
			}
			return fc.convert(e, to, x)
		}
		if to == kBytes && fc.kind(x) == kBytes {
			return fc.expr(x) // string <-> []byte
		}
		t.fail(e, "conversion to %s", tv.Type)
	}
	q, _ := fc.callee(e)
	switch q {
	case "builtin.len":
		x := e.Args[0]
		if fc.kind(x) != kBytes && fc.kind(x) != kStrList && fc.kind(x) != kJsList {
			t.fail(e, "len of %s", fc.typeOf(x))
		}
		return "(zlen " + fc.expr(x) + ")"
	case "builtin.make":
		if fc.kind(e) == kBytes && len(e.Args) == 2 {
			return fc.bind("make_bytes " + fc.toZ(e.Args[1]))
		}
		if fc.kind(e) == kStrList && len(e.Args) == 3 && isConstInt(t, e.Args[1], "0") {
			return "(@nil bytes)" // make([]string, 0, capacity): the capacity has no value effect
		}
		t.fail(e, "make of %s", fc.typeOf(e))
	case "builtin.append":
		if fc.kind(e) == kStrList && len(e.Args) == 2 && !e.Ellipsis.IsValid() {
			return "(" + fc.expr(e.Args[0]) + " ++ [" + fc.expr(e.Args[1]) + "])"
		}
		if fc.kind(e) != kBytes || len(e.Args) != 2 {
			t.fail(e, "append on %s", fc.typeOf(e))
		}
		a := fc.expr(e.Args[0])
		if e.Ellipsis.IsValid() {
			return "(" + a + " ++ " + fc.expr(e.Args[1]) + ")"
		}
		return "(" + a + " ++ [" + fc.expr(e.Args[1]) + "])"
	case "subtle.ConstantTimeCompare":
		a := fc.args(e)
		return "(ct_compare " + a[0] + " " + a[1] + ")"
	case "strings.TrimSpace":
		return "(trim_space " + fc.args(e)[0] + ")"
	case "strings.ToUpper":
		return "(to_upper_u " + fc.args(e)[0] + ")"
	case "hmac.New":
		h := fc.bind("deref " + fc.expr(e.Args[0]))
		return "(hmac_new " + h + " " + fc.expr(e.Args[1]) + ")"
	case "strconv.FormatUint":
		if tv, ok := t.info.Types[e.Args[1]]; ok && tv.Value != nil && constant.ToInt(tv.Value).ExactString() == "10" {
			return "(dec_of_N " + fc.expr(e.Args[0]) + ")"
		}
		t.fail(e, "strconv.FormatUint with a base other than the constant 10")
	case "(js.Value).Type":
		return fc.bind("js_type_go " + fc.expr(e.Fun.(*ast.SelectorExpr).X))
	case "(js.Value).String":
		return "(js_string_go " + fc.expr(e.Fun.(*ast.SelectorExpr).X) + ")"
	case "(js.Value).Int":
		return fc.bind("js_int_go " + fc.expr(e.Fun.(*ast.SelectorExpr).X))
	case "js.ValueOf":
		switch fc.kind(e.Args[0]) {
		case kBytes:
			return "(WStr " + fc.expr(e.Args[0]) + ")"
		case kBool:
			return "(WBool " + fc.expr(e.Args[0]) + ")"
		}
		t.fail(e, "js.ValueOf of %s", fc.typeOf(e.Args[0]))
	case "(error).Error", "(.error).Error":
		if t.mainMode {
			return fc.bind("deref " + fc.expr(e.Fun.(*ast.SelectorExpr).X))
		}
	case "(url.URL).String":
		u := fc.bind("deref " + fc.expr(e.Fun.(*ast.SelectorExpr).X))
		return "(url_string " + u + ")"
	case "time.Unix":
		if isConstInt(t, e.Args[1], "0") {
			return fc.expr(e.Args[0])
		}
		t.fail(e, "time.Unix with a nanosecond part")
	case "strings.ToLower":
		return "(to_lower " + fc.args(e)[0] + ")"
	case "strings.TrimPrefix":
		a := fc.args(e)
		return "(trim_prefix_go " + a[1] + " " + a[0] + ")"
	case "strings.SplitN":
		if tv, ok := t.info.Types[e.Args[1]]; ok && tv.Value != nil && len(constant.StringVal(tv.Value)) == 1 && isConstInt(t, e.Args[2], "2") {
			return fmt.Sprintf("(splitn2_go %d%%N %s)", constant.StringVal(tv.Value)[0], fc.expr(e.Args[0]))
		}
		t.fail(e, "strings.SplitN in another form than (s, one-byte constant, 2)")
	case "(url.URL).Query":
		u := fc.bind("deref " + fc.expr(e.Fun.(*ast.SelectorExpr).X))
		return "(parse_query (u_rawquery " + u + "))"
	case "(url.Values).Get":
		return "(query_get " + fc.args(e)[0] + " " + fc.expr(e.Fun.(*ast.SelectorExpr).X) + ")"
	case "(url.Values).Encode":
		return "(values_encode " + fc.expr(e.Fun.(*ast.SelectorExpr).X) + ")"
	case "url.PathEscape":
		return "(escape " + fc.args(e)[0] + " MPathSegment)"
	case "fmt.Sprintf":
		return fc.sprintf(e)
	case "strconv.ParseUint":
		ok := len(e.Args) == 3
		for i, want := range []string{"", "10", "64"} {
			if i > 0 && ok {
				tv, has := t.info.Types[e.Args[i]]
				ok = has && tv.Value != nil && constant.ToInt(tv.Value).ExactString() == want
			}
		}
		if !ok {
			t.fail(e, "strconv.ParseUint with other arguments than (s, 10, 64)")
		}
		return fc.bind("Val (parse_uint_go " + fc.expr(e.Args[0]) + ")")
	case "hex.DecodeString":
		return fc.bind("Val (hex_decode_go " + fc.expr(e.Args[0]) + ")")
	case "(big.Int).SetString":
		if exprText(e.Fun) != "new(…).SetString" || !isConstInt(t, e.Args[1], "10") {
			t.fail(e, "big.Int.SetString in another form than new(big.Int).SetString(s, 10)")
		}
		return fc.bind("Val (big_parse10 " + fc.expr(e.Args[0]) + ")")
	case "(big.Int).Text":
		if !isConstInt(t, e.Args[0], "16") {
			t.fail(e, "big.Int.Text with a base other than 16")
		}
		return "(big_text16 " + fc.expr(e.Fun.(*ast.SelectorExpr).X) + ")"
	case "(base32.Encoding).EncodeToString":
		if exprText(e.Fun) != "base32.StdEncoding.WithPadding(…).EncodeToString" {
			t.fail(e, "base32 encoding in another form than StdEncoding.WithPadding(NoPadding)")
		}
		if w, ok := e.Fun.(*ast.SelectorExpr).X.(*ast.CallExpr); !ok || len(w.Args) != 1 || exprText(w.Args[0]) != "base32.NoPadding" {
			t.fail(e, "base32 encoding with padding")
		}
		return "(b32_nopad " + fc.expr(e.Args[0]) + ")"
	case "strings.Split":
		if tv, ok := t.info.Types[e.Args[1]]; ok && tv.Value != nil && len(constant.StringVal(tv.Value)) == 1 {
			return fmt.Sprintf("(split %d%%N %s)", constant.StringVal(tv.Value)[0], fc.expr(e.Args[0]))
		}
		t.fail(e, "strings.Split with a separator that is not a one-byte constant")
	case "strings.HasPrefix":
		a := fc.args(e)
		return "(is_prefix " + a[1] + " " + a[0] + ")"
	case "strconv.Atoi":
		return fc.bind("Val (atoi_go " + fc.args(e)[0] + ")")
	case "errors.New":
		if t.mainMode {
			return "(Some " + fc.expr(e.Args[0]) + ")" // errors are their text
		}
		return fc.errorf(e)
	case "strings.Repeat":
		return fc.bind("str_repeat " + fc.expr(e.Args[0]) + " " + fc.toZ(e.Args[1]))
	case "(base32.Encoding).DecodeString":
		if !strings.HasSuffix(exprText(e.Fun), "base32.StdEncoding.DecodeString") {
			t.fail(e, "base32 decoding with another encoding than StdEncoding")
		}
		return fc.bind("Val (b32_decode_go " + fc.args(e)[0] + ")")
	case "fmt.Errorf":
		if t.mainMode {
			return "(Some " + fc.sprintf(e) + ")" // the binding's errors are their text
		}
		return fc.errorf(e)
	case "(time.Time).Unix":
		return fc.expr(e.Fun.(*ast.SelectorExpr).X)
	case "(hash.Hash).Sum":
		recv := fc.expr(e.Fun.(*ast.SelectorExpr).X)
		arg := "[]"
		if !isNilIdent(t, e.Args[0]) {
			arg = fc.expr(e.Args[0])
		}
		return "(hash_sum " + recv + " " + arg + ")"
	case "field.hashPool.new":
		recv := fc.expr(e.Fun.(*ast.SelectorExpr).X)
		return "(hmac_new " + recv + " " + fc.args(e)[0] + ")"
	case "(otp.Suite).Validate", "(otp.Suite).Config", "(otp.Suite).String":
		if t.restMode {
			m := e.Fun.(*ast.SelectorExpr).Sel.Name
			recv := fc.bind("deref " + fc.expr(e.Fun.(*ast.SelectorExpr).X)) // a nil interface: the method call panics
			return fc.libCall(e, "SuiteConfig."+m, recv)
		}
		// interface dispatch: both implementations are translated and shown equal (see iface lemmas)
		m := e.Fun.(*ast.SelectorExpr).Sel.Name
		fc.t.ifaceUsed[m] = true
		recv := fc.bind("deref " + fc.expr(e.Fun.(*ast.SelectorExpr).X)) // a nil interface: the method call panics
		return fc.bind(fc.callLocal(e, "SuiteConfig."+m, []string{recv}))
	}
	if t.restMode {
		if v, ok := fc.restCall(e, q); ok {
			return v
		}
	}
	if t.mainMode && strings.HasPrefix(q, "otp.") {
		return fc.libCall(e, strings.TrimPrefix(q, "otp."))
	}
	if strings.HasPrefix(q, "self.") {
		name := strings.TrimPrefix(q, "self.")
		v := fc.bind(fc.callLocal(e, name, fc.args(e)))
		if fi := t.done[name]; fi != nil && len(fi.inout) > 0 {
			// f(&x, ...): the callee returns its results followed by the new value of x
			var pats []string
			nres := fi.nres
			var rs []string
			for i := 0; i < nres; i++ {
				r := fc.tmp()
				rs = append(rs, r)
				pats = append(pats, r)
			}
			for _, ai := range fi.inout {
				if id, ok := e.Args[ai].(*ast.Ident); ok && fc.kind(id) == kCtx {
					pats = append(pats, fc.varName(t.info.ObjectOf(id).(*types.Var)))
					continue
				}
				u, ok := e.Args[ai].(*ast.UnaryExpr)
				if !ok {
					t.fail(e, "in/out argument that is not &variable")
				}
				id, ok := u.X.(*ast.Ident)
				if !ok {
					t.fail(e, "in/out argument that is not &variable")
				}
				pats = append(pats, fc.varName(t.info.ObjectOf(id).(*types.Var)))
			}
			fc.pre = append(fc.pre, "let '("+strings.Join(pats, ", ")+") := "+v+" in")
			if nres == 1 {
				return rs[0]
			}
			return "(" + strings.Join(rs, ", ") + ")"
		}
		return v
	}
	if t.mainMode && q == "(otp.Digits).Int" {
		return fc.bind("Src.Digits_Int " + fc.expr(e.Fun.(*ast.SelectorExpr).X))
	}
	if strings.HasPrefix(q, "(otp.") {
		// method of a type of the package
		name := strings.TrimSuffix(strings.TrimPrefix(q, "(otp."), "")
		name = strings.Replace(name, ").", ".", 1)
		recv := fc.expr(e.Fun.(*ast.SelectorExpr).X)
		return fc.bind(fc.callLocal(e, name, append([]string{recv}, fc.args(e)...)))
	}
	if q == "" {
		// a local function value
		if id, ok := e.Fun.(*ast.Ident); ok && fc.kind(id) == kFunc && len(e.Args) == 0 {
			return fc.bind(fc.expr(id) + " tt")
		}
	}
	t.fail(e, "call of %s", exprText(e.Fun))
	return ""
}

func isConstInt(t *tr, x ast.Expr, want string) bool {
	tv, ok := t.info.Types[x]
	return ok && tv.Value != nil && constant.ToInt(tv.Value).ExactString() == want
}

func isNilIdent(t *tr, x ast.Expr) bool {
	id, ok := x.(*ast.Ident)
	if !ok {
		return false
	}
	_, isn := t.info.ObjectOf(id).(*types.Nil)
	return isn
}

func exprText(e ast.Expr) string {
	switch e := e.(type) {
	case *ast.Ident:
		return e.Name
	case *ast.SelectorExpr:
		return exprText(e.X) + "." + e.Sel.Name
	case *ast.CallExpr:
		return exprText(e.Fun) + "(…)"
	case *ast.StarExpr:
		return "*" + exprText(e.X)
	case *ast.ParenExpr:
		return "(" + exprText(e.X) + ")"
	case *ast.IndexExpr:
		return exprText(e.X) + "[…]"
	}
	return "?"
}

// fmt.Errorf with a template of the table: Some (EFmt tag [ints] [strings])
func (fc *fctx) errorf(e *ast.CallExpr) string {
	t := fc.t
	tv, ok := t.info.Types[e.Args[0]]
	if !ok || tv.Value == nil {
		t.fail(e, "fmt.Errorf with a computed format")
	}
	tmpl := constant.StringVal(tv.Value)
	tag, ok := errTemplates[tmpl]
	if !ok {
		t.fail(e, "error text %q is not one the model knows", tmpl)
	}
	if strings.HasPrefix(tag, "EStd") {
		return "(Some (" + tag + " []))"
	}
	var nums, strs []string
	for _, a := range e.Args[1:] {
		k := fc.kind(a)
		switch {
		case isInt(k):
			nums = append(nums, fc.toZ(a))
		case k == kBytes:
			strs = append(strs, fc.expr(a))
		case k == kErr:
			// %w: the wrapped error's text is not part of the model's structured error
		default:
			t.fail(a, "error argument of type %s", fc.typeOf(a))
		}
	}
	return "(Some (" + tag + " [" + strings.Join(nums, "; ") + "] [" + strings.Join(strs, "; ") + "]))"
}

// fmt.Sprintf with a constant template of literal text, %s (strings) and %d (integers)
func (fc *fctx) sprintf(e *ast.CallExpr) string {
	t := fc.t
	tv, ok := t.info.Types[e.Args[0]]
	if !ok || tv.Value == nil {
		t.fail(e, "fmt.Sprintf with a computed format")
	}
	tmpl := constant.StringVal(tv.Value)
	var parts []string
	lit := ""
	ai := 1
	flush := func() {
		if lit != "" {
			var bs []string
			for _, c := range []byte(lit) {
				bs = append(bs, fmt.Sprintf("%d", c))
			}
			parts = append(parts, "["+strings.Join(bs, "; ")+"]")
			lit = ""
		}
	}
	for i := 0; i < len(tmpl); i++ {
		if tmpl[i] != '%' {
			lit += string(tmpl[i])
			continue
		}
		if i+1 >= len(tmpl) || ai >= len(e.Args) {
			t.fail(e, "fmt.Sprintf template %q", tmpl)
		}
		flush()
		a := e.Args[ai]
		ai++
		k := fc.kind(a)
		switch tmpl[i+1] {
		case 's':
			switch {
			case k == kBytes || k == kJsType:
				parts = append(parts, fc.expr(a))
			case k == kErr && t.mainMode:
				parts = append(parts, fc.bind("deref "+fc.expr(a)))
			default:
				t.fail(a, "%%s of %s", fc.typeOf(a))
			}
		case 'd':
			switch {
			case isUnsigned(k):
				parts = append(parts, "(dec_of_N "+fc.expr(a)+")")
			case k == kI64 || k == kI32:
				parts = append(parts, "(dec_of_Z "+fc.expr(a)+")")
			default:
				t.fail(a, "%%d of %s", fc.typeOf(a))
			}
		default:
			t.fail(e, "fmt.Sprintf verb %%%c", tmpl[i+1])
		}
		i++
	}
	flush()
	if ai != len(e.Args) {
		t.fail(e, "fmt.Sprintf argument count")
	}
	if len(parts) == 0 {
		return "[]"
	}
	return "(" + strings.Join(parts, " ++ ") + ")"
}

// the library functions the binding calls: their translations in Src / SrcWasm; library errors become their text
type libFn struct {
	coq   string
	fuel  bool
	pools []string
	nres  int
	err   bool // last result is an error
}

var libFuncs = map[string]libFn{
	"DigitsFromStr":     {"Src.DigitsFromStr", false, nil, 1, false},
	"AlgorithmFromStr":  {"Src.AlgorithmFromStr", false, nil, 1, false},
	"DecodeSecret":      {"Src.DecodeSecret", true, nil, 2, true},
	"TimeCounterFunc":   {"Src.TimeCounterFunc", false, nil, 1, false},
	"GenerateTOTPURL":   {"Src.GenerateTOTPURL", true, nil, 2, true},
	"GenerateHOTPURL":   {"Src.GenerateHOTPURL", true, nil, 2, true},
	"DeriveRFC4226Wasm": {"SrcWasm.DeriveRFC4226Wasm", true, nil, 2, true},
	"ValidateOTPWasm":   {"SrcWasm.ValidateOTPWasm", true, nil, 2, true},
}

func (fc *fctx) libCall(e *ast.CallExpr, name string, recvArgs ...string) string {
	lf, ok := libFuncs[name]
	if fc.t.restMode {
		lf, ok = libFuncsRest[name]
		if sig, has := fc.t.libSigs[strings.ReplaceAll(name, ".", "_")]; ok && has {
			lf.fuel, lf.pools = sig.fuel, sig.pools // as Generated/Src.v declares it on this run
		} else if ok && fc.t.libSigs != nil {
			fc.t.fail(e, "library function otp.%s has no translation in Generated/Src.v on this run", name)
		}
	}
	if !ok {
		fc.t.fail(e, "library function otp.%s is not among the translated ones the binding may call", name)
	}
	a := []string{lf.coq}
	if lf.fuel {
		fc.needsFuel = true
		a = append(a, "fuel0")
	}
	for _, p := range lf.pools {
		fc.pools[p] = true
		a = append(a, p)
	}
	a = append(a, recvArgs...)
	a = append(a, fc.args(e)...)
	v := fc.bind(strings.Join(a, " "))
	if lf.err {
		w := fc.tmp()
		fc.pre = append(fc.pre, "let "+w+" := (fst "+v+", option_map err_text (snd "+v+")) in")
		return w
	}
	return v
}

// readLibSigs: which translated library functions take fuel and which pool oracles, from the headers of Generated/Src.v
func readLibSigs(path string) map[string]libFn {
	data, err := os.ReadFile(path)
	if err != nil {
		return nil
	}
	m := map[string]libFn{}
	for _, line := range strings.Split(string(data), "\n") {
		if !strings.HasPrefix(line, "Definition ") || !strings.Contains(line, " : res ") {
			continue
		}
		f := strings.Fields(line)
		lf := libFn{fuel: strings.Contains(line, "(fuel0 : nat)")}
		for _, w := range f {
			if strings.HasPrefix(w, "(junk_") {
				lf.pools = append(lf.pools, strings.TrimPrefix(w, "("))
			}
		}
		m[f[1]] = lf
	}
	return m
}

// restCall: the calls of the REST layer into fasthttp, encoding/json, net/http, time and the library
func (fc *fctx) restCall(e *ast.CallExpr, q string) (string, bool) {
	t := fc.t
	recvOf := func() ast.Expr { return e.Fun.(*ast.SelectorExpr).X }
	switch q {
	case "(fasthttp.RequestCtx).IsPost":
		return "(ctx_is_post " + fc.expr(recvOf()) + ")", true
	case "(fasthttp.RequestCtx).IsGet":
		return "(ctx_is_get " + fc.expr(recvOf()) + ")", true
	case "(fasthttp.RequestCtx).Path":
		return "(ctx_path " + fc.expr(recvOf()) + ")", true
	case "(fasthttp.Args).Peek":
		if c, ok := recvOf().(*ast.CallExpr); ok {
			if q2, _ := fc.callee(c); q2 == "(fasthttp.RequestCtx).QueryArgs" {
				if tv, ok := t.info.Types[e.Args[0]]; ok && tv.Value != nil && constant.StringVal(tv.Value) == "algorithm" {
					return "(ctx_query_alg " + fc.expr(c.Fun.(*ast.SelectorExpr).X) + ")", true
				}
			}
		}
		t.fail(e, "query argument other than QueryArgs().Peek(\"algorithm\")")
	case "http.StatusText":
		return "(status_text " + fc.toZ(e.Args[0]) + ")", true
	case "time.Now":
		if fc.ctxVar == "" {
			t.fail(e, "time.Now outside a handler")
		}
		return "(cx_now " + fc.ctxVar + ")", true
	case "json.Unmarshal":
		// json.Unmarshal(ctx.PostBody(), &req) into a zero value: the decoder generated from the struct's tags
		src, ok := e.Args[0].(*ast.CallExpr)
		if q2, _ := fc.callee(src); !ok || q2 != "(fasthttp.RequestCtx).PostBody" {
			t.fail(e, "json.Unmarshal of something else than ctx.PostBody()")
		}
		u, ok := e.Args[1].(*ast.UnaryExpr)
		if !ok {
			t.fail(e, "json.Unmarshal into something else than &variable")
		}
		id, ok := u.X.(*ast.Ident)
		if !ok || fc.kind(id) != kLocal {
			t.fail(e, "json.Unmarshal into something else than &variable of a struct of the package")
		}
		v := t.info.ObjectOf(id).(*types.Var)
		if !fc.zeroVars[v] {
			t.fail(e, "json.Unmarshal into a variable that may not hold the zero value")
		}
		n := v.Type().(*types.Named).Obj().Name()
		if !t.hasDecode[n] {
			t.fail(e, "no decoder for struct %s", n)
		}
		er := fc.tmp()
		fc.pre = append(fc.pre, "let '("+fc.varName(v)+", "+er+") := unmarshal_"+n+" (ctx_body "+fc.expr(src.Fun.(*ast.SelectorExpr).X)+") in")
		delete(fc.zeroVars, v)
		return er, true
	case "json.Marshal":
		return "(" + fc.marshal(e, e.Args[0]) + ", @None bytes)", true
	case "(json.Encoder).Encode":
		// json.NewEncoder(ctx).Encode(v): writes the printed value as the body
		c, ok := recvOf().(*ast.CallExpr)
		if q2, _ := fc.callee(c); !ok || q2 != "json.NewEncoder" || fc.kind(c.Args[0]) != kCtx {
			t.fail(e, "json encoder on something else than the request context")
		}
		id, ok := c.Args[0].(*ast.Ident)
		if !ok {
			t.fail(e, "json encoder on something else than the request context variable")
		}
		name := fc.varName(t.info.ObjectOf(id).(*types.Var))
		fc.pre = append(fc.pre, "let "+name+" := ctx_set_body "+name+" "+fc.marshal(e, e.Args[0])+" in")
		return "(@None bytes)", true
	case "(otp.Algorithm).String":
		return fc.libCall(e, "Algorithm.String", fc.expr(recvOf())), true
	}
	if strings.HasPrefix(q, "(api.") || strings.HasPrefix(q, "("+t.pkg.Name+".") {
		// a method of a struct of the package (pointer receivers are read-only: checked where they are translated)
		name := strings.Replace(strings.TrimPrefix(q, "("+t.pkg.Name+"."), ").", ".", 1)
		return fc.bind(fc.callLocal(e, name, append([]string{fc.expr(recvOf())}, fc.args(e)...))), true
	}
	// h()(ctx): a handler constructor applied, then called
	if inner, ok := e.Fun.(*ast.CallExpr); ok && len(inner.Args) == 0 && len(e.Args) == 1 && fc.kind(e.Args[0]) == kCtx {
		if q2, _ := fc.callee(inner); strings.HasPrefix(q2, "self.") {
			id, ok := e.Args[0].(*ast.Ident)
			if !ok {
				t.fail(e, "handler applied to something else than the context variable")
			}
			name := fc.varName(t.info.ObjectOf(id).(*types.Var))
			v := fc.bind(fc.callLocal(e, strings.TrimPrefix(q2, "self."), []string{name}))
			fc.pre = append(fc.pre, "let "+name+" := "+v+" in")
			return "tt", true
		}
		if exprText(inner.Fun) == "fastHttpSwagger.WrapHandler" {
			id, ok := e.Args[0].(*ast.Ident)
			if !ok {
				t.fail(e, "handler applied to something else than the context variable")
			}
			name := fc.varName(t.info.ObjectOf(id).(*types.Var))
			fc.pre = append(fc.pre, "let "+name+" := ctx_other "+name+" in")
			return "tt", true
		}
	}
	return "", false
}

func (fc *fctx) marshal(n ast.Node, x ast.Expr) string {
	if fc.kind(x) != kLocal {
		fc.t.fail(n, "json encoding of %s", fc.typeOf(x))
	}
	name := fc.typeOf(x).(*types.Named).Obj().Name()
	if !fc.t.hasMarshal[name] {
		fc.t.fail(n, "no printer for struct %s", name)
	}
	return "(marshal_" + name + " " + fc.expr(x) + ")"
}
