(** C14 — OCRA admits an input exactly when it meets the suite's field requirements. *)
From OtpV Require Import Prelude Sha Tables Decoder Derive Otp Ocra Rfc4226 Rfc6287 DeriveProofs OtpProofs OcraProofs Errors.
Open Scope N_scope.

(** a suite is usable exactly when its digits are 4..10, its hash is supported, and each
    selected field has its format / password hash / positive time step specified *)
Theorem C14_suite : forall cfg,
  suite_validate cfg = None <->
  (4 <= sc_digits cfg <= 10)%Z /\ sc_hash cfg < 3 /\
  (sc_p cfg = true -> sc_pwhash cfg <> 0%Z) /\
  (sc_t cfg = true -> (0 < sc_timestep cfg)%Z) /\
  (sc_q cfg = true -> sc_challenge cfg <> 0%Z).
Proof. exact suite_validate_iff. Qed.
Print Assumptions C14_suite.

(** an input is admitted exactly when each *selected* field meets its requirement; fields the
    suite does not select are not constrained (they do not occur in [admissible]) *)
Theorem C14_input : forall cfg i,
  (0 <= sc_challenge cfg <= 6)%Z /\ (sc_p cfg = true -> 1 <= sc_pwhash cfg <= 3)%Z ->
  (input_validate cfg i = None <->
   (sc_c cfg = true -> zlen (oi_counter i) = 8%Z) /\
   (sc_q cfg = true -> (chal_min (sc_challenge cfg) <= zlen (oi_challenge i) <= 128)%Z) /\
   (sc_p cfg = true -> zlen (oi_password i) = pw_len (sc_pwhash cfg)) /\
   (sc_s cfg = true -> (zlen (oi_session i) <= 128)%Z) /\
   (sc_t cfg = true -> zlen (oi_timestamp i) = 8%Z)).
Proof. exact input_validate_iff. Qed.
Print Assumptions C14_input.

(** the minimum is 8 for the ..08 formats and 10 for the ..10 formats; the password length is
    20/32/64 for SHA-1/256/512 *)
Theorem C14_minima :
  map chal_min [1; 2; 3; 4; 5; 6]%Z = [8; 10; 8; 10; 8; 10]%Z /\ map pw_len [1; 2; 3]%Z = [20; 32; 64]%Z.
Proof. split; reflexivity. Qed.
Print Assumptions C14_minima.

(** generation gets past admission exactly when the secret decodes, the suite is usable and
    the input admissible; validation accepts exactly generation's code (C06_iff), so the same
    admission governs validation *)
Theorem C14_entry : forall secret cfg i,
  (0 <= sc_challenge cfg <= 6)%Z /\ (sc_p cfg = true -> 1 <= sc_pwhash cfg <= 3)%Z ->
  ((exists code, generate_ocra secret cfg i = Ok code)
   <-> (exists key, decode_secret secret = Ok key) /\ usable cfg /\ admissible cfg i).
Proof. exact (generate_ocra_admits hmac hmac_length hmac_wf). Qed.
Print Assumptions C14_entry.

(** non-vacuity: a 7-byte challenge is refused, an 8-byte one admitted, for QN08 *)
Example C14_boundary :
  let cfg := mkSuite [] 0 6 1 false true false false false 0 0 in
  input_validate cfg (mkInput [] (repeat 1 7) [] [] []) <> None /\
  input_validate cfg (mkInput [] (repeat 1 8) [] [] []) = None /\
  input_validate cfg (mkInput (repeat 9 99) (repeat 1 128) (repeat 9 99) (repeat 9 200) []) = None /\
  input_validate cfg (mkInput [] (repeat 1 129) [] [] []) <> None.
Proof. vm_compute. repeat split; discriminate. Qed.
