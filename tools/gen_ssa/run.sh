#!/bin/sh
# regenerate the SSA fact bases from the repository (native build: library + REST module; js/wasm build: library + binding)
ROOT=$(cd "$(dirname "$0")/../.." && pwd)
REPO=${VERIF_REPO:-/repo}
unset GOFLAGS GOWORK
export GOPROXY=off
"$ROOT/bin/gen_ssa" "$REPO" "$ROOT/coq/Generated/SsaNative.v" SsaNative native || exit 1
"$ROOT/bin/gen_ssa" "$REPO" "$ROOT/coq/Generated/SsaWasm.v" SsaWasm wasm || exit 1
