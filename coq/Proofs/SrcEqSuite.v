(** The suite-string parser and the registry functions of suite_rfc6287.go as translated from the Go source
    (Generated/Src.v) compute what the hand-written model (Model/Suite.v) computes. *)
From Coq Require Import ZifyN ZifyNat ZifyBool String.
From OtpV Require Import Prelude Sha Tables GoSem Errors Decoder Derive Otp Ocra Utils Suite Src SrcLift SrcTop SrcEqOcraV.
Open Scope N_scope.
Ltac Zify.zify_post_hook ::= Z.to_euclidean_division_equations.

Definition lift_z (o : outcome Z) : res (Z * option err) :=
  match o with Ok z => Val (z, None) | Err e => Val (0%Z, Some e) | Panic => Pnc end.

Lemma wrap_int64_range z : (- 9223372036854775808 <= wrap_int64 z < 9223372036854775808)%Z.
Proof.
  unfold wrap_int64, to_int64, of_int64, two63, two64.
  change (Z.of_N 18446744073709551616) with 18446744073709551616%Z.
  assert (0 <= z mod 18446744073709551616 < 18446744073709551616)%Z by (apply Z.mod_pos_bound; lia).
  rewrite Z2N.id by lia.
  destruct (N.ltb_spec (Z.to_N (z mod 18446744073709551616)) 9223372036854775808); lia.
Qed.

Lemma slice_firstn s k : (0 <= k <= zlen s)%Z -> slice s 0 k = Val (firstn (Z.to_nat k) s).
Proof.
  intros H. unfold slice. destruct (0 <? 0)%Z eqn:E0; [lia|]. destruct (k <? 0)%Z eqn:E1; [lia|].
  destruct (zlen s <? k)%Z eqn:E2; [lia|]. cbn [orb skipn Z.to_nat]. rewrite Z.sub_0_r. reflexivity.
Qed.

Lemma slice_skipn s k : (0 <= k <= zlen s)%Z -> slice s k (zlen s) = Val (skipn (Z.to_nat k) s).
Proof.
  intros H. unfold slice. destruct (k <? 0)%Z eqn:E0; [lia|]. destruct (zlen s <? k)%Z eqn:E1; [lia|].
  rewrite Z.ltb_irrefl. cbn [orb]. f_equal. apply firstn_all2. rewrite skipn_length. unfold zlen in *. lia.
Qed.

Lemma slice_bad s k : (zlen s < k)%Z -> slice s k (zlen s) = Pnc.
Proof. intros H. unfold slice. destruct (zlen s <? k)%Z eqn:E; [|lia]. rewrite orb_true_r. reflexivity. Qed.

Lemma src_parseTimeGranularity_eq g : small g ->
  Src.parseTimeGranularity g = lift_z (Suite.parse_time_gran g).
Proof.
  intros Hs. unfold Src.parseTimeGranularity, Suite.parse_time_gran, small, zlen in *.
  destruct (Nat.ltb_spec (length g) 2) as [Hl|Hl].
  - destruct (Z.ltb (Z.of_nat (length g)) 2) eqn:E; [reflexivity|lia].
  - destruct (Z.ltb (Z.of_nat (length g)) 2) eqn:E; [lia|].
    rewrite wrap_int64_small by lia.
    rewrite slice_firstn by (unfold zlen; lia). cbn [rbind].
    replace (Z.to_nat (Z.of_nat (length g) - 1)) with (length g - 1)%nat by lia.
    pose proof (idx_last g) as Hlast. unfold small, zlen in Hlast. rewrite wrap_int64_small in Hlast by lia.
    rewrite Hlast by lia. destruct g as [|a g']; [simpl in Hl; lia|]. cbn [rbind].
    set (gg := a :: g') in *.
    unfold atoi_go. destruct (atoi (firstn (length gg - 1) gg)) as [v|]; [|reflexivity]. cbn [rbind is_some].
    cbv zeta.
    assert (Hdiv : forall m, (m = 1 \/ m = 60 \/ m = 3600)%Z ->
       (do t5 <- sdiv (wrap_int64 (v * m)) m; if (t5 =? v)%Z then Val (wrap_int64 (v * m), @None err) else Val (0%Z, Some (EStd 13 [])))
       = lift_z (if (m =? 0)%Z then Err (EStd 12 []) else if (Z.quot (mul_int v m) m =? v)%Z then Ok (mul_int v m) else Err (EStd 13 []))).
    { intros m Hm. unfold sdiv, mul_int. pose proof (wrap_int64_range (v * m)) as Hr.
      destruct (m =? 0)%Z eqn:Em; [lia|]. cbn [rbind].
      rewrite wrap_int64_small by (destruct Hm as [->|[->| ->]]; lia).
      destruct (Z.quot (wrap_int64 (v * m)) m =? v)%Z; reflexivity. }
    destruct (N.eqb (last gg 0) 83) eqn:E1; [apply (Hdiv 1%Z); lia|].
    destruct (N.eqb (last gg 0) 77) eqn:E2; [apply (Hdiv 60%Z); lia|].
    destruct (N.eqb (last gg 0) 72) eqn:E3; [apply (Hdiv 3600%Z); lia|].
    reflexivity.
Qed.

(** ---------- parseCryptoFunction ---------- *)
Definition cfg_hd (h : N) (d : Z) : suite_cfg := mkSuite [] h d 0 false false false false false 0 0.
Definition lift_hd (o : outcome (N * Z)) : res (suite_cfg * option err) :=
  match o with Ok (h, d) => Val (cfg_hd h d, None) | Err e => Val (zero_cfg, Some e) | Panic => Pnc end.

Lemma idxS_nat l i : idxS l (Z.of_nat i) = match nth_error l i with Some b => Val b | None => Pnc end.
Proof. unfold idxS. destruct (Z.of_nat i <? 0)%Z eqn:E; [lia|]. rewrite Nat2Z.id. reflexivity. Qed.

Lemma zlen_eqb {A} (l : list A) n : (zlen l =? Z.of_nat n)%Z = Nat.eqb (length l) n.
Proof. unfold zlen. destruct (Nat.eqb_spec (length l) n); lia. Qed.

Lemma src_parseCryptoFunction_eq raw crypto : small crypto ->
  Src.parseCryptoFunction raw crypto = lift_hd (Suite.parse_crypto raw crypto).
Proof.
  intros Hs. unfold Src.parseCryptoFunction, Suite.parse_crypto, S_HOTP_SHA, small in *. unfold zlen in Hs.
  destruct (negb (is_prefix (s2b "HOTP-SHA") (to_upper_u crypto))); [reflexivity|].
  destruct (Nat.ltb_spec (length crypto) 5) as [Hl|Hl].
  - rewrite slice_bad by (unfold zlen; lia). reflexivity.
  - rewrite slice_skipn by (unfold zlen; lia). cbn [rbind]. change (Z.to_nat 5) with 5%nat.
    set (rest := skipn 5 crypto).
    change 2%Z with (Z.of_nat 2). rewrite zlen_eqb.
    destruct (split 45 rest) as [|hashPart [|digPart [|x l]]] eqn:Esp;
      cbn [length Nat.eqb negb]; try reflexivity.
    replace (idxS [hashPart; digPart] 0) with (Val hashPart) by reflexivity.
    replace (idxS [hashPart; digPart] 1) with (Val digPart) by reflexivity. cbn [rbind].
      cbv zeta. unfold Suite.beq. change Otp.bytes_eqb with GoSem.beqb.
      unfold c_SHA1, c_SHA256, c_SHA512. cbn [Z.to_N].
      assert (Hd : forall h, (do t5 <- Val (atoi_go digPart);
                  let '(dig, err_) := t5 in
                  if is_some err_ then Val (mkSuite [] 0 0 0 false false false false false 0 0, Some (EFmt T_suite_digits [] [digPart]))
                  else Val (mkSuite [] h dig 0 false false false false false 0 0, None))
                = lift_hd (match atoi digPart with None => Err (EFmt T_suite_digits [] [digPart]) | Some d => Ok (h, d) end)).
      { intros h. unfold atoi_go. destruct (atoi digPart); reflexivity. }
      destruct (beqb (to_upper_u hashPart) (s2b "SHA1")); [apply Hd|].
      destruct (beqb (to_upper_u hashPart) (s2b "SHA256")); [apply Hd|].
      destruct (beqb (to_upper_u hashPart) (s2b "SHA512")); [apply Hd|].
      reflexivity.
Qed.

(** ---------- parseDataInputTokens ---------- *)
(** the configuration returned next to an error is not looked at by the caller *)
Definition tok_rel (r : res (option err * suite_cfg)) (o : outcome suite_cfg) : Prop :=
  match o with
  | Ok c => r = Val (None, c)
  | Err e => exists c, r = Val (Some e, c)
  | Panic => r = Pnc
  end.

Lemma is_prefix_nonempty p s : p <> [] -> is_prefix p s = true -> s <> [].
Proof. intros Hp H. destruct p as [|a p]; [congruence|]. destruct s; [discriminate|congruence]. Qed.

Lemma src_tokens_eq fuel0 : forall toks cfg, Forall small toks ->
  tok_rel (Src.parseDataInputTokens_loop1 toks fuel0 cfg (fun cfg => Val (None, cfg))) (Suite.parse_tokens cfg toks).
Proof.
  induction toks as [|tok rest IH]; intros cfg Hsm.
  - reflexivity.
  - apply Forall_cons_iff in Hsm. destruct Hsm as [Hst Hsr].
    cbn [Src.parseDataInputTokens_loop1 Suite.parse_tokens]. unfold Suite.parse_token. cbv zeta.
    unfold Suite.beq. change Otp.bytes_eqb with GoSem.beqb.
    unfold c_ChallengeNumeric08, c_ChallengeNumeric10, c_PasswordSHA1, c_PasswordSHA256, c_PasswordSHA512.
    set (tokU := to_upper_u tok).
    destruct (beqb tokU (s2b "C")); [cbn [obind]; apply IH; assumption|].
    destruct (is_prefix (s2b "QN") tokU) eqn:Eqn.
    { change 4%Z with (Z.of_nat 4). rewrite zlen_eqb.
      destruct (Nat.eqb_spec (length tokU) 4) as [E4|E4].
      - rewrite slice_skipn by (unfold zlen; lia). cbn [rbind]. change (Z.to_nat 2) with 2%nat.
        destruct (beqb (skipn 2 tokU) (s2b "08")); [cbn [obind]; apply IH; assumption|].
        destruct (beqb (skipn 2 tokU) (s2b "10")); [cbn [obind]; apply IH; assumption|].
        cbn [obind tok_rel]. eexists. reflexivity.
      - cbn [obind]. apply IH; assumption. }
    destruct (is_prefix (s2b "QA") tokU); [cbn [obind]; apply IH; assumption|].
    destruct (is_prefix (s2b "QH") tokU); [cbn [obind]; apply IH; assumption|].
    destruct (is_prefix (s2b "PSHA") tokU).
    { destruct (beqb tokU (s2b "PSHA1")); [cbn [obind]; apply IH; assumption|].
      destruct (beqb tokU (s2b "PSHA256")); [cbn [obind]; apply IH; assumption|].
      destruct (beqb tokU (s2b "PSHA512")); [cbn [obind]; apply IH; assumption|].
      cbn [obind tok_rel]. eexists. reflexivity. }
    destruct (is_prefix (s2b "T") tokU).
    { destruct tok as [|a gran].
      - cbn [obind tok_rel]. reflexivity.
      - rewrite slice_skipn by (unfold zlen; cbn [length]; lia). cbn [rbind skipn Z.to_nat Pos.to_nat Pos.iter_op Nat.add].
        change (skipn (Pos.to_nat 1) (a :: gran)) with gran.
        assert (Hsg : small gran) by (unfold small, zlen in *; cbn [length] in Hst; lia).
        rewrite (src_parseTimeGranularity_eq gran Hsg).
        destruct (Suite.parse_time_gran gran) as [secs|e|]; cbn [lift_z rbind is_some obind tok_rel].
        + apply IH; assumption.
        + eexists. reflexivity.
        + reflexivity. }
    destruct (is_prefix (s2b "S") tokU); [cbn [obind]; apply IH; assumption|].
    cbn [obind tok_rel]. eexists. reflexivity.
Qed.

(** ---------- parseRawSuite, NewRawSuite, NewSuite, IsKnownSuite, SuiteConfigFromRaws ---------- *)
Definition lift_cfg (o : outcome suite_cfg) : res (suite_cfg * option err) :=
  match o with Ok c => Val (c, None) | Err e => Val (zero_cfg, Some e) | Panic => Pnc end.

Lemma split_small sep s : small s -> Forall small (split sep s).
Proof.
  intros Hs. apply Forall_forall. intros p Hp.
  assert (forall cur s0, (forall q, In q (split_aux sep s0 cur) -> (length q <= length cur + length s0)%nat)) as H.
  { intros cur s0. revert cur. induction s0 as [|c t IH]; intros cur q Hq; cbn [split_aux] in Hq.
    - destruct Hq as [<-|[]]. rewrite frev_rev, rev_length. lia.
    - destruct (c =? sep).
      + destruct Hq as [<-|Hq]; [rewrite frev_rev, rev_length; cbn [length]; lia|].
        specialize (IH [] q Hq). cbn [length] in *. lia.
      + specialize (IH (c :: cur) q Hq). cbn [length] in *. lia. }
  specialize (H [] s p Hp). unfold small, zlen in *. cbn [length] in H. lia.
Qed.

Lemma src_parseRawSuite_eq fuel raw : small raw ->
  Src.parseRawSuite fuel raw = lift_cfg (Suite.parse_raw_suite raw).
Proof.
  intros Hs. unfold Src.parseRawSuite, Suite.parse_raw_suite, S_OCRA1.
  pose proof (split_small 58 raw Hs) as Hsp.
  change 3%Z with (Z.of_nat 3). rewrite zlen_eqb.
  destruct (split 58 raw) as [|version [|crypto [|dataInput [|x l]]]] eqn:Esp; cbn [length Nat.eqb negb]; try reflexivity.
  replace (idxS [version; crypto; dataInput] 1) with (Val crypto) by reflexivity.
  replace (idxS [version; crypto; dataInput] 2) with (Val dataInput) by reflexivity.
  replace (idxS [version; crypto; dataInput] 0) with (Val version) by reflexivity.
  cbn [rbind]. unfold Suite.beq. change Otp.bytes_eqb with GoSem.beqb.
  destruct (negb (beqb version (s2b "OCRA-1"))); [reflexivity|].
  inversion Hsp as [|? ? Hv Hr1]; subst. inversion Hr1 as [|? ? Hc Hr2]; subst. inversion Hr2 as [|? ? Hd _]; subst.
  rewrite (src_parseCryptoFunction_eq raw crypto Hc).
  destruct (Suite.parse_crypto raw crypto) as [[h d]|e|]; cbn [lift_hd rbind is_some obind]; [|reflexivity|reflexivity].
  unfold Src.parseDataInputTokens.
  pose proof (src_tokens_eq fuel (split 45 dataInput) (cfg_hd h d) (split_small 45 dataInput Hd)) as Ht.
  cbn [fst snd]. fold (cfg_hd h d).
  destruct (Suite.parse_tokens (cfg_hd h d) (split 45 dataInput)) as [c|e|]; cbn [tok_rel] in Ht.
  - rewrite Ht. cbn [rbind is_some obind]. unfold with_raw. rewrite src_SuiteConfig_Validate_eq. cbn [rbind].
    destruct (suite_validate _); reflexivity.
  - destruct Ht as [c Ht]. rewrite Ht. reflexivity.
  - rewrite Ht. reflexivity.
Qed.

(** what NewRawSuite / NewSuite return as the interface value: a RawSuite (zero on error) / nil on error *)
Definition lift_suite (o : outcome suite_cfg) : res (option suite_cfg * option err) :=
  match o with Ok c => Val (Some c, None) | Err e => Val (Some zero_cfg, Some e) | Panic => Pnc end.
Definition lift_suite_nil (o : outcome suite_cfg) : res (option suite_cfg * option err) :=
  match o with Ok c => Val (Some c, None) | Err e => Val (None, Some e) | Panic => Pnc end.

Lemma src_NewRawSuite_eq fuel raw : small raw ->
  Src.NewRawSuite fuel raw = lift_suite (Suite.new_raw_suite raw).
Proof.
  intros Hs. unfold Src.NewRawSuite, Suite.new_raw_suite, Src.lookup_go.
  destruct (lookup raw known_suites) as [c|].
  - unfold with_raw. rewrite src_SuiteConfig_Validate_eq. cbn [rbind]. destruct (suite_validate _); reflexivity.
  - rewrite src_parseRawSuite_eq by exact Hs.
    destruct (Suite.parse_raw_suite raw) as [c|e|]; reflexivity.
Qed.

Lemma src_NewSuite_eq cfg : Src.NewSuite cfg = lift_suite_nil (Suite.new_suite cfg).
Proof.
  unfold Src.NewSuite, Suite.new_suite. rewrite src_SuiteConfig_Validate_eq. cbn [rbind].
  destruct (suite_validate cfg); reflexivity.
Qed.

Lemma src_IsKnownSuite_eq raw : Src.IsKnownSuite raw = Val (Suite.is_known_suite raw).
Proof. unfold Src.IsKnownSuite, Suite.is_known_suite, Src.lookup_go. destruct (lookup raw known_suites); reflexivity. Qed.

Lemma src_SuiteConfigFromRaws_eq raw : Src.SuiteConfigFromRaws raw = Val (Suite.suite_config_from_raws raw).
Proof. unfold Src.SuiteConfigFromRaws, Suite.suite_config_from_raws, Src.lookup_go. destruct (lookup raw known_suites); reflexivity. Qed.

Lemma lift_cfg_ok o c : lift_cfg o = Val (c, None) <-> o = Ok c.
Proof. destruct o as [c'|e|]; cbn [lift_cfg]; split; intros H; try discriminate; inversion H; reflexivity. Qed.
Lemma lift_suite_ok o c : lift_suite o = Val (Some c, None) <-> o = Ok c.
Proof. destruct o as [c'|e|]; cbn [lift_suite]; split; intros H; try discriminate; inversion H; reflexivity. Qed.


Lemma lift_cfg_returns o : o <> Panic -> returns (lift_cfg o) /\ returns (lift_suite o) /\ returns (lift_suite_nil o).
Proof. intros H. destruct o as [a|e|]; [repeat split; eexists; reflexivity|repeat split; eexists; reflexivity|congruence]. Qed.


(** ListSuites: the names of the registry (in the table's order; Go's map order is unspecified) *)
Lemma src_ListSuites_loop : forall l fuel acc kx, Src.ListSuites_loop1 l fuel acc kx = kx (acc ++ l).
Proof.
  induction l as [|x l IH]; intros fuel acc kx; cbn [Src.ListSuites_loop1]; [rewrite app_nil_r; reflexivity|].
  rewrite IH, <- app_assoc. reflexivity.
Qed.
Lemma src_ListSuites_eq fuel : Src.ListSuites fuel = Val Suite.list_suites.
Proof. unfold Src.ListSuites. rewrite src_ListSuites_loop. reflexivity. Qed.
