(** C07 over the Go source (Generated/Src.v: DecodeSecret as translated from decoder.go; strings.TrimSpace,
    strings.ToUpper and base32.StdEncoding.DecodeString are the transcribed library functions of Model/Decoder.v). *)
From Coq Require Import String.
From OtpV Require Import Prelude Sha GoSem Rfc4648 Decoder Derive Otp Errors Base32Proofs Src SrcLift SrcTop SrcEqDecode C07.
Open Scope N_scope.

Theorem C07src_roundtrip : forall fuel bs s, wfb bs -> spelling bs s -> small s -> (length s < fuel)%nat ->
  Src.DecodeSecret fuel s = Val (bs, None).
Proof.
  intros fuel bs s Hw Hsp Hs Hf. apply src_decode_ok; [assumption|assumption|]. apply C07_roundtrip; assumption.
Qed.
Print Assumptions C07src_roundtrip.

Theorem C07src_reject_char : forall fuel s, small s -> (length s < fuel)%nat ->
  Exists (fun c => in_alphabet_ci c = false) (trim_space s) -> exists b e, Src.DecodeSecret fuel s = Val (b, Some e).
Proof.
  intros fuel s Hs Hf Hex. destruct (C07_reject_char s Hex) as [e He].
  apply (src_decode_err fuel s e Hs Hf) in He. destruct He as [b Hb]. exists b, e. exact Hb.
Qed.
Print Assumptions C07src_reject_char.

Theorem C07src_accepts_only_alphabet : forall fuel s bs, small s -> (length s < fuel)%nat ->
  Src.DecodeSecret fuel s = Val (bs, None) -> Forall (fun c => in_alphabet_ci c = true) (trim_space s).
Proof.
  intros fuel s bs Hs Hf H. apply src_decode_ok in H; [|assumption|assumption]. apply (C07_accepts_only_alphabet s bs H).
Qed.
Print Assumptions C07src_accepts_only_alphabet.

Theorem C07src_reject_length : forall fuel s, small s -> (length s < fuel)%nat ->
  Forall data_char (trim_space s) -> In (length (trim_space s) mod 8)%nat [1; 3; 6]%nat ->
  exists b e, Src.DecodeSecret fuel s = Val (b, Some e).
Proof.
  intros fuel s Hs Hf Hd Hl. destruct (C07_reject_length s Hd Hl) as [e He].
  apply (src_decode_err fuel s e Hs Hf) in He. destruct He as [b Hb]. exists b, e. exact Hb.
Qed.
Print Assumptions C07src_reject_length.

Example C07src_vectors :
  Src.DecodeSecret 40 (s2b "  mzxw6ytboi"%string ++ [10]) = Val (s2b "foobar"%string, None) /\
  (exists b e, Src.DecodeSecret 40 [197; 191; 197; 191; 197; 191; 197; 191; 197; 191; 197; 191; 197; 191; 197; 191] = Val (b, Some e)).
Proof. split; [vm_compute; reflexivity|]. eexists. eexists. vm_compute. reflexivity. Qed.
