(** RFC 6287 (OCRA) as the property states it: HMAC, with the suite's hash, of
    suite-string || 0x00 || [C: 8 bytes] || [Q: right-padded with zeros to 128 bytes] ||
    [P: as given] || [S: right-padded to 128 bytes] || [T: 8 bytes], containing exactly the
    fields the suite selects; then dynamic truncation, mod 10^digits, zero padding. *)
From OtpV Require Import Prelude Sha Rfc4226.
Open Scope N_scope.

Definition rpad (n : nat) (b : bytes) : bytes := b ++ repeat 0 (n - length b).

(** a field is [Some content] when the suite selects it, [None] otherwise *)
Definition fld_as_is (f : option bytes) : bytes := match f with Some b => b | None => [] end.
Definition fld_rpad (n : nat) (f : option bytes) : bytes := match f with Some b => rpad n b | None => [] end.

Definition ocra_msg (name : bytes) (c q p s t : option bytes) : bytes :=
  name ++ [0] ++ fld_as_is c ++ fld_rpad 128 q ++ fld_as_is p ++ fld_rpad 128 s ++ fld_as_is t.

Section WithHmac.
  Variable hm : alg -> bytes -> bytes -> bytes.
  Definition ocra_value (a : alg) (key name : bytes) (c q p s t : option bytes) (d : nat) : bytes :=
    pad_dec d (dt31 (hm a key (ocra_msg name c q p s t)) mod 10 ^ N.of_nat d).
End WithHmac.
