(* GENERATED from the Go sources of /var/tmp/mrepo by /verif/tools/gen_model — do not edit. *)
From Coq Require Import String.
From OtpV Require Import Prelude Sha GoSem Rfc4648 Errors Decoder Otp Ocra Utils Suite Url.
Open Scope N_scope.

From OtpV Require Import Wasm Src SrcWasm.
Definition js_type_go (v : jsval) : res bytes := match js_type_name v with Some n => Val n | None => Pnc end.
Definition js_string_go (v : jsval) : bytes := match v with JStr s => s | _ => [] end.
Definition js_int_go (v : jsval) : res Z := match v with JNum n => Val (js_int n) | _ => Pnc end.
Definition idxJ (l : list jsval) (i : Z) : res jsval := if (i <? 0)%Z then Pnc else match nth_error l (Z.to_nat i) with Some v => Val v | None => Pnc end.
Definition err_text (e : err) : bytes := match render e with Some t => t | None => s2b "?" end.

