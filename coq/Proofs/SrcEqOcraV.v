(** SuiteConfig.Validate, OCRAInput.Validate, challengeLength and the two string-to-enum helpers as translated
    from the Go source compute what the hand-written model computes. *)
From Coq Require Import ZifyN ZifyNat ZifyBool String.
From OtpV Require Import Prelude Sha Tables GoSem Errors Decoder Derive Otp Ocra Suite Src SrcLift.
Open Scope N_scope.
Ltac Zify.zify_post_hook ::= Z.div_mod_to_equations.

Lemma src_challengeLength_eq f : Src.challengeLength f = Val (Ocra.challenge_length f).
Proof.
  unfold Src.challengeLength, Ocra.challenge_length.
  unfold c_ChallengeNumeric08, c_ChallengeAlpha08, c_ChallengeHex08, c_ChallengeNumeric10, c_ChallengeAlpha10, c_ChallengeHex10.
  destruct ((f =? 1)%Z || (f =? 3)%Z || (f =? 5)%Z); [reflexivity|].
  destruct ((f =? 2)%Z || (f =? 4)%Z || (f =? 6)%Z); reflexivity.
Qed.

Lemma src_SuiteConfig_Validate_eq cfg : Src.SuiteConfig_Validate cfg = Val (Ocra.suite_validate cfg).
Proof.
  unfold Src.SuiteConfig_Validate, Ocra.suite_validate.
  unfold c_SHA1, c_SHA256, c_SHA512, c_PasswordNone, c_ChallengeNone.
  destruct ((sc_digits cfg <? 4)%Z || (10 <? sc_digits cfg)%Z); [reflexivity|].
  assert (Hh : (negb (N.eqb (sc_hash cfg) 0) && negb (N.eqb (sc_hash cfg) 1)) && negb (N.eqb (sc_hash cfg) 2)
             = negb ((Z.of_N (sc_hash cfg) =? 0)%Z || (Z.of_N (sc_hash cfg) =? 1)%Z || (Z.of_N (sc_hash cfg) =? 2)%Z)) by lia.
  rewrite Hh.
  destruct (negb ((Z.of_N (sc_hash cfg) =? 0)%Z || (Z.of_N (sc_hash cfg) =? 1)%Z || (Z.of_N (sc_hash cfg) =? 2)%Z)); [reflexivity|].
  destruct (sc_p cfg && (sc_pwhash cfg =? 0)%Z); [reflexivity|].
  destruct (sc_t cfg && (sc_timestep cfg <=? 0)%Z); [reflexivity|].
  destruct (sc_q cfg && (sc_challenge cfg =? 0)%Z); reflexivity.
Qed.

(** the interface Suite has two implementations; both answer with the configuration's own methods *)
Lemma src_RawSuite_Validate_eq r : Src.RawSuite_Validate r = Src.SuiteConfig_Validate r.
Proof. reflexivity. Qed.
Lemma src_RawSuite_Config_eq r : Src.RawSuite_Config r = Src.SuiteConfig_Config r.
Proof. reflexivity. Qed.

Ltac split_ifs :=
  repeat match goal with
         | |- context [if ?c then _ else _] =>
           match c with
           | context [if _ then _ else _] => fail 1
           | _ => destruct c eqn:?
           end
         end.

Lemma src_OCRAInput_Validate_eq i cfg : Src.OCRAInput_Validate i cfg = Val (Ocra.input_validate cfg i).
Proof.
  unfold Src.OCRAInput_Validate, Ocra.input_validate.
  unfold c_PasswordSHA1, c_PasswordSHA256, c_PasswordSHA512.
  rewrite src_challengeLength_eq.
  destruct (sc_c cfg), (sc_q cfg), (sc_p cfg), (sc_s cfg), (sc_t cfg); cbn [andb rbind]; cbv zeta;
    split_ifs; try reflexivity; try lia.
Qed.

(** ---------- DigitsFromStr, AlgorithmFromStr ---------- *)
From OtpV Require Import Url.
Lemma src_DigitsFromStr_eq s : Src.DigitsFromStr s = Val (Url.digits_from_str s).
Proof.
  unfold Src.DigitsFromStr, Url.digits_from_str, Suite.beq. change Otp.bytes_eqb with GoSem.beqb. cbv zeta.
  repeat match goal with |- context [beqb s ?x] => destruct (beqb s x) end; reflexivity.
Qed.
Lemma src_AlgorithmFromStr_eq s : Src.AlgorithmFromStr s = Val (Url.algorithm_from_str s).
Proof.
  unfold Src.AlgorithmFromStr, Url.algorithm_from_str, Suite.beq. change Otp.bytes_eqb with GoSem.beqb. cbv zeta.
  repeat match goal with |- context [beqb s ?x] => destruct (beqb s x) end; reflexivity.
Qed.
