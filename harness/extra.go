package main

import "bufio"

// extraCommand: further sub-commands (history / memory / REST / wasm drivers) are added in their own files.
func extraCommand(args []string, w *bufio.Writer) bool { return false }
