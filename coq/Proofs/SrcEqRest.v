(** The REST handlers as translated from internal/app/api (Generated/SrcRest.v) answer what the hand-written model of
    the service (Model/Rest.v) answers: the same status, the same JSON tree, for every request.  Where the model says
    "the Recovery middleware answers the panic" (its [recovered_panic]), the translated handler panics. *)
From Coq Require Import String ZifyN ZifyNat ZifyBool.
From OtpV Require Import Prelude Sha GoSem Rfc4648 Errors Decoder Derive Otp Ocra Utils Random Suite Url Rest RestSem Src SrcRest
     OtpProofs OcraProofs UtilsProofs TotalProofs SrcLift SrcTop SrcEqDecode SrcEqHotp SrcEqTotp SrcEqOcraV SrcEqOcra SrcEqSuite SrcEqUtils SrcEqUrl.
Open Scope N_scope.

(** ---------- how a response of the model reads as the context a handler leaves ---------- *)
Definition json_ct : bytes := s2b "application/json".
Definition err_json (st : Z) (msg : bytes) : jout := OObj [(s2b "code", OStr (status_text st)); (s2b "message", OStr msg)].
Definition opt_int (k : string) (o : option Z) : list (bytes * jout) := match o with Some z => omit_int k z | None => [] end.
Definition opt_str (k : string) (o : option bytes) : list (bytes * jout) := match o with Some s => omit_str k s | None => [] end.
Definition suite_json (cfg : suite_cfg) : jout :=
  OObj ([(s2b "hash_function", OStr (alg_string (sc_hash cfg))); (s2b "code_digits", OInt (sc_digits cfg));
         (s2b "challenge_format", OInt (sc_challenge cfg)); (s2b "include_counter", OBool (sc_c cfg));
         (s2b "include_challenge", OBool (sc_q cfg)); (s2b "include_password", OBool (sc_p cfg));
         (s2b "include_session", OBool (sc_s cfg)); (s2b "include_timestamp", OBool (sc_t cfg))]
        ++ omit_int "password_hash" (sc_pwhash cfg) ++ omit_int "timestep" (sc_timestep cfg)).

(** the JSON tree of a payload; the two payloads that carry data the model does not hold (the random secret, the
    constant texts of the home page) are stated with the handlers *)
Definition pay_json (st : Z) (p : payload) : option jout :=
  match p with
  | PCode code ts counter suite =>
    Some (OObj ([(s2b "code", OStr code)] ++ opt_int "timestamp" ts ++ opt_int "counter" (option_map Z.of_N counter) ++ opt_str "suite" suite))
  | PValid b => Some (OObj [(s2b "valid", OBool b)])
  | PUrl u => Some (OObj [(s2b "url", OStr u)])
  | PSuites names => Some (OObj [(s2b "suites", OList (map OStr names))])
  | PSuiteCfg raw cfg => Some (OObj [(s2b "raw", OStr raw); (s2b "config", suite_json cfg)])
  | PError msg => Some (err_json st msg)
  | _ => None
  end.

Definition answer (c : rctx) (st : Z) (j : jout) : rctx := mkCtx (cx_req c) (cx_now c) st json_ct (BJson j).

Definition is_recovered (r : response) : bool :=
  match pay r with PText _ => N.eqb (status r) 500 | _ => false end.

Definition lift_rest (c : rctx) (x : response * nat) : res rctx :=
  let r := fst x in
  if is_recovered r then Pnc else
  match pay_json (Z.of_N (status r)) (pay r) with
  | Some j => Val (answer c (Z.of_N (status r)) j)
  | None =>
    match pay r with
    | PText t => Val (mkCtx (cx_req c) (cx_now c) (Z.of_N (status r)) (cx_ctype c) (BText t))
    | PRedirect loc => Val (mkCtx (cx_req c) (cx_now c) (Z.of_N (status r)) (cx_ctype c) (BRedirect loc))
    | POther => Val (mkCtx (cx_req c) (cx_now c) (Z.of_N (status r)) (cx_ctype c) BOther)
    | _ => Pnc
    end
  end.

Lemma src_writeError c st msg : SrcRest.writeError c st msg tt = Val (answer c st (err_json st msg)).
Proof. reflexivity. Qed.

Lemma lift_err400 c msg : lift_rest c (err400b msg) = Val (answer c 400 (err_json 400 msg)).
Proof. reflexivity. Qed.
Lemma lift_err400s c msg : lift_rest c (err400 msg) = Val (answer c 400 (err_json 400 (s2b msg))).
Proof. reflexivity. Qed.
Lemma lift_err500 c msg k : lift_rest c (err500 msg k) = Val (answer c 500 (err_json 500 (s2b msg))).
Proof. reflexivity. Qed.
Lemma lift_not_allowed c : lift_rest c not_allowed = Val (answer c 405 (err_json 405 (s2b "method not allowed"))).
Proof. reflexivity. Qed.
Lemma lift_decode_failed c : lift_rest c decode_failed = Val (answer c 400 (err_json 400 (s2b "failed to decode body"))).
Proof. reflexivity. Qed.
Lemma lift_recovered c : lift_rest c recovered_panic = Pnc.
Proof. reflexivity. Qed.

(** ---------- sizes: every string of the body fits Go's int and the fuel ---------- *)
Fixpoint jv_ok (fuel : nat) (v : jv) : Prop :=
  match v with
  | JvStr s => (length s < fuel)%nat /\ small s
  | JvObj fs => (fix go (l : list (bytes * jv)) : Prop := match l with [] => True | (_, x) :: t => jv_ok fuel x /\ go t end) fs
  | _ => True
  end.
Definition fields_ok (fuel : nat) (f : list (bytes * jv)) : Prop := Forall (fun kv => jv_ok fuel (snd kv)) f.
Definition body_ok (fuel : nat) (b : body) : Prop := match b with BObject f => fields_ok fuel f | _ => True end.
Definition rest_runs (fuel : nat) (c : rctx) : Prop := (22 <= fuel)%nat /\ body_ok fuel (ctx_body c).

Lemma find_field_ok fuel name : forall f acc, fields_ok fuel f -> (forall v, acc = Some v -> jv_ok fuel v) ->
  forall v, find_field name f acc = Some v -> jv_ok fuel v.
Proof.
  induction f as [|[k x] t IH]; intros acc Hf Ha v Hv; cbn [find_field] in Hv.
  - apply Ha. exact Hv.
  - inversion Hf as [|? ? Hx Ht]; subst. apply (IH (if beq (to_lower k) name then Some x else acc) Ht) with (v := v); [|exact Hv].
    intros w Hw. destruct (beq (to_lower k) name); [inversion Hw; subst; exact Hx | apply Ha; exact Hw].
Qed.
Lemma field_ok fuel name f v : fields_ok fuel f -> field name f = Some v -> jv_ok fuel v.
Proof. intros Hf Hv. apply (find_field_ok fuel (s2b name) f None Hf) with (v := v); [discriminate|exact Hv]. Qed.
Lemma dec_string_ok fuel name f s : (1 <= fuel)%nat -> fields_ok fuel f -> dec_string (field name f) = Some s ->
  (length s < fuel)%nat /\ small s.
Proof.
  intros H1 Hf Hd. destruct (field name f) as [v|] eqn:E.
  - pose proof (field_ok fuel name f v Hf E) as Hv. destruct v; cbn in Hd; try discriminate; inversion Hd; subst.
    + exact Hv.
    + split; [cbn; lia | unfold small, zlen; cbn; lia].
  - cbn in Hd. inversion Hd; subst. split; [cbn; lia | unfold small, zlen; cbn; lia].
Qed.

Lemma trim_left_fuel_len : forall fuel s, (length (trim_left_fuel fuel s) <= length s)%nat.
Proof.
  induction fuel as [|f IH]; intros s; cbn [trim_left_fuel]; [lia|].
  destruct (space_prefix_len s) as [|n]; [lia|]. specialize (IH (skipn (S n) s)). rewrite skipn_length in IH. lia.
Qed.
Lemma trim_right_fuel_len : forall fuel s, (length (trim_right_fuel fuel s) <= length s)%nat.
Proof.
  induction fuel as [|f IH]; intros s; cbn [trim_right_fuel]; [lia|].
  destruct (space_suffix_len s) as [|n]; [lia|]. specialize (IH (skipn (S n) s)). rewrite skipn_length in IH. lia.
Qed.
Lemma trim_space_len s : (length (trim_space s) <= length s)%nat.
Proof.
  unfold trim_space, trim_right, trim_left. rewrite !frev_rev, rev_length.
  pose proof (trim_right_fuel_len (length (trim_left_fuel (length s) s)) (rev (trim_left_fuel (length s) s))) as H.
  rewrite rev_length in H. pose proof (trim_left_fuel_len (length s) s). lia.
Qed.
Lemma trim_space_small fuel s : (length s < fuel)%nat /\ small s -> (length (trim_space s) < fuel)%nat /\ small (trim_space s).
Proof. intros [H1 H2]. pose proof (trim_space_len s). unfold small, zlen in *. split; lia. Qed.

Lemma beqb_blank s : beqb (trim_space s) [] = blank s.
Proof. unfold blank. apply beqb_nil. Qed.

(** ---------- the decoders generated from the struct tags are the model's ---------- *)
Definition gen_req_of (q : gen_req) : t_otpGenerateReq :=
  mk_otpGenerateReq (g_secret q) (g_timestamp q) (g_counter q) (g_digits q) (g_period q) (g_algorithm q).
Lemma decode_gen_agree f : decode_otpGenerateReq f = option_map gen_req_of (decode_gen_req f).
Proof.
  unfold decode_otpGenerateReq, decode_gen_req.
  destruct (dec_string (field "secret" f)), (dec_int64 (field "timestamp" f)), (dec_uint64 (field "counter" f)),
    (dec_string (field "digits" f)), (dec_uint64 (field "period" f)), (dec_string (field "algorithm" f)); reflexivity.
Qed.
Definition val_req_of (q : val_req) : t_otpValidateReq :=
  mk_otpValidateReq (v_secret q) (v_timestamp q) (v_counter q) (v_code q) (v_digits q) (v_period q) (v_skew q) (v_algorithm q).
Lemma decode_val_agree f : decode_otpValidateReq f = option_map val_req_of (decode_val_req f).
Proof.
  unfold decode_otpValidateReq, decode_val_req.
  destruct (dec_string (field "secret" f)), (dec_int64 (field "timestamp" f)), (dec_uint64 (field "counter" f)),
    (dec_string (field "code" f)), (dec_string (field "digits" f)), (dec_uint64 (field "period" f)),
    (dec_uint64 (field "skew" f)), (dec_string (field "algorithm" f)); reflexivity.
Qed.

Lemma gen_req_secret_ok fuel f q : (1 <= fuel)%nat -> fields_ok fuel f -> decode_gen_req f = Some q ->
  (length (g_secret q) < fuel)%nat /\ small (g_secret q).
Proof.
  intros H1 Hf Hd. unfold decode_gen_req in Hd.
  destruct (dec_string (field "secret" f)) as [s|] eqn:Es; [|discriminate].
  destruct (dec_int64 (field "timestamp" f)), (dec_uint64 (field "counter" f)),
    (dec_string (field "digits" f)), (dec_uint64 (field "period" f)), (dec_string (field "algorithm" f)); try discriminate.
  inversion Hd; subst. cbn [g_secret]. exact (dec_string_ok fuel _ f s H1 Hf Es).
Qed.
Lemma val_req_secret_ok fuel f q : (1 <= fuel)%nat -> fields_ok fuel f -> decode_val_req f = Some q ->
  (length (v_secret q) < fuel)%nat /\ small (v_secret q).
Proof.
  intros H1 Hf Hd. unfold decode_val_req in Hd.
  destruct (dec_string (field "secret" f)) as [s|] eqn:Es; [|discriminate].
  destruct (dec_int64 (field "timestamp" f)), (dec_uint64 (field "counter" f)), (dec_string (field "code" f)),
    (dec_string (field "digits" f)), (dec_uint64 (field "period" f)), (dec_uint64 (field "skew" f)), (dec_string (field "algorithm" f)); try discriminate.
  inversion Hd; subst. cbn [v_secret]. exact (dec_string_ok fuel _ f s H1 Hf Es).
Qed.

(** what every POST handler does first: the method, the body, the decoder *)
Ltac rest_open c Hr :=
  destruct Hr as [Hfuel Hbody];
  unfold ctx_is_post;
  destruct (is_post (cx_req c)) eqn:Epost; cbn [negb];
  [| rewrite src_writeError; cbn [rbind]; rewrite lift_not_allowed; reflexivity ];
  cbv zeta; unfold ctx_body in *.

(** ---------- /totp/generate ---------- *)
Lemma src_totpGeneration_eq fuel junk c : rest_runs fuel c -> length junk = 8%nat ->
  SrcRest.totpGeneration fuel junk c = lift_rest c (Rest.totp_generation (cx_now c) (cx_req c)).
Proof.
  intros Hr Hj. unfold SrcRest.totpGeneration, Rest.totp_generation. rest_open c Hr.
  unfold unmarshal_otpGenerateReq. destruct (r_body (cx_req c)) as [| |f] eqn:Eb; cbn [body_fields];
    try (cbn [is_some]; rewrite src_writeError; cbn [rbind]; rewrite lift_decode_failed; reflexivity).
  rewrite decode_gen_agree. destruct (decode_gen_req f) as [q|] eqn:Eq; cbn [option_map];
    [| cbn [is_some]; rewrite src_writeError; cbn [rbind]; rewrite lift_decode_failed; reflexivity ].
  cbn [is_some]. cbn [body_ok] in Hbody.
  pose proof (gen_req_secret_ok fuel f q ltac:(lia) Hbody Eq) as Hs. apply trim_space_small in Hs. destruct Hs as [Hs1 Hs2].
  destruct q as [sec ts cnt dg per al]. cbn [g_secret] in Hs1, Hs2.
  unfold otpGenerateReq_validate, totp_generation_core.
  cbn [gen_req_of g_secret g_timestamp g_counter g_digits g_period g_algorithm otpGenerateReq_Secret otpGenerateReq_Algorithm
       otpGenerateReq_Digits otpGenerateReq_Period otpGenerateReq_Timestamp set_otpGenerateReq_Period].
  rewrite beqb_blank.
  destruct (blank sec); cbn [rbind is_some deref].
  { rewrite src_writeError. cbn [rbind]. rewrite lift_err400s. reflexivity. }
  rewrite src_AlgorithmFromStr_eq, src_DigitsFromStr_eq. cbn [rbind].
  change (N.eqb per 0) with (per =? 0). change (Z.ltb 0 ts) with (0 <? ts)%Z.
  destruct (per =? 0) eqn:Ep; destruct (0 <? ts)%Z eqn:Et;
    cbn [otpGenerateReq_Secret otpGenerateReq_Period otpGenerateReq_Timestamp set_otpGenerateReq_Period];
    rewrite src_GenerateTOTP_eq by (assumption || lia);
    match goal with |- context [generate_totp ?s ?t ?p] => destruct (generate_totp s t p) as [code|e|] end;
    cbn [lift_oc rbind fst snd option_map is_some]; try (rewrite src_writeError; cbn [rbind]); try reflexivity.
Qed.

(** ---------- /totp/validate ---------- *)
Lemma validate_totp_ok s code t p : exists b e, fst (validate_totp s code t p) = Ok (b, e).
Proof.
  destruct (OtpProofs.validate_totp_verdict hmac hmac_length hmac_wf s code t p) as [k [H|[e H]]]; unfold validate_totp; rewrite H; eexists; eexists; reflexivity.
Qed.
Lemma validate_hotp_ok s code c p : exists b e, fst (validate_hotp s code c p) = Ok (b, e).
Proof.
  destruct (OtpProofs.validate_hotp_verdict hmac hmac_length hmac_wf s code c p) as [k [H|[e H]]]; unfold validate_hotp; rewrite H; eexists; eexists; reflexivity.
Qed.
Lemma validate_ocra_ok s code cfg i : exists b e, fst (validate_ocra s code cfg i) = Ok (b, e).
Proof.
  destruct (OcraProofs.validate_ocra_verdict hmac hmac_length hmac_wf s code cfg i) as [k [H|[e H]]]; unfold validate_ocra; rewrite H; eexists; eexists; reflexivity.
Qed.

Ltac req_fields :=
  cbn [gen_req_of g_secret g_timestamp g_counter g_digits g_period g_algorithm otpGenerateReq_Secret otpGenerateReq_Algorithm
       otpGenerateReq_Digits otpGenerateReq_Period otpGenerateReq_Timestamp otpGenerateReq_Counter set_otpGenerateReq_Period
       val_req_of v_secret v_timestamp v_counter v_code v_digits v_period v_skew v_algorithm otpValidateReq_Secret otpValidateReq_Timestamp
       otpValidateReq_Counter otpValidateReq_Code otpValidateReq_Digits otpValidateReq_Period otpValidateReq_Skew otpValidateReq_Algorithm].

Lemma src_totpValidation_eq fuel junk c : rest_runs fuel c -> length junk = 8%nat ->
  SrcRest.totpValidation fuel junk c = lift_rest c (Rest.totp_validation (cx_now c) (cx_req c)).
Proof.
  intros Hr Hj. unfold SrcRest.totpValidation, Rest.totp_validation. rest_open c Hr.
  unfold unmarshal_otpValidateReq. destruct (r_body (cx_req c)) as [| |f] eqn:Eb; cbn [body_fields];
    try (cbn [is_some]; rewrite src_writeError; cbn [rbind]; rewrite lift_decode_failed; reflexivity).
  rewrite decode_val_agree. destruct (decode_val_req f) as [q|] eqn:Eq; cbn [option_map];
    [| cbn [is_some]; rewrite src_writeError; cbn [rbind]; rewrite lift_decode_failed; reflexivity ].
  cbn [is_some]. cbn [body_ok] in Hbody.
  pose proof (val_req_secret_ok fuel f q ltac:(lia) Hbody Eq) as Hs. apply trim_space_small in Hs. destruct Hs as [Hs1 Hs2].
  destruct q as [sec ts cnt code dg per sk al]. cbn [v_secret] in Hs1, Hs2.
  unfold otpValidateReq_validate, totp_validation_core. req_fields. rewrite !beqb_blank.
  destruct (blank sec); cbn [rbind is_some deref].
  { rewrite src_writeError. cbn [rbind]. rewrite lift_err400s. reflexivity. }
  destruct (blank code); cbn [rbind is_some deref].
  { rewrite src_writeError. cbn [rbind]. rewrite lift_err400s. reflexivity. }
  rewrite src_AlgorithmFromStr_eq, src_DigitsFromStr_eq. cbn [rbind]. cbv zeta.
  change (Z.ltb 0 ts) with (0 <? ts)%Z.
  destruct (0 <? ts)%Z eqn:Et; rewrite src_ValidateTOTP_eq by (assumption || lia);
    match goal with |- context [validate_totp ?s ?cd ?t ?p] =>
      destruct (validate_totp_ok s cd t p) as [b [e Hok]]; unfold lift_v, verdict_bool; rewrite Hok end;
    reflexivity.
Qed.

(** ---------- /hotp/generate, /hotp/validate ---------- *)
Lemma src_hotpGeneration_eq fuel junk c : rest_runs fuel c -> length junk = 8%nat ->
  SrcRest.hotpGeneration fuel junk c = lift_rest c (Rest.hotp_generation (cx_req c)).
Proof.
  intros Hr Hj. unfold SrcRest.hotpGeneration, Rest.hotp_generation. rest_open c Hr.
  unfold unmarshal_otpGenerateReq. destruct (r_body (cx_req c)) as [| |f] eqn:Eb; cbn [body_fields];
    try (cbn [is_some]; rewrite src_writeError; cbn [rbind]; rewrite lift_decode_failed; reflexivity).
  rewrite decode_gen_agree. destruct (decode_gen_req f) as [q|] eqn:Eq; cbn [option_map];
    [| cbn [is_some]; rewrite src_writeError; cbn [rbind]; rewrite lift_decode_failed; reflexivity ].
  cbn [is_some]. cbn [body_ok] in Hbody.
  pose proof (gen_req_secret_ok fuel f q ltac:(lia) Hbody Eq) as [Hs1 Hs2].
  destruct q as [sec ts cnt dg per al]. cbn [g_secret] in Hs1, Hs2.
  unfold otpGenerateReq_validate, hotp_generation_core. req_fields. rewrite beqb_blank.
  destruct (blank sec); cbn [rbind is_some deref].
  { rewrite src_writeError. cbn [rbind]. rewrite lift_err400s. reflexivity. }
  rewrite src_AlgorithmFromStr_eq, src_DigitsFromStr_eq. cbn [rbind]. cbv zeta.
  rewrite src_GenerateHOTP_eq by (assumption || lia).
  match goal with |- context [generate_hotp ?s ?t ?p] => destruct (generate_hotp s t p) as [code|e|] end;
    cbn [lift_oc rbind fst snd option_map is_some]; try (rewrite src_writeError; cbn [rbind]); try reflexivity.
  unfold lift_rest. cbn [fst is_recovered pay status pay_json option_map opt_int opt_str]. unfold N.eqb at 1. cbn [Z.of_N].
  unfold ctx_set_body, ctx_set_status, ctx_set_ctype, ctx_set_out, answer, marshal_otpGenerateResp. cbn [cx_req cx_now cx_status cx_ctype cx_out].
  cbn [otpGenerateResp_Code otpGenerateResp_TimeStamp otpGenerateResp_Counter otpGenerateResp_Suite omit_int omit_str Z.eqb app].
  destruct cnt as [|pc]; reflexivity.
Qed.

Lemma src_hotpValidation_eq fuel junk c : rest_runs fuel c -> length junk = 8%nat ->
  SrcRest.hotpValidation fuel junk c = lift_rest c (Rest.hotp_validation (cx_req c)).
Proof.
  intros Hr Hj. unfold SrcRest.hotpValidation, Rest.hotp_validation. rest_open c Hr.
  unfold unmarshal_otpValidateReq. destruct (r_body (cx_req c)) as [| |f] eqn:Eb; cbn [body_fields];
    try (cbn [is_some]; rewrite src_writeError; cbn [rbind]; rewrite lift_decode_failed; reflexivity).
  rewrite decode_val_agree. destruct (decode_val_req f) as [q|] eqn:Eq; cbn [option_map];
    [| cbn [is_some]; rewrite src_writeError; cbn [rbind]; rewrite lift_decode_failed; reflexivity ].
  cbn [is_some]. cbn [body_ok] in Hbody.
  pose proof (val_req_secret_ok fuel f q ltac:(lia) Hbody Eq) as [Hs1 Hs2].
  destruct q as [sec ts cnt code dg per sk al]. cbn [v_secret] in Hs1, Hs2.
  unfold otpValidateReq_validate, hotp_validation_core. req_fields. rewrite !beqb_blank.
  destruct (blank sec); cbn [rbind is_some deref].
  { rewrite src_writeError. cbn [rbind]. rewrite lift_err400s. reflexivity. }
  destruct (blank code); cbn [rbind is_some deref].
  { rewrite src_writeError. cbn [rbind]. rewrite lift_err400s. reflexivity. }
  rewrite src_AlgorithmFromStr_eq, src_DigitsFromStr_eq. cbn [rbind]. cbv zeta.
  rewrite src_ValidateHOTP_eq by (assumption || lia).
  match goal with |- context [validate_hotp ?s ?cd ?t ?p] =>
    destruct (validate_hotp_ok s cd t p) as [b [e Hok]]; unfold lift_v, verdict_bool; rewrite Hok end.
  reflexivity.
Qed.

(** ---------- /ocra/suites, /ocra/suite, /, /otp/secret ---------- *)
Ltac rest_open_get c :=
  unfold ctx_is_get;
  destruct (is_get (cx_req c)) eqn:Eget; cbn [negb];
  [| rewrite src_writeError; cbn [rbind]; rewrite lift_not_allowed; reflexivity ];
  cbv zeta.

Lemma src_listOCRASuites_eq fuel c :
  SrcRest.listOCRASuites fuel c = lift_rest c (Rest.list_ocra_suites (cx_req c)).
Proof.
  unfold SrcRest.listOCRASuites, Rest.list_ocra_suites. rest_open_get c.
  rewrite src_ListSuites_eq. reflexivity.
Qed.

Lemma src_ocraSuiteConfig_eq fuel c : rest_runs fuel c ->
  SrcRest.ocraSuiteConfig c = lift_rest c (Rest.ocra_suite_config (cx_req c)).
Proof.
  intros Hr. unfold SrcRest.ocraSuiteConfig, Rest.ocra_suite_config. rest_open c Hr.
  unfold unmarshal_suiteConfigReq, decode_suiteConfigReq. destruct (r_body (cx_req c)) as [| |f] eqn:Eb; cbn [body_fields];
    try (cbn [is_some]; rewrite src_writeError; cbn [rbind]; rewrite lift_decode_failed; reflexivity).
  destruct (dec_string (field "raw_suite" f)) as [raw|];
    [| cbn [is_some]; rewrite src_writeError; cbn [rbind]; rewrite lift_decode_failed; reflexivity ].
  cbn [is_some]. unfold suiteConfigReq_validate. cbn [suiteConfigReq_RawSuite]. rewrite beqb_blank.
  destruct (blank raw); cbn [rbind is_some deref].
  { rewrite src_writeError. cbn [rbind]. rewrite lift_err400s. reflexivity. }
  rewrite src_IsKnownSuite_eq. cbn [rbind].
  destruct (is_known_suite raw); cbn [negb rbind is_some deref].
  2:{ rewrite src_writeError. cbn [rbind]. rewrite lift_err400. reflexivity. }
  rewrite src_SuiteConfigFromRaws_eq. cbn [rbind]. cbv zeta. rewrite src_Algorithm_String_eq. cbn [rbind]. reflexivity.
Qed.

(** the home page: a fixed JSON object (its texts are constants of the sources; the model's payload has no content) *)
Lemma src_home_eq c : exists j,
  SrcRest.home c = (if is_get (cx_req c) then Val (answer c 200 j) else lift_rest c not_allowed) /\
  Rest.home (cx_req c) = (if is_get (cx_req c) then (mkResp 200 PHome, O) else not_allowed).
Proof.
  eexists. unfold SrcRest.home, Rest.home, ctx_is_get. destruct (is_get (cx_req c)); cbn [negb]; split; reflexivity.
Qed.

(** a fresh secret: the base32 text of as many bytes of the random source as the hash's output has, and the hash's name *)
Lemma src_generateRandomSecret_eq junk c : (64 <= length junk)%nat ->
  SrcRest.generateRandomSecret junk c =
  (if is_get (cx_req c) then
     let a := algorithm_from_str (r_query_alg (cx_req c)) in
     match Random.secret_size a with
     | Some n => Val (answer c 200 (OObj [(s2b "secret", OStr (b32_nopad (firstn n junk))); (s2b "algorithm", OStr (alg_string a))]))
     | None => Val (answer c 500 (err_json 500 (s2b "failed to generate secret")))
     end
   else lift_rest c not_allowed) /\
  Rest.generate_random_secret (cx_req c) =
  (if is_get (cx_req c) then (mkResp 200 (PSecret (algorithm_from_str (r_query_alg (cx_req c)))), O) else not_allowed).
Proof.
  intros Hj. unfold SrcRest.generateRandomSecret, Rest.generate_random_secret, ctx_is_get, ctx_query_alg.
  destruct (is_get (cx_req c)); cbn [negb]; split; try reflexivity.
  rewrite src_AlgorithmFromStr_eq. cbn [rbind]. cbv zeta. rewrite src_RandomSecret_eq by exact Hj.
  destruct (Random.secret_size (algorithm_from_str (r_query_alg (cx_req c)))) as [n|]; cbn [rbind fst snd option_map is_some].
  - rewrite src_Algorithm_String_eq. cbn [rbind]. reflexivity.
  - rewrite src_writeError. reflexivity.
Qed.

(** ---------- /otp/url ---------- *)
Lemma beqb_beq a b : beqb a b = Suite.beq a b.
Proof. reflexivity. Qed.

Lemma src_otpURLGeneration_eq fuel c : rest_runs fuel c ->
  SrcRest.otpURLGeneration fuel c = lift_rest c (Rest.otp_url_generation (cx_req c)).
Proof.
  intros Hr. unfold SrcRest.otpURLGeneration, Rest.otp_url_generation. rest_open c Hr.
  unfold unmarshal_otpURLGenerateReq, decode_otpURLGenerateReq. destruct (r_body (cx_req c)) as [| |f] eqn:Eb; cbn [body_fields];
    try (cbn [is_some]; rewrite src_writeError; cbn [rbind]; rewrite lift_decode_failed; reflexivity).
  destruct (dec_string (field "type" f)) as [ty|], (dec_string (field "secret" f)) as [sec|], (dec_string (field "issuer" f)) as [iss|],
    (dec_string (field "account_name" f)) as [acc|], (dec_uint64 (field "period" f)) as [per|], (dec_string (field "digits" f)) as [dg|],
    (dec_string (field "algorithm" f)) as [al|];
    try (cbn [is_some]; rewrite src_writeError; cbn [rbind]; rewrite lift_decode_failed; reflexivity).
  cbn [is_some]. unfold otpURLGenerateReq_validate.
  cbn [otpURLGenerateReq_Type otpURLGenerateReq_Secret otpURLGenerateReq_Issuer otpURLGenerateReq_AccountName otpURLGenerateReq_Period
       otpURLGenerateReq_Digits otpURLGenerateReq_Algorithm].
  rewrite !beqb_blank.
  destruct (blank ty); cbn [rbind is_some deref]; [rewrite src_writeError; cbn [rbind]; rewrite lift_err400s; reflexivity|].
  destruct (blank sec); cbn [rbind is_some deref]; [rewrite src_writeError; cbn [rbind]; rewrite lift_err400s; reflexivity|].
  destruct (blank iss); cbn [rbind is_some deref]; [rewrite src_writeError; cbn [rbind]; rewrite lift_err400s; reflexivity|].
  destruct (blank acc); cbn [rbind is_some deref]; [rewrite src_writeError; cbn [rbind]; rewrite lift_err400s; reflexivity|].
  rewrite src_AlgorithmFromStr_eq, src_DigitsFromStr_eq. cbn [rbind]. cbv zeta.
  unfold Suite.beq. change Otp.bytes_eqb with GoSem.beqb.
  destruct (beqb ty (s2b "totp")) eqn:Et.
  - rewrite src_GenerateTOTPURL_eq. destruct (generate_totp_url _) as [u|e|]; cbn [lift_url rbind fst snd option_map is_some deref];
      try (rewrite src_writeError; cbn [rbind]); reflexivity.
  - destruct (beqb ty (s2b "hotp")) eqn:Eh.
    + rewrite src_GenerateHOTPURL_eq. destruct (generate_hotp_url _) as [u|e|]; cbn [lift_url rbind fst snd option_map is_some deref];
        try (rewrite src_writeError; cbn [rbind]); reflexivity.
    + rewrite src_writeError. reflexivity.
Qed.

(** ---------- OCRA: the decoders, the suite, the input ---------- *)
Definition cfg_of_dto (d : t_suiteConfig) : suite_cfg :=
  mkSuite [] (algorithm_from_str (suiteConfig_HashFunction d)) (suiteConfig_CodeDigits d) (suiteConfig_ChallengeFormat d)
    (suiteConfig_IncludeCounter d) (suiteConfig_IncludeChallenge d) (suiteConfig_IncludePassword d) (suiteConfig_IncludeSession d)
    (suiteConfig_IncludeTimestamp d) (suiteConfig_PasswordHash d) (suiteConfig_Timestep d).
Definition hin_of_dto (d : t_ocraInput) : hex_input :=
  mkHexIn (ocraInput_CounterHex d) (ocraInput_ChallengeHex d) (ocraInput_PasswordHex d) (ocraInput_SessionInfoHex d) (ocraInput_TimestampHex d).

Lemma decode_suite_agree f : decode_suite f = option_map cfg_of_dto (decode_suiteConfig f).
Proof.
  unfold decode_suite, decode_suiteConfig.
  destruct (dec_string (field "hash_function" f)), (dec_int64 (field "code_digits" f)), (dec_int64 (field "challenge_format" f)),
    (dec_bool (field "include_counter" f)), (dec_bool (field "include_challenge" f)), (dec_bool (field "include_password" f)),
    (dec_bool (field "include_session" f)), (dec_bool (field "include_timestamp" f)), (dec_int64 (field "password_hash" f)),
    (dec_int64 (field "timestep" f)); reflexivity.
Qed.
Lemma decode_input_agree f : decode_input f = option_map hin_of_dto (decode_ocraInput f).
Proof.
  unfold decode_input, decode_ocraInput.
  destruct (dec_string (field "counter_hex" f)), (dec_string (field "challenge_hex" f)), (dec_string (field "password_hex" f)),
    (dec_string (field "session_info_hex" f)), (dec_string (field "timestamp_hex" f)); reflexivity.
Qed.

Definition common_of_gen (q : t_ocraGenerateReq) :=
  (ocraGenerateReq_Secret q, @nil N, ocraGenerateReq_RawSuite q, option_map cfg_of_dto (ocraGenerateReq_Suite q), option_map hin_of_dto (ocraGenerateReq_Input q)).
Definition common_of_val (q : t_ocraValidateReq) :=
  (ocraValidateReq_Secret q, ocraValidateReq_Code q, ocraValidateReq_RawSuite q, option_map cfg_of_dto (ocraValidateReq_Suite q), option_map hin_of_dto (ocraValidateReq_Input q)).

Lemma decode_ocra_gen_agree f : decode_ocra_common false f = option_map common_of_gen (decode_ocraGenerateReq f).
Proof.
  unfold decode_ocra_common, decode_ocraGenerateReq, dec_ptr.
  destruct (dec_string (field "secret" f)) as [sec|]; [|reflexivity].
  destruct (dec_string (field "raw_suite" f)) as [raw|]; [|reflexivity].
  destruct (dec_obj (field "suite" f)) as [[sf|]|]; [| |reflexivity].
  - rewrite decode_suite_agree. destruct (decode_suiteConfig sf) as [sd|]; cbn [option_map].
    + destruct (dec_obj (field "input" f)) as [[inf|]|]; [| reflexivity | reflexivity].
      rewrite decode_input_agree. destruct (decode_ocraInput inf); reflexivity.
    + destruct (dec_obj (field "input" f)) as [[inf|]|]; reflexivity.
  - destruct (dec_obj (field "input" f)) as [[inf|]|]; [| reflexivity | reflexivity].
    rewrite decode_input_agree. destruct (decode_ocraInput inf); reflexivity.
Qed.
Lemma decode_ocra_val_agree f : decode_ocra_common true f = option_map common_of_val (decode_ocraValidateReq f).
Proof.
  unfold decode_ocra_common, decode_ocraValidateReq, dec_ptr.
  destruct (dec_string (field "secret" f)) as [sec|]; [|reflexivity].
  destruct (dec_string (field "code" f)) as [code|]; [|reflexivity].
  destruct (dec_string (field "raw_suite" f)) as [raw|]; [|reflexivity].
  destruct (dec_obj (field "suite" f)) as [[sf|]|]; [| |reflexivity].
  - rewrite decode_suite_agree. destruct (decode_suiteConfig sf) as [sd|]; cbn [option_map].
    + destruct (dec_obj (field "input" f)) as [[inf|]|]; [| reflexivity | reflexivity].
      rewrite decode_input_agree. destruct (decode_ocraInput inf); reflexivity.
    + destruct (dec_obj (field "input" f)) as [[inf|]|]; reflexivity.
  - destruct (dec_obj (field "input" f)) as [[inf|]|]; [| reflexivity | reflexivity].
    rewrite decode_input_agree. destruct (decode_ocraInput inf); reflexivity.
Qed.

Lemma jv_ok_obj fuel fs : jv_ok fuel (JvObj fs) -> fields_ok fuel fs.
Proof.
  induction fs as [|[k x] t IH]; intros H; [constructor|].
  cbn in H. destruct H as [Hx Ht]. constructor; [exact Hx | apply IH; exact Ht].
Qed.
Lemma dec_obj_ok fuel name f inf : fields_ok fuel f -> dec_obj (field name f) = Some (Some inf) -> fields_ok fuel inf.
Proof.
  intros Hf Hd. destruct (field name f) as [v|] eqn:E; [|discriminate].
  pose proof (field_ok fuel name f v Hf E) as Hv. destruct v; try discriminate. inversion Hd; subst. apply jv_ok_obj. exact Hv.
Qed.

Lemma hex_field_small tag s b : small s -> hex_field tag s = Ok b -> small b.
Proof.
  intros Hs H. unfold hex_field in H. destruct s as [|s0 s']; [inversion H; subst; exact Hs|].
  destruct (hex_decode (s0 :: s')) as [x|] eqn:E; [|discriminate]. inversion H; subst.
  apply UtilsProofs.hex_decode_length in E. unfold small, zlen in *. lia.
Qed.
Lemma hex_input_small c q p s t i : small c -> small q -> small p -> small s -> small t ->
  hex_input_to_ocra c q p s t = Ok i -> small_input i.
Proof.
  intros Hc Hq Hp Hs Ht H. unfold hex_input_to_ocra in H.
  destruct (hex_field T_hex_counter c) as [c'|e|] eqn:Ec; cbn [obind] in H; try discriminate.
  destruct (hex_field T_hex_challenge q) as [q'|e|] eqn:Eq; cbn [obind] in H; try discriminate.
  destruct (hex_field T_hex_password p) as [p'|e|] eqn:Ep; cbn [obind] in H; try discriminate.
  destruct (hex_field T_hex_session s) as [s'|e|] eqn:Es; cbn [obind] in H; try discriminate.
  destruct (hex_field T_hex_timestamp t) as [t'|e|] eqn:Et; cbn [obind] in H; try discriminate.
  inversion H; subst. unfold small_input. cbn [oi_counter oi_challenge oi_password oi_session oi_timestamp].
  exact (conj (hex_field_small _ _ _ Hc Ec) (conj (hex_field_small _ _ _ Hq Eq) (conj (hex_field_small _ _ _ Hp Ep)
    (conj (hex_field_small _ _ _ Hs Es) (hex_field_small _ _ _ Ht Et))))).
Qed.

Lemma src_MustRawSuite_eq fuel raw : small raw ->
  Src.MustRawSuite fuel raw = match new_raw_suite raw with Ok c => Val c | _ => Pnc end.
Proof.
  intros Hs. unfold Src.MustRawSuite. rewrite src_NewRawSuite_eq by exact Hs.
  destruct (new_raw_suite raw); reflexivity.
Qed.

(** ---------- /ocra/generate ---------- *)
Lemma gen_sizes fuel f q : (1 <= fuel)%nat -> fields_ok fuel f -> decode_ocraGenerateReq f = Some q ->
  ((length (ocraGenerateReq_Secret q) < fuel)%nat /\ small (ocraGenerateReq_Secret q)) /\ small (ocraGenerateReq_RawSuite q) /\
  (forall d, ocraGenerateReq_Input q = Some d ->
     small (ocraInput_CounterHex d) /\ small (ocraInput_ChallengeHex d) /\ small (ocraInput_PasswordHex d) /\
     small (ocraInput_SessionInfoHex d) /\ small (ocraInput_TimestampHex d)).
Proof.
  intros H1 Hf Hd. unfold decode_ocraGenerateReq, dec_ptr in Hd.
  destruct (dec_string (field "secret" f)) as [sec|] eqn:Es; [|discriminate].
  destruct (dec_string (field "raw_suite" f)) as [raw|] eqn:Er; [|discriminate].
  destruct (dec_obj (field "suite" f)) as [[sf|]|]; try discriminate;
    [destruct (decode_suiteConfig sf); try discriminate|];
    (destruct (dec_obj (field "input" f)) as [[inf|]|] eqn:Ei; try discriminate;
     [destruct (decode_ocraInput inf) as [d0|] eqn:Ed; try discriminate|]);
    inversion Hd; subst; cbn [ocraGenerateReq_Secret ocraGenerateReq_RawSuite ocraGenerateReq_Input];
    (split; [exact (dec_string_ok fuel _ f sec H1 Hf Es)|]); (split; [exact (proj2 (dec_string_ok fuel _ f raw H1 Hf Er))|]);
    intros d Hdd; try discriminate; inversion Hdd; subst;
    pose proof (dec_obj_ok fuel _ f inf Hf Ei) as Hinf; unfold decode_ocraInput in Ed;
    destruct (dec_string (field "counter_hex" inf)) as [a0|] eqn:E0; try discriminate;
    destruct (dec_string (field "challenge_hex" inf)) as [a1|] eqn:E1; try discriminate;
    destruct (dec_string (field "password_hex" inf)) as [a2|] eqn:E2; try discriminate;
    destruct (dec_string (field "session_info_hex" inf)) as [a3|] eqn:E3; try discriminate;
    destruct (dec_string (field "timestamp_hex" inf)) as [a4|] eqn:E4; try discriminate;
    inversion Ed; subst; cbn [ocraInput_CounterHex ocraInput_ChallengeHex ocraInput_PasswordHex ocraInput_SessionInfoHex ocraInput_TimestampHex];
    exact (conj (proj2 (dec_string_ok fuel _ inf _ H1 Hinf E0)) (conj (proj2 (dec_string_ok fuel _ inf _ H1 Hinf E1))
      (conj (proj2 (dec_string_ok fuel _ inf _ H1 Hinf E2)) (conj (proj2 (dec_string_ok fuel _ inf _ H1 Hinf E3))
      (proj2 (dec_string_ok fuel _ inf _ H1 Hinf E4)))))).
Qed.

Ltac ocra_gen_tail Hi0 Hi1 Hi2 Hi3 Hi4 :=
  rewrite src_HexInputToOCRA_eq;
  cbn [hin_of_dto hi_c hi_q hi_p hi_s hi_t];
  match goal with |- context [hex_input_to_ocra ?a ?b ?c0 ?d ?e] =>
    let Hnp := fresh "Hnp" in let Ehx := fresh "Ehx" in
    pose proof (hex_input_to_ocra_total a b c0 d e) as Hnp;
    destruct (hex_input_to_ocra a b c0 d e) as [inp|e0|] eqn:Ehx; [| |exfalso; apply Hnp; reflexivity];
    cbn [lift_in rbind fst snd option_map is_some];
    [ pose proof (hex_input_small _ _ _ _ _ _ Hi0 Hi1 Hi2 Hi3 Hi4 Ehx);
      rewrite src_GenerateOCRA_eq by (assumption || lia);
      match goal with |- context [generate_ocra ?s ?cf ?i] => destruct (generate_ocra s cf i) as [code|e1|] end;
      cbn [lift_oc rbind fst snd option_map is_some deref]; try (rewrite src_writeError; cbn [rbind]); try reflexivity;
      unfold Src.SuiteConfig_String; cbn [rbind];
      match goal with |- context [sc_raw ?cf] => destruct (sc_raw cf) end; reflexivity
    | rewrite src_writeError; reflexivity ]
  end.

Lemma src_ocraGeneration_eq fuel junk c : rest_runs fuel c ->
  SrcRest.ocraGeneration fuel junk c = lift_rest c (Rest.ocra_generation (cx_req c)).
Proof.
  intros Hr. unfold SrcRest.ocraGeneration, Rest.ocra_generation. rest_open c Hr.
  unfold unmarshal_ocraGenerateReq. destruct (r_body (cx_req c)) as [| |f] eqn:Eb; cbn [body_fields];
    try (cbn [is_some]; rewrite src_writeError; cbn [rbind]; rewrite lift_decode_failed; reflexivity).
  rewrite decode_ocra_gen_agree. destruct (decode_ocraGenerateReq f) as [q|] eqn:Eq; cbn [option_map];
    [| cbn [is_some]; rewrite src_writeError; cbn [rbind]; rewrite lift_decode_failed; reflexivity ].
  cbn [is_some]. cbn [body_ok] in Hbody.
  pose proof (gen_sizes fuel f q ltac:(lia) Hbody Eq) as [[Hs1 Hs2] [Hraw Hin]].
  destruct q as [sec raw sdto idto].
  cbn [ocraGenerateReq_Secret ocraGenerateReq_RawSuite ocraGenerateReq_Input] in Hs1, Hs2, Hraw, Hin.
  unfold common_of_gen, ocraGenerateReq_validate, ocra_prepare.
  cbn [ocraGenerateReq_Secret ocraGenerateReq_RawSuite ocraGenerateReq_Suite ocraGenerateReq_Input andb].
  rewrite !beqb_blank.
  destruct (blank sec); cbn [rbind is_some deref]; [rewrite src_writeError; cbn [rbind]; rewrite lift_err400s; reflexivity|].
  rewrite src_IsKnownSuite_eq.
  assert (Hcfg : forall sd, Src.AlgorithmFromStr (suiteConfig_HashFunction sd) = Val (algorithm_from_str (suiteConfig_HashFunction sd)))
    by (intros; apply src_AlgorithmFromStr_eq).
  destruct sdto as [sd|]; destruct (blank raw) eqn:Ebr; cbn [is_some negb andb option_map rbind deref];
    try (rewrite src_writeError; cbn [rbind]; rewrite lift_err400s; reflexivity).
  all: try (destruct (is_known_suite raw); cbn [negb rbind is_some deref];
            [| rewrite src_writeError; cbn [rbind]; rewrite lift_err400; reflexivity ]).
  all: destruct idto as [idt|]; cbn [is_some negb option_map rbind deref];
    [| rewrite src_writeError; cbn [rbind]; rewrite lift_err400s; reflexivity ].
  all: destruct (Hin idt eq_refl) as (Hi0 & Hi1 & Hi2 & Hi3 & Hi4).
  1,2: rewrite Hcfg; cbn [rbind]; rewrite src_NewSuite_eq; unfold cfg_of_dto;
    match goal with |- context [new_suite ?x] =>
      pose proof (new_suite_total x) as Hnt; destruct (new_suite x) as [c0|e|]; [| |exfalso; apply Hnt; reflexivity] end;
    cbn [lift_suite_nil rbind fst snd option_map is_some];
    [| rewrite src_writeError; reflexivity ];
    rewrite beqb_nil;
    (destruct raw as [|r0 raw']; cbn [negb];
     [ ocra_gen_tail Hi0 Hi1 Hi2 Hi3 Hi4
     | rewrite src_MustRawSuite_eq by exact Hraw;
       destruct (new_raw_suite (r0 :: raw')) as [c1|e|]; cbn [rbind]; [ocra_gen_tail Hi0 Hi1 Hi2 Hi3 Hi4 | reflexivity | reflexivity] ]).
  rewrite beqb_nil. destruct raw as [|r0 raw']; [vm_compute in Ebr; discriminate|]. cbn [negb].
  rewrite src_MustRawSuite_eq by exact Hraw.
  destruct (new_raw_suite (r0 :: raw')) as [c1|e|]; cbn [rbind]; [ocra_gen_tail Hi0 Hi1 Hi2 Hi3 Hi4 | reflexivity | reflexivity].
Qed.

(** ---------- /ocra/validate ---------- *)
Lemma val_sizes fuel f q : (1 <= fuel)%nat -> fields_ok fuel f -> decode_ocraValidateReq f = Some q ->
  ((length (ocraValidateReq_Secret q) < fuel)%nat /\ small (ocraValidateReq_Secret q)) /\ small (ocraValidateReq_RawSuite q) /\
  (forall d, ocraValidateReq_Input q = Some d ->
     small (ocraInput_CounterHex d) /\ small (ocraInput_ChallengeHex d) /\ small (ocraInput_PasswordHex d) /\
     small (ocraInput_SessionInfoHex d) /\ small (ocraInput_TimestampHex d)).
Proof.
  intros H1 Hf Hd. unfold decode_ocraValidateReq, dec_ptr in Hd.
  destruct (dec_string (field "secret" f)) as [sec|] eqn:Es; [|discriminate].
  destruct (dec_string (field "code" f)) as [code|] eqn:Ec; [|discriminate].
  destruct (dec_string (field "raw_suite" f)) as [raw|] eqn:Er; [|discriminate].
  destruct (dec_obj (field "suite" f)) as [[sf|]|]; try discriminate;
    [destruct (decode_suiteConfig sf); try discriminate|];
    (destruct (dec_obj (field "input" f)) as [[inf|]|] eqn:Ei; try discriminate;
     [destruct (decode_ocraInput inf) as [d0|] eqn:Ed; try discriminate|]);
    inversion Hd; subst; cbn [ocraValidateReq_Secret ocraValidateReq_RawSuite ocraValidateReq_Input];
    (split; [exact (dec_string_ok fuel _ f sec H1 Hf Es)|]); (split; [exact (proj2 (dec_string_ok fuel _ f raw H1 Hf Er))|]);
    intros d Hdd; try discriminate; inversion Hdd; subst;
    pose proof (dec_obj_ok fuel _ f inf Hf Ei) as Hinf; unfold decode_ocraInput in Ed;
    destruct (dec_string (field "counter_hex" inf)) as [a0|] eqn:E0; try discriminate;
    destruct (dec_string (field "challenge_hex" inf)) as [a1|] eqn:E1; try discriminate;
    destruct (dec_string (field "password_hex" inf)) as [a2|] eqn:E2; try discriminate;
    destruct (dec_string (field "session_info_hex" inf)) as [a3|] eqn:E3; try discriminate;
    destruct (dec_string (field "timestamp_hex" inf)) as [a4|] eqn:E4; try discriminate;
    inversion Ed; subst; cbn [ocraInput_CounterHex ocraInput_ChallengeHex ocraInput_PasswordHex ocraInput_SessionInfoHex ocraInput_TimestampHex];
    exact (conj (proj2 (dec_string_ok fuel _ inf _ H1 Hinf E0)) (conj (proj2 (dec_string_ok fuel _ inf _ H1 Hinf E1))
      (conj (proj2 (dec_string_ok fuel _ inf _ H1 Hinf E2)) (conj (proj2 (dec_string_ok fuel _ inf _ H1 Hinf E3))
      (proj2 (dec_string_ok fuel _ inf _ H1 Hinf E4)))))).
Qed.

Ltac ocra_val_tail Hi0 Hi1 Hi2 Hi3 Hi4 :=
  rewrite src_HexInputToOCRA_eq;
  cbn [hin_of_dto hi_c hi_q hi_p hi_s hi_t];
  match goal with |- context [hex_input_to_ocra ?a ?b ?c0 ?d ?e] =>
    let Hnp := fresh "Hnp" in let Ehx := fresh "Ehx" in
    pose proof (hex_input_to_ocra_total a b c0 d e) as Hnp;
    destruct (hex_input_to_ocra a b c0 d e) as [inp|e0|] eqn:Ehx; [| |exfalso; apply Hnp; reflexivity];
    cbn [lift_in rbind fst snd option_map is_some];
    [ pose proof (hex_input_small _ _ _ _ _ _ Hi0 Hi1 Hi2 Hi3 Hi4 Ehx);
      rewrite src_ValidateOCRA_eq by (assumption || lia);
      match goal with |- context [validate_ocra ?s ?cd ?cf ?i] =>
        let b := fresh "b" in let e := fresh "e" in let Hok := fresh "Hok" in
        destruct (validate_ocra_ok s cd cf i) as [b [e Hok]]; unfold lift_v, verdict_bool; rewrite Hok end;
      reflexivity
    | rewrite src_writeError; reflexivity ]
  end.

Lemma src_ocraValidation_eq fuel junk c : rest_runs fuel c ->
  SrcRest.ocraValidation fuel junk c = lift_rest c (Rest.ocra_validation (cx_req c)).
Proof.
  intros Hr. unfold SrcRest.ocraValidation, Rest.ocra_validation. rest_open c Hr.
  unfold unmarshal_ocraValidateReq. destruct (r_body (cx_req c)) as [| |f] eqn:Eb; cbn [body_fields];
    try (cbn [is_some]; rewrite src_writeError; cbn [rbind]; rewrite lift_decode_failed; reflexivity).
  rewrite decode_ocra_val_agree. destruct (decode_ocraValidateReq f) as [q|] eqn:Eq; cbn [option_map];
    [| cbn [is_some]; rewrite src_writeError; cbn [rbind]; rewrite lift_decode_failed; reflexivity ].
  cbn [is_some]. cbn [body_ok] in Hbody.
  pose proof (val_sizes fuel f q ltac:(lia) Hbody Eq) as [[Hs1 Hs2] [Hraw Hin]].
  destruct q as [sec code raw sdto idto].
  cbn [ocraValidateReq_Secret ocraValidateReq_RawSuite ocraValidateReq_Input] in Hs1, Hs2, Hraw, Hin.
  unfold common_of_val, ocraValidateReq_validate, ocra_prepare.
  cbn [ocraValidateReq_Secret ocraValidateReq_Code ocraValidateReq_RawSuite ocraValidateReq_Suite ocraValidateReq_Input andb].
  rewrite !beqb_blank.
  destruct (blank sec); cbn [rbind is_some deref]; [rewrite src_writeError; cbn [rbind]; rewrite lift_err400s; reflexivity|].
  destruct (blank code); cbn [rbind is_some deref]; [rewrite src_writeError; cbn [rbind]; rewrite lift_err400s; reflexivity|].
  rewrite src_IsKnownSuite_eq.
  assert (Hcfg : forall sd, Src.AlgorithmFromStr (suiteConfig_HashFunction sd) = Val (algorithm_from_str (suiteConfig_HashFunction sd)))
    by (intros; apply src_AlgorithmFromStr_eq).
  destruct sdto as [sd|]; destruct (blank raw) eqn:Ebr; cbn [is_some negb andb option_map rbind deref];
    try (rewrite src_writeError; cbn [rbind]; rewrite lift_err400s; reflexivity).
  all: try (destruct (is_known_suite raw); cbn [negb rbind is_some deref];
            [| rewrite src_writeError; cbn [rbind]; rewrite lift_err400; reflexivity ]).
  all: destruct idto as [idt|]; cbn [is_some negb option_map rbind deref];
    [| rewrite src_writeError; cbn [rbind]; rewrite lift_err400s; reflexivity ].
  all: destruct (Hin idt eq_refl) as (Hi0 & Hi1 & Hi2 & Hi3 & Hi4).
  1,2: rewrite Hcfg; cbn [rbind]; rewrite src_NewSuite_eq; unfold cfg_of_dto;
    match goal with |- context [new_suite ?x] =>
      pose proof (new_suite_total x) as Hnt; destruct (new_suite x) as [c0|e|]; [| |exfalso; apply Hnt; reflexivity] end;
    cbn [lift_suite_nil rbind fst snd option_map is_some];
    [| rewrite src_writeError; reflexivity ];
    rewrite beqb_nil;
    (destruct raw as [|r0 raw']; cbn [negb];
     [ ocra_val_tail Hi0 Hi1 Hi2 Hi3 Hi4
     | rewrite src_MustRawSuite_eq by exact Hraw;
       destruct (new_raw_suite (r0 :: raw')) as [c1|e|]; cbn [rbind]; [ocra_val_tail Hi0 Hi1 Hi2 Hi3 Hi4 | reflexivity | reflexivity] ]).
  rewrite beqb_nil. destruct raw as [|r0 raw']; [vm_compute in Ebr; discriminate|]. cbn [negb].
  rewrite src_MustRawSuite_eq by exact Hraw.
  destruct (new_raw_suite (r0 :: raw')) as [c1|e|]; cbn [rbind]; [ocra_val_tail Hi0 Hi1 Hi2 Hi3 Hi4 | reflexivity | reflexivity].
Qed.

(** ---------- the router ---------- *)
Lemma src_routers_eq fuel jr j4 j6 c : rest_runs fuel c -> length j4 = 8%nat ->
  beqb (r_path (cx_req c)) (s2b "/otp/secret") = false -> beqb (r_path (cx_req c)) (s2b "/") = false ->
  SrcRest.routers fuel jr j4 j6 c = lift_rest c (Rest.handle (cx_now c) (cx_req c)).
Proof.
  intros Hr Hj Hsec Hhome. unfold SrcRest.routers, Rest.handle, ctx_path. cbv zeta.
  unfold Suite.beq. change Otp.bytes_eqb with GoSem.beqb.
  set (p := r_path (cx_req c)) in *.
  destruct (beqb p (s2b "/docs")); [reflexivity|].
  destruct (is_prefix (s2b "/docs/") p); [reflexivity|].
  destruct (beqb p (s2b "/totp/generate")); [rewrite src_totpGeneration_eq by assumption; destruct (lift_rest c _); reflexivity|].
  destruct (beqb p (s2b "/totp/validate")); [rewrite src_totpValidation_eq by assumption; destruct (lift_rest c _); reflexivity|].
  destruct (beqb p (s2b "/hotp/generate")); [rewrite src_hotpGeneration_eq by assumption; destruct (lift_rest c _); reflexivity|].
  destruct (beqb p (s2b "/hotp/validate")); [rewrite src_hotpValidation_eq by assumption; destruct (lift_rest c _); reflexivity|].
  destruct (beqb p (s2b "/ocra/generate")); [rewrite src_ocraGeneration_eq by assumption; destruct (lift_rest c _); reflexivity|].
  destruct (beqb p (s2b "/ocra/validate")); [rewrite src_ocraValidation_eq by assumption; destruct (lift_rest c _); reflexivity|].
  destruct (beqb p (s2b "/ocra/suites")); [rewrite src_listOCRASuites_eq; destruct (lift_rest c _); reflexivity|].
  destruct (beqb p (s2b "/ocra/suite")); [rewrite (src_ocraSuiteConfig_eq fuel) by assumption; destruct (lift_rest c _); reflexivity|].
  destruct (beqb p (s2b "/otp/url")); [rewrite src_otpURLGeneration_eq by assumption; destruct (lift_rest c _); reflexivity|].
  rewrite Hsec, Hhome. reflexivity.
Qed.
