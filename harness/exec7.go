package main

func run7(f []string) (string, bool) { return "", false }
