(** hotp.go, totp.go, validate.go as translated from the Go source: the three files of equivalences together. *)
From OtpV Require Export SrcEqValidate SrcEqHotp SrcEqTotp.
