package main

import (
	"bytes"
	"encoding/hex"
	"encoding/json"
	"fmt"
	"io"
	"net"
	"net/http"
	"os"
	"os/exec"
	"sort"
	"strconv"
	"strings"
	"sync"
	"syscall"
	"time"

	"github.com/ja7ad/otp"
)

// The REST cases talk to the real server binary (VERIF_REST_BIN, built by the check from
// /repo/internal/app) on a loopback port; it is started on the first REST case.
var (
	restOnce   sync.Once
	restBase   string
	restCmd    *exec.Cmd
	restErr    error
	keepClient = &http.Client{Timeout: 30 * time.Second}
	restExited chan struct{}
	freshCl    = &http.Client{Timeout: 30 * time.Second, Transport: &http.Transport{DisableKeepAlives: true}}
)

func startRest() {
	bin := os.Getenv("VERIF_REST_BIN")
	if bin == "" {
		restErr = fmt.Errorf("VERIF_REST_BIN not set")
		return
	}
	// The port is chosen by binding port 0 and releasing it; another process may take it before the server
	// binds it.  A server that could not bind exits, so an answer only counts while our own child is alive;
	// otherwise another port is tried.
	for attempt := 0; attempt < 8; attempt++ {
		l, err := net.Listen("tcp", "127.0.0.1:0")
		if err != nil {
			restErr = err
			return
		}
		addr := l.Addr().String()
		l.Close()
		cmd := exec.Command(bin, "-serve", addr)
		cmd.Stdout, cmd.Stderr = nil, nil
		if err := cmd.Start(); err != nil {
			restErr = err
			return
		}
		exited := make(chan struct{})
		go func() { cmd.Wait(); close(exited) }()
		alive := func() bool {
			select {
			case <-exited:
				return false
			default:
				return true
			}
		}
		up := false
		for i := 0; i < 200 && alive(); i++ {
			if resp, err := freshCl.Get("http://" + addr + "/"); err == nil {
				resp.Body.Close()
				up = true
				break
			}
			time.Sleep(25 * time.Millisecond)
		}
		if up {
			time.Sleep(100 * time.Millisecond) // a child that lost the port to someone else is gone by now
		}
		if up && alive() {
			restCmd, restExited, restBase, restErr = cmd, exited, "http://"+addr, nil
			return
		}
		if alive() {
			cmd.Process.Kill()
		}
		<-exited
		restErr = fmt.Errorf("server did not come up")
	}
}

func restDead() bool {
	select {
	case <-restExited:
		return true
	default:
		return false
	}
}

func stopRest() {
	if restCmd != nil && restCmd.Process != nil {
		if os.Getenv("VERIF_REST_TERM") != "" {
			// a graceful stop: a server built with Go's block counters writes them when main returns
			keepClient.CloseIdleConnections() // the server's shutdown waits for open connections
			restCmd.Process.Signal(syscall.SIGTERM)
			select {
			case <-restExited:
				return
			case <-time.After(10 * time.Second):
			}
		}
		restCmd.Process.Kill()
		<-restExited
	}
}

// ---- body specification -> JSON text ----
func jsonValue(kind, val string) string {
	switch kind {
	case "s":
		b, _ := json.Marshal(string(unhx(val)))
		return string(b)
	case "i", "r":
		return val
	case "b":
		if val == "1" {
			return "true"
		}
		return "false"
	case "n":
		return "null"
	case "a":
		return "[]"
	case "o":
		return jsonObject(string(unhx(val)))
	}
	panic("bad kind " + kind)
}
func jsonObject(fields string) string {
	var sb strings.Builder
	sb.WriteString("{")
	if fields != "" {
		for i, f := range strings.Split(fields, ";") {
			p := strings.SplitN(f, "~", 3)
			if i > 0 {
				sb.WriteString(",")
			}
			nb, _ := json.Marshal(p[0])
			sb.Write(nb)
			sb.WriteString(":")
			sb.WriteString(jsonValue(p[1], p[2]))
		}
	}
	sb.WriteString("}")
	return sb.String()
}
func bodyBytes(spec string) []byte {
	switch spec[0] {
	case 'M', 'N', 'Z':
		return unhx(spec[2:])
	case 'O':
		return []byte(jsonObject(spec[2:]))
	case '-':
		return nil
	}
	panic("bad body spec")
}

// field of a top-level object spec as the decoded Go value would be (only for the now-dependent self-check)
func specField(spec, name string) (kind, val string, ok bool) {
	if spec[0] != 'O' || len(spec) <= 2 {
		return
	}
	for _, f := range strings.Split(spec[2:], ";") {
		p := strings.SplitN(f, "~", 3)
		if strings.EqualFold(p[0], name) {
			kind, val, ok = p[1], p[2], true
		}
	}
	return
}
func specStr(spec, name string) string {
	if k, v, ok := specField(spec, name); ok && k == "s" {
		return string(unhx(v))
	}
	return ""
}

func hexs(s string) string { return "x" + hex.EncodeToString([]byte(s)) }
func optNum(m map[string]any, k string) string {
	if v, ok := m[k]; ok {
		if n, ok := v.(json.Number); ok {
			return n.String()
		}
		return "?"
	}
	return "-"
}
func optStr(m map[string]any, k string) string {
	if v, ok := m[k]; ok {
		if s, ok := v.(string); ok {
			return hexs(s)
		}
		return "?"
	}
	return "-"
}

func canonical(path, spec string, status int, hdr http.Header, body []byte) string {
	st := strconv.Itoa(status)
	if status == 302 {
		return st + "|loc:" + hexs(strings.TrimPrefix(hdr.Get("Location"), restBase))
	}
	if strings.HasPrefix(path, "/docs/") {
		return "200|other"
	}
	var m map[string]any
	dec := json.NewDecoder(bytes.NewReader(body))
	dec.UseNumber()
	if err := dec.Decode(&m); err != nil || m == nil {
		return st + "|text:" + hexs(string(body))
	}
	if status != 200 {
		if msg, ok := m["message"].(string); ok {
			return st + "|err:" + hexs(msg)
		}
		return st + "|json-without-message"
	}
	switch {
	case m["valid"] != nil:
		b, _ := m["valid"].(bool)
		if path == "/totp/validate" {
			if k, v, ok := specField(spec, "timestamp"); !ok || k != "i" || !positive(v) {
				return "200|valid:@now"
			}
		}
		return "200|valid:" + b01(b)
	case m["url"] != nil:
		s, _ := m["url"].(string)
		return "200|url:" + hexs(s)
	case m["suites"] != nil:
		var names []string
		for _, x := range m["suites"].([]any) {
			names = append(names, x.(string))
		}
		sort.Strings(names)
		return "200|suites:" + strings.Join(names, ",")
	case m["config"] != nil:
		c := m["config"].(map[string]any)
		bs := func(k string) string { b, _ := c[k].(bool); return b01(b) }
		hf, _ := c["hash_function"].(string)
		raw, _ := m["raw"].(string)
		def := func(k string) string {
			if v := optNum(c, k); v != "-" {
				return v
			}
			return "0"
		}
		return fmt.Sprintf("200|suitecfg:%s,%s,%s,%s,%s,%s,%s,%s,%s,%s,%s", hexs(raw), hexs(hf), def("code_digits"), def("challenge_format"),
			bs("include_counter"), bs("include_challenge"), bs("include_password"), bs("include_session"), bs("include_timestamp"), def("password_hash"), def("timestep"))
	case m["secret"] != nil:
		s, _ := m["secret"].(string)
		a, _ := m["algorithm"].(string)
		key, err := otp.DecodeSecret(s)
		ok := err == nil && s == strings.ToUpper(s) && !strings.Contains(s, "=")
		return fmt.Sprintf("200|secret:%s,len=%d,wellformed=%s", hexs(a), len(key), b01(ok))
	case m["code"] != nil:
		code, _ := m["code"].(string)
		if path == "/totp/generate" {
			if k, v, ok := specField(spec, "timestamp"); !ok || k != "i" || !positive(v) {
				// answered for "now": check the code against the reference at the reported time
				ts, _ := strconv.ParseInt(optNum(m, "timestamp"), 10, 64)
				per := uint64(30)
				if k, v, ok := specField(spec, "period"); ok && k == "i" {
					if p, err := strconv.ParseUint(v, 10, 64); err == nil && p > 0 {
						per = p
					}
				}
				key := decodeLoose(specStr(spec, "secret"))
				d := otp.DigitsFromStr(specStr(spec, "digits")).Int()
				a := uint64(otp.AlgorithmFromStr(specStr(spec, "algorithm")))
				if ts > 0 && key != nil && refHOTP(key, uint64(ts)/per, d, a) == code {
					return "200|code:@now"
				}
				return "200|code:MISMATCH-at-reported-time"
			}
		}
		return fmt.Sprintf("200|code:%s,ts=%s,counter=%s,suite=%s", hexs(code), optNum(m, "timestamp"), optNum(m, "counter"), optStr(m, "suite"))
	case m["app"] != nil:
		return "200|home:"
	}
	return "200|unrecognised-json"
}

func positive(v string) bool {
	n, err := strconv.ParseInt(v, 10, 64)
	return err == nil && n > 0
}

func doRest(f []string) string {
	restOnce.Do(startRest)
	if restErr != nil {
		return "server-not-started:" + restErr.Error()
	}
	cl := keepClient
	if f[1] == "f" {
		cl = freshCl
	}
	path := string(unhx(f[3]))
	target := restBase + path
	if q := string(unhx(f[4])); q != "" {
		target += "?" + q
	}
	var rd io.Reader
	if b := bodyBytes(f[5]); b != nil {
		rd = bytes.NewReader(b)
	}
	req, err := http.NewRequest(f[2], target, rd)
	if err != nil {
		return "bad-request:" + err.Error()
	}
	if rd != nil {
		req.Header.Set("Content-Type", "application/json")
	}
	cl.CheckRedirect = func(*http.Request, []*http.Request) error { return http.ErrUseLastResponse }
	if restDead() { // never talk to whoever may have taken the port since
		return "server-dead"
	}
	t0 := time.Now()
	resp, err := cl.Do(req)
	if err != nil {
		if restDead() {
			return "server-dead"
		}
		return "no-response:" + strings.ReplaceAll(err.Error(), restBase, "")
	}
	body, _ := io.ReadAll(resp.Body)
	resp.Body.Close()
	out := canonical(path, f[5], resp.StatusCode, resp.Header, body)
	if time.Since(t0) > 2*time.Second {
		return "slow-" + out
	}
	return out
}

// rburst x<hex of newline-separated rreq lines>: all at once, then one by one; the answers must agree
func doBurst(f []string) string {
	lines := strings.Split(string(unhx(f[1])), "\n")
	res := make([]string, len(lines))
	var wg sync.WaitGroup
	for i, l := range lines {
		wg.Add(1)
		go func(i int, l string) {
			defer wg.Done()
			res[i] = doRest(strings.Split(l, " "))
		}(i, l)
	}
	wg.Wait()
	for i, l := range lines {
		if seq := doRest(strings.Split(l, " ")); seq != res[i] {
			return "bad:concurrent-answer-differs:" + l + " => " + res[i] + " vs " + seq
		}
	}
	return "ok:"
}
