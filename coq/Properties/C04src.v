(** C04 over the Go source (Generated/Src.v: ValidateTOTP as translated from totp.go). *)
From Coq Require Import String.
From OtpV Require Import Prelude Sha GoSem Tables Decoder Derive Otp Rfc4226 Errors OtpProofs Src SrcLift SrcTop SrcEqDecode SrcEqValidate SrcEqTotp C04.
Open Scope N_scope.

Theorem C04src_iff : forall fuel junk secret key code unix d per s a,
  runs fuel junk secret -> Src.DecodeSecret fuel secret = Val (key, None) -> 1 <= d <= 10 -> s <= 10 -> (0 <= unix < 2 ^ 62)%Z ->
  let n := Z.to_N unix / eff30 per in
  s <= n ->
  (Src.ValidateTOTP fuel junk secret code unix (Some (mkParam d per s (N_of_alg a))) = Val (true, None)
   <-> exists n', n - s <= n' <= n + s /\ code = hotp_value hmac a key n' (N.to_nat d)).
Proof.
  intros fuel junk secret key code unix d per s a (Hf & Hfs & Hs & Hj) Hk Hd Hsk Hu n Hn.
  apply src_decode_ok in Hk; [|assumption|assumption].
  rewrite src_ValidateTOTP_eq by (assumption || lia). rewrite lift_v_true.
  apply (C04_iff secret key); assumption.
Qed.
Print Assumptions C04src_iff.

Theorem C04src_refuse : forall fuel junk secret code unix d per s algo, runs fuel junk secret -> 10 < s ->
  Src.ValidateTOTP fuel junk secret code unix (Some (mkParam d per s algo)) = Val (false, Some (ESent ErrInvalidSkew)).
Proof.
  intros fuel junk secret code unix d per s algo (Hf & Hfs & Hs & Hj) Hsk.
  rewrite src_ValidateTOTP_eq by (assumption || lia). rewrite C04_refuse by exact Hsk. reflexivity.
Qed.
Print Assumptions C04src_refuse.

(** bounded work, on the source: 22 units of fuel are enough for the window loop whatever the skew, the code,
    the instant and the parameters — the loop of the translated function cannot run longer *)
Theorem C04src_bounded : forall fuel junk secret code unix p, runs fuel junk secret ->
  Src.ValidateTOTP fuel junk secret code unix p <> OutOfFuel.
Proof.
  intros fuel junk secret code unix p (Hf & Hfs & Hs & Hj).
  rewrite src_ValidateTOTP_eq by (assumption || lia).
  unfold lift_v. destruct (fst (validate_totp secret code unix p)) as [[b e]|e|]; discriminate.
Qed.
Print Assumptions C04src_bounded.

Theorem C04src_nil_param : forall fuel junk secret code unix, runs fuel junk secret ->
  Src.ValidateTOTP fuel junk secret code unix None = Src.ValidateTOTP fuel junk secret code unix (Some (mkParam 6 30 0 0)).
Proof.
  intros fuel junk secret code unix (Hf & Hfs & Hs & Hj).
  rewrite !src_ValidateTOTP_eq by (assumption || lia). rewrite C04_nil_param. reflexivity.
Qed.
Print Assumptions C04src_nil_param.

Theorem C04src_zero_period : forall fuel junk secret code unix d s a, runs fuel junk secret ->
  Src.ValidateTOTP fuel junk secret code unix (Some (mkParam d 0 s a)) = Src.ValidateTOTP fuel junk secret code unix (Some (mkParam d 30 s a)).
Proof.
  intros fuel junk secret code unix d s a (Hf & Hfs & Hs & Hj).
  rewrite !src_ValidateTOTP_eq by (assumption || lia). rewrite C04_zero_period. reflexivity.
Qed.
Print Assumptions C04src_zero_period.

Theorem C04src_verdict : forall fuel junk secret code unix p, runs fuel junk secret ->
  Src.ValidateTOTP fuel junk secret code unix p = Val (true, None)
  \/ exists e, Src.ValidateTOTP fuel junk secret code unix p = Val (false, Some e).
Proof.
  intros fuel junk secret code unix p (Hf & Hfs & Hs & Hj).
  rewrite src_ValidateTOTP_eq by (assumption || lia).
  destruct (C04_verdict secret code unix p) as [k [H|[e H]]]; rewrite H; [left|right; exists e]; reflexivity.
Qed.
Print Assumptions C04src_verdict.

Example C04src_window :
  let secret := s2b "GEZDGNBVGY3TQOJQGEZDGNBVGY3TQOJQ"%string in
  Src.ValidateTOTP 40 (repeat 3 8) secret (s2b "94287082"%string) 89 (Some (mkParam 8 30 1 0)) = Val (true, None) /\
  Src.ValidateTOTP 40 (repeat 3 8) secret (s2b "94287082"%string) 119 (Some (mkParam 8 30 1 0)) = Val (false, Some (ESent ErrInvalidCode)).
Proof. split; vm_compute; reflexivity. Qed.
