(** Model of the REST service (internal/app/api): the router, the recovery middleware and the ten
    handlers as a function  request -> now -> response * work,  where work is the number of HMAC
    derivations the library call performs.  A request body is given by its JSON *shape* (malformed
    / not an object / an object with a value kind per field): encoding/json's acceptance rule for
    every DTO field type is part of the model, its tokenizer is not (the harness decides
    well-formedness of body text with Go's json.Valid).  Socket-level behaviour (timeouts, the
    1 MiB limit, malformed HTTP) is fasthttp's and is not modelled. *)
From Coq Require Import String.
From OtpV Require Import Prelude Sha Tables Errors Decoder Derive Otp Ocra Utils Random Suite Url.
Open Scope N_scope.

(** ---- JSON shapes ---- *)
Inductive jv :=
| JvStr (s : bytes) | JvInt (z : Z) | JvFrac | JvBool (b : bool) | JvNull | JvArr
| JvObj (fields : list (bytes * jv)).
Inductive body := BMalformed | BNonObject | BObject (fields : list (bytes * jv)).

Record request := mkReq { r_method : bytes; r_path : bytes; r_query_alg : bytes; r_body : body }.

(** encoding/json matches object keys to struct fields case-insensitively; a later duplicate wins *)
Fixpoint find_field (name : bytes) (fields : list (bytes * jv)) (acc : option jv) : option jv :=
  match fields with
  | [] => acc
  | (k, v) :: t => find_field name t (if beq (to_lower k) name then Some v else acc)
  end.
Definition field (name : string) (fields : list (bytes * jv)) : option jv := find_field (s2b name) fields None.

(** decoding into the Go field types: [None] = UnmarshalTypeError / range error (the request is
    answered 400 "failed to decode body"); an absent or null value leaves the zero value *)
Definition dec_string (v : option jv) : option bytes :=
  match v with None | Some JvNull => Some [] | Some (JvStr s) => Some s | _ => None end.
Definition dec_int_range (lo hi : Z) (v : option jv) : option Z :=
  match v with
  | None | Some JvNull => Some 0%Z
  | Some (JvInt z) => if (lo <=? z)%Z && (z <=? hi)%Z then Some z else None
  | _ => None
  end.
Definition dec_int64 := dec_int_range (-9223372036854775808)%Z 9223372036854775807%Z.
Definition dec_uint64 (v : option jv) : option N :=
  match dec_int_range 0%Z 18446744073709551615%Z v with Some z => Some (Z.to_N z) | None => None end.
Definition dec_bool (v : option jv) : option bool :=
  match v with None | Some JvNull => Some false | Some (JvBool b) => Some b | _ => None end.
(** a pointer to a struct: nil when absent or null *)
Definition dec_obj (v : option jv) : option (option (list (bytes * jv))) :=
  match v with None | Some JvNull => Some None | Some (JvObj f) => Some (Some f) | _ => None end.

(** ---- responses ---- *)
Inductive payload :=
| PCode (code : bytes) (ts : option Z) (counter : option N) (suite : option bytes)
| PValid (b : bool)
| PUrl (u : bytes)
| PSecret (algo : N)                                   (* a fresh random secret for this hash *)
| PSuites (names : list bytes)
| PSuiteCfg (raw : bytes) (cfg : suite_cfg)
| PHome
| PError (msg : bytes)                                 (* JSON error body: {"code","message",...} *)
| PText (t : bytes)                                    (* plain text body *)
| PRedirect (loc : bytes)
| POther.                                              (* swagger pages: not modelled *)
Record response := mkResp { status : N; pay : payload }.

Definition err400 (msg : string) : response * nat := (mkResp 400 (PError (s2b msg)), O).
Definition err400b (msg : bytes) : response * nat := (mkResp 400 (PError msg), O).
Definition err500 (msg : string) (k : nat) : response * nat := (mkResp 500 (PError (s2b msg)), k).
Definition not_allowed : response * nat := (mkResp 405 (PError (s2b "method not allowed")), O).
Definition decode_failed : response * nat := err400 "failed to decode body".
Definition recovered_panic : response * nat := (mkResp 500 (PText (s2b "Internal Server Error")), O).

Definition is_post (r : request) : bool := beq (r_method r) (s2b "POST").
Definition is_get (r : request) : bool := beq (r_method r) (s2b "GET").
Definition blank (s : bytes) : bool := match trim_space s with [] => true | _ => false end.

(** json.Unmarshal of the body into a struct: the object's fields, or a decoding failure *)
Definition body_fields (b : body) : option (list (bytes * jv)) :=
  match b with BMalformed | BNonObject => None | BObject f => Some f end.

(** ---- otpGenerateReq / otpValidateReq ---- *)
Record gen_req := mkGenReq { g_secret : bytes; g_timestamp : Z; g_counter : N; g_digits : bytes; g_period : N; g_algorithm : bytes }.
Definition decode_gen_req (f : list (bytes * jv)) : option gen_req :=
  match dec_string (field "secret" f), dec_int64 (field "timestamp" f), dec_uint64 (field "counter" f),
        dec_string (field "digits" f), dec_uint64 (field "period" f), dec_string (field "algorithm" f) with
  | Some s, Some t, Some c, Some d, Some p, Some a => Some (mkGenReq s t c d p a)
  | _, _, _, _, _, _ => None
  end.
Record val_req := mkValReq { v_secret : bytes; v_timestamp : Z; v_counter : N; v_code : bytes; v_digits : bytes;
                             v_period : N; v_skew : N; v_algorithm : bytes }.
Definition decode_val_req (f : list (bytes * jv)) : option val_req :=
  match dec_string (field "secret" f), dec_int64 (field "timestamp" f), dec_uint64 (field "counter" f), dec_string (field "code" f),
        dec_string (field "digits" f), dec_uint64 (field "period" f), dec_uint64 (field "skew" f), dec_string (field "algorithm" f) with
  | Some s, Some t, Some c, Some co, Some d, Some p, Some sk, Some a => Some (mkValReq s t c co d p sk a)
  | _, _, _, _, _, _, _, _ => None
  end.

Definition verdict_bool (o : outcome verdict * nat) : option bool :=
  match fst o with Ok (b, _) => Some b | _ => None end.

Section Handlers.
  Variable now : Z.

  Definition totp_generation_core (q : gen_req) : response * nat :=
      if blank (g_secret q) then err400 "missing required field: secret" else
      let period := if g_period q =? 0 then 30 else g_period q in
      let t := if (0 <? g_timestamp q)%Z then g_timestamp q else now in
      match generate_totp (trim_space (g_secret q)) t
              (Some (mkParam (digits_from_str (g_digits q)) period 0 (algorithm_from_str (g_algorithm q)))) with
      | Ok code => (mkResp 200 (PCode code (Some t) None None), 1%nat)
      | Err _ => err500 "totp generation failed" 1
      | Panic => recovered_panic
      end.

  Definition totp_generation (r : request) : response * nat :=
    if negb (is_post r) then not_allowed else
    match body_fields (r_body r) with None => decode_failed | Some f =>
    match decode_gen_req f with None => decode_failed | Some q => totp_generation_core q
    end end.

  Definition totp_validation_core (q : val_req) : response * nat :=
      if blank (v_secret q) then err400 "missing required field: secret"
      else if blank (v_code q) then err400 "missing required field: code" else
      let t := if (0 <? v_timestamp q)%Z then v_timestamp q else now in
      let res := validate_totp (trim_space (v_secret q)) (v_code q) t
                   (Some (mkParam (digits_from_str (v_digits q)) (v_period q) (v_skew q) (algorithm_from_str (v_algorithm q)))) in
      match verdict_bool res with
      | Some b => (mkResp 200 (PValid b), snd res)
      | None => recovered_panic
      end.

  Definition totp_validation (r : request) : response * nat :=
    if negb (is_post r) then not_allowed else
    match body_fields (r_body r) with None => decode_failed | Some f =>
    match decode_val_req f with None => decode_failed | Some q => totp_validation_core q
    end end.

  Definition hotp_generation_core (q : gen_req) : response * nat :=
      if blank (g_secret q) then err400 "missing required field: secret" else
      match generate_hotp (g_secret q) (g_counter q)
              (Some (mkParam (digits_from_str (g_digits q)) 0 0 (algorithm_from_str (g_algorithm q)))) with
      | Ok code => (mkResp 200 (PCode code None (if g_counter q =? 0 then None else Some (g_counter q)) None), 1%nat)
      | Err _ => err500 "hotp generation failed" 1
      | Panic => recovered_panic
      end.

  Definition hotp_generation (r : request) : response * nat :=
    if negb (is_post r) then not_allowed else
    match body_fields (r_body r) with None => decode_failed | Some f =>
    match decode_gen_req f with None => decode_failed | Some q => hotp_generation_core q
    end end.

  Definition hotp_validation_core (q : val_req) : response * nat :=
      if blank (v_secret q) then err400 "missing required field: secret"
      else if blank (v_code q) then err400 "missing required field: code" else
      let res := validate_hotp (v_secret q) (v_code q) (v_counter q)
                   (Some (mkParam (digits_from_str (v_digits q)) 0 (v_skew q) (algorithm_from_str (v_algorithm q)))) in
      match verdict_bool res with
      | Some b => (mkResp 200 (PValid b), snd res)
      | None => recovered_panic
      end.

  Definition hotp_validation (r : request) : response * nat :=
    if negb (is_post r) then not_allowed else
    match body_fields (r_body r) with None => decode_failed | Some f =>
    match decode_val_req f with None => decode_failed | Some q => hotp_validation_core q
    end end.

  (** ---- /otp/url ---- *)
  Definition otp_url_generation (r : request) : response * nat :=
    if negb (is_post r) then not_allowed else
    match body_fields (r_body r) with None => decode_failed | Some f =>
    match dec_string (field "type" f), dec_string (field "secret" f), dec_string (field "issuer" f), dec_string (field "account_name" f),
          dec_uint64 (field "period" f), dec_string (field "digits" f), dec_string (field "algorithm" f) with
    | Some ty, Some sec, Some iss, Some acc, Some per, Some dg, Some al =>
      if blank ty then err400 "missing required field: type (totp or hotp)"
      else if blank sec then err400 "missing required field: secret"
      else if blank iss then err400 "missing required field: issuer"
      else if blank acc then err400 "missing required field: account_name" else
      let p := mkUrlParam iss acc per sec (digits_from_str dg) (algorithm_from_str al) in
      let gen := if beq ty (s2b "totp") then Some (generate_totp_url p)
                 else if beq ty (s2b "hotp") then Some (generate_hotp_url p) else None in
      match gen with
      | None => err400 "invalid otp type"
      | Some (Ok u) => (mkResp 200 (PUrl (url_string u)), O)
      | Some (Err _) => err500 "otp generation failed" 0
      | Some Panic => recovered_panic
      end
    | _, _, _, _, _, _, _ => decode_failed
    end end.

  (** ---- /otp/secret ---- *)
  Definition generate_random_secret (r : request) : response * nat :=
    if negb (is_get r) then not_allowed else
    (mkResp 200 (PSecret (algorithm_from_str (r_query_alg r))), O).

  (** ---- OCRA ---- *)
  Definition decode_suite (f : list (bytes * jv)) : option suite_cfg :=
    match dec_string (field "hash_function" f), dec_int64 (field "code_digits" f), dec_int64 (field "challenge_format" f),
          dec_bool (field "include_counter" f), dec_bool (field "include_challenge" f), dec_bool (field "include_password" f),
          dec_bool (field "include_session" f), dec_bool (field "include_timestamp" f),
          dec_int64 (field "password_hash" f), dec_int64 (field "timestep" f) with
    | Some h, Some d, Some ch, Some c, Some q, Some p, Some s, Some t, Some pw, Some ts =>
      Some (mkSuite [] (algorithm_from_str h) d ch c q p s t pw ts)
    | _, _, _, _, _, _, _, _, _, _ => None
    end.
  Record hex_input := mkHexIn { hi_c : bytes; hi_q : bytes; hi_p : bytes; hi_s : bytes; hi_t : bytes }.
  Definition decode_input (f : list (bytes * jv)) : option hex_input :=
    match dec_string (field "counter_hex" f), dec_string (field "challenge_hex" f), dec_string (field "password_hex" f),
          dec_string (field "session_info_hex" f), dec_string (field "timestamp_hex" f) with
    | Some c, Some q, Some p, Some s, Some t => Some (mkHexIn c q p s t)
    | _, _, _, _, _ => None
    end.

  (** the common part of ocraGeneration / ocraValidation after decoding: request checks, suite
      resolution, input conversion; [inr] is the early response *)
  Definition ocra_prepare (secret code raw : bytes) (need_code : bool) (suite : option suite_cfg) (input : option hex_input)
    : (suite_cfg * ocra_input) + (response * nat) :=
    if blank secret then inr (err400 "missing required field: secret")
    else if need_code && blank code then inr (err400 "missing required field: code")
    else if blank raw && negb (match suite with Some _ => true | None => false end) then inr (err400 "missing required field: raw_suite or suite")
    else if negb (blank raw) && negb (is_known_suite raw) then inr (err400b (s2b "unknown suite: " ++ raw))
    else match input with
    | None => inr (err400 "missing required field: input")
    | Some hin =>
      let from_cfg := match suite with
                      | Some cfg => match new_suite cfg with Ok c => inl (Some c) | _ => inr (err400 "failed to create suite") end
                      | None => inl None
                      end in
      match from_cfg with
      | inr e => inr e
      | inl s0 =>
        let resolved := match raw with
                        | [] => match s0 with Some c => inl c | None => inr recovered_panic end   (* nil Suite: not reachable *)
                        | _ => match new_raw_suite raw with Ok c => inl c | _ => inr recovered_panic end   (* MustRawSuite panics *)
                        end in
        match resolved with
        | inr e => inr e
        | inl cfg =>
          match hex_input_to_ocra (hi_c hin) (hi_q hin) (hi_p hin) (hi_s hin) (hi_t hin) with
          | Ok inp => inl (cfg, inp)
          | _ => inr (err400 "failed to parse ocra input")
          end
        end
      end
    end.

  (** ocraGenerateReq has no Code field: encoding/json ignores the key "code" there, whatever its value is *)
  Definition decode_ocra_common (with_code : bool) (f : list (bytes * jv)) : option (bytes * bytes * bytes * option suite_cfg * option hex_input) :=
    match dec_string (field "secret" f), (if with_code then dec_string (field "code" f) else Some []), dec_string (field "raw_suite" f),
          dec_obj (field "suite" f), dec_obj (field "input" f) with
    | Some sec, Some code, Some raw, Some so, Some io =>
      let suite := match so with None => Some None | Some sf => match decode_suite sf with Some c => Some (Some c) | None => None end end in
      let input := match io with None => Some None | Some inf => match decode_input inf with Some i => Some (Some i) | None => None end end in
      match suite, input with
      | Some s, Some i => Some (sec, code, raw, s, i)
      | _, _ => None
      end
    | _, _, _, _, _ => None
    end.

  Definition ocra_generation (r : request) : response * nat :=
    if negb (is_post r) then not_allowed else
    match body_fields (r_body r) with None => decode_failed | Some f =>
    match decode_ocra_common false f with None => decode_failed | Some (sec, _, raw, suite, input) =>
      match ocra_prepare sec [] raw false suite input with
      | inr e => e
      | inl (cfg, inp) =>
        match generate_ocra sec cfg inp with
        | Ok code => (mkResp 200 (PCode code None None (match sc_raw cfg with [] => None | n => Some n end)), 1%nat)
        | Err _ => err500 "failed to generate ocra code" 1
        | Panic => recovered_panic
        end
      end
    end end.

  Definition ocra_validation (r : request) : response * nat :=
    if negb (is_post r) then not_allowed else
    match body_fields (r_body r) with None => decode_failed | Some f =>
    match decode_ocra_common true f with None => decode_failed | Some (sec, code, raw, suite, input) =>
      match ocra_prepare sec code raw true suite input with
      | inr e => e
      | inl (cfg, inp) =>
        let res := validate_ocra sec code cfg inp in
        match verdict_bool res with
        | Some b => (mkResp 200 (PValid b), snd res)
        | None => recovered_panic
        end
      end
    end end.

  Definition list_ocra_suites (r : request) : response * nat :=
    if negb (is_get r) then not_allowed else (mkResp 200 (PSuites list_suites), O).

  Definition ocra_suite_config (r : request) : response * nat :=
    if negb (is_post r) then not_allowed else
    match body_fields (r_body r) with None => decode_failed | Some f =>
    match dec_string (field "raw_suite" f) with None => decode_failed | Some raw =>
      if blank raw then err400 "missing required field: raw_suite"
      else if negb (is_known_suite raw) then err400b (s2b "unknown suite: " ++ raw)
      else (mkResp 200 (PSuiteCfg raw (suite_config_from_raws raw)), O)
    end end.

  Definition home (r : request) : response * nat :=
    if negb (is_get r) then not_allowed else (mkResp 200 PHome, O).

  (** func routers(ctx *fasthttp.RequestCtx), under the Recovery middleware *)
  Definition handle (r : request) : response * nat :=
    let p := r_path r in
    if beq p (s2b "/docs") then (mkResp 302 (PRedirect (s2b "/docs/index.html")), O)
    else if is_prefix (s2b "/docs/") p then (mkResp 200 POther, O)
    else if beq p (s2b "/totp/generate") then totp_generation r
    else if beq p (s2b "/totp/validate") then totp_validation r
    else if beq p (s2b "/hotp/generate") then hotp_generation r
    else if beq p (s2b "/hotp/validate") then hotp_validation r
    else if beq p (s2b "/ocra/generate") then ocra_generation r
    else if beq p (s2b "/ocra/validate") then ocra_validation r
    else if beq p (s2b "/ocra/suites") then list_ocra_suites r
    else if beq p (s2b "/ocra/suite") then ocra_suite_config r
    else if beq p (s2b "/otp/url") then otp_url_generation r
    else if beq p (s2b "/otp/secret") then generate_random_secret r
    else if beq p (s2b "/") then home r
    else (mkResp 404 (PText (s2b "404 - Not Found")), O).
End Handlers.
