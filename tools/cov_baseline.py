#!/usr/bin/env python3
"""cov_baseline.py: the texts of all blocks (Go coverage profile) of the library's source files on the unchanged tree,
written to coverage_baseline/all_blocks.txt (committed).  A check whose source tie is broken reports blocks of the
property's anchor files that its correspondence run never executed and whose text is not in this file."""
import os, sys, glob
sys.path.insert(0, os.path.join(os.path.dirname(os.path.abspath(__file__)), '..', 'lib'))
import vcheck
log = open(os.path.join(vcheck.WORK, 'cov_baseline.log'), 'w')
files = sorted(os.path.basename(f) for f in glob.glob(os.path.join(vcheck.REPO, '*.go')) if not f.endswith('_test.go') and 'verif_hooks' not in f)
blocks, n = vcheck.unexercised_blocks('C01', ['mod10 1'], log, all_blocks=True, files=files)
rblocks, rn = vcheck.unexercised_rest_blocks(['rreq k GET x2f x O:'], log, all_blocks=True)
blocks += rblocks or []
n += rn
with open(os.path.join(vcheck.ROOT, 'coverage_baseline', 'all_blocks.txt'), 'w') as f:
    for key in sorted(set(k for _, k in blocks if k)):
        f.write(key + '\n')
print('%d blocks in %d files' % (n, len(files)))
