(** Executable glue for the correspondence check: parses a case line (the same text the Go
    harness executes against the implementation), runs the model function, renders the
    canonical outcome.  The same [run_case] is evaluated by [vm_compute] (cases.v slices) and
    by the extracted OCaml runner, so the two evaluation routes check each other.
    Nothing in this file is used by a theorem. *)
From Coq Require Import String.
From OtpV Require Import Prelude Sha Tables Errors Decoder Derive Otp Ocra.
Open Scope string_scope.
Open Scope N_scope.
Open Scope list_scope.

Fixpoint split_on_aux (sep : N) (s : bytes) (cur : bytes) : list bytes :=
  match s with
  | [] => [rev cur]
  | c :: t => if c =? sep then rev cur :: split_on_aux sep t [] else split_on_aux sep t (c :: cur)
  end.
Definition split_on (sep : N) (s : bytes) : list bytes := split_on_aux sep s [].

Definition hexval (c : N) : N :=
  if (48 <=? c) && (c <=? 57) then c - 48
  else if (97 <=? c) && (c <=? 102) then c - 87
  else if (65 <=? c) && (c <=? 70) then c - 55 else 0.
Fixpoint unhex_pairs (s : bytes) : bytes :=
  match s with
  | a :: b :: t => (hexval a * 16 + hexval b) :: unhex_pairs t
  | _ => []
  end.
(** field "x<hex>" *)
Definition unhx (s : bytes) : bytes := match s with _ :: t => unhex_pairs t | [] => [] end.

Definition hexdig (v : N) : N := if v <? 10 then 48 + v else 87 + v.
Definition hex_of (b : bytes) : bytes := flat_map (fun x => [hexdig (x / 16); hexdig (x mod 16)]) b.

Definition parse_N (s : bytes) : N := fold_left (fun acc c => acc * 10 + (c - 48)) s 0.
Definition parse_Z (s : bytes) : Z :=
  match s with
  | 45 :: t => (- Z.of_N (parse_N t))%Z
  | _ => Z.of_N (parse_N s)
  end.
Definition parse_bool (s : bytes) : bool := match s with [49] => true | _ => false end.

Definition fld (l : list bytes) (i : nat) : bytes := nth i l [].

Definition parse_param (s : bytes) : option param :=
  match s with
  | [45] => None
  | _ => let f := split_on 44 s in
         Some (mkParam (parse_N (fld f 0)) (parse_N (fld f 1)) (parse_N (fld f 2)) (parse_N (fld f 3)))
  end.

Definition parse_suite (s : bytes) : suite_cfg :=
  let f := split_on 44 s in
  mkSuite (unhx (fld f 0)) (parse_N (fld f 1)) (parse_Z (fld f 2)) (parse_Z (fld f 3))
          (parse_bool (fld f 4)) (parse_bool (fld f 5)) (parse_bool (fld f 6)) (parse_bool (fld f 7))
          (parse_bool (fld f 8)) (parse_Z (fld f 9)) (parse_Z (fld f 10)).

Definition parse_input (s : bytes) : ocra_input :=
  let f := split_on 44 s in
  mkInput (unhx (fld f 0)) (unhx (fld f 1)) (unhx (fld f 2)) (unhx (fld f 3)) (unhx (fld f 4)).

(** time "sec,nsec,zone,mono": the model reads the seconds only *)
Definition parse_time_sec (s : bytes) : Z := parse_Z (fld (split_on 44 s) 0).

(** ---- outcome rendering ---- *)
Definition r_err (e : err) : bytes :=
  match render e with Some t => s2b "err:" ++ hex_of t | None => s2b "err:*" end.
Definition r_bytes (o : outcome bytes) : bytes :=
  match o with Ok b => s2b "ok:" ++ hex_of b | Err e => r_err e | Panic => s2b "panic" end.
Definition r_num (o : outcome N) : bytes :=
  match o with Ok n => s2b "ok:n" ++ dec_of_N n | Err e => r_err e | Panic => s2b "panic" end.
Definition r_unit (o : option err) : bytes :=
  match o with None => s2b "ok:" | Some e => r_err e end.
Definition r_verdict (o : outcome verdict * nat) : bytes :=
  match fst o with
  | Panic => s2b "panic"
  | Err e => r_err e
  | Ok (b, oe) =>
    s2b "v:" ++ (if b then s2b "true" else s2b "false") ++ s2b ":" ++
        match oe with
        | None => s2b "-"
        | Some e => match render e with Some t => hex_of t | None => s2b "*" end
        end
  end.

(** ---- per-operation domain of the property theorems (outside it a disagreement is model
    drift, not a violation: the property says nothing there) ---- *)
Definition skew_of (p : option param) (d : param) : N := p_skew (match p with Some p => p | None => d end).
Definition period_of (p : option param) : N :=
  let pe := p_period (match p with Some p => p | None => default_totp_param end) in if pe =? 0 then 30 else pe.

Definition two62z : Z := 4611686018427387904%Z.

Definition run_fields (f : list bytes) : bytes * bool :=
  let a i := fld f i in
  let op := a 0%nat in
  if bytes_eqb op (s2b "decode") then (r_bytes (decode_secret (unhx (a 1%nat))), true)
  else if bytes_eqb op (s2b "ghotp") then
    (r_bytes (generate_hotp (unhx (a 1%nat)) (parse_N (a 2%nat)) (parse_param (a 3%nat))), true)
  else if bytes_eqb op (s2b "vhotp") then
    let p := parse_param (a 4%nat) in
    let sk := skew_of p default_hotp_param in
    (r_verdict (validate_hotp (unhx (a 1%nat)) (unhx (a 2%nat)) (parse_N (a 3%nat)) p),
     (10 <? sk) || (parse_N (a 3%nat) + sk <? two64))
  else if bytes_eqb op (s2b "gtotp") then
    let t := parse_time_sec (a 2%nat) in
    (r_bytes (generate_totp (unhx (a 1%nat)) t (parse_param (a 3%nat))), (0 <=? t)%Z && (t <? two62z)%Z)
  else if bytes_eqb op (s2b "vtotp") then
    let t := parse_time_sec (a 3%nat) in
    let p := parse_param (a 4%nat) in
    let sk := skew_of p default_totp_param in
    (r_verdict (validate_totp (unhx (a 1%nat)) (unhx (a 2%nat)) t p),
     (0 <=? t)%Z && (t <? two62z)%Z && ((10 <? sk) || (sk <=? Z.to_N t / period_of p)))
  else if bytes_eqb op (s2b "gocra") || bytes_eqb op (s2b "gocra_raw") then
    (r_bytes (generate_ocra (unhx (a 1%nat)) (parse_suite (a 2%nat)) (parse_input (a 3%nat))), true)
  else if bytes_eqb op (s2b "vocra") then
    (r_verdict (validate_ocra (unhx (a 1%nat)) (unhx (a 2%nat)) (parse_suite (a 3%nat)) (parse_input (a 4%nat))), true)
  else if bytes_eqb op (s2b "d4226") then
    (r_bytes (derive_rfc4226 (unhx (a 1%nat)) (parse_N (a 2%nat)) (parse_Z (a 3%nat)) (parse_N (a 4%nat))), true)
  else if bytes_eqb op (s2b "d6287") then
    (r_bytes (derive_rfc6287 (unhx (a 1%nat)) (parse_suite (a 2%nat)) (parse_input (a 3%nat))), true)
  else if bytes_eqb op (s2b "trunc") then (r_num (truncate (unhx (a 1%nat)) (parse_N (a 2%nat))), true)
  else if bytes_eqb op (s2b "short") then (r_bytes (short_digit (parse_N (a 1%nat)) (parse_Z (a 2%nat))), true)
  else if bytes_eqb op (s2b "long") then (r_bytes (long_digit (parse_N (a 1%nat)) (parse_Z (a 2%nat))), true)
  else if bytes_eqb op (s2b "fmtdec") then (r_bytes (format_decimal (parse_N (a 1%nat)) (parse_Z (a 2%nat))), true)
  else if bytes_eqb op (s2b "padb") then (r_bytes (pad_bytes (unhx (a 1%nat)) (parse_Z (a 2%nat))), true)
  else if bytes_eqb op (s2b "mod10") then (r_num (mod10_at (parse_Z (a 1%nat))), true)
  else if bytes_eqb op (s2b "hmac") then
    (match alg_of_N (parse_N (a 1%nat)) with
     | Some al => s2b "ok:" ++ hex_of (hmac al (unhx (a 2%nat)) (unhx (a 3%nat)))
     | None => s2b "unknown-op" end, true)
  else if bytes_eqb op (s2b "svalidate") then (r_unit (suite_validate (parse_suite (a 1%nat))), true)
  else if bytes_eqb op (s2b "ivalidate") then
    (r_unit (input_validate (parse_suite (a 1%nat)) (parse_input (a 2%nat))), true)
  else (s2b "unknown-op", true).

Definition run_case (line : bytes) : bytes :=
  let '(out, dom) := run_fields (split_on 32 line) in
  out ++ [9] ++ (if dom then [49] else [48]).
