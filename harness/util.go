package main

import (
	"encoding/hex"
	"fmt"
	"strconv"
	"strings"
)

// ---- deterministic PRNG (splitmix64); every random choice of a run derives from one seed ----
type rng struct{ s uint64 }

func (r *rng) next() uint64 {
	r.s += 0x9E3779B97F4A7C15
	z := r.s
	z = (z ^ (z >> 30)) * 0xBF58476D1CE4E5B9
	z = (z ^ (z >> 27)) * 0x94D049BB133111EB
	return z ^ (z >> 31)
}
func (r *rng) intn(n int) int {
	if n <= 0 {
		return 0
	}
	return int(r.next() % uint64(n))
}
func (r *rng) bytes(n int) []byte {
	b := make([]byte, n)
	for i := range b {
		b[i] = byte(r.next())
	}
	return b
}
func (r *rng) chance(num, den int) bool { return r.intn(den) < num }
func pick[T any](r *rng, xs []T) T      { return xs[r.intn(len(xs))] }

// ---- case-line encoding ----
func hx(b []byte) string  { return "x" + hex.EncodeToString(b) }
func hxs(s string) string { return "x" + hex.EncodeToString([]byte(s)) }
func unhx(s string) []byte {
	if s == "X" { // a nil slice (the model reads it as empty)
		return nil
	}
	if !strings.HasPrefix(s, "x") {
		panic("bad hex field " + s)
	}
	b, err := hex.DecodeString(s[1:])
	if err != nil {
		panic(err)
	}
	return b
}
func u64(s string) uint64 {
	v, err := strconv.ParseUint(s, 10, 64)
	if err != nil {
		panic(err)
	}
	return v
}
func i64(s string) int64 {
	v, err := strconv.ParseInt(s, 10, 64)
	if err != nil {
		panic(err)
	}
	return v
}

// ---- outcome encoding ----
func okBytes(b []byte) string { return "ok:" + hex.EncodeToString(b) }
func okStr(s string) string {
	holdS("result", s)
	return "ok:" + hex.EncodeToString([]byte(s))
}
func okNum(v uint64) string   { return "ok:n" + strconv.FormatUint(v, 10) }
func errOut(e error) string   { return "err:" + hex.EncodeToString([]byte(e.Error())) }
func strOrErr(s string, e error) string {
	if e != nil {
		return errOut(e)
	}
	return okStr(s)
}
func bytesOrErr(b []byte, e error) string {
	if e != nil {
		return errOut(e)
	}
	return okBytes(b)
}
func verdict(ok bool, e error) string {
	if e == nil {
		return fmt.Sprintf("v:%t:-", ok)
	}
	return fmt.Sprintf("v:%t:%s", ok, hex.EncodeToString([]byte(e.Error())))
}
