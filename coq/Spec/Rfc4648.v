(** RFC 4648 base32 *encoding*, written as bit regrouping (8 -> 5), independent of the
    arithmetic used by the implementation.  Used as the specification for C07 and C08. *)
From OtpV Require Import Prelude.
Open Scope N_scope.

(** most-significant-bit-first bits of the low [k] bits of [n] *)
Fixpoint to_bits (k : nat) (n : N) : list bool :=
  match k with
  | O => []
  | S k' => N.testbit n (N.of_nat k') :: to_bits k' n
  end.
Definition of_bits (l : list bool) : N := fold_left (fun acc (b : bool) => 2 * acc + (if b then 1 else 0)) l 0.

Fixpoint chunks_fuel {A} (fuel n : nat) (l : list A) : list (list A) :=
  match fuel with
  | O => []
  | S f => match l with [] => [] | _ => firstn n l :: chunks_fuel f n (skipn n l) end
  end.
Definition chunks {A} (n : nat) (l : list A) : list (list A) := chunks_fuel (length l) n l.

(** pad a bit list on the right with [false] to a multiple of 5 *)
Definition pad5 (l : list bool) : list bool :=
  l ++ repeat false (Nat.modulo (5 - Nat.modulo (length l) 5) 5).

(** 'A'..'Z','2'..'7' *)
Definition b32_char (v : N) : N := if v <? 26 then 65 + v else 50 + (v - 26).

(** unpadded encoding: the bits of the bytes, zero-padded to a multiple of 5, five at a time *)
Definition b32_nopad (bs : bytes) : bytes :=
  map (fun g => b32_char (of_bits g)) (chunks 5 (pad5 (flat_map (to_bits 8) bs))).

(** number of '=' in the canonical padded form *)
Definition b32_npad (bs : bytes) : nat :=
  Nat.modulo (8 - Nat.modulo (length (b32_nopad bs)) 8) 8.

Definition b32_padded (bs : bytes) : bytes := b32_nopad bs ++ repeat 61 (b32_npad bs).
