(** Model of the suite registry and the suite-string parser of suite_rfc6287.go:
    NewRawSuite, NewSuite, ListSuites, IsKnownSuite, SuiteConfigFromRaws, parseRawSuite,
    parseCryptoFunction, parseDataInputTokens, parseTimeGranularity — with the pieces of
    strings / strconv they call (Split, HasPrefix, ToUpper, Atoi).  The registry itself
    (knownSuites) is regenerated from the Go source on every run (Generated/Registry.v). *)
From Coq Require Import String.
From OtpV Require Import Prelude Tables Registry Errors Decoder Derive Otp Ocra Utils.
Open Scope N_scope.

(** ---- strings ---- *)
(** strings.Split(s, sep) for a one-byte separator: always at least one part *)
Fixpoint split_aux (sep : N) (s : bytes) (cur : bytes) : list bytes :=
  match s with
  | [] => [frev cur]
  | c :: t => if c =? sep then frev cur :: split_aux sep t [] else split_aux sep t (c :: cur)
  end.
Definition split (sep : N) (s : bytes) : list bytes := split_aux sep s [].

(** strings.ToUpper.  Exact for ASCII text and for the two non-ASCII runes whose upper case is
    an ASCII letter (U+017F -> 'S', U+0131 -> 'I'); every other non-ASCII rune is left as it is
    (Go maps it to some other non-ASCII rune, which no comparison below distinguishes except
    through its byte length; the harness marks such inputs out of the model's domain). *)
Fixpoint to_upper_u (s : bytes) : bytes :=
  match s with
  | [] => []
  | 197 :: 191 :: t => 83 :: to_upper_u t
  | 196 :: 177 :: t => 73 :: to_upper_u t
  | c :: t => upper_ascii c :: to_upper_u t
  end.

Definition beq (a b : bytes) : bool := bytes_eqb a b.

(** ---- registry ---- *)
Definition cfg_of_entry (e : N * Z * Z * bool * bool * bool * bool * bool * Z * Z * bytes) : suite_cfg :=
  let '(h, d, ch, c, q, p, s, t, pw, ts, raw) := e in mkSuite raw h d ch c q p s t pw ts.

Definition known_suites : list (bytes * suite_cfg) :=
  map (fun ne => (fst ne, cfg_of_entry (snd ne))) known_suites_raw.

Fixpoint lookup (raw : bytes) (l : list (bytes * suite_cfg)) : option suite_cfg :=
  match l with
  | [] => None
  | (n, c) :: t => if beq n raw then Some c else lookup raw t
  end.

Definition zero_cfg : suite_cfg := mkSuite [] 0 0 0 false false false false false 0 0.

(** func ListSuites() []string — as a set (Go's map iteration order is unspecified) *)
Definition list_suites : list bytes := map fst known_suites.
(** func IsKnownSuite(raw string) bool *)
Definition is_known_suite (raw : bytes) : bool :=
  match lookup raw known_suites with Some _ => true | None => false end.
(** func SuiteConfigFromRaws(rawSuite string) SuiteConfig — the zero value for an unknown name *)
Definition suite_config_from_raws (raw : bytes) : suite_cfg :=
  match lookup raw known_suites with Some c => c | None => zero_cfg end.

Definition with_raw (c : suite_cfg) (raw : bytes) : suite_cfg :=
  mkSuite raw (sc_hash c) (sc_digits c) (sc_challenge c) (sc_c c) (sc_q c) (sc_p c) (sc_s c) (sc_t c)
          (sc_pwhash c) (sc_timestep c).

(** ---- parser ---- *)
Definition S_HOTP_SHA : bytes := s2b "HOTP-SHA".
Definition S_OCRA1 : bytes := s2b "OCRA-1".

(** func parseCryptoFunction(raw, crypto string) (SuiteConfig, error): hash and digits *)
Definition parse_crypto (raw crypto : bytes) : outcome (N * Z) :=
  if negb (is_prefix S_HOTP_SHA (to_upper_u crypto)) then Err (EFmt T_suite_crypto [] [raw])
  else
    if Nat.ltb (length crypto) 5 then Panic                       (* crypto[5:] *)
    else
    let rest := skipn 5 crypto in
    match split 45 rest with
    | [hashPart; digPart] =>
      let hu := to_upper_u hashPart in
      let h := if beq hu (s2b "SHA1") then Some (Z.to_N c_SHA1)
               else if beq hu (s2b "SHA256") then Some (Z.to_N c_SHA256)
               else if beq hu (s2b "SHA512") then Some (Z.to_N c_SHA512) else None in
      match h with
      | None => Err (EFmt T_suite_hash [] [hashPart])
      | Some h =>
        match atoi digPart with
        | None => Err (EFmt T_suite_digits [] [digPart])
        | Some d => Ok (h, d)
        end
      end
    | _ => Err (EFmt T_crypto_format [] [rest])
    end.

(** int multiplication wraps (int is 64 bits on every platform the library is built for) *)
Definition mul_int (a b : Z) : Z := wrap_int64 (a * b).

(** func parseTimeGranularity(g string) (int, error) *)
Definition parse_time_gran (g : bytes) : outcome Z :=
  if Nat.ltb (length g) 2 then Err (EStd 10 [])
  else
    let numStr := firstn (length g - 1) g in
    let unit := last g 0 in
    match atoi numStr with
    | None => Err (EStd 11 [])
    | Some v =>
      let mult := if unit =? 83 then 1%Z else if unit =? 77 then 60%Z else if unit =? 72 then 3600%Z else 0%Z in
      if (mult =? 0)%Z then Err (EStd 12 [])
      else
        let secs := mul_int v mult in                                (* val * mult wraps *)
        if (Z.quot secs mult =? v)%Z then Ok secs                    (* secs/mult == val: Go's / truncates *)
        else Err (EStd 13 [])
    end.

(** one iteration of the token loop of parseDataInputTokens *)
Definition parse_token (cfg : suite_cfg) (tok : bytes) : outcome suite_cfg :=
  let tokU := to_upper_u tok in
  let set_q (ch : Z) := mkSuite (sc_raw cfg) (sc_hash cfg) (sc_digits cfg) ch (sc_c cfg) true (sc_p cfg) (sc_s cfg) (sc_t cfg)
                                (sc_pwhash cfg) (sc_timestep cfg) in
  if beq tokU (s2b "C") then
    Ok (mkSuite (sc_raw cfg) (sc_hash cfg) (sc_digits cfg) (sc_challenge cfg) true (sc_q cfg) (sc_p cfg) (sc_s cfg) (sc_t cfg)
                (sc_pwhash cfg) (sc_timestep cfg))
  else if is_prefix (s2b "QN") tokU then
    if Nat.eqb (length tokU) 4 then
      let num := skipn 2 tokU in
      if beq num (s2b "08") then Ok (set_q c_ChallengeNumeric08)
      else if beq num (s2b "10") then Ok (set_q c_ChallengeNumeric10)
      else Err (EFmt T_numeric_spec [] [tok])
    else Ok (set_q (sc_challenge cfg))
  else if is_prefix (s2b "QA") tokU then Ok (set_q (sc_challenge cfg))
  else if is_prefix (s2b "QH") tokU then Ok (set_q (sc_challenge cfg))
  else if is_prefix (s2b "PSHA") tokU then
    let set_p (pw : Z) := mkSuite (sc_raw cfg) (sc_hash cfg) (sc_digits cfg) (sc_challenge cfg) (sc_c cfg) (sc_q cfg) true
                                  (sc_s cfg) (sc_t cfg) pw (sc_timestep cfg) in
    if beq tokU (s2b "PSHA1") then Ok (set_p c_PasswordSHA1)
    else if beq tokU (s2b "PSHA256") then Ok (set_p c_PasswordSHA256)
    else if beq tokU (s2b "PSHA512") then Ok (set_p c_PasswordSHA512)
    else Err (EFmt T_pw_type [] [tok])
  else if is_prefix (s2b "T") tokU then
    match tok with
    | [] => Panic                                                   (* tok[1:] *)
    | _ :: gran =>
      match parse_time_gran gran with
      | Ok secs => Ok (mkSuite (sc_raw cfg) (sc_hash cfg) (sc_digits cfg) (sc_challenge cfg) (sc_c cfg) (sc_q cfg) (sc_p cfg)
                               (sc_s cfg) true (sc_pwhash cfg) secs)
      | Err _ => Err (EFmt T_time_spec [] [tok])
      | Panic => Panic
      end
    end
  else if is_prefix (s2b "S") tokU then
    Ok (mkSuite (sc_raw cfg) (sc_hash cfg) (sc_digits cfg) (sc_challenge cfg) (sc_c cfg) (sc_q cfg) (sc_p cfg) true (sc_t cfg)
                (sc_pwhash cfg) (sc_timestep cfg))
  else Err (EFmt T_unknown_token [] [tok]).

Fixpoint parse_tokens (cfg : suite_cfg) (toks : list bytes) : outcome suite_cfg :=
  match toks with
  | [] => Ok cfg
  | tok :: rest => obind (parse_token cfg tok) (fun cfg' => parse_tokens cfg' rest)
  end.

(** func parseRawSuite(raw string) (SuiteConfig, error) *)
Definition parse_raw_suite (raw : bytes) : outcome suite_cfg :=
  match split 58 raw with
  | [version; crypto; dataInput] =>
    if negb (beq version S_OCRA1) then Err (EFmt T_suite_version [] [version])
    else
      obind (parse_crypto raw crypto) (fun hd =>
      let cfg0 := mkSuite [] (fst hd) (snd hd) 0 false false false false false 0 0 in
      obind (parse_tokens cfg0 (split 45 dataInput)) (fun cfg =>
      let cfg := with_raw cfg raw in
      match suite_validate cfg with
      | Some e => Err e
      | None => Ok cfg
      end))
  | _ => Err (EFmt T_suite_format [] [raw])
  end.

(** func NewRawSuite(raw string) (Suite, error): registry first, then the parser *)
Definition new_raw_suite (raw : bytes) : outcome suite_cfg :=
  match lookup raw known_suites with
  | Some c =>
    let c := with_raw c raw in
    match suite_validate c with Some e => Err e | None => Ok c end
  | None => parse_raw_suite raw
  end.

(** func NewSuite(cfg SuiteConfig) (Suite, error) *)
Definition new_suite (cfg : suite_cfg) : outcome suite_cfg :=
  match suite_validate cfg with Some e => Err e | None => Ok cfg end.
