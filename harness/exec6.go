package main

import (
	"encoding/hex"
	"fmt"
	"strings"

	"github.com/ja7ad/otp"
)

// chunkReader delivers at most `chunk` bytes per Read (a reader is allowed to return short).
type chunkReader struct {
	sr    *streamReader
	chunk int
}

func (c *chunkReader) Read(p []byte) (int, error) {
	if len(p) > c.chunk {
		p = p[:c.chunk]
	}
	return c.sr.Read(p)
}

// gv: generate, then validate the *very string* that generation returned (no copy) for a second
// counter / instant / input, and finally report the string again: a code that shares memory with
// a scratch buffer changes under the caller or is accepted where it must not be.
func gvOut(code string, ok bool, err error) string {
	return verdict(ok, err) + "|" + hex.EncodeToString([]byte(code))
}

func run6(f []string) (string, bool) {
	switch f[0] {
	case "gvhotp":
		p := parseParam(f[4])
		code, err := otp.GenerateHOTP(string(unhx(f[1])), u64(f[2]), p)
		if err != nil {
			return errOut(err), true
		}
		ok, e := otp.ValidateHOTP(string(unhx(f[1])), code, u64(f[3]), p)
		return gvOut(code, ok, e), true
	case "gvtotp":
		p := parseParam(f[4])
		code, err := otp.GenerateTOTP(string(unhx(f[1])), parseTime(f[2]), p)
		if err != nil {
			return errOut(err), true
		}
		ok, e := otp.ValidateTOTP(string(unhx(f[1])), code, parseTime(f[3]), p)
		return gvOut(code, ok, e), true
	case "gvocra":
		c := parseSuite(f[2])
		code, err := otp.GenerateOCRA(string(unhx(f[1])), c, parseInput(f[3]))
		if err != nil {
			return errOut(err), true
		}
		ok, e := otp.ValidateOCRA(string(unhx(f[1])), code, c, parseInput(f[4]))
		return gvOut(code, ok, e), true
	case "gocra_mut": // a RawSuite obtained from the constructor whose exported fields are then overwritten
		r := otp.MustRawSuite(string(unhx(f[1])))
		r.SuiteConfig = parseSuite(f[3])
		return strOrErr(otp.GenerateOCRA(string(unhx(f[2])), r, parseInput(f[4]))), true
	case "gocra_nil":
		var none otp.Suite
		return strOrErr(otp.GenerateOCRA(string(unhx(f[1])), none, parseInput(f[2]))), true
	case "vocra_nil":
		var none otp.Suite
		return verdict(otp.ValidateOCRA(string(unhx(f[1])), string(unhx(f[2])), none, parseInput(f[3]))), true
	case "vocra_mut":
		r := otp.MustRawSuite(string(unhx(f[1])))
		r.SuiteConfig = parseSuite(f[4])
		return verdict(otp.ValidateOCRA(string(unhx(f[2])), string(unhx(f[3])), r, parseInput(f[5]))), true
	case "randchunk":
		sr := &streamReader{buf: unhx(f[1])}
		var sb strings.Builder
		sb.WriteString("r:")
		withReader(&chunkReader{sr: sr, chunk: int(u64(f[2]))}, func() {
			for _, a := range strings.Split(f[3], ",") {
				pos := sr.pos
				s, err := otp.RandomSecret(otp.Algorithm(u64(a)))
				if err != nil {
					fmt.Fprintf(&sb, "%d:err;", pos)
				} else {
					holdS("RandomSecret", s)
					fmt.Fprintf(&sb, "%d:%s;", pos, s)
				}
			}
		})
		if msg, bad := heldChanged(); bad {
			return msg, true
		}
		return sb.String(), true
	}
	return run7(f)
}
