(* GENERATED from the Go sources of /repo by /verif/tools/gen_model — do not edit. *)
From Coq Require Import String.
From OtpV Require Import Prelude Sha GoSem Rfc4648 Errors Decoder Otp Ocra Utils Suite Url.
Open Scope N_scope.

Definition atoi_go (s : bytes) : Z * option err := match atoi s with Some v => (v, None) | None => (0%Z, Some (EStd 11 [])) end.
Definition lookup_go (raw : bytes) : suite_cfg * bool := match lookup raw known_suites with Some c => (c, true) | None => (zero_cfg, false) end.
Definition idxS (l : list bytes) (i : Z) : res bytes := if (i <? 0)%Z then Pnc else match nth_error l (Z.to_nat i) with Some b => Val b | None => Pnc end.
Definition parse_uint_go (s : bytes) : N * option err := match parse_uint64 s with Some v => (v, None) | None => (0, Some (EStd 1 [s])) end.
Definition hex_decode_go (s : bytes) : bytes * option err := match hex_decode s with Some b => (b, None) | None => ([], Some (EStd 2 [])) end.
(* new(big.Int).SetString(s, 10): optional sign, decimal digits; big.Int.Text(16): lower-case hexadecimal, '-' for negatives *)
Definition big_parse10 (s : bytes) : Z * bool :=
  let '(neg, ds) := match s with 45 :: t => (true, t) | 43 :: t => (false, t) | _ => (false, s) end in
  match ds with [] => (0%Z, false) | _ => if forallb is_dec_digit ds then ((if neg then - Z.of_N (dec_val ds) else Z.of_N (dec_val ds))%Z, true) else (0%Z, false) end.
Definition lower_ascii (c : N) : N := if (65 <=? c) && (c <=? 90) then c + 32 else c.
Definition big_text16 (z : Z) : bytes := if (z <? 0)%Z then 45 :: map lower_ascii (hex_text (Z.to_N (- z))) else map lower_ascii (hex_text (Z.to_N z)).
(* crypto/rand.Read(buf) fills the whole buffer from the source (oracle parameter) and never reports an error *)
Definition rand_fill (buf src : bytes) : bytes := firstn (length buf) src ++ skipn (length src) buf.
Definition assoc_str (l : list (N * bytes)) (k : N) : bytes := match find (fun kv => N.eqb (fst kv) k) l with Some kv => snd kv | None => [] end.
Definition trim_prefix_go (p s : bytes) : bytes := if is_prefix p s then skipn (length p) s else s.
Definition splitn2_go (sep : N) (s : bytes) : list bytes := let '(a, b, found) := cut1 sep s in if found then [a; b] else [s].
Definition b32_decode_go (s : bytes) : bytes * option err :=
  let '(bs, o) := b32_decode_string s in (bs, match o with Some off => Some (EBase32 off) | None => None end).

Definition hmacPools : list alg := [SHA1; SHA256; SHA512].
Definition g_mod10 : list N := [0; 10; 100; 1000; 10000; 100000; 1000000; 10000000; 100000000; 1000000000; 10000000000].
Definition g_DefaultHOTPParam : option param := Some (mkParam 6 0 2 0).
Definition g_algoStrMap : list (N * bytes) := [(0%N, (s2b "SHA1")); (1%N, (s2b "SHA256")); (2%N, (s2b "SHA512"))].
Definition g_DefaultTOTPParam : option param := Some (mkParam 6 30 0 0).

Definition Digits_Int (d : N) : res Z :=
  Val (Z.of_N d).

Fixpoint DecodeSecret_loop1 (fuel : nat) (fuel0 : nat)  (secret : bytes) (i : Z) (kx : Z -> res (bytes * (option err))) {struct fuel} : res (bytes * (option err)) :=
  match fuel with O => OutOfFuel | S fuel =>
  if (Z.ltb i (zlen secret)) then (do t1 <- idx secret i;
  let c := t1 in
  if (((((N.ltb c 65%N) || (N.ltb 90%N c)) && ((N.ltb c 97%N) || (N.ltb 122%N c))) && ((N.ltb c 50%N) || (N.ltb 55%N c))) && (negb (N.eqb c 61%N))) then (Val ([], (Some (EBase32 i))))
  else
  let i := (wrap_int64 (Z.add i 1%Z)) in
  DecodeSecret_loop1 fuel fuel0  secret i kx)
  else kx i
  end.

Definition DecodeSecret (fuel0 : nat) (secret : bytes) : res (bytes * (option err)) :=
  let secret := (trim_space secret) in
  let i := 0%Z in
  DecodeSecret_loop1 fuel0 fuel0 secret i (fun (i : Z) =>
  let n := (Z.rem (zlen secret) 8%Z) in
  let kj1 := fun (secret : bytes) =>
  let secret := (to_upper_u secret) in
  Val (b32_decode_go secret) in
  if (negb (Z.eqb n 0%Z)) then (do t3 <- str_repeat (s2b "=") (wrap_int64 (Z.sub 8%Z n));
  let secret := (secret ++ t3) in
  kj1 secret)
  else (kj1 secret)).

Definition unsafeString (b : bytes) : res bytes := Val b.

Definition truncate (sum_ : bytes) (mod_ : N) : res N :=
  do t1 <- idx sum_ (wrap_int64 (Z.sub (zlen sum_) 1%Z));
  let offset := (N.land t1 15%N) in
  do t2 <- idx sum_ (Z.of_N offset);
  do t3 <- idx sum_ (Z.of_N (wrap8 (N.add offset 1%N)));
  do t4 <- idx sum_ (Z.of_N (wrap8 (N.add offset 2%N)));
  do t5 <- idx sum_ (Z.of_N (wrap8 (N.add offset 3%N)));
  let bin := (N.lor (N.lor (N.lor (wrap32 (N.shiftl t2 24%N)) (wrap32 (N.shiftl t3 16%N))) (wrap32 (N.shiftl t4 8%N))) t5) in
  let code := (N.land bin 2147483647%N) in
  do t6 <- umod code mod_;
  Val (wrap32 t6).

Fixpoint shortDigit_loop1 (fuel : nat) (fuel0 : nat)   (pad : bytes) (otp : N) (i : Z) (kx : bytes -> N -> Z -> res bytes) {struct fuel} : res bytes :=
  match fuel with O => OutOfFuel | S fuel =>
  if ((N.ltb 0%N otp) && (Z.leb 0%Z i)) then (do pad <- set_idx pad i (wrap8 (N.add 48%N (wrap8 (N.modulo otp 10%N))));
  let otp := (N.div otp 10%N) in
  let i := (wrap_int64 (Z.sub i 1%Z)) in
  shortDigit_loop1 fuel fuel0  pad otp i kx)
  else kx pad otp i
  end.

Fixpoint shortDigit_loop2 (fuel : nat) (fuel0 : nat)   (pad : bytes) (i : Z) (kx : bytes -> Z -> res bytes) {struct fuel} : res bytes :=
  match fuel with O => OutOfFuel | S fuel =>
  if (Z.leb 0%Z i) then (do pad <- set_idx pad i 48%N;
  let i := (wrap_int64 (Z.sub i 1%Z)) in
  shortDigit_loop2 fuel fuel0  pad i kx)
  else kx pad i
  end.

Definition shortDigit (fuel0 : nat) (otp : N) (digits : Z) : res bytes :=
  let pad : bytes := (repeat 0%N 8) in
  let i := (wrap_int64 (Z.sub digits 1%Z)) in
  shortDigit_loop1 fuel0 fuel0 pad otp i (fun (pad : bytes) (otp : N) (i : Z) =>
  shortDigit_loop2 fuel0 fuel0 pad i (fun (pad : bytes) (i : Z) =>
  do t1 <- slice pad 0%Z digits;
  unsafeString t1)).

Fixpoint longDigit_loop1 (fuel : nat) (fuel0 : nat)   (out : bytes) (otp : N) (i : Z) (kx : bytes -> N -> Z -> res bytes) {struct fuel} : res bytes :=
  match fuel with O => OutOfFuel | S fuel =>
  if (Z.leb 0%Z i) then (do out <- set_idx out i (wrap8 (N.add 48%N (wrap8 (N.modulo otp 10%N))));
  let otp := (N.div otp 10%N) in
  let i := (wrap_int64 (Z.sub i 1%Z)) in
  longDigit_loop1 fuel fuel0  out otp i kx)
  else kx out otp i
  end.

Definition longDigit (fuel0 : nat) (otp : N) (digits : Z) : res bytes :=
  do t1 <- make_bytes digits;
  let out := t1 in
  let i := (wrap_int64 (Z.sub digits 1%Z)) in
  longDigit_loop1 fuel0 fuel0 out otp i (fun (out : bytes) (otp : N) (i : Z) =>
  Val out).

Fixpoint formatDecimal_loop1 (fuel : nat) (fuel0 : nat)   (out : bytes) (val : N) (i : Z) (kx : bytes -> N -> Z -> res bytes) {struct fuel} : res bytes :=
  match fuel with O => OutOfFuel | S fuel =>
  if (Z.leb 0%Z i) then (do out <- set_idx out i (wrap8 (wrap32 (N.add 48%N (N.modulo val 10%N))));
  let val := (N.div val 10%N) in
  let i := (wrap_int64 (Z.sub i 1%Z)) in
  formatDecimal_loop1 fuel fuel0  out val i kx)
  else kx out val i
  end.

Definition formatDecimal (fuel0 : nat) (val : N) (digits : Z) : res bytes :=
  do t1 <- make_bytes digits;
  let out := t1 in
  let i := (wrap_int64 (Z.sub digits 1%Z)) in
  formatDecimal_loop1 fuel0 fuel0 out val i (fun (out : bytes) (val : N) (i : Z) =>
  Val out).

Definition padBytes (input : bytes) (length_ : Z) : res bytes :=
  if (Z.leb length_ (zlen input)) then (do t1 <- slice input 0%Z length_;
  Val t1)
  else
  do t2 <- make_bytes length_;
  let out := t2 in
  let out := (copy_into out input) in
  Val out.

Definition deriveRFC4226 (fuel0 : nat) (junk_rfc4226BufPool : bytes) (secret : bytes) (counter : N) (digits : Z) (algo : N) : res (bytes * (option err)) :=
  if ((Z.ltb (Z.of_N algo) 0%Z) || (Z.leb 3%Z (Z.of_N algo))) then (Val ([], (Some (ESent ErrUnsupportedAlgorithm))))
  else
  if ((Z.ltb digits 1%Z) || (Z.leb 11%Z digits)) then (Val ([], (Some (ESent ErrInvalidCodeLength))))
  else
  do t1 <- pool_at hmacPools (Z.of_N algo);
  let hp := t1 in
  if negb (Nat.eqb (length junk_rfc4226BufPool) 8) then Pnc else
  let buf := junk_rfc4226BufPool in
  do t2 <- put_uint64 buf counter;
  let buf := t2 in
  let mac := (hmac_new hp secret) in
  let mac := (hash_write mac buf) in
  let sum_ := (hash_sum mac []) in
  do t3 <- idxN g_mod10 digits;
  do t4 <- truncate sum_ t3;
  let otp := t4 in
  if (Z.leb digits 8%Z) then (do t5 <- shortDigit fuel0 otp digits;
  Val (t5, None))
  else
  do t6 <- longDigit fuel0 otp digits;
  Val (t6, None).

Definition validate (code : bytes) (expectedLength : Z) (deriveFn : (unit -> res (bytes * (option err)))) : res (bool * (option err)) :=
  if (negb (Z.eqb (zlen code) expectedLength)) then (Val (false, (Some (ESent ErrInvalidCodeLength))))
  else
  do t1 <- deriveFn tt;
  let '(expected, err_) := t1 in
  if (is_some err_) then (Val (false, err_))
  else
  if (Z.eqb (ct_compare code expected) 1%Z) then (Val (true, None))
  else
  Val (false, (Some (ESent ErrInvalidCode))).

Definition validateRFC4226 (fuel0 : nat) (junk_rfc4226BufPool : bytes) (code : bytes) (secret : bytes) (counter : N) (digits : N) (algo : N) : res (bool * (option err)) :=
  do t1 <- Digits_Int digits;
  validate code t1 (fun _ : unit => do t2 <- Digits_Int digits;
  deriveRFC4226 fuel0 junk_rfc4226BufPool secret counter t2 algo).

Definition TimeCounterFunc (t : Z) (period : N) : res N :=
  do t1 <- udiv (of_int64 t) period;
  Val t1.

Definition GenerateHOTP (fuel0 : nat) (junk_rfc4226BufPool : bytes) (secret : bytes) (counter : N) (param_ : (option param)) : res (bytes * (option err)) :=
  let kj1 := fun (param_ : (option param)) =>
  do t1 <- DecodeSecret fuel0 secret;
  let '(secretBuf, err_) := t1 in
  if (is_some err_) then (Val ([], err_))
  else
  do t2 <- deref param_;
  do t3 <- Digits_Int (p_digits t2);
  do t4 <- deref param_;
  deriveRFC4226 fuel0 junk_rfc4226BufPool secretBuf counter t3 (p_alg t4) in
  if (negb (is_some param_)) then (do t6 <- deref g_DefaultHOTPParam;
  let def := t6 in
  let param_ := (Some def) in
  kj1 param_)
  else (kj1 param_).

Fixpoint ValidateHOTP_loop1 (fuel : nat) (fuel0 : nat) (junk_rfc4226BufPool : bytes) (skew : Z) (counter : N) (code : bytes) (secretBuf : bytes) (param_ : (option param)) (i : Z) (kx : Z -> res (bool * (option err))) {struct fuel} : res (bool * (option err)) :=
  match fuel with O => OutOfFuel | S fuel =>
  if (Z.leb i skew) then (let c : N := 0%N in
  let kj2 := fun (c : N) =>
  do t4 <- deref param_;
  do t5 <- deref param_;
  do t6 <- validateRFC4226 fuel0 junk_rfc4226BufPool code secretBuf c (p_digits t4) (p_alg t5);
  let '(valid, err__2) := t6 in
  if ((negb (is_some err__2)) && valid) then (Val (true, None))
  else
  let i := (wrap_int64 (Z.add i 1%Z)) in
  ValidateHOTP_loop1 fuel fuel0 junk_rfc4226BufPool skew counter code secretBuf param_ i kx in
  if (Z.ltb i 0%Z) then (if (N.ltb counter (of_int64 (wrap_int64 (Z.opp i)))) then (let i := (wrap_int64 (Z.add i 1%Z)) in
  ValidateHOTP_loop1 fuel fuel0 junk_rfc4226BufPool skew counter code secretBuf param_ i kx)
  else
  let c := (usub 64%N counter (of_int64 (wrap_int64 (Z.opp i)))) in
  kj2 c)
  else (let c := (wrap64 (N.add counter (of_int64 i))) in
  kj2 c))
  else kx i
  end.

Definition ValidateHOTP (fuel0 : nat) (junk_rfc4226BufPool : bytes) (secret : bytes) (code : bytes) (counter : N) (param_ : (option param)) : res (bool * (option err)) :=
  let kj1 := fun (param_ : (option param)) =>
  do t1 <- deref param_;
  if (N.ltb 10%N (p_skew t1)) then (Val (false, (Some (ESent ErrInvalidSkew))))
  else
  do t2 <- deref param_;
  let skew := (to_int64 (p_skew t2)) in
  do t3 <- DecodeSecret fuel0 secret;
  let '(secretBuf, err_) := t3 in
  if (is_some err_) then (Val (false, err_))
  else
  let i := (wrap_int64 (Z.opp skew)) in
  ValidateHOTP_loop1 fuel0 fuel0 junk_rfc4226BufPool skew counter code secretBuf param_ i (fun (i : Z) =>
  Val (false, (Some (ESent ErrInvalidCode)))) in
  if (negb (is_some param_)) then (do t7 <- deref g_DefaultHOTPParam;
  let def := t7 in
  let param_ := (Some def) in
  kj1 param_)
  else (kj1 param_).

Definition GenerateTOTP (fuel0 : nat) (junk_rfc4226BufPool : bytes) (secret : bytes) (t : Z) (param_ : (option param)) : res (bytes * (option err)) :=
  let kj1 := fun (param_ : (option param)) =>
  do t1 <- DecodeSecret fuel0 secret;
  let '(secretBuf, err_) := t1 in
  if (is_some err_) then (Val ([], err_))
  else
  do t2 <- deref param_;
  let period := (p_period t2) in
  let kj2 := fun (period : N) =>
  do t3 <- TimeCounterFunc t period;
  do t4 <- deref param_;
  do t5 <- Digits_Int (p_digits t4);
  do t6 <- deref param_;
  deriveRFC4226 fuel0 junk_rfc4226BufPool secretBuf t3 t5 (p_alg t6) in
  if (N.eqb period 0%N) then (let period := 30%N in
  kj2 period)
  else (kj2 period) in
  if (negb (is_some param_)) then (do t8 <- deref g_DefaultTOTPParam;
  let _def := t8 in
  let param_ := (Some _def) in
  kj1 param_)
  else (kj1 param_).

Fixpoint ValidateTOTP_loop1 (fuel : nat) (fuel0 : nat) (junk_rfc4226BufPool : bytes) (skew : N) (code : bytes) (secretBuf : bytes) (counter : N) (param_ : (option param)) (i : Z) (kx : Z -> res (bool * (option err))) {struct fuel} : res (bool * (option err)) :=
  match fuel with O => OutOfFuel | S fuel =>
  if (Z.leb i (to_int64 skew)) then (do t6 <- deref param_;
  do t7 <- deref param_;
  do t8 <- validateRFC4226 fuel0 junk_rfc4226BufPool code secretBuf (wrap64 (N.add counter (of_int64 i))) (p_digits t6) (p_alg t7);
  let '(valid, err__2) := t8 in
  if ((negb (is_some err__2)) && valid) then (Val (true, None))
  else
  let i := (wrap_int64 (Z.add i 1%Z)) in
  ValidateTOTP_loop1 fuel fuel0 junk_rfc4226BufPool skew code secretBuf counter param_ i kx)
  else kx i
  end.

Definition ValidateTOTP (fuel0 : nat) (junk_rfc4226BufPool : bytes) (secret : bytes) (code : bytes) (t : Z) (param_ : (option param)) : res (bool * (option err)) :=
  let kj1 := fun (param_ : (option param)) =>
  do t1 <- deref param_;
  if (N.ltb 10%N (p_skew t1)) then (Val (false, (Some (ESent ErrInvalidSkew))))
  else
  do t2 <- DecodeSecret fuel0 secret;
  let '(secretBuf, err_) := t2 in
  if (is_some err_) then (Val (false, err_))
  else
  do t3 <- deref param_;
  let period := (p_period t3) in
  let kj2 := fun (period : N) =>
  do t4 <- deref param_;
  let skew := (p_skew t4) in
  do t5 <- TimeCounterFunc t period;
  let counter := t5 in
  let i := (wrap_int64 (Z.opp (to_int64 skew))) in
  ValidateTOTP_loop1 fuel0 fuel0 junk_rfc4226BufPool skew code secretBuf counter param_ i (fun (i : Z) =>
  Val (false, (Some (ESent ErrInvalidCode)))) in
  if (N.eqb period 0%N) then (let period := 30%N in
  kj2 period)
  else (kj2 period) in
  if (negb (is_some param_)) then (do t9 <- deref g_DefaultTOTPParam;
  let _def := t9 in
  let param_ := (Some _def) in
  kj1 param_)
  else (kj1 param_).

Definition challengeLength (format : Z) : res Z :=
  let t1 := format in
  if ((Z.eqb t1 1%Z) || (Z.eqb t1 3%Z) || (Z.eqb t1 5%Z)) then (Val 8%Z)
  else if ((Z.eqb t1 2%Z) || (Z.eqb t1 4%Z) || (Z.eqb t1 6%Z)) then (Val 10%Z)
  else (Val 0%Z).

Definition SuiteConfig_Validate (cfg : suite_cfg) : res (option err) :=
  if ((Z.ltb (sc_digits cfg) 4%Z) || (Z.ltb 10%Z (sc_digits cfg))) then (Val (Some (EFmt T_digit_len [(sc_digits cfg)] [])))
  else
  if (((negb (N.eqb (sc_hash cfg) 0%N)) && (negb (N.eqb (sc_hash cfg) 1%N))) && (negb (N.eqb (sc_hash cfg) 2%N))) then (Val (Some (EFmt T_bad_hash [(Z.of_N (sc_hash cfg))] [])))
  else
  if ((sc_p cfg) && (Z.eqb (sc_pwhash cfg) 0%Z)) then (Val (Some (EFmt T_pw_nohash [] [])))
  else
  if ((sc_t cfg) && (Z.leb (sc_timestep cfg) 0%Z)) then (Val (Some (EFmt T_bad_step [(sc_timestep cfg)] [])))
  else
  if ((sc_q cfg) && (Z.eqb (sc_challenge cfg) 0%Z)) then (Val (Some (EFmt T_no_format [] [])))
  else
  Val None.

Definition SuiteConfig_Config (cfg : suite_cfg) : res suite_cfg :=
  Val cfg.

Definition RawSuite_Validate (r : suite_cfg) : res (option err) :=
  SuiteConfig_Validate r.

Definition RawSuite_Config (r : suite_cfg) : res suite_cfg :=
  Val r.

Definition OCRAInput_Validate (in_ : ocra_input) (cfg : suite_cfg) : res (option err) :=
  if ((sc_c cfg) && (negb (Z.eqb (zlen (oi_counter in_)) 8%Z))) then (Val (Some (EFmt T_counter_len [(zlen (oi_counter in_))] [])))
  else
  let kj1 := fun (_ : unit) =>
  let kj2 := fun (_ : unit) =>
  if ((sc_s cfg) && (Z.ltb 128%Z (zlen (oi_session in_)))) then (Val (Some (EFmt T_sess_long [(zlen (oi_session in_))] [])))
  else
  if ((sc_t cfg) && (negb (Z.eqb (zlen (oi_timestamp in_)) 8%Z))) then (Val (Some (EFmt T_ts_len [(zlen (oi_timestamp in_))] [])))
  else
  Val None in
  if (sc_p cfg) then (if (Z.eqb (zlen (oi_password in_)) 0%Z) then (Val (Some (EFmt T_pw_missing [] [])))
  else
  let t1 := (sc_pwhash cfg) in
  if ((Z.eqb t1 1%Z)) then (if (negb (Z.eqb (zlen (oi_password in_)) 20%Z)) then (Val (Some (EFmt T_pw_sha1 [(zlen (oi_password in_))] [])))
  else
  kj2 tt)
  else if ((Z.eqb t1 2%Z)) then (if (negb (Z.eqb (zlen (oi_password in_)) 32%Z)) then (Val (Some (EFmt T_pw_sha256 [(zlen (oi_password in_))] [])))
  else
  kj2 tt)
  else if ((Z.eqb t1 3%Z)) then (if (negb (Z.eqb (zlen (oi_password in_)) 64%Z)) then (Val (Some (EFmt T_pw_sha512 [(zlen (oi_password in_))] [])))
  else
  kj2 tt)
  else (kj2 tt))
  else (kj2 tt) in
  if (sc_q cfg) then (do t2 <- challengeLength (sc_challenge cfg);
  let minimum := t2 in
  if (Z.ltb (zlen (oi_challenge in_)) minimum) then (Val (Some (EFmt T_chal_short [minimum; (zlen (oi_challenge in_))] [])))
  else
  if (Z.ltb 128%Z (zlen (oi_challenge in_))) then (Val (Some (EFmt T_chal_long [(zlen (oi_challenge in_))] [])))
  else
  kj1 tt)
  else (kj1 tt).

Definition deriveRFC6287 (fuel0 : nat) (junk_rfc6287BufPool : bytes) (secret : bytes) (s : (option suite_cfg)) (input : ocra_input) : res (bytes * (option err)) :=
  if (negb (is_some s)) then (Val ([], (Some (ESent ErrInvalidRawSuite))))
  else
  do t1 <- deref s;
  do t2 <- SuiteConfig_Validate t1;
  let err_ := t2 in
  if (is_some err_) then (Val ([], err_))
  else
  do t3 <- deref s;
  do t4 <- SuiteConfig_Config t3;
  let cfg := t4 in
  do t5 <- OCRAInput_Validate input cfg;
  let err__2 := t5 in
  if (is_some err__2) then (Val ([], err__2))
  else
  let msgBuf := junk_rfc6287BufPool in
  do t6 <- slice msgBuf 0%Z 0%Z;
  let msg := t6 in
  let msg := (msg ++ (sc_raw cfg)) in
  let msg := (msg ++ [0%N]) in
  let kj1 := fun (msg : bytes) =>
  let kj2 := fun (msg : bytes) =>
  let kj3 := fun (msg : bytes) =>
  let kj4 := fun (msg : bytes) =>
  let kj5 := fun (msg : bytes) =>
  do t7 <- pool_at hmacPools (Z.of_N (sc_hash cfg));
  let hp := t7 in
  let mac := (hmac_new hp secret) in
  let mac := (hash_write mac msg) in
  let sum_ := (hash_sum mac []) in
  do t8 <- idxN g_mod10 (sc_digits cfg);
  do t9 <- truncate sum_ t8;
  let otp := t9 in
  do t10 <- formatDecimal fuel0 otp (sc_digits cfg);
  Val (t10, None) in
  if (sc_t cfg) then (do t11 <- padBytes (oi_timestamp input) 8%Z;
  let msg := (msg ++ t11) in
  kj5 msg)
  else (kj5 msg) in
  if (sc_s cfg) then (do t12 <- padBytes (oi_session input) 128%Z;
  let msg := (msg ++ t12) in
  kj4 msg)
  else (kj4 msg) in
  if (sc_p cfg) then (let msg := (msg ++ (oi_password input)) in
  kj3 msg)
  else (kj3 msg) in
  if (sc_q cfg) then (do t13 <- padBytes (oi_challenge input) 128%Z;
  let msg := (msg ++ t13) in
  kj2 msg)
  else (kj2 msg) in
  if (sc_c cfg) then (do t14 <- padBytes (oi_counter input) 8%Z;
  let msg := (msg ++ t14) in
  kj1 msg)
  else (kj1 msg).

Definition validateRFC6287 (fuel0 : nat) (junk_rfc6287BufPool : bytes) (code : bytes) (secret : bytes) (suite : (option suite_cfg)) (input : ocra_input) : res (bool * (option err)) :=
  if (negb (is_some suite)) then (Val (false, (Some (ESent ErrInvalidRawSuite))))
  else
  do t1 <- deref suite;
  do t2 <- SuiteConfig_Config t1;
  let cfg := t2 in
  validate code (sc_digits cfg) (fun _ : unit => deriveRFC6287 fuel0 junk_rfc6287BufPool secret suite input).

Definition GenerateOCRA (fuel0 : nat) (junk_rfc6287BufPool : bytes) (secret : bytes) (suite : (option suite_cfg)) (input : ocra_input) : res (bytes * (option err)) :=
  do t1 <- DecodeSecret fuel0 secret;
  let '(secretBuf, err_) := t1 in
  if (is_some err_) then (Val ([], err_))
  else
  deriveRFC6287 fuel0 junk_rfc6287BufPool secretBuf suite input.

Definition ValidateOCRA (fuel0 : nat) (junk_rfc6287BufPool : bytes) (secret : bytes) (code : bytes) (suite : (option suite_cfg)) (input : ocra_input) : res (bool * (option err)) :=
  do t1 <- DecodeSecret fuel0 secret;
  let '(secretBuf, err_) := t1 in
  if (is_some err_) then (Val (false, err_))
  else
  validateRFC6287 fuel0 junk_rfc6287BufPool code secretBuf suite input.

Definition DigitsFromStr (digits : bytes) : res N :=
  let t1 := digits in
  if ((beqb t1 (s2b "6"))) then (Val 6%N)
  else if ((beqb t1 (s2b "8"))) then (Val 8%N)
  else if ((beqb t1 (s2b "9"))) then (Val 9%N)
  else if ((beqb t1 (s2b "10"))) then (Val 10%N)
  else (Val 6%N).

Definition AlgorithmFromStr (algo : bytes) : res N :=
  let t1 := algo in
  if ((beqb t1 (s2b "SHA1"))) then (Val 0%N)
  else if ((beqb t1 (s2b "SHA256"))) then (Val 1%N)
  else if ((beqb t1 (s2b "SHA512"))) then (Val 2%N)
  else (Val 0%N).

Definition parseTimeGranularity (g : bytes) : res (Z * (option err)) :=
  if (Z.ltb (zlen g) 2%Z) then (Val (0%Z, (Some (EStd 10 []))))
  else
  do t1 <- slice g 0%Z (wrap_int64 (Z.sub (zlen g) 1%Z));
  let numStr := t1 in
  do t2 <- idx g (wrap_int64 (Z.sub (zlen g) 1%Z));
  let unit_ := t2 in
  do t3 <- Val (atoi_go numStr);
  let '(val, err_) := t3 in
  if (is_some err_) then (Val (0%Z, err_))
  else
  let mult := 0%Z in
  let t4 := unit_ in
  let kj1 := fun (mult : Z) =>
  let secs := (wrap_int64 (Z.mul val mult)) in
  do t5 <- sdiv secs mult;
  if (Z.eqb t5 val) then (Val (secs, None))
  else
  Val (0%Z, (Some (EStd 13 []))) in
  if ((N.eqb t4 83%N)) then (let mult := 1%Z in
  kj1 mult)
  else if ((N.eqb t4 77%N)) then (let mult := 60%Z in
  kj1 mult)
  else if ((N.eqb t4 72%N)) then (let mult := 3600%Z in
  kj1 mult)
  else (Val (0%Z, (Some (EStd 12 [])))).

Definition parseCryptoFunction (raw : bytes) (crypto : bytes) : res (suite_cfg * (option err)) :=
  if (negb (is_prefix (s2b "HOTP-SHA") (to_upper_u crypto))) then (Val ((mkSuite [] 0 0 0 false false false false false 0 0), (Some (EFmt T_suite_crypto [] [raw]))))
  else
  do t1 <- slice crypto 5%Z (zlen crypto);
  let rest := t1 in
  let parts := (split 45%N rest) in
  if (negb (Z.eqb (zlen parts) 2%Z)) then (Val ((mkSuite [] 0 0 0 false false false false false 0 0), (Some (EFmt T_crypto_format [] [rest]))))
  else
  do t2 <- idxS parts 0%Z;
  let hashPart := t2 in
  do t3 <- idxS parts 1%Z;
  let digPart := t3 in
  let cfg : suite_cfg := (mkSuite [] 0 0 0 false false false false false 0 0) in
  let t4 := (to_upper_u hashPart) in
  let kj1 := fun (cfg : suite_cfg) =>
  do t5 <- Val (atoi_go digPart);
  let '(dig, err_) := t5 in
  if (is_some err_) then (Val ((mkSuite [] 0 0 0 false false false false false 0 0), (Some (EFmt T_suite_digits [] [digPart]))))
  else
  let cfg := mkSuite (sc_raw cfg) (sc_hash cfg) dig (sc_challenge cfg) (sc_c cfg) (sc_q cfg) (sc_p cfg) (sc_s cfg) (sc_t cfg) (sc_pwhash cfg) (sc_timestep cfg) in
  Val (cfg, None) in
  if ((beqb t4 (s2b "SHA1"))) then (let cfg := mkSuite (sc_raw cfg) 0%N (sc_digits cfg) (sc_challenge cfg) (sc_c cfg) (sc_q cfg) (sc_p cfg) (sc_s cfg) (sc_t cfg) (sc_pwhash cfg) (sc_timestep cfg) in
  kj1 cfg)
  else if ((beqb t4 (s2b "SHA256"))) then (let cfg := mkSuite (sc_raw cfg) 1%N (sc_digits cfg) (sc_challenge cfg) (sc_c cfg) (sc_q cfg) (sc_p cfg) (sc_s cfg) (sc_t cfg) (sc_pwhash cfg) (sc_timestep cfg) in
  kj1 cfg)
  else if ((beqb t4 (s2b "SHA512"))) then (let cfg := mkSuite (sc_raw cfg) 2%N (sc_digits cfg) (sc_challenge cfg) (sc_c cfg) (sc_q cfg) (sc_p cfg) (sc_s cfg) (sc_t cfg) (sc_pwhash cfg) (sc_timestep cfg) in
  kj1 cfg)
  else (Val ((mkSuite [] 0 0 0 false false false false false 0 0), (Some (EFmt T_suite_hash [] [hashPart])))).

Fixpoint parseDataInputTokens_loop1 (range_list : list bytes) (fuel0 : nat)   (cfg : suite_cfg) (kx : suite_cfg -> res ((option err) * suite_cfg)) {struct range_list} : res ((option err) * suite_cfg) :=
  match range_list with
  | [] => kx cfg
  | tok :: range_rest =>
  let tokU := (to_upper_u tok) in
  if ((beqb tokU (s2b "C"))) then (let cfg := mkSuite (sc_raw cfg) (sc_hash cfg) (sc_digits cfg) (sc_challenge cfg) true (sc_q cfg) (sc_p cfg) (sc_s cfg) (sc_t cfg) (sc_pwhash cfg) (sc_timestep cfg) in
  parseDataInputTokens_loop1 range_rest fuel0  cfg kx)
  else if ((is_prefix (s2b "QN") tokU)) then (let cfg := mkSuite (sc_raw cfg) (sc_hash cfg) (sc_digits cfg) (sc_challenge cfg) (sc_c cfg) true (sc_p cfg) (sc_s cfg) (sc_t cfg) (sc_pwhash cfg) (sc_timestep cfg) in
  if (Z.eqb (zlen tokU) 4%Z) then (do t1 <- slice tokU 2%Z (zlen tokU);
  let num := t1 in
  let t2 := num in
  if ((beqb t2 (s2b "08"))) then (let cfg := mkSuite (sc_raw cfg) (sc_hash cfg) (sc_digits cfg) 1%Z (sc_c cfg) (sc_q cfg) (sc_p cfg) (sc_s cfg) (sc_t cfg) (sc_pwhash cfg) (sc_timestep cfg) in
  parseDataInputTokens_loop1 range_rest fuel0  cfg kx)
  else if ((beqb t2 (s2b "10"))) then (let cfg := mkSuite (sc_raw cfg) (sc_hash cfg) (sc_digits cfg) 2%Z (sc_c cfg) (sc_q cfg) (sc_p cfg) (sc_s cfg) (sc_t cfg) (sc_pwhash cfg) (sc_timestep cfg) in
  parseDataInputTokens_loop1 range_rest fuel0  cfg kx)
  else (Val ((Some (EFmt T_numeric_spec [] [tok])), cfg)))
  else (parseDataInputTokens_loop1 range_rest fuel0  cfg kx))
  else if ((is_prefix (s2b "QA") tokU)) then (let cfg := mkSuite (sc_raw cfg) (sc_hash cfg) (sc_digits cfg) (sc_challenge cfg) (sc_c cfg) true (sc_p cfg) (sc_s cfg) (sc_t cfg) (sc_pwhash cfg) (sc_timestep cfg) in
  parseDataInputTokens_loop1 range_rest fuel0  cfg kx)
  else if ((is_prefix (s2b "QH") tokU)) then (let cfg := mkSuite (sc_raw cfg) (sc_hash cfg) (sc_digits cfg) (sc_challenge cfg) (sc_c cfg) true (sc_p cfg) (sc_s cfg) (sc_t cfg) (sc_pwhash cfg) (sc_timestep cfg) in
  parseDataInputTokens_loop1 range_rest fuel0  cfg kx)
  else if ((is_prefix (s2b "PSHA") tokU)) then (let cfg := mkSuite (sc_raw cfg) (sc_hash cfg) (sc_digits cfg) (sc_challenge cfg) (sc_c cfg) (sc_q cfg) true (sc_s cfg) (sc_t cfg) (sc_pwhash cfg) (sc_timestep cfg) in
  let t3 := tokU in
  if ((beqb t3 (s2b "PSHA1"))) then (let cfg := mkSuite (sc_raw cfg) (sc_hash cfg) (sc_digits cfg) (sc_challenge cfg) (sc_c cfg) (sc_q cfg) (sc_p cfg) (sc_s cfg) (sc_t cfg) 1%Z (sc_timestep cfg) in
  parseDataInputTokens_loop1 range_rest fuel0  cfg kx)
  else if ((beqb t3 (s2b "PSHA256"))) then (let cfg := mkSuite (sc_raw cfg) (sc_hash cfg) (sc_digits cfg) (sc_challenge cfg) (sc_c cfg) (sc_q cfg) (sc_p cfg) (sc_s cfg) (sc_t cfg) 2%Z (sc_timestep cfg) in
  parseDataInputTokens_loop1 range_rest fuel0  cfg kx)
  else if ((beqb t3 (s2b "PSHA512"))) then (let cfg := mkSuite (sc_raw cfg) (sc_hash cfg) (sc_digits cfg) (sc_challenge cfg) (sc_c cfg) (sc_q cfg) (sc_p cfg) (sc_s cfg) (sc_t cfg) 3%Z (sc_timestep cfg) in
  parseDataInputTokens_loop1 range_rest fuel0  cfg kx)
  else (Val ((Some (EFmt T_pw_type [] [tok])), cfg)))
  else if ((is_prefix (s2b "T") tokU)) then (let cfg := mkSuite (sc_raw cfg) (sc_hash cfg) (sc_digits cfg) (sc_challenge cfg) (sc_c cfg) (sc_q cfg) (sc_p cfg) (sc_s cfg) true (sc_pwhash cfg) (sc_timestep cfg) in
  do t4 <- slice tok 1%Z (zlen tok);
  let gran := t4 in
  do t5 <- parseTimeGranularity gran;
  let '(secs, err_) := t5 in
  if (is_some err_) then (Val ((Some (EFmt T_time_spec [] [tok])), cfg))
  else
  let cfg := mkSuite (sc_raw cfg) (sc_hash cfg) (sc_digits cfg) (sc_challenge cfg) (sc_c cfg) (sc_q cfg) (sc_p cfg) (sc_s cfg) (sc_t cfg) (sc_pwhash cfg) secs in
  parseDataInputTokens_loop1 range_rest fuel0  cfg kx)
  else if ((is_prefix (s2b "S") tokU)) then (let cfg := mkSuite (sc_raw cfg) (sc_hash cfg) (sc_digits cfg) (sc_challenge cfg) (sc_c cfg) (sc_q cfg) (sc_p cfg) true (sc_t cfg) (sc_pwhash cfg) (sc_timestep cfg) in
  parseDataInputTokens_loop1 range_rest fuel0  cfg kx)
  else (Val ((Some (EFmt T_unknown_token [] [tok])), cfg))
  end.

Definition parseDataInputTokens (fuel0 : nat) (cfg : suite_cfg) (input : bytes) : res ((option err) * suite_cfg) :=
  let toks := (split 45%N input) in
  parseDataInputTokens_loop1 toks fuel0 cfg (fun (cfg : suite_cfg) =>
  Val (None, cfg)).

Definition parseRawSuite (fuel0 : nat) (raw : bytes) : res (suite_cfg * (option err)) :=
  let parts := (split 58%N raw) in
  if (negb (Z.eqb (zlen parts) 3%Z)) then (Val ((mkSuite [] 0 0 0 false false false false false 0 0), (Some (EFmt T_suite_format [] [raw]))))
  else
  do t1 <- idxS parts 1%Z;
  let crypto := t1 in
  do t2 <- idxS parts 2%Z;
  let dataInput := t2 in
  do t3 <- idxS parts 0%Z;
  if (negb (beqb t3 (s2b "OCRA-1"))) then (do t4 <- idxS parts 0%Z;
  Val ((mkSuite [] 0 0 0 false false false false false 0 0), (Some (EFmt T_suite_version [] [t4]))))
  else
  do t5 <- parseCryptoFunction raw crypto;
  let '(cfg, err_) := t5 in
  if (is_some err_) then (Val ((mkSuite [] 0 0 0 false false false false false 0 0), err_))
  else
  do t6 <- parseDataInputTokens fuel0 cfg dataInput;
  let '(t7, cfg) := t6 in
  let err__2 := t7 in
  if (is_some err__2) then (Val ((mkSuite [] 0 0 0 false false false false false 0 0), err__2))
  else
  let cfg := mkSuite raw (sc_hash cfg) (sc_digits cfg) (sc_challenge cfg) (sc_c cfg) (sc_q cfg) (sc_p cfg) (sc_s cfg) (sc_t cfg) (sc_pwhash cfg) (sc_timestep cfg) in
  do t8 <- SuiteConfig_Validate cfg;
  let err__3 := t8 in
  if (is_some err__3) then (Val ((mkSuite [] 0 0 0 false false false false false 0 0), err__3))
  else
  Val (cfg, None).

Definition NewRawSuite (fuel0 : nat) (raw : bytes) : res ((option suite_cfg) * (option err)) :=
  let '(suiteCfg, ok) := (lookup_go raw) in
  if ok then (let suiteCfg := mkSuite raw (sc_hash suiteCfg) (sc_digits suiteCfg) (sc_challenge suiteCfg) (sc_c suiteCfg) (sc_q suiteCfg) (sc_p suiteCfg) (sc_s suiteCfg) (sc_t suiteCfg) (sc_pwhash suiteCfg) (sc_timestep suiteCfg) in
  do t1 <- SuiteConfig_Validate suiteCfg;
  let err_ := t1 in
  if (is_some err_) then (Val ((Some (mkSuite [] 0 0 0 false false false false false 0 0)), err_))
  else
  Val ((Some suiteCfg), None))
  else
  do t2 <- parseRawSuite fuel0 raw;
  let '(cfg, err__2) := t2 in
  if (is_some err__2) then (Val ((Some (mkSuite [] 0 0 0 false false false false false 0 0)), err__2))
  else
  Val ((Some cfg), None).

Definition SuiteConfig_String (cfg : suite_cfg) : res bytes :=
  Val (sc_raw cfg).

Definition RawSuite_String (r : suite_cfg) : res bytes :=
  Val (sc_raw r).

Definition MustRawSuite (fuel0 : nat) (raw : bytes) : res suite_cfg :=
  do t1 <- NewRawSuite fuel0 raw;
  let '(s, err_) := t1 in
  if (is_some err_) then (Pnc (* panic(...) *) )
  else
  do t2 <- deref s;
  Val t2.

Definition NewSuite (cfg : suite_cfg) : res ((option suite_cfg) * (option err)) :=
  do t1 <- SuiteConfig_Validate cfg;
  let err_ := t1 in
  if (is_some err_) then (Val (None, err_))
  else
  Val ((Some cfg), None).

Definition IsKnownSuite (raw : bytes) : res bool :=
  let '(_, ok) := (lookup_go raw) in
  Val ok.

Definition SuiteConfigFromRaws (rawSuite : bytes) : res suite_cfg :=
  Val (fst (lookup_go rawSuite)).

Fixpoint ListSuites_loop1 (range_list : list bytes) (fuel0 : nat)   (suites : (list bytes)) (kx : (list bytes) -> res (list bytes)) {struct range_list} : res (list bytes) :=
  match range_list with
  | [] => kx suites
  | name :: range_rest =>
  let suites := (suites ++ [name]) in
  ListSuites_loop1 range_rest fuel0  suites kx
  end.

Definition ListSuites (fuel0 : nat) : res (list bytes) :=
  let suites := (@nil bytes) in
  ListSuites_loop1 (map fst known_suites) fuel0 suites (fun (suites : (list bytes)) =>
  Val suites).

Fixpoint To8ByteBigEndian_loop1 (fuel : nat) (fuel0 : nat)   (out : bytes) (v : N) (i : Z) (kx : bytes -> N -> Z -> res bytes) {struct fuel} : res bytes :=
  match fuel with O => OutOfFuel | S fuel =>
  if (Z.leb 0%Z i) then (do out <- set_idx out i (wrap8 (N.land v 255%N));
  let v := (N.shiftr v 8%N) in
  let i := (wrap_int64 (Z.sub i 1%Z)) in
  To8ByteBigEndian_loop1 fuel fuel0  out v i kx)
  else kx out v i
  end.

Definition To8ByteBigEndian (fuel0 : nat) (v : N) : res bytes :=
  do t1 <- make_bytes 8%Z;
  let out := t1 in
  let i := 7%Z in
  To8ByteBigEndian_loop1 fuel0 fuel0 out v i (fun (out : bytes) (v : N) (i : Z) =>
  Val out).

Fixpoint ParseDecimalToBigEndian8_loop1 (fuel : nat) (fuel0 : nat)   (out : bytes) (v : N) (i : Z) (kx : bytes -> N -> Z -> res (bytes * (option err))) {struct fuel} : res (bytes * (option err)) :=
  match fuel with O => OutOfFuel | S fuel =>
  if (Z.leb 0%Z i) then (do out <- set_idx out i (wrap8 (N.land v 255%N));
  let v := (N.shiftr v 8%N) in
  let i := (wrap_int64 (Z.sub i 1%Z)) in
  ParseDecimalToBigEndian8_loop1 fuel fuel0  out v i kx)
  else kx out v i
  end.

Definition ParseDecimalToBigEndian8 (fuel0 : nat) (s : bytes) : res (bytes * (option err)) :=
  do t1 <- Val (parse_uint_go s);
  let '(v, err_) := t1 in
  if (is_some err_) then (Val ([], err_))
  else
  do t2 <- make_bytes 8%Z;
  let out := t2 in
  let i := 7%Z in
  ParseDecimalToBigEndian8_loop1 fuel0 fuel0 out v i (fun (out : bytes) (v : N) (i : Z) =>
  Val (out, None)).

Fixpoint ParseDecimal64BigEndian_loop1 (fuel : nat) (fuel0 : nat)   (out : bytes) (v : N) (i : Z) (kx : bytes -> N -> Z -> res (bytes * (option err))) {struct fuel} : res (bytes * (option err)) :=
  match fuel with O => OutOfFuel | S fuel =>
  if (Z.leb 0%Z i) then (do out <- set_idx out i (wrap8 (N.land v 255%N));
  let v := (N.shiftr v 8%N) in
  let i := (wrap_int64 (Z.sub i 1%Z)) in
  ParseDecimal64BigEndian_loop1 fuel fuel0  out v i kx)
  else kx out v i
  end.

Definition ParseDecimal64BigEndian (fuel0 : nat) (decStr : bytes) : res (bytes * (option err)) :=
  do t1 <- Val (parse_uint_go decStr);
  let '(v, err_) := t1 in
  if (is_some err_) then (Val ([], err_))
  else
  do t2 <- make_bytes 8%Z;
  let out := t2 in
  let i := 7%Z in
  ParseDecimal64BigEndian_loop1 fuel0 fuel0 out v i (fun (out : bytes) (v : N) (i : Z) =>
  Val (out, None)).

Definition LeftPadHex (s : bytes) (totalLen : Z) : res bytes :=
  if (Z.leb totalLen 0%Z) then (Val [])
  else
  if (Z.leb totalLen (zlen s)) then (do t1 <- slice s (wrap_int64 (Z.sub (zlen s) totalLen)) (zlen s);
  Val t1)
  else
  do t2 <- str_repeat (s2b "0") (wrap_int64 (Z.sub totalLen (zlen s)));
  Val (t2 ++ s).

Definition MustHexPadLeft (hexStr : bytes) (size : Z) : res bytes :=
  do t1 <- LeftPadHex hexStr (wrap_int64 (Z.mul size 2%Z));
  let padded := t1 in
  do t2 <- Val (hex_decode_go padded);
  let '(b, err_) := t2 in
  if (is_some err_) then (Pnc (* panic(...) *) )
  else
  Val b.

Fixpoint ParseHexTimestamp_loop1 (fuel : nat) (fuel0 : nat)   (ts : bytes) (kx : bytes -> res (bytes * (option err))) {struct fuel} : res (bytes * (option err)) :=
  match fuel with O => OutOfFuel | S fuel =>
  if (Z.ltb (zlen ts) 16%Z) then (let ts := ((s2b "0") ++ ts) in
  ParseHexTimestamp_loop1 fuel fuel0  ts kx)
  else kx ts
  end.

Definition ParseHexTimestamp (fuel0 : nat) (ts : bytes) : res (bytes * (option err)) :=
  ParseHexTimestamp_loop1 fuel0 fuel0 ts (fun (ts : bytes) =>
  Val (hex_decode_go ts)).

Fixpoint ParseDecimalChallengeRFC6287_loop1 (fuel : nat) (fuel0 : nat)   (hx : bytes) (kx : bytes -> res (bytes * (option err))) {struct fuel} : res (bytes * (option err)) :=
  match fuel with O => OutOfFuel | S fuel =>
  if (Z.ltb (zlen hx) 256%Z) then (let hx := (hx ++ (s2b "0")) in
  ParseDecimalChallengeRFC6287_loop1 fuel fuel0  hx kx)
  else kx hx
  end.

Definition ParseDecimalChallengeRFC6287 (fuel0 : nat) (s : bytes) : res (bytes * (option err)) :=
  do t1 <- Val (big_parse10 s);
  let '(decVal, ok) := t1 in
  if (negb ok) then (Val ([], (Some (EFmt T_invalid_decimal [] [s]))))
  else
  let hx := (to_upper_u (big_text16 decVal)) in
  ParseDecimalChallengeRFC6287_loop1 fuel0 fuel0 hx (fun (hx : bytes) =>
  Val (hex_decode_go hx)).

Definition HexInputToOCRA (counter : bytes) (challenge : bytes) (password : bytes) (sessionInfo : bytes) (timestamp : bytes) : res (ocra_input * (option err)) :=
  let input : ocra_input := (mkInput [] [] [] [] []) in
  let b : bytes := [] in
  let err_ : (option err) := None in
  let kj1 := fun (b : bytes) (err_ : (option err)) (input : ocra_input) =>
  let kj2 := fun (b : bytes) (err_ : (option err)) (input : ocra_input) =>
  let kj3 := fun (b : bytes) (err_ : (option err)) (input : ocra_input) =>
  let kj4 := fun (b : bytes) (err_ : (option err)) (input : ocra_input) =>
  let kj5 := fun (b : bytes) (err_ : (option err)) (input : ocra_input) =>
  Val (input, None) in
  if (negb (beqb timestamp [])) then (do t1 <- Val (hex_decode_go timestamp);
  let '(b, err_) := t1 in
  if (is_some err_) then (Val ((mkInput [] [] [] [] []), (Some (EStd T_hex_timestamp []))))
  else
  let input := mkInput (oi_counter input) (oi_challenge input) (oi_password input) (oi_session input) b in
  kj5 b err_ input)
  else (kj5 b err_ input) in
  if (negb (beqb sessionInfo [])) then (do t2 <- Val (hex_decode_go sessionInfo);
  let '(b, err_) := t2 in
  if (is_some err_) then (Val ((mkInput [] [] [] [] []), (Some (EStd T_hex_session []))))
  else
  let input := mkInput (oi_counter input) (oi_challenge input) (oi_password input) b (oi_timestamp input) in
  kj4 b err_ input)
  else (kj4 b err_ input) in
  if (negb (beqb password [])) then (do t3 <- Val (hex_decode_go password);
  let '(b, err_) := t3 in
  if (is_some err_) then (Val ((mkInput [] [] [] [] []), (Some (EStd T_hex_password []))))
  else
  let input := mkInput (oi_counter input) (oi_challenge input) b (oi_session input) (oi_timestamp input) in
  kj3 b err_ input)
  else (kj3 b err_ input) in
  if (negb (beqb challenge [])) then (do t4 <- Val (hex_decode_go challenge);
  let '(b, err_) := t4 in
  if (is_some err_) then (Val ((mkInput [] [] [] [] []), (Some (EStd T_hex_challenge []))))
  else
  let input := mkInput (oi_counter input) b (oi_password input) (oi_session input) (oi_timestamp input) in
  kj2 b err_ input)
  else (kj2 b err_ input) in
  if (negb (beqb counter [])) then (do t5 <- Val (hex_decode_go counter);
  let '(b, err_) := t5 in
  if (is_some err_) then (Val ((mkInput [] [] [] [] []), (Some (EStd T_hex_counter []))))
  else
  let input := mkInput b (oi_challenge input) (oi_password input) (oi_session input) (oi_timestamp input) in
  kj1 b err_ input)
  else (kj1 b err_ input).

Definition RandomSecret (junk_rand : bytes) (algo : N) : res (bytes * (option err)) :=
  let size := 20%Z in
  let t1 := algo in
  let kj1 := fun (size : Z) =>
  do t2 <- make_bytes size;
  let secret := t2 in
  let secret := (rand_fill secret junk_rand) in
  let '(_, err_) := (zlen secret, @None err) in
  if (is_some err_) then (Val ([], (Some (EStd T_random []))))
  else
  Val ((b32_nopad secret), None) in
  if ((N.eqb t1 0%N)) then (let size := 20%Z in
  kj1 size)
  else if ((N.eqb t1 1%N)) then (let size := 32%Z in
  kj1 size)
  else if ((N.eqb t1 2%N)) then (let size := 64%Z in
  kj1 size)
  else (Val ([], (Some (ESent ErrUnsupportedAlgorithm)))).

Definition Algorithm_String (algo : N) : res bytes :=
  Val (assoc_str g_algoStrMap algo).

Fixpoint generateOTPURL_loop1 (range_list : list (bytes * bytes)) (fuel0 : nat)   (query : (list (bytes * bytes))) (kx : (list (bytes * bytes)) -> res ((option url) * (option err))) {struct range_list} : res ((option url) * (option err)) :=
  match range_list with
  | [] => kx query
  | (k, v) :: range_rest =>
  let query := (values_set k v query) in
  generateOTPURL_loop1 range_rest fuel0  query kx
  end.

Definition generateOTPURL (fuel0 : nat) (kind : bytes) (param_ : urlparam) (extraParams : (list (bytes * bytes))) : res ((option url) * (option err)) :=
  if (beqb (up_issuer param_) []) then (Val (None, (Some (ESent ErrIssuerRequired))))
  else
  if (beqb (up_account param_) []) then (Val (None, (Some (ESent ErrAccountNameRequired))))
  else
  let kj1 := fun (param_ : urlparam) =>
  let kj2 := fun (param_ : urlparam) =>
  if (beqb (up_secret param_) []) then (Val (None, (Some (ESent ErrSecretRequired))))
  else
  let label := ((up_issuer param_) ++ [58] ++ (up_account param_)) in
  let query := [] in
  let query := (values_set (s2b "secret") (up_secret param_) query) in
  let query := (values_set (s2b "issuer") (up_issuer param_) query) in
  do t1 <- Algorithm_String (up_alg param_);
  let query := (values_set (s2b "algorithm") t1 query) in
  let query := (values_set (s2b "digits") ((dec_of_N (up_digits param_))) query) in
  generateOTPURL_loop1 extraParams fuel0 query (fun (query : (list (bytes * bytes))) =>
  Val ((Some (mkUrl (s2b "otpauth") [] false kind ((s2b "/") ++ label) ((s2b "/") ++ (escape label MPathSegment)) false (values_encode query) [])), None)) in
  if (N.eqb (up_alg param_) 0%N) then (let param_ := mkUrlParam (up_issuer param_) (up_account param_) (up_period param_) (up_secret param_) (up_digits param_) 0%N in
  kj2 param_)
  else (kj2 param_) in
  if (N.eqb (up_digits param_) 0%N) then (let param_ := mkUrlParam (up_issuer param_) (up_account param_) (up_period param_) (up_secret param_) 6%N (up_alg param_) in
  kj1 param_)
  else (kj1 param_).

Definition GenerateTOTPURL (fuel0 : nat) (param_ : urlparam) : res ((option url) * (option err)) :=
  let kj1 := fun (param_ : urlparam) =>
  generateOTPURL fuel0 (s2b "totp") param_ [((s2b "period"), ((dec_of_N (up_period param_))))] in
  if (N.eqb (up_period param_) 0%N) then (let param_ := mkUrlParam (up_issuer param_) (up_account param_) 30%N (up_secret param_) (up_digits param_) (up_alg param_) in
  kj1 param_)
  else (kj1 param_).

Definition GenerateHOTPURL (fuel0 : nat) (param_ : urlparam) : res ((option url) * (option err)) :=
  generateOTPURL fuel0 (s2b "hotp") param_ [((s2b "counter"), (s2b "0"))].

Definition ParseOTPAuthURL (u : (option url)) : res ((option urlparam) * (option err)) :=
  if (negb (is_some u)) then (Val (None, (Some (EFmt T_url_nil [] []))))
  else
  do t1 <- deref u;
  if (negb (beqb (u_scheme t1) (s2b "otpauth"))) then (do t2 <- deref u;
  Val (None, (Some (EFmt T_url_scheme [] [(u_scheme t2)]))))
  else
  do t3 <- deref u;
  let otpType := (to_lower (u_host t3)) in
  if ((negb (beqb otpType (s2b "totp"))) && (negb (beqb otpType (s2b "hotp")))) then (Val (None, (Some (EFmt T_url_type [] [otpType]))))
  else
  do t4 <- deref u;
  let parts := (splitn2_go 58%N (trim_prefix_go (s2b "/") (u_path t4))) in
  if (negb (Z.eqb (zlen parts) 2%Z)) then (Val (None, (Some (EFmt T_url_label [] []))))
  else
  do t5 <- idxS parts 0%Z;
  do t6 <- idxS parts 1%Z;
  let t7 := t5 in
  let t8 := t6 in
  let issuer := t7 in
  let accountName := t8 in
  do t9 <- deref u;
  let query := (parse_query (u_rawquery t9)) in
  let param_ := (Some (mkUrlParam issuer accountName 30%N (query_get (s2b "secret") query) 6%N 0%N)) in
  let digitsStr := (query_get (s2b "digits") query) in
  let kj1 := fun (param_ : (option urlparam)) =>
  let algStr := (query_get (s2b "algorithm") query) in
  let kj2 := fun (param_ : (option urlparam)) =>
  let periodStr := (query_get (s2b "period") query) in
  let kj3 := fun (param_ : (option urlparam)) =>
  Val (param_, None) in
  if (negb (beqb periodStr [])) then (do t10 <- Val (atoi_go periodStr);
  let '(p, err_) := t10 in
  if ((negb (is_some err_)) && (Z.leb 0%Z p)) then (do t11 <- deref param_;
  let param_ := Some (mkUrlParam (up_issuer t11) (up_account t11) (of_int64 p) (up_secret t11) (up_digits t11) (up_alg t11)) in
  kj3 param_)
  else (Val (None, (Some (EFmt T_url_period [] [periodStr])))))
  else (kj3 param_) in
  if (negb (beqb algStr [])) then (let t12 := (to_upper_u algStr) in
  if ((beqb t12 (s2b "SHA1"))) then (do t13 <- deref param_;
  let param_ := Some (mkUrlParam (up_issuer t13) (up_account t13) (up_period t13) (up_secret t13) (up_digits t13) 0%N) in
  kj2 param_)
  else if ((beqb t12 (s2b "SHA256"))) then (do t14 <- deref param_;
  let param_ := Some (mkUrlParam (up_issuer t14) (up_account t14) (up_period t14) (up_secret t14) (up_digits t14) 1%N) in
  kj2 param_)
  else if ((beqb t12 (s2b "SHA512"))) then (do t15 <- deref param_;
  let param_ := Some (mkUrlParam (up_issuer t15) (up_account t15) (up_period t15) (up_secret t15) (up_digits t15) 2%N) in
  kj2 param_)
  else (Val (None, (Some (EFmt T_url_alg [] [algStr])))))
  else (kj2 param_) in
  if (negb (beqb digitsStr [])) then (do t16 <- Val (atoi_go digitsStr);
  let '(digitsInt, err__2) := t16 in
  if (((negb (is_some err__2)) && (Z.leb 0%Z digitsInt)) && (Z.leb digitsInt 255%Z)) then (do t17 <- deref param_;
  let param_ := Some (mkUrlParam (up_issuer t17) (up_account t17) (up_period t17) (up_secret t17) (of_int 8%N digitsInt) (up_alg t17)) in
  kj1 param_)
  else (Val (None, (Some (EFmt T_url_digits [] [digitsStr])))))
  else (kj1 param_).

