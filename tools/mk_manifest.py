#!/usr/bin/env python3
"""Writes /verif/MANIFEST.json from the table below (one entry per claimed property)."""
import json, os
ROOT = os.path.dirname(os.path.dirname(os.path.abspath(__file__)))

COMMON_NOTE = ("Trusted: Coq 8.16.1 kernel (vm_compute for finite facts, no native_compute), no axioms (Print Assumptions "
               "under every property theorem: closed under the global context); the hand-written Gallina model is the code only as far as "
               "the differential correspondence of each run exercised it (Go harness built with -tags verif vs. extracted OCaml "
               "runner, a slice re-evaluated by vm_compute) plus the data regenerated from /repo by tools/gen_tables; extraction uses "
               "ExtrOcamlBasic only; Go's crypto, encoding/base32, strings and time are transcribed, not verified. ")

CLAIMS = {
 'C01': ("Unbounded theorem: for every secret spelling that decodes, every counter, digits 1..10 and the three hashes the model of GenerateHOTP "
         "returns Spec.Rfc4226.hotp_value (HMAC of the big-endian counter, dynamic truncation, mod 10^d, zero padding, characterised relationally by is_code with a uniqueness lemma); "
         "unsupported hash/length gives an error; the modulus table is regenerated from derive.go and proved to be the powers of ten.",
         "truncate/shortDigit/longDigit compared through hooks exhaustively over digits and offsets, sampled over values.", "6 C01"),
 'C02': ("Unbounded theorem: the model of GenerateTOTP equals the HOTP model at floor(unix/period) for 0 <= unix < 2^62, is constant inside a step, changes at multiples of the period, "
         "and resolves nil parameters and period 0 as validation and URLs do (the three zero-period defaults are regenerated from totp.go).",
         "That nanoseconds, location and monotonic reading are irrelevant is the model's signature and is checked against real time.Time values by the correspondence.", "6 C02"),
 'C03': ("Unbounded theorem (iff): for window s<=10 and c+s<2^64 the model of ValidateHOTP returns (true,nil) exactly when the string is the RFC value of some counter in [max(0,c-s), c+s]; "
         "generated codes validate; s>10 refused; nil parameters mean (6, SHA-1, 2); the uint64 wrap and the underflow guard are modelled literally.",
         "", "6 C03"),
 'C04': ("Unbounded theorem (iff) over time steps for floor(t/p) >= s, refusal of skew > 10, and a cost theorem: at most 21 derivations for every input.",
         "Wall-clock time is not modelled, only the number of HMAC derivations.", "6 C04"),
 'C05': ("Unbounded theorem: for every usable configuration and admissible input the model of GenerateOCRA returns Spec.Rfc6287.ocra_value over the documented message layout; "
         "inputs agreeing on the selected fields give the same outcome; padBytes is right zero padding under admissibility.",
         "Registered names and parsed strings reach generation as a configuration value (C15 ties them to their strings).", "6 C05"),
 'C06': ("Unbounded theorem (iff): the model of ValidateOCRA returns (true,nil) exactly when the model of GenerateOCRA returns the submitted string; failure of generation gives (false, error); no panic.",
         "", "6 C06"),
 'C07': ("Unbounded theorem: for every byte string and every spelling of its RFC 4648 text (inductive relation: any letter case, 0..canonical '=' padding, surrounded by ASCII white space) "
         "the model of DecodeSecret (TrimSpace, alphabet check, re-padding, ToUpper, a literal transcription of Go's base32 decode loop) returns exactly those bytes; the packing formulas are proved to be bit regrouping by finite sweeps (<= 2^15 cases each) lifted to all inputs; "
         "hence all six entry points see the same key; characters outside the alphabet and lengths 1,3,6 mod 8 are rejected.",
         "Padding in the middle is covered by the correspondence (malformed stream), not by a theorem. Unicode white space is trimmed by the model exactly as strings.TrimSpace does; the spelling relation of the theorem speaks of ASCII white space.", "6 C07"),
 'C08': ("Unbounded theorem over every byte stream and every history of calls: each successful RandomSecret result is the unpadded upper-case RFC 4648 text of exactly 20/32/64 consecutive "
         "stream bytes starting where the previous call stopped (each byte used once), contains only A-Z2-7, and DecodeSecret maps it back to those bytes; an unsupported hash yields an error and reads nothing.",
         "The random source is an explicit stream; that crypto/rand.Reader's default is the operating system's CSPRNG is the Go runtime's and is not modelled (partial there). The harness substitutes rand.Reader by a recording stream and compares sequential histories with the model, interleaved ones by multiset of recorded reads.", "6 C08"),
 'C09': ("Certificate theorem + finite facts: over the SSA form of the code regenerated on every run (native: library + REST; js/wasm: library + binding) the analysis of Model/Flow.v finds no comparison (and no call leaving the analysed packages, other than listed output functions) whose operands carry both HMAC-derived and caller-derived data, and no branch on an HMAC-derived condition (explicit flows plus control dependence) that controls a comparison of caller-derived data; "
         "the tainted sets are checked to be closed supersets of the sources and closed_sound / no_leak_sound prove that such a certificate covers every flow path of the fact base (vm_compute on the regenerated facts, unbounded induction over paths).",
         "Partial by nature: time itself is not modelled, only the data-flow statement the property reduces it to; micro-architectural timing and the constant-timeness of crypto/subtle.ConstantTimeCompare are Go's. The edge rules, control dependence and source/barrier classification live in tools/gen_ssa and are trusted to over-approximate explicit data flow (field/index/context-insensitive; table look-ups keyed by data are not tracked). A leak site is reported with the instruction (file:line) as replay and no-failing-input-found, since a timing difference has no single failing input. A second, dynamic engine (a search, not a proof) compares block execution counts of the library, built with go build -cover, across wrong codes that agree with the expected code in their first k characters; a difference is reported with the pair of inputs.", "6 C09"),
 'C10': ("Unbounded theorems: in the model every Go operation that can panic (index, slice bound, division, negative make) has the explicit outcome Panic, and no exported operation has that outcome for any argument value: DecodeSecret, Generate/Validate HOTP/TOTP (all digits/hash/period/skew/counter/instant values, absent parameters), Generate/Validate OCRA and the derivation (all configurations and inputs), RandomSecret, the input helpers, NewRawSuite / the parser / NewSuite (all strings), the URL builders and ParseOTPAuthURL (all URLs and nil). Since the fourth session: a map look-up or insertion counts as a comparison of the key with the stored keys; C09_stateless (mem_ok on the same facts: nothing outlives a call in shared memory, so no accepted or expected code can wait there for a later comparison); a dynamic engine (block execution counts independent of the length of the correct prefix) runs the native validators and, under node, the js/wasm validator.",
         "Hangs are excluded by totality of the model plus the derivation bound of C04; the harness runs a hostile stream (every uint8 enum value, boundary integers, invalid UTF-8, 64 KiB strings, nil/empty/oversized byte fields, arbitrary suite configurations and URLs) under recover() and a per-case watchdog and compares outcome and value with the model. Stack or heap exhaustion is the Go runtime's and is not modelled. For the translated functions the translator puts a panic outcome at every index, slice, division and dereference of the Go text (C10src theorems); for the rest of the library the guards are the modeller's.", "6 C10"),
 'C11': ("Unbounded theorems over a small-step model of the pooled-buffer discipline (any number of library threads, adversary threads that take/overwrite/return pooled buffers, a collector emptying the pool, thread creation at any time): in every reachable state — every interleaving — a buffer is held by at most one thread and is not pooled while held, and the bytes a call reads back into its HMAC are its own arguments; "
         "finite facts with a certificate theorem on the SSA form regenerated on every run (native and js/wasm): no pooled buffer or view of it (unsafe string conversions included) is among the results of the function that took it, every Put is deferred, nothing outside package initialisation writes memory reachable from a package-level variable.",
         "Partial: the Go memory model and sync.Pool's happens-before edges are assumed, the real scheduler is not modelled; the step granularity (one byte store / load per step) is the model's. Behavioural tie: concurrent histories of all operation kinds on 1..64 goroutines and 1..16 processors with forced collections and a pool adversary (hook VerifPools), every answer compared with the model's pure function and retained result strings re-read at the end; the race detector runs in the thorough tier and is evidence, not proof. Sequential histories are every other stream (one process, one P).", "6 C11"),
 'C12': ("Finite facts with a certificate theorem on the SSA form regenerated on every run (native and js/wasm builds): no store, map update, append, copy, clear or decoder destination is an object that is a view of, or reachable through pointers from, an argument of an exported library function, and nothing outside package initialisation writes an object reachable from a package-level variable (default parameter sets, suite registry, tables); mem_ok_sound makes the verdict cover every alias path of the fact base. padBytes as a value is a prefix or the input followed by fresh zeros (C05).",
         "The alias rules (views, pointers, memory contents as separate nodes; field- and flow-insensitive; dynamic calls by signature; code outside the analysed packages may return a view of what it was given; writes through other outside calls than the listed encoders/decoders are not seen) live in tools/gen_ssa and are trusted. Behavioural tie: every byte field presented as a sub-slice of a larger canary-filled array with every length/capacity relation around 8 and 128, parameter structs, parsed URLs, the default parameter sets and the registry compared before and after each call.", "6 C12"),
 'C13': ("Unbounded theorems: every validation model (HOTP, TOTP, OCRA) returns (true,nil) or (false,error) for all inputs; the error of a validation step does not depend on the HMAC function (hence not on the expected code); "
         "errors produced after the HMAC are the two sentinels, whose texts (regenerated from errs.go) contain no decimal digit; no error of any generation or validation operation carries a string argument at all (sentinel, base32 position, or fixed text with numbers), so neither the secret nor the expected code is an argument of an error.",
         "The rendering of errors to text is modelled for the library's own messages; that the real error strings contain neither the secret (text and raw) nor any in-window code is additionally scanned on every run (a test).", "6 C13"),
 'C15': ("Finite theorems on the registry regenerated from suite_rfc6287.go (all 45 names read under the RFC 6287 naming scheme, print back to themselves and denote exactly their entry; names distinct; list / known-test / lookup agree; every name instantiates) "
         "and unbounded theorems on the parser model over every name of the scheme (any numerals): if it accepts, the configuration is exactly the name's denotation; it accepts every representable name; "
         "digits outside 4..10, alphanumeric/hex questions outside the registry, a part count other than three and a version other than OCRA-1 are rejected; an accepted string is reported verbatim.",
         "Spec/SuiteName.v is the reading of the naming scheme (it admits the bare 'T<n>' the registry advertises, documented by the library as seconds). strings.ToUpper is exact in the model for ASCII and the two runes that upper-case to ASCII; other non-ASCII suite strings are outside the model's domain (counted as drift, never a violation).", "6 C15"),
 'C16': ("Unbounded theorems: for every issuer (non-empty, no colon), account, secret (non-empty, arbitrary bytes), supported hash, code length 0..255 and period < 2^63 the generated URL has scheme otpauth and type totp/hotp, and url.Parse of its textual form followed by ParseOTPAuthURL returns the same issuer, account, secret, hash, code length (0 as 6) and period (0 as 30); "
         "rests on unescape(escape s) = s and delimiter-freedom of escaped text (256-case byte sweeps lifted by induction) and on ParseQuery(Values.Encode l) = l; parsing any URL returns exactly the integers Atoi reads, within 0..255 / >= 0, or fails.",
         "net/url (shouldEscape, escape, unescape, validEncoded, EscapedPath, String, Parse incl. getScheme/parseAuthority/parseHost/setPath, ParseQuery, Values.Encode) is transcribed from go1.24.0 and compared on every run on delimiter-rich strings; IPv6/zone hosts are outside the model (answered out-of-model, counted as drift).", "6 C16"),
 'C17': ("Unbounded theorems per helper: To8ByteBigEndian = 8-byte big-endian (value recovered), decimal parsing = that encoding of the value with rejection of empty/non-digit/overflow, LeftPadHex length and content, MustHexPadLeft = decoding of the text brought to 2*size characters (exactly size bytes; refusal by panic is its documented contract), hex timestamps 8 bytes, "
         "hex request fields field-wise with first-error, decimal question = RFC 6287 conversion, and end to end the OCRA code from a numeric question equals the RFC value.",
         "strconv, encoding/hex and math/big are transcribed as the functions the helpers use and compared on every run.", "6 C17"),
 'C14': ("Unbounded theorems (iff): SuiteConfig.Validate succeeds exactly for usable suites and OCRAInput.Validate exactly for admissible inputs (the property's sentence as a Prop); "
         "generation/validation get past admission exactly under both.",
         "Out-of-enum challenge formats / password hashes are outside the property; the model still mirrors the code there and the harness compares them.", "6 C14"),
 'C18': ("Unbounded theorems over the REST model (router + ten handlers as request -> now -> response * work): a well-formed request reaches the handler with exactly its decoded fields; the codes the HOTP/TOTP endpoints return are the RFC 4226 values for the request's secret, counter / floor(timestamp/period) (period 0 or absent = 30), digits and hash spellings (unknown = 6 / SHA-1); a code generated by one endpoint validates at the matching endpoint (HOTP, TOTP, OCRA); the suite list, suite description, secret and URL endpoints return the registry, the secret generator's and the URL builder's results.",
         "The model's JSON layer is encoding/json's acceptance rule per DTO field type over a body *shape* (malformed / not an object / object with a value kind per field); tokenizing is Go's json.Valid in the harness. The tie is the real server binary built from the working tree, on loopback, on reused and fresh connections, sequences that differ only in an omitted field, and concurrent bursts compared with their sequential answers. Answers that depend on the server clock are checked against the timestamp the response reports.", "6 C18"),
 'C19': ("Unbounded theorem: for every request (any method, path, malformed / non-object / object body with any value kind in any field) the handler under the recovery middleware yields a status in {200,302,400,404,405,500}, status 200 exactly for a success body, after at most 21 HMAC derivations whatever skew/period/counter/timestamp the request carries; malformed bodies give 400 on every POST endpoint. Since the fourth session the ten handlers, the DTO validators, writeError and the router are also translated from internal/app/api on every run (Generated/SrcRest.v, decoders and printers generated from the json tags) and proved equal to the model for every request (Proofs/SrcEqRest.v); Properties/C18src.v restates the property over the translated source; C18_stateless: the service keeps nothing between requests (mem_ok on the regenerated SSA facts).",
         "Partial: 'promptly', 'complete HTTP response' and 'keeps serving' are socket/runtime behaviour the model cannot exhibit (fasthttp timeouts and limits, process liveness); the harness observes them on the real binary: hostile bodies up to 200 kB, every field with every JSON kind, 64-bit extremes, wrong methods and unknown paths, each batch followed by well-formed probes whose answers are checked, a 2 s latency bound per response and a liveness check.", "6 C19"),
 'C20': ("Unbounded theorems: DeriveRFC4226Wasm = deriveRFC4226 for every key, counter, code length and hash value (its own ten-digit modulus and its FormatUint+padding formatter are proved equal to the native table entry and formatter); ValidateOTPWasm and both window loops of the binding accept exactly what the native loops accept; hence each of the five callbacks returns the native code / verdict / URL text for well-typed arguments (integral or fractional numbers with integer part in the stated ranges), "
         "every call that is not well typed is answered with a string starting with 'error: ', and (finite, on the export table regenerated from otp-js/src/index.js and wasm/main.go) every exported name is bound to the registered global of the same name. Since the fourth session: Properties/C19src.v states the same over the router as translated from the source (answered or panicking only where Recovery answers, with fuel no numeric field of the request enters); C19_stateless: no request can leave anything behind in shared memory (mem_ok on the regenerated SSA facts).",
         "JavaScript values are modelled by type and, for numbers, by what syscall/js Value.Int() returns under Node (truncation; NaN/infinities/out-of-range give MinInt64 — observed, not derived); the freshly built module is run under Node through globalThis and through a copy of the package's own index.js and compared with the model and with the native model on every run. Strings cross the boundary as UTF-8; only valid UTF-8 is exercised. 'leaves the module usable' is checked by the harness (one module instance answers the whole stream).", "6 C20"),
}

SRC_TIE = {'C01', 'C02', 'C03', 'C04', 'C05', 'C06', 'C07', 'C10', 'C13', 'C08', 'C14', 'C15', 'C16', 'C17', 'C18', 'C19', 'C20'}
SRC_NOTE = (" Second tie (DESIGN.md 4.3): tools/gen_model translates the Go text of the functions this property is anchored in into Gallina on every run "
            "(Generated/Src.v); Proofs/SrcEq*.v prove the translation equal to the hand-written model for all inputs and Properties/%ssrc*.v restate the theorems "
            "over the translated source (all closed under the global context). Trusted there: the translation rules, Base/GoSem.v, the transcribed library functions. "
            "When a rewrite breaks that tie the evidence says so, the correspondence runs at 8 times its size, and only a concrete disagreement is reported.")


def main():
    props = [json.loads(l) for l in open(os.path.join(ROOT, 'properties.jsonl'))]
    checks, na = [], []
    for p in props:
        pid = p['id']
        if pid in CLAIMS:
            text, extra, ref = CLAIMS[pid]
            checks.append({
                'property_id': pid,
                'quick_cmd': 'bin/check %s --tier quick' % pid,
                'thorough_cmd': 'bin/check %s --tier thorough' % pid,
                'evidence_file': '/verif/evidence/%s.json' % pid,
                'replay_cmd_template': 'bin/check %s --replay {path}' % pid,
                'engine': 'rocq-model',
                'level_claimed': {'category': 'proof', 'text': text, 'design_ref': 'DESIGN.md section ' + ref},
                'level_note': COMMON_NOTE + extra + (SRC_NOTE % pid if pid in SRC_TIE else ''),
                'technique': 'machine-checked proof in Rocq/Coq 8.16 over a Gallina model of the Go code, tied to /repo by differential correspondence (Go harness vs extracted model + vm_compute slice) and regenerated tables' + (', and by translation of the Go source into Gallina on every run with machine-checked equivalence to the model' if pid in SRC_TIE else ''),
            })
        else:
            na.append({'property_id': pid, 'reason': 'not claimed yet: model/proof for this property is still being built (see DESIGN.md section 9, order of work)'})
    m = {
        'version': 1,
        'setup_cmd': 'bin/setup',
        'hooks': {'guard': 'verif', 'enable': 'go build -tags verif (the harness module /verif/harness replaces github.com/ja7ad/otp by /repo)',
                  'baseline_off_cmd': 'cd /repo && go test -vet=off -count=1 ./...',
                  'source_commits': ['0487d02'], 'add_only': True},
        'engines': [{'name': 'rocq-model', 'path': '/verif/coq', 'serves_properties': sorted(CLAIMS),
                     'kind_free_text': 'Coq 8.16.1 development: Spec (RFC-level) <- refinement theorems <- Model (Gallina mirror of the Go code) ; bin/check drives translators (gen_tables, gen_ssa, gen_model), build, correspondence'}],
        'checks': checks,
        'notes': 'See DESIGN.md. Findings repaired by fix: commits are listed in known_findings.txt; their witnesses are the regression corpus under corpus/.',
        'not_applicable': na,
    }
    json.dump(m, open(os.path.join(ROOT, 'MANIFEST.json'), 'w'), indent=1)

main()
