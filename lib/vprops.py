"""Property-specific engines beyond the generic correspondence streams."""
import os, re, subprocess

ROOT = os.path.dirname(os.path.dirname(os.path.abspath(__file__)))
COQ = os.path.join(ROOT, 'coq')
WORK = os.path.join(ROOT, 'work')
FLAGS = []
for d in ['Base', 'Hash', 'Generated', 'Spec', 'Model', 'Proofs', 'Properties', 'Findings', 'Extract']:
    FLAGS += ['-Q', d, 'OtpV']


def flow_sites(log):
    """leak sites of the regenerated SSA fact bases, evaluated inside Coq (independent of the theorems)"""
    path = os.path.join(WORK, 'c09_sites.v')
    with open(path, 'w') as f:
        f.write('From Coq Require Import List String.\nFrom OtpV Require Import Flow SsaNative SsaWasm.\n'
                'Definition native_sites := Eval vm_compute in site_names SsaNative.facts (search SsaNative.facts).\n'
                'Definition wasm_sites := Eval vm_compute in site_names SsaWasm.facts (search SsaWasm.facts).\n'
                'Definition sizes := Eval vm_compute in (List.length (f_edges SsaNative.facts), List.length (f_cmps SsaNative.facts), List.length (f_edges SsaWasm.facts), List.length (f_cmps SsaWasm.facts), PS.cardinal (c_hmac (search SsaNative.facts)), PS.cardinal (c_caller (search SsaNative.facts))).\n'
                'Set Printing Width 100000. Set Printing Depth 100000.\nPrint native_sites. Print wasm_sites. Print sizes.\n')
    p = subprocess.run(['coqc'] + FLAGS + [path], cwd=COQ, stdout=subprocess.PIPE, stderr=subprocess.STDOUT, text=True, timeout=900)
    for ext in ('.vo', '.vok', '.vos', '.glob'):
        try:
            os.remove(path[:-2] + ext)
        except OSError:
            pass
    log.write('--- c09 sites\n' + p.stdout[-3000:])
    if p.returncode:
        return None, None, None
    def names(which):
        m = re.search(which + r'\s*=\s*(.*?)\s*:\s*list string', p.stdout, re.S)
        return re.findall(r'"((?:[^"]|"")*)"', m.group(1)) if m else None
    m = re.search(r'sizes\s*=\s*\((.*?)\)\s*:', p.stdout, re.S)
    sizes = [int(x) for x in re.findall(r'\d+', m.group(1))] if m else []
    return names('native_sites'), names('wasm_sites'), sizes


def mem_sites(log):
    """sites where the memory discipline of C11/C12 is broken, on the regenerated SSA facts"""
    path = os.path.join(WORK, 'mem_sites.v')
    with open(path, 'w') as f:
        f.write('From Coq Require Import List String.\nFrom OtpV Require Import Flow SsaNative SsaWasm.\n'
                'Definition native_sites := Eval vm_compute in mem_site_names SsaNative.mem_facts (msearch SsaNative.mem_facts).\n'
                'Definition wasm_sites := Eval vm_compute in mem_site_names SsaWasm.mem_facts (msearch SsaWasm.mem_facts).\n'
                'Definition sizes := Eval vm_compute in (List.length (m_alias SsaNative.mem_facts), List.length (m_writes SsaNative.mem_facts), List.length (m_alias SsaWasm.mem_facts), List.length (m_writes SsaWasm.mem_facts), List.length (m_params SsaNative.mem_facts), List.length (m_globals SsaNative.mem_facts)).\n'
                'Set Printing Width 100000. Set Printing Depth 100000.\nPrint native_sites. Print wasm_sites. Print sizes.\n')
    p = subprocess.run(['coqc'] + FLAGS + [path], cwd=COQ, stdout=subprocess.PIPE, stderr=subprocess.STDOUT, text=True, timeout=900)
    for ext in ('.vo', '.vok', '.vos', '.glob'):
        try:
            os.remove(path[:-2] + ext)
        except OSError:
            pass
    log.write('--- mem sites\n' + p.stdout[-3000:])
    if p.returncode:
        return None, None, None
    def names(which):
        m = re.search(which + r'\s*=\s*(.*?)\s*:\s*list string', p.stdout, re.S)
        return re.findall(r'"((?:[^"]|"")*)"', m.group(1)) if m else None
    m = re.search(r'sizes\s*=\s*\((.*?)\)\s*:', p.stdout, re.S)
    sizes = [int(x) for x in re.findall(r'\d+', m.group(1))] if m else []
    return names('native_sites'), names('wasm_sites'), sizes


def race_run(seed, log):
    """the concurrent histories again under the race detector (thorough tier)"""
    env = dict(os.environ, GOWORK='off', GOFLAGS='-mod=mod', GOPROXY='off')
    env.pop('GOSUMDB', None)
    out = os.path.join(WORK, 'harness_race')
    p = subprocess.run(['go', 'build', '-race', '-tags', 'verif', '-o', out, '.'], cwd=os.path.join(ROOT, 'harness'), env=env,
                       stdout=subprocess.PIPE, stderr=subprocess.STDOUT, text=True, timeout=1800)
    if p.returncode:   # without the repository's hooks (see build_all)
        p = subprocess.run(['go', 'build', '-race', '-o', out, '.'], cwd=os.path.join(ROOT, 'harness'), env=env,
                           stdout=subprocess.PIPE, stderr=subprocess.STDOUT, text=True, timeout=1800)
    if p.returncode:
        log.write('--- race build failed\n' + p.stdout[-2000:])
        return None, 0
    g = subprocess.run([os.path.join(ROOT, 'bin', 'harness'), 'gen', 'c11', str(seed), '40'], stdout=subprocess.PIPE, text=True, timeout=600)
    r = subprocess.run([out, 'exec'], input=g.stdout, env=dict(os.environ, GORACE='halt_on_error=1 exitcode=66'),
                       stdout=subprocess.PIPE, stderr=subprocess.PIPE, text=True, timeout=3600)
    log.write('--- race run rc=%d\n%s' % (r.returncode, r.stderr[-4000:]))
    if 'DATA RACE' in r.stderr:
        return r.stderr[:6000], g.stdout.count('\n')
    return '', g.stdout.count('\n')


def path_profiles(seed, tier, log):
    """C09, dynamic side: the library is built with Go's block counters (-cover -covermode=count) and each validation
    entry point is run, one process per call, on wrong codes of the right length that agree with the expected code in
    their first k characters, k = 0 .. length-1.  The vector of block execution counts of the library must be the same
    for every k: a rejection that takes another path (fewer loop iterations, an early return) for a longer correct
    prefix shows up as a block whose count varies with k.  Returns (violations, stats)."""
    import shutil, tempfile
    env = dict(os.environ, GOWORK='off', GOFLAGS='-mod=mod', GOPROXY='off')
    env.pop('GOSUMDB', None)
    hdir = os.path.join(ROOT, 'harness')
    binp = os.path.join(WORK, 'harness_cover')
    base = ['go', 'build', '-cover', '-covermode=count', '-coverpkg=github.com/ja7ad/otp/...,./...']
    p = subprocess.run(base + ['-tags', 'verif', '-o', binp, '.'], cwd=hdir, env=env, stdout=subprocess.PIPE, stderr=subprocess.STDOUT, text=True, timeout=1800)
    if p.returncode:
        p = subprocess.run(base + ['-o', binp, '.'], cwd=hdir, env=env, stdout=subprocess.PIPE, stderr=subprocess.STDOUT, text=True, timeout=1800)
    if p.returncode:
        log.write('--- cover build failed\n' + p.stdout[-2000:])
        return None, {}
    harness = os.path.join(ROOT, 'bin', 'harness')
    def impl(lines):
        r = subprocess.run([harness, 'exec'], input='\n'.join(lines) + '\n', stdout=subprocess.PIPE, text=True, timeout=600)
        return r.stdout.split('\n')[:-1]
    # scenarios: generation cases of the ordinary streams that succeed, one per (operation, code length)
    gens = []
    for stream, n in (('c01', 300), ('c02', 300), ('c05', 300)):
        g = subprocess.run([harness, 'gen', stream, str(seed), str(n)], stdout=subprocess.PIPE, text=True, timeout=600)
        gens += [l for l in g.stdout.split('\n') if l.split(' ')[0] in ('ghotp', 'gtotp', 'gocra')]
    outs = impl(gens)
    scen, seen = [], {}
    for c, o in zip(gens, outs):
        if not o.startswith('ok:'):
            continue
        code = bytes.fromhex(o[3:]).decode('latin1')
        f = c.split(' ')
        key = (f[0], len(code))
        if seen.get(key, 0) >= (2 if tier == 'quick' else 6) or not code.isdigit():
            continue
        seen[key] = seen.get(key, 0) + 1
        if f[0] == 'ghotp':
            tmpl = 'vhotp %s %%s %s %s' % (f[1], f[2], f[3])
        elif f[0] == 'gtotp':
            tmpl = 'vtotp %s %%s %s %s' % (f[1], f[2], f[3])
        else:
            tmpl = 'vocra %s %%s %s %s' % (f[1], f[2], f[3])
        scen.append((tmpl, code))
    tmp = tempfile.mkdtemp(prefix='c09prof', dir=WORK)
    viol, runs, wruns = [], 0, 0
    def profile(case):
        d = tempfile.mkdtemp(dir=tmp)
        # no collection during the run: a collector emptying a sync.Pool would make its New function run again
        r = subprocess.run([binp, 'exec'], input=case + '\n', env=dict(os.environ, GOCOVERDIR=d, GOGC='off'), stdout=subprocess.PIPE, text=True, timeout=120)
        txt = os.path.join(d, 'p.txt')
        subprocess.run(['go', 'tool', 'covdata', 'textfmt', '-i=' + d, '-o=' + txt], env=env, stdout=subprocess.PIPE, stderr=subprocess.STDOUT, timeout=120)
        prof = {}
        if os.path.exists(txt):
            for line in open(txt):
                if line.startswith('github.com/ja7ad/otp/'):
                    loc, _, cnt = line.rsplit(' ', 2)
                    prof[loc] = prof.get(loc, 0) + int(cnt)
        shutil.rmtree(d, ignore_errors=True)
        return r.stdout.strip(), prof
    try:
        for tmpl, code in scen:
            hexs = lambda t: 'x' + t.encode('latin1').hex()
            ref = None
            for variant in ('one', 'rest'):
                for k in range(len(code)):
                    wrong = str((int(code[k]) + 1) % 10)
                    if variant == 'one':
                        sub = code[:k] + wrong + code[k + 1:]
                    else:
                        sub = code[:k] + ''.join(str((int(ch) + 1) % 10) for ch in code[k:])
                    case = tmpl % hexs(sub)
                    out, prof = profile(case)
                    runs += 1
                    if not prof:
                        continue
                    if out.startswith('v:true'):
                        continue   # (a neighbour's code in the window happens to be this string)
                    if ref is None:
                        ref = (case, prof)
                        continue
                    if prof != ref[1]:
                        diff = sorted(l for l in set(prof) | set(ref[1]) if prof.get(l, 0) != ref[1].get(l, 0))
                        viol.append({'case': case, 'impl': 'block counts differ from those of %s at %s' % (ref[0], ', '.join('%s (%d vs %d)' % (l, prof.get(l, 0), ref[1].get(l, 0)) for l in diff[:4])),
                                     'model': 'the same blocks run the same number of times whatever prefix of the code is right', 'spec': '-',
                                     'kind': 'rejection path depends on the length of the correct prefix (block execution counts)', 'pair': [ref[0], case]})
                        break
                if viol and viol[-1].get('pair', [None])[0] == (ref or [None])[0]:
                    break
            # sanity of the instrument: the accepting run must differ from the rejecting ones
            if ref is not None:
                out, prof = profile(tmpl % hexs(code))
                runs += 1
                if out.startswith('v:true') and prof == ref[1]:
                    viol.append({'case': tmpl % hexs(code), 'kind': 'the block counters do not distinguish acceptance from rejection (instrument broken)', 'no_input': True})
        # the js/wasm build has its own validator (validate_wasm.go): the same experiment under node, with a small program
        # built for GOOS=js GOARCH=wasm with the same block counters (tools/wasmprof)
        wviol, wruns = wasm_profiles(tier, tmp, log)
        viol += wviol
        runs += wruns
    finally:
        shutil.rmtree(tmp, ignore_errors=True)
    return viol, {'path_profile_scenarios': len(scen), 'path_profile_runs': runs, 'path_profile_runs_wasm': wruns}


def wasm_profiler(tmp, log):
    """build tools/wasmprof for js/wasm with block counters; returns (profile function, None) or (None, violation)"""
    import shutil, tempfile
    repo = os.environ.get('VERIF_REPO', '/repo')
    wd = os.path.join(WORK, 'wasmprof')
    shutil.rmtree(wd, ignore_errors=True)
    os.makedirs(wd)
    shutil.copy(os.path.join(ROOT, 'tools', 'wasmprof', 'main.go'), wd)
    with open(os.path.join(wd, 'go.mod'), 'w') as f:
        f.write('module verif/wasmprof\n\ngo 1.24\n\nrequire github.com/ja7ad/otp v0.0.0\n\nreplace github.com/ja7ad/otp => %s\n' % repo)
    if os.path.exists(os.path.join(repo, 'go.sum')):
        shutil.copy(os.path.join(repo, 'go.sum'), wd)
    env = dict(os.environ, GOWORK='off', GOFLAGS='-mod=mod', GOPROXY='off', GOOS='js', GOARCH='wasm')
    env.pop('GOSUMDB', None)
    wasm = os.path.join(wd, 'wasmprof.wasm')
    p = subprocess.run(['go', 'build', '-cover', '-covermode=count', '-coverpkg=github.com/ja7ad/otp/...,./...', '-o', wasm, '.'], cwd=wd, env=env,
                       stdout=subprocess.PIPE, stderr=subprocess.STDOUT, text=True, timeout=1800)
    if p.returncode:
        log.write('--- wasmprof build failed\n' + p.stdout[-1500:])
        return None, {'case': '(js/wasm path profile)', 'kind': 'the js/wasm profiling program does not build against this tree: ' + p.stdout.strip()[-300:], 'no_input': True}
    goroot = subprocess.run(['go', 'env', 'GOROOT'], cwd=wd, env=env, stdout=subprocess.PIPE, text=True).stdout.strip()
    execjs = os.path.join(goroot, 'lib', 'wasm', 'wasm_exec_node.js')
    if not os.path.exists(execjs):
        execjs = os.path.join(goroot, 'misc', 'wasm', 'wasm_exec_node.js')
    if not os.path.exists(execjs):
        return None, {'case': '(js/wasm path profile)', 'kind': 'wasm_exec_node.js not found under ' + goroot, 'no_input': True}
    henv = dict(os.environ, GOWORK='off', GOFLAGS='-mod=mod', GOPROXY='off')
    def profile(args):
        d = tempfile.mkdtemp(dir=tmp)
        r = subprocess.run(['node', execjs, wasm] + args, env=dict(os.environ, GOCOVERDIR=d, GOGC='off'), stdout=subprocess.PIPE, stderr=subprocess.STDOUT, text=True, timeout=120)
        txt = os.path.join(d, 'p.txt')
        subprocess.run(['go', 'tool', 'covdata', 'textfmt', '-i=' + d, '-o=' + txt], env=henv, stdout=subprocess.PIPE, stderr=subprocess.STDOUT, timeout=120)
        prof = {}
        if os.path.exists(txt):
            for line in open(txt):
                if line.startswith('github.com/ja7ad/otp/'):
                    loc, _, cnt = line.rsplit(' ', 2)
                    prof[loc] = prof.get(loc, 0) + int(cnt)
        shutil.rmtree(d, ignore_errors=True)
        return r.stdout.strip(), prof
    return profile, None


def wasm_profiles(tier, tmp, log):
    profile, bad = wasm_profiler(tmp, log)
    if profile is None:
        return [bad], 0
    key = '3132333435363738393031323334353637383930'
    viol, runs = [], 0
    for digits, algo, counter in ([(6, 0, 1), (8, 1, 7)] if tier == 'quick' else [(6, 0, 1), (8, 1, 7), (7, 2, 12345), (9, 0, 2 ** 40), (10, 1, 3)]):
        out, _ = profile([key, '-', str(counter), str(digits), str(algo)])
        runs += 1
        code = out.split(' ')[0]
        if len(code) != digits or not code.isdigit():
            continue
        ref = None
        stop = False
        for variant in ('one', 'rest'):
            for k in range(len(code)):
                wrong = str((int(code[k]) + 1) % 10)
                sub = code[:k] + wrong + code[k + 1:] if variant == 'one' else code[:k] + ''.join(str((int(ch) + 1) % 10) for ch in code[k:])
                args = [key, sub, str(counter), str(digits), str(algo)]
                out, prof = profile(args)
                runs += 1
                if not prof or out.startswith('true'):
                    continue
                if ref is None:
                    ref = (args, prof)
                    continue
                if prof != ref[1]:
                    diff = sorted(l for l in set(prof) | set(ref[1]) if prof.get(l, 0) != ref[1].get(l, 0))
                    viol.append({'case': 'js/wasm ValidateOTPWasm ' + ' '.join(args), 'impl': 'block counts differ from those of %s at %s' % (' '.join(ref[0]), ', '.join('%s (%d vs %d)' % (l, prof.get(l, 0), ref[1].get(l, 0)) for l in diff[:4])),
                                 'model': 'the same blocks run the same number of times whatever prefix of the code is right', 'spec': '-',
                                 'kind': 'rejection path depends on the length of the correct prefix (block execution counts, js/wasm build)', 'wpair': [ref[0], args]})
                    stop = True
                    break
            if stop:
                break
        if ref is not None and not stop:
            out, prof = profile([key, code, str(counter), str(digits), str(algo)])
            runs += 1
            if out.startswith('true') and prof == ref[1]:
                viol.append({'case': 'js/wasm ValidateOTPWasm accepting run', 'kind': 'the block counters do not distinguish acceptance from rejection (instrument broken, js/wasm)', 'no_input': True})
    return viol, runs


def replay_pair(pair, log):
    """re-run the two cases of a path-profile violation and compare their block counts"""
    import shutil, tempfile
    env = dict(os.environ, GOWORK='off', GOFLAGS='-mod=mod', GOPROXY='off')
    env.pop('GOSUMDB', None)
    binp = os.path.join(WORK, 'harness_cover')
    base = ['go', 'build', '-cover', '-covermode=count', '-coverpkg=github.com/ja7ad/otp/...,./...']
    hdir = os.path.join(ROOT, 'harness')
    p = subprocess.run(base + ['-tags', 'verif', '-o', binp, '.'], cwd=hdir, env=env, stdout=subprocess.PIPE, stderr=subprocess.STDOUT, text=True, timeout=1800)
    if p.returncode:
        p = subprocess.run(base + ['-o', binp, '.'], cwd=hdir, env=env, stdout=subprocess.PIPE, stderr=subprocess.STDOUT, text=True, timeout=1800)
    if p.returncode:
        print('the harness could not be built with block counters')
        return 1
    profs = []
    for case in pair:
        d = tempfile.mkdtemp(prefix='c09replay', dir=WORK)
        subprocess.run([binp, 'exec'], input=case + '\n', env=dict(os.environ, GOCOVERDIR=d, GOGC='off'), stdout=subprocess.PIPE, text=True, timeout=120)
        txt = os.path.join(d, 'p.txt')
        subprocess.run(['go', 'tool', 'covdata', 'textfmt', '-i=' + d, '-o=' + txt], env=env, stdout=subprocess.PIPE, stderr=subprocess.STDOUT, timeout=120)
        prof = {}
        if os.path.exists(txt):
            for line in open(txt):
                if line.startswith('github.com/ja7ad/otp/'):
                    loc, _, cnt = line.rsplit(' ', 2)
                    prof[loc] = prof.get(loc, 0) + int(cnt)
        shutil.rmtree(d, ignore_errors=True)
        profs.append(prof)
    diff = sorted(l for l in set(profs[0]) | set(profs[1]) if profs[0].get(l, 0) != profs[1].get(l, 0))
    for c in pair:
        print('case :', c)
    for l in diff[:10]:
        print('  %s runs %d times for the first, %d times for the second' % (l, profs[0].get(l, 0), profs[1].get(l, 0)))
    return 1 if diff else 0


def extra_engines(pid, tier, seed, log, build_state):
    if pid in ('C11', 'C12'):
        nat, wasm, sizes = mem_sites(log)
        out = {'violations': [], 'coverage': {}, 'samples': []}
        if nat is None or wasm is None:
            out['violations'].append({'case': '', 'kind': 'the SSA memory facts could not be analysed (Generated/Ssa*.v, Model/Flow.v)', 'no_input': True})
            return out
        for build, sites in (('native', nat), ('js/wasm', wasm)):
            for s_ in sites:
                out['violations'].append({'case': '(memory discipline, %s build) %s' % (build, s_),
                                          'impl': 'writes caller / package memory, lets a pooled buffer escape, or returns a buffer to the pool before the call ends',
                                          'model': 'no such site', 'spec': '-', 'kind': 'memory-discipline site in the regenerated SSA facts', 'no_input': True})
        if len(sizes) >= 6:
            out['coverage'] = {'alias_edges_native': sizes[0], 'write_sites_native': sizes[1], 'alias_edges_wasm': sizes[2], 'write_sites_wasm': sizes[3],
                               'exported_reference_parameters': sizes[4], 'package_variables': sizes[5]}
            out['evaluations'] = sizes[1] + sizes[3]
            out['samples'] = [{'write_sites_native': sizes[1], 'write_sites_wasm': sizes[3]}]
        if pid == 'C11' and tier == 'thorough':
            report, n = race_run(seed, log)
            out['coverage']['race_detector_histories'] = n
            if report is None:
                out['violations'].append({'case': '', 'kind': 'the harness could not be built with the race detector', 'no_input': True})
            elif report:
                out['violations'].append({'case': '(race detector) ' + report.split('\n')[1][:200] if '\n' in report else report[:200], 'impl': report, 'model': 'no data race',
                                          'spec': '-', 'kind': 'data race reported by the Go race detector', 'no_input': True})
        return out
    if pid != 'C09':
        return {}
    nat, wasm, sizes = flow_sites(log)
    out = {'violations': [], 'coverage': {}, 'samples': []}
    if nat is None or wasm is None:
        out['violations'].append({'case': '', 'kind': 'the SSA fact bases could not be analysed (Generated/SsaNative.v, SsaWasm.v, Model/Flow.v)', 'no_input': True})
        return out
    for build, sites in (('native', nat), ('js/wasm', wasm)):
        for s_ in sites:
            out['violations'].append({'case': '(flow, %s build) %s' % (build, s_), 'impl': 'HMAC-derived and caller-derived data meet here outside a constant-time comparison',
                                      'model': 'no leak site', 'spec': '-', 'kind': 'leak site in the regenerated SSA facts', 'no_input': True})
    if len(sizes) >= 6:
        out['coverage'] = {'ssa_native_edges': sizes[0], 'ssa_native_comparisons': sizes[1], 'ssa_wasm_edges': sizes[2], 'ssa_wasm_comparisons': sizes[3],
                           'hmac_derived_values_native': sizes[4], 'caller_derived_values_native': sizes[5], 'exhaustive': True}
        out['evaluations'] = sizes[1] + sizes[3]
        out['distinct_nontrivial'] = sizes[4]
        out['rule'] = ' | C09: every comparison and every call leaving the analysed packages in both SSA fact bases is examined (exhaustive over the program text); non-trivial = HMAC-derived values reached'
        out['samples'] = [{'native_edges': sizes[0], 'native_comparisons': sizes[1], 'wasm_edges': sizes[2], 'wasm_comparisons': sizes[3]}]
    out['exhaustive'] = True
    if build_state.get('harness_ok'):
        pv, pstats = path_profiles(seed, tier, log)
        if pv is None:
            out['coverage']['path_profile'] = 'the harness could not be built with block counters'
        else:
            out['violations'] += pv
            out['coverage'].update(pstats)
            out['evaluations'] = out.get('evaluations', 0) + pstats.get('path_profile_runs', 0)
            out['rule'] = out.get('rule', '') + ' | dynamic: block execution counts of the library (go build -cover, count mode) for wrong codes agreeing with the expected code in their first k characters must not depend on k'
    return out


def replay_wpair(pair, log):
    """re-run the two calls of a js/wasm path-profile violation and compare their block counts"""
    import shutil, tempfile
    tmp = tempfile.mkdtemp(prefix='c09wreplay', dir=WORK)
    try:
        profile, bad = wasm_profiler(tmp, log)
        if profile is None:
            print(bad['kind'])
            return 1
        profs = [profile(a)[1] for a in pair]
    finally:
        shutil.rmtree(tmp, ignore_errors=True)
    diff = sorted(l for l in set(profs[0]) | set(profs[1]) if profs[0].get(l, 0) != profs[1].get(l, 0))
    for a in pair:
        print('call :', ' '.join(a))
    for l in diff[:10]:
        print('  %s: %d vs %d' % (l, profs[0].get(l, 0), profs[1].get(l, 0)))
    return 1 if diff else 0
