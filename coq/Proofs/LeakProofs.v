(** No error of a generation or validation operation carries text (C13, disclosure clause).
    Errors are structured values; [textless e] says that an error has no string argument at all:
    it is a sentinel, a base32 offset error (a position), or a message whose only arguments are
    numbers (lengths, enum values, positions).  Neither the secret (text or raw bytes) nor the
    expected code — both strings — can then occur in its rendering other than by coincidence with
    the fixed message text; the harness's scan of the real error strings covers that. *)
From Coq Require Import String ZifyN ZifyNat ZifyBool.
From OtpV Require Import Prelude Sha Tables Errors Decoder Derive Otp Ocra.
Open Scope N_scope.

Definition textless (e : err) : Prop :=
  match e with
  | ESent _ | EBase32 _ => True
  | EFmt _ _ strs | EStd _ strs => strs = []
  end.

Lemma decode_secret_textless s e : decode_secret s = Err e -> textless e.
Proof.
  unfold decode_secret. destruct (first_bad 0%Z (trim_space s)); [intros H; inversion H; exact I|].
  destruct (b32_decode_string _) as [bs [off|]]; intros H; inversion H; exact I.
Qed.

Section WithHmac.
  Variable hm : alg -> bytes -> bytes -> bytes.

  Lemma derive_rfc4226_textless key c d algo e : derive_rfc4226_with hm key c d algo = Err e -> textless e.
  Proof.
    unfold derive_rfc4226_with. destruct (n_hmac_pools <=? algo); [intros H; inversion H; exact I|].
    destruct (_ || _); [intros H; inversion H; exact I|].
    destruct (alg_of_N algo); [|discriminate].
    unfold mod10_at. destruct (d <? 0)%Z; [discriminate|]. destruct (nth_error mod10 (Z.to_nat d)); [|discriminate]. cbn [obind].
    destruct (truncate _ _) as [otp|e'|] eqn:Et; cbn [obind]; try discriminate.
    - destruct (d <=? 8)%Z; [unfold short_digit|unfold long_digit]; repeat match goal with |- context [if ?b then _ else _] => destruct b end; discriminate.
    - exfalso. unfold truncate in Et. destruct (hm a key (put_uint64 c)); [discriminate|].
      repeat match type of Et with context [match ?x with Some _ => _ | None => _ end] => destruct x end; try discriminate.
      destruct (n =? 0); discriminate.
  Qed.

  Lemma suite_validate_textless cfg e : suite_validate cfg = Some e -> textless e.
  Proof.
    unfold suite_validate. repeat match goal with |- context [if ?b then _ else _] => destruct b end;
      intros H; inversion H; reflexivity.
  Qed.
  Lemma input_validate_textless cfg i e : input_validate cfg i = Some e -> textless e.
  Proof.
    unfold input_validate. repeat match goal with |- context [if ?b then _ else _] => destruct b end;
      intros H; inversion H; reflexivity.
  Qed.

  Lemma derive_rfc6287_textless key cfg i e : derive_rfc6287_with hm key cfg i = Err e -> textless e.
  Proof.
    unfold derive_rfc6287_with.
    destruct (suite_validate cfg) as [e1|] eqn:E1; [intros H; inversion H; subst; apply (suite_validate_textless cfg); exact E1|].
    destruct (input_validate cfg i) as [e2|] eqn:E2; [intros H; inversion H; subst; apply (input_validate_textless cfg i); exact E2|].
    destruct (ocra_message cfg i) as [msg|e3|] eqn:E3; cbn [obind]; try discriminate.
    - destruct (alg_of_N (sc_hash cfg)); [|discriminate].
      unfold mod10_at. destruct (sc_digits cfg <? 0)%Z; [discriminate|]. destruct (nth_error mod10 _); [|discriminate]. cbn [obind].
      destruct (truncate _ _) as [otp|e'|] eqn:Et; cbn [obind]; try discriminate.
      + unfold format_decimal, long_digit. destruct (_ <? 0)%Z; discriminate.
      + exfalso. unfold truncate in Et. destruct (hm a key msg); [discriminate|].
        repeat match type of Et with context [match ?x with Some _ => _ | None => _ end] => destruct x end; try discriminate.
        destruct (n =? 0); discriminate.
    - exfalso. revert E3. unfold ocra_message, pad_bytes.
      repeat match goal with
             | |- context [if ?b then _ else _] => destruct b
             end; cbn [obind]; discriminate.
  Qed.

  Theorem generate_hotp_textless secret c p e : generate_hotp_with hm secret c p = Err e -> textless e.
  Proof.
    unfold generate_hotp_with. destruct (decode_secret secret) as [key|e1|] eqn:E; cbn [obind]; try discriminate.
    - apply derive_rfc4226_textless.
    - intros H. inversion H; subst. apply (decode_secret_textless secret). exact E.
  Qed.
  Theorem generate_totp_textless secret t p e : generate_totp_with hm secret t p = Err e -> textless e.
  Proof.
    unfold generate_totp_with. destruct (decode_secret secret) as [key|e1|] eqn:E; cbn [obind]; try discriminate.
    - unfold time_counter. destruct (_ =? 0); cbn [obind]; [discriminate|]. apply derive_rfc4226_textless.
    - intros H. inversion H; subst. apply (decode_secret_textless secret). exact E.
  Qed.
  Theorem generate_ocra_textless secret cfg i e : generate_ocra_with hm secret cfg i = Err e -> textless e.
  Proof.
    unfold generate_ocra_with. destruct (decode_secret secret) as [key|e1|] eqn:E; cbn [obind]; try discriminate.
    - apply derive_rfc6287_textless.
    - intros H. inversion H; subst. apply (decode_secret_textless secret). exact E.
  Qed.

  (** one validation step: whatever it rejects with is textless *)
  Lemma validate_textless code explen f e k :
    (forall e', f tt = Err e' -> textless e') -> validate code explen f = (Ok (false, Some e), k) -> textless e.
  Proof.
    intros Hf. unfold validate. destruct (negb _); [intros H; inversion H; exact I|].
    destruct (f tt) as [x|e'|] eqn:Ef; [|intros H; inversion H; subst; apply Hf; reflexivity|discriminate].
    destruct (bytes_eqb code x); intros H; inversion H; exact I.
  Qed.

  Lemma hotp_loop_textless offs : forall code key counter d algo cost e k,
    hotp_loop hm offs code key counter d algo cost = (Ok (false, Some e), k) -> textless e.
  Proof.
    induction offs as [|i rest IH]; intros code key counter d algo cost e k; cbn [hotp_loop].
    - intros H. inversion H. exact I.
    - destruct (_ && _); [apply IH|].
      destruct (validate_rfc4226 hm code key _ d algo) as [[[[|] [e'|]]|e'|] k'] eqn:Ev; try apply IH; try discriminate.
  Qed.
  Lemma totp_loop_textless offs : forall code key counter d algo cost e k,
    totp_loop hm offs code key counter d algo cost = (Ok (false, Some e), k) -> textless e.
  Proof.
    induction offs as [|i rest IH]; intros code key counter d algo cost e k; cbn [totp_loop].
    - intros H. inversion H. exact I.
    - destruct (validate_rfc4226 hm code key _ d algo) as [[[[|] [e'|]]|e'|] k'] eqn:Ev; try apply IH; try discriminate.
  Qed.

  Theorem validate_hotp_textless secret code c p e k :
    validate_hotp_with hm secret code c p = (Ok (false, Some e), k) -> textless e.
  Proof.
    unfold validate_hotp_with. destruct (skew_refused _ _); [intros H; inversion H; exact I|].
    destruct (decode_secret secret) as [key|e1|] eqn:E; [apply hotp_loop_textless| |discriminate].
    intros H. inversion H; subst. apply (decode_secret_textless secret). exact E.
  Qed.
  Theorem validate_totp_textless secret code t p e k :
    validate_totp_with hm secret code t p = (Ok (false, Some e), k) -> textless e.
  Proof.
    unfold validate_totp_with. destruct (skew_refused _ _); [intros H; inversion H; exact I|].
    destruct (decode_secret secret) as [key|e1|] eqn:E; [| |discriminate].
    - unfold time_counter. destruct (_ =? 0); [discriminate|]. apply totp_loop_textless.
    - intros H. inversion H; subst. apply (decode_secret_textless secret). exact E.
  Qed.
  Theorem validate_ocra_textless secret code cfg i e k :
    validate_ocra_with hm secret code cfg i = (Ok (false, Some e), k) -> textless e.
  Proof.
    unfold validate_ocra_with. destruct (decode_secret secret) as [key|e1|] eqn:E; [| |discriminate].
    - apply validate_textless. intros e'. apply derive_rfc6287_textless.
    - intros H. inversion H; subst. apply (decode_secret_textless secret). exact E.
  Qed.
End WithHmac.

(** what a textless error can render to: the fixed message texts with decimal numbers in them *)
Lemma render_textless_fmt tag nums : exists t, render (EFmt tag nums []) = t.
Proof. eexists; reflexivity. Qed.
