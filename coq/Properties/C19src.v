(** C19 over the Go source: whatever the request is, the router as translated from internal/app/api/routers.go
    (Generated/SrcRest.v) — with fuel 22 plus the length of the longest string of the body, whatever skew, period,
    counter or timestamp the request carries — either leaves a complete answer in the context, whose status is one of
    200, 302, 400, 404, 405, 500 and is 200 exactly for a success body, or panics, and it panics only where the model
    has the Recovery middleware answer 500 (a suite string that MustRawSuite refuses).  It never runs out of fuel: the
    work is bounded by the fuel, which no numeric field of the request enters.  (The two endpoints whose payload the
    model does not hold, /otp/secret and /, are in Properties/C18src.v.) *)
From Coq Require Import String.
From OtpV Require Import Prelude GoSem Errors Otp Suite Rest RestSem RestProofs RestPlain SrcRest SrcEqRest C19.
Open Scope N_scope.

Definition json_status (c : rctx) : Prop := status_ok (Z.to_N (cx_status c)) /\ (0 <= cx_status c)%Z.

Theorem C19src_every_request_is_answered : forall fuel jr j4 j6 c, rest_runs fuel c -> length j4 = 8%nat ->
  beqb (r_path (cx_req c)) (s2b "/otp/secret") = false -> beqb (r_path (cx_req c)) (s2b "/") = false ->
  (exists c', SrcRest.routers fuel jr j4 j6 c = Val c' /\ json_status c' /\ cx_req c' = cx_req c /\
              (cx_status c' = 200%Z <-> success_payload (pay (fst (handle (cx_now c) (cx_req c)))))) \/
  (SrcRest.routers fuel jr j4 j6 c = Pnc /\ is_recovered (fst (handle (cx_now c) (cx_req c))) = true).
Proof.
  intros fuel jr j4 j6 c Hr Hj Hs Hh. rewrite (src_routers_eq fuel jr j4 j6 c Hr Hj Hs Hh).
  pose proof (handle_good (cx_now c) (cx_req c)) as [Hst [Hsucc _]].
  pose proof (handle_plain (cx_now c) (cx_req c) Hs Hh) as Hpl. unfold plain in Hpl.
  set (x := handle (cx_now c) (cx_req c)) in *. unfold lift_rest.
  destruct (is_recovered (fst x)) eqn:Er; [right; split; reflexivity|]. left.
  assert (Hz : forall s : N, status_ok s -> status_ok (Z.to_N (Z.of_N s)) /\ (0 <= Z.of_N s)%Z)
    by (intros s H; rewrite N2Z.id; split; [exact H|apply N2Z.is_nonneg]).
  assert (H200 : forall s : N, Z.of_N s = 200%Z <-> s = 200) by (intros s; split; intros H; [apply N2Z.inj; exact H | subst; reflexivity]).
  destruct (pay_json (Z.of_N (status (fst x))) (pay (fst x))) as [j|] eqn:Ej.
  - eexists. split; [reflexivity|]. unfold answer, json_status. cbn [cx_status cx_req]. split; [apply Hz; exact Hst|]. split; [reflexivity|].
    rewrite H200. exact Hsucc.
  - destruct (pay (fst x)) eqn:Ep; try discriminate Ej; try contradiction;
      (eexists; split; [reflexivity|]; unfold json_status; cbn [cx_status cx_req]; split; [apply Hz; exact Hst|]; split; [reflexivity|];
       rewrite H200; try rewrite Ep in Hsucc; exact Hsucc).
Qed.
Print Assumptions C19src_every_request_is_answered.

(** a body that is not a JSON object is answered 400 by every POST endpoint of the translated service *)
Theorem C19src_malformed_body : forall fuel jr j4 j6 c path b, (22 <= fuel)%nat -> length j4 = 8%nat -> (b = BMalformed \/ b = BNonObject) ->
  In path ["/totp/generate"; "/totp/validate"; "/hotp/generate"; "/hotp/validate"; "/ocra/generate"; "/ocra/validate"; "/ocra/suite"; "/otp/url"]%string ->
  cx_req c = mkReq (s2b "POST") (s2b path) [] b ->
  SrcRest.routers fuel jr j4 j6 c = Val (answer c 400 (err_json 400 (s2b "failed to decode body"))).
Proof.
  intros fuel jr j4 j6 c path b Hf Hj Hb Hp Hc.
  assert (Hr : rest_runs fuel c) by (split; [exact Hf|]; unfold ctx_body; rewrite Hc; destruct Hb as [-> | ->]; exact I).
  rewrite (src_routers_eq fuel jr j4 j6 c Hr Hj).
  - rewrite Hc. rewrite (C19_malformed_body (cx_now c) path b Hb Hp). reflexivity.
  - rewrite Hc. cbn [r_path]. cbn [In] in Hp. repeat (destruct Hp as [<-|Hp]; [reflexivity|]). contradiction.
  - rewrite Hc. cbn [r_path]. cbn [In] in Hp. repeat (destruct Hp as [<-|Hp]; [reflexivity|]). contradiction.
Qed.
Print Assumptions C19src_malformed_body.
