(** Model of derive.go and derive_rfc4226.go: truncate, shortDigit, longDigit, formatDecimal,
    padBytes, deriveRFC4226.  Same loops, same tables (the table itself is regenerated from
    derive.go on every run, see Generated/Tables.v), explicit [Panic] wherever Go can panic. *)
From OtpV Require Import Prelude Sha Tables.
Open Scope N_scope.

Definition alg_of_N (a : N) : option alg :=
  match a with 0 => Some SHA1 | 1 => Some SHA256 | 2 => Some SHA512 | _ => None end.
Definition N_of_alg (a : alg) : N := match a with SHA1 => 0 | SHA256 => 1 | SHA512 => 2 end.

(** mod10[digits] with Go's bounds check *)
Definition mod10_at (digits : Z) : outcome N :=
  if (digits <? 0)%Z then Panic
  else match nth_error mod10 (Z.to_nat digits) with
       | Some m => Ok m
       | None => Panic
       end.

(** func truncate(sum []byte, mod uint64) uint32 *)
Definition truncate (sum : bytes) (md : N) : outcome N :=
  match sum with
  | [] => Panic                                              (* sum[len(sum)-1] *)
  | _ =>
    let offset := N.to_nat (N.land (last sum 0) mask_offset) in
    match nth_error sum offset, nth_error sum (offset + 1), nth_error sum (offset + 2), nth_error sum (offset + 3) with
    | Some b0, Some b1, Some b2, Some b3 =>
      let bin := N.lor (N.lor (N.lor (wrap32 (N.shiftl b0 24)) (wrap32 (N.shiftl b1 16)))
                              (wrap32 (N.shiftl b2 8))) b3 in
      let code := N.land bin mask31 in
      if md =? 0 then Panic                                  (* integer divide by zero *)
      else Ok (wrap32 (code mod md))
    | _, _, _, _ => Panic                                    (* index out of range *)
    end
  end.

(** [for i := k-1; i >= 0; i-- { out[i] = '0' + byte(v%10); v /= 10 }] *)
Fixpoint write_digits (k : nat) (out : bytes) (v : N) : bytes :=
  match k with
  | O => out
  | S i => write_digits i (upd i (wrap8 (48 + v mod 10)) out) (v / 10)
  end.

(** [for ; i >= 0; i-- { pad[i] = '0' }] with i = k-1 *)
Fixpoint zero_fill (k : nat) (pad : bytes) : bytes :=
  match k with
  | O => pad
  | S i => zero_fill i (upd i 48 pad)
  end.

(** [for otp > 0 && i >= 0 { pad[i] = '0' + byte(otp%10); otp /= 10; i-- }] followed by the
    zero-fill loop; i = k-1 *)
Fixpoint short_loop (k : nat) (pad : bytes) (otp : N) : bytes :=
  match k with
  | O => pad
  | S i => if 0 <? otp then short_loop i (upd i (wrap8 (48 + otp mod 10)) pad) (otp / 10)
           else zero_fill (S i) pad
  end.

(** func shortDigit(otp uint32, digits int) string.
    pad is [8]byte: for digits > 8 the first executed store (pad[digits-1]) is out of range in
    either loop, for digits < 0 the slice expression pad[:digits] panics. *)
Definition short_digit (otp : N) (digits : Z) : outcome bytes :=
  if (digits <? 0)%Z || (8 <? digits)%Z then Panic
  else let d := Z.to_nat digits in
       Ok (firstn d (short_loop d (repeat 0 8) otp)).

(** func longDigit(otp uint32, digits int) string — make([]byte, digits) panics for digits < 0 *)
Definition long_digit (otp : N) (digits : Z) : outcome bytes :=
  if (digits <? 0)%Z then Panic
  else let d := Z.to_nat digits in Ok (write_digits d (repeat 0 d) otp).

(** func formatDecimal(val uint32, digits int) string — same loop *)
Definition format_decimal (val : N) (digits : Z) : outcome bytes := long_digit val digits.

(** func padBytes(input []byte, length int) []byte — value only (aliasing is treated in Mem.v) *)
Definition pad_bytes (input : bytes) (len : Z) : outcome bytes :=
  if (len <? 0)%Z then Panic
  else let n := Z.to_nat len in
       if Nat.leb n (length input) then Ok (firstn n input)
       else Ok (input ++ repeat 0 (n - length input)).

(** binary.BigEndian.PutUint64 *)
Definition put_uint64 (v : N) : bytes :=
  map (fun i => N.land (N.shiftr v (8 * N.of_nat i)) 255) [7; 6; 5; 4; 3; 2; 1; 0]%nat.

Section WithHmac.
  (** the HMAC is a parameter of the pipeline; it is instantiated with [Sha.hmac] below *)
  Variable hm : alg -> bytes -> bytes -> bytes.

  (** func deriveRFC4226(secret []byte, counter uint64, digits int, algo Algorithm) (string, error) *)
  Definition derive_rfc4226_with (secret : bytes) (counter : N) (digits : Z) (algo : N) : outcome bytes :=
    if n_hmac_pools <=? algo then Err (ESent ErrUnsupportedAlgorithm)
    else if (digits <? 1)%Z || (Z.of_nat (length mod10) <=? digits)%Z then Err (ESent ErrInvalidCodeLength)
    else
      match alg_of_N algo with
      | None => Panic                                        (* hmacPools[algo] out of range *)
      | Some a =>
        let sum := hm a secret (put_uint64 counter) in
        obind (mod10_at digits) (fun md =>
        obind (truncate sum md) (fun otp =>
        if (digits <=? 8)%Z then short_digit otp digits else long_digit otp digits))
      end.
End WithHmac.

Definition derive_rfc4226 := derive_rfc4226_with hmac.
