(** C14 over the Go source: SuiteConfig.Validate, OCRAInput.Validate and challengeLength as translated from
    suite_rfc6287.go and otp.go decide exactly the admission rules of the property. *)
From OtpV Require Import Prelude Sha GoSem Tables Decoder Derive Otp Ocra Rfc6287 Errors OcraProofs Src SrcLift SrcTop SrcEqOcraV C14.
Open Scope N_scope.

Theorem C14src_suite : forall cfg,
  Src.SuiteConfig_Validate cfg = Val None <->
  (4 <= sc_digits cfg <= 10)%Z /\ sc_hash cfg < 3 /\
  (sc_p cfg = true -> sc_pwhash cfg <> 0%Z) /\
  (sc_t cfg = true -> (0 < sc_timestep cfg)%Z) /\
  (sc_q cfg = true -> sc_challenge cfg <> 0%Z).
Proof.
  intros cfg. rewrite src_SuiteConfig_Validate_eq. rewrite <- C14_suite.
  split; intros H; [inversion H; reflexivity|rewrite H; reflexivity].
Qed.
Print Assumptions C14src_suite.

Theorem C14src_input : forall cfg i,
  (0 <= sc_challenge cfg <= 6)%Z /\ (sc_p cfg = true -> 1 <= sc_pwhash cfg <= 3)%Z ->
  (Src.OCRAInput_Validate i cfg = Val None <->
   (sc_c cfg = true -> zlen (oi_counter i) = 8%Z) /\
   (sc_q cfg = true -> (chal_min (sc_challenge cfg) <= zlen (oi_challenge i) <= 128)%Z) /\
   (sc_p cfg = true -> zlen (oi_password i) = pw_len (sc_pwhash cfg)) /\
   (sc_s cfg = true -> (zlen (oi_session i) <= 128)%Z) /\
   (sc_t cfg = true -> zlen (oi_timestamp i) = 8%Z)).
Proof.
  intros cfg i Hr. rewrite src_OCRAInput_Validate_eq. rewrite <- (C14_input cfg i Hr).
  split; intros H; [inversion H; reflexivity|rewrite H; reflexivity].
Qed.
Print Assumptions C14src_input.

(** both implementations of the Suite interface validate and report their configuration the same way *)
Theorem C14src_interface : forall r,
  Src.RawSuite_Validate r = Src.SuiteConfig_Validate r /\ Src.RawSuite_Config r = Src.SuiteConfig_Config r.
Proof. intros r. split; reflexivity. Qed.
Print Assumptions C14src_interface.

