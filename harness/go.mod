module verifharness

go 1.24

require github.com/ja7ad/otp v0.0.0

replace github.com/ja7ad/otp => /repo
