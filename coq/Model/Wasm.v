(** Model of the WebAssembly / JavaScript binding: wasm/main.go (the five callbacks registered as
    JavaScript globals, their argument checks), derive_rfc4226_wasm.go (DeriveRFC4226Wasm with its
    own modulus for ten digits, FormatUint + zero padding) and validate_wasm.go (ValidateOTPWasm).
    JavaScript values are modelled by their type and, for numbers, by what syscall/js Value.Int()
    returns for them under Node (truncation toward zero; NaN, the infinities and anything outside
    the int64 range give MinInt64 — observed, see DESIGN.md). *)
From Coq Require Import String.
From OtpV Require Import Prelude Sha Tables Errors Decoder Derive Otp Utils Suite Url.
Open Scope N_scope.

Inductive jsnum := NInt (z : Z) | NFrac (trunc : Z) | NNaN | NInf | NNegInf.
Inductive jsval :=
| JStr (s : bytes) | JNum (n : jsnum) | JBool (b : bool) | JUndef | JNull | JObj | JFunc | JSym | JBigInt.

Definition min_int64 : Z := (-9223372036854775808)%Z.
Definition in_int64 (z : Z) : bool := (min_int64 <=? z)%Z && (z <? 9223372036854775808)%Z.

(** func (v Value) Int() int *)
Definition js_int (n : jsnum) : Z :=
  match n with
  | NInt z | NFrac z => if in_int64 z then z else min_int64
  | _ => min_int64
  end.

(** func (t Type) String() string; [None]: Value.Type panics ("bad type flag") *)
Definition js_type_name (v : jsval) : option bytes :=
  match v with
  | JStr _ => Some (s2b "string") | JNum _ => Some (s2b "number") | JBool _ => Some (s2b "boolean")
  | JUndef => Some (s2b "undefined") | JNull => Some (s2b "null") | JObj => Some (s2b "object")
  | JFunc => Some (s2b "function") | JSym => Some (s2b "symbol") | JBigInt => None
  end.

(** results of the callbacks: a string, a boolean, or a Go panic caught by the guard *)
Inductive wres := WStr (s : bytes) | WBool (b : bool).
Inductive werror := WErr (text : bytes) | WPanic (text : bytes).
Definition wout (A : Type) : Type := (A + werror)%type.
Definition wbind {A B} (o : wout A) (f : A -> wout B) : wout B := match o with inl a => f a | inr e => inr e end.

(** func parseStringArg(arg js.Value, name string) (string, error) *)
Definition parse_string_arg (v : jsval) (name : bytes) : wout bytes :=
  match js_type_name v with
  | None => inr (WPanic (s2b "bad type flag"))
  | Some tn =>
    match v with
    | JStr [] => inr (WErr (name ++ s2b " cannot be empty"))
    | JStr s => inl s
    | _ => inr (WErr (name ++ s2b " must be a string, got " ++ tn))
    end
  end.

(** func parseIntArg(arg js.Value, name string) (int, error) *)
Definition parse_int_arg (v : jsval) (name : bytes) : wout Z :=
  match js_type_name v with
  | None => inr (WPanic (s2b "bad type flag"))
  | Some tn =>
    match v with
    | JNum n => let z := js_int n in
                if (z <? 0)%Z then inr (WErr (name ++ s2b " must be non-negative, got " ++ dec_of_Z z)) else inl z
    | _ => inr (WErr (name ++ s2b " must be a number, got " ++ tn))
    end
  end.

(** func pow10Wasm(n int) uint64 *)
Fixpoint pow10_wasm (n : nat) : N := match n with O => 1 | S k => wrap64 (pow10_wasm k * 10) end.

Definition alg_of_N3 (a : N) : option alg := alg_of_N a.

Section WithHmac.
  Variable hm : alg -> bytes -> bytes -> bytes.

  (** func DeriveRFC4226Wasm(secret []byte, counter uint64, digits int, algo Algorithm) (string, error) *)
  Definition derive_wasm_with (secret : bytes) (counter : N) (digits : Z) (algo : N) : outcome bytes :=
    match alg_of_N algo with
    | None => Err (ESent ErrUnsupportedAlgorithm)
    | Some a =>
      if (digits <? 1)%Z || (10 <? digits)%Z then Err (ESent ErrInvalidCodeLength)
      else
        let sum := hm a secret (put_uint64 counter) in
        obind (if (1 <=? digits)%Z && (digits <=? 9)%Z then mod10_at digits else Ok (pow10_wasm (Z.to_nat digits))) (fun md =>
        obind (truncate sum md) (fun code =>
          let s := dec_of_N code in
          Ok (repeat 48 (Z.to_nat digits - length s) ++ s)))
    end.

  (** func ValidateOTPWasm(code string, secret []byte, counter uint64, digits Digits, algo Algorithm) (bool, error) *)
  Definition validate_otp_wasm_with (code secret : bytes) (counter digits algo : N) : outcome verdict :=
    if negb (zlen code =? Z.of_N digits)%Z then Ok (false, Some (ESent ErrInvalidCodeLength))
    else match derive_wasm_with secret counter (Z.of_N digits) algo with
         | Panic => Panic
         | Err e => Ok (false, Some e)
         | Ok expected => if bytes_eqb code expected then Ok (true, None) else Ok (false, Some (ESent ErrInvalidCode))
         end.

  Definition err_text (e : err) : bytes := match render e with Some t => t | None => s2b "?" end.

  (** func generateOTP(secret string, counter uint64, digits otp.Digits, algo otp.Algorithm) (string, error) *)
  Definition generate_otp_wasm (secret : bytes) (counter digits algo : N) : wout bytes :=
    match decode_secret secret with
    | Err e => inr (WErr (s2b "invalid secret - " ++ err_text e))
    | Panic => inr (WPanic [])
    | Ok key =>
      match derive_wasm_with key counter (Z.of_N digits) algo with
      | Ok code => inl code
      | Err e => inr (WErr (s2b "failed to generate OTP - " ++ err_text e))
      | Panic => inr (WPanic [])
      end
    end.

  Definition arg (args : list jsval) (i : nat) : jsval := nth i args JUndef.
  Definition count_text (n : nat) : bytes := dec_of_N (N.of_nat n).

  (** func generateHOTP(_ js.Value, args []js.Value) any — via parseArgsAndGenerate(args, "HOTP") *)
  Definition w_generate_hotp (args : list jsval) : wout wres :=
    if negb (Nat.eqb (length args) 4) then
      inr (WErr (s2b "expected 4 arguments for HOTP (secret, counter, digits, algo), got " ++ count_text (length args)))
    else
      wbind (parse_string_arg (arg args 0) (s2b "secret")) (fun secret =>
      wbind (parse_int_arg (arg args 1) (s2b "counter")) (fun counter =>
      wbind (parse_string_arg (arg args 2) (s2b "digits")) (fun digits =>
      wbind (parse_string_arg (arg args 3) (s2b "algo")) (fun algo =>
      wbind (generate_otp_wasm secret (of_int64 counter) (digits_from_str digits) (algorithm_from_str algo)) (fun code =>
      inl (WStr code)))))).

  (** func generateTOTP(_ js.Value, args []js.Value) any *)
  Definition w_generate_totp (args : list jsval) : wout wres :=
    if negb (Nat.eqb (length args) 5) then
      inr (WErr (s2b "expected 5 arguments for TOTP (secret, timestamp, digits, algo, period), got " ++ count_text (length args)))
    else
      wbind (parse_string_arg (arg args 0) (s2b "secret")) (fun secret =>
      wbind (parse_int_arg (arg args 1) (s2b "timestamp")) (fun ts =>
      wbind (parse_string_arg (arg args 2) (s2b "digits")) (fun digits =>
      wbind (parse_string_arg (arg args 3) (s2b "algo")) (fun algo =>
      wbind (parse_int_arg (arg args 4) (s2b "period")) (fun period =>
      if (period <=? 0)%Z || (3600 <? period)%Z then
        inr (WErr (s2b "period must be between 1 and 3600 seconds, got " ++ dec_of_Z period))
      else
        match time_counter ts (Z.to_N period) with
        | Ok counter =>
          wbind (generate_otp_wasm secret counter (digits_from_str digits) (algorithm_from_str algo)) (fun code => inl (WStr code))
        | _ => inr (WPanic [])
        end))))).

  (** the window loop of validateHOTP: currCounter := int64(counter) + int64(i); negative ones are skipped *)
  Fixpoint w_hotp_loop (offs : list Z) (code key : bytes) (counter : Z) (digits algo : N) : bool :=
    match offs with
    | [] => false
    | i :: rest =>
      let curr := wrap_int64 (counter + i) in
      if (curr <? 0)%Z then w_hotp_loop rest code key counter digits algo
      else match validate_otp_wasm_with code key (of_int64 curr) digits algo with
           | Ok (true, None) => true
           | _ => w_hotp_loop rest code key counter digits algo
           end
    end.

  (** func validateHOTP(_ js.Value, args []js.Value) any *)
  Definition w_validate_hotp (args : list jsval) : wout wres :=
    if negb (Nat.eqb (length args) 6) then
      inr (WErr (s2b "expected 6 arguments: secret, code, counter, digits, algo, skew; got " ++ count_text (length args)))
    else
      wbind (parse_string_arg (arg args 0) (s2b "secret")) (fun secret =>
      wbind (parse_string_arg (arg args 1) (s2b "code")) (fun code =>
      wbind (parse_int_arg (arg args 2) (s2b "counter")) (fun counter =>
      wbind (parse_string_arg (arg args 3) (s2b "digits")) (fun digits =>
      wbind (parse_string_arg (arg args 4) (s2b "algo")) (fun algo =>
      wbind (parse_int_arg (arg args 5) (s2b "skew")) (fun skew =>
      if (skew <? 0)%Z || (10 <? skew)%Z then inr (WErr (s2b "skew must be in range [0,10]"))
      else
        match decode_secret secret with
        | Err e => inr (WErr (s2b "invalid secret - " ++ err_text e))
        | Panic => inr (WPanic [])
        | Ok key =>
          inl (WBool (w_hotp_loop (offsets (Z.to_N skew)) code key counter (digits_from_str digits) (algorithm_from_str algo)))
        end)))))).

  (** the window loop of validateTOTP: counter+uint64(i) wraps, as in the native loop *)
  Fixpoint w_totp_loop (offs : list Z) (code key : bytes) (counter digits algo : N) : bool :=
    match offs with
    | [] => false
    | i :: rest =>
      match validate_otp_wasm_with code key (wrap64 (counter + of_int64 i)) digits algo with
      | Ok (true, None) => true
      | _ => w_totp_loop rest code key counter digits algo
      end
    end.

  (** func validateTOTP(_ js.Value, args []js.Value) any *)
  Definition w_validate_totp (args : list jsval) : wout wres :=
    if negb (Nat.eqb (length args) 7) then
      inr (WErr (s2b "expected 7 arguments: secret, code, timestamp, digits, algo, skew, period; got " ++ count_text (length args)))
    else
      wbind (parse_string_arg (arg args 0) (s2b "secret")) (fun secret =>
      wbind (parse_string_arg (arg args 1) (s2b "code")) (fun code =>
      wbind (parse_int_arg (arg args 2) (s2b "timestamp")) (fun ts =>
      if (ts <? 0)%Z then inr (WErr (s2b "timestamp must be non-negative"))
      else
      wbind (parse_string_arg (arg args 3) (s2b "digits")) (fun digits =>
      wbind (parse_string_arg (arg args 4) (s2b "algo")) (fun algo =>
      wbind (parse_int_arg (arg args 5) (s2b "skew")) (fun skew =>
      if (skew <? 0)%Z || (10 <? skew)%Z then inr (WErr (s2b "skew must be in range [0,10]"))
      else
      wbind (parse_int_arg (arg args 6) (s2b "period")) (fun period =>
      if (period <=? 0)%Z then inr (WErr (s2b "period must be > 0"))
      else
        match decode_secret secret with
        | Err e => inr (WErr (s2b "invalid secret - " ++ err_text e))
        | Panic => inr (WPanic [])
        | Ok key =>
          match time_counter ts (Z.to_N period) with
          | Ok counter =>
            inl (WBool (w_totp_loop (offsets (Z.to_N skew)) code key counter (digits_from_str digits) (algorithm_from_str algo)))
          | _ => inr (WPanic [])
          end
        end))))))).
End WithHmac.

(** func generateOTPURL(_ js.Value, args []js.Value) any *)
Definition w_generate_otp_url (args : list jsval) : wout wres :=
  if negb (Nat.eqb (length args) 6) then
    inr (WErr (s2b "expected 6 arguments (otp, issuer, accountName, secret, digits, algorithm), got " ++ dec_of_N (N.of_nat (length args))))
  else
    wbind (parse_string_arg (nth 0 args JUndef) (s2b "otp")) (fun otp_type =>
    wbind (parse_string_arg (nth 1 args JUndef) (s2b "issuer")) (fun issuer =>
    wbind (parse_string_arg (nth 2 args JUndef) (s2b "accountName")) (fun account =>
    wbind (parse_string_arg (nth 3 args JUndef) (s2b "secret")) (fun secret =>
    wbind (parse_string_arg (nth 4 args JUndef) (s2b "digits")) (fun digits =>
    wbind (parse_string_arg (nth 5 args JUndef) (s2b "algorithm")) (fun algo =>
      let p := mkUrlParam issuer account 0 secret (digits_from_str digits) (algorithm_from_str algo) in
      let r := if beq otp_type (s2b "totp") then Some (generate_totp_url p)
               else if beq otp_type (s2b "hotp") then Some (generate_hotp_url p) else None in
      match r with
      | None => inr (WErr (s2b "invalid otp type: " ++ otp_type ++ s2b " (must be 'totp' or 'hotp')"))
      | Some (Ok u) => inl (WStr (url_string u))
      | Some (Err e) => inr (WErr (match render e with Some t => t | None => s2b "?" end))
      | Some Panic => inr (WPanic [])
      end)))))).

Definition derive_wasm := derive_wasm_with hmac.
Definition validate_otp_wasm := validate_otp_wasm_with hmac.
Definition wasm_generate_hotp := w_generate_hotp hmac.
Definition wasm_generate_totp := w_generate_totp hmac.
Definition wasm_validate_hotp := w_validate_hotp hmac.
Definition wasm_validate_totp := w_validate_totp hmac.

(** what JavaScript receives: the guard turns errors and panics into "error: ..." strings *)
Definition js_result (o : wout wres) : wres :=
  match o with
  | inl r => r
  | inr (WErr t) => WStr (s2b "error: " ++ t)
  | inr (WPanic t) => WStr (s2b "error: " ++ t)
  end.

(** dispatch by registered global name *)
Definition wasm_call (name : bytes) (args : list jsval) : option wres :=
  if beq name (s2b "generateHOTP") then Some (js_result (wasm_generate_hotp args))
  else if beq name (s2b "generateTOTP") then Some (js_result (wasm_generate_totp args))
  else if beq name (s2b "validateHOTP") then Some (js_result (wasm_validate_hotp args))
  else if beq name (s2b "validateTOTP") then Some (js_result (wasm_validate_totp args))
  else if beq name (s2b "generateOTPURL") then Some (js_result (w_generate_otp_url args))
  else None.
