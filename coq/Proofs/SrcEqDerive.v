(** The functions of derive.go / derive_rfc4226.go as translated from the Go source (Generated/Src.v)
    compute what the hand-written model (Model/Derive.v) computes. *)
From Coq Require Import ZifyN ZifyNat ZifyBool.
From OtpV Require Import Prelude Sha Tables GoSem Errors Decoder Derive Otp Src SrcLift.
Open Scope N_scope.
Ltac Zify.zify_post_hook ::= Z.div_mod_to_equations.

(** ---------- truncate ---------- *)
Lemma src_truncate_eq sum md : small sum ->
  Src.truncate sum md = lift_p (Derive.truncate sum md).
Proof.
  intros Hs. unfold Src.truncate, Derive.truncate.
  rewrite (idx_last sum Hs).
  destruct sum as [|a s]; [reflexivity|].
  cbn [rbind]. set (sm := a :: s) in *.
  unfold mask_offset.
  pose proof (land15_lt (last sm 0)) as Hlt.
  set (off := N.land (last sm 0) 15) in *.
  rewrite !wrap8_small by lia.
  rewrite !idx_N.
  replace (N.to_nat (off + 1)) with (N.to_nat off + 1)%nat by lia.
  replace (N.to_nat (off + 2)) with (N.to_nat off + 2)%nat by lia.
  replace (N.to_nat (off + 3)) with (N.to_nat off + 3)%nat by lia.
  destruct (nth_error sm (N.to_nat off)) as [b0|]; [|reflexivity]. cbn [rbind].
  destruct (nth_error sm (N.to_nat off + 1)) as [b1|]; [|reflexivity]. cbn [rbind].
  destruct (nth_error sm (N.to_nat off + 2)) as [b2|]; [|reflexivity]. cbn [rbind].
  destruct (nth_error sm (N.to_nat off + 3)) as [b3|]; [|reflexivity]. cbn [rbind].
  unfold umod, mask31.
  destruct (md =? 0); reflexivity.
Qed.

(** ---------- padBytes ---------- *)
Lemma skipn_repeat {A} (x : A) n m : skipn n (repeat x m) = repeat x (m - n).
Proof.
  revert m; induction n as [|n IH]; intros m; [rewrite Nat.sub_0_r; reflexivity|].
  destruct m as [|m]; [reflexivity|]. cbn [repeat skipn]. apply IH.
Qed.

Lemma src_padBytes_eq input len : small input -> (len < 4611686018427387904)%Z ->
  Src.padBytes input len = lift_p (Derive.pad_bytes input len).
Proof.
  intros Hs Hl. unfold Src.padBytes, Derive.pad_bytes, small, zlen in *.
  destruct (len <? 0)%Z eqn:En.
  - destruct (Z.leb len (Z.of_nat (length input))) eqn:E; [|lia].
    unfold slice. destruct (len <? 0)%Z eqn:E2; [|lia]. rewrite orb_true_r. reflexivity.
  - destruct (Z.leb len (Z.of_nat (length input))) eqn:E.
    + destruct (Nat.leb_spec (Z.to_nat len) (length input)) as [H|H]; [|lia].
      unfold slice, zlen. destruct (0 <? 0)%Z eqn:E0; [lia|].
      destruct (len <? 0)%Z eqn:E2; [lia|]. destruct (Z.of_nat (length input) <? len)%Z eqn:E3; [lia|].
      cbn [orb rbind skipn Z.to_nat]. rewrite Z.sub_0_r. reflexivity.
    + destruct (Nat.leb_spec (Z.to_nat len) (length input)) as [H|H]; [lia|].
      unfold make_bytes. rewrite En. cbn [rbind lift_p]. unfold copy_into.
      rewrite repeat_length, skipn_repeat, firstn_all2 by lia. reflexivity.
Qed.

(** ---------- longDigit / formatDecimal ---------- *)
Lemma wrap8_d1 v : wrap8 (N.add 48 (wrap8 (N.modulo v 10))) = wrap8 (48 + v mod 10).
Proof. unfold wrap8. lia. Qed.
Lemma wrap8_d2 v : wrap8 (wrap32 (N.add 48 (N.modulo v 10))) = wrap8 (48 + v mod 10).
Proof. unfold wrap8, wrap32, two32. lia. Qed.

Lemma set_idx_nat s k v : (k < length s)%nat -> set_idx s (Z.of_nat k) v = Val (upd k v s).
Proof.
  intros H. unfold set_idx, zlen. destruct (Z.of_nat k <? 0)%Z eqn:E; [lia|].
  destruct (Z.of_nat (length s) <=? Z.of_nat k)%Z eqn:E2; [lia|]. cbn [orb]. rewrite Nat2Z.id. reflexivity.
Qed.

Lemma src_longDigit_loop k : forall fuel f0 out v kx,
  (k < fuel)%nat -> (k <= length out)%nat -> (Z.of_nat k < 4611686018427387904)%Z ->
  exists v', Src.longDigit_loop1 fuel f0 out v (Z.of_nat k - 1) kx = kx (write_digits k out v) v' (-1)%Z.
Proof.
  induction k as [|k IH]; intros fuel f0 out v kx Hf Hl Hb.
  - destruct fuel as [|fuel]; [lia|]. exists v. reflexivity.
  - destruct fuel as [|fuel]; [lia|].
    cbn [Src.longDigit_loop1].
    replace (Z.of_nat (S k) - 1)%Z with (Z.of_nat k) by lia.
    destruct (Z.leb 0 (Z.of_nat k)) eqn:E; [|lia].
    rewrite set_idx_nat by lia. cbn [rbind].
    rewrite wrap_int64_small by lia. rewrite wrap8_d1.
    destruct (IH fuel f0 (upd k (wrap8 (48 + v mod 10)) out) (N.div v 10) kx) as [v' Hv]; [lia|rewrite upd_length; lia|lia|].
    exists v'. rewrite Hv. reflexivity.
Qed.

Lemma src_longDigit_eq fuel otp digits : (digits < Z.of_nat fuel)%Z -> (digits < 4611686018427387904)%Z ->
  Src.longDigit fuel otp digits = lift_p (Derive.long_digit otp digits).
Proof.
  intros Hf Hb. unfold Src.longDigit, Derive.long_digit, make_bytes.
  destruct (digits <? 0)%Z eqn:E; [reflexivity|]. cbn [rbind lift_p].
  assert (Hd : digits = Z.of_nat (Z.to_nat digits)) by lia.
  rewrite wrap_int64_small by lia.
  rewrite Hd at 2.
  destruct (src_longDigit_loop (Z.to_nat digits) fuel fuel (repeat 0 (Z.to_nat digits)) otp (fun out _ _ => Val out)) as [v' Hv];
    [lia|rewrite repeat_length; lia|lia|].
  rewrite Hv. reflexivity.
Qed.

Lemma src_formatDecimal_loop k : forall fuel f0 out v kx,
  (k < fuel)%nat -> (k <= length out)%nat -> (Z.of_nat k < 4611686018427387904)%Z ->
  exists v', Src.formatDecimal_loop1 fuel f0 out v (Z.of_nat k - 1) kx = kx (write_digits k out v) v' (-1)%Z.
Proof.
  induction k as [|k IH]; intros fuel f0 out v kx Hf Hl Hb.
  - destruct fuel as [|fuel]; [lia|]. exists v. reflexivity.
  - destruct fuel as [|fuel]; [lia|].
    cbn [Src.formatDecimal_loop1].
    replace (Z.of_nat (S k) - 1)%Z with (Z.of_nat k) by lia.
    destruct (Z.leb 0 (Z.of_nat k)) eqn:E; [|lia].
    rewrite set_idx_nat by lia. cbn [rbind].
    rewrite wrap_int64_small by lia. rewrite wrap8_d2.
    destruct (IH fuel f0 (upd k (wrap8 (48 + v mod 10)) out) (N.div v 10) kx) as [v' Hv]; [lia|rewrite upd_length; lia|lia|].
    exists v'. rewrite Hv. reflexivity.
Qed.

Lemma src_formatDecimal_eq fuel val digits : (digits < Z.of_nat fuel)%Z -> (digits < 4611686018427387904)%Z ->
  Src.formatDecimal fuel val digits = lift_p (Derive.format_decimal val digits).
Proof.
  intros Hf Hb. unfold Src.formatDecimal, Derive.format_decimal, Derive.long_digit, make_bytes.
  destruct (digits <? 0)%Z eqn:E; [reflexivity|]. cbn [rbind lift_p].
  assert (Hd : digits = Z.of_nat (Z.to_nat digits)) by lia.
  rewrite wrap_int64_small by lia.
  rewrite Hd at 2.
  destruct (src_formatDecimal_loop (Z.to_nat digits) fuel fuel (repeat 0 (Z.to_nat digits)) val (fun out _ _ => Val out)) as [v' Hv];
    [lia|rewrite repeat_length; lia|lia|].
  rewrite Hv. reflexivity.
Qed.

(** ---------- shortDigit ---------- *)
Lemma zero_fill_length k : forall pad, length (zero_fill k pad) = length pad.
Proof. induction k as [|k IH]; intros pad; cbn [zero_fill]; [reflexivity|]. rewrite IH, upd_length. reflexivity. Qed.
Lemma short_loop_length k : forall pad v, length (short_loop k pad v) = length pad.
Proof.
  induction k as [|k IH]; intros pad v; cbn [short_loop]; [reflexivity|].
  destruct (0 <? v).
  - rewrite IH, upd_length. reflexivity.
  - cbn [zero_fill]. rewrite zero_fill_length, upd_length. reflexivity.
Qed.

Lemma src_shortDigit_loop2 k : forall fuel f0 pad kx,
  (k < fuel)%nat -> (k <= length pad)%nat -> (Z.of_nat k < 4611686018427387904)%Z ->
  Src.shortDigit_loop2 fuel f0 pad (Z.of_nat k - 1) kx = kx (zero_fill k pad) (-1)%Z.
Proof.
  induction k as [|k IH]; intros fuel f0 pad kx Hf Hl Hb.
  - destruct fuel as [|fuel]; [lia|]. reflexivity.
  - destruct fuel as [|fuel]; [lia|].
    cbn [Src.shortDigit_loop2 zero_fill].
    replace (Z.of_nat (S k) - 1)%Z with (Z.of_nat k) by lia.
    destruct (Z.leb 0 (Z.of_nat k)) eqn:E; [|lia].
    rewrite set_idx_nat by lia. cbn [rbind].
    rewrite wrap_int64_small by lia.
    apply IH; [lia|rewrite upd_length; lia|lia].
Qed.

Lemma src_shortDigit_loop1 k : forall fuel f0 fuel2 f2 pad v kx,
  (k < fuel)%nat -> (k < fuel2)%nat -> (k <= length pad)%nat -> (Z.of_nat k < 4611686018427387904)%Z ->
  Src.shortDigit_loop1 fuel f0 pad v (Z.of_nat k - 1) (fun pad _ i => Src.shortDigit_loop2 fuel2 f2 pad i kx)
  = kx (short_loop k pad v) (-1)%Z.
Proof.
  induction k as [|k IH]; intros fuel f0 fuel2 f2 pad v kx Hf Hf2 Hl Hb.
  - destruct fuel as [|fuel]; [lia|]. destruct fuel2 as [|fuel2]; [lia|].
    cbn [Src.shortDigit_loop1]. rewrite andb_false_r. reflexivity.
  - destruct fuel as [|fuel]; [lia|].
    cbn [Src.shortDigit_loop1 short_loop].
    replace (Z.of_nat (S k) - 1)%Z with (Z.of_nat k) by lia.
    destruct (Z.leb 0 (Z.of_nat k)) eqn:E; [|lia]. rewrite andb_true_r.
    change (N.ltb 0 v) with (0 <? v).
    destruct (0 <? v) eqn:Ev.
    + rewrite set_idx_nat by lia. cbn [rbind].
      rewrite wrap_int64_small by lia. rewrite wrap8_d1.
      apply IH; [lia|lia|rewrite upd_length; lia|lia].
    + replace (Z.of_nat k) with (Z.of_nat (S k) - 1)%Z by lia.
      apply src_shortDigit_loop2; [lia|lia|lia].
Qed.

Lemma src_shortDigit_eq fuel otp digits : (9 <= fuel)%nat ->
  (- 4611686018427387904 < digits < 4611686018427387904)%Z ->
  Src.shortDigit fuel otp digits = lift_p (Derive.short_digit otp digits).
Proof.
  intros Hf Hb. unfold Src.shortDigit, Derive.short_digit.
  rewrite wrap_int64_small by lia.
  destruct (digits <? 0)%Z eqn:En.
  - (* negative: both loops fall through, the slice expression panics *)
    cbn [orb lift_p].
    destruct fuel as [|fuel]; [lia|].
    cbn [Src.shortDigit_loop1].
    destruct (Z.leb 0 (digits - 1)) eqn:E; [lia|]. rewrite andb_false_r.
    cbn [Src.shortDigit_loop2]. rewrite E.
    unfold slice. destruct (0 <? 0)%Z eqn:E0; [lia|]. rewrite En. reflexivity.
  - destruct (8 <? digits)%Z eqn:E8.
    + (* more than 8: the first store is out of range *)
      cbn [orb lift_p].
      destruct fuel as [|fuel]; [lia|].
      cbn [Src.shortDigit_loop1].
      destruct (Z.leb 0 (digits - 1)) eqn:E; [|lia]. rewrite andb_true_r.
      assert (Hset : forall v, set_idx (repeat 0 8) (digits - 1) v = Pnc).
      { intros v. unfold set_idx, zlen. rewrite repeat_length.
        destruct (Z.of_nat 8 <=? digits - 1)%Z eqn:E3; [|lia]. rewrite orb_true_r. reflexivity. }
      destruct (N.ltb 0 otp).
      * rewrite Hset. reflexivity.
      * destruct fuel as [|fuel]; [lia|]. cbn [Src.shortDigit_loop2]. rewrite E, Hset. reflexivity.
    + cbn [orb lift_p].
      assert (Hd : digits = Z.of_nat (Z.to_nat digits)) by lia.
      rewrite Hd at 1.
      rewrite (src_shortDigit_loop1 (Z.to_nat digits) fuel fuel fuel fuel (repeat 0 8) otp); [|lia|lia|rewrite repeat_length; lia|lia].
      unfold slice, zlen. rewrite short_loop_length, repeat_length.
      destruct (0 <? 0)%Z eqn:E0; [lia|]. rewrite En.
      destruct (Z.of_nat 8 <? digits)%Z eqn:E9; [lia|]. cbn [orb rbind skipn Z.to_nat].
      rewrite Z.sub_0_r. reflexivity.
Qed.

(** ---------- deriveRFC4226 ---------- *)
Lemma lift_p_oc (o : outcome bytes) : (forall e, o <> Err e) ->
  rbind (lift_p o) (fun t => Val (t, @None err)) = lift_oc o.
Proof. intros H. destruct o as [a|e|]; [reflexivity| exfalso; apply (H e); reflexivity | reflexivity]. Qed.

Lemma short_digit_no_err otp d e : Derive.short_digit otp d <> Err e.
Proof. unfold Derive.short_digit. destruct ((d <? 0)%Z || (8 <? d)%Z); discriminate. Qed.
Lemma long_digit_no_err otp d e : Derive.long_digit otp d <> Err e.
Proof. unfold Derive.long_digit. destruct (d <? 0)%Z; discriminate. Qed.

Lemma mod10_at_no_err d e : Derive.mod10_at d <> Err e.
Proof. unfold Derive.mod10_at. destruct (d <? 0)%Z; [discriminate|]. destruct (nth_error mod10 (Z.to_nat d)); discriminate. Qed.
Lemma truncate_no_err s m e : Derive.truncate s m <> Err e.
Proof.
  unfold Derive.truncate. destruct s as [|x s]; [discriminate|].
  repeat match goal with |- context [match nth_error ?l ?i with _ => _ end] => destruct (nth_error l i) end; try discriminate.
  destruct (m =? 0); discriminate.
Qed.

Lemma g_mod10_eq : Src.g_mod10 = Tables.mod10.
Proof. reflexivity. Qed.

Lemma src_mod10_eq d : idxN Src.g_mod10 d = lift_p (Derive.mod10_at d).
Proof.
  rewrite g_mod10_eq. unfold idxN, idx, Derive.mod10_at.
  destruct (d <? 0)%Z; [reflexivity|]. destruct (nth_error mod10 (Z.to_nat d)); reflexivity.
Qed.

Lemma small_hmac a k m : small (hmac a k m).
Proof. unfold small, zlen. rewrite hmac_length. destruct a; cbn; lia. Qed.

Lemma src_deriveRFC4226_eq fuel junk secret counter digits algo :
  (11 <= fuel)%nat -> length junk = 8%nat ->
  Src.deriveRFC4226 fuel junk secret counter digits algo = lift_oc (Derive.derive_rfc4226 secret counter digits algo).
Proof.
  intros Hf Hj. unfold Src.deriveRFC4226, Derive.derive_rfc4226, Derive.derive_rfc4226_with.
  unfold n_hmac_pools. rewrite <- g_mod10_eq.
  change (Z.of_nat (length Src.g_mod10)) with 11%Z.
  destruct (Z.ltb (Z.of_N algo) 0) eqn:E0; [lia|]. cbn [orb].
  destruct (Z.leb 3 (Z.of_N algo)) eqn:E3.
  { destruct (3 <=? algo) eqn:E; [reflexivity|lia]. }
  destruct (3 <=? algo) eqn:E; [lia|].
  destruct ((digits <? 1)%Z || (11 <=? digits)%Z) eqn:Ed; [reflexivity|].
  assert (Ha : algo = 0 \/ algo = 1 \/ algo = 2) by lia.
  assert (Hp : pool_at Src.hmacPools (Z.of_N algo) = match Derive.alg_of_N algo with Some a => Val a | None => Pnc end).
  { destruct Ha as [->|[->| ->]]; reflexivity. }
  rewrite Hp. destruct (Derive.alg_of_N algo) as [a|]; [|reflexivity]. cbn [rbind].
  rewrite Hj. cbn [Nat.eqb negb].
  unfold GoSem.put_uint64. rewrite Hj. cbn [Nat.ltb Nat.leb rbind].
  replace (skipn 8 junk) with (@nil N) by (symmetry; apply skipn_all2; lia).
  rewrite app_nil_r.
  unfold hash_sum, hash_write, hmac_new. cbn [h_alg h_key h_msg app].
  change (be64 counter) with (Derive.put_uint64 counter).
  rewrite src_mod10_eq.
  pose proof (mod10_at_no_err digits) as Hne.
  destruct (Derive.mod10_at digits) as [md|e|]; [|exfalso; apply (Hne e); reflexivity|reflexivity]. cbn [lift_p rbind obind].
  rewrite src_truncate_eq by apply small_hmac.
  pose proof (truncate_no_err (hmac a secret (Derive.put_uint64 counter)) md) as Hne2.
  destruct (Derive.truncate (hmac a secret (Derive.put_uint64 counter)) md) as [otp|e|]; [|exfalso; apply (Hne2 e); reflexivity|reflexivity].
  cbn [lift_p rbind obind].
  assert (Hr : (1 <= digits <= 10)%Z) by lia.
  destruct (Z.leb digits 8) eqn:E8.
  - rewrite src_shortDigit_eq by lia.
    apply lift_p_oc. intros e. apply short_digit_no_err.
  - rewrite src_longDigit_eq by lia.
    apply lift_p_oc. intros e. apply long_digit_no_err.
Qed.
