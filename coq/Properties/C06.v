(** C06 — OCRA validation accepts a string iff generation returns it for the same data. *)
From OtpV Require Import Prelude Sha Tables Decoder Derive Otp Ocra Rfc4226 Rfc6287 DeriveProofs OtpProofs OcraProofs Errors.
Open Scope N_scope.

Theorem C06_iff : forall secret code cfg i,
  fst (validate_ocra secret code cfg i) = Ok (true, None) <-> generate_ocra secret cfg i = Ok code.
Proof. exact (validate_ocra_iff hmac hmac_length hmac_wf). Qed.
Print Assumptions C06_iff.

(** whenever generation fails, validation returns false together with an error *)
Theorem C06_fail : forall secret code cfg i e,
  generate_ocra secret cfg i = Err e ->
  exists e' k, validate_ocra secret code cfg i = (Ok (false, Some e'), k).
Proof. exact (validate_ocra_fail hmac hmac_length hmac_wf). Qed.
Print Assumptions C06_fail.

(** ... rather than accepting or panicking: the verdict always has one of the two shapes *)
Theorem C06_verdict : forall secret code cfg i,
  exists k, validate_ocra secret code cfg i = (Ok (true, None), k)
         \/ exists e, validate_ocra secret code cfg i = (Ok (false, Some e), k).
Proof. exact (validate_ocra_verdict hmac hmac_length hmac_wf). Qed.
Print Assumptions C06_verdict.

Theorem C06_generate_total : forall secret cfg i, generate_ocra secret cfg i <> Panic.
Proof. exact (generate_ocra_total hmac hmac_length hmac_wf). Qed.
Print Assumptions C06_generate_total.
