(** C12 — caller data and package defaults are never modified.
    Decided on the SSA facts regenerated from the code on every run (Model/Flow.v): no store, map
    update, append, copy, clear or decoder/encoder destination is an object that is a view of, or
    reachable through pointers from, an argument of an exported library function; and nothing
    outside package initialisation writes an object reachable from a package-level variable (the
    default parameter sets, the suite registry, the tables).  The certificate theorem makes the
    verdict cover every alias path of the fact base.  The value side (padBytes returns a prefix
    view or a fresh zero-padded copy, never an extension of its input) is C05's padding theorem.
    The harness presents every byte field as a sub-slice of a larger canary-filled array with
    every length/capacity relation and compares backing arrays, parameter structs, parsed URLs,
    defaults and the registry before and after each call. *)
From Coq Require Import List String PArith.
From OtpV Require Import Prelude Derive Flow SsaNative SsaWasm OcraProofs.
Import ListNotations.

Theorem C12_no_writes_to_caller_or_package_memory :
  mem_ok SsaNative.mem_facts = true /\ mem_ok SsaWasm.mem_facts = true.
Proof. split; vm_compute; reflexivity. Qed.
Print Assumptions C12_no_writes_to_caller_or_package_memory.

Theorem C12_meaning : forall M, mem_ok M = true ->
  (forall obj i k, In (obj, i, k) (m_writes M) -> aliases M (m_params M) obj -> False) /\
  (forall obj i k, In (obj, i, k) (m_writes M) -> k <> 2%positive -> aliases M (m_globals M) obj -> False).
Proof. intros M H. destruct (mem_ok_sound M H) as [H1 [H2 _]]. split; assumption. Qed.
Print Assumptions C12_meaning.

(** padBytes, as a value: the prefix of the input when it is long enough, else the input followed
    by fresh zero bytes — the input itself is never extended *)
Theorem C12_pad_bytes : forall b n, (length b <= n)%nat -> pad_bytes b (Z.of_nat n) = Ok (b ++ repeat 0%N (n - length b)).
Proof. intros b n H. rewrite pad_bytes_rpad by exact H. reflexivity. Qed.
Print Assumptions C12_pad_bytes.

(** the fact base is not empty (bounds far below the current tree's numbers; the pools themselves may go away in a
    rewrite without harm, so their presence is not demanded) *)
Example C12_nonvacuous :
  (5 <= List.length (m_params SsaNative.mem_facts) /\ 5 <= List.length (m_globals SsaNative.mem_facts) /\
   20 <= List.length (m_writes SsaNative.mem_facts))%nat.
Proof. vm_compute. repeat split; repeat constructor. Qed.
