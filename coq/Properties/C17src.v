(** C17 over the Go source (Generated/Src.v: the helpers of utils.go and HexInputToOCRA as translated; strconv.ParseUint,
    encoding/hex, math/big's decimal parsing and hexadecimal printing are the transcribed library functions). *)
From Coq Require Import String.
From OtpV Require Import Prelude GoSem Errors Rfc4226 Rfc6287 Sha Decoder Derive Otp Ocra Utils DeriveProofs OcraProofs UtilsProofs Src SrcLift SrcEqUtils C17.
Open Scope N_scope.

Theorem C17src_to8 : forall fuel v, (9 <= fuel)%nat -> Src.To8ByteBigEndian fuel v = Val (be64 v).
Proof. intros fuel v Hf. rewrite src_To8ByteBigEndian_eq by exact Hf. rewrite (proj1 (C17_to8 v)). reflexivity. Qed.
Print Assumptions C17src_to8.

Theorem C17src_decimal : forall fuel s, (9 <= fuel)%nat ->
  s <> [] -> all_digits s -> dec_value s < 2 ^ 64 ->
  Src.ParseDecimalToBigEndian8 fuel s = Val (be64 (dec_value s), None) /\
  Src.ParseDecimal64BigEndian fuel s = Val (be64 (dec_value s), None).
Proof.
  intros fuel s Hf Hne Hd Hv. rewrite src_ParseDecimalToBigEndian8_eq, src_ParseDecimal64BigEndian_eq by exact Hf.
  rewrite (C17_decimal s Hne Hd Hv). split; reflexivity.
Qed.
Print Assumptions C17src_decimal.

Theorem C17src_decimal_reject : forall fuel s, (9 <= fuel)%nat ->
  (s = [] \/ ~ all_digits s \/ 2 ^ 64 <= dec_value s) ->
  exists e, Src.ParseDecimalToBigEndian8 fuel s = Val ([], Some e) /\ Src.ParseDecimal64BigEndian fuel s = Val ([], Some e).
Proof.
  intros fuel s Hf Hbad. destruct (C17_decimal_reject s Hbad) as [e He]. exists e.
  rewrite src_ParseDecimalToBigEndian8_eq, src_ParseDecimal64BigEndian_eq by exact Hf. rewrite He. split; reflexivity.
Qed.
Print Assumptions C17src_decimal_reject.

Theorem C17src_left_pad : forall s n, small s -> (0 <= n < 4611686018427387904)%Z ->
  exists r, Src.LeftPadHex s n = Val r /\ zlen r = n /\
            (if (n <=? zlen s)%Z then r = skipn (length s - Z.to_nat n) s
             else r = repeat 48 (Z.to_nat n - length s) ++ s).
Proof.
  intros s n Hs Hn. destruct (C17_left_pad s n ltac:(lia)) as [r (Hr & Hl & Hc)].
  exists r. rewrite src_LeftPadHex_eq by (assumption || lia). rewrite Hr. repeat split; assumption.
Qed.
Print Assumptions C17src_left_pad.

Theorem C17src_hex_timestamp : forall fuel ts, (17 <= fuel)%nat -> (length ts <= 16)%nat ->
  forall b, Src.ParseHexTimestamp fuel ts = Val (b, None) ->
  hex_decode (repeat 48 (16 - length ts) ++ ts) = Some b /\ length b = 8%nat.
Proof.
  intros fuel ts Hf Hl b H. rewrite src_ParseHexTimestamp_eq in H by exact Hf.
  destruct (C17_hex_timestamp ts Hl) as [H1 H2].
  destruct (parse_hex_timestamp ts) as [b'|e|] eqn:E; cbn [lift_oc] in H; try discriminate. inversion H; subst b'.
  split; [|apply H2; reflexivity].
  destruct (hex_decode (repeat 48 (16 - length ts) ++ ts)) as [x|]; [|discriminate H1].
  inversion H1. reflexivity.
Qed.
Print Assumptions C17src_hex_timestamp.

Theorem C17src_question : forall fuel q, (258 <= fuel)%nat -> q <> [] -> all_digits q ->
  Src.ParseDecimalChallengeRFC6287 fuel q =
  match rfc6287_question (dec_value q) with Some b => Val (b, None) | None => Val ([], Some (EStd 2 [])) end.
Proof.
  intros fuel q Hf Hne Hd. rewrite src_ParseDecimalChallengeRFC6287_eq by exact Hf. rewrite (C17_question q Hne Hd).
  destruct (rfc6287_question (dec_value q)); reflexivity.
Qed.
Print Assumptions C17src_question.

Theorem C17src_hex_fields : forall c q p s t c' q' p' s' t',
  hex_field T_hex_counter c = Ok c' -> hex_field T_hex_challenge q = Ok q' -> hex_field T_hex_password p = Ok p' ->
  hex_field T_hex_session s = Ok s' -> hex_field T_hex_timestamp t = Ok t' ->
  Src.HexInputToOCRA c q p s t = Val (mkInput c' q' p' s' t', None).
Proof.
  intros. rewrite src_HexInputToOCRA_eq. rewrite (C17_hex_fields c q p s t c' q' p' s' t') by assumption. reflexivity.
Qed.
Print Assumptions C17src_hex_fields.

Example C17src_rfc_vector :
  Src.ParseDecimalChallengeRFC6287 300 (s2b "11111111"%string) = Val ([169; 138; 199] ++ repeat 0 125, None) /\
  Src.ParseDecimalToBigEndian8 9 (s2b "0018446744073709551615"%string) = Val (repeat 255 8, None) /\
  (exists e, Src.ParseDecimal64BigEndian 9 (s2b "+5"%string) = Val ([], Some e)).
Proof. split; [vm_compute; reflexivity|]. split; [vm_compute; reflexivity|]. eexists. vm_compute. reflexivity. Qed.
