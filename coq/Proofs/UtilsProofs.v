(** C17 (input helpers) and C08 (random secrets). *)
From Coq Require Import ZifyN ZifyNat ZifyBool.
From OtpV Require Import Prelude Errors Rfc4226 Rfc4648 Decoder Derive Ocra Utils Random BitLemmas DeriveProofs Base32Proofs.
Open Scope N_scope.
Ltac Zify.zify_post_hook ::= Z.div_mod_to_equations.

(** ---------------- To8ByteBigEndian ---------------- *)
Lemma to8_put_uint64 v : to8 v = put_uint64 v.
Proof.
  unfold to8, put_uint64. cbn [be_loop repeat upd map].
  rewrite !N.shiftr_shiftr. reflexivity.
Qed.

Theorem to8_be64 v : to8 v = be64 v.
Proof. rewrite to8_put_uint64. apply put_uint64_be64. Qed.

Lemma be64_length v : length (be64 v) = 8%nat.
Proof. reflexivity. Qed.

Lemma be64_wf v : wfb (be64 v).
Proof. unfold be64. apply wfb_map. intros i. apply N.mod_lt. discriminate. Qed.

(** the 8 bytes, read as a big-endian number, are the value *)
Theorem of_be_be64 v : v < two64 -> of_be (be64 v) = v.
Proof.
  intros H. unfold of_be, be64, two64 in *. cbn [map fold_left N.of_nat Pos.of_succ_nat Pos.succ].
  change (256 ^ 7) with 72057594037927936. change (256 ^ 6) with 281474976710656.
  change (256 ^ 5) with 1099511627776. change (256 ^ 4) with 4294967296.
  change (256 ^ 3) with 16777216. change (256 ^ 2) with 65536. change (256 ^ 1) with 256. change (256 ^ 0) with 1.
  lia.
Qed.

(** ---------------- decimal strings ---------------- *)
Definition all_digits (s : bytes) : Prop := Forall (fun c => 48 <= c <= 57) s.

Lemma forallb_digits s : forallb is_dec_digit s = true <-> all_digits s.
Proof.
  unfold all_digits. rewrite forallb_forall, Forall_forall. unfold is_dec_digit.
  split; intros H c Hc; specialize (H c Hc); lia.
Qed.

Lemma dec_val_dec_value s : dec_val s = dec_value s.
Proof. reflexivity. Qed.

(** a non-empty digit string (leading zeros allowed) below 2^64 becomes the big-endian counter;
    both aliases are this one model function *)
Theorem parse_decimal_be8_ok s :
  s <> [] -> all_digits s -> dec_value s < two64 -> parse_decimal_be8 s = Ok (be64 (dec_value s)).
Proof.
  intros Hne Hd Hv. unfold parse_decimal_be8, parse_uint64.
  destruct s as [|c s']; [congruence|].
  assert (forallb is_dec_digit (c :: s') = true) as -> by (apply forallb_digits; exact Hd).
  rewrite dec_val_dec_value. apply N.ltb_lt in Hv. rewrite Hv. rewrite to8_be64. reflexivity.
Qed.

(** everything else is rejected: empty text, any non-digit (signs included), values >= 2^64 *)
Theorem parse_decimal_be8_reject s :
  (s = [] \/ ~ all_digits s \/ two64 <= dec_value s) -> exists e, parse_decimal_be8 s = Err e.
Proof.
  intros H. unfold parse_decimal_be8, parse_uint64.
  destruct s as [|c s']; [eexists; reflexivity|].
  destruct (forallb is_dec_digit (c :: s')) eqn:E; [|eexists; reflexivity].
  apply forallb_digits in E. rewrite dec_val_dec_value.
  destruct (dec_value (c :: s') <? two64) eqn:E2; [|eexists; reflexivity].
  apply N.ltb_lt in E2. destruct H as [H|[H|H]]; [discriminate|contradiction|lia].
Qed.

(** ---------------- LeftPadHex ---------------- *)
Theorem left_pad_hex_spec s n :
  (0 <= n)%Z ->
  exists r, left_pad_hex s n = Ok r /\ zlen r = n /\
            (if (n <=? zlen s)%Z then r = skipn (length s - Z.to_nat n) s        (* the rightmost n characters *)
             else r = repeat 48 (Z.to_nat n - length s) ++ s).                    (* zero-extension on the left *)
Proof.
  intros Hn. unfold left_pad_hex, zlen in *.
  destruct (n <=? 0)%Z eqn:E0.
  - assert (n = 0%Z) by lia. subst n. exists []. split; [reflexivity|]. split; [reflexivity|].
    destruct (0 <=? Z.of_nat (length s))%Z eqn:E; [|lia]. rewrite Nat.sub_0_r. symmetry. apply skipn_all.
  - destruct (n <=? Z.of_nat (length s))%Z eqn:E.
    + eexists. split; [reflexivity|]. split; [|reflexivity]. rewrite skipn_length. lia.
    + eexists. split; [reflexivity|]. split; [|reflexivity]. rewrite app_length, repeat_length. lia.
Qed.

(** ---------------- hex ---------------- *)
Lemma hex_decode_length s b : hex_decode s = Some b -> length s = (2 * length b)%nat.
Proof.
  assert (forall n s b, (length s <= n)%nat -> hex_decode s = Some b -> length s = (2 * length b)%nat) as H.
  { induction n as [|n IH]; intros s0 b0 Hn Hd.
    - destruct s0; [|simpl in Hn; lia]. inversion Hd. reflexivity.
    - destruct s0 as [|x [|y t]]; cbn [hex_decode] in Hd.
      + inversion Hd. reflexivity.
      + discriminate.
      + destruct (hex_digit_val x), (hex_digit_val y); try discriminate.
        destruct (hex_decode t) as [r|] eqn:Er; [|discriminate]. inversion Hd; subst.
        cbn [length]. rewrite (IH t r); [lia| cbn [length] in Hn; lia | exact Er]. }
  intros Hd. apply (H (length s)); [lia|exact Hd].
Qed.

(** hex timestamps become 8 bytes: a valid hex text of at most 16 characters is left-padded *)
Theorem parse_hex_timestamp_spec ts :
  (length ts <= 16)%nat ->
  parse_hex_timestamp ts = match hex_decode (repeat 48 (16 - length ts) ++ ts) with
                           | Some b => Ok b | None => Err (EStd 2 []) end
  /\ forall b, parse_hex_timestamp ts = Ok b -> length b = 8%nat.
Proof.
  intros Hl. split; [reflexivity|]. intros b. unfold parse_hex_timestamp.
  destruct (hex_decode _) as [r|] eqn:E; [|discriminate]. intros H. inversion H; subst.
  apply hex_decode_length in E. rewrite app_length, repeat_length in E. lia.
Qed.

(** MustHexPadLeft: the text is brought to 2*size characters (zeros on the left, or its rightmost 2*size characters)
    and decoded; the result has exactly size bytes; text that is not hexadecimal is refused by a panic *)
Theorem must_hex_pad_left_spec s size :
  (0 <= size < 2 ^ 62)%Z ->
  must_hex_pad_left s size =
    (let padded := if (2 * size <=? zlen s)%Z then skipn (length s - Z.to_nat (2 * size)) s
                   else repeat 48 (Z.to_nat (2 * size) - length s) ++ s in
     match hex_decode padded with Some b => Ok b | None => Panic end)
  /\ forall b, must_hex_pad_left s size = Ok b -> Z.of_nat (length b) = size.
Proof.
  intros Hs. unfold must_hex_pad_left.
  assert (wrap_int64 (size * 2) = 2 * size)%Z as ->.
  { unfold wrap_int64, to_int64, of_int64. change (2 ^ 62)%Z with 4611686018427387904%Z in Hs.
    change (Z.of_N two64) with 18446744073709551616%Z.
    rewrite Z.mod_small by lia.
    destruct (N.ltb_spec (Z.to_N (size * 2)) two63) as [L|L]; [rewrite Z2N.id by lia; lia|].
    exfalso. change two63 with 9223372036854775808 in L. lia. }
  destruct (left_pad_hex_spec s (2 * size)%Z ltac:(lia)) as [r [Hr [Hl Hshape]]]. rewrite Hr.
  split.
  - destruct (2 * size <=? zlen s)%Z; subst r; reflexivity.
  - intros b. destruct (hex_decode r) as [x|] eqn:E; [|discriminate]. intros H. inversion H; subst x.
    apply hex_decode_length in E. unfold zlen in Hl. lia.
Qed.

(** hex request fields become the corresponding byte fields; the first invalid field is reported *)
Theorem hex_input_to_ocra_ok c q p s t c' q' p' s' t' :
  hex_field T_hex_counter c = Ok c' -> hex_field T_hex_challenge q = Ok q' -> hex_field T_hex_password p = Ok p' ->
  hex_field T_hex_session s = Ok s' -> hex_field T_hex_timestamp t = Ok t' ->
  hex_input_to_ocra c q p s t = Ok (mkInput c' q' p' s' t').
Proof. intros H1 H2 H3 H4 H5. unfold hex_input_to_ocra. rewrite H1, H2, H3, H4, H5. reflexivity. Qed.

Theorem hex_field_spec tag s :
  hex_field tag s = match s with [] => Ok [] | _ => match hex_decode s with Some b => Ok b | None => Err (EStd tag []) end end.
Proof. reflexivity. Qed.

Theorem hex_input_to_ocra_first_error c q p s t :
  (exists e, hex_input_to_ocra c q p s t = Err e) <->
  (hex_field T_hex_counter c = Err (EStd T_hex_counter []) \/ hex_field T_hex_challenge q = Err (EStd T_hex_challenge []) \/
   hex_field T_hex_password p = Err (EStd T_hex_password []) \/ hex_field T_hex_session s = Err (EStd T_hex_session []) \/
   hex_field T_hex_timestamp t = Err (EStd T_hex_timestamp [])).
Proof.
  unfold hex_input_to_ocra, hex_field.
  destruct c as [|? ?], q as [|? ?], p as [|? ?], s as [|? ?], t as [|? ?];
    repeat match goal with |- context [hex_decode ?x] => destruct (hex_decode x) end; cbn [obind];
    split; intros H; try (destruct H as [e H]; discriminate);
    try (eexists; reflexivity);
    repeat (destruct H as [H|H]; try discriminate); try discriminate; tauto.
Qed.

(** ---------------- decimal questions (RFC 6287) ---------------- *)
(** reference conversion: decimal -> upper-case hexadecimal text, right-padded with '0' to 256
    characters, read as 128 bytes *)
Definition rfc6287_question (v : N) : option bytes :=
  let hx := hex_text v in hex_decode (hx ++ repeat 48 (256 - length hx)).

Theorem parse_decimal_challenge_spec q :
  q <> [] -> all_digits q ->
  parse_decimal_challenge q = match rfc6287_question (dec_value q) with Some b => Ok b | None => Err (EStd 2 []) end.
Proof.
  intros Hne Hd. unfold parse_decimal_challenge, rfc6287_question.
  destruct q as [|c q']; [congruence|].
  assert (forallb is_dec_digit (c :: q') = true) as Hall by (apply forallb_digits; exact Hd).
  unfold all_digits in Hd. apply Forall_cons_iff in Hd. destruct Hd as [Hc _].
  assert (c = 48 \/ c = 49 \/ c = 50 \/ c = 51 \/ c = 52 \/ c = 53 \/ c = 54 \/ c = 55 \/ c = 56 \/ c = 57) as Hcase by lia.
  repeat (destruct Hcase as [->|Hcase]); try subst c; cbv beta iota; rewrite Hall; cbn [andb]; reflexivity.
Qed.

(** ---------------- C08: random secrets ---------------- *)
Definition wf_stream (s : stream) : Prop := forall i, s i < 256.

Lemma take_wf s pos n : wf_stream s -> wfb (take s pos n).
Proof. intros H. unfold take. apply wfb_map. exact H. Qed.

Lemma take_length s pos n : length (take s pos n) = n.
Proof. unfold take. rewrite map_length, seq_length. reflexivity. Qed.

Lemma b32_nopad_upper bs : to_upper (b32_nopad bs) = b32_nopad bs.
Proof.
  unfold to_upper. pose proof (b32_nopad_good bs) as H.
  induction H as [|c l [v G] _ IH]; cbn [map]; [reflexivity|]. rewrite (gc_upper _ _ G), IH. reflexivity.
Qed.

(** the unpadded upper-case text decodes back to the bytes *)
Theorem decode_nopad bs : wfb bs -> decode_secret (b32_nopad bs) = Ok bs.
Proof.
  intros Hwf. apply decode_secret_roundtrip; [exact Hwf|].
  exists [], (b32_nopad bs), [], 0%nat. rewrite app_nil_r. cbn [app repeat].
  repeat split; try constructor; try lia. rewrite app_nil_r. apply b32_nopad_upper.
Qed.

Definition base32_upper_char (c : N) : Prop := 65 <= c <= 90 \/ 50 <= c <= 55.

Lemma b32_nopad_chars bs : Forall base32_upper_char (b32_nopad bs).
Proof.
  eapply Forall_impl; [|apply b32_nopad_good]. intros c [v G]. unfold base32_upper_char.
  pose proof (gc_alpha _ _ G) as A. pose proof (gc_upper _ _ G) as U. pose proof (gc_noteq _ _ G) as E.
  unfold in_alphabet_ci, upper_ascii in *.
  destruct ((97 <=? c) && (c <=? 122)) eqn:E1; lia.
Qed.

(** what one successful call returns *)
Definition good_secret (s : stream) (pos : nat) (out : bytes) : Prop :=
  exists n, In n [20; 32; 64]%nat /\ out = b32_nopad (take s pos n) /\
            decode_secret out = Ok (take s pos n) /\ Forall base32_upper_char out.

Theorem random_secret_spec algo s pos :
  wf_stream s ->
  match random_secret algo s pos with
  | (Ok out, pos') => exists n, secret_size algo = Some n /\ pos' = (pos + n)%nat /\ good_secret s pos out /\
                                out = b32_nopad (take s pos n)
  | (Err _, pos') => secret_size algo = None /\ pos' = pos        (* an error and no secret: the stream is untouched *)
  | (Panic, _) => False
  end.
Proof.
  intros Hs. unfold random_secret. destruct (secret_size algo) as [n|] eqn:E; [|split; reflexivity].
  exists n. repeat split; try reflexivity.
  exists n. repeat split.
  - unfold secret_size in E. destruct algo as [|[[q|q|]|[q|q|]|]]; inversion E; cbn [In]; auto.
  - apply decode_nopad. apply take_wf. exact Hs.
  - apply b32_nopad_chars.
Qed.

(** every call history: results are encodings of consecutive, hence disjoint, stream intervals *)
Inductive history_ok (s : stream) : nat -> list (nat * outcome bytes) -> Prop :=
| H_nil pos : history_ok s pos []
| H_ok pos out n rest :
    In n [20; 32; 64]%nat -> out = b32_nopad (take s pos n) -> decode_secret out = Ok (take s pos n) ->
    Forall base32_upper_char out ->
    history_ok s (pos + n) rest -> history_ok s pos ((pos, Ok out) :: rest)
| H_err pos e rest : history_ok s pos rest -> history_ok s pos ((pos, Err e) :: rest).

Theorem run_calls_history s : wf_stream s -> forall algos pos, history_ok s pos (run_calls s pos algos).
Proof.
  intros Hs. induction algos as [|a rest IH]; intros pos; cbn [run_calls]; [constructor|].
  pose proof (random_secret_spec a s pos Hs) as H.
  destruct (random_secret a s pos) as [[out|e|] pos'].
  - destruct H as (n & Hsz & -> & (n' & Hin & Hout & Hdec & Hch) & Hout2).
    assert (n' = n) as ->.
    { rewrite Hout in Hout2. apply (f_equal decode_secret) in Hout2.
      rewrite !decode_nopad in Hout2 by (apply take_wf; exact Hs). inversion Hout2 as [E].
      apply (f_equal (@length N)) in E. rewrite !take_length in E. exact E. }
    eapply H_ok; eauto.
  - destruct H as [_ ->]. constructor. apply IH.
  - contradiction.
Qed.
