// Runs correspondence cases against a freshly built js/wasm module under Node.
//   node runner.js <dir> <cases-file> <out-file>
// <dir>/src/index.js and <dir>/src/wasm_exec.js are copies of the package's own entry module,
// <dir>/lib/otp.wasm is the module built from the working tree.  One answer per case line.
// (Go logs with println to stdout/stderr, so answers go to a file.)
const fs = require("fs");
const path = require("path");
const dir = path.resolve(process.argv[2]);
const cases = fs.readFileSync(process.argv[3], "utf8").split("\n").filter((l) => l.length > 0);
const outFile = process.argv[4];

function decodeArg(a) {
  const k = a[0], rest = a.slice(1);
  switch (k) {
    case "s": return Buffer.from(rest, "hex").toString("utf8");
    case "n":
      if (rest === "NaN") return NaN;
      if (rest === "Inf") return Infinity;
      if (rest === "-Inf") return -Infinity;
      if (rest === "-0") return -0;
      return Number(rest);
    case "q": { // a fractional number whose truncation toward zero is the given integer
      if (rest === "-0") return -0.5;
      const z = Number(rest);
      return z < 0 ? z - 0.5 : z + 0.5;
    }
    case "b": return rest === "1";
    case "u": return undefined;
    case "l": return null;
    case "o": return {};
    case "a": return [1, 2];
    case "f": return () => 1;
    case "y": return Symbol("x");
    case "g": return 10n;
  }
  throw new Error("bad arg " + a);
}
function render(v) {
  if (typeof v === "string") return "s:" + Buffer.from(v, "utf8").toString("hex");
  if (typeof v === "boolean") return "b:" + v;
  return "t:" + typeof v;
}

const globalsBefore = new Set(Object.getOwnPropertyNames(globalThis));
const init = require(path.join(dir, "src", "index.js"));
const quiet = console.log;
console.log = () => {};
init().then((exportsObj) => {
  const out = [];
  for (const line of cases) {
    const f = line.split(" ");
    try {
      if (f[0] === "wcall") {
        const fn = f[2] === "e" ? exportsObj[f[1]] : globalThis[f[1]];
        if (typeof fn !== "function") { out.push("nofunc"); continue; }
        out.push(render(fn.apply(null, f.slice(3).map(decodeArg))));
      } else if (f[0] === "wglobals") {
        // the functions the Go program registered on the global object, and which of them each export is
        const added = Object.getOwnPropertyNames(globalThis).filter((n) => !globalsBefore.has(n) && typeof globalThis[n] === "function" && n !== "Go").sort();
        const exp = Object.keys(exportsObj).sort().map((n) => n + "=" + (added.find((g) => globalThis[g] === exportsObj[n]) || "?"));
        out.push("ok:" + added.join(",") + "|" + exp.join(","));
      } else if (f[0] === "wexports") {
        const names = Object.keys(exportsObj).sort();
        out.push("ok:" + names.map((n) => n + "=" + (typeof exportsObj[n] === "function" && exportsObj[n] === globalThis[n] ? "1" : "0")).join(","));
      } else {
        out.push("unknown-op");
      }
    } catch (e) {
      out.push("throw");
    }
  }
  fs.writeFileSync(outFile, out.join("\n") + "\n");
  process.exit(0);
}).catch((e) => { fs.writeFileSync(outFile, "init-failed " + e + "\n"); process.exit(3); });
