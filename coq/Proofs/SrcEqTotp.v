(** totp.go and TimeCounterFunc as translated from the Go source
    (Generated/Src.v) compute what the hand-written model computes. *)
From Coq Require Import ZifyN ZifyNat ZifyBool String.
From OtpV Require Import Prelude Sha Tables GoSem Errors Decoder Derive Otp Suite Src SrcLift SrcEqDecode SrcEqDerive SrcEqValidate.
Open Scope N_scope.
Ltac Zify.zify_post_hook ::= Z.div_mod_to_equations.

(** ---------- TimeCounterFunc, GenerateTOTP, ValidateTOTP ---------- *)
Lemma src_TimeCounterFunc_eq t period : Src.TimeCounterFunc t period = lift_p (Otp.time_counter t period).
Proof. unfold Src.TimeCounterFunc, Otp.time_counter, udiv. destruct (period =? 0); reflexivity. Qed.

Lemma src_GenerateTOTP_eq fuel junk secret t p :
  (11 <= fuel)%nat -> (length secret < fuel)%nat -> small secret -> length junk = 8%nat ->
  Src.GenerateTOTP fuel junk secret t p = lift_oc (Otp.generate_totp secret t p).
Proof.
  intros Hf Hfs Hs Hj. unfold Src.GenerateTOTP, Otp.generate_totp, Otp.generate_totp_with.
  rewrite default_totp_eq.
  assert (Hk : forall q,
    (do t1 <- Src.DecodeSecret fuel secret;
     let '(secretBuf, err_) := t1 in
     if is_some err_ then Val ([], err_)
     else do t2 <- deref (Some q);
          let period := p_period t2 in
          let kj2 := fun period : N =>
            do t3 <- Src.TimeCounterFunc t period; do t4 <- deref (Some q); do t5 <- Src.Digits_Int (p_digits t4);
            do t6 <- deref (Some q); Src.deriveRFC4226 fuel junk secretBuf t3 t5 (p_alg t6) in
          if N.eqb period 0 then let period := 30 in kj2 period else kj2 period)
    = lift_oc (obind (decode_secret secret) (fun key =>
        obind (time_counter t (eff_period totp_gen_zero_period (p_period q))) (fun c =>
          derive_rfc4226_with hmac key c (Z.of_N (p_digits q)) (p_alg q))))).
  { intros q. pose proof (decode_cases fuel secret Hs Hfs) as Hd.
    destruct (decode_secret secret) as [key|e|].
    - rewrite Hd. cbn [rbind is_some deref obind]. unfold eff_period, totp_gen_zero_period.
      change (N.eqb (p_period q) 0) with (p_period q =? 0).
      assert (Hc : forall pe, (do t3 <- Src.TimeCounterFunc t pe; do t4 <- Val q; do t5 <- Src.Digits_Int (p_digits t4);
                    do t6 <- Val q; Src.deriveRFC4226 fuel junk key t3 t5 (p_alg t6))
                 = lift_oc (obind (time_counter t pe) (fun c => derive_rfc4226_with hmac key c (Z.of_N (p_digits q)) (p_alg q)))).
      { intros pe. rewrite src_TimeCounterFunc_eq. unfold time_counter. destruct (pe =? 0); [reflexivity|].
        cbn [lift_p rbind obind]. unfold Src.Digits_Int. cbn [rbind]. apply src_deriveRFC4226_eq; assumption. }
      destruct (p_period q =? 0); apply Hc.
    - destruct Hd as [b Hd]. rewrite Hd. reflexivity.
    - rewrite Hd. reflexivity. }
  destruct p as [q|]; cbn [is_some negb deref rbind]; apply Hk.
Qed.

Lemma src_ValidateTOTP_loop junk code key counter p fuel0 :
  (11 <= fuel0)%nat -> length junk = 8%nat ->
  forall n i fuel cost skew, (n < fuel)%nat -> (i + Z.of_nat n = Z.of_N skew + 1)%Z -> (-100 <= i)%Z -> (skew <= 100) ->
  Src.ValidateTOTP_loop1 fuel fuel0 junk skew code key counter (Some p) i (fun _ => fail_code)
  = lift_v (totp_loop hmac (zseq i n) code key counter (p_digits p) (p_alg p) cost).
Proof.
  intros Hf0 Hj. induction n as [|n IH]; intros i fuel cost skew Hf Hi Hlo Hhi.
  - destruct fuel as [|fuel]; [lia|]. cbn [Src.ValidateTOTP_loop1 zseq seq map totp_loop].
    assert (Hsk : to_int64 skew = Z.of_N skew).
    { unfold to_int64, two63. destruct (skew <? 9223372036854775808) eqn:E; [reflexivity|lia]. }
    rewrite Hsk. destruct (Z.leb i (Z.of_N skew)) eqn:E; [lia|]. reflexivity.
  - destruct fuel as [|fuel]; [lia|]. rewrite zseq_S. cbn [Src.ValidateTOTP_loop1 totp_loop].
    assert (Hsk : to_int64 skew = Z.of_N skew).
    { unfold to_int64, two63. destruct (skew <? 9223372036854775808) eqn:E; [reflexivity|lia]. }
    rewrite Hsk. destruct (Z.leb i (Z.of_N skew)) eqn:E; [|lia].
    rewrite !wrap_int64_small by lia. cbn [deref rbind].
    rewrite src_validateRFC4226_eq by assumption.
    assert (Hrec : forall cost', Src.ValidateTOTP_loop1 fuel fuel0 junk skew code key counter (Some p) (i + 1) (fun _ => fail_code)
                   = lift_v (totp_loop hmac (zseq (i + 1) n) code key counter (p_digits p) (p_alg p) cost')).
    { intros cost'. apply IH; lia. }
    pose proof (validate_no_err code (Z.of_N (p_digits p)) (fun _ => derive_rfc4226_with hmac key (wrap64 (counter + of_int64 i)) (Z.of_N (p_digits p)) (p_alg p))) as Hne.
    unfold validate_rfc4226 in *.
    change (N.add counter (of_int64 i)) with (counter + of_int64 i).
    destruct (Otp.validate code (Z.of_N (p_digits p)) (fun _ => derive_rfc4226_with hmac key (wrap64 (counter + of_int64 i)) (Z.of_N (p_digits p)) (p_alg p))) as [o k].
    cbn [fst] in Hne. unfold lift_v at 1. cbn [fst].
    destruct o as [[b oe]|e|]; [|exfalso; apply (Hne e); reflexivity|reflexivity].
    cbn [rbind]. destruct b, oe as [e|]; cbn [is_some negb andb]; try reflexivity; apply Hrec.
Qed.

Lemma src_ValidateTOTP_eq fuel junk secret code t p :
  (22 <= fuel)%nat -> (length secret < fuel)%nat -> small secret -> length junk = 8%nat ->
  Src.ValidateTOTP fuel junk secret code t p = lift_v (Otp.validate_totp secret code t p).
Proof.
  intros Hf Hfs Hs Hj. unfold Src.ValidateTOTP, Otp.validate_totp, Otp.validate_totp_with.
  rewrite default_totp_eq.
  assert (Hk : forall q,
    (do t1 <- deref (Some q);
     if N.ltb 10 (p_skew t1) then Val (false, Some (ESent ErrInvalidSkew))
     else do t2 <- Src.DecodeSecret fuel secret;
          let '(secretBuf, err_) := t2 in
          if is_some err_ then Val (false, err_)
          else do t3 <- deref (Some q);
               let period := p_period t3 in
               let kj2 := fun period : N =>
                 do t4 <- deref (Some q);
                 let skew_ := p_skew t4 in
                 do t5 <- Src.TimeCounterFunc t period;
                 let counter := t5 in
                 let i := wrap_int64 (Z.opp (to_int64 skew_)) in
                 Src.ValidateTOTP_loop1 fuel fuel junk skew_ code secretBuf counter (Some q) i
                   (fun _ : Z => Val (false, Some (ESent ErrInvalidCode))) in
               if N.eqb period 0 then let period := 30 in kj2 period else kj2 period)
    = lift_v (if skew_refused totp_max_skew (p_skew q) then (Ok (false, Some (ESent ErrInvalidSkew)), O)
              else match decode_secret secret with
                   | Panic => (Panic, O)
                   | Err e => (Ok (false, Some e), O)
                   | Ok key =>
                     match time_counter t (eff_period totp_val_zero_period (p_period q)) with
                     | Ok counter => totp_loop hmac (offsets (p_skew q)) code key counter (p_digits q) (p_alg q) O
                     | Err e => (Ok (false, Some e), O)
                     | Panic => (Panic, O)
                     end
                   end)).
  { intros q. cbn [deref rbind]. unfold skew_refused, totp_max_skew.
    change (N.ltb 10 (p_skew q)) with (10 <? p_skew q).
    destruct (10 <? p_skew q) eqn:Esk; [reflexivity|].
    assert (Hsk : to_int64 (p_skew q) = Z.of_N (p_skew q)).
    { unfold to_int64, two63. destruct (p_skew q <? 9223372036854775808) eqn:E; [reflexivity|lia]. }
    pose proof (decode_cases fuel secret Hs Hfs) as Hd.
    destruct (decode_secret secret) as [key|e|].
    - rewrite Hd. cbn [rbind is_some]. unfold eff_period, totp_val_zero_period.
      change (N.eqb (p_period q) 0) with (p_period q =? 0).
      assert (Hc : forall pe,
        (do t5 <- Src.TimeCounterFunc t pe;
         Src.ValidateTOTP_loop1 fuel fuel junk (p_skew q) code key t5 (Some q) (wrap_int64 (- to_int64 (p_skew q)))
           (fun _ : Z => Val (false, Some (ESent ErrInvalidCode))))
        = lift_v (match time_counter t pe with
                  | Ok counter => totp_loop hmac (offsets (p_skew q)) code key counter (p_digits q) (p_alg q) O
                  | Err e => (Ok (false, Some e), O)
                  | Panic => (Panic, O)
                  end)).
      { intros pe. rewrite src_TimeCounterFunc_eq. unfold time_counter. destruct (pe =? 0); [reflexivity|].
        cbn [lift_p rbind]. rewrite Hsk. rewrite wrap_int64_small by lia. rewrite offsets_zseq.
        apply (src_ValidateTOTP_loop junk code key (of_int64 t / pe) q fuel); lia. }
      destruct (p_period q =? 0); apply Hc.
    - destruct Hd as [b Hd]. rewrite Hd. reflexivity.
    - rewrite Hd. reflexivity. }
  destruct p as [q|]; cbn [is_some negb]; [apply Hk|].
  cbn [deref rbind]. apply (Hk default_totp_param).
Qed.
