(** C16 over the Go source (Generated/Src.v: generateOTPURL, GenerateTOTPURL, GenerateHOTPURL, ParseOTPAuthURL,
    Algorithm.String as translated from otp.go / totp.go / hotp.go; net/url, strings and strconv are the transcribed
    library functions, compared with Go's on every run). *)
From Coq Require Import String.
From OtpV Require Import Prelude GoSem Errors Utils Url UrlProofs Src SrcLift SrcEqUrl C16.
Open Scope N_scope.

Theorem C16src_roundtrip_totp : forall fuel p, wf_param p ->
  exists u u', Src.GenerateTOTPURL fuel p = Val (Some u, None) /\ u_scheme u = s2b "otpauth" /\ u_host u = s2b "totp" /\
               url_parse (url_string u) = POk u' /\
               Src.ParseOTPAuthURL (Some u') =
               Val (Some (mkUrlParam (up_issuer p) (up_account p) (eff_url_period p) (up_secret p) (eff_digits p) (up_alg p)), None).
Proof.
  intros fuel p Hw. destruct (C16_roundtrip_totp p Hw) as (u & u' & Hg & Hs & Hh & Hp & Hs' & Hh' & Hr).
  exists u, u'. rewrite src_GenerateTOTPURL_eq, Hg. repeat split; try assumption.
  rewrite src_ParseOTPAuthURL_eq; [rewrite Hr; reflexivity|].
  intros x Hx. inversion Hx; subst x. rewrite Hh'. reflexivity.
Qed.
Print Assumptions C16src_roundtrip_totp.

Theorem C16src_roundtrip_hotp : forall fuel p, wf_param p ->
  exists u u', Src.GenerateHOTPURL fuel p = Val (Some u, None) /\ u_scheme u = s2b "otpauth" /\ u_host u = s2b "hotp" /\
               url_parse (url_string u) = POk u' /\
               Src.ParseOTPAuthURL (Some u') =
               Val (Some (mkUrlParam (up_issuer p) (up_account p) 30 (up_secret p) (eff_digits p) (up_alg p)), None).
Proof.
  intros fuel p Hw. destruct (C16_roundtrip_hotp p Hw) as (u & u' & Hg & Hs & Hh & Hp & Hs' & Hh' & Hr).
  exists u, u'. rewrite src_GenerateHOTPURL_eq, Hg. repeat split; try assumption.
  rewrite src_ParseOTPAuthURL_eq; [rewrite Hr; reflexivity|].
  intros x Hx. inversion Hx; subst x. rewrite Hh'. reflexivity.
Qed.
Print Assumptions C16src_roundtrip_hotp.

(** parsing any URL (with an ASCII host) either fails or returns exactly the numbers written in it *)
Theorem C16src_exact_numbers : forall u p, all_ascii (u_host u) = true ->
  Src.ParseOTPAuthURL (Some u) = Val (Some p, None) ->
  let q := parse_query (u_rawquery u) in
  (query_get (s2b "digits") q = [] /\ up_digits p = 6 \/
   exists z, atoi (query_get (s2b "digits") q) = Some z /\ (0 <= z <= 255)%Z /\ Z.of_N (up_digits p) = z) /\
  (query_get (s2b "period") q = [] /\ up_period p = 30 \/
   exists z, atoi (query_get (s2b "period") q) = Some z /\ (0 <= z)%Z /\ Z.of_N (up_period p) = z).
Proof.
  intros u p Ha H. rewrite src_ParseOTPAuthURL_eq in H by (intros x Hx; inversion Hx; subst; exact Ha).
  destruct (parse_otpauth_url (Some u)) as [p'|e|] eqn:E; cbn [lift_up] in H; try discriminate.
  inversion H; subst p'. apply (C16_exact_numbers u p E).
Qed.
Print Assumptions C16src_exact_numbers.

Theorem C16src_required_fields : forall fuel p,
  (up_issuer p = [] -> Src.GenerateTOTPURL fuel p = Val (None, Some (ESent ErrIssuerRequired))) /\
  (up_issuer p <> [] -> up_account p = [] -> Src.GenerateTOTPURL fuel p = Val (None, Some (ESent ErrAccountNameRequired))).
Proof.
  intros fuel p. rewrite src_GenerateTOTPURL_eq. unfold generate_totp_url, generate_otp_url. split.
  - intros H. rewrite H. reflexivity.
  - intros H1 H2. destruct (up_issuer p) as [|c t]; [congruence|]. rewrite H2. reflexivity.
Qed.
Print Assumptions C16src_required_fields.

Example C16src_example :
  (exists e, Src.ParseOTPAuthURL (Some (mkUrl (s2b "otpauth") [] false (s2b "totp") (s2b "/a:b") [] false (s2b "digits=262") [])) = Val (None, Some e)) /\
  (exists e, Src.ParseOTPAuthURL (Some (mkUrl (s2b "otpauth") [] false (s2b "totp") (s2b "/a:b") [] false (s2b "period=-1") [])) = Val (None, Some e)).
Proof. split; eexists; vm_compute; reflexivity. Qed.
