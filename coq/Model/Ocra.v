(** Model of ocra.go, derive_rfc6287.go, SuiteConfig.Validate (suite_rfc6287.go),
    OCRAInput.Validate and challengeLength (otp.go). *)
From OtpV Require Import Prelude Sha Tables Errors Decoder Derive Otp.
Open Scope N_scope.

Record suite_cfg := mkSuite {
  sc_raw : bytes;
  sc_hash : N;            (* Algorithm, uint8 *)
  sc_digits : Z;          (* int *)
  sc_challenge : Z;       (* ChallengeFormat, int *)
  sc_c : bool; sc_q : bool; sc_p : bool; sc_s : bool; sc_t : bool;
  sc_pwhash : Z;          (* PasswordHashAlgorithm, int *)
  sc_timestep : Z         (* int *)
}.

Record ocra_input := mkInput {
  oi_counter : bytes; oi_challenge : bytes; oi_password : bytes; oi_session : bytes; oi_timestamp : bytes
}.

(** func (cfg SuiteConfig) Validate() error *)
Definition suite_validate (cfg : suite_cfg) : option err :=
  if (sc_digits cfg <? 4)%Z || (10 <? sc_digits cfg)%Z then Some (EFmt T_digit_len [sc_digits cfg] [])
  else if negb ((Z.of_N (sc_hash cfg) =? c_SHA1)%Z || (Z.of_N (sc_hash cfg) =? c_SHA256)%Z || (Z.of_N (sc_hash cfg) =? c_SHA512)%Z)
       then Some (EFmt T_bad_hash [Z.of_N (sc_hash cfg)] [])
  else if sc_p cfg && (sc_pwhash cfg =? c_PasswordNone)%Z then Some (EFmt T_pw_nohash [] [])
  else if sc_t cfg && (sc_timestep cfg <=? 0)%Z then Some (EFmt T_bad_step [sc_timestep cfg] [])
  else if sc_q cfg && (sc_challenge cfg =? c_ChallengeNone)%Z then Some (EFmt T_no_format [] [])
  else None.

(** func challengeLength(format ChallengeFormat) int *)
Definition challenge_length (f : Z) : Z :=
  if (f =? c_ChallengeNumeric08)%Z || (f =? c_ChallengeAlpha08)%Z || (f =? c_ChallengeHex08)%Z then 8%Z
  else if (f =? c_ChallengeNumeric10)%Z || (f =? c_ChallengeAlpha10)%Z || (f =? c_ChallengeHex10)%Z then 10%Z
  else 0%Z.

(** func (in OCRAInput) Validate(cfg SuiteConfig) error *)
Definition input_validate (cfg : suite_cfg) (i : ocra_input) : option err :=
  if sc_c cfg && negb (zlen (oi_counter i) =? 8)%Z then Some (EFmt T_counter_len [zlen (oi_counter i)] [])
  else if sc_q cfg && (zlen (oi_challenge i) <? challenge_length (sc_challenge cfg))%Z
       then Some (EFmt T_chal_short [challenge_length (sc_challenge cfg); zlen (oi_challenge i)] [])
  else if sc_q cfg && (128 <? zlen (oi_challenge i))%Z then Some (EFmt T_chal_long [zlen (oi_challenge i)] [])
  else if sc_p cfg && (zlen (oi_password i) =? 0)%Z then Some (EFmt T_pw_missing [] [])
  else if sc_p cfg && (sc_pwhash cfg =? c_PasswordSHA1)%Z && negb (zlen (oi_password i) =? 20)%Z
       then Some (EFmt T_pw_sha1 [zlen (oi_password i)] [])
  else if sc_p cfg && (sc_pwhash cfg =? c_PasswordSHA256)%Z && negb (zlen (oi_password i) =? 32)%Z
       then Some (EFmt T_pw_sha256 [zlen (oi_password i)] [])
  else if sc_p cfg && (sc_pwhash cfg =? c_PasswordSHA512)%Z && negb (zlen (oi_password i) =? 64)%Z
       then Some (EFmt T_pw_sha512 [zlen (oi_password i)] [])
  else if sc_s cfg && (128 <? zlen (oi_session i))%Z then Some (EFmt T_sess_long [zlen (oi_session i)] [])
  else if sc_t cfg && negb (zlen (oi_timestamp i) =? 8)%Z then Some (EFmt T_ts_len [zlen (oi_timestamp i)] [])
  else None.

(** the message assembled by deriveRFC6287 (append into the pooled buffer; value only) *)
Definition ocra_message (cfg : suite_cfg) (i : ocra_input) : outcome bytes :=
  let app (cond : bool) (part : outcome bytes) (k : bytes -> outcome bytes) (msg : bytes) :=
      if cond then obind part (fun p => k (msg ++ p)) else k msg in
  app (sc_c cfg) (pad_bytes (oi_counter i) 8)
   (app (sc_q cfg) (pad_bytes (oi_challenge i) 128)
    (app (sc_p cfg) (Ok (oi_password i))
     (app (sc_s cfg) (pad_bytes (oi_session i) 128)
      (app (sc_t cfg) (pad_bytes (oi_timestamp i) 8)
       (fun m => Ok m)))))
   (sc_raw cfg ++ [separator]).

Section WithHmac.
  Variable hm : alg -> bytes -> bytes -> bytes.

  (** func deriveRFC6287(secret []byte, s Suite, input OCRAInput) (string, error)
      (Suite is RawSuite or SuiteConfig: Validate and Config are those of the configuration) *)
  Definition derive_rfc6287_with (secret : bytes) (cfg : suite_cfg) (i : ocra_input) : outcome bytes :=
    match suite_validate cfg with
    | Some e => Err e
    | None =>
      match input_validate cfg i with
      | Some e => Err e
      | None =>
        obind (ocra_message cfg i) (fun msg =>
        match alg_of_N (sc_hash cfg) with
        | None => Panic                                       (* hmacPools[cfg.Hash] *)
        | Some a =>
          let sum := hm a secret msg in
          obind (mod10_at (sc_digits cfg)) (fun md =>
          obind (truncate sum md) (fun otp => format_decimal otp (sc_digits cfg)))
        end)
      end
    end.

  Definition generate_ocra_with (secret : bytes) (cfg : suite_cfg) (i : ocra_input) : outcome bytes :=
    obind (decode_secret secret) (fun key => derive_rfc6287_with key cfg i).

  Definition validate_ocra_with (secret code : bytes) (cfg : suite_cfg) (i : ocra_input)
    : outcome verdict * nat :=
    match decode_secret secret with
    | Panic => (Panic, O)
    | Err e => (Ok (false, Some e), O)
    | Ok key => validate code (sc_digits cfg) (fun _ => derive_rfc6287_with key cfg i)
    end.
End WithHmac.

Definition derive_rfc6287 := derive_rfc6287_with hmac.
Definition generate_ocra := generate_ocra_with hmac.
Definition validate_ocra := validate_ocra_with hmac.
