(* GENERATED from the Go sources of /repo by /verif/tools/gen_model — do not edit. *)
From Coq Require Import String.
From OtpV Require Import Prelude Sha GoSem Rfc4648 Errors Decoder Otp Ocra Utils Suite Url.
Open Scope N_scope.

From OtpV Require Import Wasm Src SrcWasm.
Definition js_type_go (v : jsval) : res bytes := match js_type_name v with Some n => Val n | None => Pnc end.
Definition js_string_go (v : jsval) : bytes := match v with JStr s => s | _ => [] end.
Definition js_int_go (v : jsval) : res Z := match v with JNum n => Val (js_int n) | _ => Pnc end.
Definition idxJ (l : list jsval) (i : Z) : res jsval := if (i <? 0)%Z then Pnc else match nth_error l (Z.to_nat i) with Some v => Val v | None => Pnc end.
Definition err_text (e : err) : bytes := match render e with Some t => t | None => s2b "?" end.

Definition parseStringArg (arg : jsval) (name : bytes) : res (bytes * (option bytes)) :=
  do t1 <- js_type_go arg;
  if (negb (beqb t1 (s2b "string"))) then (do t2 <- js_type_go arg;
  Val ([], (Some (name ++ [32; 109; 117; 115; 116; 32; 98; 101; 32; 97; 32; 115; 116; 114; 105; 110; 103; 44; 32; 103; 111; 116; 32] ++ t2))))
  else
  let value := (js_string_go arg) in
  if (beqb value []) then (Val ([], (Some (name ++ [32; 99; 97; 110; 110; 111; 116; 32; 98; 101; 32; 101; 109; 112; 116; 121]))))
  else
  Val (value, None).

Definition parseIntArg (arg : jsval) (name : bytes) : res (Z * (option bytes)) :=
  do t1 <- js_type_go arg;
  if (negb (beqb t1 (s2b "number"))) then (do t2 <- js_type_go arg;
  Val (0%Z, (Some (name ++ [32; 109; 117; 115; 116; 32; 98; 101; 32; 97; 32; 110; 117; 109; 98; 101; 114; 44; 32; 103; 111; 116; 32] ++ t2))))
  else
  do t3 <- js_int_go arg;
  let value := t3 in
  if (Z.ltb value 0%Z) then (Val (0%Z, (Some (name ++ [32; 109; 117; 115; 116; 32; 98; 101; 32; 110; 111; 110; 45; 110; 101; 103; 97; 116; 105; 118; 101; 44; 32; 103; 111; 116; 32] ++ (dec_of_Z value)))))
  else
  Val (value, None).

Definition generateOTP (fuel0 : nat) (secret : bytes) (counter : N) (digits : N) (algo : N) : res (bytes * (option bytes)) :=
  do t1 <- Src.DecodeSecret fuel0 secret;
  let t2 := (fst t1, option_map err_text (snd t1)) in
  let '(secBuf, err_) := t2 in
  if (is_some err_) then (do t3 <- deref err_;
  Val ([], (Some ([105; 110; 118; 97; 108; 105; 100; 32; 115; 101; 99; 114; 101; 116; 32; 45; 32] ++ t3))))
  else
  do t4 <- Src.Digits_Int digits;
  do t5 <- SrcWasm.DeriveRFC4226Wasm fuel0 secBuf counter t4 algo;
  let t6 := (fst t5, option_map err_text (snd t5)) in
  let '(code, err_) := t6 in
  if (is_some err_) then (do t7 <- deref err_;
  Val ([], (Some ([102; 97; 105; 108; 101; 100; 32; 116; 111; 32; 103; 101; 110; 101; 114; 97; 116; 101; 32; 79; 84; 80; 32; 45; 32] ++ t7))))
  else
  Val (code, None).

Definition parseArgsAndGenerate (fuel0 : nat) (args : (list jsval)) (otpType : bytes) : res (bytes * (option bytes)) :=
  if (negb (Z.eqb (zlen args) 4%Z)) then (Val ([], (Some ([101; 120; 112; 101; 99; 116; 101; 100; 32; 52; 32; 97; 114; 103; 117; 109; 101; 110; 116; 115; 32; 102; 111; 114; 32] ++ otpType ++ [32; 40; 115; 101; 99; 114; 101; 116; 44; 32] ++ (query_get otpType [((s2b "HOTP"), (s2b "counter")); ((s2b "TOTP"), (s2b "timestamp"))]) ++ [44; 32; 100; 105; 103; 105; 116; 115; 44; 32; 97; 108; 103; 111; 41; 44; 32; 103; 111; 116; 32] ++ (dec_of_Z (zlen args))))))
  else
  do t1 <- idxJ args 0%Z;
  do t2 <- parseStringArg t1 (s2b "secret");
  let '(secret, err_) := t2 in
  if (is_some err_) then (Val ([], err_))
  else
  do t3 <- idxJ args 1%Z;
  do t4 <- parseIntArg t3 (query_get otpType [((s2b "HOTP"), (s2b "counter")); ((s2b "TOTP"), (s2b "timestamp"))]);
  let '(counter, err_) := t4 in
  if (is_some err_) then (Val ([], err_))
  else
  do t5 <- idxJ args 2%Z;
  do t6 <- parseStringArg t5 (s2b "digits");
  let '(digitsRaw, err_) := t6 in
  if (is_some err_) then (Val ([], err_))
  else
  do t7 <- idxJ args 3%Z;
  do t8 <- parseStringArg t7 (s2b "algo");
  let '(algoRaw, err_) := t8 in
  if (is_some err_) then (Val ([], err_))
  else
  do t9 <- Src.DigitsFromStr digitsRaw;
  let digits := t9 in
  do t10 <- Src.AlgorithmFromStr algoRaw;
  let algo := t10 in
  generateOTP fuel0 secret (of_int64 counter) digits algo.

Definition generateHOTP (fuel0 : nat) (blank : jsval) (args : (list jsval)) : res wres :=
  do t1 <- parseArgsAndGenerate fuel0 args (s2b "HOTP");
  let '(result, err_) := t1 in
  if (is_some err_) then (do t2 <- deref err_;
  Val (WStr ([101; 114; 114; 111; 114; 58; 32] ++ t2)))
  else
  Val (WStr result).

Definition generateTOTP (fuel0 : nat) (blank : jsval) (args : (list jsval)) : res wres :=
  if (negb (Z.eqb (zlen args) 5%Z)) then (let err_ := (Some ([101; 120; 112; 101; 99; 116; 101; 100; 32; 53; 32; 97; 114; 103; 117; 109; 101; 110; 116; 115; 32; 102; 111; 114; 32; 84; 79; 84; 80; 32; 40; 115; 101; 99; 114; 101; 116; 44; 32; 116; 105; 109; 101; 115; 116; 97; 109; 112; 44; 32; 100; 105; 103; 105; 116; 115; 44; 32; 97; 108; 103; 111; 44; 32; 112; 101; 114; 105; 111; 100; 41; 44; 32; 103; 111; 116; 32] ++ (dec_of_Z (zlen args)))) in
  do t1 <- deref err_;
  Val (WStr ((s2b "error: ") ++ t1)))
  else
  do t2 <- idxJ args 0%Z;
  do t3 <- parseStringArg t2 (s2b "secret");
  let '(secret, err__2) := t3 in
  if (is_some err__2) then (do t4 <- deref err__2;
  Val (WStr ((s2b "error: ") ++ t4)))
  else
  do t5 <- idxJ args 1%Z;
  do t6 <- parseIntArg t5 (s2b "timestamp");
  let '(timestamp, err__2) := t6 in
  if (is_some err__2) then (do t7 <- deref err__2;
  Val (WStr ((s2b "error: ") ++ t7)))
  else
  do t8 <- idxJ args 2%Z;
  do t9 <- parseStringArg t8 (s2b "digits");
  let '(digitsRaw, err__2) := t9 in
  if (is_some err__2) then (do t10 <- deref err__2;
  Val (WStr ((s2b "error: ") ++ t10)))
  else
  do t11 <- idxJ args 3%Z;
  do t12 <- parseStringArg t11 (s2b "algo");
  let '(algoRaw, err__2) := t12 in
  if (is_some err__2) then (do t13 <- deref err__2;
  Val (WStr ((s2b "error: ") ++ t13)))
  else
  do t14 <- idxJ args 4%Z;
  do t15 <- parseIntArg t14 (s2b "period");
  let '(period, err__2) := t15 in
  if (is_some err__2) then (do t16 <- deref err__2;
  Val (WStr ((s2b "error: ") ++ t16)))
  else
  if ((Z.leb period 0%Z) || (Z.ltb 3600%Z period)) then (let err__3 := (Some ([112; 101; 114; 105; 111; 100; 32; 109; 117; 115; 116; 32; 98; 101; 32; 98; 101; 116; 119; 101; 101; 110; 32; 49; 32; 97; 110; 100; 32; 51; 54; 48; 48; 32; 115; 101; 99; 111; 110; 100; 115; 44; 32; 103; 111; 116; 32] ++ (dec_of_Z period))) in
  do t17 <- deref err__3;
  Val (WStr ((s2b "error: ") ++ t17)))
  else
  do t18 <- Src.DigitsFromStr digitsRaw;
  let digits := t18 in
  do t19 <- Src.AlgorithmFromStr algoRaw;
  let algo := t19 in
  let t := timestamp in
  do t20 <- Src.TimeCounterFunc t (of_int64 period);
  let counter := t20 in
  do t21 <- generateOTP fuel0 secret counter digits algo;
  let '(code, err__2) := t21 in
  if (is_some err__2) then (do t22 <- deref err__2;
  Val (WStr ((s2b "error: ") ++ t22)))
  else
  Val (WStr code).

Fixpoint validateHOTP_loop1 (fuel : nat) (fuel0 : nat)  (skew : Z) (counter : Z) (code : bytes) (secretBuf : bytes) (digits : N) (algo : N) (i : Z) (kx : Z -> res wres) {struct fuel} : res wres :=
  match fuel with O => OutOfFuel | S fuel =>
  if (Z.leb i skew) then (let currCounter := (wrap_int64 (Z.add counter i)) in
  if (Z.ltb currCounter 0%Z) then (let i := (wrap_int64 (Z.add i 1%Z)) in
  validateHOTP_loop1 fuel fuel0  skew counter code secretBuf digits algo i kx)
  else
  do t25 <- SrcWasm.ValidateOTPWasm fuel0 code secretBuf (of_int64 currCounter) digits algo;
  let t26 := (fst t25, option_map err_text (snd t25)) in
  let '(valid, err__3) := t26 in
  if ((negb (is_some err__3)) && valid) then (Val (WBool true))
  else
  let i := (wrap_int64 (Z.add i 1%Z)) in
  validateHOTP_loop1 fuel fuel0  skew counter code secretBuf digits algo i kx)
  else kx i
  end.

Definition validateHOTP (fuel0 : nat) (blank : jsval) (args : (list jsval)) : res wres :=
  if (negb (Z.eqb (zlen args) 6%Z)) then (let err_ := (Some ([101; 120; 112; 101; 99; 116; 101; 100; 32; 54; 32; 97; 114; 103; 117; 109; 101; 110; 116; 115; 58; 32; 115; 101; 99; 114; 101; 116; 44; 32; 99; 111; 100; 101; 44; 32; 99; 111; 117; 110; 116; 101; 114; 44; 32; 100; 105; 103; 105; 116; 115; 44; 32; 97; 108; 103; 111; 44; 32; 115; 107; 101; 119; 59; 32; 103; 111; 116; 32] ++ (dec_of_Z (zlen args)))) in
  do t1 <- deref err_;
  Val (WStr ((s2b "error: ") ++ t1)))
  else
  do t2 <- idxJ args 0%Z;
  do t3 <- parseStringArg t2 (s2b "secret");
  let '(secretStr, err__2) := t3 in
  if (is_some err__2) then (do t4 <- deref err__2;
  Val (WStr ((s2b "error: ") ++ t4)))
  else
  do t5 <- idxJ args 1%Z;
  do t6 <- parseStringArg t5 (s2b "code");
  let '(code, err__2) := t6 in
  if (is_some err__2) then (do t7 <- deref err__2;
  Val (WStr ((s2b "error: ") ++ t7)))
  else
  do t8 <- idxJ args 2%Z;
  do t9 <- parseIntArg t8 (s2b "counter");
  let '(counter, err__2) := t9 in
  if (is_some err__2) then (do t10 <- deref err__2;
  Val (WStr ((s2b "error: ") ++ t10)))
  else
  do t11 <- idxJ args 3%Z;
  do t12 <- parseStringArg t11 (s2b "digits");
  let '(digitsStr, err__2) := t12 in
  if (is_some err__2) then (do t13 <- deref err__2;
  Val (WStr ((s2b "error: ") ++ t13)))
  else
  do t14 <- idxJ args 4%Z;
  do t15 <- parseStringArg t14 (s2b "algo");
  let '(algoStr, err__2) := t15 in
  if (is_some err__2) then (do t16 <- deref err__2;
  Val (WStr ((s2b "error: ") ++ t16)))
  else
  do t17 <- idxJ args 5%Z;
  do t18 <- parseIntArg t17 (s2b "skew");
  let '(skew, err__2) := t18 in
  if (is_some err__2) then (do t19 <- deref err__2;
  Val (WStr ((s2b "error: ") ++ t19)))
  else
  if ((Z.ltb skew 0%Z) || (Z.ltb 10%Z skew)) then (Val (WStr (s2b "error: skew must be in range [0,10]")))
  else
  do t20 <- Src.DigitsFromStr digitsStr;
  let digits := t20 in
  do t21 <- Src.AlgorithmFromStr algoStr;
  let algo := t21 in
  do t22 <- Src.DecodeSecret fuel0 secretStr;
  let t23 := (fst t22, option_map err_text (snd t22)) in
  let '(secretBuf, err__2) := t23 in
  if (is_some err__2) then (do t24 <- deref err__2;
  Val (WStr ((s2b "error: invalid secret - ") ++ t24)))
  else
  let i := (wrap_int64 (Z.opp skew)) in
  validateHOTP_loop1 fuel0 fuel0 skew counter code secretBuf digits algo i (fun (i : Z) =>
  Val (WBool false)).

Fixpoint validateTOTP_loop1 (fuel : nat) (fuel0 : nat)  (skew : Z) (code : bytes) (secretBuf : bytes) (counter : N) (digits : N) (algo : N) (timestamp : Z) (i : Z) (kx : Z -> res wres) {struct fuel} : res wres :=
  match fuel with O => OutOfFuel | S fuel =>
  if (Z.leb i skew) then (do t30 <- SrcWasm.ValidateOTPWasm fuel0 code secretBuf (wrap64 (N.add counter (of_int64 i))) digits algo;
  let t31 := (fst t30, option_map err_text (snd t30)) in
  let '(valid, err__4) := t31 in
  if ((negb (is_some err__4)) && valid) then (Val (WBool true))
  else
  let i := (wrap_int64 (Z.add i 1%Z)) in
  validateTOTP_loop1 fuel fuel0  skew code secretBuf counter digits algo timestamp i kx)
  else kx i
  end.

Definition validateTOTP (fuel0 : nat) (blank : jsval) (args : (list jsval)) : res wres :=
  if (negb (Z.eqb (zlen args) 7%Z)) then (let err_ := (Some ([101; 120; 112; 101; 99; 116; 101; 100; 32; 55; 32; 97; 114; 103; 117; 109; 101; 110; 116; 115; 58; 32; 115; 101; 99; 114; 101; 116; 44; 32; 99; 111; 100; 101; 44; 32; 116; 105; 109; 101; 115; 116; 97; 109; 112; 44; 32; 100; 105; 103; 105; 116; 115; 44; 32; 97; 108; 103; 111; 44; 32; 115; 107; 101; 119; 44; 32; 112; 101; 114; 105; 111; 100; 59; 32; 103; 111; 116; 32] ++ (dec_of_Z (zlen args)))) in
  do t1 <- deref err_;
  Val (WStr ((s2b "error: ") ++ t1)))
  else
  do t2 <- idxJ args 0%Z;
  do t3 <- parseStringArg t2 (s2b "secret");
  let '(secretStr, err__2) := t3 in
  if (is_some err__2) then (do t4 <- deref err__2;
  Val (WStr ((s2b "error: ") ++ t4)))
  else
  do t5 <- idxJ args 1%Z;
  do t6 <- parseStringArg t5 (s2b "code");
  let '(code, err__2) := t6 in
  if (is_some err__2) then (do t7 <- deref err__2;
  Val (WStr ((s2b "error: ") ++ t7)))
  else
  do t8 <- idxJ args 2%Z;
  do t9 <- parseIntArg t8 (s2b "timestamp");
  let '(timestamp, err__2) := t9 in
  if (is_some err__2) then (do t10 <- deref err__2;
  Val (WStr ((s2b "error: ") ++ t10)))
  else
  if (Z.ltb timestamp 0%Z) then (Val (WStr (s2b "error: timestamp must be non-negative")))
  else
  do t11 <- idxJ args 3%Z;
  do t12 <- parseStringArg t11 (s2b "digits");
  let '(digitsStr, err__2) := t12 in
  if (is_some err__2) then (do t13 <- deref err__2;
  Val (WStr ((s2b "error: ") ++ t13)))
  else
  do t14 <- idxJ args 4%Z;
  do t15 <- parseStringArg t14 (s2b "algo");
  let '(algoStr, err__2) := t15 in
  if (is_some err__2) then (do t16 <- deref err__2;
  Val (WStr ((s2b "error: ") ++ t16)))
  else
  do t17 <- idxJ args 5%Z;
  do t18 <- parseIntArg t17 (s2b "skew");
  let '(skew, err__2) := t18 in
  if (is_some err__2) then (do t19 <- deref err__2;
  Val (WStr ((s2b "error: ") ++ t19)))
  else
  if ((Z.ltb skew 0%Z) || (Z.ltb 10%Z skew)) then (let err__3 := (Some ([115; 107; 101; 119; 32; 109; 117; 115; 116; 32; 98; 101; 32; 105; 110; 32; 114; 97; 110; 103; 101; 32; 91; 48; 44; 49; 48; 93])) in
  do t20 <- deref err__3;
  Val (WStr ((s2b "error: ") ++ t20)))
  else
  do t21 <- idxJ args 6%Z;
  do t22 <- parseIntArg t21 (s2b "period");
  let '(period, err__2) := t22 in
  if (is_some err__2) then (do t23 <- deref err__2;
  Val (WStr ((s2b "error: ") ++ t23)))
  else
  if (Z.leb period 0%Z) then (Val (WStr (s2b "error: period must be > 0")))
  else
  do t24 <- Src.DigitsFromStr digitsStr;
  let digits := t24 in
  do t25 <- Src.AlgorithmFromStr algoStr;
  let algo := t25 in
  do t26 <- Src.DecodeSecret fuel0 secretStr;
  let t27 := (fst t26, option_map err_text (snd t26)) in
  let '(secretBuf, err__2) := t27 in
  if (is_some err__2) then (do t28 <- deref err__2;
  Val (WStr ((s2b "error: invalid secret - ") ++ t28)))
  else
  let t := timestamp in
  do t29 <- Src.TimeCounterFunc t (of_int64 period);
  let counter := t29 in
  let i := (wrap_int64 (Z.opp skew)) in
  validateTOTP_loop1 fuel0 fuel0 skew code secretBuf counter digits algo timestamp i (fun (i : Z) =>
  Val (WBool false)).

Definition generateOTPURL (fuel0 : nat) (blank : jsval) (args : (list jsval)) : res wres :=
  if (negb (Z.eqb (zlen args) 6%Z)) then (let err_ := (Some ([101; 120; 112; 101; 99; 116; 101; 100; 32; 54; 32; 97; 114; 103; 117; 109; 101; 110; 116; 115; 32; 40; 111; 116; 112; 44; 32; 105; 115; 115; 117; 101; 114; 44; 32; 97; 99; 99; 111; 117; 110; 116; 78; 97; 109; 101; 44; 32; 115; 101; 99; 114; 101; 116; 44; 32; 100; 105; 103; 105; 116; 115; 44; 32; 97; 108; 103; 111; 114; 105; 116; 104; 109; 41; 44; 32; 103; 111; 116; 32] ++ (dec_of_Z (zlen args)))) in
  do t1 <- deref err_;
  Val (WStr ((s2b "error: ") ++ t1)))
  else
  do t2 <- idxJ args 0%Z;
  do t3 <- parseStringArg t2 (s2b "otp");
  let '(otpType, err__2) := t3 in
  if (is_some err__2) then (do t4 <- deref err__2;
  Val (WStr ((s2b "error: ") ++ t4)))
  else
  do t5 <- idxJ args 1%Z;
  do t6 <- parseStringArg t5 (s2b "issuer");
  let '(issuer, err__2) := t6 in
  if (is_some err__2) then (do t7 <- deref err__2;
  Val (WStr ((s2b "error: ") ++ t7)))
  else
  do t8 <- idxJ args 2%Z;
  do t9 <- parseStringArg t8 (s2b "accountName");
  let '(accountName, err__2) := t9 in
  if (is_some err__2) then (do t10 <- deref err__2;
  Val (WStr ((s2b "error: ") ++ t10)))
  else
  do t11 <- idxJ args 3%Z;
  do t12 <- parseStringArg t11 (s2b "secret");
  let '(secret, err__2) := t12 in
  if (is_some err__2) then (do t13 <- deref err__2;
  Val (WStr ((s2b "error: ") ++ t13)))
  else
  do t14 <- idxJ args 4%Z;
  do t15 <- parseStringArg t14 (s2b "digits");
  let '(digitsRaw, err__2) := t15 in
  if (is_some err__2) then (do t16 <- deref err__2;
  Val (WStr ((s2b "error: ") ++ t16)))
  else
  do t17 <- Src.DigitsFromStr digitsRaw;
  let digits := t17 in
  do t18 <- idxJ args 5%Z;
  do t19 <- parseStringArg t18 (s2b "algorithm");
  let '(algoRaw, err__2) := t19 in
  if (is_some err__2) then (do t20 <- deref err__2;
  Val (WStr ((s2b "error: ") ++ t20)))
  else
  do t21 <- Src.AlgorithmFromStr algoRaw;
  let algo := t21 in
  let param_ := (mkUrlParam issuer accountName 0%N secret digits algo) in
  let urlObj : (option url) := None in
  let t22 := otpType in
  let kj1 := fun (urlObj : (option url)) (err__2 : (option bytes)) =>
  if (is_some err__2) then (do t23 <- deref err__2;
  Val (WStr ((s2b "error: ") ++ t23)))
  else
  if (negb (is_some urlObj)) then (Val (WStr (s2b "error: url not generated")))
  else
  do t24 <- deref urlObj;
  let urlStr := (url_string t24) in
  Val (WStr urlStr) in
  if ((beqb t22 (s2b "totp"))) then (do t25 <- Src.GenerateTOTPURL fuel0 param_;
  let t26 := (fst t25, option_map err_text (snd t25)) in
  let '(urlObj, err__2) := t26 in
  kj1 urlObj err__2)
  else if ((beqb t22 (s2b "hotp"))) then (do t27 <- Src.GenerateHOTPURL fuel0 param_;
  let t28 := (fst t27, option_map err_text (snd t27)) in
  let '(urlObj, err__2) := t28 in
  kj1 urlObj err__2)
  else (let err__2 := (Some ([105; 110; 118; 97; 108; 105; 100; 32; 111; 116; 112; 32; 116; 121; 112; 101; 58; 32] ++ otpType ++ [32; 40; 109; 117; 115; 116; 32; 98; 101; 32; 39; 116; 111; 116; 112; 39; 32; 111; 114; 32; 39; 104; 111; 116; 112; 39; 41])) in
  kj1 urlObj err__2).

