(** utils.go, HexInputToOCRA and RandomSecret (otp.go) as translated from the Go source (Generated/Src.v) compute what
    the hand-written models (Model/Utils.v, Model/Random.v) compute. *)
From Coq Require Import ZifyN ZifyNat ZifyBool String.
From OtpV Require Import Prelude Sha Tables GoSem Rfc4648 Errors Decoder Derive Otp Ocra Utils Random Suite Src SrcLift SrcTop.
Open Scope N_scope.
Ltac Zify.zify_post_hook ::= Z.div_mod_to_equations.

Lemma set_idx_nat' s k v : (k < length s)%nat -> set_idx s (Z.of_nat k) v = Val (upd k v s).
Proof.
  intros H. unfold set_idx, zlen. destruct (Z.of_nat k <? 0)%Z eqn:E; [lia|].
  destruct (Z.of_nat (length s) <=? Z.of_nat k)%Z eqn:E2; [lia|]. cbn [orb]. rewrite Nat2Z.id. reflexivity.
Qed.

Lemma land255_wrap v : wrap8 (N.land v 255) = N.land v 255.
Proof. unfold wrap8. change 255 with (N.ones 8). rewrite N.land_ones. apply N.mod_small. apply N.mod_lt. discriminate. Qed.

(** the three copies of the big-endian loop *)
Ltac be_loop_proof loopdef :=
  let k := fresh "k" in let IH := fresh "IH" in
  intros k; induction k as [|k IH]; intros fuel f0 out v kx Hf Hl;
  [ destruct fuel as [|fuel]; [lia|]; eexists; reflexivity
  | destruct fuel as [|fuel]; [lia|];
    cbn [loopdef];
    replace (Z.of_nat (S k) - 1)%Z with (Z.of_nat k) by lia;
    destruct (Z.leb 0 (Z.of_nat k)) eqn:E; [|lia];
    rewrite set_idx_nat' by lia; cbn [rbind];
    rewrite wrap_int64_small by lia; rewrite land255_wrap;
    destruct (IH fuel f0 (upd k (N.land v 255) out) (N.shiftr v 8) kx) as [v' Hv]; [lia|rewrite upd_length; lia|];
    exists v'; rewrite Hv; reflexivity ].

Lemma src_to8_loop : forall k fuel f0 out v kx, (k < fuel)%nat -> (k <= length out)%nat -> (k <= 8)%nat ->
  exists v', Src.To8ByteBigEndian_loop1 fuel f0 out v (Z.of_nat k - 1) kx = kx (be_loop k out v) v' (-1)%Z.
Proof.
  intros k; induction k as [|k IH]; intros fuel f0 out v kx Hf Hl H8.
  - destruct fuel as [|fuel]; [lia|]. eexists. reflexivity.
  - destruct fuel as [|fuel]; [lia|]. cbn [Src.To8ByteBigEndian_loop1 be_loop].
    replace (Z.of_nat (S k) - 1)%Z with (Z.of_nat k) by lia.
    destruct (Z.leb 0 (Z.of_nat k)) eqn:E; [|lia].
    rewrite set_idx_nat' by lia. cbn [rbind].
    rewrite wrap_int64_small by lia. rewrite land255_wrap.
    destruct (IH fuel f0 (upd k (N.land v 255) out) (N.shiftr v 8) kx) as [v' Hv]; [lia|rewrite upd_length; lia|lia|].
    exists v'. rewrite Hv. reflexivity.
Qed.

Lemma src_To8ByteBigEndian_eq fuel v : (9 <= fuel)%nat -> Src.To8ByteBigEndian fuel v = Val (Utils.to8 v).
Proof.
  intros Hf. unfold Src.To8ByteBigEndian, Utils.to8, make_bytes. cbn [Z.ltb Z.compare rbind].
  change (Z.to_nat 8) with 8%nat. change 7%Z with (Z.of_nat 8 - 1)%Z.
  destruct (src_to8_loop 8 fuel fuel (repeat 0 8) v (fun out _ _ => Val out)) as [v' Hv]; [lia|cbn; lia|lia|].
  rewrite Hv. reflexivity.
Qed.

Lemma src_pd8_loop : forall k fuel f0 out v kx, (k < fuel)%nat -> (k <= length out)%nat -> (k <= 8)%nat ->
  exists v', Src.ParseDecimalToBigEndian8_loop1 fuel f0 out v (Z.of_nat k - 1) kx = kx (be_loop k out v) v' (-1)%Z.
Proof.
  intros k; induction k as [|k IH]; intros fuel f0 out v kx Hf Hl H8.
  - destruct fuel as [|fuel]; [lia|]. eexists. reflexivity.
  - destruct fuel as [|fuel]; [lia|]. cbn [Src.ParseDecimalToBigEndian8_loop1 be_loop].
    replace (Z.of_nat (S k) - 1)%Z with (Z.of_nat k) by lia.
    destruct (Z.leb 0 (Z.of_nat k)) eqn:E; [|lia].
    rewrite set_idx_nat' by lia. cbn [rbind].
    rewrite wrap_int64_small by lia. rewrite land255_wrap.
    destruct (IH fuel f0 (upd k (N.land v 255) out) (N.shiftr v 8) kx) as [v' Hv]; [lia|rewrite upd_length; lia|lia|].
    exists v'. rewrite Hv. reflexivity.
Qed.

Lemma src_pd64_loop : forall k fuel f0 out v kx, (k < fuel)%nat -> (k <= length out)%nat -> (k <= 8)%nat ->
  exists v', Src.ParseDecimal64BigEndian_loop1 fuel f0 out v (Z.of_nat k - 1) kx = kx (be_loop k out v) v' (-1)%Z.
Proof.
  intros k; induction k as [|k IH]; intros fuel f0 out v kx Hf Hl H8.
  - destruct fuel as [|fuel]; [lia|]. eexists. reflexivity.
  - destruct fuel as [|fuel]; [lia|]. cbn [Src.ParseDecimal64BigEndian_loop1 be_loop].
    replace (Z.of_nat (S k) - 1)%Z with (Z.of_nat k) by lia.
    destruct (Z.leb 0 (Z.of_nat k)) eqn:E; [|lia].
    rewrite set_idx_nat' by lia. cbn [rbind].
    rewrite wrap_int64_small by lia. rewrite land255_wrap.
    destruct (IH fuel f0 (upd k (N.land v 255) out) (N.shiftr v 8) kx) as [v' Hv]; [lia|rewrite upd_length; lia|lia|].
    exists v'. rewrite Hv. reflexivity.
Qed.

Lemma src_ParseDecimalToBigEndian8_eq fuel s : (9 <= fuel)%nat ->
  Src.ParseDecimalToBigEndian8 fuel s = lift_oc (Utils.parse_decimal_be8 s).
Proof.
  intros Hf. unfold Src.ParseDecimalToBigEndian8, Utils.parse_decimal_be8, Src.parse_uint_go. cbn [rbind].
  destruct (parse_uint64 s) as [v|]; [|reflexivity]. cbn [is_some].
  unfold make_bytes. cbn [Z.ltb Z.compare rbind]. change (Z.to_nat 8) with 8%nat. change 7%Z with (Z.of_nat 8 - 1)%Z.
  destruct (src_pd8_loop 8 fuel fuel (repeat 0 8) v (fun out _ _ => Val (out, None))) as [v' Hv]; [lia|cbn; lia|lia|].
  rewrite Hv. reflexivity.
Qed.

Lemma src_ParseDecimal64BigEndian_eq fuel s : (9 <= fuel)%nat ->
  Src.ParseDecimal64BigEndian fuel s = lift_oc (Utils.parse_decimal_be8 s).
Proof.
  intros Hf. unfold Src.ParseDecimal64BigEndian, Utils.parse_decimal_be8, Src.parse_uint_go. cbn [rbind].
  destruct (parse_uint64 s) as [v|]; [|reflexivity]. cbn [is_some].
  unfold make_bytes. cbn [Z.ltb Z.compare rbind]. change (Z.to_nat 8) with 8%nat. change 7%Z with (Z.of_nat 8 - 1)%Z.
  destruct (src_pd64_loop 8 fuel fuel (repeat 0 8) v (fun out _ _ => Val (out, None))) as [v' Hv]; [lia|cbn; lia|lia|].
  rewrite Hv. reflexivity.
Qed.

(** ---------- LeftPadHex, MustHexPadLeft ---------- *)
Lemma str_repeat_char c k : (0 <= k)%Z -> str_repeat [c] k = Val (repeat c (Z.to_nat k)).
Proof.
  intros H. unfold str_repeat. destruct (k <? 0)%Z eqn:E; [lia|]. f_equal.
  generalize (Z.to_nat k). intros n. induction n as [|n IH]; [reflexivity|].
  cbn [repeat concat]. rewrite IH. reflexivity.
Qed.

Lemma src_LeftPadHex_eq s total : small s -> (total < 4611686018427387904)%Z ->
  Src.LeftPadHex s total = lift_p (Utils.left_pad_hex s total).
Proof.
  intros Hs Ht. unfold Src.LeftPadHex, Utils.left_pad_hex, small, zlen in *.
  change (Z.leb total 0) with (total <=? 0)%Z. destruct (total <=? 0)%Z eqn:E0; [reflexivity|].
  destruct (Z.leb total (Z.of_nat (length s))) eqn:E.
  - rewrite wrap_int64_small by lia. unfold slice, zlen.
    destruct (Z.of_nat (length s) - total <? 0)%Z eqn:E1; [lia|].
    destruct (Z.of_nat (length s) <? Z.of_nat (length s) - total)%Z eqn:E2; [lia|].
    rewrite Z.ltb_irrefl. cbn [orb rbind lift_p].
    replace (Z.to_nat (Z.of_nat (length s) - total)) with (length s - Z.to_nat total)%nat by lia.
    f_equal. apply firstn_all2. rewrite skipn_length. lia.
  - rewrite wrap_int64_small by lia. change (s2b "0"%string) with [48]. rewrite str_repeat_char by lia. cbn [rbind lift_p].
    replace (Z.to_nat (total - Z.of_nat (length s))) with (Z.to_nat total - length s)%nat by lia. reflexivity.
Qed.

Lemma src_MustHexPadLeft_eq s size : small s -> (- 2305843009213693952 < size < 2305843009213693952)%Z ->
  Src.MustHexPadLeft s size = lift_p (Utils.must_hex_pad_left s size).
Proof.
  intros Hs Hz. unfold Src.MustHexPadLeft, Utils.must_hex_pad_left.
  rewrite (wrap_int64_small (size * 2)) by lia.
  rewrite src_LeftPadHex_eq by (assumption || lia).
  assert (Hne : forall e, Utils.left_pad_hex s (size * 2) <> Err e).
  { intros e. unfold Utils.left_pad_hex. destruct (size * 2 <=? 0)%Z; [discriminate|]. destruct (size * 2 <=? zlen s)%Z; discriminate. }
  destruct (Utils.left_pad_hex s (size * 2)) as [padded|e|]; [|exfalso; apply (Hne e); reflexivity|reflexivity].
  cbn [lift_p rbind]. unfold Src.hex_decode_go. destruct (hex_decode padded); reflexivity.
Qed.

(** ---------- ParseHexTimestamp ---------- *)
Lemma src_ts_loop : forall m ts fuel f0 kx, (16 - length ts = m)%nat -> (m < fuel)%nat ->
  Src.ParseHexTimestamp_loop1 fuel f0 ts kx = kx (repeat 48 m ++ ts).
Proof.
  induction m as [|m IH]; intros ts fuel f0 kx Hm Hf.
  - destruct fuel as [|fuel]; [lia|]. cbn [Src.ParseHexTimestamp_loop1]. unfold zlen.
    destruct (Z.ltb (Z.of_nat (length ts)) 16) eqn:E; [lia|]. reflexivity.
  - destruct fuel as [|fuel]; [lia|]. cbn [Src.ParseHexTimestamp_loop1]. unfold zlen.
    destruct (Z.ltb (Z.of_nat (length ts)) 16) eqn:E; [|lia].
    change (s2b "0"%string) with [48]. rewrite (IH ([48] ++ ts)) by (cbn [length app]; lia).
    f_equal. rewrite app_assoc. rewrite <- repeat_cons. reflexivity.
Qed.

Lemma src_ParseHexTimestamp_eq fuel ts : (17 <= fuel)%nat ->
  Src.ParseHexTimestamp fuel ts = lift_oc (Utils.parse_hex_timestamp ts).
Proof.
  intros Hf. unfold Src.ParseHexTimestamp, Utils.parse_hex_timestamp.
  rewrite (src_ts_loop (16 - length ts) ts) by lia.
  unfold Src.hex_decode_go. destruct (hex_decode _); reflexivity.
Qed.

(** ---------- ParseDecimalChallengeRFC6287 ---------- *)
Lemma src_pad_loop : forall m hx fuel f0 kx, (256 - length hx = m)%nat -> (m < fuel)%nat ->
  Src.ParseDecimalChallengeRFC6287_loop1 fuel f0 hx kx = kx (hx ++ repeat 48 m).
Proof.
  induction m as [|m IH]; intros hx fuel f0 kx Hm Hf.
  - destruct fuel as [|fuel]; [lia|]. cbn [Src.ParseDecimalChallengeRFC6287_loop1 repeat]. unfold zlen.
    destruct (Z.ltb (Z.of_nat (length hx)) 256) eqn:E; [lia|]. rewrite app_nil_r. reflexivity.
  - destruct fuel as [|fuel]; [lia|]. cbn [Src.ParseDecimalChallengeRFC6287_loop1]. unfold zlen.
    destruct (Z.ltb (Z.of_nat (length hx)) 256) eqn:E; [|lia].
    change (s2b "0"%string) with [48]. rewrite (IH (hx ++ [48])) by (rewrite ?app_length; cbn [length]; lia).
    rewrite <- app_assoc. reflexivity.
Qed.

Definition hex_upper_char (c : N) : Prop := (48 <= c <= 57) \/ (65 <= c <= 70).

Lemma hex_text_fuel_chars fuel : forall n acc, Forall hex_upper_char acc -> Forall hex_upper_char (hex_text_fuel fuel n acc).
Proof.
  induction fuel as [|fuel IH]; intros n acc Ha; cbn [hex_text_fuel]; [exact Ha|].
  assert (Hc : hex_upper_char (hex_upper (n mod 16))).
  { unfold hex_upper_char, hex_upper. assert (n mod 16 < 16) by (apply N.mod_lt; discriminate).
    destruct (n mod 16 <? 10) eqn:E; lia. }
  destruct (n / 16 =? 0); [constructor; assumption|]. apply IH. constructor; assumption.
Qed.

Lemma upper_lower_hex s : Forall hex_upper_char s -> to_upper_u (map Src.lower_ascii s) = s.
Proof.
  intros H. rewrite to_upper_u_ascii.
  - unfold to_upper. rewrite map_map. rewrite <- (map_id s) at 2. apply map_ext_in. intros c Hc.
    rewrite Forall_forall in H. specialize (H c Hc). unfold hex_upper_char in H.
    unfold Src.lower_ascii, upper_ascii.
    destruct ((65 <=? c) && (c <=? 90)) eqn:E1.
    + destruct ((97 <=? c + 32) && (c + 32 <=? 122)) eqn:E2; lia.
    + destruct ((97 <=? c) && (c <=? 122)) eqn:E2; lia.
  - apply Forall_forall. intros c Hc. apply in_map_iff in Hc. destruct Hc as [x [<- Hx]].
    rewrite Forall_forall in H. specialize (H x Hx). unfold hex_upper_char in H. unfold Src.lower_ascii.
    destruct ((65 <=? x) && (x <=? 90)); lia.
Qed.

Lemma hex_decode_minus (t : bytes) : (1 <= length t)%nat -> hex_decode (45 :: t) = None.
Proof. intros H. destruct t as [|b t]; [simpl in H; lia|]. reflexivity. Qed.

Lemma src_ParseDecimalChallengeRFC6287_eq fuel s : (258 <= fuel)%nat ->
  Src.ParseDecimalChallengeRFC6287 fuel s = lift_oc (Utils.parse_decimal_challenge s).
Proof.
  intros Hf. unfold Src.ParseDecimalChallengeRFC6287, Utils.parse_decimal_challenge, Src.big_parse10.
  set (nd := match s with 45 :: t => (true, t) | 43 :: t => (false, t) | _ => (false, s) end).
  destruct nd as [neg ds]. cbn [rbind].
  destruct ds as [|d0 ds']; [reflexivity|]. set (ds := d0 :: ds') in *.
  destruct (forallb is_dec_digit ds); [|reflexivity]. cbn [negb].
  set (v := dec_val ds).
  assert (Hfin : forall hx, Val (Src.hex_decode_go hx) = lift_oc (match hex_decode hx with Some b => Ok b | None => Err (EStd 2 []) end)).
  { intros hx. unfold Src.hex_decode_go. destruct (hex_decode hx); reflexivity. }
  assert (Hpos : Src.ParseDecimalChallengeRFC6287_loop1 fuel fuel (to_upper_u (Src.big_text16 (Z.of_N v))) (fun hx => Val (Src.hex_decode_go hx))
                 = lift_oc (let hx := hex_text v in let hx := hx ++ repeat 48 (256 - length hx) in
                            match hex_decode hx with Some b => Ok b | None => Err (EStd 2 []) end)).
  { unfold Src.big_text16. destruct (Z.of_N v <? 0)%Z eqn:E; [lia|]. rewrite N2Z.id.
    rewrite upper_lower_hex by (apply hex_text_fuel_chars; constructor).
    rewrite (src_pad_loop (256 - length (hex_text v))) by lia. cbv zeta. apply Hfin. }
  destruct neg; cbn [andb].
  - destruct (v =? 0) eqn:Ev; cbn [negb].
    + assert (v = 0) as Hv0 by lia. rewrite Hv0 in *. cbn [Z.of_N Z.opp]. exact Hpos.
    + unfold Src.big_text16. destruct (- Z.of_N v <? 0)%Z eqn:E; [|lia].
      set (body := map Src.lower_ascii (hex_text (Z.to_N (- - Z.of_N v)))).
      assert (Hup : to_upper_u (45 :: body) = 45 :: to_upper_u body).
      { destruct body as [|b0 body']; reflexivity. }
      rewrite Hup. rewrite (src_pad_loop (256 - length (45 :: to_upper_u body))) by lia.
      unfold Src.hex_decode_go. cbn [app]. rewrite hex_decode_minus; [reflexivity|].
      rewrite app_length, repeat_length. cbn [length]. lia.
  - exact Hpos.
Qed.

(** ---------- HexInputToOCRA ---------- *)
Definition lift_in (o : outcome ocra_input) : res (ocra_input * option err) :=
  match o with Ok i => Val (i, None) | Err e => Val (mkInput [] [] [] [] [], Some e) | Panic => Pnc end.

Lemma beqb_nil s : beqb s [] = match s with [] => true | _ => false end.
Proof. destruct s; reflexivity. Qed.

Lemma src_HexInputToOCRA_eq c q p s t :
  Src.HexInputToOCRA c q p s t = lift_in (Utils.hex_input_to_ocra c q p s t).
Proof.
  unfold Src.HexInputToOCRA, Utils.hex_input_to_ocra, Utils.hex_field, Src.hex_decode_go. cbv zeta.
  rewrite !beqb_nil.
  destruct c as [|c0 c']; cbn [negb rbind obind].
  2:{ destruct (hex_decode (c0 :: c')) as [cb|]; cbn [is_some obind]; [|reflexivity].
      destruct q as [|q0 q']; cbn [negb rbind obind].
      2:{ destruct (hex_decode (q0 :: q')) as [qb|]; cbn [is_some obind]; [|reflexivity].
          destruct p as [|p0 p']; cbn [negb rbind obind].
          2:{ destruct (hex_decode (p0 :: p')) as [pb|]; cbn [is_some obind]; [|reflexivity].
              destruct s as [|s0 s']; cbn [negb rbind obind].
              2:{ destruct (hex_decode (s0 :: s')) as [sb|]; cbn [is_some obind]; [|reflexivity].
                  destruct t as [|t0 t']; cbn [negb rbind obind]; [reflexivity|].
                  destruct (hex_decode (t0 :: t')); reflexivity. }
              destruct t as [|t0 t']; cbn [negb rbind obind]; [reflexivity|]. destruct (hex_decode (t0 :: t')); reflexivity. }
          destruct s as [|s0 s']; cbn [negb rbind obind].
          2:{ destruct (hex_decode (s0 :: s')) as [sb|]; cbn [is_some obind]; [|reflexivity].
              destruct t as [|t0 t']; cbn [negb rbind obind]; [reflexivity|]. destruct (hex_decode (t0 :: t')); reflexivity. }
          destruct t as [|t0 t']; cbn [negb rbind obind]; [reflexivity|]. destruct (hex_decode (t0 :: t')); reflexivity. }
      destruct p as [|p0 p']; cbn [negb rbind obind].
      2:{ destruct (hex_decode (p0 :: p')) as [pb|]; cbn [is_some obind]; [|reflexivity].
          destruct s as [|s0 s']; cbn [negb rbind obind].
          2:{ destruct (hex_decode (s0 :: s')) as [sb|]; cbn [is_some obind]; [|reflexivity].
              destruct t as [|t0 t']; cbn [negb rbind obind]; [reflexivity|]. destruct (hex_decode (t0 :: t')); reflexivity. }
          destruct t as [|t0 t']; cbn [negb rbind obind]; [reflexivity|]. destruct (hex_decode (t0 :: t')); reflexivity. }
      destruct s as [|s0 s']; cbn [negb rbind obind].
      2:{ destruct (hex_decode (s0 :: s')) as [sb|]; cbn [is_some obind]; [|reflexivity].
          destruct t as [|t0 t']; cbn [negb rbind obind]; [reflexivity|]. destruct (hex_decode (t0 :: t')); reflexivity. }
      destruct t as [|t0 t']; cbn [negb rbind obind]; [reflexivity|]. destruct (hex_decode (t0 :: t')); reflexivity. }
  (* counter empty: the same case analysis on the other four fields *)
  destruct q as [|q0 q']; cbn [negb rbind obind];
  [|destruct (hex_decode (q0 :: q')) as [qb|]; cbn [is_some obind]; [|reflexivity]];
  (destruct p as [|p0 p']; cbn [negb rbind obind];
   [|destruct (hex_decode (p0 :: p')) as [pb|]; cbn [is_some obind]; [|reflexivity]]);
  (destruct s as [|s0 s']; cbn [negb rbind obind];
   [|destruct (hex_decode (s0 :: s')) as [sb|]; cbn [is_some obind]; [|reflexivity]]);
  (destruct t as [|t0 t']; cbn [negb rbind obind]; [reflexivity|destruct (hex_decode (t0 :: t')); reflexivity]).
Qed.

(** ---------- RandomSecret ---------- *)
Lemma src_RandomSecret_eq junk algo : (64 <= length junk)%nat ->
  Src.RandomSecret junk algo =
  match Random.secret_size algo with
  | None => Val ([], Some (ESent ErrUnsupportedAlgorithm))
  | Some n => Val (b32_nopad (firstn n junk), None)
  end.
Proof.
  intros Hj. unfold Src.RandomSecret, Random.secret_size. cbv zeta.
  assert (Hk : forall n, (n <= 64)%nat ->
     (do t2 <- make_bytes (Z.of_nat n);
      let '(_, err_) := (zlen (Src.rand_fill t2 junk), @None err) in
      if is_some err_ then Val ([], Some (EStd T_random [])) else Val (b32_nopad (Src.rand_fill t2 junk), None))
     = Val (b32_nopad (firstn n junk), None)).
  { intros n Hn. unfold make_bytes. destruct (Z.of_nat n <? 0)%Z eqn:E; [lia|]. cbn [rbind is_some].
    unfold Src.rand_fill. rewrite repeat_length, Nat2Z.id. rewrite skipn_all2 by (rewrite repeat_length; lia).
    rewrite app_nil_r. reflexivity. }
  assert (Ha : algo = 0 \/ algo = 1 \/ algo = 2 \/ 3 <= algo) by lia.
  destruct Ha as [->|[->|[->|Hge]]]; [exact (Hk 20%nat ltac:(lia))|exact (Hk 32%nat ltac:(lia))|exact (Hk 64%nat ltac:(lia))|].
  destruct (N.eqb algo 0) eqn:E0; [lia|]. destruct (N.eqb algo 1) eqn:E1; [lia|]. destruct (N.eqb algo 2) eqn:E2; [lia|].
  destruct algo as [|p]; [lia|]. destruct p as [[p|p|]|[p|p|]|]; try lia; reflexivity.
Qed.
