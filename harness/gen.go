package main

import (
	"crypto/hmac"
	"encoding/base32"
	"fmt"
	"math/big"
	"net/url"
	"strconv"
	"strings"
	"unicode/utf8"

	"github.com/ja7ad/otp"
)

var streams = map[string]func(r *rng, n int, emit func(string)){}

func init() {
	streams["c01"] = genC01
	streams["c02"] = genC02
	streams["c03"] = genC03
	streams["c04"] = genC04
	streams["c05"] = genC05
	streams["c06"] = genC06
	streams["c07"] = genC07
	streams["c14"] = genC14
	streams["hash"] = genHash
}

// ---- reference values, independent of the library, used only to *build inputs* that hit
// the accepting branches (codes inside / just outside a window) ----
func refHOTP(key []byte, counter uint64, digits int, alg uint64) string {
	var msg [8]byte
	for i := 7; i >= 0; i-- {
		msg[i] = byte(counter)
		counter >>= 8
	}
	return refCode(key, msg[:], digits, alg)
}
func refCode(key, msg []byte, digits int, alg uint64) string {
	if alg > 2 || digits < 1 || digits > 12 {
		return strings.Repeat("0", max(digits, 0))
	}
	m := hmac.New(goHash(alg), key)
	m.Write(msg)
	s := m.Sum(nil)
	o := int(s[len(s)-1] & 15)
	v := (uint64(s[o])&0x7f)<<24 | uint64(s[o+1])<<16 | uint64(s[o+2])<<8 | uint64(s[o+3])
	mod := new(big.Int).Exp(big.NewInt(10), big.NewInt(int64(digits)), nil)
	x := new(big.Int).Mod(new(big.Int).SetUint64(v), mod)
	return fmt.Sprintf("%0*s", digits, x.String())
}

var boundaryCounters = []uint64{0, 1, 2, 9, 10, 11, 255, 256, 1<<31 - 1, 1 << 31, 1<<31 + 1, 1<<32 - 1, 1 << 32, 1<<32 + 1,
	1 << 53, 1<<63 - 11, 1<<63 - 1, 1 << 63, 1<<63 + 1, 1<<63 + 4, 1<<63 + 5, 1<<63 + 10, 1<<63 + 11, 1<<64 - 22, 1<<64 - 12, 1<<64 - 11, 1<<64 - 2, 1<<64 - 1}

func genCounter(r *rng) uint64 {
	switch r.intn(4) {
	case 0:
		return pick(r, boundaryCounters)
	case 1:
		return uint64(r.intn(1000))
	case 2:
		return pick(r, boundaryCounters) + uint64(r.intn(25)) - 12
	default:
		return r.next() >> uint(r.intn(64))
	}
}

var keyLens = []int{0, 1, 2, 5, 10, 19, 20, 21, 31, 32, 33, 63, 64, 65, 127, 128, 129, 200}

func genKey(r *rng) []byte {
	n := pick(r, keyLens)
	if r.chance(1, 4) {
		n = r.intn(70)
	}
	k := r.bytes(n)
	switch r.intn(8) {
	case 0:
		for i := range k {
			k[i] = 0
		}
	case 1:
		for i := range k {
			k[i] = 0xff
		}
	}
	return k
}

// spell returns one of the accepted spellings of the base32 text of raw.
func spell(r *rng, raw []byte) string {
	canon := base32.StdEncoding.EncodeToString(raw)
	nopad := strings.TrimRight(canon, "=")
	s := canon
	switch r.intn(3) {
	case 0:
		s = nopad
	case 1:
		if len(canon) > len(nopad) {
			s = nopad + strings.Repeat("=", r.intn(len(canon)-len(nopad)+1))
		}
	}
	switch r.intn(3) {
	case 0:
		s = strings.ToLower(s)
	case 1:
		b := []byte(s)
		for i := range b {
			if r.chance(1, 2) && b[i] >= 'A' && b[i] <= 'Z' {
				b[i] += 32
			}
		}
		s = string(b)
	}
	ws := []string{" ", "\t", "\n", "\r", "\v", "\f", "  ", " \n", "\r\n", " ", " ", "\u0085"}
	if r.chance(1, 3) {
		s = pick(r, ws) + s
	}
	if r.chance(1, 3) {
		s = s + pick(r, ws)
	}
	return s
}

func genSecret(r *rng) (string, []byte) {
	k := genKey(r)
	if r.chance(1, 25) { // occasionally an undecodable secret
		bad := []string{"!!!!", "MZXW6===MZXW6===", "A", "ABC", "ABCDEF", "MZXW6YT1", "MZ XW", "ſſſſſſſſ", "M\nZXW6YTB", "MZXW6YTBOI=====", "=", "MY======X"}
		return pick(r, bad), nil
	}
	return spell(r, k), k
}

var digitChoices = []uint64{6, 6, 6, 8, 8, 10, 10, 9, 7, 1, 2, 3, 4, 5, 0, 11, 12, 255}

func genParam(r *rng, maxSkew int) *otp.Param {
	if r.chance(1, 8) {
		return nil
	}
	p := &otp.Param{Digits: otp.Digits(pick(r, digitChoices)), Algorithm: otp.Algorithm(r.intn(3))}
	if r.chance(1, 20) {
		p.Algorithm = otp.Algorithm(pick(r, []uint64{3, 4, 255}))
	}
	p.Skew = uint(r.intn(maxSkew + 1))
	if r.chance(1, 15) {
		p.Skew = uint(pick(r, []uint64{11, 12, 1 << 32, 1<<64 - 1}))
	}
	p.Period = uint(pick(r, periodChoices))
	return p
}

func effParam(p *otp.Param, def otp.Param) otp.Param {
	if p == nil {
		return def
	}
	return *p
}

// ---------------- C01 ----------------
// formatterValues: values for the decimal formatters (uint32): every power of ten with its neighbours and its multiples,
// every value a literal of the sources names (with neighbours), the small values exhaustively, the extremes, random ones
func formatterValues(r *rng) []uint64 {
	vals := []uint64{2147483647, 2147483648, 4294967295, 4294967294}
	seenV := map[uint64]bool{}
	addV := func(v uint64) {
		if v <= 4294967295 && !seenV[v] {
			seenV[v] = true
			vals = append(vals, v)
		}
	}
	for p := uint64(1); p <= 1000000000; p *= 10 {
		for m := uint64(1); m <= 9; m++ {
			addV(m * p)
			addV(m*p - 1)
			addV(m*p + 1)
		}
		addV(p + p/10)
		addV(p*10 - p/10 - 1)
	}
	for _, v := range boundaryCounters {
		addV(v)
	}
	for v := uint64(0); v <= 120; v++ {
		addV(v)
	}
	for i := 0; i < 40; i++ {
		addV(r.next() >> uint(32+r.intn(32)))
	}
	return vals
}

func genC01(r *rng, n int, emit func(string)) {
	// exhaustive small domains first: the modulus table, truncation at all 16 offsets,
	// both formatters for every digits value around their ranges
	for i := 0; i <= 10; i++ {
		emit(fmt.Sprintf("mod10 %d", i))
	}
	for _, hl := range []int{20, 32, 64} {
		for off := 0; off < 16; off++ {
			for _, fill := range []int{0, 1, 2, 3} {
				sum := make([]byte, hl)
				switch fill {
				case 1:
					for i := range sum {
						sum[i] = 0xff
					}
				case 2, 3:
					copy(sum, r.bytes(hl))
				}
				sum[hl-1] = sum[hl-1]&0xf0 | byte(off)
				for _, d := range []int{1, 6, 8, 9, 10} {
					emit(fmt.Sprintf("trunc %s %d", hx(sum), hkMod10()[d]))
				}
			}
		}
	}
	vals := formatterValues(r)
	for d := -1; d <= 12; d++ {
		for _, v := range vals {
			emit(fmt.Sprintf("short %d %d", v, d))
			emit(fmt.Sprintf("long %d %d", v, d))
		}
	}
	// RFC 4226 appendix D key, counters 0..9, and the derive hook over digits x alg
	rfcKey := []byte("12345678901234567890")
	for c := uint64(0); c < 10; c++ {
		emit(fmt.Sprintf("ghotp %s %d %s", hxs(base32.StdEncoding.EncodeToString(rfcKey)), c, "6,0,0,0"))
	}
	for d := -1; d <= 12; d++ {
		for a := uint64(0); a <= 4; a++ {
			emit(fmt.Sprintf("d4226 %s %d %d %d", hx(rfcKey), genCounter(r), d, a))
		}
	}
	for i := 0; i < n; i++ {
		s, _ := genSecret(r)
		emit(fmt.Sprintf("ghotp %s %d %s", hxs(s), genCounter(r), fmtParam(genParam(r, 10))))
		if i%4 == 0 {
			emit(fmt.Sprintf("d4226 %s %d %d %d", hx(genKey(r)), genCounter(r), int(pick(r, digitChoices)), r.intn(4)))
		}
	}
}

// ---------------- C02 ----------------
func genTime(r *rng, sec int64) string {
	nsec := int64(0)
	if r.chance(1, 2) {
		nsec = int64(r.intn(1000000000))
	}
	zone := int64(0)
	if r.chance(1, 2) {
		zone = int64(r.intn(2*14*3600) - 14*3600)
	}
	mono := "0"
	if r.chance(1, 3) {
		mono = "1"
	}
	return fmt.Sprintf("%d,%d,%d,%s", sec, nsec, zone, mono)
}

func genUnix(r *rng, period uint64) int64 {
	if period == 0 {
		period = 30
	}
	switch r.intn(5) {
	case 0: // around a step boundary
		k := r.next() % (1 << 40) / period
		return int64(k*period) + int64(r.intn(5)) - 2
	case 1:
		return int64(pick(r, []uint64{0, 1, 29, 30, 31, 59, 1111111109, 1234567890, 2000000000, 20000000000, 1<<31 - 1, 1 << 31, 1 << 32, 1<<62 - 1}))
	case 2:
		return int64(r.next() >> uint(2+r.intn(62)))
	case 3:
		return 1700000000 + int64(r.intn(100000000))
	default:
		k := uint64(r.intn(100))
		return int64(k*period) + int64(r.intn(3)) - 1
	}
}

func genC02(r *rng, n int, emit func(string)) {
	// RFC 6238 appendix B instants
	for _, t := range []int64{59, 1111111109, 1111111111, 1234567890, 2000000000, 20000000000} {
		emit(fmt.Sprintf("gtotp %s %d,0,0,0 8,30,0,0", hxs(base32.StdEncoding.EncodeToString([]byte("12345678901234567890"))), t))
	}
	for i := 0; i < n; i++ {
		s, _ := genSecret(r)
		p := genParam(r, 10)
		per := uint64(30)
		if p != nil {
			per = uint64(p.Period)
		}
		sec := genUnix(r, per)
		if sec < 0 {
			sec = 0
		}
		emit(fmt.Sprintf("gtotp %s %s %s", hxs(s), genTime(r, sec), fmtParam(p)))
		if i%3 == 0 { // same instant, different sub-second part / zone / monotonic reading
			emit(fmt.Sprintf("gtotp %s %s %s", hxs(s), genTime(r, sec), fmtParam(p)))
		}
	}
}

// mutate a code string in the ways the property enumerates
// numericAlias: another decimal string of the same length whose value differs from the code's by a power of two
// (or by 10^k): what a comparison "as numbers" in a narrower or wrapping integer type would confuse with it
func numericAlias(r *rng, code string) (string, bool) {
	if len(code) == 0 || len(code) > 19 {
		return "", false
	}
	v, err := strconv.ParseUint(code, 10, 64)
	if err != nil {
		return "", false
	}
	limit := uint64(1)
	for i := 0; i < len(code); i++ {
		limit *= 10
	}
	deltas := []uint64{1 << 32, 1 << 31, 1 << 16, 1 << 8, 1 << 33, 2 << 32, 1 << 24, 1 << 63}
	for try := 0; try < 8; try++ {
		d := deltas[r.intn(len(deltas))]
		for _, w := range []uint64{v + d, v - d} {
			if w < limit && w != v {
				return fmt.Sprintf("%0*d", len(code), w), true
			}
		}
	}
	return "", false
}

func mutateCode(r *rng, code string) string {
	b := []byte(code)
	if r.chance(1, 6) {
		if a, ok := numericAlias(r, code); ok {
			return a
		}
	}
	switch r.intn(11) {
	case 9: // the right code followed by 256 or 512 more characters (length equal modulo 256)
		return code + strings.Repeat(pick(r, []string{"0", "7", " "}), pick(r, []int{256, 512}))
	case 10:
		return code + strings.Repeat("0", pick(r, []int{255, 257, 10}))
	case 0:
		if len(b) > 0 {
			i := r.intn(len(b))
			b[i] = '0' + (b[i]-'0'+1+byte(r.intn(9)))%10
		}
	case 1:
		if len(b) > 0 {
			b = b[:len(b)-1]
		}
	case 2:
		b = append(b, byte('0'+r.intn(10)))
	case 3:
		b = append([]byte{' '}, b...)
	case 4:
		b = append(b, ' ')
	case 5:
		if len(b) > 0 { // Arabic-Indic digit in place of an ASCII one
			i := r.intn(len(b))
			return string(b[:i]) + string(rune(0x0660+int(b[i]-'0'))) + string(b[i+1:])
		}
	case 6:
		if len(b) > 0 {
			i := r.intn(len(b))
			b[i] = byte(r.next())
		}
	case 7:
		return string(r.bytes(len(b)))
	case 8:
		return ""
	}
	return string(b)
}

// ---------------- C03 ----------------
func genC03(r *rng, n int, emit func(string)) {
	genC03Edge(emit)
	genC03Rand(r, n, emit)
}

func genC03Edge(emit func(string)) {
	// the lower window edge, systematically: counters at and around the window size, codes of every counter from 0
	// to one past the upper edge
	{
		key := []byte("12345678901234567890")
		sec := base32.StdEncoding.EncodeToString(key)
		for s := uint64(0); s <= 10; s++ {
			for _, c := range []uint64{0, 1, s, s + 1} {
				if c > 0 && c+1 < s {
					continue
				}
				for cc := uint64(0); cc <= c+s+2; cc++ {
					if cc > 3 && cc+3 < c+s && cc != c-s && cc+1 != c-s { // interior points thinned out
						continue
					}
					p := &otp.Param{Digits: 6, Skew: uint(s), Algorithm: otp.SHA1}
					emit(fmt.Sprintf("vhotp %s %s %d %s", hxs(sec), hxs(refHOTP(key, cc, 6, 0)), c, fmtParam(p)))
				}
			}
		}
	}
}

func genC03Rand(r *rng, n int, emit func(string)) {
	for i := 0; i < n; i++ {
		s, key := genSecret(r)
		p := genParam(r, 10)
		ep := effParam(p, *otp.DefaultHOTPParam)
		c := genCounter(r)
		skew := int64(ep.Skew)
		if skew > 12 {
			skew = 12
		}
		dist := int64(r.intn(int(2*(skew+3)+1))) - (skew + 3)
		cc := c + uint64(dist)
		code := refHOTP(key, cc, ep.Digits.Int(), uint64(ep.Algorithm))
		if r.chance(1, 4) {
			code = mutateCode(r, code)
		}
		emit(fmt.Sprintf("vhotp %s %s %d %s", hxs(s), hxs(code), c, fmtParam(p)))
		if i%8 == 1 { // the code of counter cc at a counter that a narrower integer type would confuse with it
			delta := pick(r, []uint64{1 << 32, 1 << 31, 1 << 16, 1 << 8, 1 << 33, 1 << 63})
			emit(fmt.Sprintf("vhotp %s %s %d %s", hxs(s), hxs(refHOTP(key, cc, ep.Digits.Int(), uint64(ep.Algorithm))), cc+delta, fmtParam(p)))
			emit(fmt.Sprintf("vhotp %s %s %d %s", hxs(s), hxs(refHOTP(key, cc, ep.Digits.Int(), uint64(ep.Algorithm))), cc-delta, fmtParam(p)))
		}
		if i%4 == 0 { // generate at cc, validate the returned string itself at c
			emit(fmt.Sprintf("gvhotp %s %d %d %s", hxs(s), cc, c, fmtParam(p)))
		}
	}
}

// ---------------- C04 ----------------
func genC04(r *rng, n int, emit func(string)) {
	genC04Edge(emit)
	genC04Rand(r, n, emit)
}

// instants around the epoch with small periods (uint64(t.Unix()) of an instant before the epoch is at the top of the
// counter range), every window, a wrong code and the code of the step itself
func genEpochEdge(emit func(string)) {
	key := []byte("12345678901234567890")
	sec := base32.StdEncoding.EncodeToString(key)
	for _, per := range []uint64{1, 2, 30} {
		for t := int64(-12); t <= 12; t++ {
			for _, sk := range []uint{0, 1, 2, 5, 10, 11} {
				p := &otp.Param{Digits: 6, Period: uint(per), Skew: sk, Algorithm: otp.SHA1}
				emit(fmt.Sprintf("vtotp %s %s %d,0,0,0 %s", hxs(sec), hxs("000000"), t, fmtParam(p)))
				emit(fmt.Sprintf("vtotp %s %s %d,0,0,0 %s", hxs(sec), hxs(refHOTP(key, uint64(t)/per, 6, 0)), t, fmtParam(p)))
			}
		}
	}
}

// wrapPairs: pairs of 64-bit numbers whose product, sum or difference wraps to something small: where two
// parameters are combined by arithmetic (a window = skew x period, a bound = counter + skew), a check made on the
// combination instead of on the parameter itself lets such a pair through
func wrapPairs() [][2]uint64 {
	var ps [][2]uint64
	for _, k := range []uint{1, 2, 3, 8, 16, 31, 32, 33, 48, 61, 62, 63} {
		a, b := uint64(1)<<k, uint64(1)<<(64-k)
		ps = append(ps, [2]uint64{a, b}, [2]uint64{a + 1, b}, [2]uint64{a, b + 1}, [2]uint64{3 * a, b}, [2]uint64{a - 1, b})
	}
	ps = append(ps, [2]uint64{0xAAAAAAAAAAAAAAAB, 3}, [2]uint64{0xAAAAAAAAAAAAAAAB, 30}, [2]uint64{0xCCCCCCCCCCCCCCCD, 5}, [2]uint64{0xEEEEEEEEEEEEEEEF, 15},
		[2]uint64{1<<64 - 1, 1<<64 - 1}, [2]uint64{1<<64 - 1, 2}, [2]uint64{1<<64 - 30, 30}, [2]uint64{1<<63 + 5, 2})
	return ps
}

func genC04Edge(emit func(string)) {
	genEpochEdge(emit)
	// skew and period that only look acceptable after they have been multiplied or added (both orders)
	{
		key := []byte("12345678901234567890")
		sec := base32.StdEncoding.EncodeToString(key)
		for _, ab := range wrapPairs() {
			for _, sp := range [][2]uint64{{ab[0], ab[1]}, {ab[1], ab[0]}} {
				p := &otp.Param{Digits: 6, Period: uint(sp[1]), Skew: uint(sp[0]), Algorithm: otp.SHA1}
				emit(fmt.Sprintf("vtotp %s %s 59,0,0,0 %s", hxs(sec), hxs("00000a"), fmtParam(p)))
				emit(fmt.Sprintf("vtotp %s %s 59,0,0,0 %s", hxs(sec), hxs("287082"), fmtParam(p)))
			}
		}
	}
	// the lower window edge, systematically: time steps at and around the skew, codes of every step from 0 to one
	// past the upper edge
	{
		key := []byte("12345678901234567890")
		sec := base32.StdEncoding.EncodeToString(key)
		for s := uint64(0); s <= 10; s++ {
			for _, st := range []uint64{s, s + 1} {
				for cc := uint64(0); cc <= st+s+2; cc++ {
					if cc > 2 && cc+2 < st+s && cc != st-s && cc+1 != st-s {
						continue
					}
					for _, per := range []uint64{30, 0, 7} {
						if per != 30 && cc > 1 {
							continue
						}
						ep := per
						if ep == 0 {
							ep = 30
						}
						p := &otp.Param{Digits: 6, Period: uint(per), Skew: uint(s), Algorithm: otp.SHA1}
						emit(fmt.Sprintf("vtotp %s %s %d,0,0,0 %s", hxs(sec), hxs(refHOTP(key, cc, 6, 0)), st*ep+ep/2, fmtParam(p)))
					}
				}
			}
		}
	}
}

func genC04Rand(r *rng, n int, emit func(string)) {
	for i := 0; i < n; i++ {
		s, key := genSecret(r)
		p := genParam(r, 10)
		ep := effParam(p, *otp.DefaultTOTPParam)
		per := uint64(ep.Period)
		if per == 0 {
			per = 30
		}
		sec := genUnix(r, per)
		if sec < 0 {
			sec = 0
		}
		skew := int64(ep.Skew)
		if skew > 12 {
			skew = 12
		}
		dist := int64(r.intn(int(2*(skew+3)+1))) - (skew + 3)
		step := uint64(sec)/per + uint64(dist)
		code := refHOTP(key, step, ep.Digits.Int(), uint64(ep.Algorithm))
		if r.chance(1, 4) {
			code = mutateCode(r, code)
		}
		emit(fmt.Sprintf("vtotp %s %s %s %s", hxs(s), hxs(code), genTime(r, sec), fmtParam(p)))
		if i%8 == 1 && p != nil { // a period that a narrower integer type would confuse with this one
			q := *p
			q.Period = uint(per + 1<<32)
			emit(fmt.Sprintf("vtotp %s %s %s %s", hxs(s), hxs(refHOTP(key, uint64(sec)/per, ep.Digits.Int(), uint64(ep.Algorithm))), genTime(r, sec), fmtParam(&q)))
			emit(fmt.Sprintf("gtotp %s %s %s", hxs(s), genTime(r, sec), fmtParam(&q)))
		}
		if i%4 == 0 { // generate at a neighbouring step, validate the returned string itself at sec
			sec2 := int64(step * per)
			if sec2 >= 0 && uint64(sec2)/per == step {
				emit(fmt.Sprintf("gvtotp %s %s %s %s", hxs(s), genTime(r, sec2), genTime(r, sec), fmtParam(p)))
			}
		}
	}
}

// ---------------- OCRA ----------------
func genSuite(r *rng, valid bool) otp.SuiteConfig {
	var c otp.SuiteConfig
	if r.chance(1, 3) { // a registered suite, as NewRawSuite would return it
		names := otp.ListSuites()
		// ListSuites order is random (map); sort for determinism
		sortStrings(names)
		name := pick(r, names)
		c = otp.SuiteConfigFromRaws(name)
		c.Raw = name
		return c
	}
	c.Hash = otp.Algorithm(r.intn(3))
	c.Digits = 4 + r.intn(7)
	c.IncludeCounter = r.chance(1, 2)
	c.IncludeChallenge = r.chance(3, 4)
	c.IncludePassword = r.chance(1, 3)
	c.IncludeSession = r.chance(1, 3)
	c.IncludeTimestamp = r.chance(1, 3)
	c.Challenge = otp.ChallengeFormat(1 + r.intn(6))
	c.PasswordHash = otp.PasswordHashAlgorithm(1 + r.intn(3))
	c.TimeStep = pick(r, []int{1, 30, 60, 3600})
	switch r.intn(4) {
	case 0:
		c.Raw = ""
	case 1:
		c.Raw = string(r.bytes(r.intn(40)))
	case 2:
		c.Raw = strings.Repeat("R", 200+r.intn(100)) // message longer than the pooled 256-byte buffer
	default:
		c.Raw = "OCRA-1:HOTP-SHA1-6:QN08"
	}
	if !c.IncludePassword && r.chance(1, 2) {
		c.PasswordHash = 0
	}
	if !c.IncludeChallenge && r.chance(1, 2) {
		c.Challenge = 0
	}
	if !c.IncludeTimestamp && r.chance(1, 2) {
		c.TimeStep = pick(r, []int{0, -1})
	}
	if !valid {
		switch r.intn(7) {
		case 0:
			c.Digits = pick(r, []int{-1, 0, 1, 3, 11, 12, 255})
		case 1:
			c.Hash = otp.Algorithm(pick(r, []uint64{3, 4, 255}))
		case 2:
			c.IncludePassword, c.PasswordHash = true, 0
		case 3:
			c.IncludeTimestamp, c.TimeStep = true, pick(r, []int{0, -1})
		case 4:
			c.IncludeChallenge, c.Challenge = true, 0
		case 5:
			c.Challenge = otp.ChallengeFormat(pick(r, []int{-1, 7, 100}))
		case 6:
			c.PasswordHash = otp.PasswordHashAlgorithm(pick(r, []int{-1, 4, 100}))
		}
	}
	return c
}

func pwLen(h otp.PasswordHashAlgorithm) int {
	switch h {
	case otp.PasswordSHA1:
		return 20
	case otp.PasswordSHA256:
		return 32
	case otp.PasswordSHA512:
		return 64
	}
	return 20
}

func chalMin(f otp.ChallengeFormat) int {
	switch f {
	case 1, 3, 5:
		return 8
	case 2, 4, 6:
		return 10
	}
	return 0
}

// admissible input for cfg; unselected fields get arbitrary ("canary") content
func genInput(r *rng, c otp.SuiteConfig, admissible bool) otp.OCRAInput {
	var in otp.OCRAInput
	junk := func() []byte {
		if r.chance(1, 2) {
			return nil
		}
		return r.bytes(pick(r, []int{0, 1, 7, 8, 9, 20, 127, 128, 129, 140}))
	}
	in.Counter, in.Challenge, in.Password, in.SessionInfo, in.Timestamp = junk(), junk(), junk(), junk(), junk()
	if c.IncludeCounter {
		in.Counter = r.bytes(8)
	}
	if c.IncludeChallenge {
		lo := chalMin(c.Challenge)
		in.Challenge = r.bytes(pick(r, []int{lo, lo + 1, 64, 127, 128, lo + r.intn(129-lo)}))
	}
	if c.IncludePassword {
		in.Password = r.bytes(pwLen(c.PasswordHash))
	}
	if c.IncludeSession {
		in.SessionInfo = r.bytes(pick(r, []int{0, 1, 64, 127, 128, r.intn(129)}))
	}
	if c.IncludeTimestamp {
		in.Timestamp = r.bytes(8)
	}
	if !admissible {
		switch r.intn(5) {
		case 0:
			in.Counter = r.bytes(pick(r, []int{0, 7, 9, 16}))
		case 1:
			lo := chalMin(c.Challenge)
			in.Challenge = r.bytes(pick(r, []int{0, max(lo-1, 0), 129, 140}))
		case 2:
			in.Password = r.bytes(pick(r, []int{0, 19, 21, 31, 33, 63, 65}))
		case 3:
			in.SessionInfo = r.bytes(pick(r, []int{129, 140, 300}))
		case 4:
			in.Timestamp = r.bytes(pick(r, []int{0, 7, 9}))
		}
	}
	return in
}

func sortStrings(a []string) {
	for i := 1; i < len(a); i++ {
		for j := i; j > 0 && a[j] < a[j-1]; j-- {
			a[j], a[j-1] = a[j-1], a[j]
		}
	}
}

func genC05(r *rng, n int, emit func(string)) {
	// every registered suite with an admissible input
	names := otp.ListSuites()
	sortStrings(names)
	for _, name := range names {
		c := otp.SuiteConfigFromRaws(name)
		c.Raw = name
		for k := 0; k < 2; k++ {
			s, _ := genSecret(r)
			emit(fmt.Sprintf("gocra %s %s %s", hxs(s), fmtSuite(c), fmtInput(genInput(r, c, true))))
		}
	}
	for d := -1; d <= 12; d++ {
		for _, v := range formatterValues(r) {
			emit(fmt.Sprintf("fmtdec %d %d", v, d))
		}
	}
	for _, l := range []int{0, 1, 7, 8, 9, 127, 128, 129, 200} {
		for _, w := range []int{0, 8, 128} {
			emit(fmt.Sprintf("padb %s %d", hx(r.bytes(l)), w))
		}
	}
	for i := 0; i < n; i++ {
		c := genSuite(r, !r.chance(1, 10))
		in := genInput(r, c, !r.chance(1, 10))
		s, key := genSecret(r)
		op := pick(r, []string{"gocra", "gocra", "gocra_raw"})
		emit(fmt.Sprintf("%s %s %s %s", op, hxs(s), fmtSuite(c), fmtInput(in)))
		if i%3 == 0 && key != nil {
			// the same call with different content in the unselected fields: must give the same answer
			in2 := genInput(r, c, true)
			if c.IncludeCounter {
				in2.Counter = in.Counter
			}
			if c.IncludeChallenge {
				in2.Challenge = in.Challenge
			}
			if c.IncludePassword {
				in2.Password = in.Password
			}
			if c.IncludeSession {
				in2.SessionInfo = in.SessionInfo
			}
			if c.IncludeTimestamp {
				in2.Timestamp = in.Timestamp
			}
			emit(fmt.Sprintf("gocra %s %s %s", hxs(s), fmtSuite(c), fmtInput(in2)))
			emit(fmt.Sprintf("d6287 %s %s %s", hx(key), fmtSuite(c), fmtInput(in)))
		}
	}
}

func ocraMsg(c otp.SuiteConfig, in otp.OCRAInput) []byte {
	pad := func(b []byte, n int) []byte {
		o := make([]byte, n)
		copy(o, b)
		return o
	}
	m := append([]byte(c.Raw), 0)
	if c.IncludeCounter {
		m = append(m, pad(in.Counter, 8)...)
	}
	if c.IncludeChallenge {
		m = append(m, pad(in.Challenge, 128)...)
	}
	if c.IncludePassword {
		m = append(m, in.Password...)
	}
	if c.IncludeSession {
		m = append(m, pad(in.SessionInfo, 128)...)
	}
	if c.IncludeTimestamp {
		m = append(m, pad(in.Timestamp, 8)...)
	}
	return m
}

func genC06(r *rng, n int, emit func(string)) {
	for i := 0; i < n; i++ {
		c := genSuite(r, !r.chance(1, 8))
		in := genInput(r, c, !r.chance(1, 8))
		s, key := genSecret(r)
		code := refCode(key, ocraMsg(c, in), c.Digits, uint64(c.Hash))
		switch r.intn(6) {
		case 0:
			code = mutateCode(r, code)
		case 1: // the code of a neighbouring input
			in2 := in
			if c.IncludeCounter && len(in.Counter) == 8 {
				in2.Counter = append([]byte(nil), in.Counter...)
				in2.Counter[7]++
			} else if len(in.Challenge) > 0 {
				in2.Challenge = append([]byte(nil), in.Challenge...)
				in2.Challenge[len(in2.Challenge)-1] ^= 1
			}
			code = refCode(key, ocraMsg(c, in2), c.Digits, uint64(c.Hash))
		case 2: // the code of a neighbouring suite
			c2 := c
			c2.Raw += "x"
			code = refCode(key, ocraMsg(c2, in), c.Digits, uint64(c.Hash))
		}
		emit(fmt.Sprintf("vocra %s %s %s %s", hxs(s), hxs(code), fmtSuite(c), fmtInput(in)))
		if i%4 == 0 { // generate for a neighbouring input, validate the returned string itself for this one
			in2 := in
			if c.IncludeCounter && len(in.Counter) == 8 {
				in2.Counter = append([]byte(nil), in.Counter...)
				in2.Counter[7]++
			} else if len(in.Challenge) > 0 {
				in2.Challenge = append([]byte(nil), in.Challenge...)
				in2.Challenge[len(in2.Challenge)-1] ^= 1
			}
			if r.chance(1, 3) {
				in2 = in
			}
			emit(fmt.Sprintf("gvocra %s %s %s %s", hxs(s), fmtSuite(c), fmtInput(in2), fmtInput(in)))
		}
	}
}

// ---------------- C07 ----------------
func genC07(r *rng, n int, emit func(string)) {
	// every length 0..64 in canonical form, then random spellings, then the malformed stream
	for l := 0; l <= 64; l++ {
		emit("decode " + hxs(base32.StdEncoding.EncodeToString(r.bytes(l))))
	}
	alphabet := "ABCDEFGHIJKLMNOPQRSTUVWXYZ234567"
	for i := 0; i < n; i++ {
		switch r.intn(5) {
		case 0, 1, 2:
			l := r.intn(257)
			if r.chance(1, 2) {
				l = r.intn(12)
			}
			emit("decode " + hxs(spell(r, r.bytes(l))))
		case 3: // malformed: alphabet text of arbitrary length with optional padding / foreign characters
			l := r.intn(20)
			b := make([]byte, l)
			for j := range b {
				b[j] = alphabet[r.intn(32)]
			}
			s := string(b)
			switch r.intn(6) {
			case 0:
				s += strings.Repeat("=", r.intn(9))
			case 1:
				if l > 0 {
					b[r.intn(l)] = byte(r.next())
					s = string(b)
				}
			case 2:
				if l > 2 {
					j := r.intn(l)
					s = s[:j] + "=" + s[j:]
				}
			case 3:
				if l > 2 {
					j := r.intn(l)
					s = s[:j] + pick(r, []string{"\n", "\r", " ", "\t", "ſ", "ı", "0", "1", "8", "9", "-", " "}) + s[j:]
				}
			case 4:
				s = strings.ToLower(s)
			}
			emit("decode " + hxs(s))
		default:
			emit("decode " + hx(r.bytes(r.intn(12))))
		}
	}
}

// ---------------- C14 ----------------
func genC14(r *rng, n int, emit func(string)) {
	names14 := otp.ListSuites()
	sortStrings(names14)
	for i := 0; i < n/6; i++ {
		c := genSuite(r, r.chance(1, 3))
		in := genInput(r, c, r.chance(3, 4))
		s, _ := genSecret(r)
		emit(fmt.Sprintf("gocra_mut %s %s %s %s", hxs(pick(r, names14)), hxs(s), fmtSuite(c), fmtInput(in)))
	}
	// suite usability: every combination of the listed values
	for _, d := range []int{-1, 0, 3, 4, 5, 10, 11, 12} {
		for h := 0; h <= 4; h++ {
			for mask := 0; mask < 32; mask++ {
				for _, step := range []int{-1, 0, 1, 60} {
					c := otp.SuiteConfig{Hash: otp.Algorithm(h), Digits: d, IncludeCounter: mask&1 != 0, IncludeChallenge: mask&2 != 0,
						IncludePassword: mask&4 != 0, IncludeSession: mask&8 != 0, IncludeTimestamp: mask&16 != 0, TimeStep: step,
						Challenge: otp.ChallengeFormat(r.intn(7)), PasswordHash: otp.PasswordHashAlgorithm(r.intn(4))}
					emit("svalidate " + fmtSuite(c))
				}
			}
		}
	}
	// input admission: every length 0..140 of each field, alone
	base := otp.SuiteConfig{Hash: 0, Digits: 6, TimeStep: 30}
	for l := 0; l <= 140; l++ {
		for f := 0; f < 5; f++ {
			for _, variant := range []int{1, 2, 3} {
				c := base
				in := otp.OCRAInput{}
				switch f {
				case 0:
					c.IncludeCounter = true
					in.Counter = r.bytes(l)
				case 1:
					c.IncludeChallenge = true
					c.Challenge = otp.ChallengeFormat(variant * 2) // 2,4,6 = the "10" formats
					if l%2 == 0 {
						c.Challenge--
					} // 1,3,5 = the "08" formats
					in.Challenge = r.bytes(l)
				case 2:
					c.IncludePassword = true
					c.PasswordHash = otp.PasswordHashAlgorithm(variant)
					in.Password = r.bytes(l)
				case 3:
					c.IncludeSession = true
					in.SessionInfo = r.bytes(l)
				case 4:
					c.IncludeTimestamp = true
					in.Timestamp = r.bytes(l)
				}
				emit(fmt.Sprintf("ivalidate %s %s", fmtSuite(c), fmtInput(in)))
				if variant == 1 { // the same lengths in an unselected field: not constrained
					c2 := base
					c2.IncludeSession = true
					emit(fmt.Sprintf("ivalidate %s %s", fmtSuite(c2), fmtInput(in)))
				}
			}
		}
	}
	// several fixed-width fields selected at once, all of the right width except one that is longer by a multiple of
	// 256 or by a power of two (what a check on packed or narrowed lengths would confuse with the right width)
	for _, pwh := range []int{1, 2, 3} {
		pw := pwLen(otp.PasswordHashAlgorithm(pwh))
		c := otp.SuiteConfig{Hash: 0, Digits: 6, TimeStep: 30, IncludeCounter: true, IncludeChallenge: true, Challenge: 1,
			IncludePassword: true, PasswordHash: otp.PasswordHashAlgorithm(pwh), IncludeTimestamp: true}
		var extra []int
		for j := 1; j <= 24; j++ {
			extra = append(extra, 256*j)
		}
		for k := 13; k <= 20; k++ {
			extra = append(extra, 1<<k)
		}
		for _, e := range extra {
			for f := 0; f < 3; f++ {
				in := otp.OCRAInput{Counter: make([]byte, 8), Challenge: make([]byte, 8), Password: make([]byte, pw), Timestamp: make([]byte, 8)}
				switch f {
				case 0:
					in.Counter = make([]byte, 8+e)
				case 1:
					in.Password = make([]byte, pw+e)
				case 2:
					in.Timestamp = make([]byte, 8+e)
				}
				emit(fmt.Sprintf("ivalidate %s %s", fmtSuite(c), fmtInput(in)))
				c2 := c
				c2.IncludeCounter = false
				emit(fmt.Sprintf("ivalidate %s %s", fmtSuite(c2), fmtInput(in)))
			}
		}
	}
	for i := 0; i < n; i++ {
		c := genSuite(r, !r.chance(1, 4))
		in := genInput(r, c, !r.chance(1, 2))
		emit(fmt.Sprintf("ivalidate %s %s", fmtSuite(c), fmtInput(in)))
		if i%2 == 0 {
			s, _ := genSecret(r)
			emit(fmt.Sprintf("gocra %s %s %s", hxs(s), fmtSuite(c), fmtInput(in)))
		}
	}
}

// ---------------- model HMAC vs crypto/hmac ----------------
func genHash(r *rng, n int, emit func(string)) {
	for _, kl := range []int{0, 1, 63, 64, 65, 127, 128, 129, 200} {
		for _, ml := range []int{0, 8, 55, 56, 63, 64, 111, 112, 119, 120, 127, 128, 300} {
			for a := 0; a < 3; a++ {
				emit(fmt.Sprintf("hmac %d %s %s", a, hx(r.bytes(kl)), hx(r.bytes(ml))))
			}
		}
	}
	for i := 0; i < n; i++ {
		emit(fmt.Sprintf("hmac %d %s %s", r.intn(3), hx(genKey(r)), hx(r.bytes(r.intn(400)))))
	}
}

// ---------------- C17 / C08 ----------------
func init() {
	streams["c17"] = genC17
	streams["c08"] = genC08
}

func decString(r *rng) string {
	switch r.intn(8) {
	case 0:
		return fmt.Sprintf("%d", pick(r, boundaryCounters))
	case 1:
		return strings.Repeat("0", r.intn(30)) + fmt.Sprintf("%d", r.next()>>uint(r.intn(64)))
	case 2: // near 2^64
		b := new(big.Int).Lsh(big.NewInt(1), 64)
		b.Add(b, big.NewInt(int64(r.intn(5))-2))
		return b.String()
	case 3:
		return pick(r, []string{"", "+", "-", "+5", "-5", "-0", "+0", " 5", "5 ", "1_000", "0x10", "1e3", "١٢٣", "12a", "a", "00", "0"})
	case 4:
		n := r.intn(300)
		b := make([]byte, n)
		for i := range b {
			b[i] = byte('0' + r.intn(10))
		}
		return string(b)
	case 5:
		b := r.bytes(r.intn(10))
		return string(b)
	default:
		n := 1 + r.intn(64)
		b := make([]byte, n)
		for i := range b {
			b[i] = byte('0' + r.intn(10))
		}
		return string(b)
	}
}

func hexString(r *rng, maxLen int) string {
	n := r.intn(maxLen + 1)
	const hexd = "0123456789abcdefABCDEF"
	b := make([]byte, n)
	for i := range b {
		b[i] = hexd[r.intn(len(hexd))]
	}
	if r.chance(1, 8) && n > 0 {
		b[r.intn(n)] = pick(r, []byte{'g', 'G', ' ', 'x', '-', 0xff})
	}
	return string(b)
}

func genC17(r *rng, n int, emit func(string)) {
	for _, v := range boundaryCounters {
		emit(fmt.Sprintf("to8 %d", v))
		emit("pdec8a " + hxs(fmt.Sprintf("%d", v)))
	}
	for w := -1; w <= 40; w++ {
		emit(fmt.Sprintf("lpad %s %d", hxs(hexString(r, 20)), w))
	}
	for w := -1; w <= 20; w++ { // MustHexPadLeft: widths around the text's own, odd and even lengths
		emit(fmt.Sprintf("mhex %s %d", hxs(hexString(r, 20)), w))
		emit(fmt.Sprintf("mhex %s %d", hxs("0123456789abcdefABCDEF"[:r.intn(23)]), w))
	}
	// decimal questions at every boundary of the hexadecimal text's length (16^k - 1, 16^k, 16^k + 1) and of the decimal
	// text's length (10^k - 1, 10^k), up to and beyond the 256 hexadecimal digits of the padded field
	{
		one := big.NewInt(1)
		for k := 0; k <= 260; k++ {
			p16 := new(big.Int).Lsh(one, uint(4*k))
			for _, d := range []int64{-1, 0, 1} {
				v := new(big.Int).Add(p16, big.NewInt(d))
				if v.Sign() >= 0 {
					emit("pchal " + hxs(v.String()))
				}
			}
			if k <= 80 {
				p10 := new(big.Int).Exp(big.NewInt(10), big.NewInt(int64(k)), nil)
				emit("pchal " + hxs(p10.String()))
				emit("pchal " + hxs(new(big.Int).Sub(p10, one).String()))
			}
		}
	}
	emit("mhex " + hxs("zz") + " 4")
	emit("mhex " + hxs("") + " 0")
	emit("mhex " + hxs("abc") + " 1")
	for l := 0; l <= 40; l++ {
		s := hexString(r, 0)
		for len(s) < l {
			s += string("0123456789abcdef"[r.intn(16)])
		}
		emit("phexts " + hxs(s))
	}
	for i := 0; i < n; i++ {
		switch r.intn(7) {
		case 0:
			emit(fmt.Sprintf("to8 %d", genCounter(r)))
		case 1:
			emit(pick(r, []string{"pdec8a ", "pdec8b "}) + hxs(decString(r)))
		case 2:
			emit(fmt.Sprintf("lpad %s %d", hxs(hexString(r, 300)), pick(r, []int{0, 1, 2, 16, 40, 256, 300, 1000, r.intn(400)})))
		case 3:
			emit("phexts " + hxs(hexString(r, 24)))
			emit(fmt.Sprintf("mhex %s %d", hxs(hexString(r, 40)), pick(r, []int{0, 1, 2, 8, 16, 20, 64, 128, r.intn(40)})))
		case 4:
			emit("pchal " + hxs(decString(r)))
		case 5:
			f := func() string {
				if r.chance(1, 3) {
					return ""
				}
				s := hexString(r, 40)
				if len(s)%2 == 1 && r.chance(3, 4) {
					s += "0"
				}
				return s
			}
			emit(fmt.Sprintf("hexin %s %s %s %s %s", hxs(f()), hxs(f()), hxs(f()), hxs(f()), hxs(f())))
		default: // end to end: a numeric question through the helper, then OCRA with a numeric-challenge suite
			q := decString(r)
			emit("pchal " + hxs(q))
		}
	}
}

func genC08(r *rng, n int, emit func(string)) {
	for l := 0; l <= 70; l++ {
		emit("b32enc " + hx(r.bytes(l)))
	}
	for i := 0; i < n; i++ {
		k := 1 + r.intn(8)
		algos := make([]string, k)
		for j := range algos {
			a := r.intn(3)
			if r.chance(1, 8) {
				a = pick(r, []int{3, 4, 255})
			}
			algos[j] = fmt.Sprintf("%d", a)
		}
		stream := r.bytes(64*k + 8)
		switch r.intn(6) {
		case 0:
			for j := range stream {
				stream[j] = 0
			}
		case 1:
			for j := range stream {
				stream[j] = 0xff
			}
		}
		emit(fmt.Sprintf("rand %s %s", hx(stream), strings.Join(algos, ",")))
		if i%3 == 1 { // a source that returns short reads (io.Reader allows it; rand.Read must read fully)
			emit(fmt.Sprintf("randchunk %s %d %s", hx(stream), pick(r, []int{1, 7, 16, 19, 20, 31, 63}), strings.Join(algos, ",")))
		}
		if i%10 == 0 {
			emit(fmt.Sprintf("randconc %s %d %d", hx(r.bytes(4096)), 1+r.intn(16), 1+r.intn(6)))
		}
		if i%3 == 0 {
			emit("b32enc " + hx(r.bytes(pick(r, []int{20, 32, 64}))))
		}
	}
}

// ---------------- C13 ----------------
func init() { streams["c13"] = genC13 }

func genC13(r *rng, n int, emit func(string)) {
	both := func(s string) {
		emit(s)
		emit("scan " + s)
	}
	genEpochEdge(emit)
	genC03Edge(emit)
	genC03Rand(r, n/3, both)
	genC04Rand(r, n/3, both)
	genC06(r, n/3, both)
	// URL parsing errors: the secret travels in the query
	for i := 0; i < n/6; i++ {
		sec, _ := genSecret(r)
		q := url.Values{}
		q.Set("secret", sec)
		q.Set("issuer", "Example")
		if r.chance(1, 2) {
			q.Set(pick(r, []string{"digits", "period", "algorithm"}), pick(r, []string{"x", "-1", "999", "MD5", "6"}))
		}
		u := &url.URL{Scheme: pick(r, []string{"otpauth", "otpauth", "http"}), Host: pick(r, []string{"totp", "hotp", "xotp"}),
			Path: pick(r, []string{"/alice@example.com", "/Example:alice", "/", ""}), RawQuery: q.Encode()}
		both("purl " + fmtURL(u))
	}
	// failing calls of the generating operations with long secrets
	for i := 0; i < n/3; i++ {
		s, _ := genSecret(r)
		switch r.intn(3) {
		case 0:
			both(fmt.Sprintf("ghotp %s %d %s", hxs(s), genCounter(r), fmtParam(genParam(r, 10))))
		case 1:
			both(fmt.Sprintf("gtotp %s %s %s", hxs(s), genTime(r, genUnix(r, 30)), fmtParam(genParam(r, 10))))
		default:
			c := genSuite(r, r.chance(1, 2))
			both(fmt.Sprintf("gocra %s %s %s", hxs(s), fmtSuite(c), fmtInput(genInput(r, c, r.chance(1, 2)))))
		}
	}
}

// ---------------- C15: suite names ----------------
func init() { streams["c15"] = genC15 }

func grammarSuite(r *rng, wild bool) string {
	hash := pick(r, []string{"SHA1", "SHA256", "SHA512"})
	digits := fmt.Sprint(4 + r.intn(7))
	if wild || r.chance(1, 6) {
		digits = pick(r, []string{"0", "1", "3", "4", "10", "11", "12", "06", "+7", "-6", "", "6x", "9223372036854775807", "9223372036854775808", "007"})
	}
	var toks []string
	if r.chance(1, 2) {
		toks = append(toks, "C")
	}
	if r.chance(5, 6) {
		toks = append(toks, "Q"+pick(r, []string{"N", "A", "H"})+pick(r, []string{"08", "10"}))
	}
	if r.chance(1, 3) {
		toks = append(toks, "PSHA"+pick(r, []string{"1", "256", "512"}))
	}
	if r.chance(1, 3) {
		toks = append(toks, pick(r, []string{"S", "S064", "S128", "S000", "S999"}))
	}
	if r.chance(1, 2) {
		n := fmt.Sprint(1 + r.intn(59))
		if r.chance(1, 8) {
			n = pick(r, []string{"0", "-1", "+5", "01", "", "x", "5124095576030431", "5124095576030432", "153722867280912931", "9223372036854775807", "9223372036854775808", "2562047788015216"})
		} else if r.chance(1, 6) {
			n = fmt.Sprint(pick(r, wrapAliases)) // a count whose product with 60 or 3600 wraps to a small number
		}
		unit := pick(r, []string{"S", "M", "H"})
		if r.chance(1, 6) {
			unit = pick(r, []string{"X", "m", "s", "h", "D", "0", "2", "", "MM", " "})
		}
		toks = append(toks, "T"+n+unit)
	}
	return "OCRA-1:HOTP-" + hash + "-" + digits + ":" + strings.Join(toks, "-")
}

var malformedSuites = []string{"", ":", "::", ":::", "OCRA-1", "OCRA-1:HOTP-SHA1-6", "OCRA-1:HOTP-SHA1-6:", "OCRA-1:HOTP-SHA1-6:QN08:junk",
	"OCRA-10:HOTP-SHA1-6:QN08", "OCRA-2:HOTP-SHA1-6:QN08", "ocra-1:HOTP-SHA1-6:QN08", "OCRA-1 :HOTP-SHA1-6:QN08", "OCRA-1:HOTP-SHA1-6:QN08 ",
	"OCRA-1:TOTP-SHA1-6:QN08", "OCRA-1:HOTP-MD5-6:QN08", "OCRA-1:HOTP-SHA384-6:QN08", "OCRA-1:HOTP-SHA1:QN08", "OCRA-1:HOTP-SHA1-6-7:QN08",
	"OCRA-1:HOTP-SHA-1-6:QN08", "OCRA-1:hotp-sha1-6:qn08", "OCRA-1:HOTP-SHA1-6:QN8", "OCRA-1:HOTP-SHA1-6:QN088", "OCRA-1:HOTP-SHA1-6:QN12",
	"OCRA-1:HOTP-SHA1-6:QX08", "OCRA-1:HOTP-SHA1-6:Q", "OCRA-1:HOTP-SHA1-6:X", "OCRA-1:HOTP-SHA1-6:C-", "OCRA-1:HOTP-SHA1-6:-C", "OCRA-1:HOTP-SHA1-6:C--QN08",
	"OCRA-1:HOTP-SHA1-6:QN08-PSHA", "OCRA-1:HOTP-SHA1-6:QN08-PSHA2", "OCRA-1:HOTP-SHA1-6:QN08-P", "OCRA-1:HOTP-SHA1-6:QN08-T", "OCRA-1:HOTP-SHA1-6:QN08-TM",
	"OCRA-1:HOTP-SHA1-6:QN08-T1", "OCRA-1:HOTP-SHA1-6:QN08-T1X", "OCRA-1:HOTP-SHA1-6:QN08-T1m", "OCRA-1:HOTP-SHA1-6:QN08-t1M", "OCRA-1:HOTP-SHA1-6:QN08-T0M",
	"OCRA-1:HOTP-SHA1-6:QN08-T-1M", "OCRA-1:HOTP-SHA1-6:QN08-SHA1", "OCRA-1:HOTP-SHA1-6:QN08-QN10", "OCRA-1:HOTP-SHA1-6:QN10-QNx", "OCRA-1:HOTP-SHA1-6:C-C",
	"OCRA-1:HOTP-SHA1-6:T1M-QN08-C", "OCRA-1:HOTP-ſHA1-6:QN08", "OCRA-1:HOTP-SHA1-6:QıN08", "OCRA-1:HOTP-SHA1-6:ſ064-QN08", "OCRA-1:HOTP-SHA1-6:QN08-PſHA1",
	"OCRA-1:HOTP-SHA1-6:QN08\x00", "OCRA-1:HOTP-SHA1-6:QN\xff\xfe", "OCRA-1:HOTP-SHA1-6:QNé08", "OCRA-1:HOT", "OCRA-1:HOTP-:QN08", "OCRA-1:HOTP-SHA:QN08", "OCRA-1:HOTP-SHA-:QN08",
	"OCRA-1:HOTP-SHA1-:QN08", "OCRA-1:HOTP-SHA1-6 :QN08", "OCRA-1:HOTP-SHA1- 6:QN08"}

func genC15(r *rng, n int, emit func(string)) {
	emit("listsuites")
	emit("listsuites_after_edit")
	emit("listsuites")
	names := otp.ListSuites()
	sortStrings(names)
	for _, nm := range names {
		emit("nraw " + hxs(nm))
		emit("praw " + hxs(nm))
		emit("known " + hxs(nm))
		emit("fromraws " + hxs(nm))
	}
	// exhaustive slice of the grammar: hash x digits 0..11 x [C-] Q<kind><len> [-P] [-S] [-T]
	for _, h := range []string{"SHA1", "SHA256", "SHA512"} {
		for d := 0; d <= 11; d++ {
			for _, c := range []string{"", "C-"} {
				for _, q := range []string{"QN08", "QN10", "QA08", "QA10", "QH08", "QH10"} {
					for _, p := range []string{"", "-PSHA1", "-PSHA256", "-PSHA512"} {
						for _, s := range []string{"", "-S", "-S064"} {
							for _, t := range []string{"", "-T1M", "-T30S", "-T48H"} {
								emit("nraw " + hxs(fmt.Sprintf("OCRA-1:HOTP-%s-%d:%s%s%s%s%s", h, d, c, q, p, s, t)))
							}
						}
					}
				}
			}
		}
	}
	for _, m := range malformedSuites {
		emit("nraw " + hxs(m))
		emit("praw " + hxs(m))
		emit("known " + hxs(m))
		emit("fromraws " + hxs(m))
	}
	// separators, systematically: at every position of a few long names insert ':' or '-', and swap each separator
	// for the other one (a fourth part, an empty token, two suites glued together)
	for _, base := range []string{"OCRA-1:HOTP-SHA256-8:C-QN10-PSHA256-S064-T1M", "OCRA-1:HOTP-SHA1-6:QN08-S", "OCRA-1:HOTP-SHA512-8:QH10-S128-T30S",
		"OCRA-1:HOTP-SHA1-6:C", "OCRA-1:HOTP-SHA1-6:C-QN08-PSHA1-S-T1H"} {
		for k := 0; k <= len(base); k++ {
			for _, c := range []string{":", "-"} {
				emit("nraw " + hxs(base[:k]+c+base[k:]))
			}
			if k < len(base) && (base[k] == ':' || base[k] == '-') {
				o := ":"
				if base[k] == ':' {
					o = "-"
				}
				emit("nraw " + hxs(base[:k]+o+base[k+1:]))
				emit("praw " + hxs(base[:k]+o+base[k+1:]))
				emit("nraw " + hxs(base[:k]+base[k+1:]))
			}
		}
	}
	for i := 0; i < n; i++ {
		switch r.intn(10) {
		case 0, 1, 2, 3:
			s := grammarSuite(r, false)
			emit(pick(r, []string{"nraw ", "praw "}) + hxs(s))
		case 4:
			emit("nraw " + hxs(grammarSuite(r, true)))
		case 5: // one-character edits / case changes of a registered or grammar name
			s := grammarSuite(r, false)
			if r.chance(1, 2) {
				s = pick(r, names)
			}
			b := []byte(s)
			if len(b) > 0 {
				k := r.intn(len(b))
				switch r.intn(5) {
				case 0:
					b[k] = byte(r.next())
				case 1:
					b = append(b[:k], b[k+1:]...)
				case 2:
					b = append(b[:k], append([]byte{pick(r, []byte(":-CQNTSP0189"))}, b[k:]...)...)
				case 3:
					if b[k] >= 'A' && b[k] <= 'Z' {
						b[k] += 32
					}
				case 4:
					b = []byte(strings.ToLower(string(b)))
				}
			}
			emit(pick(r, []string{"nraw ", "praw ", "known "}) + hx(b))
		case 6:
			emit("nraw " + hx(r.bytes(r.intn(30))))
		case 7, 8:
			emit("nsuite " + fmtSuite(genSuite(r, r.chance(2, 3))))
		case 9:
			s := pick(r, names)
			emit(pick(r, []string{"known ", "fromraws "}) + hxs(s[:r.intn(len(s)+1)]))
		}
	}
}

// ---------------- C16: provisioning URLs ----------------
func init() { streams["c16"] = genC16 }

var urlAlphabet = []string{" ", "%", "/", "?", "#", "&", "=", "+", "@", ":", ";", ",", "%41", "%2F", "%zz", "%", "é", "日本", "\xff", "\x00", "\x7f", "\n", "a", "B", "7", "-", "_", ".", "~", "!", "$", "'", "(", ")", "*", "[", "]", "<", ">", "\"", "\\", "^", "`", "{", "|", "}"}

func urlString(r *rng, maxParts int, noColon bool) string {
	var sb strings.Builder
	n := 1 + r.intn(maxParts)
	for i := 0; i < n; i++ {
		var s string
		switch r.intn(3) {
		case 0:
			s = pick(r, urlAlphabet)
		case 1:
			s = string(rune('a' + r.intn(26)))
		default:
			s = pick(r, []string{"My Company", "alice@example.com", "Ex", "A", "bob", "ACME Co.", "x y"})
		}
		if noColon {
			s = strings.ReplaceAll(s, ":", "")
		}
		sb.WriteString(s)
	}
	return sb.String()
}

func genURLParamLine(r *rng, valid bool) string {
	issuer := urlString(r, 4, true)
	account := urlString(r, 4, false)
	secret, _ := genSecret(r)
	if r.chance(1, 3) {
		secret = urlString(r, 5, false)
	}
	// fields that stand in a relation to one another (one a prefix of the other, with or without the delimiter the
	// label uses, equal fields): a special case keyed on such a relation is not reached by independent fields
	switch r.intn(12) {
	case 0:
		account = issuer + ":" + account
	case 1:
		account = issuer + pick(r, []string{"", "/", "%3A", "@", " "}) + account
	case 2:
		account = issuer
	case 3:
		account = issuer + ":"
	case 4:
		secret = issuer
	case 5:
		account = account + ":" + issuer
	}
	digits := pick(r, []uint64{0, 6, 8, 9, 10, 1, 7, 255, 11})
	alg := pick(r, []uint64{0, 1, 2, 0, 1, 2, 3, 255})
	period := pick(r, []uint64{0, 30, 60, 1, 29, 3600, 1 << 31, 1<<31 - 1, 1<<32 + 5, 1<<63 - 1, 1 << 63, 1<<64 - 1})
	if !valid {
		switch r.intn(4) {
		case 0:
			issuer = ""
		case 1:
			account = ""
		case 2:
			secret = ""
		case 3:
			issuer = issuer + ":" + urlString(r, 2, false)
		}
	}
	return fmt.Sprintf("%s %s %s %d %d %d", hxs(issuer), hxs(account), hxs(secret), digits, alg, period)
}

func numText(r *rng) string {
	switch r.intn(6) {
	case 0:
		return fmt.Sprint(r.intn(300))
	case 1:
		return pick(r, []string{"0", "6", "8", "255", "256", "262", "-1", "-0", "+7", " 7", "7 ", "07", "0x10", "1e3", "", "six", "9223372036854775807", "9223372036854775808",
			"-9223372036854775808", "-9223372036854775809", "18446744073709551615", "18446744073709551616", "4294967296", "2147483648", "30", "٣٠", "1_0"})
	case 2:
		return fmt.Sprint(int64(r.next()))
	case 3:
		return fmt.Sprint(r.next())
	case 4:
		return fmt.Sprint(r.intn(1 << 20))
	default:
		return urlString(r, 2, false)
	}
}

func genC16(r *rng, n int, emit func(string)) {
	for _, s := range []string{"", "6", "8", "9", "10", "7", "06", " 6", "six", "10 "} {
		emit("digstr " + hxs(s))
	}
	for _, s := range []string{"", "SHA1", "SHA256", "SHA512", "sha1", "SHA-1", "MD5", "SHA384"} {
		emit("algstr " + hxs(s))
	}
	for i := 0; i < 6; i++ {
		emit(fmt.Sprintf("algname %d", []int{0, 1, 2, 3, 128, 255}[i]))
		emit(fmt.Sprintf("digint %d", []int{0, 6, 8, 10, 11, 255}[i]))
	}
	emit("purl -")
	fixed := []string{"otpauth://totp/Example:alice@example.com?secret=JBSWY3DPEHPK3PXP&issuer=Example&algorithm=SHA1&digits=6&period=30",
		"otpauth://hotp/Example:alice?secret=JBSWY3DPEHPK3PXP&counter=5", "otpauth://TOTP/a:b?secret=x", "OTPAUTH://totp/a:b?secret=x", "otpauth://totp/a?secret=x",
		"otpauth://totp/My%20Company:bob?secret=x", "otpauth://totp/My+Company:bob?secret=a+b&issuer=My+Company", "otpauth://totp/a%3Ab:c?secret=x",
		"otpauth://totp/a:b?digits=262", "otpauth://totp/a:b?period=-1", "otpauth://totp/a:b?digits=+7", "otpauth://totp/a:b?digits=%2B7", "otpauth://totp/a:b?digits=7;period=9",
		"otpauth://totp/a:b?digits=7&digits=8", "otpauth://totp/a:b?algorithm=sha256", "otpauth://totp/a:b?algorithm=%C5%BFha1", "otpauth://totp/a:b?secret=%zz&digits=8", "otpauth://totp/a:b?=x&&digits=8",
		"otpauth://user@totp/a:b?secret=x", "otpauth://user:pw@totp/a:b?secret=x", "otpauth://totp:80/a:b", "otpauth://totp:x/a:b", "otpauth://%74otp/a:b", "otpauth://to%tp/a:b", "otpauth://[::1]/a:b",
		"otpauth:totp/a:b", "otpauth:/totp/a:b", "otpauth:///a:b", "//totp/a:b", "totp/a:b", "a:b", "/a:b", ":a", "1a:b", "a+b-c.d:e", "*", "otpauth://totp/a:b?", "otpauth://totp/a:b??", "otpauth://totp/a:b#frag",
		"otpauth://totp/a:b#%zz", "otpauth://totp/a:b#a#b", "otpauth://totp/a b:c", "otpauth://totp/a\x7fb:c", "otpauth://totp/a\tb:c", "otpauth://tótp/a:b", "otpauth://totp/%", "otpauth://totp/%4", "otpauth://totp/%41:b",
		"otpauth://totp", "otpauth://", "otpauth:", "otpauth://totp/é:ü?secret=é", "otpauth://ho tp/a:b", "otpauth://ho<tp/a:b", "http://a@b@c/d", "otpauth://totp//a:b", "otpauth://totp/a:b?a=1?b=2", "x://y?z"}
	for _, s := range fixed {
		emit("uparse " + hxs(s))
		if u, err := url.Parse(s); err == nil && u.User == nil {
			emit("purl " + fmtURL(u))
			emit("ustr " + fmtURL(u))
		}
	}
	for i := 0; i < n; i++ {
		kind := pick(r, []string{"t", "h"})
		switch r.intn(10) {
		case 0, 1, 2:
			emit("rturl " + kind + " " + genURLParamLine(r, r.chance(9, 10)))
		case 3, 4:
			emit("gurl " + kind + " " + genURLParamLine(r, r.chance(5, 6)))
		case 5, 6: // parse-only clause: arbitrary digits / period / algorithm texts, type in any case
			host := pick(r, []string{"totp", "hotp", "TOTP", "Hotp", "tOtP", "xotp", "", "totp ", "İotp"})
			q := url.Values{}
			if r.chance(3, 4) {
				q.Set("digits", numText(r))
			}
			if r.chance(3, 4) {
				q.Set("period", numText(r))
			}
			if r.chance(1, 2) {
				q.Set("algorithm", pick(r, []string{"SHA1", "SHA256", "SHA512", "sha512", "Sha256", "ſha1", "SHA-1", "", "MD5", "SHA1 "}))
			}
			if r.chance(3, 4) {
				q.Set("secret", urlString(r, 3, false))
			}
			raw := q.Encode()
			if r.chance(1, 4) {
				raw = strings.Replace(raw, "&", pick(r, []string{";", "&&", "&=&", "&%&"}), 1)
			}
			u := &url.URL{Scheme: pick(r, []string{"otpauth", "otpauth", "otpauth", "OTPAUTH", "http", ""}), Host: host,
				Path: pick(r, []string{"/", "", "a:b", "/:"}) + urlString(r, 2, false) + pick(r, []string{":", "", ":"}) + urlString(r, 2, false), RawQuery: raw}
			emit("purl " + fmtURL(u))
		case 7:
			// textual URLs over the delimiter-rich alphabet
			s := "otpauth://" + pick(r, []string{"totp", "hotp", "TOTP", "ho%74p", "t:1", ""}) + "/" + urlString(r, 4, false) + pick(r, []string{"", "?", "?secret=", "?digits=8&period="}) + urlString(r, 2, false)
			emit("uparse " + hxs(s))
		case 8:
			emit("uparse " + hxs(urlString(r, 6, false)))
		case 9:
			u := &url.URL{Scheme: pick(r, []string{"otpauth", "", "a"}), Host: pick(r, []string{"totp", "", "h x", "é"}), Path: pick(r, []string{"", "/", "*"}) + urlString(r, 3, false),
				RawPath: pick(r, []string{"", "", "/x", "/%41"}), RawQuery: pick(r, []string{"", "a=b", "x"}), ForceQuery: r.chance(1, 5), Fragment: pick(r, []string{"", "", "f g", "f"})}
			emit("ustr " + fmtURL(u))
		}
	}
}

// ---------------- C10: hostile arguments ----------------
func init() { streams["c10"] = genC10 }

func hostileString(r *rng) string {
	switch r.intn(10) {
	case 0:
		return ""
	case 1:
		return string(r.bytes(1 + r.intn(40))) // arbitrary bytes, mostly invalid UTF-8
	case 2:
		return strings.Repeat(pick(r, []string{"A", "=", " ", "\n", "7", "ſ", "\xff", "-", ":", "%"}), pick(r, []int{1, 7, 8, 9, 255, 256, 4096}))
	case 3:
		return "\x00" + string(r.bytes(r.intn(8)))
	case 4:
		return pick(r, []string{"é", " ", " ABCD ", "ı", "ſ", "\xc5", "\xe2\x80", "日本語", "\ufeff"})
	default:
		s, _ := genSecret(r)
		return s
	}
}

func hostileParam(r *rng) *otp.Param {
	if r.chance(1, 8) {
		return nil
	}
	big := []uint64{0, 1, 2, 10, 11, 29, 30, 31, 255, 256, 1<<31 - 1, 1 << 31, 1<<32 - 1, 1 << 32, 1<<63 - 1, 1 << 63, 1<<64 - 1}
	p := &otp.Param{Digits: otp.Digits(r.intn(256)), Algorithm: otp.Algorithm(r.intn(256)), Period: uint(pick(r, big)), Skew: uint(pick(r, []uint64{0, 1, 2, 9, 10}))}
	if r.chance(1, 2) {
		p.Digits = otp.Digits(pick(r, []uint64{0, 1, 5, 6, 8, 9, 10, 11, 12, 64, 128, 255}))
	}
	if r.chance(1, 2) {
		p.Algorithm = otp.Algorithm(pick(r, []uint64{0, 1, 2, 3, 4, 127, 128, 255}))
	}
	if r.chance(1, 6) {
		p.Skew = uint(pick(r, []uint64{11, 12, 255, 1 << 20, 1 << 32, 1<<63 - 1, 1 << 63, 1<<64 - 1}))
	}
	return p
}

func hostileTime(r *rng) string {
	sec := pick(r, []int64{0, 1, -1, 59, -59, 1 << 31, -(1 << 31), 1 << 32, 1<<62 - 1, 1 << 62, 1<<63 - 1, -(1 << 63), -62135596800, 253402300800, 9223372036})
	if r.chance(1, 2) {
		sec = int64(r.next())
	}
	return genTime(r, sec)
}

func hostileSuite(r *rng) otp.SuiteConfig {
	ints := []int{-1 << 63, -1 << 31, -2, -1, 0, 1, 2, 3, 4, 5, 6, 7, 8, 9, 10, 11, 12, 64, 255, 256, 1 << 31, 1<<63 - 1}
	c := genSuite(r, r.chance(1, 2))
	switch r.intn(8) {
	case 0:
		c.Digits = pick(r, ints)
	case 1:
		c.Hash = otp.Algorithm(r.intn(256))
	case 2:
		c.Challenge = otp.ChallengeFormat(pick(r, ints))
	case 3:
		c.PasswordHash = otp.PasswordHashAlgorithm(pick(r, ints))
	case 4:
		c.TimeStep = pick(r, ints)
	case 5:
		c = otp.SuiteConfig{}
	case 6:
		c.Raw = string(r.bytes(r.intn(600)))
	}
	return c
}

func hostileInput(r *rng, c otp.SuiteConfig) string {
	in := genInput(r, c, r.chance(1, 2))
	f := func(b []byte) string {
		switch r.intn(12) {
		case 0:
			return "X" // nil
		case 1:
			return hx(nil)
		case 2:
			return hx(r.bytes(pick(r, []int{1, 7, 8, 9, 19, 20, 21, 31, 32, 33, 63, 64, 65, 127, 128, 129, 140, 255, 256, 257, 4096})))
		}
		return hx(b)
	}
	return strings.Join([]string{f(in.Counter), f(in.Challenge), f(in.Password), f(in.SessionInfo), f(in.Timestamp)}, ",")
}

func genC10(r *rng, n int, emit func(string)) {
	secret := hxs("GEZDGNBVGY3TQOJQGEZDGNBVGY3TQOJQ")
	// every uint8 value of the two enums
	for d := 0; d < 256; d++ {
		emit(fmt.Sprintf("ghotp %s 1 %d,30,1,%d", secret, d, d%3))
		emit(fmt.Sprintf("gtotp %s 59,0,0,0 %d,0,1,%d", secret, d, d%3))
		emit(fmt.Sprintf("vhotp %s %s 1 %d,30,1,%d", secret, hxs("287082"), d, d%3))
		emit(fmt.Sprintf("vtotp %s %s 59,0,0,0 %d,30,1,%d", secret, hxs("287082"), d, d%3))
		emit(fmt.Sprintf("ghotp %s 1 6,30,1,%d", secret, d))
		emit(fmt.Sprintf("vtotp %s %s 59,0,0,0 6,0,1,%d", secret, hxs("287082"), d))
		emit(fmt.Sprintf("algname %d", d))
		emit(fmt.Sprintf("digint %d", d))
		emit(fmt.Sprintf("rand x00 %d", d))
	}
	// the two ends of the counter range, every window: a loop over a window must end there too
	for k := uint64(0); k <= 12; k++ {
		for _, sk := range []int{0, 1, 2, 9, 10, 11} {
			for _, code := range []string{"000000", "abcdef", "287082"} {
				emit(fmt.Sprintf("vhotp %s %s %d 6,30,%d,0", secret, hxs(code), ^uint64(0)-k, sk))
				emit(fmt.Sprintf("vhotp %s %s %d 6,30,%d,0", secret, hxs(code), k, sk))
			}
			// uint64(t.Unix()) of an instant before the epoch is at the top of the range (period 1)
			emit(fmt.Sprintf("vtotp %s %s %d,0,0,0 6,1,%d,0", secret, hxs("000000"), -int64(k)-1, sk))
			emit(fmt.Sprintf("vtotp %s %s %d,0,0,0 6,1,%d,0", secret, hxs("000000"), int64(k), sk))
		}
		emit(fmt.Sprintf("vhotp %s %s %d -", secret, hxs("000000"), ^uint64(0)-k))
		emit(fmt.Sprintf("ghotp %s %d -", secret, ^uint64(0)-k))
	}
	emit("purl -")
	emit("listsuites")
	// 64 KiB strings
	big := strings.Repeat("A", 65536)
	emit("decode " + hxs(big))
	emit("decode " + hxs(strings.Repeat("=", 65536)))
	emit("decode " + hxs(strings.Repeat(" ", 65535)+"A"))
	emit("ghotp " + hxs(big) + " 0 -")
	emit("vhotp " + secret + " " + hxs(big) + " 0 -")
	emit("nraw " + hxs(big))
	emit("nraw " + hxs("OCRA-1:HOTP-SHA1-6:"+strings.Repeat("C-", 20000)+"QN08"))
	emit("nraw " + hxs("OCRA-1:HOTP-SHA1-6:QN08-T"+strings.Repeat("9", 5000)+"M"))
	emit("pchal " + hxs(strings.Repeat("9", 308)))
	emit("pchal " + hxs(strings.Repeat("9", 309)))
	emit("pchal " + hxs(strings.Repeat("9", 310)))
	emit("pchal " + hxs("-"+strings.Repeat("9", 400)))
	emit("pchal " + hxs(strings.Repeat("9", 2000)))
	emit("pdec8a " + hxs(strings.Repeat("9", 5000)))
	emit("phexts " + hxs(strings.Repeat("f", 65536)))
	emit("hexin " + hxs(strings.Repeat("ab", 32768)) + " x x x x")
	for _, w := range []int64{-1, -2, -16, -1 << 31, -1 << 62, -1 << 63, 0} {
		emit(fmt.Sprintf("lpad %s %d", hxs("abc"), w))
		emit(fmt.Sprintf("lpad %s %d", hxs(""), w))
	}
	for _, sec := range []string{"GEZDGNBVGY3TQOJQGEZDGNBVGY3TQOJQ", "", "not base32!"} {
		emit("gocra_nil " + hxs(sec) + " x,x3132333435363738,x,x,x")
		emit("vocra_nil " + hxs(sec) + " " + hxs("123456") + " x,x3132333435363738,x,x,x")
	}
	emit("lpad " + hxs("abc") + " 1048576")
	emit("lpad " + hxs(strings.Repeat("a", 70000)) + " 5")
	emit("uparse " + hxs("otpauth://totp/"+strings.Repeat("a%20", 16000)+":b?secret=x"))
	for _, m := range malformedSuites {
		emit("nraw " + hxs(m))
	}
	for i := 0; i < 200; i++ {
		emit("nraw " + hxs(grammarSuite(r, r.chance(1, 2))))
	}
	for i := 0; i < n; i++ {
		sec := hxs(hostileString(r))
		if r.chance(1, 2) {
			sec = secret
		}
		code := hxs(pick(r, []string{"", "0", "287082", "000000", "1234567", "12345678", "0123456789", "01234567890", "٣٤٥٦٧٨", "28708\x00", strings.Repeat("0", 255), strings.Repeat("1", 262)}))
		switch r.intn(16) {
		case 0:
			emit("ghotp " + sec + " " + fmt.Sprint(genCounter(r)) + " " + fmtParam(hostileParam(r)))
		case 1:
			emit("vhotp " + sec + " " + code + " " + fmt.Sprint(genCounter(r)) + " " + fmtParam(hostileParam(r)))
		case 2:
			emit("gtotp " + sec + " " + hostileTime(r) + " " + fmtParam(hostileParam(r)))
		case 3:
			p := hostileParam(r)
			emit("vtotp " + sec + " " + code + " " + hostileTime(r) + " " + fmtParam(p))
		case 4, 5:
			c := hostileSuite(r)
			emit(pick(r, []string{"gocra ", "gocra_raw ", "d6287 "}) + sec + " " + fmtSuite(c) + " " + hostileInput(r, c))
		case 6:
			c := hostileSuite(r)
			emit("vocra " + sec + " " + code + " " + fmtSuite(c) + " " + hostileInput(r, c))
		case 7:
			c := hostileSuite(r)
			emit("svalidate " + fmtSuite(c))
			emit("ivalidate " + fmtSuite(c) + " " + hostileInput(r, c))
			emit("nsuite " + fmtSuite(c))
		case 8:
			emit(pick(r, []string{"nraw ", "praw ", "known ", "fromraws "}) + hxs(hostileString(r)))
		case 9:
			emit("decode " + hxs(hostileString(r)))
		case 10:
			emit(pick(r, []string{"pdec8a ", "pdec8b ", "phexts ", "pchal ", "digstr ", "algstr "}) + hxs(hostileString(r)))
		case 11:
			emit("lpad " + hxs(hostileString(r)) + " " + fmt.Sprint(pick(r, []int{0, 1, 2, 15, 16, 17, 255, 1 << 10, 1 << 20})))
		case 12:
			emit("hexin " + hxs(hostileString(r)) + " " + hxs(hexString(r, 40)) + " " + hxs(hostileString(r)) + " " + hxs(hexString(r, 300)) + " " + hxs(hexString(r, 20)))
		case 13:
			u := &url.URL{Scheme: pick(r, []string{"otpauth", "", "OTPAUTH", hostileString(r)}), Host: pick(r, []string{"totp", "hotp", "", hostileString(r)}),
				Path: hostileString(r), RawQuery: pick(r, []string{"", "digits=" + numText(r), "period=" + numText(r), hostileString(r), "a=b;c=d&digits=%zz&period=9"}),
				Opaque: pick(r, []string{"", "", "x"}), Fragment: pick(r, []string{"", "f"})}
			emit("purl " + fmtURL(u))
		case 14:
			emit(fmt.Sprintf("gurl %s %s %s %s %d %d %d", pick(r, []string{"t", "h"}), hxs(hostileString(r)), hxs(hostileString(r)), hxs(hostileString(r)), r.intn(256), r.intn(256),
				pick(r, []uint64{0, 1, 30, 1 << 32, 1<<63 - 1, 1 << 63, 1<<64 - 1})))
		case 15:
			emit("uparse " + hxs(hostileString(r)))
		}
	}
}

// ---------------- C20: WebAssembly / JavaScript binding ----------------
func init() { streams["c20"] = genC20 }

func jsStr(s string) string { return "s" + hxs(s)[1:] }

var jsOddArgs = []string{"u", "l", "b1", "b0", "o", "a", "f", "y", "g", "nNaN", "nInf", "n-Inf", "n-1", "n-0", "q-0", "q-3", "n1e300", "n-1e300", "n9223372036854775808", "n9223372036854774784", "n18446744073709551616", "s", "s31", "n0", "n1", "q1", "n3600", "n3601", "n11", "n10"}

func genC20(r *rng, n int, emit func(string)) {
	emit("wexports")
	names := []string{"generateHOTP", "generateTOTP", "validateHOTP", "validateTOTP", "generateOTPURL"}
	arity := map[string]int{"generateHOTP": 4, "generateTOTP": 5, "validateHOTP": 6, "validateTOTP": 7, "generateOTPURL": 6}
	secret := "GEZDGNBVGY3TQOJQGEZDGNBVGY3TQOJQ"
	good := map[string][]string{
		"generateHOTP":   {jsStr(secret), "n1", jsStr("6"), jsStr("SHA1")},
		"generateTOTP":   {jsStr(secret), "n59", jsStr("8"), jsStr("SHA1"), "n30"},
		"validateHOTP":   {jsStr(secret), jsStr("287082"), "n1", jsStr("6"), jsStr("SHA1"), "n1"},
		"validateTOTP":   {jsStr(secret), jsStr("94287082"), "n59", jsStr("8"), jsStr("SHA1"), "n1", "n30"},
		"generateOTPURL": {jsStr("totp"), jsStr("My Co"), jsStr("a@b"), jsStr(secret), jsStr("6"), jsStr("SHA1")},
	}
	// every argument position with every odd JS value; too few / too many arguments; both access paths
	for _, nm := range names {
		for _, via := range []string{"g", "e"} {
			emit("wcall " + nm + " " + via + " " + strings.Join(good[nm], " "))
			for k := 0; k <= arity[nm]+1; k++ {
				args := append([]string{}, good[nm]...)
				for len(args) < k {
					args = append(args, "n1")
				}
				emit(strings.TrimSpace("wcall " + nm + " " + via + " " + strings.Join(args[:k], " ")))
			}
		}
		for pos := 0; pos < arity[nm]; pos++ {
			for _, odd := range jsOddArgs {
				args := append([]string{}, good[nm]...)
				args[pos] = odd
				emit("wcall " + nm + " " + pick(r, []string{"g", "e"}) + " " + strings.Join(args, " "))
			}
		}
	}
	digitsSp := []string{"6", "8", "9", "10", "7", "06", "", "ten", "10 "}
	algoSp := []string{"SHA1", "SHA256", "SHA512", "sha1", "SHA-256", "MD5", "x"}
	counters := []uint64{0, 1, 2, 9, 10, 11, 255, 1<<31 - 1, 1 << 31, 1<<32 - 1, 1 << 32, 1<<32 + 1, 1<<53 - 11, 1<<53 - 1, 1 << 53}
	for i := 0; i < n; i++ {
		sec, key := genSecret(r)
		if r.chance(1, 12) {
			sec = pick(r, []string{"not base32!", "MZXW6===MZXW6===", "A", "ABC"})
		}
		dsp := pick(r, digitsSp)
		if r.chance(2, 3) {
			dsp = pick(r, []string{"6", "8", "9", "10"})
		}
		asp := pick(r, algoSp)
		if r.chance(2, 3) {
			asp = pick(r, []string{"SHA1", "SHA256", "SHA512"})
		}
		d := otp.DigitsFromStr(dsp).Int()
		a := uint64(otp.AlgorithmFromStr(asp))
		via := pick(r, []string{"g", "e"})
		c := pick(r, counters)
		if r.chance(1, 2) {
			c = uint64(r.intn(1 << 20))
		}
		cnum := fmt.Sprintf("n%d", c)
		if r.chance(1, 10) && c < 1<<50 {
			cnum = fmt.Sprintf("q%d", c) // fractional numbers are truncated
		}
		if i%7 == 0 { // one secret, consecutive calls that differ only in the hash (then only in the length)
			for _, al := range []string{"SHA1", "SHA256", "SHA512", "SHA1"} {
				emit(fmt.Sprintf("wcall generateHOTP %s %s %s %s %s", via, jsStr(sec), cnum, jsStr(dsp), jsStr(al)))
			}
			for _, dg := range []string{"6", "8", "10", "9"} {
				emit(fmt.Sprintf("wcall generateTOTP %s %s %s %s %s n30", via, jsStr(sec), cnum, jsStr(dg), jsStr(asp)))
			}
			codeA := refHOTP(key, c, d, a)
			for _, al := range []string{"SHA1", "SHA256", "SHA512"} {
				emit(fmt.Sprintf("wcall validateHOTP %s %s %s %s %s %s n0", via, jsStr(sec), jsStr(codeA), fmt.Sprintf("n%d", c), jsStr(dsp), jsStr(al)))
			}
		}
		switch r.intn(6) {
		case 0:
			emit(fmt.Sprintf("wcall generateHOTP %s %s %s %s %s", via, jsStr(sec), cnum, jsStr(dsp), jsStr(asp)))
		case 1:
			per := uint64(pick(r, []int{1, 2, 29, 30, 31, 60, 3599, 3600}))
			emit(fmt.Sprintf("wcall generateTOTP %s %s %s %s %s n%d", via, jsStr(sec), cnum, jsStr(dsp), jsStr(asp), per))
		case 2, 3:
			skew := int64(r.intn(11))
			dist := int64(r.intn(int(2*(skew+2)+1))) - (skew + 2)
			cc := c + uint64(dist)
			code := refHOTP(key, cc, d, a)
			if r.chance(1, 5) {
				code = mutateCode(r, code)
			}
			if code == "" {
				code = "0"
			}
			emit(fmt.Sprintf("wcall validateHOTP %s %s %s %s %s %s n%d", via, jsStr(sec), jsStr(code), cnum, jsStr(dsp), jsStr(asp), skew))
		case 4:
			skew := int64(r.intn(11))
			per := uint64(pick(r, []int{1, 2, 29, 30, 31, 60, 3600, 86400}))
			dist := int64(r.intn(int(2*(skew+2)+1))) - (skew + 2)
			step := c/per + uint64(dist)
			code := refHOTP(key, step, d, a)
			if r.chance(1, 5) {
				code = mutateCode(r, code)
			}
			if code == "" {
				code = "0"
			}
			emit(fmt.Sprintf("wcall validateTOTP %s %s %s %s %s %s n%d n%d", via, jsStr(sec), jsStr(code), cnum, jsStr(dsp), jsStr(asp), skew, per))
		case 5:
			iss := urlString(r, 3, true)
			acc := urlString(r, 3, false)
			if !utf8.ValidString(iss) || !utf8.ValidString(acc) || strings.ContainsAny(iss+acc, "\x00") {
				iss, acc = "My Company", "alice@example.com"
			}
			emit(fmt.Sprintf("wcall generateOTPURL %s %s %s %s %s %s %s", via, jsStr(pick(r, []string{"totp", "hotp", "TOTP", "x"})), jsStr(iss), jsStr(acc), jsStr(sec), jsStr(dsp), jsStr(asp)))
		}
	}
}

// ---------------- C11 / C12: histories, schedules, memory ----------------
func init() {
	streams["c11"] = genC11
	streams["c12"] = genC12
}

// a pool of sub-cases of every kind (pure operations only)
func mixedCases(r *rng, n int) []string {
	var out []string
	collect := func(s string) {
		op := strings.SplitN(s, " ", 2)[0]
		switch op {
		case "rand", "randconc", "randchunk", "scan", "rreq", "rburst", "wcall", "wexports", "conc", "canary":
			return
		}
		if len(s) < 4000 {
			out = append(out, s)
		}
	}
	for len(out) < n {
		switch r.intn(9) {
		case 0:
			genC01(r, 2, collect)
		case 1:
			genC03Rand(r, 2, collect)
		case 2:
			genC04Rand(r, 2, collect)
		case 3, 4:
			genC05(r, 2, collect) // OCRA messages shorter and longer than the pooled buffer
		case 5:
			genC06(r, 2, collect)
		case 6:
			names := otp.ListSuites()
			sortStrings(names)
			collect("nraw " + hxs(pick(r, names)))
			g := grammarSuite(r, false)
			collect("nraw " + hxs(g))
			// the same suite in another letter case, before and after: a look-up must not remember spellings
			collect("nraw " + hxs(respell(r, g)))
			collect("nraw " + hxs(g))
		case 7:
			genC02(r, 2, collect)
		case 8:
			genC16(r, 1, func(s string) {
				if strings.HasPrefix(s, "rturl") || strings.HasPrefix(s, "purl") {
					collect(s)
				}
			})
		}
	}
	return out[:n]
}

// respell changes the letter case of some characters after the version prefix
func respell(r *rng, s string) string {
	b := []byte(s)
	for i := 7; i < len(b); i++ {
		if r.chance(1, 3) {
			if b[i] >= 'A' && b[i] <= 'Z' {
				b[i] += 32
			} else if b[i] >= 'a' && b[i] <= 'z' {
				b[i] -= 32
			}
		}
	}
	return string(b)
}

func genC11(r *rng, n int, emit func(string)) {
	// sequential histories are every other stream (one process, one P); here: schedules
	procs := []int{1, 2, 4, 16}
	gor := []int{1, 2, 8, 64}
	for i := 0; i < n; i++ {
		k := 4 + r.intn(10)
		sub := mixedCases(r, k)
		emit(fmt.Sprintf("conc %d %d %d %d %s", pick(r, gor), pick(r, procs), 1+r.intn(6), r.intn(2), hxs(strings.Join(sub, "\n"))))
	}
}

func genC12(r *rng, n int, emit func(string)) {
	emit("listsuites")
	emit("listsuites_after_edit")
	for i := 0; i < n; i++ {
		layout := r.intn(6)
		var inner string
		switch r.intn(10) {
		case 0, 1, 2, 3, 4:
			c := genSuite(r, !r.chance(1, 8))
			in := genInput(r, c, !r.chance(1, 6))
			if r.chance(1, 3) { // lengths around the padding widths 8 and 128
				in.Challenge = r.bytes(pick(r, []int{7, 8, 9, 10, 11, 64, 127, 128}))
				in.SessionInfo = r.bytes(pick(r, []int{0, 1, 64, 127, 128}))
				c.IncludeChallenge, c.IncludeSession = true, true
				if c.Challenge == 0 {
					c.Challenge = 1
				}
			}
			s, key := genSecret(r)
			switch r.intn(4) {
			case 0:
				inner = fmt.Sprintf("gocra %s %s %s", hxs(s), fmtSuite(c), fmtInput(in))
			case 1:
				inner = fmt.Sprintf("vocra %s %s %s %s", hxs(s), hxs(refCode(key, ocraMsg(c, in), c.Digits, uint64(c.Hash))), fmtSuite(c), fmtInput(in))
			case 2:
				inner = fmt.Sprintf("d6287 %s %s %s", hx(key), fmtSuite(c), fmtInput(in))
			default:
				inner = fmt.Sprintf("gocra_raw %s %s %s", hxs(s), fmtSuite(c), fmtInput(in))
			}
		case 5:
			genC01(r, 1, func(s string) { inner = s })
		case 6:
			genC03Rand(r, 1, func(s string) { inner = s })
		case 7:
			genC04Rand(r, 1, func(s string) { inner = s })
		case 8:
			inner = fmt.Sprintf("padb %s %d", hx(r.bytes(pick(r, []int{0, 1, 7, 8, 9, 64, 127, 128, 129, 200}))), pick(r, []int{8, 128}))
		case 9:
			genC16(r, 1, func(s string) {
				if strings.HasPrefix(s, "purl") || strings.HasPrefix(s, "gurl") {
					inner = s
				}
			})
		}
		op := strings.SplitN(inner, " ", 2)[0]
		switch op {
		case "gocra", "vocra", "d6287", "gocra_raw", "ghotp", "vhotp", "gtotp", "vtotp", "d4226", "padb", "purl", "gurl":
			emit(fmt.Sprintf("canary %d %s", layout, inner))
		}
		if i%9 == 0 { // suite look-ups must not change what is advertised
			emit("nraw " + hxs(grammarSuite(r, false)))
			emit("nraw " + hxs(strings.ToLower(grammarSuite(r, false))))
			emit("listsuites")
		}
	}
}
