package main

import (
	"bytes"
	"fmt"
	"net/url"
	"reflect"
	"runtime"
	"sort"
	"strings"
	"sync"
	"sync/atomic"

	"github.com/ja7ad/otp"
)

// ---- C11: concurrent histories ----
// conc <goroutines> <gomaxprocs> <rounds> <adversary 0/1> x<hex of newline-separated case lines>
// Every sub-case is run by every goroutine, `rounds` times, in a per-goroutine rotation of the list,
// while (optionally) an adversary goroutine takes buffers from the library's two pools, overwrites
// them and puts them back, and another one forces garbage collections.  The answer is the list of
// sub-case results (each must be the same in every goroutine and round, and results retained from
// the first round must still read the same at the end).
func doConc(f []string) string {
	g, p, rounds, adv := int(u64(f[1])), int(u64(f[2])), int(u64(f[3])), f[4] == "1"
	lines := strings.Split(string(unhx(f[5])), "\n")
	defer runtime.GOMAXPROCS(runtime.GOMAXPROCS(p))
	first := make([]string, len(lines))
	for i, l := range lines {
		first[i] = run(l)
	}
	retained := append([]string(nil), first...) // the very strings returned above
	copies := make([]string, len(first))
	for i, s := range first {
		copies[i] = string(append([]byte(nil), s...))
	}
	var stop atomic.Bool
	var bg sync.WaitGroup
	if adv && !haveHooks {
		adv = false // the pools are reachable through the hooks only; the schedule still runs
	}
	if adv {
		p4, p6 := hkPools()
		bg.Add(2)
		go func() {
			defer bg.Done()
			for !stop.Load() {
				if b, ok := p4.Get().(*[8]byte); ok && b != nil {
					for i := range b {
						b[i] = 0xEE
					}
					runtime.Gosched()
					for i := range b {
						b[i] ^= 0x55
					}
					p4.Put(b)
				}
				if b, ok := p6.Get().(*[]byte); ok && b != nil {
					s := (*b)[:cap(*b)]
					for i := range s {
						s[i] = 0xDD
					}
					*b = s[:len(s)/2] // a length the library did not leave there
					runtime.Gosched()
					p6.Put(b)
				}
			}
		}()
		go func() {
			defer bg.Done()
			for !stop.Load() {
				runtime.GC()
				runtime.Gosched()
			}
		}()
	}
	var bad atomic.Value
	var wg sync.WaitGroup
	for w := 0; w < g; w++ {
		wg.Add(1)
		go func(w int) {
			defer wg.Done()
			for r := 0; r < rounds; r++ {
				for k := range lines {
					i := (k + w*7 + r) % len(lines)
					if got := run(lines[i]); got != copies[i] {
						bad.CompareAndSwap(nil, fmt.Sprintf("goroutine %d round %d: %s => %s, alone it answers %s", w, r, lines[i], got, copies[i]))
						return
					}
				}
			}
		}(w)
	}
	wg.Wait()
	stop.Store(true)
	bg.Wait()
	if b := bad.Load(); b != nil {
		return "bad:" + b.(string)
	}
	for i := range retained {
		if retained[i] != copies[i] {
			return fmt.Sprintf("bad:a result returned earlier changed afterwards: %s => now %q, was %q", lines[i], retained[i], copies[i])
		}
	}
	return strings.Join(copies, ";")
}

// ---- C12: caller data and package state are not modified ----
type guarded struct {
	arr      []byte // the whole backing array
	off, n   int    // the slice presented to the library is arr[off:off+n] with capacity c
	c        int
	snapshot []byte
}

// present b as a sub-slice of a larger, canary-filled array with spare capacity
func guard(b []byte, layout int) ([]byte, *guarded) {
	if b == nil {
		return nil, nil
	}
	front, spare := 0, 0
	switch layout % 6 {
	case 0: // exact
	case 1:
		spare = 1
	case 2:
		spare = 8 - len(b)%8
	case 3:
		spare = 128
	case 4:
		front, spare = 16, 200
	case 5:
		front, spare = 3, 128-len(b)%128
	}
	if spare < 0 {
		spare = 0
	}
	arr := make([]byte, front+len(b)+spare+16)
	for i := range arr {
		arr[i] = 0xC0 + byte(i%31)
	}
	copy(arr[front:], b)
	g := &guarded{arr: arr, off: front, n: len(b), c: len(b) + spare}
	g.snapshot = append([]byte(nil), arr...)
	return arr[front : front+len(b) : front+len(b)+spare], g
}
func (g *guarded) dirty() bool { return g != nil && !bytes.Equal(g.arr, g.snapshot) }

type pkgState struct {
	hotp, totp otp.Param
	suites     string
}

func snapshotPkg() pkgState {
	reg := hkKnownSuites()
	names := make([]string, 0, len(reg))
	for k, v := range reg {
		names = append(names, fmt.Sprintf("%s=%+v", k, v))
	}
	sort.Strings(names)
	return pkgState{*otp.DefaultHOTPParam, *otp.DefaultTOTPParam, strings.Join(names, "|")}
}

// canary <layout> <inner case...>: the inner operation on guarded copies of its arguments
func doCanary(f []string) string {
	layout := int(u64(f[1]))
	inner := f[2:]
	before := snapshotPkg()
	var guards []*guarded
	var out string
	dirty := ""
	gd := func(b []byte, k int) []byte {
		s, g := guard(b, layout+k)
		guards = append(guards, g)
		return s
	}
	switch inner[0] {
	case "gocra", "vocra", "d6287", "gocra_raw":
		si, ii := 2, 3
		if inner[0] == "vocra" {
			si, ii = 3, 4
		}
		c := parseSuite(inner[si])
		c0 := c
		in := parseInput(inner[ii])
		in.Counter, in.Challenge, in.Password, in.SessionInfo, in.Timestamp = gd(in.Counter, 0), gd(in.Challenge, 1), gd(in.Password, 2), gd(in.SessionInfo, 3), gd(in.Timestamp, 4)
		in0 := in
		switch inner[0] {
		case "gocra":
			out = strOrErr(otp.GenerateOCRA(string(unhx(inner[1])), c, in))
		case "gocra_raw":
			out = strOrErr(otp.GenerateOCRA(string(unhx(inner[1])), otp.RawSuite{SuiteConfig: c}, in))
		case "vocra":
			out = verdict(otp.ValidateOCRA(string(unhx(inner[1])), string(unhx(inner[2])), c, in))
		case "d6287":
			key, g := guard(unhx(inner[1]), layout+5)
			guards = append(guards, g)
			out = strOrErr(hkDerive6287(key, c, in))
		}
		if !reflect.DeepEqual(c, c0) {
			dirty = "suite configuration changed"
		}
		if len(in.Counter) != len(in0.Counter) || len(in.Challenge) != len(in0.Challenge) {
			dirty = "input struct changed"
		}
	case "ghotp", "vhotp", "gtotp", "vtotp":
		pi := 3
		if inner[0][0] == 'v' {
			pi = 4
		}
		p := parseParam(inner[pi])
		var p0 otp.Param
		if p != nil {
			p0 = *p
		}
		switch inner[0] {
		case "ghotp":
			out = strOrErr(otp.GenerateHOTP(string(unhx(inner[1])), u64(inner[2]), p))
		case "vhotp":
			out = verdict(otp.ValidateHOTP(string(unhx(inner[1])), string(unhx(inner[2])), u64(inner[3]), p))
		case "gtotp":
			out = strOrErr(otp.GenerateTOTP(string(unhx(inner[1])), parseTime(inner[2]), p))
		case "vtotp":
			out = verdict(otp.ValidateTOTP(string(unhx(inner[1])), string(unhx(inner[2])), parseTime(inner[3]), p))
		}
		if p != nil && *p != p0 {
			dirty = "parameter struct changed"
		}
	case "d4226":
		key := gd(unhx(inner[1]), 0)
		out = strOrErr(hkDerive4226(key, u64(inner[2]), int(i64(inner[3])), otp.Algorithm(u64(inner[4]))))
	case "padb":
		in := gd(unhx(inner[1]), 0)
		res := hkPadBytes(in, int(i64(inner[2])))
		out = okBytes(res)
		// the result may be a view of the input (>= width) but must not have written anything
	case "purl":
		u := parseURLFields(inner[1])
		var u0 url.URL
		if u != nil {
			u0 = *u
		}
		p, err := otp.ParseOTPAuthURL(u)
		if err != nil {
			out = errOut(err)
		} else {
			out = fmtURLParam(p)
		}
		if u != nil && !reflect.DeepEqual(*u, u0) {
			dirty = "parsed URL changed"
		}
	case "gurl":
		up := parseURLParam(inner[2:])
		up0 := up
		u, err := genURL(inner[1], up)
		if err != nil {
			out = errOut(err)
		} else {
			out = "url:" + fmtURL(u) + "|" + hxs(u.String())
		}
		if up != up0 {
			dirty = "URL parameters changed"
		}
	default:
		out = run(strings.Join(inner, " "))
	}
	for i, g := range guards {
		if g.dirty() {
			dirty = fmt.Sprintf("backing array of argument %d was written", i)
		}
	}
	if after := snapshotPkg(); after != before {
		dirty = "package defaults or the suite registry changed"
	}
	if dirty != "" {
		return out + "|mem:dirty:" + dirty
	}
	return out + "|mem:clean"
}

func run8(f []string) (string, bool) {
	switch f[0] {
	case "conc":
		return doConc(f), true
	case "canary":
		return doCanary(f), true
	}
	return run9(f)
}
