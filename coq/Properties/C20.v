(** C20 — the WebAssembly / JavaScript binding gives the same answers as the native library.
    Model/Wasm.v mirrors wasm/main.go (the five registered callbacks with their argument checks),
    derive_rfc4226_wasm.go and validate_wasm.go; the native side is Model/Otp.v, Model/Url.v.
    JavaScript numbers are integral or fractional doubles whose truncation toward zero is the
    integer named in the statement ("fractional numbers are truncated, not rejected"). *)
From Coq Require Import String.
From OtpV Require Import Prelude Sha Tables JsExports Errors Decoder Derive Otp Utils Suite Url Wasm WasmProofs.
Open Scope N_scope.

(** the binding's own derivation (own modulus for ten digits, FormatUint + zero padding) returns
    what the native derivation returns — every key, counter, code length and hash value *)
Theorem C20_derivation : forall key c d algo, derive_wasm key c d algo = derive_rfc4226 key c d algo.
Proof. exact (derive_wasm_native hmac hmac_length hmac_wf). Qed.
Print Assumptions C20_derivation.

Theorem C20_generate_hotp : forall secret c vc d al per sk,
  secret <> [] -> d <> [] -> al <> [] -> (0 <= c < 2 ^ 63)%Z -> js_number c vc ->
  match generate_hotp secret (Z.to_N c) (Some (mkParam (digits_from_str d) per sk (algorithm_from_str al))) with
  | Ok code => js_result (wasm_generate_hotp [JStr secret; vc; JStr d; JStr al]) = WStr code
  | _ => is_error (js_result (wasm_generate_hotp [JStr secret; vc; JStr d; JStr al]))
  end.
Proof. exact wasm_generate_hotp_native. Qed.
Print Assumptions C20_generate_hotp.

Theorem C20_generate_totp : forall secret t vt d al per vper sk,
  secret <> [] -> d <> [] -> al <> [] -> (0 <= t < 2 ^ 63)%Z -> js_number t vt -> (1 <= per <= 3600)%Z -> js_number per vper ->
  match generate_totp secret t (Some (mkParam (digits_from_str d) (Z.to_N per) sk (algorithm_from_str al))) with
  | Ok code => js_result (wasm_generate_totp [JStr secret; vt; JStr d; JStr al; vper]) = WStr code
  | _ => is_error (js_result (wasm_generate_totp [JStr secret; vt; JStr d; JStr al; vper]))
  end.
Proof. exact wasm_generate_totp_native. Qed.
Print Assumptions C20_generate_totp.

(** same accept / reject verdict for every code, window and skew *)
Theorem C20_validate_hotp : forall secret code c vc d al sk vsk per,
  secret <> [] -> code <> [] -> d <> [] -> al <> [] -> (0 <= c)%Z -> (c + 10 < 2 ^ 62)%Z -> js_number c vc ->
  (0 <= sk <= 10)%Z -> js_number sk vsk ->
  let args := [JStr secret; JStr code; vc; JStr d; JStr al; vsk] in
  match decode_secret secret with
  | Ok _ => exists b, js_result (wasm_validate_hotp args) = WBool b /\
                      (b = true <-> fst (validate_hotp secret code (Z.to_N c) (Some (mkParam (digits_from_str d) per (Z.to_N sk) (algorithm_from_str al)))) = Ok (true, None))
  | _ => is_error (js_result (wasm_validate_hotp args))
  end.
Proof. exact wasm_validate_hotp_native. Qed.
Print Assumptions C20_validate_hotp.

Theorem C20_validate_totp : forall secret code t vt d al sk vsk per vper,
  secret <> [] -> code <> [] -> d <> [] -> al <> [] -> (0 <= t < 2 ^ 63)%Z -> js_number t vt ->
  (0 <= sk <= 10)%Z -> js_number sk vsk -> (1 <= per < 2 ^ 63)%Z -> js_number per vper ->
  let args := [JStr secret; JStr code; vt; JStr d; JStr al; vsk; vper] in
  match decode_secret secret with
  | Ok _ => exists b, js_result (wasm_validate_totp args) = WBool b /\
                      (b = true <-> fst (validate_totp secret code t (Some (mkParam (digits_from_str d) (Z.to_N per) (Z.to_N sk) (algorithm_from_str al)))) = Ok (true, None))
  | _ => is_error (js_result (wasm_validate_totp args))
  end.
Proof. exact wasm_validate_totp_native. Qed.
Print Assumptions C20_validate_totp.

Theorem C20_url : forall ty iss acc sec d al,
  iss <> [] -> acc <> [] -> sec <> [] -> d <> [] -> al <> [] -> (ty = s2b "totp" \/ ty = s2b "hotp") ->
  let p := mkUrlParam iss acc 0 sec (digits_from_str d) (algorithm_from_str al) in
  match (if beq ty (s2b "totp") then generate_totp_url p else generate_hotp_url p) with
  | Ok u => js_result (w_generate_otp_url [JStr ty; JStr iss; JStr acc; JStr sec; JStr d; JStr al]) = WStr (url_string u)
  | _ => is_error (js_result (w_generate_otp_url [JStr ty; JStr iss; JStr acc; JStr sec; JStr d; JStr al]))
  end.
Proof. exact wasm_generate_url_native. Qed.
Print Assumptions C20_url.

(** arguments of the wrong type, count or range: whatever is not a well-typed call is answered with
    a string starting with "error: " (a Go panic inside a callback included — the guard) *)
Theorem C20_success_is_well_typed : forall args r,
  (wasm_generate_hotp args = inl r -> exists a b c d, args = [a; b; c; d] /\ js_string a /\ js_nonneg b /\ js_string c /\ js_string d) /\
  (wasm_generate_totp args = inl r -> exists a b c d e, args = [a; b; c; d; e] /\ js_string a /\ js_nonneg b /\ js_string c /\ js_string d /\ js_nonneg e) /\
  (wasm_validate_hotp args = inl r -> exists a b c d e f, args = [a; b; c; d; e; f] /\ js_string a /\ js_string b /\ js_nonneg c /\ js_string d /\ js_string e /\ js_nonneg f) /\
  (wasm_validate_totp args = inl r -> exists a b c d e f g, args = [a; b; c; d; e; f; g] /\ js_string a /\ js_string b /\ js_nonneg c /\ js_string d /\ js_string e /\ js_nonneg f /\ js_nonneg g) /\
  (w_generate_otp_url args = inl r -> exists a b c d e f, args = [a; b; c; d; e; f] /\ js_string a /\ js_string b /\ js_string c /\ js_string d /\ js_string e /\ js_string f).
Proof. exact wasm_success_well_typed. Qed.
Print Assumptions C20_success_is_well_typed.

Theorem C20_failure_is_error_string : forall o : wout wres, (forall r, o <> inl r) -> is_error (js_result o).
Proof. exact wasm_failure_is_error_string. Qed.
Print Assumptions C20_failure_is_error_string.

(** the names the JavaScript package exports (regenerated from otp-js/src/index.js) are each bound
    to the registered global of the same name, and every registered global (regenerated from
    wasm/main.go) is exported and registered under the name of its Go function *)
Theorem C20_exports :
  forallb export_ok js_exports = true /\
  forallb (fun g => existsb (fun e => beq (fst e) (fst g)) js_exports) js_globals = true /\
  map fst js_globals = map snd js_globals.
Proof. exact exports_faithful. Qed.
Print Assumptions C20_exports.

Example C20_vectors :
  js_result (wasm_generate_hotp [JStr (s2b "GEZDGNBVGY3TQOJQGEZDGNBVGY3TQOJQ"); JNum (NFrac 1); JStr (s2b "6"); JStr (s2b "SHA1")]) = WStr (s2b "287082") /\
  js_result (wasm_generate_totp [JStr (s2b "GEZDGNBVGY3TQOJQGEZDGNBVGY3TQOJQ"); JNum (NInt 59); JStr (s2b "8"); JStr (s2b "SHA1"); JNum (NInt 30)]) = WStr (s2b "94287082") /\
  js_result (wasm_validate_totp [JStr (s2b "GEZDGNBVGY3TQOJQGEZDGNBVGY3TQOJQ"); JStr (s2b "94287082"); JNum (NInt 89); JStr (s2b "8"); JStr (s2b "SHA1"); JNum (NInt 1); JNum (NInt 30)]) = WBool true /\
  js_result (wasm_generate_hotp [JStr (s2b "GEZDGNBVGY3TQOJQGEZDGNBVGY3TQOJQ"); JBigInt; JStr (s2b "6"); JStr (s2b "SHA1")]) = WStr (s2b "error: bad type flag") /\
  js_result (wasm_generate_hotp [JStr (s2b "GEZDGNBVGY3TQOJQGEZDGNBVGY3TQOJQ"); JNum NNaN; JStr (s2b "6"); JStr (s2b "SHA1")])
    = WStr (s2b "error: counter must be non-negative, got -9223372036854775808").
Proof. vm_compute. repeat split. Qed.
