(** Proofs about the REST model (C18, C19). *)
From Coq Require Import String ZifyN ZifyNat ZifyBool.
From OtpV Require Import Prelude Sha Tables Errors Decoder Derive Otp Ocra Utils Random Suite Url Rest Rfc4226
     DeriveProofs OtpProofs OcraProofs TotalProofs SuiteProofs.
Open Scope N_scope.

Definition status_ok (s : N) : Prop := s = 200 \/ s = 302 \/ s = 400 \/ s = 404 \/ s = 405 \/ s = 500.
Definition success_payload (p : payload) : Prop :=
  match p with PError _ | PText _ | PRedirect _ => False | _ => True end.
(** status and body class agree, the status is one of the six, the work is bounded *)
Definition good (x : response * nat) : Prop :=
  status_ok (status (fst x)) /\ (status (fst x) = 200 <-> success_payload (pay (fst x))) /\ (snd x <= 21)%nat.

Lemma good_lit st p k : status_ok st -> (st = 200 <-> success_payload p) -> (k <= 21)%nat -> good (mkResp st p, k).
Proof. intros. unfold good. cbn. auto. Qed.

Ltac lit := apply good_lit; [unfold status_ok; auto 10 | cbn; split; intros; try discriminate; try contradiction; auto | lia].
Ltac basic := unfold err400, err400b, err500, not_allowed, decode_failed, recovered_panic; lit.

Lemma validate_ocra_cost secret code cfg i : (snd (validate_ocra secret code cfg i) <= 1)%nat.
Proof.
  unfold validate_ocra, validate_ocra_with. destruct (decode_secret secret); cbn [snd]; try lia. apply validate_cost.
Qed.

Section WithNow.
  Variable now : Z.

  Lemma good_totp_generation_core q : good (totp_generation_core now q).
  Proof. unfold totp_generation_core. destruct (blank _); [basic|]. cbv zeta. destruct (generate_totp _ _ _); basic. Qed.
  Lemma good_hotp_generation_core q : good (hotp_generation_core q).
  Proof. unfold hotp_generation_core. destruct (blank _); [basic|]. destruct (generate_hotp _ _ _); basic. Qed.
  Lemma good_totp_validation_core q : good (totp_validation_core now q).
  Proof.
    unfold totp_validation_core. destruct (blank _); [basic|]. destruct (blank _); [basic|]. cbv zeta.
    match goal with |- context [validate_totp ?a ?b ?c ?d] => pose proof (validate_totp_cost hmac hmac_length hmac_wf a b c d) as Hc; fold validate_totp in Hc; destruct (verdict_bool (validate_totp a b c d)) end; [|basic].
    apply good_lit; [unfold status_ok; auto|cbn; tauto|exact Hc].
  Qed.
  Lemma good_hotp_validation_core q : good (hotp_validation_core q).
  Proof.
    unfold hotp_validation_core. destruct (blank _); [basic|]. destruct (blank _); [basic|]. cbv zeta.
    match goal with |- context [validate_hotp ?a ?b ?c ?d] => pose proof (validate_hotp_cost hmac hmac_length hmac_wf a b c d) as Hc; fold validate_hotp in Hc; destruct (verdict_bool (validate_hotp a b c d)) end; [|basic].
    apply good_lit; [unfold status_ok; auto|cbn; tauto|exact Hc].
  Qed.

  Ltac wrap core_lemma :=
    destruct (negb (is_post _)); [basic|]; destruct (body_fields _); [|basic];
    match goal with |- context [match ?d with Some _ => _ | None => _ end] => destruct d end; [apply core_lemma|basic].

  Lemma good_totp_generation r : good (totp_generation now r).
  Proof. unfold totp_generation. wrap good_totp_generation_core. Qed.
  Lemma good_totp_validation r : good (totp_validation now r).
  Proof. unfold totp_validation. wrap good_totp_validation_core. Qed.
  Lemma good_hotp_generation r : good (hotp_generation r).
  Proof. unfold hotp_generation. wrap good_hotp_generation_core. Qed.
  Lemma good_hotp_validation r : good (hotp_validation r).
  Proof. unfold hotp_validation. wrap good_hotp_validation_core. Qed.

  Lemma good_otp_url r : good (otp_url_generation r).
  Proof.
    unfold otp_url_generation. destruct (negb (is_post _)); [basic|]. destruct (body_fields _) as [f|]; [|basic].
    destruct (dec_string (field "type" f)); [|basic]. destruct (dec_string (field "secret" f)); [|basic].
    destruct (dec_string (field "issuer" f)); [|basic]. destruct (dec_string (field "account_name" f)); [|basic].
    destruct (dec_uint64 (field "period" f)); [|basic]. destruct (dec_string (field "digits" f)); [|basic].
    destruct (dec_string (field "algorithm" f)); [|basic].
    repeat (destruct (blank _); [basic|]). cbv zeta.
    destruct (beq _ (s2b "totp")); [destruct (generate_totp_url _); basic|].
    destruct (beq _ (s2b "hotp")); [destruct (generate_hotp_url _); basic|basic].
  Qed.

  Lemma good_ocra_prepare secret code raw need suite input :
    match ocra_prepare secret code raw need suite input with inr e => good e | inl _ => True end.
  Proof.
    unfold ocra_prepare. destruct (blank secret); [basic|]. destruct (need && blank code); [basic|].
    destruct (blank raw && _); [basic|]. destruct (negb (blank raw) && _); [basic|].
    destruct input as [hin|]; [|basic].
    destruct suite as [cfg|].
    - destruct (new_suite cfg); try basic.
      destruct raw; [|destruct (new_raw_suite _); try basic]; destruct (hex_input_to_ocra _ _ _ _ _); try basic; exact I.
    - destruct raw; [basic|]. destruct (new_raw_suite _); try basic. destruct (hex_input_to_ocra _ _ _ _ _); try basic; exact I.
  Qed.

  Lemma good_ocra_generation r : good (ocra_generation r).
  Proof.
    unfold ocra_generation. destruct (negb (is_post _)); [basic|]. destruct (body_fields _) as [f|]; [|basic].
    destruct (decode_ocra_common false f) as [[[[[sec code] raw] suite] input]|]; [|basic].
    pose proof (good_ocra_prepare sec [] raw false suite input) as Hp.
    destruct (ocra_prepare sec [] raw false suite input) as [[cfg inp]|e]; [|exact Hp].
    destruct (generate_ocra sec cfg inp); basic.
  Qed.
  Lemma good_ocra_validation r : good (ocra_validation r).
  Proof.
    unfold ocra_validation. destruct (negb (is_post _)); [basic|]. destruct (body_fields _) as [f|]; [|basic].
    destruct (decode_ocra_common true f) as [[[[[sec code] raw] suite] input]|]; [|basic].
    pose proof (good_ocra_prepare sec code raw true suite input) as Hp.
    destruct (ocra_prepare sec code raw true suite input) as [[cfg inp]|e]; [|exact Hp].
    cbv zeta. pose proof (validate_ocra_cost sec code cfg inp) as Hc.
    destruct (verdict_bool (validate_ocra sec code cfg inp)); [|basic].
    apply good_lit; [unfold status_ok; auto|cbn; tauto|lia].
  Qed.

  Lemma good_rest r :
    good (generate_random_secret r) /\ good (list_ocra_suites r) /\ good (ocra_suite_config r) /\ good (home r).
  Proof.
    repeat split; try (unfold generate_random_secret, list_ocra_suites, home; destruct (negb (is_get _)); basic).
    all: unfold ocra_suite_config; destruct (negb (is_post _)); [basic|]; destruct (body_fields _) as [f|]; [|basic];
      destruct (dec_string _); [|basic]; destruct (blank _); [basic|]; destruct (negb _); basic.
  Qed.

  (** every request — any method, path and body shape — is answered with one of the six statuses,
      a body of the class that goes with it, after at most 21 derivations *)
  Theorem handle_good r : good (handle now r).
  Proof.
    unfold handle. cbv zeta.
    destruct (beq _ (s2b "/docs")); [basic|]. destruct (is_prefix _ _); [basic|].
    destruct (beq _ (s2b "/totp/generate")); [apply good_totp_generation|].
    destruct (beq _ (s2b "/totp/validate")); [apply good_totp_validation|].
    destruct (beq _ (s2b "/hotp/generate")); [apply good_hotp_generation|].
    destruct (beq _ (s2b "/hotp/validate")); [apply good_hotp_validation|].
    destruct (beq _ (s2b "/ocra/generate")); [apply good_ocra_generation|].
    destruct (beq _ (s2b "/ocra/validate")); [apply good_ocra_validation|].
    destruct (beq _ (s2b "/ocra/suites")); [apply good_rest|].
    destruct (beq _ (s2b "/ocra/suite")); [apply good_rest|].
    destruct (beq _ (s2b "/otp/url")); [apply good_otp_url|].
    destruct (beq _ (s2b "/otp/secret")); [apply good_rest|].
    destruct (beq _ (s2b "/")); [apply good_rest|basic].
  Qed.
End WithNow.

(** ---------- C18: each endpoint answers with the library's result for the request's fields ---------- *)
Definition post (path : string) (f : list (bytes * jv)) : request := mkReq (s2b "POST") (s2b path) [] (BObject f).
Definition get (path : string) (alg : bytes) : request := mkReq (s2b "GET") (s2b path) alg BMalformed.

Ltac route := unfold handle, post, get; cbn [r_path r_method r_body r_query_alg];
  repeat match goal with
         | |- context [beq (s2b ?a) (s2b ?b)] => let v := eval vm_compute in (beq (s2b a) (s2b b)) in change (beq (s2b a) (s2b b)) with v
         | |- context [is_prefix (s2b ?a) (s2b ?b)] => let v := eval vm_compute in (is_prefix (s2b a) (s2b b)) in change (is_prefix (s2b a) (s2b b)) with v
         end; cbv iota beta zeta.

Theorem rest_hotp_generate now f q : decode_gen_req f = Some q ->
  handle now (post "/hotp/generate" f) = hotp_generation_core q.
Proof. intros H. route. unfold hotp_generation, is_post. cbn [r_method r_body negb body_fields]. rewrite H. reflexivity. Qed.
Theorem rest_hotp_validate now f q : decode_val_req f = Some q ->
  handle now (post "/hotp/validate" f) = hotp_validation_core q.
Proof. intros H. route. unfold hotp_validation, is_post. cbn [r_method r_body negb body_fields]. rewrite H. reflexivity. Qed.
Theorem rest_totp_generate now f q : decode_gen_req f = Some q ->
  handle now (post "/totp/generate" f) = totp_generation_core now q.
Proof. intros H. route. unfold totp_generation, is_post. cbn [r_method r_body negb body_fields]. rewrite H. reflexivity. Qed.
Theorem rest_totp_validate now f q : decode_val_req f = Some q ->
  handle now (post "/totp/validate" f) = totp_validation_core now q.
Proof. intros H. route. unfold totp_validation, is_post. cbn [r_method r_body negb body_fields]. rewrite H. reflexivity. Qed.

(** the two string-to-enum fallbacks always yield supported values *)
Lemma digits_from_str_valid s : valid_digits (digits_from_str s).
Proof.
  unfold digits_from_str, valid_digits.
  destruct (beq s (s2b "6")); [lia|]. destruct (beq s (s2b "8")); [lia|]. destruct (beq s (s2b "9")); [lia|]. destruct (beq s (s2b "10")); lia.
Qed.
Lemma algorithm_from_str_alg s : exists a, algorithm_from_str s = N_of_alg a.
Proof.
  unfold algorithm_from_str. destruct (beq s (s2b "SHA1")); [exists SHA1; reflexivity|].
  destruct (beq s (s2b "SHA256")); [exists SHA256; reflexivity|]. destruct (beq s (s2b "SHA512")); [exists SHA512; reflexivity|exists SHA1; reflexivity].
Qed.

(** codes the service generates are the RFC values: HOTP at the request's counter, TOTP at
    floor(timestamp / period) with period 0 or absent meaning 30, for the decoded secret, the
    digits and hash the request spells (unknown spellings meaning 6 / SHA-1) *)
Theorem rest_hotp_code_is_rfc_value q key :
  blank (g_secret q) = false -> decode_secret (g_secret q) = Ok key ->
  exists a, algorithm_from_str (g_algorithm q) = N_of_alg a /\
  hotp_generation_core q =
  (mkResp 200 (PCode (hotp_value hmac a key (g_counter q) (N.to_nat (digits_from_str (g_digits q)))) None
                     (if g_counter q =? 0 then None else Some (g_counter q)) None), 1%nat).
Proof.
  intros Hb Hk. destruct (algorithm_from_str_alg (g_algorithm q)) as [a Ha]. exists a. split; [exact Ha|].
  unfold hotp_generation_core. rewrite Hb, Ha.
  unfold generate_hotp. rewrite (generate_hotp_value hmac hmac_length hmac_wf _ key) by (try assumption; apply digits_from_str_valid).
  reflexivity.
Qed.

Theorem rest_totp_code_is_rfc_value now q key :
  blank (g_secret q) = false -> decode_secret (trim_space (g_secret q)) = Ok key -> (0 < g_timestamp q < 2 ^ 62)%Z ->
  exists a, algorithm_from_str (g_algorithm q) = N_of_alg a /\
  totp_generation_core now q =
  (mkResp 200 (PCode (hotp_value hmac a key (Z.to_N (g_timestamp q) / (if g_period q =? 0 then 30 else g_period q))
                                 (N.to_nat (digits_from_str (g_digits q)))) (Some (g_timestamp q)) None None), 1%nat).
Proof.
  intros Hb Hk Ht. destruct (algorithm_from_str_alg (g_algorithm q)) as [a Ha]. exists a. split; [exact Ha|].
  unfold totp_generation_core. rewrite Hb, Ha. cbv zeta.
  replace (0 <? g_timestamp q)%Z with true by lia.
  unfold generate_totp. rewrite (generate_totp_is_hotp hmac hmac_length hmac_wf) by lia. cbn [p_period].
  rewrite (generate_hotp_value hmac hmac_length hmac_wf _ key) by (try apply digits_from_str_valid; exact Hk).
  unfold eff30. destruct (g_period q =? 0) eqn:E; [reflexivity|rewrite E; reflexivity].
Qed.

(** ---------- a code generated by one endpoint validates at the matching endpoint ---------- *)
Lemma code_not_blank a key c d : (1 <= d)%nat -> blank (hotp_value hmac a key c d) = false.
Proof.
  intros Hd. unfold blank, hotp_value.
  pose proof (Base32Proofs.trim_space_spec [] (pad_dec d (hotp_number hmac a key c d)) []) as T.
  rewrite app_nil_r in T. cbn [app] in T. rewrite T.
  - pose proof (pad_dec_length d (hotp_number hmac a key c d)) as L. destruct (pad_dec d _); [simpl in L; lia|reflexivity].
  - constructor.
  - constructor.
  - pose proof (DeriveProofs.pad_dec_digits d (hotp_number hmac a key c d)) as D. eapply Forall_impl; [|exact D].
    intros x Hx. unfold is_digit in Hx. unfold Base32Proofs.plain, ascii_space. split; [|lia].
    repeat match goal with |- context [x =? ?k] => destruct (N.eqb_spec x k); [lia|] end. reflexivity.
Qed.

Theorem rest_hotp_pair q code ts c su k sk t0 per :
  hotp_generation_core q = (mkResp 200 (PCode code ts c su), k) -> sk <= 10 -> g_counter q + sk < 2 ^ 64 ->
  exists k', hotp_validation_core (mkValReq (g_secret q) t0 (g_counter q) code (g_digits q) per sk (g_algorithm q))
             = (mkResp 200 (PValid true), k').
Proof.
  intros H Hsk Hc. unfold hotp_generation_core in H.
  destruct (blank (g_secret q)) eqn:Hb; [discriminate H|].
  destruct (algorithm_from_str_alg (g_algorithm q)) as [a Ha]. rewrite Ha in H.
  destruct (decode_secret (g_secret q)) as [key|e|] eqn:Hk.
  - unfold generate_hotp in H. rewrite (generate_hotp_value hmac hmac_length hmac_wf _ key) in H by (try assumption; apply digits_from_str_valid).
    inversion H; subst code.
    unfold hotp_validation_core. cbn [v_secret v_code v_counter v_digits v_skew v_algorithm]. rewrite Hb.
    rewrite code_not_blank by (pose proof (digits_from_str_valid (g_digits q)) as V; unfold valid_digits in V; lia).
    cbv zeta. rewrite Ha.
    pose proof (validate_hotp_iff hmac hmac_length hmac_wf (g_secret q) key
                  (hotp_value hmac a key (g_counter q) (N.to_nat (digits_from_str (g_digits q)))) (g_counter q)
                  (digits_from_str (g_digits q)) 0 sk a Hk (digits_from_str_valid _) Hsk Hc) as [_ Hacc].
    assert (fst (validate_hotp_with hmac (g_secret q) (hotp_value hmac a key (g_counter q) (N.to_nat (digits_from_str (g_digits q)))) (g_counter q)
                   (Some (mkParam (digits_from_str (g_digits q)) 0 sk (N_of_alg a)))) = Ok (true, None)) as Hv.
    { apply Hacc. exists (g_counter q). split; [lia|reflexivity]. }
    unfold validate_hotp, verdict_bool. rewrite Hv. eexists. reflexivity.
  - unfold generate_hotp, generate_hotp_with in H. rewrite Hk in H. cbn [obind] in H. discriminate H.
  - unfold generate_hotp, generate_hotp_with in H. rewrite Hk in H. cbn [obind] in H. discriminate H.
Qed.

(** the same for TOTP: a code generated for timestamp t validates at t (and at any skew whose
    window does not reach below step 0) with the request's other fields *)
Theorem rest_totp_pair now q code ts c su k sk c0 :
  (0 < g_timestamp q < 2 ^ 62)%Z ->
  totp_generation_core now q = (mkResp 200 (PCode code ts c su), k) -> sk <= 10 ->
  sk <= Z.to_N (g_timestamp q) / (if g_period q =? 0 then 30 else g_period q) ->
  ts = Some (g_timestamp q) /\
  exists k', totp_validation_core now (mkValReq (g_secret q) (g_timestamp q) c0 code (g_digits q) (g_period q) sk (g_algorithm q))
             = (mkResp 200 (PValid true), k').
Proof.
  intros Ht H Hsk Hn. unfold totp_generation_core in H.
  destruct (blank (g_secret q)) eqn:Hb; [discriminate H|].
  destruct (algorithm_from_str_alg (g_algorithm q)) as [a Ha]. rewrite Ha in H. cbv zeta in H.
  replace (0 <? g_timestamp q)%Z with true in H by lia.
  unfold generate_totp in H. rewrite (generate_totp_is_hotp hmac hmac_length hmac_wf) in H by lia. cbn [p_period] in H.
  assert (eff30 (if g_period q =? 0 then 30 else g_period q) = eff30 (g_period q)) as E30.
  { unfold eff30. destruct (g_period q =? 0) eqn:E; [reflexivity|rewrite E; reflexivity]. }
  rewrite E30 in H.
  destruct (decode_secret (trim_space (g_secret q))) as [key|e|] eqn:Hk.
  - rewrite (generate_hotp_value hmac hmac_length hmac_wf _ key) in H by (try assumption; apply digits_from_str_valid).
    inversion H; subst code. split; [reflexivity|].
    unfold totp_validation_core. cbn [v_secret v_code v_timestamp v_digits v_period v_skew v_algorithm]. rewrite Hb.
    rewrite code_not_blank by (pose proof (digits_from_str_valid (g_digits q)) as V; unfold valid_digits in V; lia).
    cbv zeta. rewrite Ha. replace (0 <? g_timestamp q)%Z with true by lia.
    assert (sk <= Z.to_N (g_timestamp q) / eff30 (g_period q)) as Hn' by (unfold eff30; exact Hn).
    pose proof (validate_totp_iff hmac hmac_length hmac_wf (trim_space (g_secret q)) key
                  (hotp_value hmac a key (Z.to_N (g_timestamp q) / eff30 (g_period q)) (N.to_nat (digits_from_str (g_digits q))))
                  (g_timestamp q) (digits_from_str (g_digits q)) (g_period q) sk a Hk (digits_from_str_valid _) Hsk
                  (ltac:(lia)) Hn') as [_ Hacc].
    assert (fst (validate_totp_with hmac (trim_space (g_secret q))
                   (hotp_value hmac a key (Z.to_N (g_timestamp q) / eff30 (g_period q)) (N.to_nat (digits_from_str (g_digits q))))
                   (g_timestamp q) (Some (mkParam (digits_from_str (g_digits q)) (g_period q) sk (N_of_alg a)))) = Ok (true, None)) as Hv.
    { apply Hacc. exists (Z.to_N (g_timestamp q) / eff30 (g_period q)). split; [lia|reflexivity]. }
    unfold validate_totp, verdict_bool. rewrite Hv. eexists. reflexivity.
  - unfold generate_hotp_with in H. rewrite Hk in H. cbn [obind] in H. discriminate H.
  - unfold generate_hotp_with in H. rewrite Hk in H. cbn [obind] in H. discriminate H.
Qed.

Lemma ocra_prepare_early secret code raw need suite input :
  match ocra_prepare secret code raw need suite input with inr e => status (fst e) <> 200 | inl _ => True end.
Proof.
  unfold ocra_prepare, err400, err400b, recovered_panic.
  destruct (blank secret); [cbn; discriminate|]. destruct (need && blank code); [cbn; discriminate|].
  destruct (blank raw && _); [cbn; discriminate|]. destruct (negb (blank raw) && _); [cbn; discriminate|].
  destruct input as [hin|]; [|cbn; discriminate].
  destruct suite as [cfg|].
  - destruct (new_suite cfg); try (cbn; discriminate).
    destruct raw; [|destruct (new_raw_suite _); try (cbn; discriminate)]; destruct (hex_input_to_ocra _ _ _ _ _); try (cbn; discriminate); exact I.
  - destruct raw; [cbn; discriminate|]. destruct (new_raw_suite _); try (cbn; discriminate). destruct (hex_input_to_ocra _ _ _ _ _); try (cbn; discriminate); exact I.
Qed.

Theorem rest_ocra_pair secret raw suite input code ts c su k :
  (match ocra_prepare secret [] raw false suite input with
   | inl (cfg, inp) => match generate_ocra secret cfg inp with
                       | Ok cd => (mkResp 200 (PCode cd None None (match sc_raw cfg with [] => None | n => Some n end)), 1%nat)
                       | Err _ => err500 "failed to generate ocra code" 1
                       | Panic => recovered_panic end
   | inr e => e end) = (mkResp 200 (PCode code ts c su), k) ->
  blank code = false ->
  exists k', (match ocra_prepare secret code raw true suite input with
              | inl (cfg, inp) => let res := validate_ocra secret code cfg inp in
                                  match verdict_bool res with Some b => (mkResp 200 (PValid b), snd res) | None => recovered_panic end
              | inr e => e end) = (mkResp 200 (PValid true), k').
Proof.
  intros H Hbc.
  assert (forall need cd, (need && blank cd = false) ->
          ocra_prepare secret cd raw need suite input = ocra_prepare secret [] raw false suite input) as Hsame.
  { intros need cd Hn. unfold ocra_prepare. destruct (blank secret); [reflexivity|]. rewrite Hn. reflexivity. }
  rewrite (Hsame true code) by (rewrite Hbc; reflexivity).
  destruct (ocra_prepare secret [] raw false suite input) as [[cfg inp]|e] eqn:E.
  - destruct (generate_ocra secret cfg inp) as [cd|er|] eqn:Hg; try discriminate H.
    inversion H; subst cd. cbv zeta.
    pose proof (proj2 (validate_ocra_iff hmac hmac_length hmac_wf secret code cfg inp) Hg) as Hv.
    unfold validate_ocra, verdict_bool. rewrite Hv. eexists. reflexivity.
  - exfalso. pose proof (ocra_prepare_early secret [] raw false suite input) as G. rewrite E in G.
    rewrite H in G. cbn in G. apply G. reflexivity.
Qed.

(** ---------- the remaining endpoints reflect the registry, the secret generator and the URL builder ---------- *)
Theorem rest_suites now a : handle now (get "/ocra/suites" a) = (mkResp 200 (PSuites list_suites), O).
Proof. route. reflexivity. Qed.
Theorem rest_secret now a : handle now (get "/otp/secret" a) = (mkResp 200 (PSecret (algorithm_from_str a)), O).
Proof. route. reflexivity. Qed.
Theorem rest_suite_config now f raw :
  dec_string (field "raw_suite" f) = Some raw -> is_known_suite raw = true ->
  handle now (post "/ocra/suite" f) = (mkResp 200 (PSuiteCfg raw (suite_config_from_raws raw)), O).
Proof.
  intros Hd Hk. route. unfold ocra_suite_config, is_post. cbn [r_method r_body negb body_fields]. rewrite Hd.
  assert (blank raw = false) as Hb.
  { destruct (blank raw) eqn:E; [|reflexivity]. exfalso. unfold blank in E.
    (* a blank name is not registered: every registered name starts with "OCRA-1" *)
    unfold is_known_suite in Hk. destruct (lookup raw known_suites) as [c|] eqn:El; [|discriminate].
    apply lookup_in in El.
    assert (forallb (fun e => negb (blank (fst e))) known_suites = true) as Hall by (vm_compute; reflexivity).
    rewrite forallb_forall in Hall. specialize (Hall _ El). cbn [fst] in Hall. unfold blank in Hall.
    destruct (trim_space raw); [discriminate Hall|discriminate E]. }
  rewrite Hb, Hk. reflexivity.
Qed.
Theorem rest_url now f ty sec iss acc per dg al :
  dec_string (field "type" f) = Some ty -> dec_string (field "secret" f) = Some sec -> dec_string (field "issuer" f) = Some iss ->
  dec_string (field "account_name" f) = Some acc -> dec_uint64 (field "period" f) = Some per ->
  dec_string (field "digits" f) = Some dg -> dec_string (field "algorithm" f) = Some al ->
  blank ty = false -> blank sec = false -> blank iss = false -> blank acc = false -> (ty = s2b "totp" \/ ty = s2b "hotp") ->
  let p := mkUrlParam iss acc per sec (digits_from_str dg) (algorithm_from_str al) in
  handle now (post "/otp/url" f) =
  match (if beq ty (s2b "totp") then generate_totp_url p else generate_hotp_url p) with
  | Ok u => (mkResp 200 (PUrl (url_string u)), O)
  | Err _ => err500 "otp generation failed" 0
  | Panic => recovered_panic
  end.
Proof.
  intros H1 H2 H3 H4 H5 H6 H7 B1 B2 B3 B4 Hty. cbv zeta. route.
  unfold otp_url_generation, is_post. cbn [r_method r_body negb body_fields].
  rewrite H1, H2, H3, H4, H5, H6, H7, B1, B2, B3, B4.
  destruct Hty as [-> | ->].
  - replace (beq (s2b "totp") (s2b "totp")) with true by reflexivity. reflexivity.
  - replace (beq (s2b "hotp") (s2b "totp")) with false by reflexivity.
    replace (beq (s2b "hotp") (s2b "hotp")) with true by reflexivity. reflexivity.
Qed.
