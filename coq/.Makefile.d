Base/Prelude.vo Base/Prelude.glob Base/Prelude.v.beautified Base/Prelude.required_vo: Base/Prelude.v 
Base/Prelude.vio: Base/Prelude.v 
Base/Prelude.vos Base/Prelude.vok Base/Prelude.required_vos: Base/Prelude.v 
Hash/Consts.vo Hash/Consts.glob Hash/Consts.v.beautified Hash/Consts.required_vo: Hash/Consts.v 
Hash/Consts.vio: Hash/Consts.v 
Hash/Consts.vos Hash/Consts.vok Hash/Consts.required_vos: Hash/Consts.v 
Hash/Sha.vo Hash/Sha.glob Hash/Sha.v.beautified Hash/Sha.required_vo: Hash/Sha.v Base/Prelude.vo Hash/Consts.vo
Hash/Sha.vio: Hash/Sha.v Base/Prelude.vio Hash/Consts.vio
Hash/Sha.vos Hash/Sha.vok Hash/Sha.required_vos: Hash/Sha.v Base/Prelude.vos Hash/Consts.vos
Hash/ShaTest.vo Hash/ShaTest.glob Hash/ShaTest.v.beautified Hash/ShaTest.required_vo: Hash/ShaTest.v Base/Prelude.vo Hash/Sha.vo
Hash/ShaTest.vio: Hash/ShaTest.v Base/Prelude.vio Hash/Sha.vio
Hash/ShaTest.vos Hash/ShaTest.vok Hash/ShaTest.required_vos: Hash/ShaTest.v Base/Prelude.vos Hash/Sha.vos
Generated/Tables.vo Generated/Tables.glob Generated/Tables.v.beautified Generated/Tables.required_vo: Generated/Tables.v 
Generated/Tables.vio: Generated/Tables.v 
Generated/Tables.vos Generated/Tables.vok Generated/Tables.required_vos: Generated/Tables.v 
Generated/ErrTexts.vo Generated/ErrTexts.glob Generated/ErrTexts.v.beautified Generated/ErrTexts.required_vo: Generated/ErrTexts.v 
Generated/ErrTexts.vio: Generated/ErrTexts.v 
Generated/ErrTexts.vos Generated/ErrTexts.vok Generated/ErrTexts.required_vos: Generated/ErrTexts.v 
Generated/Registry.vo Generated/Registry.glob Generated/Registry.v.beautified Generated/Registry.required_vo: Generated/Registry.v 
Generated/Registry.vio: Generated/Registry.v 
Generated/Registry.vos Generated/Registry.vok Generated/Registry.required_vos: Generated/Registry.v 
Generated/JsExports.vo Generated/JsExports.glob Generated/JsExports.v.beautified Generated/JsExports.required_vo: Generated/JsExports.v 
Generated/JsExports.vio: Generated/JsExports.v 
Generated/JsExports.vos Generated/JsExports.vok Generated/JsExports.required_vos: Generated/JsExports.v 
Model/Flow.vo Model/Flow.glob Model/Flow.v.beautified Model/Flow.required_vo: Model/Flow.v 
Model/Flow.vio: Model/Flow.v 
Model/Flow.vos Model/Flow.vok Model/Flow.required_vos: Model/Flow.v 
Generated/SsaNative.vo Generated/SsaNative.glob Generated/SsaNative.v.beautified Generated/SsaNative.required_vo: Generated/SsaNative.v Model/Flow.vo
Generated/SsaNative.vio: Generated/SsaNative.v Model/Flow.vio
Generated/SsaNative.vos Generated/SsaNative.vok Generated/SsaNative.required_vos: Generated/SsaNative.v Model/Flow.vos
Generated/SsaWasm.vo Generated/SsaWasm.glob Generated/SsaWasm.v.beautified Generated/SsaWasm.required_vo: Generated/SsaWasm.v Model/Flow.vo
Generated/SsaWasm.vio: Generated/SsaWasm.v Model/Flow.vio
Generated/SsaWasm.vos Generated/SsaWasm.vok Generated/SsaWasm.required_vos: Generated/SsaWasm.v Model/Flow.vos
Model/Mem.vo Model/Mem.glob Model/Mem.v.beautified Model/Mem.required_vo: Model/Mem.v 
Model/Mem.vio: Model/Mem.v 
Model/Mem.vos Model/Mem.vok Model/Mem.required_vos: Model/Mem.v 
Proofs/MemProofs.vo Proofs/MemProofs.glob Proofs/MemProofs.v.beautified Proofs/MemProofs.required_vo: Proofs/MemProofs.v Model/Mem.vo
Proofs/MemProofs.vio: Proofs/MemProofs.v Model/Mem.vio
Proofs/MemProofs.vos Proofs/MemProofs.vok Proofs/MemProofs.required_vos: Proofs/MemProofs.v Model/Mem.vos
Spec/Rfc4648.vo Spec/Rfc4648.glob Spec/Rfc4648.v.beautified Spec/Rfc4648.required_vo: Spec/Rfc4648.v Base/Prelude.vo
Spec/Rfc4648.vio: Spec/Rfc4648.v Base/Prelude.vio
Spec/Rfc4648.vos Spec/Rfc4648.vok Spec/Rfc4648.required_vos: Spec/Rfc4648.v Base/Prelude.vos
Model/Errors.vo Model/Errors.glob Model/Errors.v.beautified Model/Errors.required_vo: Model/Errors.v Base/Prelude.vo Generated/ErrTexts.vo
Model/Errors.vio: Model/Errors.v Base/Prelude.vio Generated/ErrTexts.vio
Model/Errors.vos Model/Errors.vok Model/Errors.required_vos: Model/Errors.v Base/Prelude.vos Generated/ErrTexts.vos
Model/Decoder.vo Model/Decoder.glob Model/Decoder.v.beautified Model/Decoder.required_vo: Model/Decoder.v Base/Prelude.vo
Model/Decoder.vio: Model/Decoder.v Base/Prelude.vio
Model/Decoder.vos Model/Decoder.vok Model/Decoder.required_vos: Model/Decoder.v Base/Prelude.vos
Model/Derive.vo Model/Derive.glob Model/Derive.v.beautified Model/Derive.required_vo: Model/Derive.v Base/Prelude.vo Hash/Sha.vo Generated/Tables.vo
Model/Derive.vio: Model/Derive.v Base/Prelude.vio Hash/Sha.vio Generated/Tables.vio
Model/Derive.vos Model/Derive.vok Model/Derive.required_vos: Model/Derive.v Base/Prelude.vos Hash/Sha.vos Generated/Tables.vos
Model/Otp.vo Model/Otp.glob Model/Otp.v.beautified Model/Otp.required_vo: Model/Otp.v Base/Prelude.vo Hash/Sha.vo Generated/Tables.vo Model/Decoder.vo Model/Derive.vo
Model/Otp.vio: Model/Otp.v Base/Prelude.vio Hash/Sha.vio Generated/Tables.vio Model/Decoder.vio Model/Derive.vio
Model/Otp.vos Model/Otp.vok Model/Otp.required_vos: Model/Otp.v Base/Prelude.vos Hash/Sha.vos Generated/Tables.vos Model/Decoder.vos Model/Derive.vos
Model/Ocra.vo Model/Ocra.glob Model/Ocra.v.beautified Model/Ocra.required_vo: Model/Ocra.v Base/Prelude.vo Hash/Sha.vo Generated/Tables.vo Model/Errors.vo Model/Decoder.vo Model/Derive.vo Model/Otp.vo
Model/Ocra.vio: Model/Ocra.v Base/Prelude.vio Hash/Sha.vio Generated/Tables.vio Model/Errors.vio Model/Decoder.vio Model/Derive.vio Model/Otp.vio
Model/Ocra.vos Model/Ocra.vok Model/Ocra.required_vos: Model/Ocra.v Base/Prelude.vos Hash/Sha.vos Generated/Tables.vos Model/Errors.vos Model/Decoder.vos Model/Derive.vos Model/Otp.vos
Model/Utils.vo Model/Utils.glob Model/Utils.v.beautified Model/Utils.required_vo: Model/Utils.v Base/Prelude.vo Model/Errors.vo Model/Ocra.vo Model/Derive.vo
Model/Utils.vio: Model/Utils.v Base/Prelude.vio Model/Errors.vio Model/Ocra.vio Model/Derive.vio
Model/Utils.vos Model/Utils.vok Model/Utils.required_vos: Model/Utils.v Base/Prelude.vos Model/Errors.vos Model/Ocra.vos Model/Derive.vos
Model/Random.vo Model/Random.glob Model/Random.v.beautified Model/Random.required_vo: Model/Random.v Base/Prelude.vo Spec/Rfc4648.vo
Model/Random.vio: Model/Random.v Base/Prelude.vio Spec/Rfc4648.vio
Model/Random.vos Model/Random.vok Model/Random.required_vos: Model/Random.v Base/Prelude.vos Spec/Rfc4648.vos
Spec/SuiteName.vo Spec/SuiteName.glob Spec/SuiteName.v.beautified Spec/SuiteName.required_vo: Spec/SuiteName.v Base/Prelude.vo Hash/Sha.vo Model/Errors.vo Spec/Rfc4226.vo
Spec/SuiteName.vio: Spec/SuiteName.v Base/Prelude.vio Hash/Sha.vio Model/Errors.vio Spec/Rfc4226.vio
Spec/SuiteName.vos Spec/SuiteName.vok Spec/SuiteName.required_vos: Spec/SuiteName.v Base/Prelude.vos Hash/Sha.vos Model/Errors.vos Spec/Rfc4226.vos
Model/Suite.vo Model/Suite.glob Model/Suite.v.beautified Model/Suite.required_vo: Model/Suite.v Base/Prelude.vo Generated/Tables.vo Generated/Registry.vo Model/Errors.vo Model/Decoder.vo Model/Derive.vo Model/Otp.vo Model/Ocra.vo Model/Utils.vo
Model/Suite.vio: Model/Suite.v Base/Prelude.vio Generated/Tables.vio Generated/Registry.vio Model/Errors.vio Model/Decoder.vio Model/Derive.vio Model/Otp.vio Model/Ocra.vio Model/Utils.vio
Model/Suite.vos Model/Suite.vok Model/Suite.required_vos: Model/Suite.v Base/Prelude.vos Generated/Tables.vos Generated/Registry.vos Model/Errors.vos Model/Decoder.vos Model/Derive.vos Model/Otp.vos Model/Ocra.vos Model/Utils.vos
Model/Url.vo Model/Url.glob Model/Url.v.beautified Model/Url.required_vo: Model/Url.v Base/Prelude.vo Generated/Tables.vo Model/Errors.vo Model/Decoder.vo Model/Otp.vo Model/Utils.vo Model/Suite.vo
Model/Url.vio: Model/Url.v Base/Prelude.vio Generated/Tables.vio Model/Errors.vio Model/Decoder.vio Model/Otp.vio Model/Utils.vio Model/Suite.vio
Model/Url.vos Model/Url.vok Model/Url.required_vos: Model/Url.v Base/Prelude.vos Generated/Tables.vos Model/Errors.vos Model/Decoder.vos Model/Otp.vos Model/Utils.vos Model/Suite.vos
Model/Wasm.vo Model/Wasm.glob Model/Wasm.v.beautified Model/Wasm.required_vo: Model/Wasm.v Base/Prelude.vo Hash/Sha.vo Generated/Tables.vo Model/Errors.vo Model/Decoder.vo Model/Derive.vo Model/Otp.vo Model/Utils.vo Model/Suite.vo Model/Url.vo
Model/Wasm.vio: Model/Wasm.v Base/Prelude.vio Hash/Sha.vio Generated/Tables.vio Model/Errors.vio Model/Decoder.vio Model/Derive.vio Model/Otp.vio Model/Utils.vio Model/Suite.vio Model/Url.vio
Model/Wasm.vos Model/Wasm.vok Model/Wasm.required_vos: Model/Wasm.v Base/Prelude.vos Hash/Sha.vos Generated/Tables.vos Model/Errors.vos Model/Decoder.vos Model/Derive.vos Model/Otp.vos Model/Utils.vos Model/Suite.vos Model/Url.vos
Model/Rest.vo Model/Rest.glob Model/Rest.v.beautified Model/Rest.required_vo: Model/Rest.v Base/Prelude.vo Hash/Sha.vo Generated/Tables.vo Model/Errors.vo Model/Decoder.vo Model/Derive.vo Model/Otp.vo Model/Ocra.vo Model/Utils.vo Model/Random.vo Model/Suite.vo Model/Url.vo
Model/Rest.vio: Model/Rest.v Base/Prelude.vio Hash/Sha.vio Generated/Tables.vio Model/Errors.vio Model/Decoder.vio Model/Derive.vio Model/Otp.vio Model/Ocra.vio Model/Utils.vio Model/Random.vio Model/Suite.vio Model/Url.vio
Model/Rest.vos Model/Rest.vok Model/Rest.required_vos: Model/Rest.v Base/Prelude.vos Hash/Sha.vos Generated/Tables.vos Model/Errors.vos Model/Decoder.vos Model/Derive.vos Model/Otp.vos Model/Ocra.vos Model/Utils.vos Model/Random.vos Model/Suite.vos Model/Url.vos
Model/Runner.vo Model/Runner.glob Model/Runner.v.beautified Model/Runner.required_vo: Model/Runner.v Base/Prelude.vo Hash/Sha.vo Generated/Tables.vo Model/Errors.vo Model/Decoder.vo Model/Derive.vo Model/Otp.vo Model/Ocra.vo Spec/Rfc4226.vo Spec/Rfc6287.vo Spec/Rfc4648.vo Model/Utils.vo Model/Random.vo Model/Suite.vo Spec/SuiteName.vo Model/Url.vo Model/Wasm.vo Generated/JsExports.vo Model/Rest.vo
Model/Runner.vio: Model/Runner.v Base/Prelude.vio Hash/Sha.vio Generated/Tables.vio Model/Errors.vio Model/Decoder.vio Model/Derive.vio Model/Otp.vio Model/Ocra.vio Spec/Rfc4226.vio Spec/Rfc6287.vio Spec/Rfc4648.vio Model/Utils.vio Model/Random.vio Model/Suite.vio Spec/SuiteName.vio Model/Url.vio Model/Wasm.vio Generated/JsExports.vio Model/Rest.vio
Model/Runner.vos Model/Runner.vok Model/Runner.required_vos: Model/Runner.v Base/Prelude.vos Hash/Sha.vos Generated/Tables.vos Model/Errors.vos Model/Decoder.vos Model/Derive.vos Model/Otp.vos Model/Ocra.vos Spec/Rfc4226.vos Spec/Rfc6287.vos Spec/Rfc4648.vos Model/Utils.vos Model/Random.vos Model/Suite.vos Spec/SuiteName.vos Model/Url.vos Model/Wasm.vos Generated/JsExports.vos Model/Rest.vos
Extract/Extract.vo Extract/Extract.glob Extract/Extract.v.beautified Extract/Extract.required_vo: Extract/Extract.v Model/Runner.vo
Extract/Extract.vio: Extract/Extract.v Model/Runner.vio
Extract/Extract.vos Extract/Extract.vok Extract/Extract.required_vos: Extract/Extract.v Model/Runner.vos
Spec/Rfc4226.vo Spec/Rfc4226.glob Spec/Rfc4226.v.beautified Spec/Rfc4226.required_vo: Spec/Rfc4226.v Base/Prelude.vo Hash/Sha.vo
Spec/Rfc4226.vio: Spec/Rfc4226.v Base/Prelude.vio Hash/Sha.vio
Spec/Rfc4226.vos Spec/Rfc4226.vok Spec/Rfc4226.required_vos: Spec/Rfc4226.v Base/Prelude.vos Hash/Sha.vos
Proofs/BitLemmas.vo Proofs/BitLemmas.glob Proofs/BitLemmas.v.beautified Proofs/BitLemmas.required_vo: Proofs/BitLemmas.v Base/Prelude.vo
Proofs/BitLemmas.vio: Proofs/BitLemmas.v Base/Prelude.vio
Proofs/BitLemmas.vos Proofs/BitLemmas.vok Proofs/BitLemmas.required_vos: Proofs/BitLemmas.v Base/Prelude.vos
Proofs/DeriveProofs.vo Proofs/DeriveProofs.glob Proofs/DeriveProofs.v.beautified Proofs/DeriveProofs.required_vo: Proofs/DeriveProofs.v Base/Prelude.vo Hash/Sha.vo Generated/Tables.vo Model/Decoder.vo Model/Derive.vo Spec/Rfc4226.vo Proofs/BitLemmas.vo
Proofs/DeriveProofs.vio: Proofs/DeriveProofs.v Base/Prelude.vio Hash/Sha.vio Generated/Tables.vio Model/Decoder.vio Model/Derive.vio Spec/Rfc4226.vio Proofs/BitLemmas.vio
Proofs/DeriveProofs.vos Proofs/DeriveProofs.vok Proofs/DeriveProofs.required_vos: Proofs/DeriveProofs.v Base/Prelude.vos Hash/Sha.vos Generated/Tables.vos Model/Decoder.vos Model/Derive.vos Spec/Rfc4226.vos Proofs/BitLemmas.vos
Proofs/OtpProofs.vo Proofs/OtpProofs.glob Proofs/OtpProofs.v.beautified Proofs/OtpProofs.required_vo: Proofs/OtpProofs.v Base/Prelude.vo Hash/Sha.vo Generated/Tables.vo Model/Decoder.vo Model/Derive.vo Model/Otp.vo Spec/Rfc4226.vo Proofs/BitLemmas.vo Proofs/DeriveProofs.vo
Proofs/OtpProofs.vio: Proofs/OtpProofs.v Base/Prelude.vio Hash/Sha.vio Generated/Tables.vio Model/Decoder.vio Model/Derive.vio Model/Otp.vio Spec/Rfc4226.vio Proofs/BitLemmas.vio Proofs/DeriveProofs.vio
Proofs/OtpProofs.vos Proofs/OtpProofs.vok Proofs/OtpProofs.required_vos: Proofs/OtpProofs.v Base/Prelude.vos Hash/Sha.vos Generated/Tables.vos Model/Decoder.vos Model/Derive.vos Model/Otp.vos Spec/Rfc4226.vos Proofs/BitLemmas.vos Proofs/DeriveProofs.vos
Properties/C01.vo Properties/C01.glob Properties/C01.v.beautified Properties/C01.required_vo: Properties/C01.v Base/Prelude.vo Hash/Sha.vo Model/Decoder.vo Model/Derive.vo Model/Otp.vo Spec/Rfc4226.vo Proofs/DeriveProofs.vo Proofs/OtpProofs.vo Model/Errors.vo
Properties/C01.vio: Properties/C01.v Base/Prelude.vio Hash/Sha.vio Model/Decoder.vio Model/Derive.vio Model/Otp.vio Spec/Rfc4226.vio Proofs/DeriveProofs.vio Proofs/OtpProofs.vio Model/Errors.vio
Properties/C01.vos Properties/C01.vok Properties/C01.required_vos: Properties/C01.v Base/Prelude.vos Hash/Sha.vos Model/Decoder.vos Model/Derive.vos Model/Otp.vos Spec/Rfc4226.vos Proofs/DeriveProofs.vos Proofs/OtpProofs.vos Model/Errors.vos
Properties/C02.vo Properties/C02.glob Properties/C02.v.beautified Properties/C02.required_vo: Properties/C02.v Base/Prelude.vo Hash/Sha.vo Generated/Tables.vo Model/Decoder.vo Model/Derive.vo Model/Otp.vo Spec/Rfc4226.vo Proofs/DeriveProofs.vo Proofs/OtpProofs.vo Model/Errors.vo
Properties/C02.vio: Properties/C02.v Base/Prelude.vio Hash/Sha.vio Generated/Tables.vio Model/Decoder.vio Model/Derive.vio Model/Otp.vio Spec/Rfc4226.vio Proofs/DeriveProofs.vio Proofs/OtpProofs.vio Model/Errors.vio
Properties/C02.vos Properties/C02.vok Properties/C02.required_vos: Properties/C02.v Base/Prelude.vos Hash/Sha.vos Generated/Tables.vos Model/Decoder.vos Model/Derive.vos Model/Otp.vos Spec/Rfc4226.vos Proofs/DeriveProofs.vos Proofs/OtpProofs.vos Model/Errors.vos
Properties/C03.vo Properties/C03.glob Properties/C03.v.beautified Properties/C03.required_vo: Properties/C03.v Base/Prelude.vo Hash/Sha.vo Generated/Tables.vo Model/Decoder.vo Model/Derive.vo Model/Otp.vo Spec/Rfc4226.vo Proofs/DeriveProofs.vo Proofs/OtpProofs.vo Model/Errors.vo
Properties/C03.vio: Properties/C03.v Base/Prelude.vio Hash/Sha.vio Generated/Tables.vio Model/Decoder.vio Model/Derive.vio Model/Otp.vio Spec/Rfc4226.vio Proofs/DeriveProofs.vio Proofs/OtpProofs.vio Model/Errors.vio
Properties/C03.vos Properties/C03.vok Properties/C03.required_vos: Properties/C03.v Base/Prelude.vos Hash/Sha.vos Generated/Tables.vos Model/Decoder.vos Model/Derive.vos Model/Otp.vos Spec/Rfc4226.vos Proofs/DeriveProofs.vos Proofs/OtpProofs.vos Model/Errors.vos
Properties/C04.vo Properties/C04.glob Properties/C04.v.beautified Properties/C04.required_vo: Properties/C04.v Base/Prelude.vo Hash/Sha.vo Generated/Tables.vo Model/Decoder.vo Model/Derive.vo Model/Otp.vo Spec/Rfc4226.vo Proofs/DeriveProofs.vo Proofs/OtpProofs.vo Model/Errors.vo
Properties/C04.vio: Properties/C04.v Base/Prelude.vio Hash/Sha.vio Generated/Tables.vio Model/Decoder.vio Model/Derive.vio Model/Otp.vio Spec/Rfc4226.vio Proofs/DeriveProofs.vio Proofs/OtpProofs.vio Model/Errors.vio
Properties/C04.vos Properties/C04.vok Properties/C04.required_vos: Properties/C04.v Base/Prelude.vos Hash/Sha.vos Generated/Tables.vos Model/Decoder.vos Model/Derive.vos Model/Otp.vos Spec/Rfc4226.vos Proofs/DeriveProofs.vos Proofs/OtpProofs.vos Model/Errors.vos
Spec/Rfc6287.vo Spec/Rfc6287.glob Spec/Rfc6287.v.beautified Spec/Rfc6287.required_vo: Spec/Rfc6287.v Base/Prelude.vo Hash/Sha.vo Spec/Rfc4226.vo
Spec/Rfc6287.vio: Spec/Rfc6287.v Base/Prelude.vio Hash/Sha.vio Spec/Rfc4226.vio
Spec/Rfc6287.vos Spec/Rfc6287.vok Spec/Rfc6287.required_vos: Spec/Rfc6287.v Base/Prelude.vos Hash/Sha.vos Spec/Rfc4226.vos
Proofs/OcraProofs.vo Proofs/OcraProofs.glob Proofs/OcraProofs.v.beautified Proofs/OcraProofs.required_vo: Proofs/OcraProofs.v Base/Prelude.vo Hash/Sha.vo Generated/Tables.vo Model/Errors.vo Model/Decoder.vo Model/Derive.vo Model/Otp.vo Model/Ocra.vo Spec/Rfc4226.vo Spec/Rfc6287.vo Proofs/BitLemmas.vo Proofs/DeriveProofs.vo Proofs/OtpProofs.vo
Proofs/OcraProofs.vio: Proofs/OcraProofs.v Base/Prelude.vio Hash/Sha.vio Generated/Tables.vio Model/Errors.vio Model/Decoder.vio Model/Derive.vio Model/Otp.vio Model/Ocra.vio Spec/Rfc4226.vio Spec/Rfc6287.vio Proofs/BitLemmas.vio Proofs/DeriveProofs.vio Proofs/OtpProofs.vio
Proofs/OcraProofs.vos Proofs/OcraProofs.vok Proofs/OcraProofs.required_vos: Proofs/OcraProofs.v Base/Prelude.vos Hash/Sha.vos Generated/Tables.vos Model/Errors.vos Model/Decoder.vos Model/Derive.vos Model/Otp.vos Model/Ocra.vos Spec/Rfc4226.vos Spec/Rfc6287.vos Proofs/BitLemmas.vos Proofs/DeriveProofs.vos Proofs/OtpProofs.vos
Properties/C05.vo Properties/C05.glob Properties/C05.v.beautified Properties/C05.required_vo: Properties/C05.v Base/Prelude.vo Hash/Sha.vo Generated/Tables.vo Model/Decoder.vo Model/Derive.vo Model/Otp.vo Model/Ocra.vo Spec/Rfc4226.vo Spec/Rfc6287.vo Proofs/DeriveProofs.vo Proofs/OtpProofs.vo Proofs/OcraProofs.vo Model/Errors.vo
Properties/C05.vio: Properties/C05.v Base/Prelude.vio Hash/Sha.vio Generated/Tables.vio Model/Decoder.vio Model/Derive.vio Model/Otp.vio Model/Ocra.vio Spec/Rfc4226.vio Spec/Rfc6287.vio Proofs/DeriveProofs.vio Proofs/OtpProofs.vio Proofs/OcraProofs.vio Model/Errors.vio
Properties/C05.vos Properties/C05.vok Properties/C05.required_vos: Properties/C05.v Base/Prelude.vos Hash/Sha.vos Generated/Tables.vos Model/Decoder.vos Model/Derive.vos Model/Otp.vos Model/Ocra.vos Spec/Rfc4226.vos Spec/Rfc6287.vos Proofs/DeriveProofs.vos Proofs/OtpProofs.vos Proofs/OcraProofs.vos Model/Errors.vos
Properties/C06.vo Properties/C06.glob Properties/C06.v.beautified Properties/C06.required_vo: Properties/C06.v Base/Prelude.vo Hash/Sha.vo Generated/Tables.vo Model/Decoder.vo Model/Derive.vo Model/Otp.vo Model/Ocra.vo Spec/Rfc4226.vo Spec/Rfc6287.vo Proofs/DeriveProofs.vo Proofs/OtpProofs.vo Proofs/OcraProofs.vo Model/Errors.vo
Properties/C06.vio: Properties/C06.v Base/Prelude.vio Hash/Sha.vio Generated/Tables.vio Model/Decoder.vio Model/Derive.vio Model/Otp.vio Model/Ocra.vio Spec/Rfc4226.vio Spec/Rfc6287.vio Proofs/DeriveProofs.vio Proofs/OtpProofs.vio Proofs/OcraProofs.vio Model/Errors.vio
Properties/C06.vos Properties/C06.vok Properties/C06.required_vos: Properties/C06.v Base/Prelude.vos Hash/Sha.vos Generated/Tables.vos Model/Decoder.vos Model/Derive.vos Model/Otp.vos Model/Ocra.vos Spec/Rfc4226.vos Spec/Rfc6287.vos Proofs/DeriveProofs.vos Proofs/OtpProofs.vos Proofs/OcraProofs.vos Model/Errors.vos
Properties/C14.vo Properties/C14.glob Properties/C14.v.beautified Properties/C14.required_vo: Properties/C14.v Base/Prelude.vo Hash/Sha.vo Generated/Tables.vo Model/Decoder.vo Model/Derive.vo Model/Otp.vo Model/Ocra.vo Spec/Rfc4226.vo Spec/Rfc6287.vo Proofs/DeriveProofs.vo Proofs/OtpProofs.vo Proofs/OcraProofs.vo Model/Errors.vo
Properties/C14.vio: Properties/C14.v Base/Prelude.vio Hash/Sha.vio Generated/Tables.vio Model/Decoder.vio Model/Derive.vio Model/Otp.vio Model/Ocra.vio Spec/Rfc4226.vio Spec/Rfc6287.vio Proofs/DeriveProofs.vio Proofs/OtpProofs.vio Proofs/OcraProofs.vio Model/Errors.vio
Properties/C14.vos Properties/C14.vok Properties/C14.required_vos: Properties/C14.v Base/Prelude.vos Hash/Sha.vos Generated/Tables.vos Model/Decoder.vos Model/Derive.vos Model/Otp.vos Model/Ocra.vos Spec/Rfc4226.vos Spec/Rfc6287.vos Proofs/DeriveProofs.vos Proofs/OtpProofs.vos Proofs/OcraProofs.vos Model/Errors.vos
Proofs/Base32Proofs.vo Proofs/Base32Proofs.glob Proofs/Base32Proofs.v.beautified Proofs/Base32Proofs.required_vo: Proofs/Base32Proofs.v Base/Prelude.vo Spec/Rfc4648.vo Model/Decoder.vo
Proofs/Base32Proofs.vio: Proofs/Base32Proofs.v Base/Prelude.vio Spec/Rfc4648.vio Model/Decoder.vio
Proofs/Base32Proofs.vos Proofs/Base32Proofs.vok Proofs/Base32Proofs.required_vos: Proofs/Base32Proofs.v Base/Prelude.vos Spec/Rfc4648.vos Model/Decoder.vos
Properties/C07.vo Properties/C07.glob Properties/C07.v.beautified Properties/C07.required_vo: Properties/C07.v Base/Prelude.vo Hash/Sha.vo Spec/Rfc4648.vo Model/Decoder.vo Model/Derive.vo Model/Otp.vo Model/Ocra.vo Model/Errors.vo Proofs/Base32Proofs.vo
Properties/C07.vio: Properties/C07.v Base/Prelude.vio Hash/Sha.vio Spec/Rfc4648.vio Model/Decoder.vio Model/Derive.vio Model/Otp.vio Model/Ocra.vio Model/Errors.vio Proofs/Base32Proofs.vio
Properties/C07.vos Properties/C07.vok Properties/C07.required_vos: Properties/C07.v Base/Prelude.vos Hash/Sha.vos Spec/Rfc4648.vos Model/Decoder.vos Model/Derive.vos Model/Otp.vos Model/Ocra.vos Model/Errors.vos Proofs/Base32Proofs.vos
Proofs/UtilsProofs.vo Proofs/UtilsProofs.glob Proofs/UtilsProofs.v.beautified Proofs/UtilsProofs.required_vo: Proofs/UtilsProofs.v Base/Prelude.vo Model/Errors.vo Spec/Rfc4226.vo Spec/Rfc4648.vo Model/Decoder.vo Model/Derive.vo Model/Ocra.vo Model/Utils.vo Model/Random.vo Proofs/BitLemmas.vo Proofs/DeriveProofs.vo Proofs/Base32Proofs.vo
Proofs/UtilsProofs.vio: Proofs/UtilsProofs.v Base/Prelude.vio Model/Errors.vio Spec/Rfc4226.vio Spec/Rfc4648.vio Model/Decoder.vio Model/Derive.vio Model/Ocra.vio Model/Utils.vio Model/Random.vio Proofs/BitLemmas.vio Proofs/DeriveProofs.vio Proofs/Base32Proofs.vio
Proofs/UtilsProofs.vos Proofs/UtilsProofs.vok Proofs/UtilsProofs.required_vos: Proofs/UtilsProofs.v Base/Prelude.vos Model/Errors.vos Spec/Rfc4226.vos Spec/Rfc4648.vos Model/Decoder.vos Model/Derive.vos Model/Ocra.vos Model/Utils.vos Model/Random.vos Proofs/BitLemmas.vos Proofs/DeriveProofs.vos Proofs/Base32Proofs.vos
Proofs/SuiteProofs.vo Proofs/SuiteProofs.glob Proofs/SuiteProofs.v.beautified Proofs/SuiteProofs.required_vo: Proofs/SuiteProofs.v Base/Prelude.vo Hash/Sha.vo Generated/Tables.vo Generated/Registry.vo Model/Errors.vo Model/Decoder.vo Model/Derive.vo Model/Otp.vo Model/Ocra.vo Model/Utils.vo Model/Suite.vo Spec/Rfc4226.vo Spec/SuiteName.vo Proofs/OcraProofs.vo Proofs/UtilsProofs.vo
Proofs/SuiteProofs.vio: Proofs/SuiteProofs.v Base/Prelude.vio Hash/Sha.vio Generated/Tables.vio Generated/Registry.vio Model/Errors.vio Model/Decoder.vio Model/Derive.vio Model/Otp.vio Model/Ocra.vio Model/Utils.vio Model/Suite.vio Spec/Rfc4226.vio Spec/SuiteName.vio Proofs/OcraProofs.vio Proofs/UtilsProofs.vio
Proofs/SuiteProofs.vos Proofs/SuiteProofs.vok Proofs/SuiteProofs.required_vos: Proofs/SuiteProofs.v Base/Prelude.vos Hash/Sha.vos Generated/Tables.vos Generated/Registry.vos Model/Errors.vos Model/Decoder.vos Model/Derive.vos Model/Otp.vos Model/Ocra.vos Model/Utils.vos Model/Suite.vos Spec/Rfc4226.vos Spec/SuiteName.vos Proofs/OcraProofs.vos Proofs/UtilsProofs.vos
Proofs/UrlProofs.vo Proofs/UrlProofs.glob Proofs/UrlProofs.v.beautified Proofs/UrlProofs.required_vo: Proofs/UrlProofs.v Base/Prelude.vo Generated/Tables.vo Model/Errors.vo Model/Decoder.vo Model/Otp.vo Model/Utils.vo Model/Suite.vo Model/Url.vo Proofs/SuiteProofs.vo
Proofs/UrlProofs.vio: Proofs/UrlProofs.v Base/Prelude.vio Generated/Tables.vio Model/Errors.vio Model/Decoder.vio Model/Otp.vio Model/Utils.vio Model/Suite.vio Model/Url.vio Proofs/SuiteProofs.vio
Proofs/UrlProofs.vos Proofs/UrlProofs.vok Proofs/UrlProofs.required_vos: Proofs/UrlProofs.v Base/Prelude.vos Generated/Tables.vos Model/Errors.vos Model/Decoder.vos Model/Otp.vos Model/Utils.vos Model/Suite.vos Model/Url.vos Proofs/SuiteProofs.vos
Proofs/TotalProofs.vo Proofs/TotalProofs.glob Proofs/TotalProofs.v.beautified Proofs/TotalProofs.required_vo: Proofs/TotalProofs.v Base/Prelude.vo Hash/Sha.vo Generated/Tables.vo Model/Errors.vo Model/Decoder.vo Model/Derive.vo Model/Otp.vo Model/Ocra.vo Model/Utils.vo Model/Random.vo Model/Suite.vo Model/Url.vo Proofs/DeriveProofs.vo Proofs/OtpProofs.vo Proofs/OcraProofs.vo Proofs/UtilsProofs.vo Proofs/SuiteProofs.vo
Proofs/TotalProofs.vio: Proofs/TotalProofs.v Base/Prelude.vio Hash/Sha.vio Generated/Tables.vio Model/Errors.vio Model/Decoder.vio Model/Derive.vio Model/Otp.vio Model/Ocra.vio Model/Utils.vio Model/Random.vio Model/Suite.vio Model/Url.vio Proofs/DeriveProofs.vio Proofs/OtpProofs.vio Proofs/OcraProofs.vio Proofs/UtilsProofs.vio Proofs/SuiteProofs.vio
Proofs/TotalProofs.vos Proofs/TotalProofs.vok Proofs/TotalProofs.required_vos: Proofs/TotalProofs.v Base/Prelude.vos Hash/Sha.vos Generated/Tables.vos Model/Errors.vos Model/Decoder.vos Model/Derive.vos Model/Otp.vos Model/Ocra.vos Model/Utils.vos Model/Random.vos Model/Suite.vos Model/Url.vos Proofs/DeriveProofs.vos Proofs/OtpProofs.vos Proofs/OcraProofs.vos Proofs/UtilsProofs.vos Proofs/SuiteProofs.vos
Proofs/WasmProofs.vo Proofs/WasmProofs.glob Proofs/WasmProofs.v.beautified Proofs/WasmProofs.required_vo: Proofs/WasmProofs.v Base/Prelude.vo Hash/Sha.vo Generated/Tables.vo Generated/JsExports.vo Model/Errors.vo Model/Decoder.vo Model/Derive.vo Model/Otp.vo Model/Utils.vo Model/Suite.vo Model/Url.vo Model/Wasm.vo Spec/Rfc4226.vo Proofs/BitLemmas.vo Proofs/DeriveProofs.vo Proofs/OtpProofs.vo Proofs/SuiteProofs.vo
Proofs/WasmProofs.vio: Proofs/WasmProofs.v Base/Prelude.vio Hash/Sha.vio Generated/Tables.vio Generated/JsExports.vio Model/Errors.vio Model/Decoder.vio Model/Derive.vio Model/Otp.vio Model/Utils.vio Model/Suite.vio Model/Url.vio Model/Wasm.vio Spec/Rfc4226.vio Proofs/BitLemmas.vio Proofs/DeriveProofs.vio Proofs/OtpProofs.vio Proofs/SuiteProofs.vio
Proofs/WasmProofs.vos Proofs/WasmProofs.vok Proofs/WasmProofs.required_vos: Proofs/WasmProofs.v Base/Prelude.vos Hash/Sha.vos Generated/Tables.vos Generated/JsExports.vos Model/Errors.vos Model/Decoder.vos Model/Derive.vos Model/Otp.vos Model/Utils.vos Model/Suite.vos Model/Url.vos Model/Wasm.vos Spec/Rfc4226.vos Proofs/BitLemmas.vos Proofs/DeriveProofs.vos Proofs/OtpProofs.vos Proofs/SuiteProofs.vos
Proofs/RestProofs.vo Proofs/RestProofs.glob Proofs/RestProofs.v.beautified Proofs/RestProofs.required_vo: Proofs/RestProofs.v Base/Prelude.vo Hash/Sha.vo Generated/Tables.vo Model/Errors.vo Model/Decoder.vo Model/Derive.vo Model/Otp.vo Model/Ocra.vo Model/Utils.vo Model/Random.vo Model/Suite.vo Model/Url.vo Model/Rest.vo Spec/Rfc4226.vo Proofs/DeriveProofs.vo Proofs/OtpProofs.vo Proofs/OcraProofs.vo Proofs/TotalProofs.vo Proofs/SuiteProofs.vo
Proofs/RestProofs.vio: Proofs/RestProofs.v Base/Prelude.vio Hash/Sha.vio Generated/Tables.vio Model/Errors.vio Model/Decoder.vio Model/Derive.vio Model/Otp.vio Model/Ocra.vio Model/Utils.vio Model/Random.vio Model/Suite.vio Model/Url.vio Model/Rest.vio Spec/Rfc4226.vio Proofs/DeriveProofs.vio Proofs/OtpProofs.vio Proofs/OcraProofs.vio Proofs/TotalProofs.vio Proofs/SuiteProofs.vio
Proofs/RestProofs.vos Proofs/RestProofs.vok Proofs/RestProofs.required_vos: Proofs/RestProofs.v Base/Prelude.vos Hash/Sha.vos Generated/Tables.vos Model/Errors.vos Model/Decoder.vos Model/Derive.vos Model/Otp.vos Model/Ocra.vos Model/Utils.vos Model/Random.vos Model/Suite.vos Model/Url.vos Model/Rest.vos Spec/Rfc4226.vos Proofs/DeriveProofs.vos Proofs/OtpProofs.vos Proofs/OcraProofs.vos Proofs/TotalProofs.vos Proofs/SuiteProofs.vos
Proofs/LeakProofs.vo Proofs/LeakProofs.glob Proofs/LeakProofs.v.beautified Proofs/LeakProofs.required_vo: Proofs/LeakProofs.v Base/Prelude.vo Hash/Sha.vo Generated/Tables.vo Model/Errors.vo Model/Decoder.vo Model/Derive.vo Model/Otp.vo Model/Ocra.vo
Proofs/LeakProofs.vio: Proofs/LeakProofs.v Base/Prelude.vio Hash/Sha.vio Generated/Tables.vio Model/Errors.vio Model/Decoder.vio Model/Derive.vio Model/Otp.vio Model/Ocra.vio
Proofs/LeakProofs.vos Proofs/LeakProofs.vok Proofs/LeakProofs.required_vos: Proofs/LeakProofs.v Base/Prelude.vos Hash/Sha.vos Generated/Tables.vos Model/Errors.vos Model/Decoder.vos Model/Derive.vos Model/Otp.vos Model/Ocra.vos
Proofs/NameProofs.vo Proofs/NameProofs.glob Proofs/NameProofs.v.beautified Proofs/NameProofs.required_vo: Proofs/NameProofs.v Base/Prelude.vo Hash/Sha.vo Model/Errors.vo Model/Ocra.vo Model/Utils.vo Model/Suite.vo Spec/Rfc4226.vo Spec/SuiteName.vo Proofs/DeriveProofs.vo Proofs/UtilsProofs.vo Proofs/SuiteProofs.vo
Proofs/NameProofs.vio: Proofs/NameProofs.v Base/Prelude.vio Hash/Sha.vio Model/Errors.vio Model/Ocra.vio Model/Utils.vio Model/Suite.vio Spec/Rfc4226.vio Spec/SuiteName.vio Proofs/DeriveProofs.vio Proofs/UtilsProofs.vio Proofs/SuiteProofs.vio
Proofs/NameProofs.vos Proofs/NameProofs.vok Proofs/NameProofs.required_vos: Proofs/NameProofs.v Base/Prelude.vos Hash/Sha.vos Model/Errors.vos Model/Ocra.vos Model/Utils.vos Model/Suite.vos Spec/Rfc4226.vos Spec/SuiteName.vos Proofs/DeriveProofs.vos Proofs/UtilsProofs.vos Proofs/SuiteProofs.vos
Properties/C08.vo Properties/C08.glob Properties/C08.v.beautified Properties/C08.required_vo: Properties/C08.v Base/Prelude.vo Spec/Rfc4648.vo Model/Decoder.vo Model/Random.vo Proofs/Base32Proofs.vo Proofs/UtilsProofs.vo
Properties/C08.vio: Properties/C08.v Base/Prelude.vio Spec/Rfc4648.vio Model/Decoder.vio Model/Random.vio Proofs/Base32Proofs.vio Proofs/UtilsProofs.vio
Properties/C08.vos Properties/C08.vok Properties/C08.required_vos: Properties/C08.v Base/Prelude.vos Spec/Rfc4648.vos Model/Decoder.vos Model/Random.vos Proofs/Base32Proofs.vos Proofs/UtilsProofs.vos
Properties/C09.vo Properties/C09.glob Properties/C09.v.beautified Properties/C09.required_vo: Properties/C09.v Model/Flow.vo Generated/SsaNative.vo Generated/SsaWasm.vo
Properties/C09.vio: Properties/C09.v Model/Flow.vio Generated/SsaNative.vio Generated/SsaWasm.vio
Properties/C09.vos Properties/C09.vok Properties/C09.required_vos: Properties/C09.v Model/Flow.vos Generated/SsaNative.vos Generated/SsaWasm.vos
Properties/C10.vo Properties/C10.glob Properties/C10.v.beautified Properties/C10.required_vo: Properties/C10.v Base/Prelude.vo Hash/Sha.vo Model/Errors.vo Model/Decoder.vo Model/Derive.vo Model/Otp.vo Model/Ocra.vo Model/Utils.vo Model/Random.vo Model/Suite.vo Model/Url.vo Proofs/OtpProofs.vo Proofs/OcraProofs.vo Proofs/TotalProofs.vo
Properties/C10.vio: Properties/C10.v Base/Prelude.vio Hash/Sha.vio Model/Errors.vio Model/Decoder.vio Model/Derive.vio Model/Otp.vio Model/Ocra.vio Model/Utils.vio Model/Random.vio Model/Suite.vio Model/Url.vio Proofs/OtpProofs.vio Proofs/OcraProofs.vio Proofs/TotalProofs.vio
Properties/C10.vos Properties/C10.vok Properties/C10.required_vos: Properties/C10.v Base/Prelude.vos Hash/Sha.vos Model/Errors.vos Model/Decoder.vos Model/Derive.vos Model/Otp.vos Model/Ocra.vos Model/Utils.vos Model/Random.vos Model/Suite.vos Model/Url.vos Proofs/OtpProofs.vos Proofs/OcraProofs.vos Proofs/TotalProofs.vos
Properties/C11.vo Properties/C11.glob Properties/C11.v.beautified Properties/C11.required_vo: Properties/C11.v Model/Mem.vo Proofs/MemProofs.vo Model/Flow.vo Generated/SsaNative.vo Generated/SsaWasm.vo
Properties/C11.vio: Properties/C11.v Model/Mem.vio Proofs/MemProofs.vio Model/Flow.vio Generated/SsaNative.vio Generated/SsaWasm.vio
Properties/C11.vos Properties/C11.vok Properties/C11.required_vos: Properties/C11.v Model/Mem.vos Proofs/MemProofs.vos Model/Flow.vos Generated/SsaNative.vos Generated/SsaWasm.vos
Properties/C12.vo Properties/C12.glob Properties/C12.v.beautified Properties/C12.required_vo: Properties/C12.v Base/Prelude.vo Model/Derive.vo Model/Flow.vo Generated/SsaNative.vo Generated/SsaWasm.vo Proofs/OcraProofs.vo
Properties/C12.vio: Properties/C12.v Base/Prelude.vio Model/Derive.vio Model/Flow.vio Generated/SsaNative.vio Generated/SsaWasm.vio Proofs/OcraProofs.vio
Properties/C12.vos Properties/C12.vok Properties/C12.required_vos: Properties/C12.v Base/Prelude.vos Model/Derive.vos Model/Flow.vos Generated/SsaNative.vos Generated/SsaWasm.vos Proofs/OcraProofs.vos
Properties/C13.vo Properties/C13.glob Properties/C13.v.beautified Properties/C13.required_vo: Properties/C13.v Base/Prelude.vo Hash/Sha.vo Generated/Tables.vo Generated/ErrTexts.vo Model/Errors.vo Model/Decoder.vo Model/Derive.vo Model/Otp.vo Model/Ocra.vo Proofs/DeriveProofs.vo Proofs/OtpProofs.vo Proofs/OcraProofs.vo Proofs/LeakProofs.vo
Properties/C13.vio: Properties/C13.v Base/Prelude.vio Hash/Sha.vio Generated/Tables.vio Generated/ErrTexts.vio Model/Errors.vio Model/Decoder.vio Model/Derive.vio Model/Otp.vio Model/Ocra.vio Proofs/DeriveProofs.vio Proofs/OtpProofs.vio Proofs/OcraProofs.vio Proofs/LeakProofs.vio
Properties/C13.vos Properties/C13.vok Properties/C13.required_vos: Properties/C13.v Base/Prelude.vos Hash/Sha.vos Generated/Tables.vos Generated/ErrTexts.vos Model/Errors.vos Model/Decoder.vos Model/Derive.vos Model/Otp.vos Model/Ocra.vos Proofs/DeriveProofs.vos Proofs/OtpProofs.vos Proofs/OcraProofs.vos Proofs/LeakProofs.vos
Properties/C15.vo Properties/C15.glob Properties/C15.v.beautified Properties/C15.required_vo: Properties/C15.v Base/Prelude.vo Hash/Sha.vo Model/Errors.vo Model/Ocra.vo Model/Suite.vo Spec/SuiteName.vo Proofs/OcraProofs.vo Proofs/SuiteProofs.vo Proofs/NameProofs.vo
Properties/C15.vio: Properties/C15.v Base/Prelude.vio Hash/Sha.vio Model/Errors.vio Model/Ocra.vio Model/Suite.vio Spec/SuiteName.vio Proofs/OcraProofs.vio Proofs/SuiteProofs.vio Proofs/NameProofs.vio
Properties/C15.vos Properties/C15.vok Properties/C15.required_vos: Properties/C15.v Base/Prelude.vos Hash/Sha.vos Model/Errors.vos Model/Ocra.vos Model/Suite.vos Spec/SuiteName.vos Proofs/OcraProofs.vos Proofs/SuiteProofs.vos Proofs/NameProofs.vos
Properties/C16.vo Properties/C16.glob Properties/C16.v.beautified Properties/C16.required_vo: Properties/C16.v Base/Prelude.vo Model/Errors.vo Model/Utils.vo Model/Url.vo Proofs/UrlProofs.vo
Properties/C16.vio: Properties/C16.v Base/Prelude.vio Model/Errors.vio Model/Utils.vio Model/Url.vio Proofs/UrlProofs.vio
Properties/C16.vos Properties/C16.vok Properties/C16.required_vos: Properties/C16.v Base/Prelude.vos Model/Errors.vos Model/Utils.vos Model/Url.vos Proofs/UrlProofs.vos
Properties/C17.vo Properties/C17.glob Properties/C17.v.beautified Properties/C17.required_vo: Properties/C17.v Base/Prelude.vo Model/Errors.vo Spec/Rfc4226.vo Spec/Rfc6287.vo Hash/Sha.vo Model/Decoder.vo Model/Derive.vo Model/Otp.vo Model/Ocra.vo Model/Utils.vo Proofs/DeriveProofs.vo Proofs/OcraProofs.vo Proofs/UtilsProofs.vo
Properties/C17.vio: Properties/C17.v Base/Prelude.vio Model/Errors.vio Spec/Rfc4226.vio Spec/Rfc6287.vio Hash/Sha.vio Model/Decoder.vio Model/Derive.vio Model/Otp.vio Model/Ocra.vio Model/Utils.vio Proofs/DeriveProofs.vio Proofs/OcraProofs.vio Proofs/UtilsProofs.vio
Properties/C17.vos Properties/C17.vok Properties/C17.required_vos: Properties/C17.v Base/Prelude.vos Model/Errors.vos Spec/Rfc4226.vos Spec/Rfc6287.vos Hash/Sha.vos Model/Decoder.vos Model/Derive.vos Model/Otp.vos Model/Ocra.vos Model/Utils.vos Proofs/DeriveProofs.vos Proofs/OcraProofs.vos Proofs/UtilsProofs.vos
Properties/C18.vo Properties/C18.glob Properties/C18.v.beautified Properties/C18.required_vo: Properties/C18.v Base/Prelude.vo Hash/Sha.vo Model/Errors.vo Model/Decoder.vo Model/Derive.vo Model/Otp.vo Model/Ocra.vo Model/Suite.vo Model/Url.vo Model/Rest.vo Spec/Rfc4226.vo Proofs/OtpProofs.vo Proofs/RestProofs.vo
Properties/C18.vio: Properties/C18.v Base/Prelude.vio Hash/Sha.vio Model/Errors.vio Model/Decoder.vio Model/Derive.vio Model/Otp.vio Model/Ocra.vio Model/Suite.vio Model/Url.vio Model/Rest.vio Spec/Rfc4226.vio Proofs/OtpProofs.vio Proofs/RestProofs.vio
Properties/C18.vos Properties/C18.vok Properties/C18.required_vos: Properties/C18.v Base/Prelude.vos Hash/Sha.vos Model/Errors.vos Model/Decoder.vos Model/Derive.vos Model/Otp.vos Model/Ocra.vos Model/Suite.vos Model/Url.vos Model/Rest.vos Spec/Rfc4226.vos Proofs/OtpProofs.vos Proofs/RestProofs.vos
Properties/C19.vo Properties/C19.glob Properties/C19.v.beautified Properties/C19.required_vo: Properties/C19.v Base/Prelude.vo Model/Errors.vo Model/Rest.vo Proofs/RestProofs.vo
Properties/C19.vio: Properties/C19.v Base/Prelude.vio Model/Errors.vio Model/Rest.vio Proofs/RestProofs.vio
Properties/C19.vos Properties/C19.vok Properties/C19.required_vos: Properties/C19.v Base/Prelude.vos Model/Errors.vos Model/Rest.vos Proofs/RestProofs.vos
Properties/C20.vo Properties/C20.glob Properties/C20.v.beautified Properties/C20.required_vo: Properties/C20.v Base/Prelude.vo Hash/Sha.vo Generated/Tables.vo Generated/JsExports.vo Model/Errors.vo Model/Decoder.vo Model/Derive.vo Model/Otp.vo Model/Utils.vo Model/Suite.vo Model/Url.vo Model/Wasm.vo Proofs/WasmProofs.vo
Properties/C20.vio: Properties/C20.v Base/Prelude.vio Hash/Sha.vio Generated/Tables.vio Generated/JsExports.vio Model/Errors.vio Model/Decoder.vio Model/Derive.vio Model/Otp.vio Model/Utils.vio Model/Suite.vio Model/Url.vio Model/Wasm.vio Proofs/WasmProofs.vio
Properties/C20.vos Properties/C20.vok Properties/C20.required_vos: Properties/C20.v Base/Prelude.vos Hash/Sha.vos Generated/Tables.vos Generated/JsExports.vos Model/Errors.vos Model/Decoder.vos Model/Derive.vos Model/Otp.vos Model/Utils.vos Model/Suite.vos Model/Url.vos Model/Wasm.vos Proofs/WasmProofs.vos
