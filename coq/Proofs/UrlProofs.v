(** Proofs about the provisioning-URL model (C16): escape/unescape are inverse, escaped text is
    free of delimiters, and generate -> String -> Parse -> ParseOTPAuthURL returns its input. *)
From Coq Require Import String ZifyN ZifyNat ZifyBool.
From OtpV Require Import Prelude Tables Errors Decoder Otp Utils Suite Url SuiteProofs.
Open Scope N_scope.
Ltac Zify.zify_post_hook ::= Z.to_euclidean_division_equations.

(** ---------- all byte values ---------- *)
Definition all_bytes : list N := map N.of_nat (seq 0 256).
Lemma in_all_bytes c : c < 256 -> In c all_bytes.
Proof.
  intros H. unfold all_bytes. apply in_map_iff. exists (N.to_nat c). split; [lia|]. apply in_seq. lia.
Qed.
Lemma sweep (P : N -> bool) : forallb P all_bytes = true -> forall c, c < 256 -> P c = true.
Proof. intros H c Hc. rewrite forallb_forall in H. apply H. apply in_all_bytes. exact Hc. Qed.

(** ---------- how unescape steps over one character ---------- *)
Lemma unescape_other c t m : c <> 37 ->
  unescape (c :: t) m =
    if is_host m && (c <? 128) && should_escape c MHost then None
    else match unescape t m with
         | Some r => Some ((if (c =? 43) && is_query m then 32 else c) :: r)
         | None => None
         end.
Proof.
  intros H. destruct c as [|p]; [reflexivity|].
  do 6 (destruct p as [p|p|]; try reflexivity). congruence.
Qed.

Lemma unescape_pct a b t m :
  unescape (37 :: a :: b :: t) m =
    if ishex a && ishex b then
      if is_host m && (unhex a <? 8) && negb ((a =? 50) && (b =? 53)) then None
      else match unescape t m with Some r => Some ((unhex a * 16 + unhex b) :: r) | None => None end
    else None.
Proof. reflexivity. Qed.

(** escape then unescape, one byte at a time; [me] is the escaping mode, [mu] the unescaping one *)
Definition byte_roundtrip_ok (me mu : mode) (c : N) : bool :=
  negb (is_host mu) &&
  match escape_byte me c with
  | [x] => negb (x =? 37) && N.eqb (if (x =? 43) && is_query mu then 32 else x) c
  | [p; a; b] => (p =? 37) && ishex a && ishex b && N.eqb (unhex a * 16 + unhex b) c
  | _ => false
  end.

Lemma byte_roundtrip me mu c t r :
  byte_roundtrip_ok me mu c = true -> unescape t mu = Some r -> unescape (escape_byte me c ++ t) mu = Some (c :: r).
Proof.
  unfold byte_roundtrip_ok. intros H Ht. apply andb_true_iff in H. destruct H as [Hh H].
  destruct (escape_byte me c) as [|x [|a [|b [|z l]]]]; try discriminate.
  - apply andb_true_iff in H. destruct H as [H1 H2]. apply N.eqb_eq in H2.
    cbn [app]. rewrite unescape_other by (intros E; subst; discriminate).
    destruct (is_host mu); [discriminate|]. cbn [andb]. rewrite Ht, H2. reflexivity.
  - rewrite !andb_true_iff in H. destruct H as [[[H0 H1] H2] H3]. apply N.eqb_eq in H0, H3. subst x.
    cbn [app]. rewrite unescape_pct, H1, H2. cbn [andb].
    destruct (is_host mu); [discriminate|]. cbn [andb]. rewrite Ht, H3. reflexivity.
Qed.

Lemma sweep_pathseg : forallb (byte_roundtrip_ok MPathSegment MPath) all_bytes = true.
Proof. vm_compute. reflexivity. Qed.
Lemma sweep_query : forallb (byte_roundtrip_ok MQuery MQuery) all_bytes = true.
Proof. vm_compute. reflexivity. Qed.

Lemma unescape_escape me mu s :
  (forall c, c < 256 -> byte_roundtrip_ok me mu c = true) -> wfb s -> unescape (escape s me) mu = Some s.
Proof.
  intros Hb. induction s as [|c t IH]; intros Hwf; [reflexivity|].
  unfold wfb in Hwf. apply Forall_cons_iff in Hwf. destruct Hwf as [Hc Ht].
  unfold escape. cbn [flat_map]. apply byte_roundtrip; [apply Hb; exact Hc|apply IH; exact Ht].
Qed.

Theorem unescape_escape_pathseg s : wfb s -> unescape (escape s MPathSegment) MPath = Some s.
Proof. apply unescape_escape. apply sweep. exact sweep_pathseg. Qed.
Theorem unescape_escape_query s : wfb s -> unescape (escape s MQuery) MQuery = Some s.
Proof. apply unescape_escape. apply sweep. exact sweep_query. Qed.

(** a '/' in front does not disturb it *)
Lemma unescape_slash s m r : unescape s m = Some r -> is_host m = false -> unescape (47 :: s) m = Some (47 :: r).
Proof.
  intros H Hh. rewrite unescape_other by discriminate. rewrite Hh, H. cbn [andb]. reflexivity.
Qed.

(** ---------- escaped text contains no delimiter ---------- *)
Definition bytes_avoid (bad : N -> bool) (l : bytes) : bool := forallb (fun x => negb (bad x)) l.
Lemma escape_avoids me bad s :
  (forall c, c < 256 -> bytes_avoid bad (escape_byte me c) = true) -> wfb s -> bytes_avoid bad (escape s me) = true.
Proof.
  intros Hb. induction s as [|c t IH]; intros Hwf; [reflexivity|].
  unfold wfb in Hwf. apply Forall_cons_iff in Hwf. destruct Hwf as [Hc Ht].
  unfold escape, bytes_avoid. cbn [flat_map]. rewrite forallb_app. apply andb_true_iff. split; [apply Hb; exact Hc|apply IH; exact Ht].
Qed.

(** delimiters of the textual URL that must not occur in an escaped label: control bytes, DEL,
    '#', '/', '?'; and in an escaped query value: also '&', ';', '=' (and '#', '?') *)
Definition bad_in_label (x : N) : bool := (x <? 32) || (x =? 127) || (x =? 35) || (x =? 47) || (x =? 63) || (128 <=? x).
Definition bad_in_value (x : N) : bool := (x <? 32) || (x =? 127) || (x =? 35) || (x =? 38) || (x =? 59) || (x =? 61) || (x =? 63) || (128 <=? x).

Lemma sweep_label_clean : forallb (fun c => bytes_avoid bad_in_label (escape_byte MPathSegment c)) all_bytes = true.
Proof. vm_compute. reflexivity. Qed.
Lemma sweep_value_clean : forallb (fun c => bytes_avoid bad_in_value (escape_byte MQuery c)) all_bytes = true.
Proof. vm_compute. reflexivity. Qed.

Theorem escaped_label_clean s : wfb s -> bytes_avoid bad_in_label (escape s MPathSegment) = true.
Proof. apply escape_avoids. apply (sweep (fun c => bytes_avoid bad_in_label (escape_byte MPathSegment c))). exact sweep_label_clean. Qed.
Theorem escaped_value_clean s : wfb s -> bytes_avoid bad_in_value (escape s MQuery) = true.
Proof. apply escape_avoids. apply (sweep (fun c => bytes_avoid bad_in_value (escape_byte MQuery c))). exact sweep_value_clean. Qed.

(** PathEscape output is always a valid encoding for a path *)
Lemma sweep_valid_encoded : forallb (fun c => valid_encoded (escape_byte MPathSegment c) MPath) all_bytes = true.
Proof. vm_compute. reflexivity. Qed.
Lemma escaped_label_valid s : wfb s -> valid_encoded (escape s MPathSegment) MPath = true.
Proof.
  induction s as [|c t IH]; intros Hwf; [reflexivity|].
  unfold wfb in Hwf. apply Forall_cons_iff in Hwf. destruct Hwf as [Hc Ht].
  unfold escape, valid_encoded. cbn [flat_map]. rewrite forallb_app. apply andb_true_iff. split.
  - apply (sweep (fun c => valid_encoded (escape_byte MPathSegment c) MPath) sweep_valid_encoded c Hc).
  - apply IH. exact Ht.
Qed.

(** ---------- strings.Cut ---------- *)
Lemma cut_at_app sep a b acc : Forall (fun c => c <> sep) a -> cut_at sep (a ++ sep :: b) acc = (rev acc ++ a, b, true).
Proof.
  revert acc. induction a as [|x t IH]; intros acc H; cbn [app cut_at]; rewrite ?frev_rev.
  - rewrite N.eqb_refl, app_nil_r. reflexivity.
  - apply Forall_cons_iff in H. destruct H as [Hx Ht]. destruct (N.eqb_spec x sep); [contradiction|].
    rewrite IH by exact Ht. cbn [rev]. rewrite <- app_assoc. reflexivity.
Qed.
Lemma cut_at_none sep a acc : Forall (fun c => c <> sep) a -> cut_at sep a acc = (rev acc ++ a, [], false).
Proof.
  revert acc. induction a as [|x t IH]; intros acc H; cbn [cut_at]; rewrite ?frev_rev.
  - rewrite app_nil_r. reflexivity.
  - apply Forall_cons_iff in H. destruct H as [Hx Ht]. destruct (N.eqb_spec x sep); [contradiction|].
    rewrite IH by exact Ht. cbn [rev]. rewrite <- app_assoc. reflexivity.
Qed.
Lemma cut1_app sep a b : Forall (fun c => c <> sep) a -> cut1 sep (a ++ sep :: b) = (a, b, true).
Proof. intros H. unfold cut1. rewrite cut_at_app by exact H. reflexivity. Qed.
Lemma cut1_none sep a : Forall (fun c => c <> sep) a -> cut1 sep a = (a, [], false).
Proof. intros H. unfold cut1. rewrite cut_at_none by exact H. reflexivity. Qed.

Lemma avoid_forall bad l (sep : N) : bytes_avoid bad l = true -> bad sep = true -> Forall (fun c => c <> sep) l.
Proof.
  unfold bytes_avoid. rewrite forallb_forall. intros H Hs. apply Forall_forall. intros x Hx E. subst.
  specialize (H _ Hx). rewrite Hs in H. discriminate.
Qed.
Lemma avoid_app bad a b : bytes_avoid bad (a ++ b) = bytes_avoid bad a && bytes_avoid bad b.
Proof. unfold bytes_avoid. apply forallb_app. Qed.
Lemma contains_false c l : Forall (fun x => x <> c) l -> contains c l = false.
Proof.
  intros H. unfold contains. apply Bool.not_true_is_false. intros E. apply existsb_exists in E. destruct E as [x [Hx Hc]].
  apply N.eqb_eq in Hc. subst. rewrite Forall_forall in H. apply (H _ Hx). reflexivity.
Qed.

(** ---------- ParseQuery ---------- *)
Lemma parse_query_aux_app a b cur :
  Forall (fun c => c <> 38) a -> parse_query_aux (a ++ 38 :: b) cur = query_piece (rev cur ++ a) ++ parse_query_aux b [].
Proof.
  revert cur. induction a as [|x t IH]; intros cur H; cbn [app parse_query_aux]; rewrite ?frev_rev.
  - rewrite app_nil_r. reflexivity.
  - apply Forall_cons_iff in H. destruct H as [Hx Ht]. destruct (N.eqb_spec x 38); [contradiction|].
    rewrite IH by exact Ht. cbn [rev]. rewrite <- app_assoc. reflexivity.
Qed.
Lemma parse_query_aux_last a cur : Forall (fun c => c <> 38) a -> parse_query_aux a cur = query_piece (rev cur ++ a).
Proof.
  revert cur. induction a as [|x t IH]; intros cur H; cbn [parse_query_aux]; rewrite ?frev_rev.
  - rewrite app_nil_r. reflexivity.
  - apply Forall_cons_iff in H. destruct H as [Hx Ht]. destruct (N.eqb_spec x 38); [contradiction|].
    rewrite IH by exact Ht. cbn [rev]. rewrite <- app_assoc. reflexivity.
Qed.

(** a piece "key=QueryEscape(value)" with a plain key (the library's keys are constants) *)
Definition plain_key (k : bytes) : Prop :=
  k <> [] /\ bytes_avoid bad_in_value k = true /\ unescape k MQuery = Some k /\ escape k MQuery = k.
Lemma plain_key_no (sep : N) k : plain_key k -> bad_in_value sep = true -> Forall (fun c => c <> sep) k.
Proof. intros [_ [H _]] Hs. apply (avoid_forall bad_in_value); assumption. Qed.

Lemma query_piece_kv k v : plain_key k -> wfb v -> query_piece (k ++ 61 :: escape v MQuery) = [(k, v)].
Proof.
  intros Hk Hv. unfold query_piece.
  pose proof (escaped_value_clean v Hv) as Hc.
  assert (Forall (fun c => c <> 59) (k ++ 61 :: escape v MQuery)) as H59.
  { apply Forall_app. split; [apply plain_key_no; [exact Hk|reflexivity]|].
    constructor; [discriminate|]. apply (avoid_forall bad_in_value); [exact Hc|reflexivity]. }
  rewrite (contains_false 59) by exact H59.
  destruct Hk as [Hne [Hkc [Hu Hek]]].
  destruct (k ++ 61 :: escape v MQuery) as [|x l] eqn:E; [destruct k; discriminate|]. rewrite <- E.
  rewrite cut1_app by (apply (avoid_forall bad_in_value); [exact Hkc|reflexivity]).
  rewrite Hu, unescape_escape_query by exact Hv. reflexivity.
Qed.

(** ---------- Values.Encode followed by ParseQuery ---------- *)
Definition good_pair (kv : bytes * bytes) : Prop := plain_key (fst kv) /\ wfb (snd kv).

Lemma encode_pairs_false l : encode_pairs false l = match l with [] => [] | _ => 38 :: encode_pairs true l end.
Proof. destruct l as [|[k v] t]; reflexivity. Qed.

Lemma piece_no_amp k v : plain_key k -> wfb v -> Forall (fun c => c <> 38) (k ++ 61 :: escape v MQuery).
Proof.
  intros Hk Hv. apply Forall_app. split; [apply plain_key_no; [exact Hk|reflexivity]|].
  constructor; [discriminate|]. apply (avoid_forall bad_in_value); [apply escaped_value_clean; exact Hv|reflexivity].
Qed.

Theorem parse_query_encode l : Forall good_pair l -> parse_query (encode_pairs true l) = l.
Proof.
  unfold parse_query. induction l as [|[k v] t IH]; intros H; [reflexivity|].
  apply Forall_cons_iff in H. destruct H as [[Hk Hv] Ht]. cbn [fst snd] in *.
  assert (escape k MQuery = k) as Hek by apply Hk.
  cbn [encode_pairs app]. rewrite Hek, encode_pairs_false.
  destruct t as [|kv t'].
  - rewrite app_nil_r.
    change (k ++ [61] ++ escape v MQuery) with (k ++ 61 :: escape v MQuery).
    rewrite parse_query_aux_last by (apply piece_no_amp; assumption).
    cbn [rev app]. apply query_piece_kv; assumption.
  - replace (k ++ 61 :: escape v MQuery ++ 38 :: encode_pairs true (kv :: t'))
      with ((k ++ 61 :: escape v MQuery) ++ 38 :: encode_pairs true (kv :: t')) by (rewrite <- app_assoc; reflexivity).
    rewrite parse_query_aux_app by (apply piece_no_amp; assumption).
    cbn [rev app]. rewrite query_piece_kv by assumption. cbn [app]. f_equal. apply IH. exact Ht.
Qed.

(** the encoded query is free of the URL's other delimiters *)
Definition bad_in_query (x : N) : bool := (x <? 32) || (x =? 127) || (x =? 35) || (x =? 63) || (128 <=? x).
Lemma value_clean_query l : bytes_avoid bad_in_value l = true -> bytes_avoid bad_in_query l = true.
Proof.
  unfold bytes_avoid. rewrite !forallb_forall. intros H x Hx. specialize (H x Hx). unfold bad_in_value, bad_in_query in *. lia.
Qed.
Lemma encode_pairs_clean first l : Forall good_pair l -> bytes_avoid bad_in_query (encode_pairs first l) = true.
Proof.
  revert first. induction l as [|[k v] t IH]; intros first H; [reflexivity|].
  apply Forall_cons_iff in H. destruct H as [[Hk Hv] Ht]. cbn [fst snd] in *.
  assert (escape k MQuery = k) as Hek by apply Hk.
  cbn [encode_pairs]. rewrite !avoid_app, IH by exact Ht. rewrite Hek.
  rewrite (value_clean_query k) by apply Hk.
  rewrite (value_clean_query _ (escaped_value_clean v Hv)).
  destruct first; reflexivity.
Qed.

(** ---------- URL.String followed by url.Parse on the URLs the library builds ---------- *)
Lemma has_ctl_avoid bad l : (forall x, (x <? 32) || (x =? 127) = true -> bad x = true) -> bytes_avoid bad l = true -> has_ctl l = false.
Proof.
  intros Hb H. unfold has_ctl. apply Bool.not_true_is_false. intros E. apply existsb_exists in E. destruct E as [x [Hx Hc]].
  unfold bytes_avoid in H. rewrite forallb_forall in H. specialize (H x Hx). rewrite (Hb x Hc) in H. discriminate.
Qed.
Lemma has_ctl_app a b : has_ctl (a ++ b) = has_ctl a || has_ctl b.
Proof. unfold has_ctl. apply existsb_app. Qed.

Lemma rev_head_last (a q : bytes) x : q <> [] -> Forall (fun c => c <> x) q ->
  match rev (a ++ q) with y :: _ => y =? x | [] => false end = false.
Proof.
  intros Hne Hq. destruct (exists_last Hne) as [l [z E]]. subst q.
  rewrite app_assoc, rev_app_distr. cbn [rev app].
  apply Forall_app in Hq. destruct Hq as [_ Hz]. apply Forall_cons_iff in Hz. destruct Hz as [Hz _].
  apply N.eqb_neq. exact Hz.
Qed.

Definition otp_kind (k : bytes) : Prop := k = s2b "totp" \/ k = s2b "hotp".

Lemma string_of_generated kind label q :
  otp_kind kind -> wfb label -> q <> [] ->
  url_string (mkUrl (s2b "otpauth") [] false kind (47 :: label) (47 :: escape label MPathSegment) false q [])
  = s2b "otpauth://" ++ kind ++ 47 :: escape label MPathSegment ++ 63 :: q.
Proof.
  intros Hk Hl Hq.
  pose proof (escaped_label_valid label Hl) as Hvalid.
  pose proof (unescape_escape_pathseg label Hl) as Hun.
  set (esc := escape label MPathSegment) in *. clearbody esc.
  unfold url_string. cbn [u_scheme u_opaque u_forcequery u_rawquery u_host u_path u_fragment].
  assert (escaped_path (mkUrl (s2b "otpauth") [] false kind (47 :: label) (47 :: esc) false q []) = 47 :: esc) as Hep.
  { unfold escaped_path. cbn [u_rawpath u_path].
    replace (valid_encoded (47 :: esc) MPath) with true by (symmetry; exact Hvalid).
    rewrite (unescape_slash esc MPath label Hun eq_refl). rewrite beq_refl. reflexivity. }
  rewrite Hep.
  destruct q as [|q0 q']; [congruence|].
  destruct Hk as [-> | ->]; cbn; rewrite ?app_nil_r; reflexivity.
Qed.

Lemma parse_of_text kind label q :
  otp_kind kind -> wfb label -> q <> [] -> bytes_avoid bad_in_query q = true ->
  exists rp, url_parse (s2b "otpauth://" ++ kind ++ 47 :: escape label MPathSegment ++ 63 :: q)
             = POk (mkUrl (s2b "otpauth") [] false kind (47 :: label) rp false q []).
Proof.
  intros Hk Hl Hq Hqc.
  pose proof (escaped_label_clean label Hl) as Hclean.
  pose proof (unescape_escape_pathseg label Hl) as Hun.
  set (esc := escape label MPathSegment) in *. clearbody esc.
  assert (forall sep, bad_in_label sep = true -> bad_in_query sep = true -> ~ In sep (s2b "otpauth://" ++ kind) -> sep <> 47 -> sep <> 63 ->
          Forall (fun c => c <> sep) (s2b "otpauth://" ++ kind ++ 47 :: esc ++ 63 :: q)) as Hno.
  { intros sep B1 B2 Hin H47 H63. rewrite app_assoc. apply Forall_app. split; [apply Forall_forall; intros x Hx E; subst; contradiction|].
    constructor; [congruence|]. apply Forall_app. split; [apply (avoid_forall bad_in_label); assumption|].
    constructor; [congruence|apply (avoid_forall bad_in_query); assumption]. }
  unfold url_parse.
  rewrite cut1_none.
  2:{ apply Hno; try reflexivity; try discriminate. destruct Hk as [-> | ->]; vm_compute; intuition discriminate. }
  assert (has_ctl (s2b "otpauth://" ++ kind ++ 47 :: esc ++ 63 :: q) = false) as Hctl.
  { rewrite app_assoc, has_ctl_app. replace (has_ctl (s2b "otpauth://" ++ kind)) with false by (destruct Hk as [-> | ->]; reflexivity).
    cbn [orb]. change (47 :: esc ++ 63 :: q) with ([47] ++ esc ++ [63] ++ q). rewrite !has_ctl_app.
    rewrite (has_ctl_avoid bad_in_label esc) by (try exact Hclean; intros x Hx; unfold bad_in_label; lia).
    rewrite (has_ctl_avoid bad_in_query q) by (try exact Hqc; intros x Hx; unfold bad_in_query; lia). reflexivity. }
  unfold url_parse_nofrag. rewrite Hctl.
  replace (beq (s2b "otpauth://" ++ kind ++ 47 :: esc ++ 63 :: q) [42]) with false by reflexivity.
  replace (get_scheme (s2b "otpauth://" ++ kind ++ 47 :: esc ++ 63 :: q))
    with (Some (s2b "otpauth", s2b "//" ++ kind ++ 47 :: esc ++ 63 :: q)) by reflexivity.
  replace (to_lower (s2b "otpauth")) with (s2b "otpauth") by reflexivity.
  (* the trailing-'?' special case does not apply: the query is non-empty and has no '?' *)
  assert (Forall (fun c => c <> 63) q) as Hq63 by (apply (avoid_forall bad_in_query); [exact Hqc|reflexivity]).
  assert ((match frev (s2b "//" ++ kind ++ 47 :: esc ++ 63 :: q) with 63 :: _ => true | _ => false end) = false) as Hsuf.
  { rewrite frev_rev. pose proof (rev_head_last (s2b "//" ++ kind ++ 47 :: esc ++ [63]) q 63 Hq Hq63) as R.
    replace ((s2b "//" ++ kind ++ 47 :: esc ++ [63]) ++ q) with (s2b "//" ++ kind ++ 47 :: esc ++ 63 :: q) in R
      by (repeat first [rewrite <- app_assoc | progress (cbn [app])]; reflexivity).
    destruct (rev (s2b "//" ++ kind ++ 47 :: esc ++ 63 :: q)) as [|y l]; [reflexivity|].
    destruct (N.eqb_spec y 63) as [->|Hy]; [discriminate|].
    destruct y as [|p]; [reflexivity|]. do 6 (destruct p as [p|p|]; try reflexivity). congruence. }
  rewrite Hsuf. cbn [andb].
  replace (s2b "//" ++ kind ++ 47 :: esc ++ 63 :: q) with ((s2b "//" ++ kind ++ 47 :: esc) ++ 63 :: q)
    by (repeat first [rewrite <- app_assoc | progress (cbn [app])]; reflexivity).
  rewrite cut1_app.
  2:{ apply Forall_app. split; [norm_s2b; repeat constructor; discriminate|].
      apply Forall_app. split; [destruct Hk as [-> | ->]; norm_s2b; repeat constructor; discriminate|].
      constructor; [discriminate|]. apply (avoid_forall bad_in_label); [exact Hclean|reflexivity]. }
  destruct Hk as [-> | ->].
  - replace (has_prefix [47] (s2b "//" ++ s2b "totp" ++ 47 :: esc)) with true by reflexivity.
    cbn [negb andb].
    replace (nonempty (s2b "otpauth")) with true by reflexivity. cbn [orb].
    replace (has_prefix [47; 47] (s2b "//" ++ s2b "totp" ++ 47 :: esc)) with true by reflexivity. cbn [andb].
    replace (skipn 2 (s2b "//" ++ s2b "totp" ++ 47 :: esc)) with (s2b "totp" ++ 47 :: esc) by reflexivity.
    rewrite cut1_app by (norm_s2b; repeat constructor; discriminate).
    replace (parse_authority (s2b "totp")) with (Some (Some (false, s2b "totp"))) by reflexivity.
    rewrite (unescape_slash esc MPath label Hun eq_refl).
    eexists. reflexivity.
  - replace (has_prefix [47] (s2b "//" ++ s2b "hotp" ++ 47 :: esc)) with true by reflexivity.
    cbn [negb andb].
    replace (nonempty (s2b "otpauth")) with true by reflexivity. cbn [orb].
    replace (has_prefix [47; 47] (s2b "//" ++ s2b "hotp" ++ 47 :: esc)) with true by reflexivity. cbn [andb].
    replace (skipn 2 (s2b "//" ++ s2b "hotp" ++ 47 :: esc)) with (s2b "hotp" ++ 47 :: esc) by reflexivity.
    rewrite cut1_app by (norm_s2b; repeat constructor; discriminate).
    replace (parse_authority (s2b "hotp")) with (Some (Some (false, s2b "hotp"))) by reflexivity.
    rewrite (unescape_slash esc MPath label Hun eq_refl).
    eexists. reflexivity.
Qed.

(** ---------- the round trip ---------- *)
Definition wf_param (p : urlparam) : Prop :=
  up_issuer p <> [] /\ wfb (up_issuer p) /\ Forall (fun c => c <> 58) (up_issuer p) /\
  up_account p <> [] /\ wfb (up_account p) /\ up_secret p <> [] /\ wfb (up_secret p) /\
  up_alg p < 3 /\ up_digits p < 256 /\ up_period p < two63.

Definition eff_digits (p : urlparam) : N := if up_digits p =? 0 then 6 else up_digits p.
Definition eff_url_period (p : urlparam) : N := if up_period p =? 0 then 30 else up_period p.

Lemma nonempty_true s : s <> [] -> nonempty s = true.
Proof. destruct s; [congruence|reflexivity]. Qed.

Lemma dec_of_N_wf n : wfb (dec_of_N n).
Proof.
  destruct (dec_of_N_spec n) as [_ [H _]]. unfold wfb, digits_only in *. eapply Forall_impl; [|exact H]. intros a Ha. cbv beta in Ha. lia.
Qed.

Lemma plain_const k : k <> [] -> bytes_avoid bad_in_value k = true -> unescape k MQuery = Some k -> escape k MQuery = k -> plain_key k.
Proof. intros. repeat split; assumption. Qed.

Lemma alg_string_wf a : wfb (alg_string a).
Proof. destruct a as [|[[|[]|]|[]|]]; vm_compute; repeat constructor. Qed.

(** parsing the label "Issuer:Account" back *)
Lemma label_cut issuer account : Forall (fun c => c <> 58) issuer -> cut1 58 (issuer ++ 58 :: account) = (issuer, account, true).
Proof. apply cut1_app. Qed.

Lemma atoi_dec n : n < two63 -> atoi (dec_of_N n) = Some (Z.of_N n).
Proof. intros H. rewrite atoi_dec_of_N. apply N.ltb_lt in H. rewrite H. reflexivity. Qed.

Lemma dec_nonempty n : exists c t, dec_of_N n = c :: t.
Proof. destruct (dec_of_N_spec n) as [H _]. destruct (dec_of_N n) as [|c t]; [congruence|eauto]. Qed.

Theorem roundtrip_totp p : wf_param p ->
  exists u u', generate_totp_url p = Ok u /\ u_scheme u = s2b "otpauth" /\ u_host u = s2b "totp" /\
               url_parse (url_string u) = POk u' /\ u_scheme u' = s2b "otpauth" /\ u_host u' = s2b "totp" /\
               parse_otpauth_url (Some u') =
               Ok (mkUrlParam (up_issuer p) (up_account p) (eff_url_period p) (up_secret p) (eff_digits p) (up_alg p)).
Proof.
  intros [Hi [Hiw [Hic [Ha [Haw [Hs [Hsw [Halg [Hdig Hper]]]]]]]]].
  unfold generate_totp_url, generate_otp_url.
  rewrite (nonempty_true _ Hi), (nonempty_true _ Ha), (nonempty_true _ Hs). cbn [negb].
  change totp_url_zero_period with (Some 30). fold (eff_url_period p). fold (eff_digits p).
  set (label := up_issuer p ++ [58] ++ up_account p).
  set (pairs := [(s2b "algorithm", alg_string (up_alg p)); (s2b "digits", dec_of_N (eff_digits p)); (s2b "issuer", up_issuer p);
                 (s2b "period", dec_of_N (eff_url_period p)); (s2b "secret", up_secret p)]).
  assert (Forall good_pair pairs) as Hgood.
  { unfold pairs. repeat constructor; cbn [fst snd]; try (apply plain_const; [discriminate|reflexivity|reflexivity|reflexivity]);
      try assumption; try apply dec_of_N_wf; apply alg_string_wf. }
  assert (wfb label) as Hlw.
  { unfold label. apply wfb_app; [exact Hiw|]. apply wfb_app; [repeat constructor|exact Haw]. }
  eexists. 
  pose proof (parse_of_text (s2b "totp") label (encode_pairs true pairs) (or_introl eq_refl) Hlw) as HP.
  destruct HP as [rp HP]; [discriminate|apply encode_pairs_clean; exact Hgood|].
  eexists. split; [reflexivity|]. split; [reflexivity|]. split; [reflexivity|].
  split.
  { rewrite string_of_generated; [|left; reflexivity|exact Hlw|discriminate]. exact HP. }
  split; [reflexivity|]. split; [reflexivity|].
  unfold parse_otpauth_url, strip_slash. cbn [u_scheme u_host u_path u_rawquery].
  replace (beq (s2b "otpauth") (s2b "otpauth")) with true by reflexivity.
  replace (to_lower (s2b "totp")) with (s2b "totp") by reflexivity.
  replace (beq (s2b "totp") (s2b "totp")) with true by reflexivity. cbn [negb andb].
  unfold label. change (up_issuer p ++ [58] ++ up_account p) with (up_issuer p ++ 58 :: up_account p).
  rewrite label_cut by exact Hic. cbn [negb].
  rewrite (parse_query_encode pairs Hgood).
  unfold pairs.
  replace (query_get (s2b "digits") _) with (dec_of_N (eff_digits p)) by reflexivity.
  replace (query_get (s2b "algorithm") _) with (alg_string (up_alg p)) by reflexivity.
  replace (query_get (s2b "period") _) with (dec_of_N (eff_url_period p)) by reflexivity.
  replace (query_get (s2b "secret") _) with (up_secret p) by reflexivity.
  assert (eff_digits p < 256) as Hd by (unfold eff_digits; destruct (up_digits p =? 0); lia).
  assert (eff_url_period p < two63) as Hp' by (unfold eff_url_period, two63 in *; destruct (up_period p =? 0); lia).
  destruct (dec_nonempty (eff_digits p)) as [c1 [t1 E1]]. rewrite E1. rewrite <- E1.
  rewrite atoi_dec by (unfold two63; lia).
  replace ((0 <=? Z.of_N (eff_digits p))%Z && (Z.of_N (eff_digits p) <=? 255)%Z) with true by lia.
  rewrite N2Z.id.
  destruct (dec_nonempty (eff_url_period p)) as [c2 [t2 E2]]. rewrite E2. rewrite <- E2.
  rewrite atoi_dec by exact Hp'.
  replace (0 <=? Z.of_N (eff_url_period p))%Z with true by lia. rewrite N2Z.id.
  assert (up_alg p = 0 \/ up_alg p = 1 \/ up_alg p = 2) as Hcase by lia.
  destruct Hcase as [E|[E|E]]; rewrite E; reflexivity.
Qed.

Theorem roundtrip_hotp p : wf_param p ->
  exists u u', generate_hotp_url p = Ok u /\ u_scheme u = s2b "otpauth" /\ u_host u = s2b "hotp" /\
               url_parse (url_string u) = POk u' /\ u_scheme u' = s2b "otpauth" /\ u_host u' = s2b "hotp" /\
               parse_otpauth_url (Some u') =
               Ok (mkUrlParam (up_issuer p) (up_account p) 30 (up_secret p) (eff_digits p) (up_alg p)).
Proof.
  intros [Hi [Hiw [Hic [Ha [Haw [Hs [Hsw [Halg [Hdig Hper]]]]]]]]].
  unfold generate_hotp_url, generate_otp_url.
  rewrite (nonempty_true _ Hi), (nonempty_true _ Ha), (nonempty_true _ Hs). cbn [negb].
  fold (eff_digits p).
  set (label := up_issuer p ++ [58] ++ up_account p).
  set (pairs := [(s2b "algorithm", alg_string (up_alg p)); (s2b "counter", s2b "0"); (s2b "digits", dec_of_N (eff_digits p)); (s2b "issuer", up_issuer p); (s2b "secret", up_secret p)]).
  assert (Forall good_pair pairs) as Hgood.
  { unfold pairs. repeat constructor; cbn [fst snd]; try (apply plain_const; [discriminate|reflexivity|reflexivity|reflexivity]);
      try assumption; try apply dec_of_N_wf; try apply alg_string_wf; repeat constructor. }
  assert (wfb label) as Hlw.
  { unfold label. apply wfb_app; [exact Hiw|]. apply wfb_app; [repeat constructor|exact Haw]. }
  eexists. 
  pose proof (parse_of_text (s2b "hotp") label (encode_pairs true pairs) (or_intror eq_refl) Hlw) as HP.
  destruct HP as [rp HP]; [discriminate|apply encode_pairs_clean; exact Hgood|].
  eexists. split; [reflexivity|]. split; [reflexivity|]. split; [reflexivity|].
  split.
  { rewrite string_of_generated; [|right; reflexivity|exact Hlw|discriminate]. exact HP. }
  split; [reflexivity|]. split; [reflexivity|].
  unfold parse_otpauth_url, strip_slash. cbn [u_scheme u_host u_path u_rawquery].
  replace (beq (s2b "otpauth") (s2b "otpauth")) with true by reflexivity.
  replace (to_lower (s2b "hotp")) with (s2b "hotp") by reflexivity.
  replace (beq (s2b "hotp") (s2b "totp")) with false by reflexivity.
  replace (beq (s2b "hotp") (s2b "hotp")) with true by reflexivity. cbn [negb andb].
  unfold label. change (up_issuer p ++ [58] ++ up_account p) with (up_issuer p ++ 58 :: up_account p).
  rewrite label_cut by exact Hic. cbn [negb].
  rewrite (parse_query_encode pairs Hgood).
  unfold pairs.
  replace (query_get (s2b "digits") _) with (dec_of_N (eff_digits p)) by reflexivity.
  replace (query_get (s2b "algorithm") _) with (alg_string (up_alg p)) by reflexivity.
  replace (query_get (s2b "period") _) with (@nil N) by reflexivity.
  replace (query_get (s2b "secret") _) with (up_secret p) by reflexivity.
  assert (eff_digits p < 256) as Hd by (unfold eff_digits; destruct (up_digits p =? 0); lia).
  destruct (dec_nonempty (eff_digits p)) as [c1 [t1 E1]]. rewrite E1. rewrite <- E1.
  rewrite atoi_dec by (unfold two63; lia).
  replace ((0 <=? Z.of_N (eff_digits p))%Z && (Z.of_N (eff_digits p) <=? 255)%Z) with true by lia.
  rewrite N2Z.id.
  assert (up_alg p = 0 \/ up_alg p = 1 \/ up_alg p = 2) as Hcase by lia.
  destruct Hcase as [E|[E|E]]; rewrite E; reflexivity.
Qed.

(** ---------- parsing returns exactly the numbers written ---------- *)
Theorem parse_numbers_exact u p :
  parse_otpauth_url (Some u) = Ok p ->
  let q := parse_query (u_rawquery u) in
  (query_get (s2b "digits") q = [] /\ up_digits p = 6 \/
   exists z, atoi (query_get (s2b "digits") q) = Some z /\ (0 <= z <= 255)%Z /\ Z.of_N (up_digits p) = z) /\
  (query_get (s2b "period") q = [] /\ up_period p = 30 \/
   exists z, atoi (query_get (s2b "period") q) = Some z /\ (0 <= z)%Z /\ Z.of_N (up_period p) = z).
Proof.
  unfold parse_otpauth_url, strip_slash. intros H.
  destruct (negb (beq (u_scheme u) (s2b "otpauth"))); [discriminate|].
  destruct (negb (beq (to_lower (u_host u)) (s2b "totp")) && negb (beq (to_lower (u_host u)) (s2b "hotp")));
    [destruct (all_ascii (u_host u)); discriminate|].
  destruct (cut1 58 _) as [[issuer account] found]. destruct (negb found); [discriminate|].
  cbv zeta. set (q := parse_query (u_rawquery u)) in *.
  destruct (query_get (s2b "digits") q) as [|d0 dt] eqn:Ed.
  - match type of H with context [match ?X with Some alg => _ | None => Err (EFmt T_url_alg _ _) end] => destruct X as [alg|]; [|discriminate] end.
    destruct (query_get (s2b "period") q) as [|p0 pt] eqn:Ep.
    + inversion H. subst p. cbn. split; left; split; reflexivity.
    + destruct (atoi (p0 :: pt)) as [z|] eqn:Ez; [|discriminate].
      destruct (0 <=? z)%Z eqn:Ezz; [|discriminate]. inversion H. subst p. cbn.
      split; [left; split; reflexivity|right; exists z; repeat split; lia].
  - destruct (atoi (d0 :: dt)) as [zd|] eqn:Ezd; [|discriminate].
    destruct ((0 <=? zd)%Z && (zd <=? 255)%Z) eqn:Er; [|discriminate].
    match type of H with context [match ?X with Some alg => _ | None => Err (EFmt T_url_alg _ _) end] => destruct X as [alg|]; [|discriminate] end.
    destruct (query_get (s2b "period") q) as [|p0 pt] eqn:Ep.
    + inversion H. subst p. cbn. split; [right; exists zd; repeat split; lia|left; split; reflexivity].
    + destruct (atoi (p0 :: pt)) as [z|] eqn:Ez; [|discriminate].
      destruct (0 <=? z)%Z eqn:Ezz; [|discriminate]. inversion H. subst p. cbn.
      split; right; [exists zd|exists z]; repeat split; lia.
Qed.

(** Atoi returns the integer written: for a decimal numeral with optional sign, its value *)
Definition atoi_core (neg : bool) (ds : bytes) : option Z :=
  match ds with
  | [] => None
  | _ => if forallb is_dec_digit ds then
           let v := dec_val ds in
           if neg then (if v <=? two63 then Some (- Z.of_N v)%Z else None)
           else (if v <? two63 then Some (Z.of_N v) else None)
         else None
  end.
Lemma atoi_minus t : atoi (45 :: t) = atoi_core true t.
Proof. reflexivity. Qed.
Lemma atoi_plus t : atoi (43 :: t) = atoi_core false t.
Proof. reflexivity. Qed.
Lemma atoi_nosign c t : c <> 45 -> c <> 43 -> atoi (c :: t) = atoi_core false (c :: t).
Proof.
  intros H1 H2. unfold atoi, atoi_core. destruct c as [|q]; [reflexivity|].
  do 6 (destruct q as [q|q|]; try reflexivity); congruence.
Qed.
Lemma atoi_core_value neg ds z : atoi_core neg ds = Some z ->
  ds <> [] /\ forallb is_dec_digit ds = true /\ z = (if neg then - Z.of_N (dec_val ds) else Z.of_N (dec_val ds))%Z.
Proof.
  unfold atoi_core. intros Hd. destruct ds as [|c t]; [discriminate|]. destruct (forallb is_dec_digit (c :: t)); [|discriminate].
  cbv zeta in Hd. split; [discriminate|]. split; [reflexivity|].
  destruct neg; [destruct (_ <=? _)|destruct (_ <? _)]; inversion Hd; reflexivity.
Qed.

Theorem atoi_value s z : atoi s = Some z ->
  exists ds, ds <> [] /\ forallb is_dec_digit ds = true /\
             (s = ds /\ z = Z.of_N (dec_val ds) \/ s = 43 :: ds /\ z = Z.of_N (dec_val ds) \/ s = 45 :: ds /\ z = (- Z.of_N (dec_val ds))%Z).
Proof.
  intros H. destruct s as [|c t]; [discriminate|].
  destruct (N.eqb_spec c 45) as [->|H45]; [|destruct (N.eqb_spec c 43) as [->|H43]].
  - rewrite atoi_minus in H. apply atoi_core_value in H. destruct H as [H1 [H2 H3]]. exists t. repeat split; auto.
  - rewrite atoi_plus in H. apply atoi_core_value in H. destruct H as [H1 [H2 H3]]. exists t. repeat split; auto.
  - rewrite atoi_nosign in H by assumption. apply atoi_core_value in H. destruct H as [H1 [H2 H3]]. exists (c :: t). repeat split; auto.
Qed.
