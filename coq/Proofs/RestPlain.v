(** Every endpoint other than /otp/secret and / answers with a payload the model holds completely (a code, a verdict,
    a URL, the suite list, a suite description, an error, a text): the two payloads whose content lives outside the
    model (the fresh secret, the home page) occur nowhere else. *)
From Coq Require Import String.
From OtpV Require Import Prelude Sha Errors Decoder Derive Otp Ocra Utils Random Suite Url Rest RestProofs.
Open Scope N_scope.

Definition plain (x : response * nat) : Prop := match pay (fst x) with PSecret _ | PHome => False | _ => True end.

Ltac pb := unfold err400, err400b, err500, not_allowed, decode_failed, recovered_panic, plain; cbn; exact I.

Section WithNow.
  Variable now : Z.

  Lemma plain_totp_generation r : plain (totp_generation now r).
  Proof.
    unfold totp_generation. destruct (negb (is_post _)); [pb|]. destruct (body_fields _); [|pb].
    destruct (decode_gen_req _); [|pb]. unfold totp_generation_core. destruct (blank _); [pb|]. cbv zeta.
    destruct (generate_totp _ _ _); pb.
  Qed.
  Lemma plain_hotp_generation r : plain (hotp_generation r).
  Proof.
    unfold hotp_generation. destruct (negb (is_post _)); [pb|]. destruct (body_fields _); [|pb].
    destruct (decode_gen_req _); [|pb]. unfold hotp_generation_core. destruct (blank _); [pb|].
    destruct (generate_hotp _ _ _); pb.
  Qed.
  Lemma plain_totp_validation r : plain (totp_validation now r).
  Proof.
    unfold totp_validation. destruct (negb (is_post _)); [pb|]. destruct (body_fields _); [|pb].
    destruct (decode_val_req _); [|pb]. unfold totp_validation_core. destruct (blank _); [pb|]. destruct (blank _); [pb|]. cbv zeta.
    destruct (verdict_bool _); pb.
  Qed.
  Lemma plain_hotp_validation r : plain (hotp_validation r).
  Proof.
    unfold hotp_validation. destruct (negb (is_post _)); [pb|]. destruct (body_fields _); [|pb].
    destruct (decode_val_req _); [|pb]. unfold hotp_validation_core. destruct (blank _); [pb|]. destruct (blank _); [pb|]. cbv zeta.
    destruct (verdict_bool _); pb.
  Qed.
  Lemma plain_otp_url r : plain (otp_url_generation r).
  Proof.
    unfold otp_url_generation. destruct (negb (is_post _)); [pb|]. destruct (body_fields _) as [f|]; [|pb].
    destruct (dec_string (field "type" f)); [|pb]. destruct (dec_string (field "secret" f)); [|pb].
    destruct (dec_string (field "issuer" f)); [|pb]. destruct (dec_string (field "account_name" f)); [|pb].
    destruct (dec_uint64 (field "period" f)); [|pb]. destruct (dec_string (field "digits" f)); [|pb].
    destruct (dec_string (field "algorithm" f)); [|pb].
    repeat (destruct (blank _); [pb|]). cbv zeta.
    destruct (beq _ (s2b "totp")); [destruct (generate_totp_url _); pb|].
    destruct (beq _ (s2b "hotp")); [destruct (generate_hotp_url _); pb|pb].
  Qed.
  Lemma plain_ocra_prepare secret code raw need suite input :
    match ocra_prepare secret code raw need suite input with inr e => plain e | inl _ => True end.
  Proof.
    unfold ocra_prepare. destruct (blank secret); [pb|]. destruct (need && blank code); [pb|].
    destruct (blank raw && _); [pb|]. destruct (negb (blank raw) && _); [pb|].
    destruct input as [hin|]; [|pb].
    destruct suite as [cfg|].
    - destruct (new_suite cfg); try pb.
      destruct raw; [|destruct (new_raw_suite _); try pb]; destruct (hex_input_to_ocra _ _ _ _ _); try pb; exact I.
    - destruct raw; [pb|]. destruct (new_raw_suite _); try pb. destruct (hex_input_to_ocra _ _ _ _ _); try pb; exact I.
  Qed.
  Lemma plain_ocra_generation r : plain (ocra_generation r).
  Proof.
    unfold ocra_generation. destruct (negb (is_post _)); [pb|]. destruct (body_fields _) as [f|]; [|pb].
    destruct (decode_ocra_common false f) as [[[[[sec code] raw] suite] input]|]; [|pb].
    pose proof (plain_ocra_prepare sec [] raw false suite input) as Hp.
    destruct (ocra_prepare sec [] raw false suite input) as [[cfg inp]|e]; [|exact Hp].
    destruct (generate_ocra sec cfg inp); pb.
  Qed.
  Lemma plain_ocra_validation r : plain (ocra_validation r).
  Proof.
    unfold ocra_validation. destruct (negb (is_post _)); [pb|]. destruct (body_fields _) as [f|]; [|pb].
    destruct (decode_ocra_common true f) as [[[[[sec code] raw] suite] input]|]; [|pb].
    pose proof (plain_ocra_prepare sec code raw true suite input) as Hp.
    destruct (ocra_prepare sec code raw true suite input) as [[cfg inp]|e]; [|exact Hp].
    cbv zeta. destruct (verdict_bool _); pb.
  Qed.
  Lemma plain_suites r : plain (list_ocra_suites r) /\ plain (ocra_suite_config r).
  Proof.
    split; [unfold list_ocra_suites; destruct (negb (is_get _)); pb|].
    unfold ocra_suite_config; destruct (negb (is_post _)); [pb|]; destruct (body_fields _) as [f|]; [|pb];
      destruct (dec_string _); [|pb]; destruct (blank _); [pb|]; destruct (negb _); pb.
  Qed.

  Theorem handle_plain r : beq (r_path r) (s2b "/otp/secret") = false -> beq (r_path r) (s2b "/") = false -> plain (handle now r).
  Proof.
    intros Hs Hh. unfold handle. cbv zeta.
    destruct (beq _ (s2b "/docs")); [pb|]. destruct (is_prefix _ _); [pb|].
    destruct (beq _ (s2b "/totp/generate")); [apply plain_totp_generation|].
    destruct (beq _ (s2b "/totp/validate")); [apply plain_totp_validation|].
    destruct (beq _ (s2b "/hotp/generate")); [apply plain_hotp_generation|].
    destruct (beq _ (s2b "/hotp/validate")); [apply plain_hotp_validation|].
    destruct (beq _ (s2b "/ocra/generate")); [apply plain_ocra_generation|].
    destruct (beq _ (s2b "/ocra/validate")); [apply plain_ocra_validation|].
    destruct (beq _ (s2b "/ocra/suites")); [apply plain_suites|].
    destruct (beq _ (s2b "/ocra/suite")); [apply plain_suites|].
    destruct (beq _ (s2b "/otp/url")); [apply plain_otp_url|].
    rewrite Hs, Hh. pb.
  Qed.
End WithNow.
