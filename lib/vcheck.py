"""Driver of the per-property checks (see /verif/DESIGN.md section 5)."""
import argparse, fcntl, glob, hashlib, json, os, re, shutil, subprocess, sys, time
from collections import Counter

ROOT = os.path.dirname(os.path.dirname(os.path.abspath(__file__)))
REPO = os.environ.get('VERIF_REPO', '/repo')
COQ = os.path.join(ROOT, 'coq')
BIN = os.path.join(ROOT, 'bin')
WORK = os.path.join(ROOT, 'work')
# evidence describes /repo: a run against any other tree (seeded changes in a scratch worktree) keeps its record apart
EVIDENCE = os.path.join(ROOT, 'evidence') if os.path.realpath(REPO) == '/repo' else os.path.join(WORK, 'evidence_other_tree')
NCPU = os.cpu_count() or 4

COQ_FLAGS = []
for d in ['Base', 'Hash', 'Generated', 'Spec', 'Model', 'Proofs', 'Properties', 'Findings', 'Extract']:
    COQ_FLAGS += ['-Q', d, 'OtpV']

GOENV = dict(os.environ, GOWORK='off', GOFLAGS='-mod=mod', GOPROXY='off', GOTOOLCHAIN=os.environ.get('GOTOOLCHAIN', 'auto'))
GOENV.pop('GOSUMDB', None)
os.environ['VERIF_LITERALS'] = os.path.join(WORK, 'gen_model.json')   # read by the harness generators

ALLOWED_AXIOMS = set()   # none: every property theorem must be closed under the global context

TRUSTED_BASE = [
    "Coq 8.16.1 kernel (coqc); vm_compute used for finite facts and for running the model; native_compute not used",
    "axioms: none (Print Assumptions under every property theorem: Closed under the global context)",
    "hand-written Gallina model of the Go code (coq/Model/*.v), tied to /repo by this run's differential correspondence and by the regenerated Generated/*.v",
    "translator tools/gen_tables: data items from the report of the library built from the working tree (harness dump), code-shaped facts from go/ast of the entry points or, failing that, from probing the public API; Generated/provenance.json records which",
    "translator tools/gen_ssa (golang.org/x/tools v0.29.0 go/packages + go/ssa): value-flow edge rules per SSA instruction, control dependence (post-dominators), source / barrier / output-function classification are implemented there and are trusted to over-approximate explicit data flow (field- and index-insensitive, flow- and context-insensitive, dynamic calls resolved by signature; table look-ups keyed by data and error values reported by code outside the analysed packages are not tracked)",
    "extraction: ExtrOcamlBasic only (Extract Inductive bool/option/unit/list/prod/sumbool/sumor to OCaml built-ins; no Extract Constant), OCaml driver coq/Extract/runner/run.ml, ocamlfind ocamlopt; a slice of every run is re-evaluated by vm_compute inside Coq",
    "Go toolchain selected by /repo/go.mod, the harness /verif/harness (build tag verif hooks in /repo/verif_hooks.go)",
    "modelled, not verified: Go's crypto/sha1|sha256|sha512|hmac|subtle, encoding/base32, strings, time (each transcribed and differentially checked)",
]


def sh(cmd, cwd=None, env=None, timeout=None, inp=None):
    p = subprocess.run(cmd, cwd=cwd, env=env, timeout=timeout, input=inp, stdout=subprocess.PIPE, stderr=subprocess.STDOUT, text=True)
    return p.returncode, p.stdout


class Lock:
    def __enter__(self):
        os.makedirs(WORK, exist_ok=True)
        self.f = open(os.path.join(ROOT, '.lock'), 'w')
        fcntl.flock(self.f, fcntl.LOCK_EX)
        return self

    def __exit__(self, *a):
        fcntl.flock(self.f, fcntl.LOCK_UN)
        self.f.close()


# ----------------------------------------------------------------------------- builds

def repo_fingerprint():
    """hash over every tracked and untracked source file of /repo's working tree"""
    h = hashlib.sha256()
    rc, out = sh(['git', '-C', REPO, 'ls-files', '-co', '--exclude-standard'])
    for name in sorted(out.split('\n')):
        p = os.path.join(REPO, name)
        if name and os.path.isfile(p):
            h.update(name.encode())
            with open(p, 'rb') as f:
                h.update(hashlib.sha256(f.read()).digest())
    return h.hexdigest()


def build_tools():
    """tools that do not depend on /repo: built once (setup) or on demand"""
    msgs = []
    for tool in ('gen_tables', 'gen_ssa', 'gen_model'):
        src = os.path.join(ROOT, 'tools', tool)
        binp = os.path.join(BIN, tool)
        newest = max(os.path.getmtime(os.path.join(src, f)) for f in os.listdir(src) if f.endswith('.go') or f == 'go.mod')
        if not os.path.exists(binp) or os.path.getmtime(binp) < newest:
            rc, out = sh(['go', 'build', '-o', binp, '.'], cwd=src, env=GOENV, timeout=900)
            if rc:
                msgs.append('%s build failed: %s' % (tool, out[-2000:]))
            elif tool == 'gen_ssa' and os.path.exists(os.path.join(WORK, 'ssa.stamp')):
                os.remove(os.path.join(WORK, 'ssa.stamp'))     # new translator: regenerate the facts
    mk, cp = os.path.join(COQ, 'Makefile'), os.path.join(COQ, '_CoqProject')
    if not os.path.exists(mk) or os.path.getmtime(mk) < os.path.getmtime(cp):
        sh(['coq_makefile', '-f', '_CoqProject', '-o', 'Makefile'], cwd=COQ, timeout=120)
    return msgs


def build_harness(st, log):
    """the Go harness against the working tree; then what the built library reports about itself (for gen_tables)"""
    sh(['go', 'mod', 'edit', '-replace', 'github.com/ja7ad/otp=' + REPO], cwd=os.path.join(ROOT, 'harness'), env=GOENV, timeout=60)
    rc, out = sh(['go', 'build', '-tags', 'verif', '-o', os.path.join(BIN, 'harness'), '.'], cwd=os.path.join(ROOT, 'harness'), env=GOENV, timeout=900)
    log.write('--- go build harness\n' + out)
    st['hooks'] = True
    if rc:
        # the repository's hook file (verif_hooks.go) names unexported helpers; when one of them was renamed the
        # tagged build fails although the library is fine: build without the hooks, the stage-level cases are skipped
        rc2, out2 = sh(['go', 'build', '-o', os.path.join(BIN, 'harness'), '.'], cwd=os.path.join(ROOT, 'harness'), env=GOENV, timeout=900)
        log.write('--- go build harness (without the verif tag)\n' + out2)
        if rc2:
            st['harness_ok'] = False
            st['notes'].append('harness does not build against /repo: ' + out2.strip()[-800:])
        else:
            st['hooks'] = False
            st['notes'].append('built without the verification hooks (the tagged build failed: %s); stage-level cases are skipped' % out.strip()[-300:])
    dump = os.path.join(WORK, 'runtime_dump.json')
    if os.path.exists(dump):
        os.remove(dump)
    if st['harness_ok']:
        rc, out = sh([os.path.join(BIN, 'harness'), 'dump'], timeout=120)
        if rc == 0 and out.lstrip().startswith('{'):
            with open(dump, 'w') as f:
                f.write(out)
        else:
            st['notes'].append('the built library could not be asked about itself (harness dump): ' + out.strip()[-300:])
    return dump if os.path.exists(dump) else None


def build_all(log):
    """translator -> Coq (model + extraction, then proofs) -> OCaml runner -> Go harness.
    Returns a dict describing what built."""
    st = {'translator_ok': True, 'coq_model_ok': True, 'coq_all_ok': True, 'runner_ok': True, 'harness_ok': True,
          'coq_errors': [], 'notes': []}
    st['notes'] += build_tools()
    os.makedirs(WORK, exist_ok=True)
    dump = build_harness(st, log)
    rc, out = sh([os.path.join(BIN, 'gen_tables'), REPO, os.path.join(COQ, 'Generated')] + ([dump] if dump else []), timeout=120)
    if rc:
        st['translator_ok'] = False
        st['notes'].append('translator gen_tables failed: ' + out.strip()[-500:])
    log.write('--- gen_tables\n' + out)
    try:
        prov = json.load(open(os.path.join(COQ, 'Generated', 'provenance.json')))
        if dump and 'none' in (prov.get('js_exports'), prov.get('js_globals')):
            # the JS entry module / the registration code is not of the expected shape: ask the loaded module
            ans = run_impl_wasm(['wglobals'])[0]
            if ans.startswith('ok:'):
                gl, ex = ans[3:].split('|')
                d = json.load(open(dump))
                d['js_globals'] = [g for g in gl.split(',') if g]
                d['js_exports'] = [e.split('=') for e in ex.split(',') if e]
                json.dump(d, open(dump, 'w'))
                rc, out = sh([os.path.join(BIN, 'gen_tables'), REPO, os.path.join(COQ, 'Generated'), dump], timeout=120)
                log.write('--- gen_tables (with the loaded module\'s globals and exports)\n' + out)
                prov = json.load(open(os.path.join(COQ, 'Generated', 'provenance.json')))
        odd = sorted('%s: %s' % (k, v) for k, v in prov.items() if v not in ('source', 'runtime'))
        if odd:
            st['notes'].append('generated items not read from the source or the built library: ' + ', '.join(odd))
        st['provenance'] = prov
    except Exception:
        pass
    # SSA fact bases (C09 and the structural parts of C11-C13): regenerated when the tree changed
    fp = repo_fingerprint()
    stamp = os.path.join(WORK, 'ssa.stamp')
    have = open(stamp).read() if os.path.exists(stamp) else ''
    if have != fp or not os.path.exists(os.path.join(COQ, 'Generated', 'SsaNative.v')):
        if not os.path.exists(os.path.join(BIN, 'gen_ssa')):
            sh(['go', 'build', '-o', os.path.join(BIN, 'gen_ssa'), '.'], cwd=os.path.join(ROOT, 'tools/gen_ssa'), env=GOENV, timeout=900)
        rc, out = sh(['sh', os.path.join(ROOT, 'tools/gen_ssa/run.sh')], env=dict(os.environ, VERIF_REPO=REPO), timeout=900)
        log.write('--- gen_ssa\n' + out)
        if rc:
            st['translator_ok'] = False
            st['notes'].append('translator gen_ssa failed: ' + out.strip()[-800:])
        else:
            with open(stamp, 'w') as f:
                f.write(fp)
    gen_model(st, log)
    # the executable model first (does not depend on any proof)
    rc, out = sh(['make', '-j%d' % NCPU, 'Extract/Extract.vo'], cwd=COQ, timeout=1800)
    log.write('--- make Extract\n' + out[-4000:])
    if rc:
        st['coq_model_ok'] = False
        st['coq_errors'] += coq_errors(out)
    ml = os.path.join(COQ, 'Extract/runner/model.ml')
    runner = os.path.join(BIN, 'model_runner')
    if st['coq_model_ok'] and (not os.path.exists(runner) or os.path.getmtime(runner) < os.path.getmtime(ml)):
        rc, out = sh(['ocamlfind', 'ocamlopt', '-O3', '-w', '-a', 'model.mli', 'model.ml', 'run.ml', '-o', runner],
                     cwd=os.path.join(COQ, 'Extract/runner'), timeout=600)
        log.write('--- ocamlopt\n' + out)
        if rc:
            st['runner_ok'] = False
            st['notes'].append('OCaml runner build failed')
    # a generated file that no longer compiles must not leave its old compiled form behind for the property files to use
    for v in glob.glob(os.path.join(COQ, 'Generated', '*.v')):
        if not vo_fresh(os.path.relpath(v, COQ)):
            for ext in ('.vo', '.vos', '.vok', '.glob'):
                try:
                    os.remove(v[:-2] + ext)
                except OSError:
                    pass
    # everything else (proofs); -k so that independent property files still compile
    rc, out = sh(['make', '-k', '-j%d' % NCPU], cwd=COQ, timeout=3600)
    log.write('--- make all\n' + out[-8000:])
    if rc:
        st['coq_all_ok'] = False
        st['coq_errors'] += coq_errors(out)
    return st


def gen_model(st, log):
    """Go source -> Generated/Src.v (native build) and Generated/SrcWasm.v (js/wasm build of the library)"""
    gen_model_one(st, log, 'Src', 'gen_model.json', [], 'source_translation')
    gen_model_one(st, log, 'SrcWasm', 'gen_model_wasm.json', ['-wasm'], 'source_translation_wasm')
    gen_model_one(st, log, 'SrcMain', 'gen_model_main.json', ['-main'], 'source_translation_binding')
    gen_model_one(st, log, 'SrcRest', 'gen_model_rest.json', ['-rest', '-lib', os.path.join(COQ, 'Generated', 'Src.v')], 'source_translation_rest')


def gen_model_one(st, log, module, repname, flags, key):
    """tools/gen_model.  A function whose translation does not compile is left out (and with it what calls it) and the
    translation is repeated; what could not be translated is recorded."""
    srcv = os.path.join(COQ, 'Generated', module + '.v')
    rep = os.path.join(WORK, repname)
    env = dict(os.environ, GOPROXY='off')
    env.pop('GOFLAGS', None); env.pop('GOWORK', None); env.pop('GOSUMDB', None)
    skip, info = [], {'ok': False, 'skipped': [], 'untranslated': {}, 'translated': 0}
    for attempt in range(8):
        if os.path.exists(rep):
            os.remove(rep)
        rc, out = sh([os.path.join(BIN, 'gen_model'), REPO, srcv, rep] + flags + (['-skip', ','.join(skip)] if skip else []), env=env, timeout=600)
        log.write('--- gen_model %s\n%s' % (skip, out[-1500:]))
        if rc or not os.path.exists(rep):
            with open(srcv, 'w') as f:
                f.write('(* tools/gen_model could not load or translate the sources of the repository *)\n')
            info['note'] = 'translator gen_model failed: ' + out.strip()[-400:]
            break
        r = json.load(open(rep))
        info['untranslated'], info['translated'] = r.get('untranslated') or {}, len(r.get('translated') or [])
        rc, out = sh(['make', 'Generated/%s.vo' % module], cwd=COQ, timeout=900)
        if rc == 0:
            info['ok'] = True
            break
        m = re.search(r'File "\./Generated/%s\.v", line (\d+)' % module, out)
        bad = None
        if m:
            for i, line in enumerate(open(srcv).read().split('\n')[:int(m.group(1))]):
                mm = re.match(r'(?:Definition|Fixpoint) (\w+?)(?:_loop\d+)? ', line)
                if mm:
                    bad = mm.group(1)
        log.write('--- %s.v does not compile (%s): %s\n' % (module, bad, out[-800:]))
        names = {n.replace('.', '_'): n for n in (r.get('translated') or [])}
        if not bad or bad not in names or names[bad] in skip:
            with open(srcv, 'w') as f:
                f.write('(* the translation of the sources did not compile: %s *)\n' % (bad or 'unknown place'))
            info['note'] = 'the translated source did not compile and the offending function could not be isolated'
            break
        skip.append(names[bad])
        info['skipped'] = list(skip)
    st[key] = info
    if not info['ok'] or info['untranslated']:
        st['notes'].append('source translation (gen_model ' + module + '): %d functions translated; not translated: %s' % (
            info['translated'], '; '.join('%s (%s)' % kv for kv in sorted(info['untranslated'].items())) or info.get('note', '-')))


def coq_errors(out):
    errs = []
    cur = None
    for line in out.split('\n'):
        m = re.match(r'File "\./([^"]+)", line (\d+)', line)
        if m:
            cur = '%s:%s' % (m.group(1), m.group(2))
        elif line.startswith('Error') and cur:
            errs.append(cur)
            cur = None
    return sorted(set(errs))


def vo_fresh(vfile):
    v = os.path.join(COQ, vfile)
    vo = v[:-2] + '.vo'
    return os.path.exists(vo) and os.path.getmtime(vo) >= os.path.getmtime(v)


def obligations(pid, log, suffix=''):
    """theorems of Properties/<pid><suffix>.v; discharged = file compiles and each Print Assumptions is acceptable"""
    vfile = 'Properties/%s%s.v' % (pid, suffix)
    src = open(os.path.join(COQ, vfile)).read()
    thms = re.findall(r'^(?:Theorem|Lemma)\s+(\w+)', src, re.M)
    res = {'file': 'coq/' + vfile, 'theorems': thms, 'assumptions': {}, 'discharged': 0, 'failed': []}
    if not vo_fresh(vfile):
        res['failed'] = thms
        return res
    # re-run coqc on the property file to capture the Print Assumptions output of this very build
    rc, out = sh(['coqc'] + COQ_FLAGS + [vfile], cwd=COQ, timeout=1800)
    log.write('--- coqc %s\n%s' % (vfile, out[-3000:]))
    if rc:
        res['failed'] = thms
        return res
    blocks = re.split(r'(?=Closed under the global context|Axioms:)', out)
    blocks = [b for b in blocks if b.startswith('Closed under') or b.startswith('Axioms:')]
    printed = re.findall(r'^Print Assumptions\s+(\w+)', src, re.M)
    for name, b in zip(printed, blocks):
        if b.startswith('Closed under'):
            res['assumptions'][name] = 'Closed under the global context'
        else:
            ax = re.findall(r'^(\S+)\s*:', b[len('Axioms:'):], re.M)
            res['assumptions'][name] = 'Axioms: ' + ', '.join(ax)
            if not set(ax) <= ALLOWED_AXIOMS:
                res['failed'].append(name)
    for t in thms:
        if t not in res['assumptions']:
            res['failed'].append(t)   # a theorem without a Print Assumptions line does not count
    res['failed'] = sorted(set(res['failed']))
    res['discharged'] = len(thms) - len(res['failed'])
    return res


# ----------------------------------------------------------------------------- correspondence

def big_stack():
    """the extracted model recurses on lists as long as the input (64 KiB strings, 1 MiB paddings)"""
    import resource
    try:
        resource.setrlimit(resource.RLIMIT_STACK, (resource.RLIM_INFINITY, resource.RLIM_INFINITY))
    except (ValueError, OSError):
        pass


def run_model(cases):
    """evaluate the extracted model on the case lines, sharded over all cores"""
    if not cases:
        return []
    n = min(NCPU, max(1, len(cases) // 8))
    shards = [cases[i::n] for i in range(n)]
    procs = []
    for sh_ in shards:
        p = subprocess.Popen([os.path.join(BIN, 'model_runner')], stdin=subprocess.PIPE, stdout=subprocess.PIPE, text=True, preexec_fn=big_stack)
        procs.append(p)
    outs = []
    # feed concurrently via threads to avoid pipe deadlocks
    import threading
    results = [None] * n

    def feed(i):
        results[i] = procs[i].communicate('\n'.join(shards[i]) + '\n')[0].split('\n')[:-1]
    ths = [threading.Thread(target=feed, args=(i,)) for i in range(n)]
    [t.start() for t in ths]
    [t.join() for t in ths]
    out = [None] * len(cases)
    for i in range(n):
        if len(results[i]) != len(shards[i]):
            raise RuntimeError('model runner produced %d answers for %d cases' % (len(results[i]), len(shards[i])))
        for j, r in enumerate(results[i]):
            out[i + j * n] = r
    return out


WASM_OPS = ('wcall', 'wexports')
REST_OPS = ('rreq', 'rburst')


def build_rest():
    """the real server binary from the working tree (workspace mode: /repo/go.work)"""
    out = os.path.join(WORK, 'restbin')
    env = dict(os.environ, GOPROXY='off')
    env.pop('GOFLAGS', None)
    env.pop('GOWORK', None)
    rc, o = sh(['go', 'build', '-o', out, './cmd'], cwd=os.path.join(REPO, 'internal', 'app'), env=env, timeout=900)
    if rc:
        raise RuntimeError('REST server build failed: ' + o[-800:])
    return out


def build_wasm():
    """fresh js/wasm module from the working tree, beside a copy of the package's own entry module"""
    d = os.path.join(WORK, 'wasm')
    shutil.rmtree(d, ignore_errors=True)
    os.makedirs(os.path.join(d, 'src'))
    os.makedirs(os.path.join(d, 'lib'))
    env = dict(os.environ, GOOS='js', GOARCH='wasm', GOPROXY='off')
    env.pop('GOFLAGS', None)
    rc, out = sh(['go', 'build', '-o', os.path.join(d, 'lib', 'otp.wasm'), './wasm'], cwd=REPO, env=env, timeout=900)
    if rc:
        raise RuntimeError('js/wasm build failed: ' + out[-800:])
    for f in ('index.js', 'wasm_exec.js'):
        shutil.copy(os.path.join(REPO, 'otp-js', 'src', f), os.path.join(d, 'src', f))
    return d


def run_impl_wasm(cases, timeout=900):
    d = build_wasm()
    cf, of = os.path.join(d, 'cases.txt'), os.path.join(d, 'out.txt')
    with open(cf, 'w') as f:
        f.write('\n'.join(cases) + '\n')
    try:
        rc, out = sh(['node', os.path.join(ROOT, 'tools', 'wasm', 'runner.js'), d, cf, of], timeout=timeout)
    except subprocess.TimeoutExpired:
        return ['timeout'] * len(cases)
    if not os.path.exists(of):
        return ['module-died'] * len(cases)   # the Go program exited: nothing was answered
    lines = open(of).read().split('\n')[:-1]
    if len(lines) != len(cases):
        lines = (lines + ['module-died'] * len(cases))[:len(cases)]
    return lines


def run_impl(cases, timeout=1800):
    widx = [i for i, c in enumerate(cases) if c.split(' ')[0] in WASM_OPS]
    gidx = [i for i, c in enumerate(cases) if c.split(' ')[0] not in WASM_OPS]
    res = [None] * len(cases)
    if gidx:
        g = [cases[i] for i in gidx]
        env = None
        if any(c.split(' ')[0] in REST_OPS for c in g):
            env = dict(os.environ, VERIF_REST_BIN=build_rest())
        env = dict(env or os.environ, HARNESS_INDEXED='1')
        rc, out = sh([os.path.join(BIN, 'harness'), 'exec'], inp='\n'.join(g) + '\n', timeout=timeout, env=env)
        got = {}
        for l in out.split('\n'):
            m = re.match(r'#(\d+)\t(.*)$', l)
            if m:
                got[int(m.group(1))] = m.group(2)
        if not got and g:
            raise RuntimeError('harness produced no answers for %d cases (rc=%d): %s' % (len(g), rc, out[-500:]))
        lines = [got.get(i, 'no-answer') for i in range(len(g))]   # (the process died or was cut short after the last answer)
        for i, l in zip(gidx, lines):
            res[i] = l
    if widx:
        for i, l in zip(widx, run_impl_wasm([cases[i] for i in widx])):
            res[i] = l
    return res


def anchor_files(pid):
    for l in open(os.path.join(ROOT, 'properties.jsonl')):
        d = json.loads(l)
        if d['id'] == pid:
            return [f for f in d.get('anchors', {}).get('files', []) if f.endswith('.go') and not f.startswith('internal/') and not f.startswith('wasm/')]
    return []


def block_key(repo, fname, sl, el):
    """a block of the coverage profile, identified by its text (line numbers move when code is edited)"""
    try:
        lines = open(os.path.join(repo, fname)).read().split('\n')
    except OSError:
        return None
    return fname + ': ' + ' '.join(' '.join(l.split()) for l in lines[sl - 1:el] if l.strip())[:300]


def unexercised_blocks(pid, cases, log, all_blocks=False, files=None):
    """The blocks of the files the property is anchored in that the implementation never executed while answering
    [cases] (Go's block counters, go build -cover).  Returns (list of (location, key), number of blocks) or (None, 0)."""
    import shutil, tempfile
    files = files or anchor_files(pid)
    native = [c for c in cases if c.split(' ')[0] not in WASM_OPS and c.split(' ')[0] not in REST_OPS]
    if not files or not native:
        return None, 0
    binp = os.path.join(WORK, 'harness_cover')
    base = ['go', 'build', '-cover', '-covermode=count', '-coverpkg=github.com/ja7ad/otp/...,./...']
    hdir = os.path.join(ROOT, 'harness')
    rc, out = sh(base + ['-tags', 'verif', '-o', binp, '.'], cwd=hdir, env=GOENV, timeout=1800)
    if rc:
        rc, out = sh(base + ['-o', binp, '.'], cwd=hdir, env=GOENV, timeout=1800)
    if rc:
        log.write('--- cover build failed\n' + out[-1500:])
        return None, 0
    d = tempfile.mkdtemp(prefix='cov', dir=WORK)
    try:
        sh([binp, 'exec'], inp='\n'.join(native) + '\n', timeout=3600, env=dict(os.environ, GOCOVERDIR=d))
        txt = os.path.join(d, 'p.txt')
        sh(['go', 'tool', 'covdata', 'textfmt', '-i=' + d, '-o=' + txt], env=GOENV, timeout=300)
        blocks, missed = {}, []
        if os.path.exists(txt):
            for line in open(txt):
                m = re.match(r'github\.com/ja7ad/otp/([^:]+):(\d+)\.\d+,(\d+)\.\d+ \d+ (\d+)', line)
                if m and m.group(1) in files:
                    loc = (m.group(1), int(m.group(2)), int(m.group(3)))
                    blocks[loc] = blocks.get(loc, 0) + int(m.group(4))
        # functions the run never entered are not part of what this property's stream exercises (another property's
        # check answers for them); only an unexecuted block inside a function that did run is reported.  The line
        # ranges of the functions (declarations and package-level function literals) come from the translator's report.
        ranges = []
        try:
            ranges = [tuple(x) for x in json.load(open(os.path.join(WORK, 'gen_model.json'))).get('funcs', [])]
        except Exception:
            pass
        def entered(f, sl):
            inside = [(a, b) for (ff, a, b) in ranges if ff == f and a <= sl <= b]
            if not inside:
                return True
            a, b = min(inside, key=lambda r: r[1] - r[0])
            return any(n > 0 for (ff, s2, e2), n in blocks.items() if ff == f and a <= s2 <= b)
        for (f, sl, el), n in sorted(blocks.items()):
            if all_blocks or (n == 0 and entered(f, sl)):
                missed.append(('%s:%d' % (f, sl), block_key(REPO, f, sl, el)))
        return missed, len(blocks)
    finally:
        shutil.rmtree(d, ignore_errors=True)


REST_DIR = 'internal/app/api'


def unexercised_rest_blocks(cases, log, all_blocks=False):
    """the same for the REST layer: the server is built with block counters, answers the REST cases and is stopped
    gracefully; returns (list of (location, key), number of blocks) or (None, 0)"""
    import shutil, tempfile
    rest = [c for c in cases if c.split(' ')[0] in REST_OPS]
    if not rest:
        return None, 0
    out = os.path.join(WORK, 'restbin_cover')
    env = dict(os.environ, GOPROXY='off')
    env.pop('GOFLAGS', None); env.pop('GOWORK', None)
    rc, o = sh(['go', 'build', '-cover', '-covermode=count', '-coverpkg=github.com/ja7ad/otp/...', '-o', out, './cmd'], cwd=os.path.join(REPO, 'internal', 'app'), env=env, timeout=900)
    if rc:
        log.write('--- REST cover build failed\n' + o[-1500:])
        return None, 0
    d = tempfile.mkdtemp(prefix='covrest', dir=WORK)
    try:
        sh([os.path.join(BIN, 'harness'), 'exec'], inp='\n'.join(rest) + '\n', timeout=3600, env=dict(os.environ, GOCOVERDIR=d, VERIF_REST_BIN=out, VERIF_REST_TERM='1'))
        txt = os.path.join(d, 'p.txt')
        sh(['go', 'tool', 'covdata', 'textfmt', '-i=' + d, '-o=' + txt], env=GOENV, timeout=300)
        blocks = {}
        if os.path.exists(txt):
            for line in open(txt):
                m = re.match(r'github\.com/ja7ad/otp/(internal/app/api/[^:]+):(\d+)\.\d+,(\d+)\.\d+ \d+ (\d+)', line)
                if m:
                    loc = (m.group(1), int(m.group(2)), int(m.group(3)))
                    blocks[loc] = blocks.get(loc, 0) + int(m.group(4))
        ranges = []
        try:
            ranges = [tuple(x) for x in json.load(open(os.path.join(WORK, 'gen_model_rest.json'))).get('funcs', [])]
        except Exception:
            pass
        def entered(f, sl):
            b0 = os.path.basename(f)
            inside = [(a, b) for (ff, a, b) in ranges if ff == b0 and a <= sl <= b]
            if not inside:
                return True
            a, b = min(inside, key=lambda r: r[1] - r[0])
            return any(n > 0 for (ff, s2, e2), n in blocks.items() if ff == f and a <= s2 <= b)
        missed = []
        for (f, sl, el), n in sorted(blocks.items()):
            if all_blocks or (n == 0 and entered(f, sl)):
                missed.append(('%s:%d' % (f, sl), block_key(REPO, f, sl, el)))
        return missed, len(blocks)
    finally:
        shutil.rmtree(d, ignore_errors=True)


def coverage_baseline(pid):
    """texts of all blocks of the library on the unchanged tree (coverage_baseline/all_blocks.txt): an unexecuted block
    is reported only when its text is not among them, i.e. when it is code the unchanged tree does not have"""
    p = os.path.join(ROOT, 'coverage_baseline', 'all_blocks.txt')
    return set(l.rstrip('\n') for l in open(p)) if os.path.exists(p) else None


def coq_bytes(s):
    return '[' + ';'.join(str(b) for b in s.encode()) + ']'


def run_vm(cases, log):
    """evaluate run_case on the given lines inside Coq with vm_compute; returns list of answers"""
    os.makedirs(WORK, exist_ok=True)
    path = os.path.join(WORK, 'cases_vm.v')
    with open(path, 'w') as f:
        f.write('From Coq Require Import List NArith. Import ListNotations. Open Scope N_scope.\n')
        f.write('From OtpV Require Import Runner.\n')
        f.write('Definition cases : list (list N) := [\n' + ';\n'.join(coq_bytes(c) for c in cases) + '].\n')
        f.write('Definition answers := Eval vm_compute in map run_case cases.\n')
        f.write('Set Printing Depth 100000. Set Printing Width 1000000.\nPrint answers.\n')
    rc, out = sh(['coqc'] + COQ_FLAGS + [path], cwd=COQ, timeout=1800)
    for ext in ('.vo', '.vok', '.vos', '.glob'):
        try:
            os.remove(path[:-2] + ext)
        except OSError:
            pass
    if rc:
        log.write('--- vm slice failed\n' + out[-2000:])
        return None
    m = re.search(r'answers\s*=\s*(\[.*\])\s*:\s*list', out, re.S)
    if not m:
        return None
    body = m.group(1)
    res = []
    for inner in re.findall(r'\[([0-9; \n]*)\]', body[1:-1]):
        res.append(bytes(int(x) for x in inner.replace('\n', ' ').split(';') if x.strip()).decode('latin1'))
    return res


def outcome_match(impl, model):
    if impl == model or impl == 'unavailable':      # unavailable: a stage-level case without the hooks (not compared)
        return True
    if '|mem:' in model and '|mem:' in impl:       # canary: the inner answer, then the memory report
        mi, ms = impl.rsplit('|mem:', 1)
        oi, os_ = model.rsplit('|mem:', 1)
        return ms == os_ and outcome_match(mi, oi)
    if ';' in model and not model.startswith('r:'):  # a concurrent history: one answer per operation
        a, b = impl.split(';'), model.split(';')
        return len(a) == len(b) and all(outcome_match(x, y) for x, y in zip(a, b))
    if model.startswith('err:*') and impl.startswith('err:'):
        return True
    if model.startswith('sprefix:'):   # specification column: a string result with this prefix
        return impl.startswith('s:' + model[len('sprefix:'):])
    if model.startswith('maybe:'):   # specification column: either rejected or exactly this value
        return impl.startswith('err:') or impl == model[len('maybe:'):]
    if model.endswith(':*') and model.startswith('v:') and impl.startswith(model[:-1]) and not impl.endswith(':-'):
        return True
    return False


def nontrivial(case, impl):
    if impl.startswith('ok:') or impl.startswith('cfg:') or impl.startswith('url:') or impl.startswith('up:') or impl.startswith('b:') or impl.startswith('200|') or (impl.startswith('s:') and not impl.startswith('s:6572726f72')) or impl.startswith('v:true') or impl == 'panic':
        return True
    if impl.startswith('v:false:'):
        try:
            return bytes.fromhex(impl.split(':')[2]).decode('latin1') == 'invalid otp code'
        except ValueError:
            return False
    return False


def classify(impl):
    if impl.startswith('v:'):
        return ':'.join(impl.split(':')[:2])
    return impl.split(':')[0]


def load_corpus(pid):
    p = os.path.join(ROOT, 'corpus', pid + '.txt')
    if not os.path.exists(p):
        return []
    return [l.rstrip('\n') for l in open(p) if l.strip() and not l.startswith('#')]


def load_known():
    known = []
    p = os.path.join(ROOT, 'known_findings.txt')
    if os.path.exists(p):
        for l in open(p):
            m = re.match(r'known:\s+property=(\S+)\s+match=(\S+)\s+(.*)', l)
            if m:
                known.append((m.group(1), re.compile(m.group(2)), m.group(3).strip()))
    return known


LAST_CASES = []


def correspondence(pid, streams, seed, tier, log, extra_cases=None, scale=1):
    """returns dict(stats) and list of disagreements"""
    cases = list(load_corpus(pid))
    n_corpus = len(cases)
    for (stream, nq, nt) in streams:
        n = min(nq * scale, nt) if tier == 'quick' else nt
        rc, out = sh([os.path.join(BIN, 'harness'), 'gen', stream, str(seed), str(n)], timeout=600)
        if rc:
            raise RuntimeError('harness gen %s failed: %s' % (stream, out[-500:]))
        cases += out.split('\n')[:-1]
    if extra_cases:
        cases += extra_cases
    impl = run_impl(cases)
    model = run_model(cases)
    LAST_CASES[:] = cases
    diffs, drift = [], []
    hist = Counter()
    ops = Counter()
    seen = set()
    distinct_nontrivial = 0
    in_domain = 0
    for c, i, m in zip(cases, impl, model):
        parts = m.split('\t')
        mo, dom = parts[0], (len(parts) < 2 or parts[1] == '1')
        spec = parts[2] if len(parts) > 2 else '-'
        op = c.split(' ')[0]
        ops[op] += 1
        hist['%s %s' % (op, classify(i))] += 1
        in_domain += dom
        if c not in seen:
            seen.add(c)
            if nontrivial(c, i):
                distinct_nontrivial += 1
        ok = outcome_match(i, mo)
        spec_ok = (spec == '-' or outcome_match(i, spec))
        if not ok or not spec_ok:
            d = {'case': c, 'impl': i, 'model': mo, 'spec': spec, 'in_domain': bool(dom),
                 'kind': 'impl-vs-spec' if (ok and not spec_ok) else 'impl-vs-model'}
            (diffs if dom else drift).append(d)
    # a disagreement that the case alone does not reproduce depends on the calls before it: keep a minimised history
    index = {}
    for j, c in enumerate(cases):
        index.setdefault(c, j)
    for d in diffs[:3]:
        try:
            d.update(find_history(cases[:index[d['case']]], d['case'], d['model'], d['spec']))
        except Exception as e:       # the search is a convenience for the replay; never the reason a check fails
            log.write('--- history search failed: %r\n' % (e,))
    # vm_compute slice: the extracted runner and Coq's own evaluation must agree
    k = 24 if tier == 'quick' else 150
    step = max(1, len(cases) // k)
    idx = list(range(0, len(cases), step))[:k]
    idx = [j for j in idx if len(cases[j]) < 20000]    # very long cases are left to the extracted runner
    vm = run_vm([cases[j] for j in idx], log)
    vm_checked, vm_bad = 0, []
    if vm is None or len(vm) != len(idx):
        vm_bad.append({'case': '(vm_compute slice could not be evaluated)', 'impl': '', 'model': '', 'spec': '-', 'in_domain': True, 'kind': 'vm-slice'})
    else:
        for j, a in zip(idx, vm):
            vm_checked += 1
            if a != model[j]:
                vm_bad.append({'case': cases[j], 'impl': impl[j], 'model': model[j], 'spec': a, 'in_domain': True, 'kind': 'ocaml-vs-vm_compute'})
    stats = {'evaluations': len(cases), 'corpus_cases': n_corpus, 'distinct_cases': len(seen), 'distinct_nontrivial': distinct_nontrivial,
             'in_domain': in_domain, 'model_drift': len(drift), 'operations': dict(ops), 'outcome_histogram': dict(hist),
             'vm_compute_slice': vm_checked,
             'samples': [{'case': cases[j][:300], 'impl': impl[j][:120], 'model': model[j][:120]} for j in idx[:6]]}
    return stats, diffs + vm_bad, drift


# ----------------------------------------------------------------------------- properties

# stream name, cases in quick tier, cases in thorough tier
PROPS = {
    'C01': {'streams': [('c01', 400, 20000), ('hash', 60, 3000)]},
    'C02': {'streams': [('c02', 800, 30000)]},
    'C03': {'streams': [('c03', 700, 20000)]},
    'C04': {'streams': [('c04', 700, 20000)]},
    'C05': {'streams': [('c05', 600, 20000)]},
    'C06': {'streams': [('c06', 700, 20000)]},
    'C07': {'streams': [('c07', 3000, 200000)]},
    'C08': {'streams': [('c08', 300, 10000)]},
    'C09': {'streams': []},
    'C10': {'streams': [('c10', 1500, 40000)]},
    'C18': {'streams': [('c18', 1200, 40000)]},
    'C19': {'streams': [('c19', 600, 20000)]},
    'C20': {'streams': [('c20', 1500, 40000)]},
    'C11': {'streams': [('c11', 60, 2000)]},
    'C12': {'streams': [('c12', 800, 30000)]},
    'C13': {'streams': [('c13', 900, 30000)]},
    'C14': {'streams': [('c14', 1500, 50000)]},
    'C15': {'streams': [('c15', 1500, 60000)]},
    'C16': {'streams': [('c16', 3000, 100000)]},
    'C17': {'streams': [('c17', 2500, 100000)]},
}

RULE = ("cases are generated from one splitmix64 state seeded by VERIF_SEED (structured, mostly valid inputs, boundary tables, "
        "a malformed stream, exhaustive small domains first; the regression corpus of earlier findings runs first); "
        "distinct = distinct case lines; non-trivial = the implementation returned a value, accepted, panicked, or rejected "
        "with ErrInvalidCode after computing the HMAC (early argument errors are counted as trivial)")


def find_history(prefix, case, mo, spec, budget=28):
    """If [case] alone agrees with the model but disagreed after [prefix], return {'history': minimal-ish sublist of
    prefix after which it still disagrees} (delta debugging within a budget of harness runs); {} otherwise."""
    def fails(hist):
        out = run_impl(hist + [case])[-1]
        return not (outcome_match(out, mo) and (spec == '-' or outcome_match(out, spec)))
    if fails([]):
        return {}
    if not prefix or not fails(prefix):
        return {'history_note': 'the case alone agrees with the model and the disagreement did not recur when the run was repeated'}
    h, n, runs = list(prefix), 2, 2
    while len(h) >= 2 and runs < budget:
        size = (len(h) + n - 1) // n
        chunks = [h[i:i + size] for i in range(0, len(h), size)]
        reduced = False
        for i in range(len(chunks)):
            if runs >= budget:
                break
            runs += 1
            if fails(chunks[i]):                                   # one chunk alone is enough
                h, n, reduced = chunks[i], 2, True
                break
        if not reduced:
            for i in range(len(chunks)):
                if runs >= budget:
                    break
                comp = [x for k, ch in enumerate(chunks) if k != i for x in ch]
                runs += 1
                if fails(comp):
                    h, n, reduced = comp, max(n - 1, 2), True
                    break
        if not reduced:
            if n >= len(h):
                break
            n = min(len(h), 2 * n)
    return {'history': h[-2000:], 'history_note': 'the case disagrees only after these earlier calls in the same process (%d harness runs spent minimising)' % runs}


def write_replay(pid, n, payload):
    d = os.path.join(ROOT, 'replays')
    os.makedirs(d, exist_ok=True)
    p = os.path.join(d, '%s-%d.json' % (pid, n))
    with open(p, 'w') as f:
        json.dump(payload, f, indent=1)
    return p


def do_replay(pid, path, log):
    r = json.load(open(path))
    case = r.get('case')
    if r.get('pair'):
        from vprops import replay_pair
        rc = replay_pair(r['pair'], log)
        print('VIOLATION property=%s replay=%s' % (pid, path) if rc else 'the two cases take the same path')
        return rc
    if r.get('wpair'):
        from vprops import replay_wpair
        rc = replay_wpair(r['wpair'], log)
        print('VIOLATION property=%s replay=%s' % (pid, path) if rc else 'the two calls take the same path')
        return rc
    if not case:
        print('replay file names a proof obligation / correspondence, not an input:', r.get('what'))
        return 0
    hist = r.get('history') or []
    impl = run_impl(hist + [case])[-1]
    model = run_model([case])[0]
    if hist:
        print('after %d earlier call(s) in the same process:' % len(hist))
        for h in hist[:20]:
            print('  ' + h[:200])
    print('case :', case)
    print('impl :', impl)
    print('model:', model)
    mo = model.split('\t')[0]
    if outcome_match(impl, mo):
        print('agree')
        return 0
    print('VIOLATION property=%s replay=%s' % (pid, path))
    return 1


def main(argv):
    ap = argparse.ArgumentParser()
    ap.add_argument('pid')
    ap.add_argument('--tier', default=os.environ.get('VERIF_TIER', 'quick'))
    ap.add_argument('--seed', type=int, default=int(os.environ.get('VERIF_SEED', '1') or 1))
    ap.add_argument('--replay')
    a = ap.parse_args(argv)
    pid, tier, seed = a.pid, a.tier, a.seed
    if tier not in ('quick', 'thorough'):
        tier = 'quick'
    t0 = time.time()
    os.makedirs(WORK, exist_ok=True)
    os.makedirs(EVIDENCE, exist_ok=True)
    with Lock():
        log = open(os.path.join(WORK, 'check_%s.log' % pid), 'w')
        try:
            return run_check(pid, tier, seed, a.replay, log, t0)
        finally:
            log.close()


def run_check(pid, tier, seed, replay, log, t0):
    from vprops import extra_engines   # property-specific engines (history, memory, REST, wasm, SSA)
    cfg = PROPS.get(pid, {'streams': []})
    st = build_all(log)
    if replay:
        return do_replay(pid, replay, log)
    violations = []   # (description, replay payload, failing_input_found)
    known_hits = []
    # ---- proof obligations
    ob = obligations(pid, log)
    if ob['failed']:
        violations.append(('proof obligations of %s no longer check: %s' % (ob['file'], ', '.join(ob['failed'])),
                           {'what': 'theorems that no longer check', 'theorems': ob['failed'], 'coq_errors': st['coq_errors'], 'notes': st['notes']}, False))
    # ---- the same theorems over the definitions translated from the Go source on this run (second tie)
    src_tie, scale = None, 1
    import glob
    srcfiles = sorted(os.path.basename(f)[len(pid):-2] for f in glob.glob(os.path.join(COQ, 'Properties', pid + 'src*.v')))
    if srcfiles:
        src_tie = {'files': [], 'theorems': [], 'assumptions': {}, 'discharged': 0, 'failed': [], 'translation': st.get('source_translation')}
        for suf in srcfiles:
            ob2 = obligations(pid, log, suf)
            src_tie['files'].append(ob2['file'])
            src_tie['theorems'] += ob2['theorems']
            src_tie['assumptions'].update(ob2['assumptions'])
            src_tie['discharged'] += ob2['discharged']
            src_tie['failed'] += ob2['failed']
        if src_tie['failed']:
            # a rewrite of the code can put a function outside the translated fragment or outside what the
            # equivalence proofs expect; the property is then decided by the hand-written model alone, and the
            # search for a disagreeing input is widened
            scale = 8
            src_tie['status'] = 'broken: decided by the hand-written model and a correspondence run of %d times the usual size' % scale
            st['notes'].append('theorems over the translated source no longer check (%s): %s' % (', '.join(src_tie['files']), ', '.join(src_tie['failed'])))
        else:
            src_tie['status'] = 'ok'
    if not st['translator_ok']:
        violations.append(('translator failed', {'what': 'translator gen_tables could not regenerate the model data from /repo', 'notes': st['notes']}, False))
    # ---- independent re-check of the compiled property file and everything it depends on (thorough tier)
    coqchk_note = None
    if tier == 'thorough' and not ob['failed']:
        try:
            mods = ['OtpV.' + pid] + (['OtpV.' + pid + suf for suf in srcfiles] if src_tie and not src_tie['failed'] else [])
            rc, out = sh(['coqchk', '-silent', '-o'] + COQ_FLAGS + mods, cwd=COQ, timeout=3000)
            m = re.search(r'\* Axioms:\s*(.*?)\n\s*\n', out, re.S)
            coqchk_note = 'coqchk: ' + ('axioms ' + ' '.join(m.group(1).split()) if m else 'no summary') + (' (exit %d)' % rc if rc else '')
            if rc:
                violations.append(('coqchk rejects the compiled property file', {'what': 'coqchk -o OtpV.%s failed' % pid, 'output': out[-1500:]}, False))
        except subprocess.TimeoutExpired:
            coqchk_note = 'coqchk: not finished within 50 minutes (the kernel-checked .vo build stands)'
        log.write('--- %s\n' % coqchk_note)
    # ---- correspondence
    stats, diffs, drift = {'evaluations': 0, 'distinct_nontrivial': 0, 'samples': []}, [], []
    if not (st['harness_ok'] and st['runner_ok'] and st['coq_model_ok']):
        violations.append(('correspondence could not be run', {'what': 'harness / model runner did not build', 'notes': st['notes'], 'coq_errors': st['coq_errors']}, False))
    else:
        if cfg['streams'] or load_corpus(pid):
            stats, diffs, drift = correspondence(pid, cfg['streams'], seed, tier, log, scale=scale)
    # ---- the source tie is broken: the property rests on the correspondence alone, which says nothing about code it
    #      never ran.  Blocks of the files the property is anchored in that were not executed and whose text the
    #      unchanged tree does not have (coverage_baseline/all_blocks.txt) are reported: new code that nothing ran.
    if src_tie and src_tie.get('failed') and st['harness_ok'] and LAST_CASES:
        base = coverage_baseline(pid)
        # what "the correspondence" runs is what all the streams run, not this property's alone: a branch that another
        # property's stream exercises (the nil Suite of C10's, say) is spoken for by that property's check
        allc = list(LAST_CASES)
        for opid in sorted(PROPS):
            if opid == pid:
                continue
            allc += list(load_corpus(opid))
            for (stream, nq, nt) in PROPS[opid].get('streams') or []:
                rc2, out2 = sh([os.path.join(BIN, 'harness'), 'gen', stream, str(seed), str(min(nq, nt))], timeout=600)
                if rc2 == 0:
                    allc += out2.split('\n')[:-1]
        src_tie['coverage_pass_cases'] = len(allc)
        missed, nblocks = unexercised_blocks(pid, allc, log)
        if pid in ('C18', 'C19'):
            rmissed, rn = unexercised_rest_blocks(allc, log)
            if rmissed is not None:
                # the handlers are full of error branches that cannot be taken on any request (json.Marshal of a plain
                # struct failing, ...), on the unchanged tree as well; a rewrite rewords them.  A block of the form
                # `if err != nil { <report>; return }` is excused: it runs only if a call reports an error, and what
                # that call does on every request is what the correspondence compares.
                def error_branch(k):
                    t = k.split(': ', 1)[-1]
                    if re.match(r'if (\w+ := .*; )?\w*[eE]rr\w* != nil \{', t) is not None and re.search(r'return\b[^{}]*\}?\s*$', t) is not None:
                        return True
                    # or a block that handles an error value in some other arrangement (`if err == nil {...; return}` followed
                    # by the failure path): it mentions the error variable
                    return re.search(r'\b(err|\w+Err)\b', t) is not None
                def under_error_test(loc):
                    # the block is the body of `if err != nil {` on the line before it (or on its own first line)
                    try:
                        f, ln = loc.rsplit(':', 1)
                        lines = open(os.path.join(REPO, f)).read().split('\n')
                        near = ' '.join(lines[max(0, int(ln) - 2):int(ln)])
                        return re.search(r'\b\w*[eE]rr\w* != nil \{', near) is not None
                    except Exception:
                        return False
                rmissed = [(loc, k) for (loc, k) in rmissed if k and not error_branch(k) and not under_error_test(loc)]
                missed, nblocks = (missed or []) + rmissed, nblocks + rn
        if missed is not None and base is not None:
            # a block is the unchanged tree's when its text is, or when its body is (the same statements under a
            # reworded condition: `if _, err := f(); err != nil {...}` against `_, err := f()` / `if err != nil {...}`)
            def body(k):
                t = k.split(': ', 1)[-1]
                return t[t.index('{') + 1:t.rindex('}')].strip() if '{' in t and '}' in t and t.index('{') < t.rindex('}') else t
            bodies = set(body(k) for k in base)
            new = [(loc, key) for (loc, key) in missed if key not in base and not (len(body(key)) >= 12 and body(key) in bodies)]
            src_tie['blocks_in_anchor_files'] = nblocks
            src_tie['unexercised_blocks_not_in_baseline'] = [loc for loc, _ in new]
            for loc, key in new[:3]:
                diffs.append({'case': '(code not exercised, %s) %s' % (loc, key), 'impl': 'never executed by the %d cases of this run' % len(LAST_CASES),
                              'model': 'the theorems over the translated source no longer check, so nothing but the correspondence speaks for this code',
                              'spec': '-', 'kind': 'code the correspondence never ran, while the source tie is broken', 'no_input': True})
    extra = extra_engines(pid, tier, seed, log, st)
    for d in extra.get('violations', []):
        diffs.append(d)
    known = load_known()
    seen_cases = set()
    for d in diffs:
        key = (d.get('case'), d.get('kind'))
        if d.get('case') and key in seen_cases:
            continue
        seen_cases.add(key)
        hit = None
        for (kp, rx, text) in known:
            if kp == pid and rx.search(d.get('case', '')):
                hit = text
        if hit:
            known_hits.append(hit)
            continue
        found = d.get('in_domain', True) and d.get('kind') != 'vm-slice' and bool(d.get('case'))
        violations.append((d.get('kind', 'disagreement'), d, found and not d.get('no_input')))
    # a broken proof plus a concrete disagreement: the disagreement is the failing input for the proof, too
    have_input = any(f for (_, _, f) in violations)
    # ---- evidence
    cov = {
        'obligations': len(ob['theorems']), 'discharged': ob['discharged'],
        'checker_cmd': 'cd /verif/coq && make (coqc 8.16.1, full .vo build) ; coqc Properties/%s.v (Print Assumptions)' % pid,
        'trusted_base': TRUSTED_BASE + extra.get('trusted_base', []),
        'theorems': ob['assumptions'],
        'coqchk': coqchk_note,
        'source_tie': src_tie,
        'evaluations': stats.get('evaluations', 0) + extra.get('evaluations', 0),
        'distinct_nontrivial': stats.get('distinct_nontrivial', 0) + extra.get('distinct_nontrivial', 0),
        'rule': RULE + extra.get('rule', ''),
        'samples': (stats.get('samples', []) + extra.get('samples', []))[:10] or [{'obligations': ob['theorems']}],
        'correspondence': {k: v for k, v in stats.items() if k not in ('samples',)},
        'model_drift_cases': [d['case'][:300] for d in drift[:5]],
        'repo_fingerprint': repo_fingerprint(),
        'build': {k: v for k, v in st.items() if k != 'notes'}, 'notes': st['notes'],
    }
    for k, v in extra.get('coverage', {}).items():
        cov[k] = v
    if extra.get('exhaustive'):
        cov['exhaustive'] = True
    ev = {'property_id': pid, 'tier': tier, 'seed': seed, 'level': 'proof', 'coverage': cov,
          'assumptions': ['the model is the code as far as the correspondence of this run exercised it',
                          'Go standard library and runtime behave as transcribed'] + extra.get('assumptions', []),
          'wall_s': round(time.time() - t0, 2), 'violations': len(violations)}
    with open(os.path.join(EVIDENCE, pid + '.json'), 'w') as f:
        json.dump(ev, f, indent=1)
    for h in sorted(set(known_hits)):
        print('KNOWN-FINDING: property=%s %s' % (pid, h))
    if not violations:
        print('OK property=%s tier=%s obligations=%d/%d%s evaluations=%d drift=%d wall=%.1fs' % (
            pid, tier, ob['discharged'], len(ob['theorems']),
            (' source=%d/%d' % (src_tie['discharged'], len(src_tie['theorems']))) if src_tie else '',
            cov['evaluations'], len(drift), time.time() - t0))
        return 0
    # order: concrete inputs first
    violations.sort(key=lambda v: not v[2])
    n = 0
    for (desc, payload, found) in violations[:5]:
        n += 1
        payload = dict(payload)
        payload['property'] = pid
        payload['description'] = desc
        payload['replay_cmd'] = '/verif/bin/check %s --replay <this file>' % pid
        path = write_replay(pid, n, payload)
        tail = '' if (found or have_input and not payload.get('case') is None and found) else ' no-failing-input-found'
        if not found and have_input:
            # the obligation broke and a failing input was found elsewhere in this run: it is reported on its own line
            tail = ' no-failing-input-found'
        print('VIOLATION property=%s replay=%s%s' % (pid, path, tail))
        print('  ' + desc[:300])
        if payload.get('case'):
            print('  case : ' + payload['case'][:300])
            print('  impl : ' + str(payload.get('impl'))[:200])
            print('  model: ' + str(payload.get('model'))[:200])
    return 1
