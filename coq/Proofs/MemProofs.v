(** The ownership invariant of Model/Mem.v holds in every reachable state (C11). *)
From Coq Require Import List Arith Lia.
From OtpV Require Import Mem.
Import ListNotations.

Lemma firstn_snoc_nth (l : list byte) k : k < length l -> firstn k l ++ [nth k l 0] = firstn (S k) l.
Proof.
  revert k. induction l as [|x l IH]; intros k Hk; [simpl in Hk; lia|].
  destruct k as [|k]; [reflexivity|]. cbn [firstn nth app]. f_equal. apply IH. simpl in Hk. lia.
Qed.

Lemma write_other h a k v a' j : a' <> a -> write h a k v a' j = h a' j.
Proof. intros H. unfold write. destruct (Nat.eqb_spec a' a); [contradiction|reflexivity]. Qed.
Lemma write_same_other h a k v j : j <> k -> write h a k v a j = h a j.
Proof. intros H. unfold write. rewrite Nat.eqb_refl. destruct (Nat.eqb_spec j k); [contradiction|reflexivity]. Qed.
Lemma write_same h a k v : write h a k v a k = v.
Proof. unfold write. rewrite !Nat.eqb_refl. reflexivity. Qed.

Lemma set_thread_eq s t th : set_thread s t th t = Some th.
Proof. unfold set_thread. rewrite Nat.eqb_refl. reflexivity. Qed.
Lemma set_thread_neq s t th t' : t' <> t -> set_thread s t th t' = threads s t'.
Proof. intros H. unfold set_thread. destruct (Nat.eqb_spec t' t); [contradiction|reflexivity]. Qed.

Lemma inv_init : inv init.
Proof. constructor; cbn; try constructor; intros; try discriminate; try contradiction. Qed.

(** look up thread [t'] in a state where thread [t] was replaced: either it is the new thread
    (the hypothesis is inverted) or it is an old one *)
Ltac thr t' t H :=
  destruct (Nat.eq_dec t' t) as [?E|?N];
  [ subst t'; rewrite set_thread_eq in H; inversion H; subst; clear H
  | rewrite set_thread_neq in H by assumption ].

Lemma in_remove_mid {A} (p1 p2 : list A) a x : In x (p1 ++ p2) -> In x (p1 ++ a :: p2).
Proof. intros H. apply in_app_or in H. apply in_or_app. destruct H; [left|right; right]; assumption. Qed.

(** a step that replaces thread [t] by one that holds the same buffer (or none) and leaves the
    pool and the allocator alone keeps the ownership part of the invariant *)
Lemma ownership_kept s t th th' h :
  inv s -> threads s t = Some th -> (held th' = held th \/ held th' = None) ->
  let s' := mkState h (pool s) (set_thread s t th') (fresh s) in
  NoDup (pool s') /\ (forall a, In a (pool s') -> a < fresh s') /\
  (forall t0 th0 a, threads s' t0 = Some th0 -> held th0 = Some a -> a < fresh s') /\
  (forall t0 th0 a, threads s' t0 = Some th0 -> held th0 = Some a -> ~ In a (pool s')) /\
  (forall t1 t2 th1 th2 a, threads s' t1 = Some th1 -> threads s' t2 = Some th2 -> held th1 = Some a -> held th2 = Some a -> t1 = t2).
Proof.
  intros I Ht Hh. cbn. repeat split.
  - apply I.
  - apply I.
  - intros t0 th0 a H Hha. thr t0 t H.
    + destruct Hh as [Hh|Hh]; rewrite Hh in Hha; [apply (i_held_lt s I t th a Ht Hha)|discriminate].
    + apply (i_held_lt s I t0 th0 a H Hha).
  - intros t0 th0 a H Hha. thr t0 t H.
    + destruct Hh as [Hh|Hh]; rewrite Hh in Hha; [apply (i_held_notin s I t th a Ht Hha)|discriminate].
    + apply (i_held_notin s I t0 th0 a H Hha).
  - intros t1 t2 th1 th2 a H1 H2 Hh1 Hh2. thr t1 t H1; thr t2 t H2; try reflexivity.
    + destruct Hh as [Hh|Hh]; rewrite Hh in Hh1; [|discriminate]. symmetry. apply (i_unique s I t2 t th2 th a H2 Ht Hh2 Hh1).
    + destruct Hh as [Hh|Hh]; rewrite Hh in Hh2; [|discriminate]. apply (i_unique s I t1 t th1 th a H1 Ht Hh1 Hh2).
    + apply (i_unique s I t1 t2 th1 th2 a H1 H2 Hh1 Hh2).
Qed.

(** other library threads never hold the buffer thread [t] holds *)
Lemma other_addr s t th a t' th' b : inv s -> threads s t = Some th -> held th = Some a ->
  t' <> t -> threads s t' = Some th' -> held th' = Some b -> b <> a.
Proof. intros I Ht Hh Hne H' Hb E. subst b. apply Hne. apply (i_unique s I t' t th' th a H' Ht Hb Hh). Qed.

Theorem inv_step s s' : inv s -> step s s' -> inv s'.
Proof.
  intros I Hs.
  destruct Hs as [s t k Hn | s t th a p1 p2 Ht Hpc Hp | s t th Ht Hpc | s t arg a k Ht Hk | s t arg a Ht
                 | s t arg a k acc Ht Hk | s t arg a acc Ht | s t a k j v Ht | s t a k Ht | s p1 a p2 Hp].
  - (* spawn *)
    constructor; cbn [heap pool threads fresh].
    + apply I.
    + apply I.
    + intros t0 th0 b H Hh. thr t0 t H; [discriminate|apply (i_held_lt s I t0 th0 b H Hh)].
    + intros t0 th0 b H Hh. thr t0 t H; [discriminate|apply (i_held_notin s I t0 th0 b H Hh)].
    + intros t1 t2 th1 th2 b H1 H2 Hh1 Hh2. thr t1 t H1; [discriminate|]. thr t2 t H2; [discriminate|].
      apply (i_unique s I t1 t2 th1 th2 b H1 H2 Hh1 Hh2).
    + intros t0 arg b k0 H. thr t0 t H. apply (i_w_le s I t0 arg b k0 H).
    + intros t0 arg b k0 H. thr t0 t H. apply (i_w_pre s I t0 arg b k0 H).
    + intros t0 arg b k0 acc H. thr t0 t H. apply (i_r_le s I t0 arg b k0 acc H).
    + intros t0 arg b k0 acc H. thr t0 t H. apply (i_r_acc s I t0 arg b k0 acc H).
    + intros t0 arg b k0 acc H. thr t0 t H. apply (i_r_all s I t0 arg b k0 acc H).
    + intros t0 arg out H. thr t0 t H. apply (i_fin s I t0 arg out H).
  - (* Get: a pooled buffer *)
    pose proof (i_nodup s I) as N. rewrite Hp in N.
    pose proof (NoDup_remove_1 _ _ _ N) as N1. pose proof (NoDup_remove_2 _ _ _ N) as N2.
    assert (In a (pool s)) as Hin by (rewrite Hp; apply in_or_app; right; left; reflexivity).
    constructor; cbn [heap pool threads fresh].
    + exact N1.
    + intros x Hx. apply (i_pool_lt s I). rewrite Hp. apply in_remove_mid. exact Hx.
    + intros t0 th0 b H Hh. thr t0 t H; [cbn in Hh; inversion Hh; subst; apply (i_pool_lt s I _ Hin)|apply (i_held_lt s I t0 th0 b H Hh)].
    + intros t0 th0 b H Hh. thr t0 t H; [cbn in Hh; inversion Hh; subst; exact N2|].
      intros Hb. apply (i_held_notin s I t0 th0 b H Hh). rewrite Hp. apply in_remove_mid. exact Hb.
    + intros t1 t2 th1 th2 b H1 H2 Hh1 Hh2. thr t1 t H1; thr t2 t H2; try reflexivity.
      * cbn in Hh1. inversion Hh1; subst. exfalso. apply (i_held_notin s I t2 th2 b H2 Hh2). exact Hin.
      * cbn in Hh2. inversion Hh2; subst. exfalso. apply (i_held_notin s I t1 th1 b H1 Hh1). exact Hin.
      * apply (i_unique s I t1 t2 th1 th2 b H1 H2 Hh1 Hh2).
    + intros t0 arg b k0 H. thr t0 t H; [lia|apply (i_w_le s I t0 arg b k0 H)].
    + intros t0 arg b k0 H. thr t0 t H; [intros j Hj; lia|apply (i_w_pre s I t0 arg b k0 H)].
    + intros t0 arg b k0 acc H. thr t0 t H. apply (i_r_le s I t0 arg b k0 acc H).
    + intros t0 arg b k0 acc H. thr t0 t H. apply (i_r_acc s I t0 arg b k0 acc H).
    + intros t0 arg b k0 acc H. thr t0 t H. apply (i_r_all s I t0 arg b k0 acc H).
    + intros t0 arg out H. thr t0 t H. apply (i_fin s I t0 arg out H).
  - (* Get: a fresh buffer *)
    constructor; cbn [heap pool threads fresh].
    + apply I.
    + intros x Hx. pose proof (i_pool_lt s I x Hx). lia.
    + intros t0 th0 b H Hh. thr t0 t H; [cbn in Hh; inversion Hh; subst; lia|pose proof (i_held_lt s I t0 th0 b H Hh); lia].
    + intros t0 th0 b H Hh. thr t0 t H; [cbn in Hh; inversion Hh; subst; intros Hb; pose proof (i_pool_lt s I _ Hb); lia|apply (i_held_notin s I t0 th0 b H Hh)].
    + intros t1 t2 th1 th2 b H1 H2 Hh1 Hh2. thr t1 t H1; thr t2 t H2; try reflexivity.
      * cbn in Hh1. inversion Hh1; subst. pose proof (i_held_lt s I t2 th2 _ H2 Hh2). lia.
      * cbn in Hh2. inversion Hh2; subst. pose proof (i_held_lt s I t1 th1 _ H1 Hh1). lia.
      * apply (i_unique s I t1 t2 th1 th2 b H1 H2 Hh1 Hh2).
    + intros t0 arg b k0 H. thr t0 t H; [lia|apply (i_w_le s I t0 arg b k0 H)].
    + intros t0 arg b k0 H. thr t0 t H; [intros j Hj; lia|apply (i_w_pre s I t0 arg b k0 H)].
    + intros t0 arg b k0 acc H. thr t0 t H. apply (i_r_le s I t0 arg b k0 acc H).
    + intros t0 arg b k0 acc H. thr t0 t H. apply (i_r_acc s I t0 arg b k0 acc H).
    + intros t0 arg b k0 acc H. thr t0 t H. apply (i_r_all s I t0 arg b k0 acc H).
    + intros t0 arg out H. thr t0 t H. apply (i_fin s I t0 arg out H).
  - (* one store of the call's own bytes *)
    destruct (ownership_kept s t _ (mkThread (Lib arg) (Writing a (S k))) (write (heap s) a k (nth k arg 0)) I Ht (or_introl eq_refl)) as [O1 [O2 [O3 [O4 O5]]]].
    constructor; cbn [heap pool threads fresh]; try assumption.
    + intros t0 arg0 b k0 H. thr t0 t H; [lia|apply (i_w_le s I t0 arg0 b k0 H)].
    + intros t0 arg0 b k0 H. thr t0 t H.
      * intros j0 Hj. destruct (Nat.eq_dec j0 k) as [->|Hjk]; [apply write_same|].
        rewrite write_same_other by exact Hjk. apply (i_w_pre s I t arg0 b k Ht). lia.
      * intros j0 Hj. rewrite write_other by (apply (other_addr s t _ a t0 _ b I Ht eq_refl N H eq_refl)).
        apply (i_w_pre s I t0 arg0 b k0 H). exact Hj.
    + intros t0 arg0 b k0 acc H. thr t0 t H. apply (i_r_le s I t0 arg0 b k0 acc H).
    + intros t0 arg0 b k0 acc H. thr t0 t H. apply (i_r_acc s I t0 arg0 b k0 acc H).
    + intros t0 arg0 b k0 acc H. thr t0 t H.
      intros j0 Hj. rewrite write_other by (apply (other_addr s t _ a t0 _ b I Ht eq_refl N H eq_refl)).
      apply (i_r_all s I t0 arg0 b k0 acc H). exact Hj.
    + intros t0 arg0 out H. thr t0 t H. apply (i_fin s I t0 arg0 out H).
  - (* all bytes written: start reading them back *)
    destruct (ownership_kept s t _ (mkThread (Lib arg) (Reading a 0 [])) (heap s) I Ht (or_introl eq_refl)) as [O1 [O2 [O3 [O4 O5]]]].
    constructor; cbn [heap pool threads fresh]; try assumption.
    + intros t0 arg0 b k0 H. thr t0 t H. apply (i_w_le s I t0 arg0 b k0 H).
    + intros t0 arg0 b k0 H. thr t0 t H. apply (i_w_pre s I t0 arg0 b k0 H).
    + intros t0 arg0 b k0 acc H. thr t0 t H; [lia|apply (i_r_le s I t0 arg0 b k0 acc H)].
    + intros t0 arg0 b k0 acc H. thr t0 t H; [reflexivity|apply (i_r_acc s I t0 arg0 b k0 acc H)].
    + intros t0 arg0 b k0 acc H. thr t0 t H; [apply (i_w_pre s I t arg0 b _ Ht)|apply (i_r_all s I t0 arg0 b k0 acc H)].
    + intros t0 arg0 out H. thr t0 t H. apply (i_fin s I t0 arg0 out H).
  - (* one load *)
    destruct (ownership_kept s t _ (mkThread (Lib arg) (Reading a (S k) (acc ++ [heap s a k]))) (heap s) I Ht (or_introl eq_refl)) as [O1 [O2 [O3 [O4 O5]]]].
    constructor; cbn [heap pool threads fresh]; try assumption.
    + intros t0 arg0 b k0 H. thr t0 t H. apply (i_w_le s I t0 arg0 b k0 H).
    + intros t0 arg0 b k0 H. thr t0 t H. apply (i_w_pre s I t0 arg0 b k0 H).
    + intros t0 arg0 b k0 acc0 H. thr t0 t H; [lia|apply (i_r_le s I t0 arg0 b k0 acc0 H)].
    + intros t0 arg0 b k0 acc0 H. thr t0 t H; [|apply (i_r_acc s I t0 arg0 b k0 acc0 H)].
      rewrite (i_r_acc s I t arg0 b k acc Ht). rewrite (i_r_all s I t arg0 b k acc Ht k Hk). apply firstn_snoc_nth. exact Hk.
    + intros t0 arg0 b k0 acc0 H. thr t0 t H; [apply (i_r_all s I t arg0 b k acc Ht)|apply (i_r_all s I t0 arg0 b k0 acc0 H)].
    + intros t0 arg0 out H. thr t0 t H. apply (i_fin s I t0 arg0 out H).
  - (* the deferred Put *)
    pose proof (i_held_lt s I t _ a Ht eq_refl) as Hlt. pose proof (i_held_notin s I t _ a Ht eq_refl) as Hnot.
    constructor; cbn [heap pool threads fresh].
    + constructor; [exact Hnot|apply I].
    + intros x [<-|Hx]; [exact Hlt|apply (i_pool_lt s I x Hx)].
    + intros t0 th0 b H Hh. thr t0 t H; [discriminate|apply (i_held_lt s I t0 th0 b H Hh)].
    + intros t0 th0 b H Hh. thr t0 t H; [discriminate|].
      intros [E|Hb]; [|apply (i_held_notin s I t0 th0 b H Hh); exact Hb].
      subst b. apply N. apply (i_unique s I t0 t th0 _ a H Ht Hh eq_refl).
    + intros t1 t2 th1 th2 b H1 H2 Hh1 Hh2. thr t1 t H1; [discriminate|]. thr t2 t H2; [discriminate|].
      apply (i_unique s I t1 t2 th1 th2 b H1 H2 Hh1 Hh2).
    + intros t0 arg0 b k0 H. thr t0 t H. apply (i_w_le s I t0 arg0 b k0 H).
    + intros t0 arg0 b k0 H. thr t0 t H. apply (i_w_pre s I t0 arg0 b k0 H).
    + intros t0 arg0 b k0 acc0 H. thr t0 t H. apply (i_r_le s I t0 arg0 b k0 acc0 H).
    + intros t0 arg0 b k0 acc0 H. thr t0 t H. apply (i_r_acc s I t0 arg0 b k0 acc0 H).
    + intros t0 arg0 b k0 acc0 H. thr t0 t H. apply (i_r_all s I t0 arg0 b k0 acc0 H).
    + intros t0 arg0 out H. thr t0 t H; [|apply (i_fin s I t0 arg0 out H)].
      rewrite (i_r_acc s I t arg0 a _ out Ht). apply firstn_all.
  - (* the adversary overwrites the buffer it holds *)
    assert (forall t0 arg0 pc0 b, threads s t0 = Some (mkThread (Lib arg0) pc0) -> held (mkThread (Lib arg0) pc0) = Some b -> b <> a) as Hother.
    { intros t0 arg0 pc0 b H1 H2 E. subst b.
      assert (t0 = t) as -> by (apply (i_unique s I t0 t _ _ a H1 Ht H2 eq_refl)). rewrite Ht in H1. discriminate. }
    constructor; cbn [heap pool threads fresh]; try apply I.
    + intros t0 arg0 b k0 H j0 Hj. rewrite write_other by (apply (Hother t0 arg0 _ b H eq_refl)). apply (i_w_pre s I t0 arg0 b k0 H j0 Hj).
    + intros t0 arg0 b k0 acc0 H j0 Hj. rewrite write_other by (apply (Hother t0 arg0 _ b H eq_refl)). apply (i_r_all s I t0 arg0 b k0 acc0 H j0 Hj).
  - (* the adversary puts its buffer back *)
    pose proof (i_held_lt s I t _ a Ht eq_refl) as Hlt. pose proof (i_held_notin s I t _ a Ht eq_refl) as Hnot.
    constructor; cbn [heap pool threads fresh].
    + constructor; [exact Hnot|apply I].
    + intros x [<-|Hx]; [exact Hlt|apply (i_pool_lt s I x Hx)].
    + intros t0 th0 b H Hh. thr t0 t H; [discriminate|apply (i_held_lt s I t0 th0 b H Hh)].
    + intros t0 th0 b H Hh. thr t0 t H; [discriminate|].
      intros [E|Hb]; [|apply (i_held_notin s I t0 th0 b H Hh); exact Hb].
      subst b. apply N. apply (i_unique s I t0 t th0 _ a H Ht Hh eq_refl).
    + intros t1 t2 th1 th2 b H1 H2 Hh1 Hh2. thr t1 t H1; [discriminate|]. thr t2 t H2; [discriminate|].
      apply (i_unique s I t1 t2 th1 th2 b H1 H2 Hh1 Hh2).
    + intros t0 arg0 b k0 H. thr t0 t H. apply (i_w_le s I t0 arg0 b k0 H).
    + intros t0 arg0 b k0 H. thr t0 t H. apply (i_w_pre s I t0 arg0 b k0 H).
    + intros t0 arg0 b k0 acc0 H. thr t0 t H. apply (i_r_le s I t0 arg0 b k0 acc0 H).
    + intros t0 arg0 b k0 acc0 H. thr t0 t H. apply (i_r_acc s I t0 arg0 b k0 acc0 H).
    + intros t0 arg0 b k0 acc0 H. thr t0 t H. apply (i_r_all s I t0 arg0 b k0 acc0 H).
    + intros t0 arg0 out H. thr t0 t H. apply (i_fin s I t0 arg0 out H).
  - (* the garbage collector drops a pooled buffer *)
    pose proof (i_nodup s I) as N. rewrite Hp in N. pose proof (NoDup_remove_1 _ _ _ N) as N1.
    constructor; cbn [heap pool threads fresh]; try apply I.
    + exact N1.
    + intros x Hx. apply (i_pool_lt s I). rewrite Hp. apply in_remove_mid. exact Hx.
    + intros t0 th0 b H Hh Hb. apply (i_held_notin s I t0 th0 b H Hh). rewrite Hp. apply in_remove_mid. exact Hb.
Qed.

Theorem inv_reachable s : reachable init s -> inv s.
Proof. intros H. induction H as [|s s' _ IH Hs]; [apply inv_init|apply (inv_step s s' IH Hs)]. Qed.

(** ---------- what the invariant gives ---------- *)
(** exclusivity: in every reachable state a buffer is held by at most one thread and is not in the
    pool while it is held *)
Theorem exclusive s : reachable init s ->
  forall t1 t2 th1 th2 a, threads s t1 = Some th1 -> threads s t2 = Some th2 -> held th1 = Some a -> held th2 = Some a ->
  t1 = t2 /\ ~ In a (pool s).
Proof.
  intros R t1 t2 th1 th2 a H1 H2 Hh1 Hh2. pose proof (inv_reachable s R) as I.
  split; [apply (i_unique s I t1 t2 th1 th2 a H1 H2 Hh1 Hh2)|apply (i_held_notin s I t1 th1 a H1 Hh1)].
Qed.

(** atomicity: whatever the other threads, the adversaries and the collector do, the bytes a
    library thread reads back from its buffer — the input of its HMAC — are its own arguments *)
Theorem atomic s : reachable init s ->
  forall t arg out, threads s t = Some (mkThread (Lib arg) (Finished out)) -> out = arg.
Proof. intros R. apply (i_fin s (inv_reachable s R)). Qed.

Theorem reads_own_bytes s : reachable init s ->
  forall t arg a k acc, threads s t = Some (mkThread (Lib arg) (Reading a k acc)) ->
  acc = firstn k arg /\ forall j, j < length arg -> heap s a j = nth j arg 0.
Proof.
  intros R t arg a k acc H. pose proof (inv_reachable s R) as I.
  split; [apply (i_r_acc s I t arg a k acc H)|apply (i_r_all s I t arg a k acc H)].
Qed.
