(** Model of decoder.go [DecodeSecret] and of the parts of the Go standard library it calls:
    strings.TrimSpace (rune-aware, transcribed at the byte level), strings.Repeat,
    strings.ToUpper (ASCII path: the alphabet check added by the fix guarantees ASCII),
    encoding/base32 StdEncoding.DecodeString (stripNewlines + decode, transcribed from
    go1.24.0 src/encoding/base32/base32.go). *)
From OtpV Require Import Prelude.
Open Scope N_scope.

(** ---- strings.TrimSpace ---- *)
Definition ascii_space (c : N) : bool :=
  (c =? 9) || (c =? 10) || (c =? 11) || (c =? 12) || (c =? 13) || (c =? 32).

(** UTF-8 encodings of the non-ASCII runes for which unicode.IsSpace is true:
    U+0085 U+00A0 U+1680 U+2000..U+200A U+2028 U+2029 U+202F U+205F U+3000 *)
Definition uni_spaces : list bytes :=
  [ [194;133]; [194;160]; [225;154;128];
    [226;128;128]; [226;128;129]; [226;128;130]; [226;128;131]; [226;128;132]; [226;128;133];
    [226;128;134]; [226;128;135]; [226;128;136]; [226;128;137]; [226;128;138];
    [226;128;168]; [226;128;169]; [226;128;175]; [226;129;159]; [227;128;128] ].

Fixpoint is_prefix (p s : bytes) : bool :=
  match p, s with
  | [], _ => true
  | a :: p', b :: s' => (a =? b) && is_prefix p' s'
  | _ :: _, [] => false
  end.

(** length of the space rune at the front of [s], 0 if the first rune is not a space *)
Definition space_prefix_len (s : bytes) : nat :=
  match s with
  | [] => O
  | c :: _ =>
    if ascii_space c then 1%nat
    else match find (fun u => is_prefix u s) uni_spaces with
         | Some u => length u
         | None => O
         end
  end.

Fixpoint trim_left_fuel (fuel : nat) (s : bytes) : bytes :=
  match fuel with
  | O => s
  | S f => match space_prefix_len s with
           | O => s
           | n => trim_left_fuel f (skipn n s)
           end
  end.
Definition trim_left (s : bytes) : bytes := trim_left_fuel (length s) s.

(** the same from the right, on the reversed string (DecodeLastRune finds exactly the
    byte sequences above when they are a suffix) *)
Definition space_suffix_len (r : bytes) : nat :=   (* r is the reversed string *)
  match r with
  | [] => O
  | c :: _ =>
    if ascii_space c then 1%nat
    else match find (fun u => is_prefix (rev u) r) uni_spaces with
         | Some u => length u
         | None => O
         end
  end.
Fixpoint trim_right_fuel (fuel : nat) (r : bytes) : bytes :=
  match fuel with
  | O => r
  | S f => match space_suffix_len r with
           | O => r
           | n => trim_right_fuel f (skipn n r)
           end
  end.
Definition trim_right (s : bytes) : bytes := frev (trim_right_fuel (length s) (frev s)).

Definition trim_space (s : bytes) : bytes := trim_right (trim_left s).

(** ---- ASCII upper-casing ---- *)
Definition upper_ascii (c : N) : N := if (97 <=? c) && (c <=? 122) then c - 32 else c.
Definition to_upper (s : bytes) : bytes := map upper_ascii s.

(** ---- the alphabet check of DecodeSecret (A-Z a-z 2-7 =) ---- *)
Definition in_alphabet_ci (c : N) : bool :=
  ((65 <=? c) && (c <=? 90)) || ((97 <=? c) && (c <=? 122)) || ((50 <=? c) && (c <=? 55)) || (c =? 61).

Fixpoint first_bad (i : Z) (s : bytes) : option Z :=
  match s with
  | [] => None
  | c :: t => if in_alphabet_ci c then first_bad (i + 1)%Z t else Some i
  end.

(** ---- encoding/base32 ---- *)
(** StdEncoding.decodeMap: 'A'..'Z' -> 0..25, '2'..'7' -> 26..31, everything else 0xFF *)
Definition decode_map (c : N) : N :=
  if (65 <=? c) && (c <=? 90) then c - 65
  else if (50 <=? c) && (c <=? 55) then c - 50 + 26
  else 255.

Definition strip_newlines (s : bytes) : bytes :=
  filter (fun b => negb ((b =? 13) || (b =? 10))) s.

Inductive qres :=
| QOk (dbuf : list N) (dlen : nat) (fin : bool) (rest : bytes)
| QErr (off : Z).

(** index of the first k < n with k < len src and src[k] <> '=' *)
Fixpoint bad_pad (n : nat) (k : Z) (src : bytes) : option Z :=
  match n with
  | O => None
  | S n' => match src with
            | [] => None
            | c :: t => if c =? 61 then bad_pad n' (k + 1)%Z t else Some k
            end
  end.

(** inner loop [for j := 0; j < 8;] — [k] = 8 - j iterations remain *)
Fixpoint quantum (k : nat) (j : nat) (dbuf : list N) (src : bytes) (olen : Z) : qres :=
  match k with
  | O => QOk dbuf 8 false src
  | S k' =>
    match src with
    | [] => QErr (olen - 0 - Z.of_nat j)%Z
    | c :: src' =>
      if (c =? 61) && (Nat.leb 2 j) && (Nat.ltb (length src') 8) then
        if Nat.ltb (length src' + j) 7 then QErr olen
        else match bad_pad (7 - j) 0%Z src' with
             | Some kk => QErr (olen - zlen src' + kk - 1)%Z
             | None =>
               if (Nat.eqb j 1) || (Nat.eqb j 3) || (Nat.eqb j 6)
               then QErr (olen - zlen src' - 1)%Z
               else QOk dbuf j true src'
             end
      else
        let v := decode_map c in
        if v =? 255 then QErr (olen - zlen src' - 1)%Z
        else quantum k' (S j) (dbuf ++ [v]) src' olen
    end
  end.

Definition shl8 (x n : N) : N := (N.shiftl x n) mod 256.

(** the [switch dlen] with fallthrough: 5 candidate bytes, of which the first [nbytes dlen] are written *)
Definition pack (dbuf : list N) : bytes :=
  let d i := nth i dbuf 0 in
  [ N.lor (shl8 (d 0%nat) 3) (N.shiftr (d 1%nat) 2);
    N.lor (N.lor (shl8 (d 1%nat) 6) (shl8 (d 2%nat) 1)) (N.shiftr (d 3%nat) 4);
    N.lor (shl8 (d 3%nat) 4) (N.shiftr (d 4%nat) 1);
    N.lor (N.lor (shl8 (d 4%nat) 7) (shl8 (d 5%nat) 2)) (N.shiftr (d 6%nat) 3);
    N.lor (shl8 (d 6%nat) 5) (d 7%nat) ].

Definition nbytes (dlen : nat) : nat :=
  match dlen with
  | 8 => 5 | 7 => 4 | 5 => 3 | 4 => 2 | 2 => 1 | _ => 0
  end%nat.

(** outer loop [for len(src) > 0 && !end]; returns the decoded bytes so far and the error offset *)
Fixpoint decode_loop (fuel : nat) (src : bytes) (olen : Z) (acc : bytes) : bytes * option Z :=
  match fuel with
  | O => match src with [] => (acc, None) | _ => (acc, Some (-1)%Z) end   (* out of fuel: never with fuel = len(src) *)
  | S f =>
    match src with
    | [] => (acc, None)
    | _ =>
      match quantum 8 0 [] src olen with
      | QErr off => (acc, Some off)
      | QOk dbuf dlen fin rest =>
        let acc' := acc ++ firstn (nbytes dlen) (pack dbuf) in
        if fin then (acc', None) else decode_loop f rest olen acc'
      end
    end
  end.

Definition b32_decode_string (s : bytes) : bytes * option Z :=
  let src := strip_newlines s in
  decode_loop (length src) src (zlen src) [].

(** ---- DecodeSecret ---- *)
Definition decode_secret (secret : bytes) : outcome bytes :=
  let s := trim_space secret in
  match first_bad 0%Z s with
  | Some i => Err (EBase32 i)
  | None =>
    let n := Nat.modulo (length s) 8 in
    let s := if Nat.eqb n 0 then s else s ++ repeat 61 (8 - n) in
    let s := to_upper s in
    match b32_decode_string s with
    | (bs, None) => Ok bs
    | (_, Some off) => Err (EBase32 off)
    end
  end.
