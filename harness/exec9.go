package main

func run9(f []string) (string, bool) { return "", false }
