(** C10 over the Go source: in the translation every index, slice expression, division, make, nil dereference and
    type assertion of the Go text is an operation that can answer Pnc, and every loop runs on fuel.  None of the
    translated entry points answers Pnc or runs out of fuel, for every argument value. *)
From OtpV Require Import Prelude Sha GoSem Tables Decoder Derive Otp Ocra Errors Src SrcLift SrcTop SrcEqDecode SrcEqDerive SrcEqOtp SrcEqOcraV SrcEqOcra C10.
Open Scope N_scope.

Theorem C10src_hotp : forall fuel junk secret code c p, runs fuel junk secret ->
  returns (Src.GenerateHOTP fuel junk secret c p) /\ returns (Src.ValidateHOTP fuel junk secret code c p).
Proof.
  intros fuel junk secret code c p (Hf & Hfs & Hs & Hj).
  rewrite src_GenerateHOTP_eq, src_ValidateHOTP_eq by (assumption || lia).
  destruct (C10_hotp secret code c p) as [H1 H2]. split; [apply lift_oc_returns|apply lift_v_returns]; assumption.
Qed.
Print Assumptions C10src_hotp.

Theorem C10src_totp : forall fuel junk secret code unix p, runs fuel junk secret ->
  returns (Src.GenerateTOTP fuel junk secret unix p) /\ returns (Src.ValidateTOTP fuel junk secret code unix p).
Proof.
  intros fuel junk secret code unix p (Hf & Hfs & Hs & Hj).
  rewrite src_GenerateTOTP_eq, src_ValidateTOTP_eq by (assumption || lia).
  destruct (C10_totp secret code unix p) as [H1 H2]. split; [apply lift_oc_returns|apply lift_v_returns]; assumption.
Qed.
Print Assumptions C10src_totp.

Theorem C10src_ocra : forall fuel junk jm secret code i, runs fuel junk secret -> small_input i ->
  (forall suite, returns (Src.GenerateOCRA fuel jm secret suite i) /\ returns (Src.ValidateOCRA fuel jm secret code suite i)).
Proof.
  intros fuel junk jm secret code i (Hf & Hfs & Hs & Hj) Hi [cfg'|].
  - rewrite src_GenerateOCRA_eq, src_ValidateOCRA_eq by (assumption || lia).
    destruct (C10_ocra secret code cfg' i) as (H1 & H2 & _). split; [apply lift_oc_returns|apply lift_v_returns]; assumption.
  - destruct (src_nil_suite fuel jm secret code i Hfs Hs) as ([e1 H1] & [e2 H2] & _). rewrite H1, H2. split; eexists; reflexivity.
Qed.
Print Assumptions C10src_ocra.

Theorem C10src_decode : forall fuel s, small s -> (length s < fuel)%nat -> returns (Src.DecodeSecret fuel s).
Proof.
  intros fuel s Hs Hf. pose proof (decode_cases fuel s Hs Hf) as H. pose proof (C10_decode_secret s) as Hn.
  destruct (decode_secret s) as [k|e|]; [eexists; exact H|destruct H as [b H]; eexists; exact H|congruence].
Qed.
Print Assumptions C10src_decode.

Theorem C10src_validators : forall cfg i,
  returns (Src.SuiteConfig_Validate cfg) /\ returns (Src.OCRAInput_Validate i cfg) /\ returns (Src.challengeLength (sc_challenge cfg)).
Proof.
  intros cfg i. rewrite src_SuiteConfig_Validate_eq, src_OCRAInput_Validate_eq, src_challengeLength_eq.
  repeat split; eexists; reflexivity.
Qed.
Print Assumptions C10src_validators.
