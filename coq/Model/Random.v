(** Model of RandomSecret (otp.go).  The random source is an explicit byte stream with a read
    position: rand.Read(buf) delivers the next len(buf) bytes of the stream (crypto/rand.Read
    fills the whole buffer or aborts the process; it never returns short).  The unpadded
    base32 *encoder* of the standard library is represented by its RFC 4648 specification
    (Spec/Rfc4648.v) and is compared with Go's encoder by the correspondence on every run. *)
From OtpV Require Import Prelude Rfc4648.
Open Scope N_scope.

Definition stream := nat -> N.
Definition take (s : stream) (pos n : nat) : bytes := map s (seq pos n).

Definition secret_size (algo : N) : option nat :=
  match algo with 0 => Some 20%nat | 1 => Some 32%nat | 2 => Some 64%nat | _ => None end.

(** func RandomSecret(algo Algorithm) (string, error): result and new stream position *)
Definition random_secret (algo : N) (s : stream) (pos : nat) : outcome bytes * nat :=
  match secret_size algo with
  | None => (Err (ESent ErrUnsupportedAlgorithm), pos)            (* returned before any read *)
  | Some n => (Ok (b32_nopad (take s pos n)), (pos + n)%nat)
  end.

(** a history of calls: the position each call started at, and its result *)
Fixpoint run_calls (s : stream) (pos : nat) (algos : list N) : list (nat * outcome bytes) :=
  match algos with
  | [] => []
  | a :: rest => let '(o, pos') := random_secret a s pos in (pos, o) :: run_calls s pos' rest
  end.
