(* GENERATED from /repo/errs.go by /verif/tools/gen_tables — do not edit. *)
From Coq Require Import List NArith. Import ListNotations. Open Scope N_scope.
Definition txt_ErrUnsupportedAlgorithm : list N := [117; 110; 115; 117; 112; 112; 111; 114; 116; 101; 100; 32; 97; 108; 103; 111; 114; 105; 116; 104; 109].
Definition txt_ErrInvalidCodeLength : list N := [105; 110; 118; 97; 108; 105; 100; 32; 99; 111; 100; 101; 32; 108; 101; 110; 103; 116; 104].
Definition txt_ErrInvalidCode : list N := [105; 110; 118; 97; 108; 105; 100; 32; 111; 116; 112; 32; 99; 111; 100; 101].
Definition txt_ErrIssuerRequired : list N := [105; 115; 115; 117; 101; 114; 32; 105; 115; 32; 114; 101; 113; 117; 105; 114; 101; 100].
Definition txt_ErrAccountNameRequired : list N := [97; 99; 99; 111; 117; 110; 116; 32; 110; 97; 109; 101; 32; 105; 115; 32; 114; 101; 113; 117; 105; 114; 101; 100].
Definition txt_ErrSecretRequired : list N := [115; 101; 99; 114; 101; 116; 32; 105; 115; 32; 114; 101; 113; 117; 105; 114; 101; 100].
Definition txt_ErrInvalidSkew : list N := [105; 110; 118; 97; 108; 105; 100; 32; 115; 107; 101; 119; 44; 32; 97; 32; 108; 97; 114; 103; 101; 114; 32; 83; 107; 101; 119; 32; 105; 110; 99; 114; 101; 97; 115; 101; 115; 32; 116; 104; 101; 32; 99; 104; 97; 110; 99; 101; 32; 111; 102; 32; 97; 32; 98; 114; 117; 116; 101; 45; 102; 111; 114; 99; 101; 32; 104; 105; 116].
Definition txt_ErrInvalidRawSuite : list N := [105; 110; 118; 97; 108; 105; 100; 32; 79; 67; 82; 65; 32; 115; 117; 105; 116; 101; 32; 115; 116; 114; 105; 110; 103].
