(** Model of hotp.go, totp.go, validate.go and the Param / TimeCounterFunc part of otp.go. *)
From OtpV Require Import Prelude Sha Tables Decoder Derive.
Open Scope N_scope.

(** type Param struct { Digits Digits(uint8); Period uint; Skew uint; Algorithm Algorithm(uint8) } *)
Record param := mkParam { p_digits : N; p_period : N; p_skew : N; p_alg : N }.

Definition param_of (t : N * N * N * N) : param :=
  let '(d, pe, sk, a) := t in mkParam d pe sk a.
Definition default_hotp_param : param := param_of default_hotp.
Definition default_totp_param : param := param_of default_totp.

(** a validation result: Go's (bool, error), plus the number of derivations performed *)
Definition verdict : Type := (bool * option err)%type.

Fixpoint bytes_eqb (a b : bytes) : bool :=
  match a, b with
  | [], [] => true
  | x :: a', y :: b' => (x =? y) && bytes_eqb a' b'
  | _, _ => false
  end.

(** func validate(code string, expectedLength int, deriveFn func() (string, error)) (bool, error)
    subtle.ConstantTimeCompare(x, y) == 1 iff x and y are equal byte strings. *)
Definition validate (code : bytes) (explen : Z) (derive : unit -> outcome bytes)
  : outcome verdict * nat :=
  if negb (zlen code =? explen)%Z then (Ok (false, Some (ESent ErrInvalidCodeLength)), O)
  else match derive tt with
       | Panic => (Panic, 1%nat)
       | Err e => (Ok (false, Some e), 1%nat)
       | Ok expected =>
         if bytes_eqb code expected then (Ok (true, None), 1%nat)
         else (Ok (false, Some (ESent ErrInvalidCode)), 1%nat)
       end.

Section WithHmac.
  Variable hm : alg -> bytes -> bytes -> bytes.
  Let derive := derive_rfc4226_with hm.

  Definition validate_rfc4226 (code secret : bytes) (counter : N) (digits : N) (algo : N) :=
    validate code (Z.of_N digits) (fun _ => derive secret counter (Z.of_N digits) algo).

  (** ---------------- hotp.go ---------------- *)
  Definition generate_hotp_with (secret : bytes) (counter : N) (p : option param) : outcome bytes :=
    let p := match p with None => default_hotp_param | Some p => p end in
    obind (decode_secret secret) (fun key =>
      derive key counter (Z.of_N (p_digits p)) (p_alg p)).

  (** the offsets i = -skew .. skew of the window loop *)
  Definition offsets (skew : N) : list Z :=
    map (fun k => (Z.of_nat k - Z.of_N skew)%Z) (seq 0 (2 * N.to_nat skew + 1)).

  (** [for i := -skew; i <= skew; i++ { ... }] of ValidateHOTP, one list element per iteration *)
  Fixpoint hotp_loop (offs : list Z) (code key : bytes) (counter digits algo : N) (cost : nat)
    : outcome verdict * nat :=
    match offs with
    | [] => (Ok (false, Some (ESent ErrInvalidCode)), cost)
    | i :: rest =>
      if (i <? 0)%Z && (counter <? of_int64 (- i)) then
        hotp_loop rest code key counter digits algo cost            (* continue: prevent underflow *)
      else
        let c := if (i <? 0)%Z then sub64 counter (of_int64 (- i)) else wrap64 (counter + of_int64 i) in
        match validate_rfc4226 code key c digits algo with
        | (Ok (true, None), k) => (Ok (true, None), (cost + k)%nat)
        | (Ok _, k) => hotp_loop rest code key counter digits algo (cost + k)%nat
        | (o, k) => (o, (cost + k)%nat)                                (* a panic propagates *)
        end
    end.

  Definition skew_refused (bound : option N) (skew : N) : bool :=
    match bound with Some b => b <? skew | None => false end.

  Definition validate_hotp_with (secret code : bytes) (counter : N) (p : option param)
    : outcome verdict * nat :=
    let p := match p with None => default_hotp_param | Some p => p end in
    if skew_refused hotp_max_skew (p_skew p) then (Ok (false, Some (ESent ErrInvalidSkew)), O)
    else
      match decode_secret secret with
      | Panic => (Panic, O)
      | Err e => (Ok (false, Some e), O)
      | Ok key => hotp_loop (offsets (p_skew p)) code key counter (p_digits p) (p_alg p) O
      end.

  (** ---------------- totp.go ---------------- *)
  (** var TimeCounterFunc = func(t time.Time, period uint) uint64 { return uint64(t.Unix()) / uint64(period) } *)
  Definition time_counter (unix : Z) (period : N) : outcome N :=
    if period =? 0 then Panic else Ok (of_int64 unix / period).

  Definition eff_period (dflt : option N) (period : N) : N :=
    match dflt with Some d => if period =? 0 then d else period | None => period end.

  Definition generate_totp_with (secret : bytes) (unix : Z) (p : option param) : outcome bytes :=
    let p := match p with None => default_totp_param | Some p => p end in
    obind (decode_secret secret) (fun key =>
    obind (time_counter unix (eff_period totp_gen_zero_period (p_period p))) (fun c =>
      derive key c (Z.of_N (p_digits p)) (p_alg p))).

  Fixpoint totp_loop (offs : list Z) (code key : bytes) (counter digits algo : N) (cost : nat)
    : outcome verdict * nat :=
    match offs with
    | [] => (Ok (false, Some (ESent ErrInvalidCode)), cost)
    | i :: rest =>
      match validate_rfc4226 code key (wrap64 (counter + of_int64 i)) digits algo with
      | (Ok (true, None), k) => (Ok (true, None), (cost + k)%nat)
      | (Ok _, k) => totp_loop rest code key counter digits algo (cost + k)%nat
      | (o, k) => (o, (cost + k)%nat)
      end
    end.

  Definition validate_totp_with (secret code : bytes) (unix : Z) (p : option param)
    : outcome verdict * nat :=
    let p := match p with None => default_totp_param | Some p => p end in
    if skew_refused totp_max_skew (p_skew p) then (Ok (false, Some (ESent ErrInvalidSkew)), O)
    else
      match decode_secret secret with
      | Panic => (Panic, O)
      | Err e => (Ok (false, Some e), O)
      | Ok key =>
        match time_counter unix (eff_period totp_val_zero_period (p_period p)) with
        | Ok counter => totp_loop (offsets (p_skew p)) code key counter (p_digits p) (p_alg p) O
        | Err e => (Ok (false, Some e), O)
        | Panic => (Panic, O)
        end
      end.
End WithHmac.

Definition generate_hotp := generate_hotp_with hmac.
Definition validate_hotp := validate_hotp_with hmac.
Definition generate_totp := generate_totp_with hmac.
Definition validate_totp := validate_totp_with hmac.
