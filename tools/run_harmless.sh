#!/bin/sh
# run_harmless.sh [id ...]: apply each semantics-preserving rewrite of harmless/ to the repository named by VERIF_REPO /
# VP_RUN_REPO (never /repo itself when started through `vp run --with-repo`), run the checks of the properties whose
# code it touches, and print every check that raises an alarm (there must be none).
cd "$(dirname "$0")/.."
ROOT=$(pwd)
REPO=${VP_RUN_REPO:-${VERIF_REPO:-/repo}}
export VERIF_REPO=$REPO
[ "$(cd $REPO && pwd -P)" = "/repo" ] && { echo "refusing to patch /repo itself: start through vp run --with-repo or set VERIF_REPO to a scratch worktree"; exit 2; }
[ -x bin/harness ] && [ -x bin/model_runner ] || bin/setup >/dev/null 2>&1 || { echo "setup failed"; exit 2; }
IDS="$*"; [ -n "$IDS" ] || IDS=$(ls harmless)
for id in $IDS; do
  P=harmless/$id/patch.diff; [ -f $P ] || continue
  files=$(grep '^+++ b/' $P | sed 's/+++ b\///')
  checks=""
  for f in $files; do
    case $f in
      derive.go|derive_rfc4226.go) checks="$checks C01 C02 C03 C04 C05 C09 C10 C11 C12 C13";;
      derive_rfc6287.go|ocra*.go) checks="$checks C05 C06 C09 C10 C11 C12 C14";;
      hotp.go) checks="$checks C01 C03 C09 C10 C13 C16";;
      totp.go) checks="$checks C02 C04 C09 C10 C13 C16";;
      validate.go) checks="$checks C03 C04 C06 C09 C13";;
      otp.go|param.go|secret.go) checks="$checks C02 C08 C10 C14 C16 C17";;
      suite*.go) checks="$checks C10 C14 C15";;
      utils.go|bigendian.go) checks="$checks C10 C17";;
      decoder.go) checks="$checks C07 C10";;
      wasm/*|*_wasm.go|otp-js/*) checks="$checks C09 C20";;
      internal/app/*) checks="$checks C09 C11 C12 C18 C19";;
    esac
  done
  checks=$(echo $checks | tr ' ' '\n' | sort -u | tr '\n' ' ')
  git -C $REPO checkout -q -- . ; git -C $REPO clean -fdq; git -C $REPO apply $ROOT/$P || { echo "$id APPLY-FAILED"; continue; }
  alarms=""; broken=""
  for c in $checks; do
    out=$(bin/check $c 2>&1); rc=$?
    [ $rc -ne 0 ] && alarms="$alarms $c"
    python3 - "$c" <<'PY' >> /tmp/harmless_tie.$$ 2>/dev/null
import json,sys
c=sys.argv[1]
try:
    d=json.load(open('work/evidence_other_tree/%s.json'%c))['coverage'].get('source_tie')
    if d and d.get('failed'): print(c)
except Exception: pass
PY
  done
  broken=$(sort -u /tmp/harmless_tie.$$ 2>/dev/null | tr '\n' ' '); rm -f /tmp/harmless_tie.$$
  git -C $REPO checkout -q -- . ; git -C $REPO clean -fdq
  echo "$id checks:[$checks] alarms:[${alarms:- none}] source-tie-broken:[${broken:-none}]"
done
