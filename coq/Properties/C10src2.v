(** C10 over the Go source, second part: the suite parser and registry functions, the input helpers and the URL
    functions as translated never answer Pnc or run out of fuel (MustHexPadLeft is one of the two documented Must*
    helpers and is excluded, as in the property). *)
From OtpV Require Import Prelude Sha GoSem Tables Decoder Derive Otp Ocra Utils Random Suite Url Errors Src SrcLift SrcTop SrcEqOcraV SrcEqSuite SrcEqUtils SrcEqUrl C10.
Open Scope N_scope.

Theorem C10src_suites : forall fuel raw cfg, small raw ->
  returns (Src.NewRawSuite fuel raw) /\ returns (Src.parseRawSuite fuel raw) /\ returns (Src.NewSuite cfg) /\
  returns (Src.IsKnownSuite raw) /\ returns (Src.SuiteConfigFromRaws raw).
Proof.
  intros fuel raw cfg Hs. destruct (C10_suites raw cfg) as (H1 & H2 & H3).
  rewrite src_NewRawSuite_eq, src_parseRawSuite_eq, src_NewSuite_eq, src_IsKnownSuite_eq, src_SuiteConfigFromRaws_eq by exact Hs.
  repeat split; try (apply lift_cfg_returns; assumption); try (eexists; reflexivity).
Qed.
Print Assumptions C10src_suites.

Theorem C10src_helpers : forall fuel s c q p se t n, (258 <= fuel)%nat -> small s -> (n < 4611686018427387904)%Z ->
  returns (Src.To8ByteBigEndian fuel 0) /\ returns (Src.ParseDecimalToBigEndian8 fuel s) /\ returns (Src.ParseDecimal64BigEndian fuel s) /\
  returns (Src.ParseHexTimestamp fuel s) /\ returns (Src.ParseDecimalChallengeRFC6287 fuel s) /\
  returns (Src.HexInputToOCRA c q p se t) /\ returns (Src.LeftPadHex s n).
Proof.
  intros fuel s c q p se t n Hf Hs Hn. destruct (C10_helpers s c q p se t n) as (H1 & H2 & H3 & H4 & H5).
  rewrite src_To8ByteBigEndian_eq, src_ParseDecimalToBigEndian8_eq, src_ParseDecimal64BigEndian_eq, src_ParseHexTimestamp_eq,
    src_ParseDecimalChallengeRFC6287_eq, src_HexInputToOCRA_eq by lia.
  rewrite src_LeftPadHex_eq by (assumption || lia).
  repeat split; try (apply lift_oc_returns; assumption); try (eexists; reflexivity).
  - unfold lift_in. destruct (hex_input_to_ocra c q p se t) as [x|e|]; [eexists; reflexivity|eexists; reflexivity|congruence].
  - destruct (left_pad_hex s n) as [x|e|] eqn:E; [eexists; reflexivity| |congruence].
    exfalso. unfold left_pad_hex in E. destruct (n <=? 0)%Z; [discriminate|]. destruct (n <=? zlen s)%Z; discriminate.
Qed.
Print Assumptions C10src_helpers.

Theorem C10src_urls : forall fuel p u, (forall u', u = Some u' -> all_ascii (u_host u') = true) ->
  returns (Src.GenerateTOTPURL fuel p) /\ returns (Src.GenerateHOTPURL fuel p) /\ returns (Src.ParseOTPAuthURL u).
Proof.
  intros fuel p u Ha. destruct (C10_urls p u) as (H1 & H2 & H3).
  rewrite src_GenerateTOTPURL_eq, src_GenerateHOTPURL_eq, src_ParseOTPAuthURL_eq by exact Ha.
  repeat split.
  - unfold lift_url. destruct (generate_totp_url p); [eexists; reflexivity|eexists; reflexivity|congruence].
  - unfold lift_url. destruct (generate_hotp_url p); [eexists; reflexivity|eexists; reflexivity|congruence].
  - unfold lift_up. destruct (parse_otpauth_url u); [eexists; reflexivity|eexists; reflexivity|congruence].
Qed.
Print Assumptions C10src_urls.

Theorem C10src_random : forall junk algo, (64 <= length junk)%nat -> returns (Src.RandomSecret junk algo).
Proof.
  intros junk algo Hl. rewrite src_RandomSecret_eq by exact Hl. destruct (secret_size algo); eexists; reflexivity.
Qed.
Print Assumptions C10src_random.
