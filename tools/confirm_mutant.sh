#!/bin/sh
# confirm_mutant.sh <seeded-dir>: in a scratch worktree of /repo's HEAD confirm that the patch applies, builds,
# passes the existing suite, and that the demonstration fails with it and passes without it.
# Prints one line: <id> apply=ok build=ok suite=pass demo_with=FAIL demo_without=PASS
D=$(cd "$1" && pwd); ID=$(basename "$D")
WT=/tmp/mutwt-$ID-$$
git -C /repo worktree add -q --detach "$WT" HEAD || exit 2
cleanup() { git -C /repo worktree remove --force "$WT" >/dev/null 2>&1; rm -rf "$WT"; }
trap cleanup EXIT
cd "$WT"
TAGS="c01demo c02demo c03demo c04demo c05demo c06demo c07demo c08demo c09demo c10demo c11demo c12demo c13demo c14demo c15demo c16demo c17demo c18demo c19demo c20demo mutantdemo seeddemo demo"
rundemo() {
  if [ -f "$D/demo.js" ]; then
    node "$D/demo.js" "$WT"
  elif grep -q '^package api' "$D/demo_test.go"; then
    cp "$D/demo_test.go" internal/app/api/zz_seed_demo_test.go
    (cd internal/app && go test -vet=off -count=1 -tags "$TAGS" ./api/); rc=$?
    rm -f internal/app/api/zz_seed_demo_test.go; return $rc
  elif grep -q 'js && wasm' "$D/demo_test.go"; then
    cp "$D/demo_test.go" ./zz_seed_demo_test.go
    GOOS=js GOARCH=wasm go test -vet=off -count=1 -tags "$TAGS" -exec="bash $(go env GOROOT)/lib/wasm/go_js_wasm_exec" -run TestC09M2 . ; rc=$?
    rm -f zz_seed_demo_test.go; return $rc
  else
    cp "$D/demo_test.go" ./zz_seed_demo_test.go
    go test -vet=off -count=1 -tags "$TAGS" . ; rc=$?
    rm -f zz_seed_demo_test.go; return $rc
  fi
}
A=ok; git apply "$D/patch.diff" 2>/dev/null || A=FAIL
B=ok; (go build ./... && GOOS=js GOARCH=wasm go build -o /dev/null ./wasm && cd internal/app && go build ./...) >/dev/null 2>&1 || B=FAIL
S=pass; (go test -vet=off -count=1 ./... && cd internal/app && go test -vet=off -count=1 ./...) >/dev/null 2>&1 || S=FAIL
W=PASS; rundemo >/dev/null 2>&1 || W=FAIL
git checkout -q -- .
O=PASS; rundemo >/dev/null 2>&1 || O=FAIL
echo "$ID apply=$A build=$B suite=$S demo_with=$W demo_without=$O"
