(** decoder.go as translated from the Go source (Generated/Src.v) computes what the hand-written model computes. *)
From Coq Require Import ZifyN ZifyNat ZifyBool String.
From OtpV Require Import Prelude Sha Tables GoSem Errors Decoder Derive Otp Suite Src SrcLift SrcTop.
Open Scope N_scope.
Ltac Zify.zify_post_hook ::= Z.div_mod_to_equations.

(** ---------- DecodeSecret ---------- *)
Lemma bad_char_cond c :
  (((((N.ltb c 65) || (N.ltb 90 c)) && ((N.ltb c 97) || (N.ltb 122 c))) && ((N.ltb c 50) || (N.ltb 55 c))) && (negb (N.eqb c 61)))
  = negb (in_alphabet_ci c).
Proof. unfold in_alphabet_ci. lia. Qed.

Lemma in_alphabet_ascii c : in_alphabet_ci c = true -> c < 128.
Proof. unfold in_alphabet_ci. lia. Qed.

Lemma first_bad_none_all i s : first_bad i s = None -> Forall (fun c => in_alphabet_ci c = true) s.
Proof.
  revert i. induction s as [|c t IH]; intros i H; [constructor|].
  cbn [first_bad] in H. destruct (in_alphabet_ci c) eqn:E; [|discriminate].
  constructor; [exact E|apply (IH _ H)].
Qed.

Lemma src_DecodeSecret_loop secret f0 kx : small secret ->
  forall rest pre fuel, secret = pre ++ rest -> (length rest < fuel)%nat ->
  Src.DecodeSecret_loop1 fuel f0 secret (Z.of_nat (length pre)) kx =
  match first_bad (Z.of_nat (length pre)) rest with
  | Some j => Val ([], Some (EBase32 j))
  | None => kx (zlen secret)
  end.
Proof.
  intros Hs. induction rest as [|c t IH]; intros pre fuel Hsec Hf.
  - destruct fuel as [|fuel]; [simpl in Hf; lia|].
    cbn [Src.DecodeSecret_loop1 first_bad]. rewrite app_nil_r in Hsec. subst pre.
    unfold zlen. rewrite Z.ltb_irrefl. reflexivity.
  - destruct fuel as [|fuel]; [simpl in Hf; lia|]. cbn [length] in Hf.
    cbn [Src.DecodeSecret_loop1 first_bad].
    assert (Hlen : length secret = (length pre + S (length t))%nat) by (rewrite Hsec, app_length; reflexivity).
    unfold small, zlen in Hs.
    destruct (Z.ltb (Z.of_nat (length pre)) (zlen secret)) eqn:E; [|unfold zlen in E; lia].
    rewrite idx_nat. rewrite Hsec at 1. rewrite nth_error_app2 by lia. rewrite Nat.sub_diag. cbn [nth_error rbind].
    rewrite bad_char_cond. destruct (in_alphabet_ci c); cbn [negb]; [|reflexivity].
    rewrite wrap_int64_small by lia.
    replace (Z.of_nat (length pre) + 1)%Z with (Z.of_nat (length (pre ++ [c]))) by (rewrite app_length; cbn [length]; lia).
    apply IH; [rewrite <- app_assoc; exact Hsec|lia].
Qed.

Lemma str_repeat_eq k : (0 <= k)%Z -> str_repeat (s2b "="%string) k = Val (repeat 61 (Z.to_nat k)).
Proof.
  intros H. unfold str_repeat. destruct (k <? 0)%Z eqn:E; [lia|]. f_equal.
  generalize (Z.to_nat k). intros n. induction n as [|n IH]; [reflexivity|].
  cbn [repeat concat]. rewrite IH. reflexivity.
Qed.

(** the bytes returned next to an error are not looked at by any caller: results are compared up to them *)
Definition norm (r : res (bytes * option err)) : res (bytes * option err) :=
  match r with Val (_, Some e) => Val ([], Some e) | x => x end.

Lemma src_DecodeSecret_eq fuel secret : small secret -> (length secret < fuel)%nat ->
  norm (Src.DecodeSecret fuel secret) = lift_oc (decode_secret secret).
Proof.
  intros Hs Hf. unfold Src.DecodeSecret, decode_secret.
  assert (Hts : (length (trim_space secret) <= length secret)%nat).
  { unfold trim_space, trim_right, trim_left. rewrite frev_rev, rev_length.
    assert (forall f r, (length (trim_right_fuel f r) <= length r)%nat) as HR.
    { induction f as [|f IH]; intros r; cbn [trim_right_fuel]; [lia|].
      destruct (space_suffix_len r); [lia|]. etransitivity; [apply IH|]. rewrite skipn_length. lia. }
    assert (forall f r, (length (trim_left_fuel f r) <= length r)%nat) as HL.
    { induction f as [|f IH]; intros r; cbn [trim_left_fuel]; [lia|].
      destruct (space_prefix_len r); [lia|]. etransitivity; [apply IH|]. rewrite skipn_length. lia. }
    etransitivity; [apply HR|]. rewrite frev_rev, rev_length. apply HL. }
  set (s := trim_space secret) in *.
  assert (Hss : small s) by (unfold small, zlen in *; lia).
  rewrite (src_DecodeSecret_loop s fuel _ Hss s [] fuel eq_refl) by lia.
  cbn [length Z.of_nat].
  destruct (first_bad 0 s) as [j|] eqn:Efb; [reflexivity|].
  apply first_bad_none_all in Efb.
  unfold zlen.
  assert (Hrem : Z.rem (Z.of_nat (length s)) 8 = Z.of_nat (Nat.modulo (length s) 8)).
  { rewrite Z.rem_mod_nonneg by lia. rewrite Nat2Z.inj_mod. reflexivity. }
  rewrite Hrem.
  pose proof (Nat.mod_upper_bound (length s) 8 ltac:(lia)) as Hm.
  set (n := Nat.modulo (length s) 8) in *.
  assert (Hup : forall x, Forall (fun c => in_alphabet_ci c = true) x -> to_upper_u x = to_upper x).
  { intros x Hx. apply to_upper_u_ascii. eapply Forall_impl; [|exact Hx]. intros c. apply in_alphabet_ascii. }
  assert (Hfin : forall x, norm (Val (b32_decode_go x)) =
          lift_oc (match b32_decode_string x with (bs, None) => Ok bs | (_, Some off) => Err (EBase32 off) end)).
  { intros x. unfold b32_decode_go. destruct (b32_decode_string x) as [bs [off|]]; reflexivity. }
  destruct (Nat.eqb_spec n 0) as [En|En].
  - rewrite En. cbn [Z.of_nat Z.eqb negb]. rewrite Hup by exact Efb. apply Hfin.
  - destruct (Z.eqb (Z.of_nat n) 0) eqn:Ez; [lia|]. cbn [negb].
    rewrite wrap_int64_small by lia. rewrite str_repeat_eq by lia. cbn [rbind].
    replace (Z.to_nat (8 - Z.of_nat n)) with (8 - n)%nat by lia.
    rewrite Hup.
    + apply Hfin.
    + apply Forall_app. split; [exact Efb|]. apply Forall_forall. intros y Hy. apply repeat_spec in Hy. subst y. reflexivity.
Qed.

Lemma decode_cases fuel secret : small secret -> (length secret < fuel)%nat ->
  match decode_secret secret with
  | Ok key => Src.DecodeSecret fuel secret = Val (key, None)
  | Err e => exists b, Src.DecodeSecret fuel secret = Val (b, Some e)
  | Panic => Src.DecodeSecret fuel secret = Pnc
  end.
Proof.
  intros Hs Hf. pose proof (src_DecodeSecret_eq fuel secret Hs Hf) as H.
  destruct (decode_secret secret) as [key|e|]; destruct (Src.DecodeSecret fuel secret) as [[b [e'|]]| |];
    cbn [norm lift_oc] in H; try discriminate; try (inversion H; subst); eauto.
Qed.


Lemma src_decode_ok fuel secret key : small secret -> (length secret < fuel)%nat ->
  Src.DecodeSecret fuel secret = Val (key, None) <-> decode_secret secret = Ok key.
Proof.
  intros Hs Hf. pose proof (decode_cases fuel secret Hs Hf) as H.
  destruct (decode_secret secret) as [k|e|]; split; intros H1.
  - rewrite H in H1. inversion H1. reflexivity.
  - inversion H1; subst. exact H.
  - destruct H as [b H]. rewrite H in H1. discriminate.
  - discriminate.
  - rewrite H in H1. discriminate.
  - discriminate.
Qed.

Lemma src_decode_err fuel secret e : small secret -> (length secret < fuel)%nat ->
  (exists b, Src.DecodeSecret fuel secret = Val (b, Some e)) <-> decode_secret secret = Err e.
Proof.
  intros Hs Hf. pose proof (decode_cases fuel secret Hs Hf) as H.
  destruct (decode_secret secret) as [k|e'|]; split; intros H1.
  - destruct H1 as [b H1]. rewrite H in H1. discriminate.
  - discriminate.
  - destruct H as [b H]. destruct H1 as [b' H1]. rewrite H in H1. inversion H1. reflexivity.
  - inversion H1; subst. exact H.
  - destruct H1 as [b H1]. rewrite H in H1. discriminate.
  - discriminate.
Qed.

