(** The strict reader of suite names recovers the abstract name from its printed form, hence the
    printer is injective: "what the string says" is well defined (C15). *)
From Coq Require Import String ZifyN ZifyNat ZifyBool.
From OtpV Require Import Prelude Sha Errors Ocra Utils Suite Rfc4226 SuiteName DeriveProofs UtilsProofs SuiteProofs.
Open Scope N_scope.
Ltac Zify.zify_post_hook ::= Z.to_euclidean_division_equations.

(** ---------- canonical numerals ---------- *)
Lemma dec_digits_fuel_head fuel : forall n acc,
  n < 2 ^ N.of_nat fuel -> (1 <= fuel)%nat -> n <> 0 ->
  exists c t, dec_digits_fuel fuel n acc = c :: t ++ acc /\ c <> 48.
Proof.
  induction fuel as [|f IH]; intros n acc Hn Hf Hz; [lia|].
  cbn [dec_digits_fuel]. destruct (N.eqb_spec (n / 10) 0) as [E|E].
  - exists (48 + n mod 10), []. split; [reflexivity|]. lia.
  - assert (n / 10 < 2 ^ N.of_nat f) as Hlt by (rewrite Nat2N.inj_succ, N.pow_succ_r' in Hn; lia).
    assert (1 <= f)%nat as Hf1 by (destruct f; [cbn in Hlt; lia|lia]).
    destruct (IH (n / 10) ((48 + n mod 10) :: acc) Hlt Hf1 E) as [c [t [E1 E2]]].
    exists c, (t ++ [48 + n mod 10]). split; [rewrite E1, <- app_assoc; reflexivity|exact E2].
Qed.

Lemma dec_of_N_head n : n <> 0 -> exists c t, dec_of_N n = c :: t /\ c <> 48.
Proof.
  intros Hz. unfold dec_of_N.
  destruct (dec_digits_fuel_head (S (N.to_nat (N.log2 n))) n []) as [c [t [E1 E2]]]; try lia.
  - rewrite Nat2N.inj_succ, N2Nat.id. destruct n as [|p]; [congruence|]. apply N.log2_spec. lia.
  - exists c, t. rewrite E1, app_nil_r. auto.
Qed.

Lemma dec_of_N_zero : dec_of_N 0 = [48].
Proof. reflexivity. Qed.

Lemma numeral_value_dec_val s : numeral_value s = dec_val s.
Proof. reflexivity. Qed.

Lemma forallb_digitb s : digits_only s -> forallb digitb s = true.
Proof.
  intros H. apply forallb_forall. intros x Hx. unfold digits_only in H. rewrite Forall_forall in H. specialize (H x Hx).
  unfold digitb. lia.
Qed.

Lemma read_numeral_nz c t : c <> 48 ->
  read_numeral (c :: t) = if forallb digitb (c :: t) then Some (numeral_value (c :: t)) else None.
Proof.
  intros H. unfold read_numeral. destruct c as [|p]; [reflexivity|].
  do 6 (destruct p as [p|p|]; try reflexivity). congruence.
Qed.

Theorem read_numeral_dec n : read_numeral (dec_of_N n) = Some n.
Proof.
  destruct (N.eq_dec n 0) as [->|Hz]; [reflexivity|].
  destruct (dec_of_N_spec n) as [Hne [Hd Hv]]. destruct (dec_of_N_head n Hz) as [c [t [E Hc]]].
  assert (forallb digitb (dec_of_N n) = true) as Hall by (apply forallb_digitb; exact Hd).
  rewrite E in *. rewrite read_numeral_nz by exact Hc. rewrite Hall, numeral_value_dec_val, Hv. reflexivity.
Qed.

(** ---------- cutting ---------- *)
Lemma cut_aux_app sep a b acc : Forall (fun c => c <> sep) a -> cut_aux sep (a ++ sep :: b) acc = Some (rev acc ++ a, b).
Proof.
  revert acc. induction a as [|x t IH]; intros acc H; cbn [app cut_aux].
  - rewrite N.eqb_refl, frev_rev, app_nil_r. reflexivity.
  - apply Forall_cons_iff in H. destruct H as [Hx Ht]. destruct (N.eqb_spec x sep); [contradiction|].
    rewrite IH by exact Ht. cbn [rev]. rewrite <- app_assoc. reflexivity.
Qed.
Lemma cut_aux_none sep a acc : Forall (fun c => c <> sep) a -> cut_aux sep a acc = None.
Proof.
  revert acc. induction a as [|x t IH]; intros acc H; cbn [cut_aux]; [reflexivity|].
  apply Forall_cons_iff in H. destruct H as [Hx Ht]. destruct (N.eqb_spec x sep); [contradiction|]. apply IH. exact Ht.
Qed.
Lemma cut_app sep a b : Forall (fun c => c <> sep) a -> cut sep (a ++ sep :: b) = Some (a, b).
Proof. intros H. unfold cut. rewrite cut_aux_app by exact H. reflexivity. Qed.
Lemma cut_none sep a : Forall (fun c => c <> sep) a -> cut sep a = None.
Proof. intros H. unfold cut. apply cut_aux_none. exact H. Qed.

Lemma cut_all_fuel_join sep : forall l fuel,
  l <> [] -> Forall (fun t => Forall (fun c => c <> sep) t) l -> (length l <= S fuel)%nat ->
  cut_all_fuel fuel sep (join sep l) = l.
Proof.
  induction l as [|x t IH]; intros fuel Hne H Hf; [congruence|].
  apply Forall_cons_iff in H. destruct H as [Hx Ht].
  destruct t as [|y t'].
  - cbn [join]. destruct fuel as [|f]; [reflexivity|]. cbn [cut_all_fuel]. rewrite cut_none by exact Hx. reflexivity.
  - change (join sep (x :: y :: t')) with (x ++ sep :: join sep (y :: t')).
    destruct fuel as [|f]; [cbn [length] in Hf; lia|]. cbn [cut_all_fuel]. rewrite cut_app by exact Hx.
    f_equal. apply IH; [discriminate|exact Ht|cbn [length] in *; lia].
Qed.

Lemma join_length_ge sep (l : list bytes) : (length l <= S (length (join sep l)))%nat.
Proof.
  induction l as [|x t IH]; [simpl; lia|]. destruct t as [|y t']; [simpl; lia|].
  change (join sep (x :: y :: t')) with (x ++ sep :: join sep (y :: t')). rewrite app_length. cbn [length] in *. lia.
Qed.

Lemma cut_all_join sep l : l <> [] -> Forall (fun t => Forall (fun c => c <> sep) t) l -> cut_all sep (join sep l) = l.
Proof.
  intros Hne H. unfold cut_all.
  destruct l as [|x [|y t]]; [congruence| |].
  - cbn [join]. destruct (length x) eqn:E.
    + destruct x; [reflexivity|discriminate].
    + cbn [cut_all_fuel]. apply Forall_cons_iff in H. rewrite cut_none by apply H. reflexivity.
  - apply cut_all_fuel_join; [discriminate|exact H|].
    apply join_length_ge.
Qed.

(** ---------- tokens ---------- *)
Definition wf_ast (a : sast) : Prop :=
  has_tokens a = true /\
  match a_s a with Some (Some n) => n < 1000 | _ => True end /\
  match a_t a with Some (n, _) => 1 <= n | None => True end.

Lemma read_alg_name h : read_alg (alg_name h) = Some h.
Proof. destruct h; reflexivity. Qed.

Lemma read_q_token q : read_q (q_token q) = Some q.
Proof. destruct q as [[| |] []]; reflexivity. Qed.

Lemma pad3_value n : n < 1000 -> exists a b c, pad_dec 3 n = [a; b; c] /\ digitb a && digitb b && digitb c = true /\ numeral_value [a; b; c] = n.
Proof.
  intros H. cbn [pad_dec app]. eexists _, _, _. split; [reflexivity|]. split.
  - unfold digitb. lia.
  - unfold numeral_value. cbn [fold_left]. lia.
Qed.

Lemma read_s_token (s : option N) : match s with Some n => n < 1000 | None => True end ->
  read_s (match s with None => s2b "S" | Some n => s2b "S" ++ pad_dec 3 n end) = Some s.
Proof.
  destruct s as [n|]; [|reflexivity]. intros H. destruct (pad3_value n H) as [a [b [c [E [Hd Hv]]]]].
  rewrite E. change (s2b "S" ++ [a; b; c]) with [83; a; b; c]. cbn [read_s]. rewrite Hd, Hv. reflexivity.
Qed.

Lemma read_t_token n u : 1 <= n -> read_t (s2b "T" ++ dec_of_N n ++ unit_suffix u) = Some (n, u).
Proof.
  intros Hn. destruct (dec_of_N_spec n) as [Hne [Hd Hv]].
  change (s2b "T" ++ dec_of_N n ++ unit_suffix u) with (84 :: (dec_of_N n ++ unit_suffix u)). cbn [read_t].
  rewrite frev_rev.
  destruct u; cbn [unit_suffix].
  1-3: rewrite rev_app_distr; cbn [rev app]; rewrite frev_rev, rev_involutive, read_numeral_dec;
       replace (n =? 0) with false by lia; reflexivity.
  (* a bare number: its last character is a digit, not a unit letter *)
  rewrite app_nil_r.
  destruct (exists_last Hne) as [l [x E]]. rewrite E, rev_app_distr. cbn [rev app].
  assert (48 <= x <= 57) as Hx.
  { unfold digits_only in Hd. rewrite E in Hd. apply Forall_app in Hd. destruct Hd as [_ Hd]. apply Forall_cons_iff in Hd. apply Hd. }
  replace (x =? 83) with false by lia. replace (x =? 77) with false by lia. replace (x =? 72) with false by lia.
  rewrite <- E, read_numeral_dec. replace (n =? 0) with false by lia. reflexivity.
Qed.

(** tokens of other kinds are not read as an earlier kind *)
Lemma not_C tok : (exists c t, tok = c :: t /\ c <> 67) -> beqb tok (s2b "C") = false.
Proof. intros [c [t [-> Hc]]]. cbn [beqb s2b]. change (s2b "C") with [67]. cbn [beqb]. destruct (N.eqb_spec c 67); [contradiction|reflexivity]. Qed.
Lemma not_q tok : (exists c t, tok = c :: t /\ c <> 81) -> read_q tok = None.
Proof.
  intros [c [t [-> Hc]]]. unfold read_q.
  destruct c as [|p]; [reflexivity|]. do 7 (destruct p as [p|p|]; try reflexivity). congruence.
Qed.
Lemma not_p tok : (exists c t, tok = c :: t /\ c <> 80) -> read_p tok = None.
Proof.
  intros [c [t [-> Hc]]]. unfold read_p.
  destruct c as [|p]; [reflexivity|]. do 7 (destruct p as [p|p|]; try reflexivity). congruence.
Qed.
Lemma not_s tok : (exists c t, tok = c :: t /\ c <> 83) -> read_s tok = None.
Proof.
  intros [c [t [-> Hc]]]. unfold read_s.
  destruct c as [|p]; [reflexivity|]. do 7 (destruct p as [p|p|]; try (destruct t as [|? [|? [|? [|? ?]]]]; reflexivity)). congruence.
Qed.

Definition p_token (h : alg) : bytes := s2b "P" ++ alg_name h.
Definition s_token (s : option N) : bytes := match s with None => s2b "S" | Some n => s2b "S" ++ pad_dec 3 n end.
Definition t_token (nu : N * tunit) : bytes := s2b "T" ++ dec_of_N (fst nu) ++ unit_suffix (snd nu).

Lemma read_p_token h : read_p (p_token h) = Some h.
Proof. destruct h; reflexivity. Qed.

Lemma head_q q : exists c t, q_token q = c :: t /\ c = 81. Proof. destruct q as [[| |] []]; eexists _, _; split; reflexivity. Qed.
Lemma head_p h : exists c t, p_token h = c :: t /\ c = 80. Proof. destruct h; eexists _, _; split; reflexivity. Qed.
Lemma head_s s : exists c t, s_token s = c :: t /\ c = 83. Proof. destruct s; eexists _, _; split; reflexivity. Qed.
Lemma head_t nu : exists c t, t_token nu = c :: t /\ c = 84. Proof. eexists _, _; split; reflexivity. Qed.

Ltac other H := let c := fresh "c" in let t := fresh "t" in let E := fresh "E" in let Ec := fresh "Ec" in
  destruct H as [c [t [E Ec]]]; exists c, t; split; [exact E|subst c; discriminate].

Theorem read_tokens_print a : wf_ast a -> read_tokens (tokens a) = Some (a_c a, a_q a, a_p a, a_s a, a_t a).
Proof.
  intros [_ [Hs Ht]]. unfold tokens.
  fold (s_token). 
  replace (match a_p a with Some h => [s2b "P" ++ alg_name h] | None => [] end) with (match a_p a with Some h => [p_token h] | None => [] end) by reflexivity.
  replace (match a_s a with Some None => [s2b "S"] | Some (Some n) => [s2b "S" ++ pad_dec 3 n] | None => [] end)
    with (match a_s a with Some s => [s_token s] | None => [] end) by (destruct (a_s a) as [[n|]|]; reflexivity).
  replace (match a_t a with Some (n, u) => [s2b "T" ++ dec_of_N n ++ unit_suffix u] | None => [] end)
    with (match a_t a with Some nu => [t_token nu] | None => [] end) by (destruct (a_t a) as [[n u]|]; reflexivity).
  assert (forall s, a_s a = Some s -> read_s (s_token s) = Some s) as RS.
  { intros s E. apply read_s_token. rewrite E in Hs. destruct s; [exact Hs|exact I]. }
  assert (forall nu, a_t a = Some nu -> read_t (t_token nu) = Some nu) as RT.
  { intros [n u] E. unfold t_token. cbn [fst snd]. apply read_t_token. rewrite E in Ht. exact Ht. }
  unfold read_tokens.
  destruct (a_c a); destruct (a_q a) as [q|] eqn:Eq; destruct (a_p a) as [h|] eqn:Ep; destruct (a_s a) as [s|] eqn:Es; destruct (a_t a) as [nu|] eqn:Et;
    cbn [app];
    repeat first
      [ rewrite read_q_token | rewrite read_p_token | rewrite (RS _ eq_refl) | rewrite (RT _ eq_refl)
      | rewrite (not_C (q_token _)) by (pose proof (head_q q) as HH; other HH)
      | rewrite (not_C (p_token _)) by (pose proof (head_p h) as HH; other HH)
      | rewrite (not_C (s_token _)) by (pose proof (head_s s) as HH; other HH)
      | rewrite (not_C (t_token _)) by (pose proof (head_t nu) as HH; other HH)
      | rewrite (not_q (p_token _)) by (pose proof (head_p h) as HH; other HH)
      | rewrite (not_q (s_token _)) by (pose proof (head_s s) as HH; other HH)
      | rewrite (not_q (t_token _)) by (pose proof (head_t nu) as HH; other HH)
      | rewrite (not_p (s_token _)) by (pose proof (head_s s) as HH; other HH)
      | rewrite (not_p (t_token _)) by (pose proof (head_t nu) as HH; other HH)
      | rewrite (not_s (t_token _)) by (pose proof (head_t nu) as HH; other HH)
      | progress (change (beqb (s2b "C") (s2b "C")) with true)
      | progress cbv beta iota ];
    reflexivity.
Qed.

(** ---------- the whole name ---------- *)
Theorem read_print a : wf_ast a -> read_name (print_name a) = Some a.
Proof.
  intros Hwf. pose proof Hwf as [Htok _].
  destruct (dec_of_N_spec (a_digits a)) as [Hdn [Hdd Hdv]].
  destruct (tokens_nosep a) as [T45 T58].
  unfold read_name, print_name.
  replace (strip_prefix (s2b "OCRA-1:HOTP-") (s2b "OCRA-1:HOTP-" ++ alg_name (a_hash a) ++ [45] ++ dec_of_N (a_digits a) ++ [58] ++ join 45 (tokens a)))
    with (Some (alg_name (a_hash a) ++ 45 :: (dec_of_N (a_digits a) ++ 58 :: join 45 (tokens a)))) by reflexivity.
  rewrite cut_app by apply alg_name_safe.
  rewrite cut_app by (apply digits_no_sep; [exact Hdd|lia]).
  rewrite read_alg_name, read_numeral_dec.
  unfold has_tokens in Htok. destruct (tokens a) as [|t0 ts] eqn:Et; [discriminate|]. rewrite <- Et in *.
  rewrite cut_all_join by (try exact T45; rewrite Et; discriminate).
  rewrite read_tokens_print by exact Hwf.
  assert (negb (a_c a) && negb (isSome (a_q a)) && negb (isSome (a_p a)) && negb (isSome (a_s a)) && negb (isSome (a_t a)) = false) as Hsome.
  { unfold tokens in Et. destruct (a_c a); [reflexivity|]. destruct (a_q a); [reflexivity|]. destruct (a_p a); [reflexivity|].
    destruct (a_s a) as [[n|]|]; try reflexivity. destruct (a_t a) as [[n u]|]; [reflexivity|discriminate Et]. }
  rewrite Hsome. destruct a; reflexivity.
Qed.

(** the printer is injective on well-formed names: a suite string says one thing *)
Theorem print_injective a a' : wf_ast a -> wf_ast a' -> print_name a = print_name a' -> a = a'.
Proof.
  intros H H' E. pose proof (read_print a H) as R. rewrite E, (read_print a' H') in R. inversion R. reflexivity.
Qed.

(** NewRawSuite on a well-formed name of the scheme: whatever it returns — from the registry or
    from the parser — denotes exactly what the name says, under that name *)
Theorem new_raw_suite_faithful a c : wf_ast a ->
  new_raw_suite (print_name a) = Ok c -> denotation_of c = denote a /\ sc_raw c = print_name a.
Proof.
  intros Hwf H. destruct (new_raw_suite_print a c H) as [[k [Hin Hc]]|[_ Hc]].
  - destruct (registry_faithful _ _ Hin) as [a' [Hr [_ [Hd _]]]].
    rewrite (read_print a Hwf) in Hr. inversion Hr; subst a'. subst c. split; [|reflexivity].
    rewrite Hd. destruct k; reflexivity.
  - subst c. unfold cfg_of_denote, denote. split; reflexivity.
Qed.
