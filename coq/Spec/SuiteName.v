(** The RFC 6287 suite naming scheme, as a user reads a suite string:

      OCRA-1:HOTP-<SHA1|SHA256|SHA512>-<digits>:[C-]Q<N|A|H><08|10>[-PSHA<1|256|512>][-S[nnn]][-T<n><S|M|H>]

    (the question token is optional here because the registry advertises "…:C").  An abstract
    syntax, its printer, and what a name *denotes* as a configuration.  Written without any
    reference to the implementation's parser. *)
From Coq Require Import String.
From OtpV Require Import Prelude Sha Errors Rfc4226.
Open Scope N_scope.

Inductive qkind := QNum | QAlpha | QHex.
(** a time step is <n>S, <n>M or <n>H; the library also advertises names ending in a bare
    "T<n>" and documents them as seconds (SuiteConfig.TimeStep: "T1, T2, etc. (in seconds)") *)
Inductive tunit := USec | UMin | UHour | UBare.

Record sast := mkAst {
  a_hash : alg;
  a_digits : N;
  a_c : bool;
  a_q : option (qkind * bool);       (* kind, and whether the length is 10 (else 08) *)
  a_p : option alg;
  a_s : option (option N);           (* S, or S followed by a three-digit length *)
  a_t : option (N * tunit)
}.

Definition alg_name (a : alg) : bytes :=
  match a with SHA1 => s2b "SHA1" | SHA256 => s2b "SHA256" | SHA512 => s2b "SHA512" end.

Definition q_token (q : qkind * bool) : bytes :=
  s2b "Q" ++ match fst q with QNum => s2b "N" | QAlpha => s2b "A" | QHex => s2b "H" end
          ++ (if snd q then s2b "10" else s2b "08").
Definition unit_suffix (u : tunit) : bytes := match u with USec => [83] | UMin => [77] | UHour => [72] | UBare => [] end.

Definition tokens (a : sast) : list bytes :=
  (if a_c a then [s2b "C"] else []) ++
  (match a_q a with Some q => [q_token q] | None => [] end) ++
  (match a_p a with Some h => [s2b "P" ++ alg_name h] | None => [] end) ++
  (match a_s a with Some None => [s2b "S"] | Some (Some n) => [s2b "S" ++ pad_dec 3 n] | None => [] end) ++
  (match a_t a with Some (n, u) => [s2b "T" ++ dec_of_N n ++ unit_suffix u] | None => [] end).

Fixpoint join (sep : N) (l : list bytes) : bytes :=
  match l with
  | [] => []
  | [x] => x
  | x :: t => x ++ sep :: join sep t
  end.

Definition print_name (a : sast) : bytes :=
  s2b "OCRA-1:HOTP-" ++ alg_name (a_hash a) ++ [45] ++ dec_of_N (a_digits a) ++ [58] ++ join 45 (tokens a).

(** what the name says *)
Definition d_hash (a : alg) : N := match a with SHA1 => 0 | SHA256 => 1 | SHA512 => 2 end.
Definition d_challenge (q : option (qkind * bool)) : Z :=
  match q with
  | None => 0
  | Some (QNum, false) => 1 | Some (QNum, true) => 2
  | Some (QAlpha, false) => 3 | Some (QAlpha, true) => 4
  | Some (QHex, false) => 5 | Some (QHex, true) => 6
  end%Z.
Definition d_pwhash (p : option alg) : Z :=
  match p with None => 0 | Some SHA1 => 1 | Some SHA256 => 2 | Some SHA512 => 3 end%Z.
Definition unit_seconds (u : tunit) : N := match u with USec => 1 | UMin => 60 | UHour => 3600 | UBare => 1 end.
Definition d_timestep (t : option (N * tunit)) : Z :=
  match t with None => 0%Z | Some (n, u) => Z.of_N (n * unit_seconds u) end.
Definition isSome {A} (o : option A) : bool := match o with Some _ => true | None => false end.

(** hash, digits, challenge format, C, Q, P, S, T, password hash, time step *)
Definition denotation : Type := (N * Z * Z * bool * bool * bool * bool * bool * Z * Z)%type.
Definition denote (a : sast) : denotation :=
  (d_hash (a_hash a), Z.of_N (a_digits a), d_challenge (a_q a), a_c a, isSome (a_q a), isSome (a_p a), isSome (a_s a),
   isSome (a_t a), d_pwhash (a_p a), d_timestep (a_t a)).

(** ---- reading a name back (strict: upper case, canonical numerals, fields in the RFC's
    order, each at most once); used to state registry fidelity and as the executable
    specification in the correspondence ---- *)
Fixpoint beqb (a b : bytes) : bool :=
  match a, b with
  | [], [] => true
  | x :: a', y :: b' => (x =? y) && beqb a' b'
  | _, _ => false
  end.
Fixpoint strip_prefix (p s : bytes) : option bytes :=
  match p, s with
  | [], _ => Some s
  | a :: p', b :: s' => if a =? b then strip_prefix p' s' else None
  | _ :: _, [] => None
  end.
Fixpoint cut_aux (sep : N) (s acc : bytes) : option (bytes * bytes) :=
  match s with
  | [] => None
  | c :: t => if c =? sep then Some (frev acc, t) else cut_aux sep t (c :: acc)
  end.
(** split at the first separator *)
Definition cut (sep : N) (s : bytes) : option (bytes * bytes) := cut_aux sep s [].
Fixpoint cut_all_fuel (fuel : nat) (sep : N) (s : bytes) : list bytes :=
  match fuel with
  | O => [s]
  | S f => match cut sep s with
           | None => [s]
           | Some (a, b) => a :: cut_all_fuel f sep b
           end
  end.
Definition cut_all (sep : N) (s : bytes) : list bytes := cut_all_fuel (length s) sep s.

Definition digitb (c : N) : bool := (48 <=? c) && (c <=? 57).
Definition numeral_value (s : bytes) : N := fold_left (fun acc c => acc * 10 + (c - 48)) s 0.
(** canonical numeral: digits only, non-empty, no leading zero unless it is "0" *)
Definition read_numeral (s : bytes) : option N :=
  match s with
  | [] => None
  | [48] => Some 0
  | 48 :: _ => None
  | _ => if forallb digitb s then Some (numeral_value s) else None
  end.
Definition read_alg (s : bytes) : option alg :=
  if beqb s (s2b "SHA1") then Some SHA1 else if beqb s (s2b "SHA256") then Some SHA256
  else if beqb s (s2b "SHA512") then Some SHA512 else None.

Definition read_q (tok : bytes) : option (qkind * bool) :=
  match tok with
  | [81; k; a; b] =>
    let kind := if k =? 78 then Some QNum else if k =? 65 then Some QAlpha else if k =? 72 then Some QHex else None in
    let ten := if (a =? 48) && (b =? 56) then Some false else if (a =? 49) && (b =? 48) then Some true else None in
    match kind, ten with Some kd, Some tn => Some (kd, tn) | _, _ => None end
  | _ => None
  end.
Definition read_p (tok : bytes) : option alg :=
  match tok with 80 :: r => read_alg r | _ => None end.
Definition read_s (tok : bytes) : option (option N) :=
  match tok with
  | [83] => Some None
  | [83; a; b; c] => if digitb a && digitb b && digitb c then Some (Some (numeral_value [a; b; c])) else None
  | _ => None
  end.
Definition read_t (tok : bytes) : option (N * tunit) :=
  match tok with
  | 84 :: r =>
    match frev r with
    | u :: nrev =>
      let un := if u =? 83 then Some USec else if u =? 77 then Some UMin else if u =? 72 then Some UHour else None in
      match un with
      | Some un => match read_numeral (frev nrev) with
                   | Some n => if n =? 0 then None else Some (n, un)
                   | None => None
                   end
      | None => match read_numeral r with
                | Some n => if n =? 0 then None else Some (n, UBare)
                | None => None
                end
      end
    | [] => None
    end
  | _ => None
  end.

(** tokens in order C, Q, P, S, T, each optional *)
Definition read_tokens (toks : list bytes) : option (bool * option (qkind * bool) * option alg * option (option N) * option (N * tunit)) :=
  let '(c, toks) := match toks with t :: r => if beqb t (s2b "C") then (true, r) else (false, toks) | [] => (false, toks) end in
  let '(q, toks) := match toks with t :: r => match read_q t with Some q => (Some q, r) | None => (None, toks) end | [] => (None, toks) end in
  let '(p, toks) := match toks with t :: r => match read_p t with Some q => (Some q, r) | None => (None, toks) end | [] => (None, toks) end in
  let '(s, toks) := match toks with t :: r => match read_s t with Some q => (Some q, r) | None => (None, toks) end | [] => (None, toks) end in
  let '(t, toks) := match toks with t :: r => match read_t t with Some q => (Some q, r) | None => (None, toks) end | [] => (None, toks) end in
  match toks with
  | [] => Some (c, q, p, s, t)
  | _ => None
  end.

Definition read_name (s : bytes) : option sast :=
  match strip_prefix (s2b "OCRA-1:HOTP-") s with
  | None => None
  | Some r =>
    match cut 45 r with
    | None => None
    | Some (h, r) =>
      match cut 58 r with
      | None => None
      | Some (d, r) =>
        match read_alg h, read_numeral d, read_tokens (cut_all 45 r) with
        | Some h, Some d, Some (c, q, p, s, t) =>
          if (negb c && negb (isSome q) && negb (isSome p) && negb (isSome s) && negb (isSome t)) then None
          else Some (mkAst h d c q p s t)
        | _, _, _ => None
        end
      end
    end
  end.
