package main

import (
	"crypto/rand"
	"encoding/base32"
	"fmt"
	"io"
	"runtime"
	"strings"
	"sync"

	"github.com/ja7ad/otp"
)

// streamReader serves the bytes of a fixed buffer (zeros beyond its end) and records every read.
type streamReader struct {
	mu    sync.Mutex
	buf   []byte
	pos   int
	reads [][2]int // offset, length
}

func (s *streamReader) Read(p []byte) (int, error) {
	s.mu.Lock()
	defer s.mu.Unlock()
	for i := range p {
		if s.pos+i < len(s.buf) {
			p[i] = s.buf[s.pos+i]
		} else {
			p[i] = 0
		}
	}
	s.reads = append(s.reads, [2]int{s.pos, len(p)})
	s.pos += len(p)
	return len(p), nil
}

var randMu sync.Mutex

func withReader(r io.Reader, f func()) {
	randMu.Lock()
	defer randMu.Unlock()
	old := rand.Reader
	rand.Reader = r
	defer func() { rand.Reader = old }()
	f()
}

// results of the byte-returning helpers are kept (the slices themselves, with a copy of what they held when they
// were returned): a later helper call must not change an earlier result
type heldResult struct {
	b    []byte
	snap string
	from string
}

var held []heldResult

// strings returned by the library are kept the same way (the very string values, which may point into memory the
// library still owns): a later call must not change a string that was returned earlier
type heldString struct{ s, snap, from string }

var (
	heldS  []heldString
	heldMu sync.Mutex
)

func holdS(from, s string) {
	if len(s) == 0 {
		return
	}
	heldMu.Lock()
	defer heldMu.Unlock()
	if len(heldS) >= 64 {
		heldS = heldS[1:]
	}
	heldS = append(heldS, heldString{s, strings.Clone(s), from})
}

func hold(from string, bs ...[]byte) {
	for _, b := range bs {
		if len(b) == 0 {
			continue
		}
		if len(held) >= 32 {
			held = held[1:]
		}
		held = append(held, heldResult{b, string(b), from})
	}
}

// heldChanged reports the first kept result that no longer holds what it held
func heldChanged() (string, bool) {
	heldMu.Lock()
	for i, h := range heldS {
		if h.s != h.snap {
			heldS = append(heldS[:i:i], heldS[i+1:]...)
			heldMu.Unlock()
			return "changed:a string returned by an earlier call changed from " + hx([]byte(h.snap)) + " to " + hx([]byte(h.s)), true
		}
	}
	heldMu.Unlock()
	for i, h := range held {
		if string(h.b) != h.snap {
			held = append(held[:i:i], held[i+1:]...)
			return "changed:result of an earlier " + h.from + " call changed from " + hx([]byte(h.snap)) + " to " + hx(h.b), true
		}
	}
	return "", false
}

func heldBytes(from string, b []byte, err error) (string, bool) {
	if msg, bad := heldChanged(); bad {
		return msg, true
	}
	hold(from, b)
	return bytesOrErr(b, err), true
}

func run2(f []string) (string, bool) {
	switch f[0] {
	case "to8":
		return heldBytes(f[0], otp.To8ByteBigEndian(u64(f[1])), nil)
	case "pdec8a":
		b, err := otp.ParseDecimalToBigEndian8(string(unhx(f[1])))
		return heldBytes(f[0], b, err)
	case "pdec8b":
		b, err := otp.ParseDecimal64BigEndian(string(unhx(f[1])))
		return heldBytes(f[0], b, err)
	case "lpad":
		return okStr(otp.LeftPadHex(string(unhx(f[1])), int(i64(f[2])))), true
	case "mhex": // a documented Must* helper: a panic is its way of refusing
		return heldBytes(f[0], otp.MustHexPadLeft(string(unhx(f[1])), int(i64(f[2]))), nil)
	case "phexts":
		b, err := otp.ParseHexTimestamp(string(unhx(f[1])))
		return heldBytes(f[0], b, err)
	case "pchal":
		b, err := otp.ParseDecimalChallengeRFC6287(string(unhx(f[1])))
		return heldBytes(f[0], b, err)
	case "hexin":
		in, err := otp.HexInputToOCRA(string(unhx(f[1])), string(unhx(f[2])), string(unhx(f[3])), string(unhx(f[4])), string(unhx(f[5])))
		if msg, bad := heldChanged(); bad {
			return msg, true
		}
		if err != nil {
			return errOut(err), true
		}
		hold(f[0], in.Counter, in.Challenge, in.Password, in.SessionInfo, in.Timestamp)
		return "ok:" + fmtInput(in), true
	case "b32enc":
		return okStr(base32.StdEncoding.WithPadding(base32.NoPadding).EncodeToString(unhx(f[1]))), true
	case "rand":
		// rand <stream hex> <algo,algo,...>: a sequential history of RandomSecret calls on a substituted source
		sr := &streamReader{buf: unhx(f[1])}
		var sb strings.Builder
		sb.WriteString("r:")
		withReader(sr, func() {
			for _, a := range strings.Split(f[2], ",") {
				pos := sr.pos
				s, err := otp.RandomSecret(otp.Algorithm(u64(a)))
				if err != nil {
					fmt.Fprintf(&sb, "%d:err;", pos)
				} else {
					holdS("RandomSecret", s)
					fmt.Fprintf(&sb, "%d:%s;", pos, s)
				}
			}
		})
		if msg, bad := heldChanged(); bad {
			return msg, true
		}
		return sb.String(), true
	case "randconc":
		// randconc <stream hex> <goroutines> <calls each>: interleaved calls; every result must be the
		// unpadded base32 of exactly one recorded read, each read used once (self-check)
		sr := &streamReader{buf: unhx(f[1])}
		g, k := int(u64(f[2])), int(u64(f[3]))
		defer runtime.GOMAXPROCS(runtime.GOMAXPROCS(8))
		results := make(chan string, g*k)
		withReader(sr, func() {
			var wg sync.WaitGroup
			for i := 0; i < g; i++ {
				wg.Add(1)
				go func(i int) {
					defer wg.Done()
					for j := 0; j < k; j++ {
						s, err := otp.RandomSecret(otp.Algorithm((i + j) % 3))
						if err != nil {
							results <- "ERR"
						} else {
							results <- s
						}
					}
				}(i)
			}
			wg.Wait()
		})
		close(results)
		want := map[string]int{}
		enc := base32.StdEncoding.WithPadding(base32.NoPadding)
		for _, rd := range sr.reads {
			b := make([]byte, rd[1])
			for i := range b {
				if rd[0]+i < len(sr.buf) {
					b[i] = sr.buf[rd[0]+i]
				}
			}
			want[enc.EncodeToString(b)]++
		}
		n := 0
		for s := range results {
			n++
			if want[s] == 0 {
				return "bad:result-not-a-recorded-read", true
			}
			want[s]--
		}
		if n != g*k || len(sr.reads) != g*k {
			return fmt.Sprintf("bad:%d-results-%d-reads", n, len(sr.reads)), true
		}
		return "ok:", true
	}
	return run3(f)
}
