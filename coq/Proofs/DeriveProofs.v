(** Refinement of derive.go / derive_rfc4226.go to the RFC 4226 specification. *)
From Coq Require Import ZifyN ZifyNat ZifyBool.
From OtpV Require Import Prelude Sha Tables Decoder Derive Rfc4226 BitLemmas.
Open Scope N_scope.
Ltac Zify.zify_post_hook ::= Z.div_mod_to_equations.

(** ---------- the modulus table (finite fact on the regenerated table) ---------- *)
Lemma mod10_is_pow10 :
  forall d, (1 <= d <= 10)%nat -> nth_error mod10 d = Some (10 ^ N.of_nat d).
Proof.
  intros d Hd.
  assert (In d (seq 1 10)) as Hin by (apply in_seq; lia).
  clear Hd. revert d Hin. apply Forall_forall. vm_compute. repeat constructor.
Qed.

Lemma mod10_length : length mod10 = 11%nat.
Proof. reflexivity. Qed.

Lemma mod10_at_spec d : (1 <= d <= 10)%Z -> mod10_at d = Ok (10 ^ Z.to_N d).
Proof.
  intros Hd. unfold mod10_at.
  destruct (d <? 0)%Z eqn:E; [lia|].
  rewrite (mod10_is_pow10 (Z.to_nat d)) by lia.
  f_equal. f_equal. lia.
Qed.

(** ---------- pad_dec ---------- *)
Lemma pad_dec_length d n : length (pad_dec d n) = d.
Proof. revert n; induction d as [|d IH]; intros n; cbn [pad_dec]; [reflexivity|]. rewrite app_length, IH. cbn [length]. lia. Qed.

Lemma pad_dec_digits d n : Forall is_digit (pad_dec d n).
Proof.
  revert n; induction d as [|d IH]; intros n; cbn [pad_dec]; [constructor|].
  apply Forall_app. split; [apply IH|]. constructor; [|constructor].
  unfold is_digit. assert (n mod 10 < 10) by (apply N.mod_lt; discriminate). lia.
Qed.

Lemma dec_value_app s c : dec_value (s ++ [c]) = dec_value s * 10 + (c - 48).
Proof. unfold dec_value. rewrite fold_left_app. reflexivity. Qed.

Lemma pad_dec_value d n : dec_value (pad_dec d n) = n mod 10 ^ N.of_nat d.
Proof.
  revert n; induction d as [|d IH]; intros n.
  - simpl. rewrite N.mod_1_r. reflexivity.
  - cbn [pad_dec]. rewrite dec_value_app, IH.
    replace (48 + n mod 10 - 48) with (n mod 10) by lia.
    rewrite Nat2N.inj_succ, N.pow_succ_r'.
    rewrite N.mod_mul_r by (try apply N.pow_nonzero; discriminate).
    ring.
Qed.

Theorem pad_dec_is_code d n : n < 10 ^ N.of_nat d -> is_code d n (pad_dec d n).
Proof.
  intros H. repeat split.
  - apply pad_dec_length.
  - apply pad_dec_digits.
  - rewrite pad_dec_value. apply N.mod_small. exact H.
Qed.

(** a code is determined by its length and value *)
Lemma is_code_unique d n s s' : is_code d n s -> is_code d n s' -> s = s'.
Proof.
  revert n s s'. induction d as [|d IH]; intros n s s' (L & D & V) (L' & D' & V').
  - destruct s, s'; simpl in *; congruence.
  - destruct (exists_last (l:=s)) as (a & x & ->); [destruct s; simpl in *; congruence|].
    destruct (exists_last (l:=s')) as (a' & x' & ->); [destruct s'; simpl in *; congruence|].
    rewrite app_length in L, L'. simpl in L, L'.
    apply Forall_app in D, D'. destruct D as [Da Dx], D' as [Da' Dx'].
    apply Forall_inv in Dx, Dx'. rename Dx into Hx, Dx' into Hx'.
    rewrite dec_value_app in V, V'. unfold is_digit in Hx, Hx'.
    assert (x = x' /\ dec_value a = dec_value a') as [-> Hv] by lia.
    f_equal. apply (IH (dec_value a)); repeat split; auto; lia.
Qed.

(** ---------- the formatting loops ---------- *)
Lemma upd_app_last {A} (a : list A) (x v : A) b : upd (length a) v (a ++ x :: b) = a ++ v :: b.
Proof. induction a as [|h t IH]; simpl; [reflexivity|]. rewrite IH. reflexivity. Qed.

Lemma upd_app_last' {A} (a : list A) (x v : A) b k : length a = k -> upd k v (a ++ x :: b) = a ++ v :: b.
Proof. intros <-. apply upd_app_last. Qed.

Lemma wrap8_digit v : wrap8 (48 + v mod 10) = 48 + v mod 10.
Proof. unfold wrap8. apply N.mod_small. assert (v mod 10 < 10) by (apply N.mod_lt; discriminate). lia. Qed.

Lemma write_digits_spec k : forall a b v, length a = k -> write_digits k (a ++ b) v = pad_dec k v ++ b.
Proof.
  induction k as [|k IH]; intros a b v Hl.
  - destruct a; [reflexivity|discriminate].
  - destruct (exists_last (l:=a)) as (a' & x & ->); [destruct a; simpl in *; congruence|].
    rewrite app_length in Hl. simpl in Hl. assert (length a' = k) as Hk by lia.
    cbn [write_digits pad_dec]. rewrite <- app_assoc. simpl app.
    rewrite (upd_app_last' a' x _ b k Hk), wrap8_digit.
    rewrite IH by exact Hk. rewrite <- app_assoc. reflexivity.
Qed.

Lemma zero_fill_write k pad : zero_fill k pad = write_digits k pad 0.
Proof. revert pad. induction k as [|k IH]; intros pad; simpl; [reflexivity|]. rewrite IH. reflexivity. Qed.

Lemma short_loop_write k : forall pad otp, short_loop k pad otp = write_digits k pad otp.
Proof.
  induction k as [|k IH]; intros pad otp; [reflexivity|].
  cbn [short_loop]. destruct (0 <? otp) eqn:E.
  - rewrite IH. reflexivity.
  - apply N.ltb_ge in E. assert (otp = 0) as -> by lia. apply zero_fill_write.
Qed.

Lemma repeat_split {A} (x : A) n m : (n <= m)%nat -> repeat x m = repeat x n ++ repeat x (m - n).
Proof. intros H. rewrite <- repeat_app. f_equal. lia. Qed.

Lemma short_digit_spec otp d : (0 <= d <= 8)%Z -> short_digit otp d = Ok (pad_dec (Z.to_nat d) otp).
Proof.
  intros Hd. unfold short_digit.
  destruct ((d <? 0)%Z || (8 <? d)%Z) eqn:E; [lia|]. f_equal.
  rewrite short_loop_write.
  rewrite (repeat_split 0 (Z.to_nat d) 8) by lia.
  rewrite write_digits_spec by apply repeat_length.
  rewrite firstn_app, pad_dec_length, Nat.sub_diag, firstn_O, app_nil_r.
  rewrite <- (pad_dec_length (Z.to_nat d) otp) at 1. apply firstn_all.
Qed.

Lemma long_digit_spec otp d : (0 <= d)%Z -> long_digit otp d = Ok (pad_dec (Z.to_nat d) otp).
Proof.
  intros Hd. unfold long_digit. destruct (d <? 0)%Z eqn:E; [lia|]. f_equal.
  rewrite <- (app_nil_r (repeat 0 (Z.to_nat d))).
  rewrite write_digits_spec by apply repeat_length. apply app_nil_r.
Qed.

Lemma short_digit_no_panic otp d : (0 <= d <= 8)%Z -> short_digit otp d <> Panic.
Proof. intros H. rewrite short_digit_spec by exact H. discriminate. Qed.

(** ---------- dynamic truncation ---------- *)
Lemma nth_error_nth' {A} (l : list A) n d : (n < length l)%nat -> nth_error l n = Some (nth n l d).
Proof. intros H. apply nth_error_nth'. exact H. Qed.

Lemma wfb_nth l i : wfb l -> nth i l 0 < 256.
Proof.
  intros H. destruct (Nat.lt_ge_cases i (length l)) as [Hi|Hi].
  - unfold wfb in H. rewrite Forall_forall in H. apply H. apply nth_In. exact Hi.
  - rewrite nth_overflow by exact Hi. reflexivity.
Qed.

Lemma mask31_ones : mask31 = N.ones 31. Proof. reflexivity. Qed.
Lemma mask_offset_ones : mask_offset = N.ones 4. Proof. reflexivity. Qed.

Theorem truncate_spec sum md :
  wfb sum -> (20 <= length sum)%nat -> md <> 0 ->
  truncate sum md = Ok (dt31 sum mod md).
Proof.
  intros Hwf Hlen Hmd. unfold truncate, dt31.
  destruct sum as [|s0 sum']; [simpl in Hlen; lia|]. set (sum := s0 :: sum') in *.
  rewrite mask_offset_ones, land_ones_mod. change (2 ^ 4) with 16.
  set (off := N.to_nat (last sum 0 mod 16)).
  assert (off < 16)%nat as Hoff.
  { unfold off. assert (last sum 0 mod 16 < 16) by (apply N.mod_lt; discriminate). lia. }
  rewrite !(nth_error_nth' sum _ 0) by lia.
  pose proof (wfb_nth sum off Hwf) as H0. pose proof (wfb_nth sum (off + 1) Hwf) as H1.
  pose proof (wfb_nth sum (off + 2) Hwf) as H2. pose proof (wfb_nth sum (off + 3) Hwf) as H3.
  rewrite Nat.add_0_r.
  set (b0 := nth off sum 0) in *. set (b1 := nth (off + 1) sum 0) in *.
  set (b2 := nth (off + 2) sum 0) in *. set (b3 := nth (off + 3) sum 0) in *.
  apply N.eqb_neq in Hmd. rewrite Hmd. f_equal.
  unfold wrap32, two32. rewrite !shiftl_mul.
  rewrite (N.mod_small (b0 * 2 ^ 24)) by (change (2^24) with 16777216; lia).
  rewrite (N.mod_small (b1 * 2 ^ 16)) by (change (2^16) with 65536; lia).
  rewrite (N.mod_small (b2 * 2 ^ 8)) by (change (2^8) with 256; lia).
  rewrite <- !shiftl_mul.
  (* reassemble the ors as sums, innermost first *)
  assert (N.lor (N.lor (N.lor (N.shiftl b0 24) (N.shiftl b1 16)) (N.shiftl b2 8)) b3
          = b0 * 2 ^ 24 + b1 * 2 ^ 16 + b2 * 2 ^ 8 + b3) as ->.
  { replace (N.shiftl b0 24) with (N.shiftl (N.shiftl b0 8) 16)
      by (rewrite N.shiftl_shiftl; reflexivity).
    rewrite <- N.shiftl_lor.
    replace (N.shiftl (N.lor (N.shiftl b0 8) b1) 16) with (N.shiftl (N.shiftl (N.lor (N.shiftl b0 8) b1) 8) 8)
      by (rewrite N.shiftl_shiftl; reflexivity).
    rewrite <- N.shiftl_lor.
    rewrite (lor_shiftl_add b0 b1 8) by exact H1.
    rewrite (lor_shiftl_add _ b2 8) by exact H2.
    rewrite (lor_shiftl_add _ b3 8) by exact H3.
    change (2 ^ 8) with 256. change (2 ^ 24) with 16777216. change (2 ^ 16) with 65536. lia. }
  rewrite ?shiftl_mul. rewrite mask31_ones, land_ones_mod.
  set (code := (b0 * 2 ^ 24 + b1 * 2 ^ 16 + b2 * 2 ^ 8 + b3) mod 2 ^ 31).
  assert (code < 2 ^ 31) by (apply N.mod_lt; discriminate).
  apply N.mod_small. apply N.eqb_neq in Hmd.
  assert (code mod md <= code) by (apply N.mod_le; exact Hmd).
  change (2 ^ 31) with 2147483648 in *. lia.
Qed.

(** ---------- the counter encoding ---------- *)
Lemma put_uint64_be64 c : put_uint64 c = be64 c.
Proof.
  unfold put_uint64, be64. apply map_ext. intros i.
  change 255 with (N.ones 8). rewrite land_ones_mod, shiftr_div.
  f_equal. f_equal. rewrite N.pow_mul_r. reflexivity.
Qed.

(** ---------- deriveRFC4226 = the RFC value ---------- *)
Section WithHmac.
  Set Default Proof Using "All".
  Variable hm : alg -> bytes -> bytes -> bytes.
  Hypothesis hm_length : forall a k m, length (hm a k m) = hlen a.
  Hypothesis hm_wf : forall a k m, wfb (hm a k m).

  Lemma hlen_ge_20 a : (20 <= hlen a)%nat.
  Proof. destruct a; simpl; lia. Qed.

  Theorem derive_rfc4226_spec key c d a :
    (1 <= d <= 10)%Z ->
    derive_rfc4226_with hm key c d (N_of_alg a) = Ok (hotp_value hm a key c (Z.to_nat d)).
  Proof.
    intros Hd. unfold derive_rfc4226_with.
    assert (n_hmac_pools <=? N_of_alg a = false) as -> by (destruct a; reflexivity).
    rewrite mod10_length.
    destruct ((d <? 1)%Z || (Z.of_nat 11 <=? d)%Z) eqn:E; [lia|].
    assert (alg_of_N (N_of_alg a) = Some a) as -> by (destruct a; reflexivity).
    rewrite mod10_at_spec by exact Hd. cbn [obind].
    rewrite truncate_spec;
      [| apply hm_wf | rewrite hm_length; apply hlen_ge_20 | apply N.pow_nonzero; discriminate ].
    cbn [obind]. unfold hotp_value, hotp_number. rewrite put_uint64_be64.
    replace (N.of_nat (Z.to_nat d)) with (Z.to_N d) by lia.
    destruct (d <=? 8)%Z eqn:E8.
    - apply short_digit_spec. lia.
    - apply long_digit_spec. lia.
  Qed.

  (** unsupported hash or code length: an error, never a code, never a panic *)
  Theorem derive_rfc4226_unsupported key c d algo :
    algo < 256 -> (0 <= d <= 255)%Z ->
    (3 <= algo \/ (d < 1)%Z \/ (10 < d)%Z) ->
    exists e, derive_rfc4226_with hm key c d algo = Err e.
  Proof.
    intros Ha Hd Hbad. unfold derive_rfc4226_with. rewrite mod10_length.
    change n_hmac_pools with 3.
    destruct (3 <=? algo) eqn:E3; [eexists; reflexivity|].
    destruct ((d <? 1)%Z || (Z.of_nat 11 <=? d)%Z) eqn:E; [eexists; reflexivity|].
    exfalso. apply N.leb_gt in E3. lia.
  Qed.

  (** the derivation never panics, whatever the arguments *)
  Theorem derive_rfc4226_total key c d algo : derive_rfc4226_with hm key c d algo <> Panic.
  Proof.
    unfold derive_rfc4226_with. rewrite mod10_length. change n_hmac_pools with 3.
    destruct (3 <=? algo) eqn:E3; [discriminate|].
    destruct ((d <? 1)%Z || (Z.of_nat 11 <=? d)%Z) eqn:E; [discriminate|].
    apply N.leb_gt in E3.
    assert (exists a, algo = N_of_alg a) as [a ->].
    { assert (algo = 0 \/ algo = 1 \/ algo = 2) as [->|[->| ->]] by lia;
        [exists SHA1|exists SHA256|exists SHA512]; reflexivity. }
    fold (derive_rfc4226_with hm key c d (N_of_alg a)).
    pose proof (derive_rfc4226_spec key c d a) as H.
    unfold derive_rfc4226_with in H. rewrite mod10_length in H. change n_hmac_pools with 3 in H.
    assert (3 <=? N_of_alg a = false) as E3' by (destruct a; reflexivity).
    rewrite E3', E in H. rewrite H by lia. discriminate.
  Qed.
End WithHmac.
