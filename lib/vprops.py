"""Property-specific engines beyond the generic correspondence streams."""
import os, re, subprocess

ROOT = os.path.dirname(os.path.dirname(os.path.abspath(__file__)))
COQ = os.path.join(ROOT, 'coq')
WORK = os.path.join(ROOT, 'work')
FLAGS = []
for d in ['Base', 'Hash', 'Generated', 'Spec', 'Model', 'Proofs', 'Properties', 'Findings', 'Extract']:
    FLAGS += ['-Q', d, 'OtpV']


def flow_sites(log):
    """leak sites of the regenerated SSA fact bases, evaluated inside Coq (independent of the theorems)"""
    path = os.path.join(WORK, 'c09_sites.v')
    with open(path, 'w') as f:
        f.write('From Coq Require Import List String.\nFrom OtpV Require Import Flow SsaNative SsaWasm.\n'
                'Definition native_sites := Eval vm_compute in site_names SsaNative.facts (search SsaNative.facts).\n'
                'Definition wasm_sites := Eval vm_compute in site_names SsaWasm.facts (search SsaWasm.facts).\n'
                'Definition sizes := Eval vm_compute in (List.length (f_edges SsaNative.facts), List.length (f_cmps SsaNative.facts), List.length (f_edges SsaWasm.facts), List.length (f_cmps SsaWasm.facts), PS.cardinal (c_hmac (search SsaNative.facts)), PS.cardinal (c_caller (search SsaNative.facts))).\n'
                'Set Printing Width 100000. Set Printing Depth 100000.\nPrint native_sites. Print wasm_sites. Print sizes.\n')
    p = subprocess.run(['coqc'] + FLAGS + [path], cwd=COQ, stdout=subprocess.PIPE, stderr=subprocess.STDOUT, text=True, timeout=900)
    for ext in ('.vo', '.vok', '.vos', '.glob'):
        try:
            os.remove(path[:-2] + ext)
        except OSError:
            pass
    log.write('--- c09 sites\n' + p.stdout[-3000:])
    if p.returncode:
        return None, None, None
    def names(which):
        m = re.search(which + r'\s*=\s*(.*?)\s*:\s*list string', p.stdout, re.S)
        return re.findall(r'"((?:[^"]|"")*)"', m.group(1)) if m else None
    m = re.search(r'sizes\s*=\s*\((.*?)\)\s*:', p.stdout, re.S)
    sizes = [int(x) for x in re.findall(r'\d+', m.group(1))] if m else []
    return names('native_sites'), names('wasm_sites'), sizes


def mem_sites(log):
    """sites where the memory discipline of C11/C12 is broken, on the regenerated SSA facts"""
    path = os.path.join(WORK, 'mem_sites.v')
    with open(path, 'w') as f:
        f.write('From Coq Require Import List String.\nFrom OtpV Require Import Flow SsaNative SsaWasm.\n'
                'Definition native_sites := Eval vm_compute in mem_site_names SsaNative.mem_facts (msearch SsaNative.mem_facts).\n'
                'Definition wasm_sites := Eval vm_compute in mem_site_names SsaWasm.mem_facts (msearch SsaWasm.mem_facts).\n'
                'Definition sizes := Eval vm_compute in (List.length (m_alias SsaNative.mem_facts), List.length (m_writes SsaNative.mem_facts), List.length (m_alias SsaWasm.mem_facts), List.length (m_writes SsaWasm.mem_facts), List.length (m_params SsaNative.mem_facts), List.length (m_globals SsaNative.mem_facts)).\n'
                'Set Printing Width 100000. Set Printing Depth 100000.\nPrint native_sites. Print wasm_sites. Print sizes.\n')
    p = subprocess.run(['coqc'] + FLAGS + [path], cwd=COQ, stdout=subprocess.PIPE, stderr=subprocess.STDOUT, text=True, timeout=900)
    for ext in ('.vo', '.vok', '.vos', '.glob'):
        try:
            os.remove(path[:-2] + ext)
        except OSError:
            pass
    log.write('--- mem sites\n' + p.stdout[-3000:])
    if p.returncode:
        return None, None, None
    def names(which):
        m = re.search(which + r'\s*=\s*(.*?)\s*:\s*list string', p.stdout, re.S)
        return re.findall(r'"((?:[^"]|"")*)"', m.group(1)) if m else None
    m = re.search(r'sizes\s*=\s*\((.*?)\)\s*:', p.stdout, re.S)
    sizes = [int(x) for x in re.findall(r'\d+', m.group(1))] if m else []
    return names('native_sites'), names('wasm_sites'), sizes


def race_run(seed, log):
    """the concurrent histories again under the race detector (thorough tier)"""
    env = dict(os.environ, GOWORK='off', GOFLAGS='-mod=mod', GOPROXY='off')
    env.pop('GOSUMDB', None)
    out = os.path.join(WORK, 'harness_race')
    p = subprocess.run(['go', 'build', '-race', '-tags', 'verif', '-o', out, '.'], cwd=os.path.join(ROOT, 'harness'), env=env,
                       stdout=subprocess.PIPE, stderr=subprocess.STDOUT, text=True, timeout=1800)
    if p.returncode:   # without the repository's hooks (see build_all)
        p = subprocess.run(['go', 'build', '-race', '-o', out, '.'], cwd=os.path.join(ROOT, 'harness'), env=env,
                           stdout=subprocess.PIPE, stderr=subprocess.STDOUT, text=True, timeout=1800)
    if p.returncode:
        log.write('--- race build failed\n' + p.stdout[-2000:])
        return None, 0
    g = subprocess.run([os.path.join(ROOT, 'bin', 'harness'), 'gen', 'c11', str(seed), '40'], stdout=subprocess.PIPE, text=True, timeout=600)
    r = subprocess.run([out, 'exec'], input=g.stdout, env=dict(os.environ, GORACE='halt_on_error=1 exitcode=66'),
                       stdout=subprocess.PIPE, stderr=subprocess.PIPE, text=True, timeout=3600)
    log.write('--- race run rc=%d\n%s' % (r.returncode, r.stderr[-4000:]))
    if 'DATA RACE' in r.stderr:
        return r.stderr[:6000], g.stdout.count('\n')
    return '', g.stdout.count('\n')


def extra_engines(pid, tier, seed, log, build_state):
    if pid in ('C11', 'C12'):
        nat, wasm, sizes = mem_sites(log)
        out = {'violations': [], 'coverage': {}, 'samples': []}
        if nat is None or wasm is None:
            out['violations'].append({'case': '', 'kind': 'the SSA memory facts could not be analysed (Generated/Ssa*.v, Model/Flow.v)', 'no_input': True})
            return out
        for build, sites in (('native', nat), ('js/wasm', wasm)):
            for s_ in sites:
                out['violations'].append({'case': '(memory discipline, %s build) %s' % (build, s_),
                                          'impl': 'writes caller / package memory, lets a pooled buffer escape, or returns a buffer to the pool before the call ends',
                                          'model': 'no such site', 'spec': '-', 'kind': 'memory-discipline site in the regenerated SSA facts', 'no_input': True})
        if len(sizes) >= 6:
            out['coverage'] = {'alias_edges_native': sizes[0], 'write_sites_native': sizes[1], 'alias_edges_wasm': sizes[2], 'write_sites_wasm': sizes[3],
                               'exported_reference_parameters': sizes[4], 'package_variables': sizes[5]}
            out['evaluations'] = sizes[1] + sizes[3]
            out['samples'] = [{'write_sites_native': sizes[1], 'write_sites_wasm': sizes[3]}]
        if pid == 'C11' and tier == 'thorough':
            report, n = race_run(seed, log)
            out['coverage']['race_detector_histories'] = n
            if report is None:
                out['violations'].append({'case': '', 'kind': 'the harness could not be built with the race detector', 'no_input': True})
            elif report:
                out['violations'].append({'case': '(race detector) ' + report.split('\n')[1][:200] if '\n' in report else report[:200], 'impl': report, 'model': 'no data race',
                                          'spec': '-', 'kind': 'data race reported by the Go race detector', 'no_input': True})
        return out
    if pid != 'C09':
        return {}
    nat, wasm, sizes = flow_sites(log)
    out = {'violations': [], 'coverage': {}, 'samples': []}
    if nat is None or wasm is None:
        out['violations'].append({'case': '', 'kind': 'the SSA fact bases could not be analysed (Generated/SsaNative.v, SsaWasm.v, Model/Flow.v)', 'no_input': True})
        return out
    for build, sites in (('native', nat), ('js/wasm', wasm)):
        for s_ in sites:
            out['violations'].append({'case': '(flow, %s build) %s' % (build, s_), 'impl': 'HMAC-derived and caller-derived data meet here outside a constant-time comparison',
                                      'model': 'no leak site', 'spec': '-', 'kind': 'leak site in the regenerated SSA facts', 'no_input': True})
    if len(sizes) >= 6:
        out['coverage'] = {'ssa_native_edges': sizes[0], 'ssa_native_comparisons': sizes[1], 'ssa_wasm_edges': sizes[2], 'ssa_wasm_comparisons': sizes[3],
                           'hmac_derived_values_native': sizes[4], 'caller_derived_values_native': sizes[5], 'exhaustive': True}
        out['evaluations'] = sizes[1] + sizes[3]
        out['distinct_nontrivial'] = sizes[4]
        out['rule'] = ' | C09: every comparison and every call leaving the analysed packages in both SSA fact bases is examined (exhaustive over the program text); non-trivial = HMAC-derived values reached'
        out['samples'] = [{'native_edges': sizes[0], 'native_comparisons': sizes[1], 'wasm_edges': sizes[2], 'wasm_comparisons': sizes[3]}]
    out['exhaustive'] = True
    return out
