(** ocra.go and derive_rfc6287.go as translated from the Go source compute what the hand-written model computes. *)
From Coq Require Import ZifyN ZifyNat ZifyBool String.
From OtpV Require Import Prelude Sha Tables GoSem Errors Decoder Derive Otp Ocra Suite OtpProofs Src SrcLift SrcEqDecode SrcEqDerive SrcEqValidate SrcEqOcraV.
Open Scope N_scope.
Ltac Zify.zify_post_hook ::= Z.div_mod_to_equations.

(** ---------- deriveRFC6287 ---------- *)
Lemma pool_at_alg a : pool_at Src.hmacPools (Z.of_N a) = match Derive.alg_of_N a with Some x => Val x | None => Pnc end.
Proof.
  destruct (N.ltb_spec a 3) as [H|H].
  - assert (Ha : a = 0 \/ a = 1 \/ a = 2) by lia. destruct Ha as [->|[->| ->]]; reflexivity.
  - unfold pool_at. destruct (Z.of_N a <? 0)%Z eqn:E; [lia|].
    replace (nth_error Src.hmacPools (Z.to_nat (Z.of_N a))) with (@None alg).
    2:{ symmetry. apply nth_error_None. cbn [Src.hmacPools length]. lia. }
    destruct a as [|p]; [lia|]. destruct p as [[p|p|]|[p|p|]|]; try lia; reflexivity.
Qed.

Lemma suite_validate_digits cfg : Ocra.suite_validate cfg = None -> (4 <= sc_digits cfg <= 10)%Z.
Proof.
  unfold Ocra.suite_validate. destruct ((sc_digits cfg <? 4)%Z || (10 <? sc_digits cfg)%Z) eqn:E; [discriminate|]. lia.
Qed.

Lemma format_decimal_no_err v d e : Derive.format_decimal v d <> Err e.
Proof. apply long_digit_no_err. Qed.

Definition small_input (i : ocra_input) : Prop :=
  small (oi_counter i) /\ small (oi_challenge i) /\ small (oi_password i) /\ small (oi_session i) /\ small (oi_timestamp i).

Lemma src_tail6287 fuel secret cfg msg : (11 <= fuel)%nat -> (4 <= sc_digits cfg <= 10)%Z ->
  (do t5 <- pool_at Src.hmacPools (Z.of_N (sc_hash cfg));
   let hp := t5 in
   let mac := hmac_new hp secret in
   let mac := hash_write mac msg in
   let sum_ := hash_sum mac [] in
   do t6 <- idxN Src.g_mod10 (sc_digits cfg);
   do t7 <- Src.truncate sum_ t6;
   let otp := t7 in
   do t8 <- Src.formatDecimal fuel otp (sc_digits cfg); Val (t8, @None err))
  = lift_oc (match Derive.alg_of_N (sc_hash cfg) with
             | None => Panic
             | Some a => obind (Derive.mod10_at (sc_digits cfg)) (fun md =>
                         obind (Derive.truncate (hmac a secret msg) md) (fun otp => Derive.format_decimal otp (sc_digits cfg)))
             end).
Proof.
  intros Hf Hd. rewrite pool_at_alg. destruct (Derive.alg_of_N (sc_hash cfg)) as [a|]; [|reflexivity].
  cbn [rbind]. cbv zeta. unfold hash_sum, hash_write, hmac_new. cbn [h_alg h_key h_msg app].
  rewrite src_mod10_eq.
  pose proof (mod10_at_no_err (sc_digits cfg)) as Hne.
  destruct (Derive.mod10_at (sc_digits cfg)) as [md|e|]; [|exfalso; apply (Hne e); reflexivity|reflexivity].
  cbn [lift_p rbind obind].
  rewrite src_truncate_eq by apply small_hmac.
  pose proof (truncate_no_err (hmac a secret msg) md) as Hne2.
  destruct (Derive.truncate (hmac a secret msg) md) as [otp|e|]; [|exfalso; apply (Hne2 e); reflexivity|reflexivity].
  cbn [lift_p rbind obind].
  rewrite src_formatDecimal_eq by lia.
  apply lift_p_oc. intros e. apply format_decimal_no_err.
Qed.

Lemma pad_bytes_val x n : (0 <= n)%Z -> exists v, Derive.pad_bytes x n = Ok v.
Proof.
  intros H. unfold Derive.pad_bytes. destruct (n <? 0)%Z eqn:E; [lia|].
  destruct (Nat.leb (Z.to_nat n) (length x)); eauto.
Qed.

Lemma src_deriveRFC6287_eq fuel junk secret cfg i : (11 <= fuel)%nat -> small_input i ->
  Src.deriveRFC6287 fuel junk secret (Some cfg) i = lift_oc (Ocra.derive_rfc6287 secret cfg i).
Proof.
  intros Hf (Hc & Hq & Hp & Hs & Ht).
  unfold Src.deriveRFC6287, Ocra.derive_rfc6287, Ocra.derive_rfc6287_with. cbn [is_some negb deref rbind].
  rewrite src_SuiteConfig_Validate_eq. cbn [rbind].
  destruct (Ocra.suite_validate cfg) as [e|] eqn:Esv; [reflexivity|]. cbn [is_some].
  unfold Src.SuiteConfig_Config. cbn [rbind].
  rewrite src_OCRAInput_Validate_eq. cbn [rbind].
  destruct (Ocra.input_validate cfg i) as [e|]; [reflexivity|]. cbn [is_some].
  pose proof (suite_validate_digits cfg Esv) as Hd.
  assert (Hsl : slice junk 0 0 = Val []).
  { unfold slice, zlen. destruct (Z.of_nat (length junk) <? 0)%Z eqn:E; [lia|]. reflexivity. }
  rewrite Hsl. cbn [rbind app]. cbv zeta.
  unfold Ocra.ocra_message, separator.
  destruct (pad_bytes_val (oi_counter i) 8 ltac:(lia)) as [vc Evc].
  destruct (pad_bytes_val (oi_challenge i) 128 ltac:(lia)) as [vq Evq].
  destruct (pad_bytes_val (oi_session i) 128 ltac:(lia)) as [vs Evs].
  destruct (pad_bytes_val (oi_timestamp i) 8 ltac:(lia)) as [vt Evt].
  rewrite !src_padBytes_eq by (assumption || lia).
  rewrite Evc, Evq, Evs, Evt.
  destruct (sc_c cfg), (sc_q cfg), (sc_p cfg), (sc_s cfg), (sc_t cfg); cbn [lift_p rbind obind];
    apply src_tail6287; assumption.
Qed.

(** ---------- validateRFC6287, GenerateOCRA, ValidateOCRA ---------- *)
Lemma src_validateRFC6287_eq fuel junk code secret cfg i : (11 <= fuel)%nat -> small_input i ->
  Src.validateRFC6287 fuel junk code secret (Some cfg) i
  = lift_v (Otp.validate code (sc_digits cfg) (fun _ => Ocra.derive_rfc6287 secret cfg i)).
Proof.
  intros Hf Hi. unfold Src.validateRFC6287, Src.SuiteConfig_Config. cbn [is_some negb deref rbind].
  apply src_validate_eq. apply src_deriveRFC6287_eq; assumption.
Qed.

Lemma src_GenerateOCRA_eq fuel junk secret cfg i :
  (11 <= fuel)%nat -> (length secret < fuel)%nat -> small secret -> small_input i ->
  Src.GenerateOCRA fuel junk secret (Some cfg) i = lift_oc (Ocra.generate_ocra secret cfg i).
Proof.
  intros Hf Hfs Hs Hi. unfold Src.GenerateOCRA, Ocra.generate_ocra, Ocra.generate_ocra_with.
  pose proof (decode_cases fuel secret Hs Hfs) as Hd.
  destruct (decode_secret secret) as [key|e|].
  - rewrite Hd. cbn [rbind is_some obind]. apply src_deriveRFC6287_eq; assumption.
  - destruct Hd as [b Hd]. rewrite Hd. reflexivity.
  - rewrite Hd. reflexivity.
Qed.

Lemma src_ValidateOCRA_eq fuel junk secret code cfg i :
  (11 <= fuel)%nat -> (length secret < fuel)%nat -> small secret -> small_input i ->
  Src.ValidateOCRA fuel junk secret code (Some cfg) i = lift_v (Ocra.validate_ocra secret code cfg i).
Proof.
  intros Hf Hfs Hs Hi. unfold Src.ValidateOCRA, Ocra.validate_ocra, Ocra.validate_ocra_with.
  pose proof (decode_cases fuel secret Hs Hfs) as Hd.
  destruct (decode_secret secret) as [key|e|].
  - rewrite Hd. cbn [rbind is_some]. apply src_validateRFC6287_eq; assumption.
  - destruct Hd as [b Hd]. rewrite Hd. reflexivity.
  - rewrite Hd. reflexivity.
Qed.


(** a nil Suite is answered with ErrInvalidRawSuite (after the secret was decoded), never dereferenced *)
Lemma src_nil_suite fuel junk secret code i : (length secret < fuel)%nat -> small secret ->
  (exists e, Src.GenerateOCRA fuel junk secret None i = Val ([], Some e)) /\
  (exists e, Src.ValidateOCRA fuel junk secret code None i = Val (false, Some e)) /\
  Src.deriveRFC6287 fuel junk secret None i = Val ([], Some (ESent ErrInvalidRawSuite)) /\
  Src.validateRFC6287 fuel junk code secret None i = Val (false, Some (ESent ErrInvalidRawSuite)).
Proof.
  intros Hf Hs. pose proof (decode_cases fuel secret Hs Hf) as Hd.
  pose proof (OtpProofs.decode_secret_no_panic secret) as Hnp.
  unfold Src.GenerateOCRA, Src.ValidateOCRA.
  destruct (decode_secret secret) as [key|e|].
  - rewrite Hd. cbn [rbind is_some]. repeat split; try reflexivity; eexists; reflexivity.
  - destruct Hd as [b Hd]. rewrite Hd. cbn [rbind is_some]. repeat split; try reflexivity; eexists; reflexivity.
  - congruence.
Qed.
