// verifharness: generates structured test cases (one per line) and executes them against the
// implementation in /repo (built with -tags verif).  `gen <stream> <seed> <n>` prints cases,
// `exec` reads cases on stdin and prints one canonical outcome per line.
package main

import (
	"bufio"
	"fmt"
	"os"
	"runtime"
	"strconv"
	"strings"
	"time"
)

// cases run one after the other on a single worker goroutine; a case that does not return within
// the limit is reported as "timeout" and the worker is abandoned (a hang is an observation)
type job struct {
	line string
	out  chan string
}

var jobs chan job

func worker(in chan job) {
	for j := range in {
		j.out <- run(j.line)
	}
}

func runGuarded(line string) string {
	if jobs == nil {
		jobs = make(chan job)
		go worker(jobs)
	}
	limit := 20 * time.Second
	if v := os.Getenv("HARNESS_CASE_TIMEOUT_S"); v != "" {
		if n, err := strconv.Atoi(v); err == nil {
			limit = time.Duration(n) * time.Second
		}
	}
	j := job{line: line, out: make(chan string, 1)}
	jobs <- j
	select {
	case r := <-j.out:
		return r
	case <-time.After(limit):
		jobs = nil // abandon the stuck worker
		return "timeout"
	}
}

func main() {
	if len(os.Args) < 2 {
		fmt.Fprintln(os.Stderr, "usage: harness gen <stream> <seed> <n> | exec")
		os.Exit(2)
	}
	w := bufio.NewWriterSize(os.Stdout, 1<<20)
	defer w.Flush()
	switch os.Args[1] {
	case "gen":
		seed, _ := strconv.ParseUint(os.Args[3], 10, 64)
		n, _ := strconv.Atoi(os.Args[4])
		g, ok := streams[os.Args[2]]
		if !ok {
			fmt.Fprintln(os.Stderr, "unknown stream", os.Args[2])
			os.Exit(2)
		}
		r := &rng{s: seed*0x9E3779B97F4A7C15 + 0x1234567}
		emit := func(s string) { fmt.Fprintln(w, s) }
		g(r, n, emit)
	case "dump":
		w.Flush()
		dump(os.Stdout)
	case "exec":
		sc := bufio.NewScanner(os.Stdin)
		sc.Buffer(make([]byte, 1<<20), 1<<26)
		// one P: the scratch-buffer pools are then reused deterministically from call to call, so a
		// result that depends on an earlier call's data shows up as a disagreement with the model
		runtime.GOMAXPROCS(1)
		indexed := os.Getenv("HARNESS_INDEXED") != ""
		for i := 0; sc.Scan(); i++ {
			ans := runGuarded(sc.Text())
			if indexed {
				// "<index>\t<answer>": the reader aligns answers with cases by index, whatever else reaches the output
				fmt.Fprintf(w, "#%d\t%s\n", i, strings.ReplaceAll(ans, "\n", " "))
			} else {
				fmt.Fprintln(w, ans)
			}
		}
		stopRest()
	default:
		if !extraCommand(os.Args[1:], w) {
			fmt.Fprintln(os.Stderr, "unknown command", os.Args[1])
			os.Exit(2)
		}
	}
}
