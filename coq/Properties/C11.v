(** C11 — results depend only on arguments, under any concurrency and call history.
    Three parts.  (1) Model/Mem.v: a small-step model of the pooled-buffer discipline with any
    number of library threads, adversary threads that take / overwrite / return pooled buffers, a
    garbage collector emptying the pool, and thread creation at any time; the ownership invariant
    is proved for every reachable state, i.e. every interleaving.  (2) The discipline that model
    assumes of the code — a buffer taken from a pool never leaves the function that took it (nor a
    view of it: the unsafe string conversions included), every Put is deferred, nothing outside
    package initialisation writes memory reachable from a package-level variable — is decided on
    the SSA facts regenerated from the code on every run (Model/Flow.v, [mem_ok]), for the native
    and the js/wasm build.  (3) Every operation of the model is a function of its arguments (no
    state), so any history gives the same answers; the harness compares sequential histories and
    concurrent ones (1..64 goroutines, 1..16 processors, forced collections, a pool adversary)
    with it.  The Go memory model and the happens-before edges of sync.Pool are assumed. *)
From Coq Require Import List String PArith.
From OtpV Require Import Mem MemProofs Flow SsaNative SsaWasm.
Import ListNotations.
Close Scope positive_scope.
Open Scope nat_scope.

Theorem C11_exclusive : forall s, reachable init s ->
  forall t1 t2 th1 th2 a, threads s t1 = Some th1 -> threads s t2 = Some th2 -> held th1 = Some a -> held th2 = Some a ->
  t1 = t2 /\ ~ In a (pool s).
Proof. exact exclusive. Qed.
Print Assumptions C11_exclusive.

Theorem C11_atomic : forall s, reachable init s ->
  forall t arg out, threads s t = Some (mkThread (Lib arg) (Finished out)) -> out = arg.
Proof. exact atomic. Qed.
Print Assumptions C11_atomic.

Theorem C11_reads_own_bytes : forall s, reachable init s ->
  forall t arg a k acc, threads s t = Some (mkThread (Lib arg) (Reading a k acc)) ->
  acc = firstn k arg /\ forall j, j < List.length arg -> heap s a j = nth j arg 0.
Proof. exact reads_own_bytes. Qed.
Print Assumptions C11_reads_own_bytes.

(** the discipline, on the regenerated facts *)
Definition C11_native_sites := Eval vm_compute in mem_site_names SsaNative.mem_facts (msearch SsaNative.mem_facts).
Definition C11_wasm_sites := Eval vm_compute in mem_site_names SsaWasm.mem_facts (msearch SsaWasm.mem_facts).
Print C11_native_sites.
Print C11_wasm_sites.

Theorem C11_discipline : mem_ok SsaNative.mem_facts = true /\ mem_ok SsaWasm.mem_facts = true.
Proof. split; vm_compute; reflexivity. Qed.
Print Assumptions C11_discipline.

Theorem C11_discipline_meaning : forall M, mem_ok M = true ->
  (forall obj i k, In (obj, i, k) (m_writes M) -> aliases M (m_params M) obj -> False) /\
  (forall obj i k, In (obj, i, k) (m_writes M) -> k <> 2%positive -> aliases M (m_globals M) obj -> False) /\
  (forall f r i g, In (f, r, i) (m_results M) -> In (g, f) (m_pool_gets M) -> aliases M (map fst (m_pool_gets M)) r -> False) /\
  (forall i k, In (i, k) (m_puts M) -> k = 2%positive).
Proof. exact mem_ok_sound. Qed.
Print Assumptions C11_discipline_meaning.

(** non-vacuity: a complete run of one library call (spawn, Get, store, load, Put) *)
Definition r1 := mkState (heap init) (pool init) (set_thread init 0 (mkThread (Lib [7]) Idle)) 0.
Definition r2 := mkState (heap r1) (pool r1) (set_thread r1 0 (mkThread (Lib [7]) (Writing 0 0))) 1.
Definition r3 := mkState (write (heap r2) 0 0 7) (pool r2) (set_thread r2 0 (mkThread (Lib [7]) (Writing 0 1))) 1.
Definition r4 := mkState (heap r3) (pool r3) (set_thread r3 0 (mkThread (Lib [7]) (Reading 0 0 []))) 1.
Definition r5 := mkState (heap r4) (pool r4) (set_thread r4 0 (mkThread (Lib [7]) (Reading 0 1 [7]))) 1.
Definition r6 := mkState (heap r5) (0 :: pool r5) (set_thread r5 0 (mkThread (Lib [7]) (Finished [7]))) 1.
Example C11_run : reachable init r6 /\ threads r6 0 = Some (mkThread (Lib [7]) (Finished [7])) /\ pool r6 = [0].
Proof.
  split; [|split; reflexivity].
  apply (r_step init r5 r6); [|exact (s_put r5 0 [7] 0 [7] eq_refl)].
  apply (r_step init r4 r5); [|exact (s_read r4 0 [7] 0 0 [] eq_refl (le_n 1))].
  apply (r_step init r3 r4); [|exact (s_written r3 0 [7] 0 eq_refl)].
  apply (r_step init r2 r3); [|exact (s_write r2 0 [7] 0 0 eq_refl (le_n 1))].
  apply (r_step init r1 r2); [|exact (s_get_fresh r1 0 (mkThread (Lib [7]) Idle) eq_refl eq_refl)].
  apply (r_step init init r1); [apply r_refl|exact (s_spawn init 0 (Lib [7]) eq_refl)].
Qed.
