(** C06 over the Go source (Generated/Src.v: ValidateOCRA, validateRFC6287, validate, GenerateOCRA). *)
From OtpV Require Import Prelude Sha GoSem Tables Decoder Derive Otp Ocra Errors Src SrcLift SrcTop SrcEqDecode SrcEqOtp SrcEqOcraV SrcEqOcra C06.
Open Scope N_scope.

Theorem C06src_iff : forall fuel junk jm jm' secret code cfg i, runs fuel junk secret -> small_input i ->
  (Src.ValidateOCRA fuel jm secret code (Some cfg) i = Val (true, None) <-> Src.GenerateOCRA fuel jm' secret (Some cfg) i = Val (code, None)).
Proof.
  intros fuel junk jm jm' secret code cfg i (Hf & Hfs & Hs & Hj) Hi.
  rewrite src_ValidateOCRA_eq, src_GenerateOCRA_eq by (assumption || lia). rewrite lift_v_true, C06_iff.
  destruct (generate_ocra secret cfg i) as [c|e|]; cbn [lift_oc]; split; intros H; try discriminate; inversion H; reflexivity.
Qed.
Print Assumptions C06src_iff.

Theorem C06src_fail : forall fuel junk jm jm' secret code cfg i e, runs fuel junk secret -> small_input i ->
  Src.GenerateOCRA fuel jm secret (Some cfg) i = Val ([], Some e) ->
  exists e', Src.ValidateOCRA fuel jm' secret code (Some cfg) i = Val (false, Some e').
Proof.
  intros fuel junk jm jm' secret code cfg i e (Hf & Hfs & Hs & Hj) Hi Hg.
  rewrite src_GenerateOCRA_eq in Hg by (assumption || lia). rewrite src_ValidateOCRA_eq by (assumption || lia).
  destruct (generate_ocra secret cfg i) as [c|e0|] eqn:E; cbn [lift_oc] in Hg; try discriminate. inversion Hg; subst.
  destruct (C06_fail secret code cfg i e E) as [e' [k H]]. exists e'. rewrite H. reflexivity.
Qed.
Print Assumptions C06src_fail.

Theorem C06src_verdict : forall fuel junk jm secret code cfg i, runs fuel junk secret -> small_input i ->
  Src.ValidateOCRA fuel jm secret code (Some cfg) i = Val (true, None)
  \/ exists e, Src.ValidateOCRA fuel jm secret code (Some cfg) i = Val (false, Some e).
Proof.
  intros fuel junk jm secret code cfg i (Hf & Hfs & Hs & Hj) Hi.
  rewrite src_ValidateOCRA_eq by (assumption || lia).
  destruct (C06_verdict secret code cfg i) as [k [H|[e H]]]; rewrite H; [left|right; exists e]; reflexivity.
Qed.
Print Assumptions C06src_verdict.
