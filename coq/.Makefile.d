Base/Prelude.vo Base/Prelude.glob Base/Prelude.v.beautified Base/Prelude.required_vo: Base/Prelude.v 
Base/Prelude.vio: Base/Prelude.v 
Base/Prelude.vos Base/Prelude.vok Base/Prelude.required_vos: Base/Prelude.v 
Hash/Consts.vo Hash/Consts.glob Hash/Consts.v.beautified Hash/Consts.required_vo: Hash/Consts.v 
Hash/Consts.vio: Hash/Consts.v 
Hash/Consts.vos Hash/Consts.vok Hash/Consts.required_vos: Hash/Consts.v 
Hash/Sha.vo Hash/Sha.glob Hash/Sha.v.beautified Hash/Sha.required_vo: Hash/Sha.v Base/Prelude.vo Hash/Consts.vo
Hash/Sha.vio: Hash/Sha.v Base/Prelude.vio Hash/Consts.vio
Hash/Sha.vos Hash/Sha.vok Hash/Sha.required_vos: Hash/Sha.v Base/Prelude.vos Hash/Consts.vos
Hash/ShaTest.vo Hash/ShaTest.glob Hash/ShaTest.v.beautified Hash/ShaTest.required_vo: Hash/ShaTest.v Base/Prelude.vo Hash/Sha.vo
Hash/ShaTest.vio: Hash/ShaTest.v Base/Prelude.vio Hash/Sha.vio
Hash/ShaTest.vos Hash/ShaTest.vok Hash/ShaTest.required_vos: Hash/ShaTest.v Base/Prelude.vos Hash/Sha.vos
