(** A small-step model of the library's use of its scratch-buffer pools under arbitrary
    interleavings (C11).  It abstracts deriveRFC4226 / deriveRFC6287 to the discipline the SSA
    facts license (Generated/Ssa*.v, [mem_ok]): take a buffer from the pool ([Get]: any pooled
    buffer, or a fresh one), write the call's own bytes into it one store at a time, read them
    back one load at a time (the HMAC input), and put the buffer back when the call returns (the
    deferred [Put]).  Besides any number of such library threads there are adversary threads that
    take a buffer, overwrite it arbitrarily and put it back, a garbage collector that may drop any
    pooled buffer at any time, and threads may be spawned at any time.

    The theorems hold for every interleaving of any number of threads and steps: a buffer is
    never held by two threads (nor pooled while held), and what a library thread reads back — the
    bytes that go into its HMAC — are exactly its own arguments, whatever the others do. *)
From Coq Require Import List Arith Lia.
Import ListNotations.

Definition addr := nat.
Definition tid := nat.
Definition byte := nat.

Inductive pc :=
| Idle
| Writing (a : addr) (k : nat)
| Reading (a : addr) (k : nat) (acc : list byte)
| Finished (out : list byte).

Inductive kind := Lib (arg : list byte) | Adversary.
Record thread := mkThread { th_kind : kind; th_pc : pc }.

Record state := mkState {
  heap : addr -> nat -> byte;          (* buffer contents: address, index *)
  pool : list addr;                    (* buffers in the pool *)
  threads : tid -> option thread;
  fresh : addr                         (* next address the allocator hands out *)
}.

Definition set_thread (s : state) (t : tid) (th : thread) : tid -> option thread :=
  fun t' => if Nat.eqb t' t then Some th else threads s t'.
Definition write (h : addr -> nat -> byte) (a : addr) (k : nat) (v : byte) : addr -> nat -> byte :=
  fun a' k' => if Nat.eqb a' a then (if Nat.eqb k' k then v else h a' k') else h a' k'.

Inductive step : state -> state -> Prop :=
| s_spawn s t k :
    threads s t = None ->
    step s (mkState (heap s) (pool s) (set_thread s t (mkThread k Idle)) (fresh s))
| s_get_pooled s t th a p1 p2 :
    threads s t = Some th -> th_pc th = Idle -> pool s = p1 ++ a :: p2 ->
    step s (mkState (heap s) (p1 ++ p2) (set_thread s t (mkThread (th_kind th) (Writing a 0))) (fresh s))
| s_get_fresh s t th :
    threads s t = Some th -> th_pc th = Idle ->
    step s (mkState (heap s) (pool s) (set_thread s t (mkThread (th_kind th) (Writing (fresh s) 0))) (S (fresh s)))
| s_write s t arg a k :
    threads s t = Some (mkThread (Lib arg) (Writing a k)) -> k < length arg ->
    step s (mkState (write (heap s) a k (nth k arg 0)) (pool s) (set_thread s t (mkThread (Lib arg) (Writing a (S k)))) (fresh s))
| s_written s t arg a :
    threads s t = Some (mkThread (Lib arg) (Writing a (length arg))) ->
    step s (mkState (heap s) (pool s) (set_thread s t (mkThread (Lib arg) (Reading a 0 []))) (fresh s))
| s_read s t arg a k acc :
    threads s t = Some (mkThread (Lib arg) (Reading a k acc)) -> k < length arg ->
    step s (mkState (heap s) (pool s) (set_thread s t (mkThread (Lib arg) (Reading a (S k) (acc ++ [heap s a k])))) (fresh s))
| s_put s t arg a acc :
    threads s t = Some (mkThread (Lib arg) (Reading a (length arg) acc)) ->
    step s (mkState (heap s) (a :: pool s) (set_thread s t (mkThread (Lib arg) (Finished acc))) (fresh s))
| s_scribble s t a k j v :
    threads s t = Some (mkThread Adversary (Writing a k)) ->
    step s (mkState (write (heap s) a j v) (pool s) (threads s) (fresh s))
| s_adv_put s t a k :
    threads s t = Some (mkThread Adversary (Writing a k)) ->
    step s (mkState (heap s) (a :: pool s) (set_thread s t (mkThread Adversary (Finished []))) (fresh s))
| s_gc s p1 a p2 :
    pool s = p1 ++ a :: p2 ->
    step s (mkState (heap s) (p1 ++ p2) (threads s) (fresh s)).

Inductive reachable (s0 : state) : state -> Prop :=
| r_refl : reachable s0 s0
| r_step s s' : reachable s0 s -> step s s' -> reachable s0 s'.

Definition init : state := mkState (fun _ _ => 0) [] (fun _ => None) 0.

(** the address a thread holds, if any *)
Definition held (th : thread) : option addr :=
  match th_pc th with Writing a _ | Reading a _ _ => Some a | _ => None end.

Record inv (s : state) : Prop := mkInv {
  i_nodup : NoDup (pool s);
  i_pool_lt : forall a, In a (pool s) -> a < fresh s;
  i_held_lt : forall t th a, threads s t = Some th -> held th = Some a -> a < fresh s;
  i_held_notin : forall t th a, threads s t = Some th -> held th = Some a -> ~ In a (pool s);
  i_unique : forall t1 t2 th1 th2 a, threads s t1 = Some th1 -> threads s t2 = Some th2 -> held th1 = Some a -> held th2 = Some a -> t1 = t2;
  i_w_le : forall t arg a k, threads s t = Some (mkThread (Lib arg) (Writing a k)) -> k <= length arg;
  i_w_pre : forall t arg a k, threads s t = Some (mkThread (Lib arg) (Writing a k)) -> forall j, j < k -> heap s a j = nth j arg 0;
  i_r_le : forall t arg a k acc, threads s t = Some (mkThread (Lib arg) (Reading a k acc)) -> k <= length arg;
  i_r_acc : forall t arg a k acc, threads s t = Some (mkThread (Lib arg) (Reading a k acc)) -> acc = firstn k arg;
  i_r_all : forall t arg a k acc, threads s t = Some (mkThread (Lib arg) (Reading a k acc)) -> forall j, j < length arg -> heap s a j = nth j arg 0;
  i_fin : forall t arg out, threads s t = Some (mkThread (Lib arg) (Finished out)) -> out = arg
}.
