(** C04 — TOTP validation accepts exactly the codes of time steps inside the skew window,
    refuses a skew above 10, and therefore does a bounded amount of work. *)
From Coq Require Import String.
From OtpV Require Import Prelude Sha Tables Decoder Derive Otp Rfc4226 DeriveProofs OtpProofs Errors.
Open Scope N_scope.

Theorem C04_iff : forall secret key code unix d per s a,
  decode_secret secret = Ok key -> 1 <= d <= 10 -> s <= 10 -> (0 <= unix < 2 ^ 62)%Z ->
  let n := Z.to_N unix / eff30 per in
  s <= n ->
  (fst (validate_totp secret code unix (Some (mkParam d per s (N_of_alg a)))) = Ok (true, None)
   <-> exists n', n - s <= n' <= n + s /\ code = hotp_value hmac a key n' (N.to_nat d)).
Proof. exact (validate_totp_iff hmac hmac_length hmac_wf). Qed.
Print Assumptions C04_iff.

(** a code validates at the instant it was generated for *)
Theorem C04_self : forall secret key unix d per s a code,
  decode_secret secret = Ok key -> 1 <= d <= 10 -> s <= 10 -> (0 <= unix < 2 ^ 62)%Z ->
  s <= Z.to_N unix / eff30 per ->
  generate_totp secret unix (Some (mkParam d per s (N_of_alg a))) = Ok code ->
  fst (validate_totp secret code unix (Some (mkParam d per s (N_of_alg a)))) = Ok (true, None).
Proof.
  intros secret key unix d per s a code Hk Hd Hs Hu Hn Hg.
  rewrite (generate_totp_is_hotp hmac hmac_length hmac_wf) in Hg by exact Hu. cbn [p_period] in Hg.
  rewrite (generate_hotp_value hmac hmac_length hmac_wf _ key) in Hg by assumption.
  inversion Hg; subst. apply (C04_iff _ key); try assumption.
  exists (Z.to_N unix / eff30 per). split; [lia|reflexivity].
Qed.
Print Assumptions C04_self.

Theorem C04_refuse : forall secret code unix d per s algo,
  10 < s -> validate_totp secret code unix (Some (mkParam d per s algo)) = (Ok (false, Some (ESent ErrInvalidSkew)), O).
Proof. exact (validate_totp_refuse hmac hmac_length hmac_wf). Qed.
Print Assumptions C04_refuse.

(** the work per call — number of HMAC derivations — is at most 21 for every input *)
Theorem C04_bounded_work : forall secret code unix p, (snd (validate_totp secret code unix p) <= 21)%nat.
Proof. exact (validate_totp_cost hmac hmac_length hmac_wf). Qed.
Print Assumptions C04_bounded_work.

(** absent parameters mean 6 digits, SHA-1, 30 s, skew 0; period 0 means 30 s *)
Theorem C04_nil_param : forall secret code unix,
  validate_totp secret code unix None = validate_totp secret code unix (Some (mkParam 6 30 0 0)).
Proof. exact (validate_totp_nil hmac hmac_length hmac_wf). Qed.
Print Assumptions C04_nil_param.

Theorem C04_zero_period : forall secret code unix d s a,
  validate_totp secret code unix (Some (mkParam d 0 s a)) = validate_totp secret code unix (Some (mkParam d 30 s a)).
Proof. reflexivity. Qed.
Print Assumptions C04_zero_period.

Theorem C04_verdict : forall secret code unix p,
  exists k, validate_totp secret code unix p = (Ok (true, None), k)
         \/ exists e, validate_totp secret code unix p = (Ok (false, Some e), k).
Proof. exact (validate_totp_verdict hmac hmac_length hmac_wf). Qed.
Print Assumptions C04_verdict.

(** non-vacuity: RFC 6238 vector T=59 validates with skew 1 at T=89 (next step) but not at T=119 *)
Example C04_window :
  let secret := s2b "GEZDGNBVGY3TQOJQGEZDGNBVGY3TQOJQ"%string in
  fst (validate_totp secret (s2b "94287082"%string) 89 (Some (mkParam 8 30 1 0))) = Ok (true, None) /\
  fst (validate_totp secret (s2b "94287082"%string) 119 (Some (mkParam 8 30 1 0))) = Ok (false, Some (ESent ErrInvalidCode)).
Proof. vm_compute. split; reflexivity. Qed.
