(** Error texts.  Sentinel texts are regenerated from errs.go (Generated/ErrTexts.v); the
    fmt.Errorf templates built by the library are transcribed here.  [render e = None] means
    "text produced by the standard library or by %q quoting — not modelled, only its class". *)
From Coq Require Import String Ascii.
From OtpV Require Import Prelude ErrTexts.
Open Scope N_scope.

Definition s2b (s : string) : bytes := map N_of_ascii (list_ascii_of_string s).

Fixpoint dec_digits_fuel (fuel : nat) (n : N) (acc : bytes) : bytes :=
  match fuel with
  | O => acc
  | S f => let acc' := (48 + n mod 10) :: acc in
           if n / 10 =? 0 then acc' else dec_digits_fuel f (n / 10) acc'
  end.
(** decimal text of a natural number (strconv.FormatUint base 10) *)
Definition dec_of_N (n : N) : bytes := dec_digits_fuel (S (N.to_nat (N.log2 n))) n [].
Definition dec_of_Z (z : Z) : bytes :=
  if (z <? 0)%Z then 45 :: dec_of_N (Z.to_N (- z)) else dec_of_N (Z.to_N z).

Definition sentinel_text (s : sentinel) : bytes :=
  match s with
  | ErrUnsupportedAlgorithm => txt_ErrUnsupportedAlgorithm
  | ErrInvalidCodeLength => txt_ErrInvalidCodeLength
  | ErrInvalidCode => txt_ErrInvalidCode
  | ErrIssuerRequired => txt_ErrIssuerRequired
  | ErrAccountNameRequired => txt_ErrAccountNameRequired
  | ErrSecretRequired => txt_ErrSecretRequired
  | ErrInvalidSkew => txt_ErrInvalidSkew
  | ErrInvalidRawSuite => txt_ErrInvalidRawSuite
  end.

Definition numz (l : list Z) (i : nat) : bytes := dec_of_Z (nth i l 0%Z).
Definition strz (l : list bytes) (i : nat) : bytes := nth i l [].

(** tags of the library's fmt.Errorf / errors.New call sites *)
Definition T_counter_len := 1.     Definition T_chal_short := 2.    Definition T_chal_long := 3.
Definition T_pw_missing := 4.      Definition T_pw_sha1 := 5.       Definition T_pw_sha256 := 6.
Definition T_pw_sha512 := 7.       Definition T_sess_long := 8.     Definition T_ts_len := 9.
Definition T_digit_len := 10.      Definition T_bad_hash := 11.     Definition T_pw_nohash := 12.
Definition T_bad_step := 13.       Definition T_no_format := 14.
(* suite parser: texts use %q, not rendered *)
Definition T_suite_format := 20.   Definition T_suite_version := 21. Definition T_suite_crypto := 22.
Definition T_crypto_format := 23.  Definition T_suite_hash := 24.   Definition T_suite_digits := 25.
Definition T_numeric_spec := 26.   Definition T_pw_type := 27.      Definition T_time_spec := 28.
Definition T_unknown_token := 29.
(* URL *)
Definition T_url_nil := 40.        Definition T_url_scheme := 41.   Definition T_url_type := 42.
Definition T_url_label := 43.      Definition T_url_digits := 44.   Definition T_url_alg := 45.
Definition T_url_period := 46.
(* utils *)
Definition T_invalid_decimal := 50.
Definition T_hex_counter := 51.    Definition T_hex_challenge := 52. Definition T_hex_password := 53.
Definition T_hex_session := 54.    Definition T_hex_timestamp := 55.
Definition T_random := 56.

Definition render (e : err) : option bytes :=
  match e with
  | ESent s => Some (sentinel_text s)
  | EBase32 off => Some (s2b "illegal base32 data at input byte " ++ dec_of_Z off)
  | EStd _ _ => None
  | EFmt t ns ss =>
    match t with
    | 1 => Some (s2b "expected 8-byte counter, got " ++ numz ns 0)
    | 2 => Some (s2b "challenge too short: expected at least " ++ numz ns 0 ++ s2b " bytes, got " ++ numz ns 1)
    | 3 => Some (s2b "challenge too long: must not exceed 128 bytes, got " ++ numz ns 0)
    | 4 => Some (s2b "password required but not provided")
    | 5 => Some (s2b "PSHA1 password must be 20 bytes, got " ++ numz ns 0)
    | 6 => Some (s2b "PSHA256 password must be 32 bytes, got " ++ numz ns 0)
    | 7 => Some (s2b "PSHA512 password must be 64 bytes, got " ++ numz ns 0)
    | 8 => Some (s2b "session info too long: max 128 bytes, got " ++ numz ns 0)
    | 9 => Some (s2b "expected 8-byte timestamp, got " ++ numz ns 0)
    | 10 => Some (s2b "invalid digit length: " ++ numz ns 0)
    | 11 => Some (s2b "unsupported hash algorithm: ")     (* %v of an Algorithm outside the name map prints "" *)
    | 12 => Some (s2b "password input enabled but no password hash specified")
    | 13 => Some (s2b "timestamp input enabled but invalid time step: " ++ numz ns 0)
    | 14 => Some (s2b "challenge input required but no challenge format set")
    | 40 => Some (s2b "nil URL provided")
    | 41 => Some (s2b "invalid URL scheme: " ++ strz ss 0)
    | 42 => Some (s2b "unsupported OTP type: " ++ strz ss 0)
    | 43 => Some (s2b "invalid label format, expected Issuer:AccountName")
    | 44 => Some (s2b "invalid digits value: " ++ strz ss 0)
    | 45 => Some (s2b "unsupported algorithm: " ++ strz ss 0)
    | 46 => Some (s2b "invalid period value: " ++ strz ss 0)
    | _ => None
    end
  end.
