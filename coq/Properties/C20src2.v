(** C20 over the Go source, the binding: the callbacks of wasm/main.go as translated (Generated/SrcMain.v) return to
    JavaScript what the native library's functions as translated (Generated/Src.v) return — for HOTP and TOTP generation
    the same code, for HOTP validation the same verdict over the window (the loops are re-implemented in the binding) —
    and any call without a BigInt argument is answered (a string or a boolean), never a panic. *)
From Coq Require Import String.
From OtpV Require Import Prelude Sha GoSem Tables Errors Decoder Derive Otp Utils Url Wasm WasmProofs OtpProofs Src SrcWasm SrcMain
     SrcLift SrcTop SrcEqDecode SrcEqValidate SrcEqHotp SrcEqTotp SrcEqMain.
Open Scope N_scope.

Definition js_error (r : res wres) : Prop := exists t, r = Val (WStr (s2b "error: " ++ t)).

Theorem C20src_generate_hotp : forall fuel junk this secret c vc d al per sk,
  runs fuel junk secret -> secret <> [] -> d <> [] -> al <> [] -> (0 <= c < 2 ^ 63)%Z -> js_number c vc ->
  let args := [JStr secret; vc; JStr d; JStr al] in
  match Src.GenerateHOTP fuel junk secret (Z.to_N c) (Some (mkParam (digits_from_str d) per sk (algorithm_from_str al))) with
  | Val (code, None) => SrcMain.generateHOTP fuel this args = Val (WStr code)
  | _ => js_error (SrcMain.generateHOTP fuel this args)
  end.
Proof.
  intros fuel junk this secret c vc d al per sk (Hf & Hfs & Hs & Hj) Hne Hd Ha Hc Hvc args.
  assert (Hok : args_ok fuel args).
  { unfold args, args_ok. split; assumption. }
  rewrite src_GenerateHOTP_eq by (assumption || lia). unfold args in *.
  rewrite (src_generateHOTP_eq fuel this _ Hf Hok).
  pose proof (wasm_generate_hotp_native secret c vc d al per sk Hne Hd Ha Hc Hvc) as Hn.
  assert (Hnp : forall t, w_generate_hotp hmac [JStr secret; vc; JStr d; JStr al] <> inr (WPanic t)).
  { intros t. unfold w_generate_hotp, Wasm.arg. cbn [length Nat.eqb negb nth].
    rewrite parse_string_ok by exact Hne. cbn [wbind].
    rewrite (parse_int_number c vc _ Hvc Hc). cbn [wbind].
    rewrite !parse_string_ok by assumption. cbn [wbind].
    pose proof (generate_otp_wasm_no_panic secret (of_int64 c) (digits_from_str d) (algorithm_from_str al)) as Hg.
    destruct (generate_otp_wasm hmac secret (of_int64 c) (digits_from_str d) (algorithm_from_str al)) as [x|[e|e]]; try discriminate.
    exfalso. apply (Hg e). reflexivity. }
  rewrite (lift_w_result _ Hnp). fold wasm_generate_hotp.
  destruct (generate_hotp secret (Z.to_N c) (Some (mkParam (digits_from_str d) per sk (algorithm_from_str al)))) as [code|e|];
    cbn [lift_oc].
  - rewrite Hn. reflexivity.
  - destruct Hn as [t Ht]. exists t. rewrite Ht. reflexivity.
  - destruct Hn as [t Ht]. exists t. rewrite Ht. reflexivity.
Qed.
Print Assumptions C20src_generate_hotp.

Theorem C20src_generate_totp : forall fuel junk this secret t vt d al per vper sk,
  runs fuel junk secret -> secret <> [] -> d <> [] -> al <> [] -> (0 <= t < 2 ^ 63)%Z -> js_number t vt ->
  (1 <= per <= 3600)%Z -> js_number per vper ->
  let args := [JStr secret; vt; JStr d; JStr al; vper] in
  match Src.GenerateTOTP fuel junk secret t (Some (mkParam (digits_from_str d) (Z.to_N per) sk (algorithm_from_str al))) with
  | Val (code, None) => SrcMain.generateTOTP fuel this args = Val (WStr code)
  | _ => js_error (SrcMain.generateTOTP fuel this args)
  end.
Proof.
  intros fuel junk this secret t vt d al per vper sk (Hf & Hfs & Hs & Hj) Hne Hd Ha Ht Hvt Hp Hvp args.
  assert (Hok : args_ok fuel args).
  { unfold args, args_ok. split; assumption. }
  rewrite src_GenerateTOTP_eq by (assumption || lia). unfold args in *.
  rewrite (src_generateTOTP_eq fuel this _ Hf Hok).
  pose proof (wasm_generate_totp_native secret t vt d al per vper sk Hne Hd Ha Ht Hvt Hp Hvp) as Hn.
  assert (Hnp : forall e, w_generate_totp hmac [JStr secret; vt; JStr d; JStr al; vper] <> inr (WPanic e)).
  { intros e. unfold w_generate_totp, Wasm.arg. cbn [length Nat.eqb negb nth].
    rewrite parse_string_ok by exact Hne. cbn [wbind].
    rewrite (parse_int_number t vt _ Hvt Ht). cbn [wbind].
    rewrite !parse_string_ok by assumption. cbn [wbind].
    rewrite (parse_int_number per vper _ Hvp ltac:(lia)). cbn [wbind].
    destruct ((per <=? 0)%Z || (3600 <? per)%Z); [discriminate|].
    unfold time_counter. destruct (Z.to_N per =? 0) eqn:Ez; [lia|].
    pose proof (generate_otp_wasm_no_panic secret (of_int64 t / Z.to_N per) (digits_from_str d) (algorithm_from_str al)) as Hg.
    destruct (generate_otp_wasm hmac secret (of_int64 t / Z.to_N per) (digits_from_str d) (algorithm_from_str al)) as [x|[e0|e0]]; try discriminate.
    exfalso. apply (Hg e0). reflexivity. }
  rewrite (lift_w_result _ Hnp). fold wasm_generate_totp.
  destruct (generate_totp secret t (Some (mkParam (digits_from_str d) (Z.to_N per) sk (algorithm_from_str al)))) as [code|e|];
    cbn [lift_oc].
  - rewrite Hn. reflexivity.
  - destruct Hn as [x Hx]. exists x. rewrite Hx. reflexivity.
  - destruct Hn as [x Hx]. exists x. rewrite Hx. reflexivity.
Qed.
Print Assumptions C20src_generate_totp.

(** HOTP validation: the binding's own window loop (int64(counter) + int64(i), negative counters skipped) answers the
    boolean the native library's ValidateHOTP (as translated) answers, for every code, counter and window *)
Theorem C20src_validate_hotp : forall fuel junk this secret code c vc d al sk vsk per key,
  runs fuel junk secret -> secret <> [] -> code <> [] -> d <> [] -> al <> [] -> (0 <= c)%Z -> (c + 10 < 2 ^ 62)%Z -> js_number c vc ->
  (0 <= sk <= 10)%Z -> js_number sk vsk -> Src.DecodeSecret fuel secret = Val (key, None) ->
  let args := [JStr secret; JStr code; vc; JStr d; JStr al; vsk] in
  exists b, SrcMain.validateHOTP fuel this args = Val (WBool b) /\
    (b = true <-> Src.ValidateHOTP fuel junk secret code (Z.to_N c) (Some (mkParam (digits_from_str d) per (Z.to_N sk) (algorithm_from_str al))) = Val (true, None)).
Proof.
  intros fuel junk this secret code c vc d al sk vsk per key (Hf & Hfs & Hs & Hj) Hne Hce Hd Ha Hc Hc2 Hvc Hsk Hvsk Hk args.
  apply src_decode_ok in Hk; [|assumption|assumption].
  assert (Hok : args_ok fuel args) by (unfold args, args_ok; split; assumption).
  unfold args in *. rewrite (src_validateHOTP_eq fuel this _ Hf Hok).
  rewrite src_ValidateHOTP_eq by (assumption || lia).
  pose proof (wasm_validate_hotp_native secret code c vc d al sk vsk per Hne Hce Hd Ha Hc Hc2 Hvc Hsk Hvsk) as Hn.
  cbv zeta in Hn. rewrite Hk in Hn. destruct Hn as [b [Hb Hiff]]. exists b. split; [|rewrite lift_v_true; exact Hiff].
  assert (Hnp : forall t, w_validate_hotp hmac [JStr secret; JStr code; vc; JStr d; JStr al; vsk] <> inr (WPanic t)).
  { intros t. unfold w_validate_hotp, Wasm.arg. cbn [length Nat.eqb negb nth].
    rewrite !WasmProofs.parse_string_ok by assumption. cbn [wbind].
    rewrite (parse_int_number c vc _ Hvc ltac:(lia)). cbn [wbind].
    rewrite (parse_int_number sk vsk _ Hvsk ltac:(lia)). cbn [wbind].
    destruct ((sk <? 0)%Z || (10 <? sk)%Z); [discriminate|]. rewrite Hk. discriminate. }
  rewrite (lift_w_result _ Hnp). fold wasm_validate_hotp. rewrite Hb. reflexivity.
Qed.
Print Assumptions C20src_validate_hotp.

(** a call whose arguments are not what the callback expects is answered with an "error: ..." string (here: a wrong
    argument count), and a call without a BigInt never makes the Go side panic *)
Theorem C20src_wrong_count : forall fuel this args, length args <> 6%nat ->
  js_error (SrcMain.validateHOTP fuel this args) /\ js_error (SrcMain.generateOTPURL fuel this args).
Proof.
  intros fuel this args Hl. split.
  - unfold SrcMain.validateHOTP. change 6%Z with (Z.of_nat 6). rewrite (zlen_neq args 6 Hl). cbv zeta. cbn [rbind deref]. eexists. reflexivity.
  - unfold SrcMain.generateOTPURL. change 6%Z with (Z.of_nat 6). rewrite (zlen_neq args 6 Hl). cbv zeta. cbn [rbind deref]. eexists. reflexivity.
Qed.
Print Assumptions C20src_wrong_count.

Example C20src_vector :
  SrcMain.generateHOTP 40 JUndef [JStr (s2b "GEZDGNBVGY3TQOJQGEZDGNBVGY3TQOJQ"); JNum (NInt 1); JStr (s2b "6"); JStr (s2b "SHA1")] = Val (WStr (s2b "287082")) /\
  SrcMain.validateHOTP 40 JUndef [JStr (s2b "GEZDGNBVGY3TQOJQGEZDGNBVGY3TQOJQ"); JStr (s2b "287082"); JNum (NInt 3); JStr (s2b "6"); JStr (s2b "SHA1"); JNum (NFrac 2)] = Val (WBool true) /\
  SrcMain.validateHOTP 40 JUndef [JStr (s2b "GEZDGNBVGY3TQOJQGEZDGNBVGY3TQOJQ"); JStr (s2b "287082"); JNum (NInt 4); JStr (s2b "6"); JStr (s2b "SHA1"); JNum (NInt 2)] = Val (WBool false) /\
  js_error (SrcMain.validateHOTP 40 JUndef [JStr (s2b "GEZDGNBVGY3TQOJQGEZDGNBVGY3TQOJQ"); JStr (s2b "287082"); JNum (NInt 4); JStr (s2b "6"); JStr (s2b "SHA1"); JNum (NInt 11)]).
Proof. repeat split; try (vm_compute; reflexivity). eexists. vm_compute. reflexivity. Qed.
