(** C13 over the Go source: verdict shape and text-free errors of the translated validation entry points. *)
From OtpV Require Import Prelude Sha GoSem Tables Errors Decoder Derive Otp Ocra LeakProofs Src SrcLift SrcTop SrcEqDecode SrcEqOtp SrcEqOcraV SrcEqOcra C13.
Open Scope N_scope.

Theorem C13src_hotp : forall fuel junk secret code c p, runs fuel junk secret ->
  verdict_ok (Src.ValidateHOTP fuel junk secret code c p).
Proof.
  intros fuel junk secret code c p (Hf & Hfs & Hs & Hj). rewrite src_ValidateHOTP_eq by (assumption || lia).
  apply lift_v_verdict; [apply C13_verdict_hotp|].
  intros e k H. exact (proj1 (C13_validation_errors_carry_no_text secret code c 0%Z p (mkSuite [] 0 0 0 false false false false false 0 0) (mkInput [] [] [] [] []) e k) H).
Qed.
Print Assumptions C13src_hotp.

Theorem C13src_totp : forall fuel junk secret code t p, runs fuel junk secret ->
  verdict_ok (Src.ValidateTOTP fuel junk secret code t p).
Proof.
  intros fuel junk secret code t p (Hf & Hfs & Hs & Hj). rewrite src_ValidateTOTP_eq by (assumption || lia).
  apply lift_v_verdict; [apply C13_verdict_totp|].
  intros e k H. exact (proj1 (proj2 (C13_validation_errors_carry_no_text secret code 0 t p (mkSuite [] 0 0 0 false false false false false 0 0) (mkInput [] [] [] [] []) e k)) H).
Qed.
Print Assumptions C13src_totp.

Theorem C13src_ocra : forall fuel junk jm secret code cfg i, runs fuel junk secret -> small_input i ->
  verdict_ok (Src.ValidateOCRA fuel jm secret code (Some cfg) i).
Proof.
  intros fuel junk jm secret code cfg i (Hf & Hfs & Hs & Hj) Hi. rewrite src_ValidateOCRA_eq by (assumption || lia).
  apply lift_v_verdict; [apply C13_verdict_ocra|].
  intros e k H. exact (proj2 (proj2 (C13_validation_errors_carry_no_text secret code 0 0%Z None cfg i e k)) H).
Qed.
Print Assumptions C13src_ocra.

(** an error after the HMAC was computed is one of two fixed sentinels *)
Theorem C13src_post_hmac : forall fuel junk code key c d a e,
  (11 <= fuel)%nat -> length junk = 8%nat -> 1 <= d <= 10 ->
  Src.validateRFC4226 fuel junk code key c d (N_of_alg a) = Val (false, Some e) ->
  e = ESent ErrInvalidCode \/ e = ESent ErrInvalidCodeLength.
Proof.
  intros fuel junk code key c d a e Hf Hj Hd H.
  rewrite src_validateRFC4226_eq in H by assumption.
  pose proof (SrcEqValidate.validate_no_err code (Z.of_N d) (fun _ => derive_rfc4226_with hmac key c (Z.of_N d) (N_of_alg a))) as Hne.
  unfold validate_rfc4226 in H. unfold lift_v in H.
  destruct (Otp.validate code (Z.of_N d) (fun _ => derive_rfc4226_with hmac key c (Z.of_N d) (N_of_alg a))) as [o k] eqn:E.
  cbn [fst] in *. destruct o as [[b oe]|e0|]; [|exfalso; apply (Hne e0); reflexivity|discriminate].
  inversion H; subst. apply (C13_post_hmac_errors code key c d a e k Hd). unfold validate_rfc4226. exact E.
Qed.
Print Assumptions C13src_post_hmac.
