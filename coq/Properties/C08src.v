(** C08 over the Go source (Generated/Src.v: RandomSecret as translated from otp.go).  crypto/rand.Read is an oracle
    parameter: the bytes the source delivers for this call.  That consecutive calls read consecutive, disjoint parts of
    the source is the harness's business (recording reader) and the hand-written model's (C08_history). *)
From OtpV Require Import Prelude GoSem Errors Rfc4648 Decoder Random Base32Proofs UtilsProofs Src SrcLift SrcEqUtils C08.
Open Scope N_scope.

(** exactly 20 / 32 / 64 bytes of the source, unmodified, as unpadded base32 that DecodeSecret maps back to them;
    an unsupported hash yields an error and no secret, whatever the source holds *)
Theorem C08src_call : forall junk algo, (64 <= length junk)%nat -> wfb junk ->
  match secret_size algo with
  | Some n => Src.RandomSecret junk algo = Val (b32_nopad (firstn n junk), None) /\
              length (firstn n junk) = n /\ decode_secret (b32_nopad (firstn n junk)) = Ok (firstn n junk) /\
              Forall base32_upper_char (b32_nopad (firstn n junk))
  | None => Src.RandomSecret junk algo = Val ([], Some (ESent ErrUnsupportedAlgorithm))
  end.
Proof.
  intros junk algo Hl Hw. rewrite src_RandomSecret_eq by exact Hl.
  destruct (secret_size algo) as [n|] eqn:E; [|reflexivity].
  assert (Hn : (n <= 64)%nat).
  { unfold secret_size in E. destruct algo as [|[[p|p|]|[p|p|]|]]; inversion E; lia. }
  split; [reflexivity|]. split; [apply firstn_length_le; lia|].
  destruct (C08_text (firstn n junk) (wfb_firstn n junk Hw)) as [H1 H2]. split; assumption.
Qed.
Print Assumptions C08src_call.

Theorem C08src_sizes : forall junk, (64 <= length junk)%nat ->
  (exists s, Src.RandomSecret junk 0 = Val (s, None) /\ s = b32_nopad (firstn 20 junk)) /\
  (exists s, Src.RandomSecret junk 1 = Val (s, None) /\ s = b32_nopad (firstn 32 junk)) /\
  (exists s, Src.RandomSecret junk 2 = Val (s, None) /\ s = b32_nopad (firstn 64 junk)).
Proof. intros junk Hl. rewrite !src_RandomSecret_eq by exact Hl. repeat split; eexists; split; reflexivity. Qed.
Print Assumptions C08src_sizes.
