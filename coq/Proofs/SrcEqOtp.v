(** decoder.go, validate.go, hotp.go, totp.go and TimeCounterFunc as translated from the Go source
    (Generated/Src.v) compute what the hand-written model computes. *)
From Coq Require Import ZifyN ZifyNat ZifyBool String.
From OtpV Require Import Prelude Sha Tables GoSem Errors Decoder Derive Otp Suite Src SrcLift SrcEqDerive.
Open Scope N_scope.
Ltac Zify.zify_post_hook ::= Z.div_mod_to_equations.

(** ---------- DecodeSecret ---------- *)
Lemma to_upper_u_ascii s : Forall (fun c => c < 128) s -> to_upper_u s = to_upper s.
Proof.
  induction s as [|c t IH]; intros H; [reflexivity|].
  apply Forall_cons_iff in H. destruct H as [Hc Ht]. specialize (IH Ht).
  unfold to_upper. cbn [map]. fold (to_upper t). rewrite <- IH.
  destruct t as [|d t'].
  - destruct c as [|p]; [reflexivity|]. do 8 (destruct p as [p|p|]; try reflexivity; try lia).
  - destruct c as [|p]; [reflexivity|]. do 8 (destruct p as [p|p|]; try reflexivity; try lia).
Qed.

Lemma bad_char_cond c :
  (((((N.ltb c 65) || (N.ltb 90 c)) && ((N.ltb c 97) || (N.ltb 122 c))) && ((N.ltb c 50) || (N.ltb 55 c))) && (negb (N.eqb c 61)))
  = negb (in_alphabet_ci c).
Proof. unfold in_alphabet_ci. lia. Qed.

Lemma in_alphabet_ascii c : in_alphabet_ci c = true -> c < 128.
Proof. unfold in_alphabet_ci. lia. Qed.

Lemma first_bad_none_all i s : first_bad i s = None -> Forall (fun c => in_alphabet_ci c = true) s.
Proof.
  revert i. induction s as [|c t IH]; intros i H; [constructor|].
  cbn [first_bad] in H. destruct (in_alphabet_ci c) eqn:E; [|discriminate].
  constructor; [exact E|apply (IH _ H)].
Qed.

Lemma src_DecodeSecret_loop secret f0 kx : small secret ->
  forall rest pre fuel, secret = pre ++ rest -> (length rest < fuel)%nat ->
  Src.DecodeSecret_loop1 fuel f0 secret (Z.of_nat (length pre)) kx =
  match first_bad (Z.of_nat (length pre)) rest with
  | Some j => Val ([], Some (EBase32 j))
  | None => kx (zlen secret)
  end.
Proof.
  intros Hs. induction rest as [|c t IH]; intros pre fuel Hsec Hf.
  - destruct fuel as [|fuel]; [simpl in Hf; lia|].
    cbn [Src.DecodeSecret_loop1 first_bad]. rewrite app_nil_r in Hsec. subst pre.
    unfold zlen. rewrite Z.ltb_irrefl. reflexivity.
  - destruct fuel as [|fuel]; [simpl in Hf; lia|]. cbn [length] in Hf.
    cbn [Src.DecodeSecret_loop1 first_bad].
    assert (Hlen : length secret = (length pre + S (length t))%nat) by (rewrite Hsec, app_length; reflexivity).
    unfold small, zlen in Hs.
    destruct (Z.ltb (Z.of_nat (length pre)) (zlen secret)) eqn:E; [|unfold zlen in E; lia].
    rewrite idx_nat. rewrite Hsec at 1. rewrite nth_error_app2 by lia. rewrite Nat.sub_diag. cbn [nth_error rbind].
    rewrite bad_char_cond. destruct (in_alphabet_ci c); cbn [negb]; [|reflexivity].
    rewrite wrap_int64_small by lia.
    replace (Z.of_nat (length pre) + 1)%Z with (Z.of_nat (length (pre ++ [c]))) by (rewrite app_length; cbn [length]; lia).
    apply IH; [rewrite <- app_assoc; exact Hsec|lia].
Qed.

Lemma str_repeat_eq k : (0 <= k)%Z -> str_repeat (s2b "="%string) k = Val (repeat 61 (Z.to_nat k)).
Proof.
  intros H. unfold str_repeat. destruct (k <? 0)%Z eqn:E; [lia|]. f_equal.
  generalize (Z.to_nat k). intros n. induction n as [|n IH]; [reflexivity|].
  cbn [repeat concat]. rewrite IH. reflexivity.
Qed.

(** the bytes returned next to an error are not looked at by any caller: results are compared up to them *)
Definition norm (r : res (bytes * option err)) : res (bytes * option err) :=
  match r with Val (_, Some e) => Val ([], Some e) | x => x end.

Lemma src_DecodeSecret_eq fuel secret : small secret -> (length secret < fuel)%nat ->
  norm (Src.DecodeSecret fuel secret) = lift_oc (decode_secret secret).
Proof.
  intros Hs Hf. unfold Src.DecodeSecret, decode_secret.
  assert (Hts : (length (trim_space secret) <= length secret)%nat).
  { unfold trim_space, trim_right, trim_left. rewrite frev_rev, rev_length.
    assert (forall f r, (length (trim_right_fuel f r) <= length r)%nat) as HR.
    { induction f as [|f IH]; intros r; cbn [trim_right_fuel]; [lia|].
      destruct (space_suffix_len r); [lia|]. etransitivity; [apply IH|]. rewrite skipn_length. lia. }
    assert (forall f r, (length (trim_left_fuel f r) <= length r)%nat) as HL.
    { induction f as [|f IH]; intros r; cbn [trim_left_fuel]; [lia|].
      destruct (space_prefix_len r); [lia|]. etransitivity; [apply IH|]. rewrite skipn_length. lia. }
    etransitivity; [apply HR|]. rewrite frev_rev, rev_length. apply HL. }
  set (s := trim_space secret) in *.
  assert (Hss : small s) by (unfold small, zlen in *; lia).
  rewrite (src_DecodeSecret_loop s fuel _ Hss s [] fuel eq_refl) by lia.
  cbn [length Z.of_nat].
  destruct (first_bad 0 s) as [j|] eqn:Efb; [reflexivity|].
  apply first_bad_none_all in Efb.
  unfold zlen.
  assert (Hrem : Z.rem (Z.of_nat (length s)) 8 = Z.of_nat (Nat.modulo (length s) 8)).
  { rewrite Z.rem_mod_nonneg by lia. rewrite Nat2Z.inj_mod. reflexivity. }
  rewrite Hrem.
  pose proof (Nat.mod_upper_bound (length s) 8 ltac:(lia)) as Hm.
  set (n := Nat.modulo (length s) 8) in *.
  assert (Hup : forall x, Forall (fun c => in_alphabet_ci c = true) x -> to_upper_u x = to_upper x).
  { intros x Hx. apply to_upper_u_ascii. eapply Forall_impl; [|exact Hx]. intros c. apply in_alphabet_ascii. }
  assert (Hfin : forall x, norm (Val (b32_decode_go x)) =
          lift_oc (match b32_decode_string x with (bs, None) => Ok bs | (_, Some off) => Err (EBase32 off) end)).
  { intros x. unfold b32_decode_go. destruct (b32_decode_string x) as [bs [off|]]; reflexivity. }
  destruct (Nat.eqb_spec n 0) as [En|En].
  - rewrite En. cbn [Z.of_nat Z.eqb negb]. rewrite Hup by exact Efb. apply Hfin.
  - destruct (Z.eqb (Z.of_nat n) 0) eqn:Ez; [lia|]. cbn [negb].
    rewrite wrap_int64_small by lia. rewrite str_repeat_eq by lia. cbn [rbind].
    replace (Z.to_nat (8 - Z.of_nat n)) with (8 - n)%nat by lia.
    rewrite Hup.
    + apply Hfin.
    + apply Forall_app. split; [exact Efb|]. apply Forall_forall. intros y Hy. apply repeat_spec in Hy. subst y. reflexivity.
Qed.

Lemma decode_cases fuel secret : small secret -> (length secret < fuel)%nat ->
  match decode_secret secret with
  | Ok key => Src.DecodeSecret fuel secret = Val (key, None)
  | Err e => exists b, Src.DecodeSecret fuel secret = Val (b, Some e)
  | Panic => Src.DecodeSecret fuel secret = Pnc
  end.
Proof.
  intros Hs Hf. pose proof (src_DecodeSecret_eq fuel secret Hs Hf) as H.
  destruct (decode_secret secret) as [key|e|]; destruct (Src.DecodeSecret fuel secret) as [[b [e'|]]| |];
    cbn [norm lift_oc] in H; try discriminate; try (inversion H; subst); eauto.
Qed.

(** ---------- validate, validateRFC4226 ---------- *)
Lemma beqb_bytes_eqb a b : beqb a b = bytes_eqb a b.
Proof. revert b; induction a as [|x a IH]; intros [|y b]; cbn [beqb bytes_eqb]; try reflexivity; rewrite IH; reflexivity. Qed.

Lemma validate_no_err code n d e : fst (Otp.validate code n d) <> Err e.
Proof.
  unfold Otp.validate. destruct (negb (zlen code =? n)%Z); [discriminate|].
  destruct (d tt); [|discriminate|discriminate]. destruct (bytes_eqb code a); discriminate.
Qed.

Lemma src_validate_eq code n dF d : dF tt = lift_oc (d tt) ->
  Src.validate code n dF = lift_v (Otp.validate code n d).
Proof.
  intros H. unfold Src.validate, Otp.validate, lift_v.
  destruct (negb (Z.eqb (zlen code) n)); [reflexivity|].
  rewrite H. destruct (d tt) as [expected|e|]; cbn [lift_oc rbind is_some fst]; [|reflexivity|reflexivity].
  unfold ct_compare. rewrite beqb_bytes_eqb. destruct (bytes_eqb code expected); reflexivity.
Qed.

Lemma src_validateRFC4226_eq fuel junk code secret counter digits algo :
  (11 <= fuel)%nat -> length junk = 8%nat ->
  Src.validateRFC4226 fuel junk code secret counter digits algo
  = lift_v (Otp.validate_rfc4226 hmac code secret counter digits algo).
Proof.
  intros Hf Hj. unfold Src.validateRFC4226, Otp.validate_rfc4226, Src.Digits_Int. cbn [rbind].
  apply src_validate_eq. cbn [rbind]. apply src_deriveRFC4226_eq; assumption.
Qed.

(** ---------- GenerateHOTP ---------- *)
Lemma default_hotp_eq : Src.g_DefaultHOTPParam = Some default_hotp_param.
Proof. reflexivity. Qed.
Lemma default_totp_eq : Src.g_DefaultTOTPParam = Some default_totp_param.
Proof. reflexivity. Qed.

Lemma src_GenerateHOTP_eq fuel junk secret counter p :
  (11 <= fuel)%nat -> (length secret < fuel)%nat -> small secret -> length junk = 8%nat ->
  Src.GenerateHOTP fuel junk secret counter p = lift_oc (Otp.generate_hotp secret counter p).
Proof.
  intros Hf Hfs Hs Hj. unfold Src.GenerateHOTP, Otp.generate_hotp, Otp.generate_hotp_with.
  rewrite default_hotp_eq.
  assert (Hk : forall q, (do t1 <- Src.DecodeSecret fuel secret;
      let '(secretBuf, err_) := t1 in
      if is_some err_ then Val ([], err_)
      else do t2 <- deref (Some q); do t3 <- Src.Digits_Int (p_digits t2); do t4 <- deref (Some q);
           Src.deriveRFC4226 fuel junk secretBuf counter t3 (p_alg t4))
    = lift_oc (obind (decode_secret secret) (fun key => derive_rfc4226_with hmac key counter (Z.of_N (p_digits q)) (p_alg q)))).
  { intros q. pose proof (decode_cases fuel secret Hs Hfs) as Hd.
    destruct (decode_secret secret) as [key|e|].
    - rewrite Hd. cbn [rbind is_some deref obind]. unfold Src.Digits_Int. cbn [rbind].
      apply src_deriveRFC4226_eq; assumption.
    - destruct Hd as [b Hd]. rewrite Hd. reflexivity.
    - rewrite Hd. reflexivity. }
  destruct p as [q|]; cbn [is_some negb deref rbind]; apply Hk.
Qed.

(** ---------- ValidateHOTP ---------- *)
Definition zseq (i : Z) (n : nat) : list Z := map (fun k => (i + Z.of_nat k)%Z) (seq 0 n).
Lemma zseq_S i n : zseq i (S n) = i :: zseq (i + 1) n.
Proof.
  unfold zseq. cbn [seq map]. f_equal; [lia|]. rewrite <- seq_shift, map_map. apply map_ext. intros k. lia.
Qed.
Lemma offsets_zseq sk : offsets sk = zseq (- Z.of_N sk) (2 * N.to_nat sk + 1).
Proof. unfold offsets, zseq. apply map_ext. intros k. lia. Qed.

Lemma usub64_sub64 a b : usub 64 a b = sub64 a b.
Proof. reflexivity. Qed.

Definition fail_code : res (bool * option err) := Val (false, Some (ESent ErrInvalidCode)).

Lemma src_ValidateHOTP_loop junk code key counter p fuel0 :
  (11 <= fuel0)%nat -> length junk = 8%nat ->
  forall n i fuel cost skew, (n < fuel)%nat -> (i + Z.of_nat n = skew + 1)%Z -> (-100 <= i)%Z -> (skew <= 100)%Z ->
  Src.ValidateHOTP_loop1 fuel fuel0 junk skew counter code key (Some p) i (fun _ => fail_code)
  = lift_v (hotp_loop hmac (zseq i n) code key counter (p_digits p) (p_alg p) cost).
Proof.
  intros Hf0 Hj. induction n as [|n IH]; intros i fuel cost skew Hf Hi Hlo Hhi.
  - destruct fuel as [|fuel]; [lia|]. cbn [Src.ValidateHOTP_loop1 zseq seq map hotp_loop].
    destruct (Z.leb i skew) eqn:E; [lia|]. reflexivity.
  - destruct fuel as [|fuel]; [lia|]. rewrite zseq_S. cbn [Src.ValidateHOTP_loop1 hotp_loop].
    destruct (Z.leb i skew) eqn:E; [|lia].
    rewrite !wrap_int64_small by lia. cbn [deref rbind].
    change (Z.ltb i 0) with (i <? 0)%Z.
    change (N.ltb counter (of_int64 (- i))) with (counter <? of_int64 (- i)).
    assert (Hrec : forall cost', Src.ValidateHOTP_loop1 fuel fuel0 junk skew counter code key (Some p) (i + 1) (fun _ => fail_code)
                   = lift_v (hotp_loop hmac (zseq (i + 1) n) code key counter (p_digits p) (p_alg p) cost')).
    { intros cost'. apply IH; lia. }
    assert (Hstep : forall c,
      (do t6 <- Src.validateRFC4226 fuel0 junk code key c (p_digits p) (p_alg p);
       let '(valid, err_2) := t6 in
       if negb (is_some err_2) && valid then Val (true, None)
       else Src.ValidateHOTP_loop1 fuel fuel0 junk skew counter code key (Some p) (i + 1) (fun _ => fail_code))
      = lift_v (match validate_rfc4226 hmac code key c (p_digits p) (p_alg p) with
                | (Ok (true, None), k) => (Ok (true, None), (cost + k)%nat)
                | (Ok _, k) => hotp_loop hmac (zseq (i + 1) n) code key counter (p_digits p) (p_alg p) (cost + k)
                | (o, k) => (o, (cost + k)%nat)
                end)).
    { intros c. rewrite src_validateRFC4226_eq by assumption.
      pose proof (validate_no_err code (Z.of_N (p_digits p)) (fun _ => derive_rfc4226_with hmac key c (Z.of_N (p_digits p)) (p_alg p))) as Hne.
      unfold validate_rfc4226 in *.
      destruct (Otp.validate code (Z.of_N (p_digits p)) (fun _ => derive_rfc4226_with hmac key c (Z.of_N (p_digits p)) (p_alg p))) as [o k].
      cbn [fst] in Hne. unfold lift_v at 1. cbn [fst].
      destruct o as [[b oe]|e|]; [|exfalso; apply (Hne e); reflexivity|reflexivity].
      cbn [rbind]. destruct b, oe as [e|]; cbn [is_some negb andb]; try reflexivity; apply Hrec. }
    destruct (i <? 0)%Z eqn:Eneg.
    + destruct (counter <? of_int64 (- i)) eqn:Eu; cbn [andb].
      * apply Hrec.
      * rewrite usub64_sub64. apply Hstep.
    + cbn [andb]. apply Hstep.
Qed.

Lemma src_ValidateHOTP_eq fuel junk secret code counter p :
  (22 <= fuel)%nat -> (length secret < fuel)%nat -> small secret -> length junk = 8%nat ->
  Src.ValidateHOTP fuel junk secret code counter p = lift_v (Otp.validate_hotp secret code counter p).
Proof.
  intros Hf Hfs Hs Hj. unfold Src.ValidateHOTP, Otp.validate_hotp, Otp.validate_hotp_with.
  rewrite default_hotp_eq.
  assert (Hk : forall q,
    (do t1 <- deref (Some q);
     if N.ltb 10 (p_skew t1) then Val (false, Some (ESent ErrInvalidSkew))
     else do t2 <- deref (Some q);
          let skew_ := to_int64 (p_skew t2) in
          do t3 <- Src.DecodeSecret fuel secret;
          let '(secretBuf, err_) := t3 in
          if is_some err_ then Val (false, err_)
          else let i := wrap_int64 (Z.opp skew_) in
               Src.ValidateHOTP_loop1 fuel fuel junk skew_ counter code secretBuf (Some q) i
                 (fun _ : Z => Val (false, Some (ESent ErrInvalidCode))))
    = lift_v (if skew_refused hotp_max_skew (p_skew q) then (Ok (false, Some (ESent ErrInvalidSkew)), O)
              else match decode_secret secret with
                   | Panic => (Panic, O)
                   | Err e => (Ok (false, Some e), O)
                   | Ok key => hotp_loop hmac (offsets (p_skew q)) code key counter (p_digits q) (p_alg q) O
                   end)).
  { intros q. cbn [deref rbind]. unfold skew_refused, hotp_max_skew.
    change (N.ltb 10 (p_skew q)) with (10 <? p_skew q).
    destruct (10 <? p_skew q) eqn:Esk; [reflexivity|].
    assert (Hsk : to_int64 (p_skew q) = Z.of_N (p_skew q)).
    { unfold to_int64, two63. destruct (p_skew q <? 9223372036854775808) eqn:E; [reflexivity|lia]. }
    rewrite Hsk.
    pose proof (decode_cases fuel secret Hs Hfs) as Hd.
    destruct (decode_secret secret) as [key|e|].
    - rewrite Hd. cbn [rbind is_some].
      rewrite wrap_int64_small by lia. rewrite offsets_zseq.
      apply (src_ValidateHOTP_loop junk code key counter q fuel); lia.
    - destruct Hd as [b Hd]. rewrite Hd. reflexivity.
    - rewrite Hd. reflexivity. }
  destruct p as [q|]; cbn [is_some negb]; [apply Hk|].
  cbn [deref rbind]. apply (Hk default_hotp_param).
Qed.

(** ---------- TimeCounterFunc, GenerateTOTP, ValidateTOTP ---------- *)
Lemma src_TimeCounterFunc_eq t period : Src.TimeCounterFunc t period = lift_p (Otp.time_counter t period).
Proof. unfold Src.TimeCounterFunc, Otp.time_counter, udiv. destruct (period =? 0); reflexivity. Qed.

Lemma src_GenerateTOTP_eq fuel junk secret t p :
  (11 <= fuel)%nat -> (length secret < fuel)%nat -> small secret -> length junk = 8%nat ->
  Src.GenerateTOTP fuel junk secret t p = lift_oc (Otp.generate_totp secret t p).
Proof.
  intros Hf Hfs Hs Hj. unfold Src.GenerateTOTP, Otp.generate_totp, Otp.generate_totp_with.
  rewrite default_totp_eq.
  assert (Hk : forall q,
    (do t1 <- Src.DecodeSecret fuel secret;
     let '(secretBuf, err_) := t1 in
     if is_some err_ then Val ([], err_)
     else do t2 <- deref (Some q);
          let period := p_period t2 in
          let kj2 := fun period : N =>
            do t3 <- Src.TimeCounterFunc t period; do t4 <- deref (Some q); do t5 <- Src.Digits_Int (p_digits t4);
            do t6 <- deref (Some q); Src.deriveRFC4226 fuel junk secretBuf t3 t5 (p_alg t6) in
          if N.eqb period 0 then let period := 30 in kj2 period else kj2 period)
    = lift_oc (obind (decode_secret secret) (fun key =>
        obind (time_counter t (eff_period totp_gen_zero_period (p_period q))) (fun c =>
          derive_rfc4226_with hmac key c (Z.of_N (p_digits q)) (p_alg q))))).
  { intros q. pose proof (decode_cases fuel secret Hs Hfs) as Hd.
    destruct (decode_secret secret) as [key|e|].
    - rewrite Hd. cbn [rbind is_some deref obind]. unfold eff_period, totp_gen_zero_period.
      change (N.eqb (p_period q) 0) with (p_period q =? 0).
      assert (Hc : forall pe, (do t3 <- Src.TimeCounterFunc t pe; do t4 <- Val q; do t5 <- Src.Digits_Int (p_digits t4);
                    do t6 <- Val q; Src.deriveRFC4226 fuel junk key t3 t5 (p_alg t6))
                 = lift_oc (obind (time_counter t pe) (fun c => derive_rfc4226_with hmac key c (Z.of_N (p_digits q)) (p_alg q)))).
      { intros pe. rewrite src_TimeCounterFunc_eq. unfold time_counter. destruct (pe =? 0); [reflexivity|].
        cbn [lift_p rbind obind]. unfold Src.Digits_Int. cbn [rbind]. apply src_deriveRFC4226_eq; assumption. }
      destruct (p_period q =? 0); apply Hc.
    - destruct Hd as [b Hd]. rewrite Hd. reflexivity.
    - rewrite Hd. reflexivity. }
  destruct p as [q|]; cbn [is_some negb deref rbind]; apply Hk.
Qed.

Lemma src_ValidateTOTP_loop junk code key counter p fuel0 :
  (11 <= fuel0)%nat -> length junk = 8%nat ->
  forall n i fuel cost skew, (n < fuel)%nat -> (i + Z.of_nat n = Z.of_N skew + 1)%Z -> (-100 <= i)%Z -> (skew <= 100) ->
  Src.ValidateTOTP_loop1 fuel fuel0 junk skew code key counter (Some p) i (fun _ => fail_code)
  = lift_v (totp_loop hmac (zseq i n) code key counter (p_digits p) (p_alg p) cost).
Proof.
  intros Hf0 Hj. induction n as [|n IH]; intros i fuel cost skew Hf Hi Hlo Hhi.
  - destruct fuel as [|fuel]; [lia|]. cbn [Src.ValidateTOTP_loop1 zseq seq map totp_loop].
    assert (Hsk : to_int64 skew = Z.of_N skew).
    { unfold to_int64, two63. destruct (skew <? 9223372036854775808) eqn:E; [reflexivity|lia]. }
    rewrite Hsk. destruct (Z.leb i (Z.of_N skew)) eqn:E; [lia|]. reflexivity.
  - destruct fuel as [|fuel]; [lia|]. rewrite zseq_S. cbn [Src.ValidateTOTP_loop1 totp_loop].
    assert (Hsk : to_int64 skew = Z.of_N skew).
    { unfold to_int64, two63. destruct (skew <? 9223372036854775808) eqn:E; [reflexivity|lia]. }
    rewrite Hsk. destruct (Z.leb i (Z.of_N skew)) eqn:E; [|lia].
    rewrite !wrap_int64_small by lia. cbn [deref rbind].
    rewrite src_validateRFC4226_eq by assumption.
    assert (Hrec : forall cost', Src.ValidateTOTP_loop1 fuel fuel0 junk skew code key counter (Some p) (i + 1) (fun _ => fail_code)
                   = lift_v (totp_loop hmac (zseq (i + 1) n) code key counter (p_digits p) (p_alg p) cost')).
    { intros cost'. apply IH; lia. }
    pose proof (validate_no_err code (Z.of_N (p_digits p)) (fun _ => derive_rfc4226_with hmac key (wrap64 (counter + of_int64 i)) (Z.of_N (p_digits p)) (p_alg p))) as Hne.
    unfold validate_rfc4226 in *.
    change (N.add counter (of_int64 i)) with (counter + of_int64 i).
    destruct (Otp.validate code (Z.of_N (p_digits p)) (fun _ => derive_rfc4226_with hmac key (wrap64 (counter + of_int64 i)) (Z.of_N (p_digits p)) (p_alg p))) as [o k].
    cbn [fst] in Hne. unfold lift_v at 1. cbn [fst].
    destruct o as [[b oe]|e|]; [|exfalso; apply (Hne e); reflexivity|reflexivity].
    cbn [rbind]. destruct b, oe as [e|]; cbn [is_some negb andb]; try reflexivity; apply Hrec.
Qed.

Lemma src_ValidateTOTP_eq fuel junk secret code t p :
  (22 <= fuel)%nat -> (length secret < fuel)%nat -> small secret -> length junk = 8%nat ->
  Src.ValidateTOTP fuel junk secret code t p = lift_v (Otp.validate_totp secret code t p).
Proof.
  intros Hf Hfs Hs Hj. unfold Src.ValidateTOTP, Otp.validate_totp, Otp.validate_totp_with.
  rewrite default_totp_eq.
  assert (Hk : forall q,
    (do t1 <- deref (Some q);
     if N.ltb 10 (p_skew t1) then Val (false, Some (ESent ErrInvalidSkew))
     else do t2 <- Src.DecodeSecret fuel secret;
          let '(secretBuf, err_) := t2 in
          if is_some err_ then Val (false, err_)
          else do t3 <- deref (Some q);
               let period := p_period t3 in
               let kj2 := fun period : N =>
                 do t4 <- deref (Some q);
                 let skew_ := p_skew t4 in
                 do t5 <- Src.TimeCounterFunc t period;
                 let counter := t5 in
                 let i := wrap_int64 (Z.opp (to_int64 skew_)) in
                 Src.ValidateTOTP_loop1 fuel fuel junk skew_ code secretBuf counter (Some q) i
                   (fun _ : Z => Val (false, Some (ESent ErrInvalidCode))) in
               if N.eqb period 0 then let period := 30 in kj2 period else kj2 period)
    = lift_v (if skew_refused totp_max_skew (p_skew q) then (Ok (false, Some (ESent ErrInvalidSkew)), O)
              else match decode_secret secret with
                   | Panic => (Panic, O)
                   | Err e => (Ok (false, Some e), O)
                   | Ok key =>
                     match time_counter t (eff_period totp_val_zero_period (p_period q)) with
                     | Ok counter => totp_loop hmac (offsets (p_skew q)) code key counter (p_digits q) (p_alg q) O
                     | Err e => (Ok (false, Some e), O)
                     | Panic => (Panic, O)
                     end
                   end)).
  { intros q. cbn [deref rbind]. unfold skew_refused, totp_max_skew.
    change (N.ltb 10 (p_skew q)) with (10 <? p_skew q).
    destruct (10 <? p_skew q) eqn:Esk; [reflexivity|].
    assert (Hsk : to_int64 (p_skew q) = Z.of_N (p_skew q)).
    { unfold to_int64, two63. destruct (p_skew q <? 9223372036854775808) eqn:E; [reflexivity|lia]. }
    pose proof (decode_cases fuel secret Hs Hfs) as Hd.
    destruct (decode_secret secret) as [key|e|].
    - rewrite Hd. cbn [rbind is_some]. unfold eff_period, totp_val_zero_period.
      change (N.eqb (p_period q) 0) with (p_period q =? 0).
      assert (Hc : forall pe,
        (do t5 <- Src.TimeCounterFunc t pe;
         Src.ValidateTOTP_loop1 fuel fuel junk (p_skew q) code key t5 (Some q) (wrap_int64 (- to_int64 (p_skew q)))
           (fun _ : Z => Val (false, Some (ESent ErrInvalidCode))))
        = lift_v (match time_counter t pe with
                  | Ok counter => totp_loop hmac (offsets (p_skew q)) code key counter (p_digits q) (p_alg q) O
                  | Err e => (Ok (false, Some e), O)
                  | Panic => (Panic, O)
                  end)).
      { intros pe. rewrite src_TimeCounterFunc_eq. unfold time_counter. destruct (pe =? 0); [reflexivity|].
        cbn [lift_p rbind]. rewrite Hsk. rewrite wrap_int64_small by lia. rewrite offsets_zseq.
        apply (src_ValidateTOTP_loop junk code key (of_int64 t / pe) q fuel); lia. }
      destruct (p_period q =? 0); apply Hc.
    - destruct Hd as [b Hd]. rewrite Hd. reflexivity.
    - rewrite Hd. reflexivity. }
  destruct p as [q|]; cbn [is_some negb]; [apply Hk|].
  cbn [deref rbind]. apply (Hk default_totp_param).
Qed.
